/-
C12 — predicted progeny variances equal the exact variance of the cross's gametes.
Property theorems only (helper lemmas: Lemmas/VarSums, VarBlocks, VarExpect, VarMoments, VarSchemes,
VarAssemble, VarStruct, VarHaldane, VarLoops, VarFilial, VarSpec, VarInf, VarNonneg, VarXmap).

Model: PybropsModel/Model/Variance.lean
  `Setup.twoWay / threeWay / fourWay / dihybrid`  the cells of the four genetic variance classes and of
      the four progeny covariance classes (trait pair `(s,t)`; the variance classes report `s = t`);
  `covD1s / covD2s / rprobFilial`                 `model/vmat/util.py`;
  `chunks`                                        `zip(range(lst,lsp,step), srange(lst+step,lsp,step))`;
  `E`, `gameteAt`, `ssdE`, `twoWayE / threeWayE / fourWayE`, `covOf`, `dhValue`
      exhaustive enumeration of all crossover masks of every meiosis of the scheme with their
      probabilities (selfing = single-seed descent), the doubled haploid's genetic value.

Hypotheses shared by the enumeration theorems (`Compat S xs p`): `xs` are the crossover probabilities of
the meiosis model, 1/2 at the first marker of each linkage group; the recombination matrix the code
obtains from the map function composes without interference along a linkage group
(`1 - 2 r_ij = Π_{i<k≤j}(1 - 2 x_k)`); linkage groups tile the markers.  `eq_enum_haldane` discharges
`Compat` for `HaldaneMapFunction.mapfn` over ℝ.  All theorems hold for every number of markers, taxa,
traits, linkage groups, every chunk size and every finite selfing depth; `nself = inf` is covered by
`selfing_limit`, `selfing_limit_bound`, `twoWayDH_inf_error`.

The usefulness-criterion cell follows fix D37 (`sqrt(max(pvar, 0))`; `ucValPrerepair` = the old form, Float witness
`uc_sqrt_of_rounded_variance_prerepair_counterexample`); `uc_def*` / `ucmat_rows` are proved for the repaired form.
Round 4 adds (section 9): `variance_nonneg` (every reported variance is the variance of a probability distribution),
`trait_symm` (all covariance classes), `xmap_spec` (`triuix` / `triudix` as written list exactly the weakly / strictly
increasing index tuples, once), `ucmat_rows` (`_calc_uc` for ANY list of configurations, in any parent order),
`genic_loops_written` (the genic loops over `numpy.empty` write every cell, with the closed form).

The model mirrors /repo after the fixes D15, D30–D33 (genic diagonal and shapes, covariance trait axis, `mem`
default, self-hybrid cells); the pre-repair behaviours survive only as `…Pre` definitions and
`…_prerepair_counterexample` theorems.
-/
import PybropsModel.Lemmas.VarStruct
import PybropsModel.Lemmas.VarHaldane
import PybropsModel.Lemmas.VarLoops
import PybropsModel.Lemmas.VarFilial
import PybropsModel.Lemmas.VarSpec
import PybropsModel.Lemmas.VarInf
import PybropsModel.Lemmas.VarNonneg
import PybropsModel.Lemmas.VarXmap
set_option autoImplicit false
set_option linter.unusedSectionVars false

namespace C12
open Variance

/-! ## 1. chunking -/

/-- **`chunks_tile`** — `zip(range(lst,lsp,step), srange(lst+step,lsp,step))` yields consecutive blocks
    that start at `lst` and end at `lsp`, for every `step ≥ 1`. -/
theorem chunks_tile (lst lsp step : Nat) (hs : 0 < step) (h : lst ≤ lsp) :
    Tiles lst lsp (chunks lst lsp step) :=
  chunks_tiles' lst lsp step hs h

section field
variable {α : Type} [Field α] [CharZero α]

/-- the same inputs with another memory-chunking parameter -/
def withMem (S : Setup α) (mem : Option Nat) : Setup α := { S with mem := mem }

/-- **`chunk_invariant`** — every cell of the two-, three-, four-way and dihybrid matrices (variance
    and covariance classes) is unchanged by the memory-chunking parameter. -/
theorem chunk_invariant (S : Setup α) (mem' : Option Nat) (hm : MemOK S.mem) (hm' : MemOK mem')
    (hc : ChrOK S.chrs) (a b c d s t : Nat) :
    (withMem S mem').twoWay a b s t = S.twoWay a b s t ∧
    (withMem S mem').threeWay a b c s t = S.threeWay a b c s t ∧
    (withMem S mem').fourWay a b c d s t = S.fourWay a b c d s t ∧
    (withMem S mem').dihybrid a b s t = S.dihybrid a b s t := by
  have h2 : ∀ f m, (withMem S mem').twoWayLower f m s t = S.twoWayLower f m s t := by
    intro f m
    rw [Setup.twoWayLower_closed (withMem S mem') hm' hc, Setup.twoWayLower_closed S hm hc]; rfl
  have h3 : ∀ r f m, (withMem S mem').threeWayLower r f m s t = S.threeWayLower r f m s t := by
    intro r f m
    rw [Setup.threeWayLower_closed (withMem S mem') hm' hc, Setup.threeWayLower_closed S hm hc]; rfl
  have h4 : ∀ f2 m2 f1 m1, (withMem S mem').fourWayLower f2 m2 f1 m1 s t = S.fourWayLower f2 m2 f1 m1 s t := by
    intro f2 m2 f1 m1
    rw [Setup.fourWayLower_closed (withMem S mem') hm' hc, Setup.fourWayLower_closed S hm hc]; rfl
  have hd : ∀ f m, (withMem S mem').dihybridLower f m s t = S.dihybridLower f m s t := by
    intro f m
    rw [Setup.dihybridLower_closed (withMem S mem') hm' hc, Setup.dihybridLower_closed S hm hc]; rfl
  refine ⟨?_, ?_, ?_, ?_⟩
  · unfold Setup.twoWay; simp only [h2]
  · unfold Setup.threeWay; simp only [h3]
  · unfold Setup.fourWay; simp only [h4]
  · unfold Setup.dihybrid; simp only [hd]

/-! ## 2. equality with the exhaustive enumeration -/

/-- **`twoWayDH_eq_enum`** — two-way doubled-haploid cross of the inbred lines `f`, `m`, any finite
    selfing depth `n`: the reported (co)variance equals the covariance of the doubled-haploid values
    obtained by enumerating every crossover mask of every meiosis with its probability.
    Holds for all index pairs (including `f = m`, where both sides are 0). -/
theorem twoWayDH_eq_enum (S : Setup α) (xs : List α) (p n : Nat) (hn : S.nself = some n)
    (hc : Compat S xs p) (hm : MemOK S.mem) (f m s t : Nat) :
    S.twoWay f m s t =
      covOf (twoWayE xs n (S.g0 f) (S.g0 m)) (dhValue p (fun i => S.u i s)) (dhValue p (fun i => S.u i t)) := by
  rw [cov_eq_genomeKer hc (lin_twoWay xs n _ _) _ _
      (fun c i j => (S.g0 f i - S.g0 m i) * delta c n * (S.g0 f j - S.g0 m j))
      (fun i j => coordCov_twoWay xs hc.half n _ _ i j)
      (fun i j => by simp only [delta_zero]; ring)]
  unfold Setup.twoWay
  split_ifs with h1 h2
  · rw [Setup.twoWayLower_closed S hm hc.chrOK]
    apply genomeKer_congr
    intro c hcm i j hi1 hi2 hj1 hj2
    unfold Setup.ker
    rw [hc.D1_within n hn c hcm i j hi1 hi2 hj1 hj2]
    ring
  · rw [Setup.twoWayLower_closed S hm hc.chrOK]
    apply genomeKer_congr
    intro c hcm i j hi1 hi2 hj1 hj2
    unfold Setup.ker
    rw [hc.D1_within n hn c hcm i j hi1 hi2 hj1 hj2]
    ring
  · have hfm : f = m := by omega
    subst hfm
    rw [← genomeKer_zero S.chrs]
    apply genomeKer_congr
    intro c _ i j _ _ _ _
    ring

/-- the two-way covariance class is symmetric in the trait pair -/
theorem twoWay_trait_symm (S : Setup α) (xs : List α) (p n : Nat) (hn : S.nself = some n)
    (hc : Compat S xs p) (hm : MemOK S.mem) (f m s t : Nat) :
    S.twoWay f m s t = S.twoWay f m t s := by
  rw [twoWayDH_eq_enum S xs p n hn hc hm, twoWayDH_eq_enum S xs p n hn hc hm]
  unfold covOf
  congr 1
  · congr 1; funext g; ring
  · ring

/-- **three-way formula** — the value the loop body computes for the tuple `(r, f, m)` (any indices, also
    `f = m`) equals the enumerated covariance of the cross `r × (f × m)`. -/
theorem threeWayDH_formula_eq_enum (S : Setup α) (xs : List α) (p n : Nat) (hn : S.nself = some n)
    (hc : Compat S xs p) (hm : MemOK S.mem) (r f m s t : Nat) :
    S.threeWayLower r f m s t =
      covOf (threeWayE xs n (S.g0 r) (S.g0 f) (S.g0 m))
        (dhValue p (fun i => S.u i s)) (dhValue p (fun i => S.u i t)) := by
  rw [cov_eq_genomeKer hc (lin_threeWay xs n _ _ _) _ _
      (fun c i j => (2 * ((S.g0 f i - S.g0 r i) * delta c n * (S.g0 f j - S.g0 r j)
            + (S.g0 m i - S.g0 r i) * delta c n * (S.g0 m j - S.g0 r j))
        + (S.g0 f i - S.g0 m i) * (c - delta c n + c * delta c n) * (S.g0 f j - S.g0 m j)) * (1 / 4))
      (fun i j => coordCov_threeWay xs hc.half n _ _ _ i j)
      (fun i j => by simp only [delta_zero]; ring)]
  rw [Setup.threeWayLower_closed S hm hc.chrOK, genomeKer_mul_right]
  apply genomeKer_congr
  intro c hcm i j hi1 hi2 hj1 hj2
  unfold Setup.ker3 Setup.ker
  rw [hc.D1_within n hn c hcm i j hi1 hi2 hj1 hj2, hc.D2_within n hn c hcm i j hi1 hi2 hj1 hj2]
  ring

/-- **four-way formula** — the value the loop body computes for `(f2, m2, f1, m1)` (any indices) equals
    the enumerated covariance of the cross `(f2 × m2) × (f1 × m1)`. -/
theorem fourWayDH_formula_eq_enum (S : Setup α) (xs : List α) (p n : Nat) (hn : S.nself = some n)
    (hc : Compat S xs p) (hm : MemOK S.mem) (f2 m2 f1 m1 s t : Nat) :
    S.fourWayLower f2 m2 f1 m1 s t =
      covOf (fourWayE xs n (S.g0 f2) (S.g0 m2) (S.g0 f1) (S.g0 m1))
        (dhValue p (fun i => S.u i s)) (dhValue p (fun i => S.u i t)) := by
  rw [cov_eq_genomeKer hc (lin_fourWay xs n _ _ _ _) _ _
      (fun c i j =>
        ( (S.g0 m2 i - S.g0 f2 i) * (c - delta c n + c * delta c n) * (S.g0 m2 j - S.g0 f2 j)
        + (S.g0 f1 i - S.g0 f2 i) * delta c n * (S.g0 f1 j - S.g0 f2 j)
        + (S.g0 f1 i - S.g0 m2 i) * delta c n * (S.g0 f1 j - S.g0 m2 j)
        + (S.g0 m1 i - S.g0 f2 i) * delta c n * (S.g0 m1 j - S.g0 f2 j)
        + (S.g0 m1 i - S.g0 m2 i) * delta c n * (S.g0 m1 j - S.g0 m2 j)
        + (S.g0 m1 i - S.g0 f1 i) * (c - delta c n + c * delta c n) * (S.g0 m1 j - S.g0 f1 j)) * (1 / 4))
      (fun i j => coordCov_fourWay xs hc.half n _ _ _ _ i j)
      (fun i j => by simp only [delta_zero]; ring)]
  rw [Setup.fourWayLower_closed S hm hc.chrOK, genomeKer_mul_right]
  apply genomeKer_congr
  intro c hcm i j hi1 hi2 hj1 hj2
  unfold Setup.ker6 Setup.ker
  rw [hc.D1_within n hn c hcm i j hi1 hi2 hj1 hj2, hc.D2_within n hn c hcm i j hi1 hi2 hj1 hj2]
  ring

/-- **dihybrid formula** — heterozygous parents `f`, `m` with arbitrary phased genotypes: the loop body's
    value equals the enumerated covariance of the four-way scheme on the four parental phases. -/
theorem dihybridDH_formula_eq_enum (S : Setup α) (xs : List α) (p n : Nat) (hn : S.nself = some n)
    (hc : Compat S xs p) (hm : MemOK S.mem) (f m s t : Nat) :
    S.dihybridLower f m s t =
      covOf (fourWayE xs n (S.g1 f) (S.g0 f) (S.g1 m) (S.g0 m))
        (dhValue p (fun i => S.u i s)) (dhValue p (fun i => S.u i t)) := by
  rw [cov_eq_genomeKer hc (lin_fourWay xs n _ _ _ _) _ _
      (fun c i j =>
        ( (S.g0 f i - S.g1 f i) * (c - delta c n + c * delta c n) * (S.g0 f j - S.g1 f j)
        + (S.g1 m i - S.g1 f i) * delta c n * (S.g1 m j - S.g1 f j)
        + (S.g1 m i - S.g0 f i) * delta c n * (S.g1 m j - S.g0 f j)
        + (S.g0 m i - S.g1 f i) * delta c n * (S.g0 m j - S.g1 f j)
        + (S.g0 m i - S.g0 f i) * delta c n * (S.g0 m j - S.g0 f j)
        + (S.g0 m i - S.g1 m i) * (c - delta c n + c * delta c n) * (S.g0 m j - S.g1 m j)) * (1 / 4))
      (fun i j => coordCov_fourWay xs hc.half n _ _ _ _ i j)
      (fun i j => by simp only [delta_zero]; ring)]
  rw [Setup.dihybridLower_closed S hm hc.chrOK, genomeKer_mul_right]
  apply genomeKer_congr
  intro c hcm i j hi1 hi2 hj1 hj2
  unfold Setup.ker6 Setup.ker
  rw [hc.D1_within n hn c hcm i j hi1 hi2 hj1 hj2, hc.D2_within n hn c hcm i j hi1 hi2 hj1 hj2]
  ring

/-! ### matrix cells of the three-way, four-way and dihybrid classes

Since fix D33 the loops run over `male ≤ female` (`male1 ≤ female1`), so the self-hybrid cells `[r,f,f]`,
`[a,b,c,c]`, `[i,i]` are computed and the equalities hold for **all** index tuples.  The behaviour of the code
before the repair (`threeWayPre`, `fourWayPre`, `dihybridPre`: those cells stayed 0) is kept below as
`…_prerepair_counterexample`. -/

/-- **`threeWayDH_eq_enum`** — every cell `[r,f,m]` (self hybrids `f = m` included) of the three-way variance /
    covariance matrix equals the enumerated covariance of the cross `r × (f × m)`; every finite nself. -/
theorem threeWayDH_eq_enum (S : Setup α) (xs : List α) (p n : Nat) (hn : S.nself = some n)
    (hc : Compat S xs p) (hm : MemOK S.mem) (r f m s t : Nat) :
    S.threeWay r f m s t =
      covOf (threeWayE xs n (S.g0 r) (S.g0 f) (S.g0 m))
        (dhValue p (fun i => S.u i s)) (dhValue p (fun i => S.u i t)) := by
  unfold Setup.threeWay
  split_ifs with h1
  · exact threeWayDH_formula_eq_enum S xs p n hn hc hm r f m s t
  · rw [threeWayDH_formula_eq_enum S xs p n hn hc hm r m f s t]
    exact enum_threeWay_swap xs hc.half n p _ _ _ _ _

/-- **`fourWayDH_eq_enum`** — every cell `[f2,m2,f1,m1]` equals the enumeration of `(f2 × m2) × (f1 × m1)`. -/
theorem fourWayDH_eq_enum (S : Setup α) (xs : List α) (p n : Nat) (hn : S.nself = some n)
    (hc : Compat S xs p) (hm : MemOK S.mem) (f2 m2 f1 m1 s t : Nat) :
    S.fourWay f2 m2 f1 m1 s t =
      covOf (fourWayE xs n (S.g0 f2) (S.g0 m2) (S.g0 f1) (S.g0 m1))
        (dhValue p (fun i => S.u i s)) (dhValue p (fun i => S.u i t)) := by
  unfold Setup.fourWay
  split_ifs with h1
  · exact fourWayDH_formula_eq_enum S xs p n hn hc hm f2 m2 f1 m1 s t
  · rw [fourWayDH_formula_eq_enum S xs p n hn hc hm f2 m2 m1 f1 s t]
    exact enum_fourWay_swap34 xs hc.half n p _ _ _ _ _ _

/-- **`dihybridDH_eq_enum`** — every cell `[f,m]` (selfing `f = m` included) of the dihybrid matrix equals the
    enumeration of the four-phase scheme on the phases of `f` and `m`. -/
theorem dihybridDH_eq_enum (S : Setup α) (xs : List α) (p n : Nat) (hn : S.nself = some n)
    (hc : Compat S xs p) (hm : MemOK S.mem) (f m s t : Nat) :
    S.dihybrid f m s t =
      covOf (fourWayE xs n (S.g1 f) (S.g0 f) (S.g1 m) (S.g0 m))
        (dhValue p (fun i => S.u i s)) (dhValue p (fun i => S.u i t)) := by
  unfold Setup.dihybrid
  split_ifs with h1
  · exact dihybridDH_formula_eq_enum S xs p n hn hc hm f m s t
  · rw [dihybridDH_formula_eq_enum S xs p n hn hc hm m f s t]
    exact enum_fourWay_swap_pairs xs hc.half n p _ _ _ _ _ _

/-! ## 3. structure: symmetry, identical parents, reordering of taxa -/

/-- **`symm_exchangeable`** (mirror step): every matrix is symmetric in its last two parent indices. -/
theorem symm_exchangeable (S : Setup α) (a b c d s t : Nat) :
    S.twoWay a b s t = S.twoWay b a s t ∧ S.threeWay a b c s t = S.threeWay a c b s t ∧
    S.fourWay a b c d s t = S.fourWay a b d c s t ∧ S.dihybrid a b s t = S.dihybrid b a s t := by
  refine ⟨?_, ?_, ?_, ?_⟩
  · unfold Setup.twoWay; split_ifs <;> first | rfl | omega
  · unfold Setup.threeWay
    rcases Nat.lt_trichotomy b c with h | h | h
    · rw [if_neg (by omega), if_pos (by omega)]
    · subst h; rfl
    · rw [if_pos (by omega), if_neg (by omega)]
  · unfold Setup.fourWay
    rcases Nat.lt_trichotomy c d with h | h | h
    · rw [if_neg (by omega), if_pos (by omega)]
    · subst h; rfl
    · rw [if_pos (by omega), if_neg (by omega)]
  · unfold Setup.dihybrid
    rcases Nat.lt_trichotomy a b with h | h | h
    · rw [if_neg (by omega), if_pos (by omega)]
    · subst h; rfl
    · rw [if_pos (by omega), if_neg (by omega)]

/-- the four-way matrix is symmetric in the two parents of the first hybrid -/
theorem fourWay_symm_first_hybrid (S : Setup α) (hm : MemOK S.mem) (hc : ChrOK S.chrs) (f2 m2 f1 m1 s t : Nat) :
    S.fourWay f2 m2 f1 m1 s t = S.fourWay m2 f2 f1 m1 s t := by
  unfold Setup.fourWay
  split_ifs
  · exact S.fourWayLower_symm_outer hm hc _ _ _ _ s t
  · exact S.fourWayLower_symm_outer hm hc _ _ _ _ s t

/-- **`fourWay_exchange_hybrids`** — exchanging the two hybrids of a four-way cross leaves the cell unchanged,
    for all tuples (false before fix D33, see `fourWay_exchange_hybrids_prerepair_counterexample`). -/
theorem fourWay_exchange_hybrids (S : Setup α) (hm : MemOK S.mem) (hc : ChrOK S.chrs)
    (f2 m2 f1 m1 s t : Nat) :
    S.fourWay f2 m2 f1 m1 s t = S.fourWay f1 m1 f2 m2 s t := by
  have P := S.fourWayLower_symm_pairs hm hc
  have I := S.fourWayLower_symm_inner hm hc
  have O := S.fourWayLower_symm_outer hm hc
  unfold Setup.fourWay
  by_cases a1 : m1 ≤ f1 <;> by_cases a2 : m2 ≤ f2
  · rw [if_pos a1, if_pos a2]
    exact P f2 m2 f1 m1 s t
  · rw [if_pos a1, if_neg a2]
    rw [P f2 m2 f1 m1 s t, I f1 m1 f2 m2 s t]
  · rw [if_neg a1, if_pos a2]
    rw [P f2 m2 m1 f1 s t, O m1 f1 f2 m2 s t]
  · rw [if_neg a1, if_neg a2]
    rw [P f2 m2 m1 f1 s t, O m1 f1 f2 m2 s t, I f1 m1 f2 m2 s t]

/-- **`zero_identical_parents`** — genetically identical parents (equal haplotypes, whatever their
    indices) give variance and covariance 0 in all four schemes. -/
theorem zero_identical_parents (S : Setup α) (hm : MemOK S.mem) (hc : ChrOK S.chrs) (a b c d s t : Nat) :
    ((∀ i, S.g0 a i = S.g0 b i) → S.twoWay a b s t = 0) ∧
    ((∀ i, S.g0 b i = S.g0 a i) → (∀ i, S.g0 c i = S.g0 a i) → S.threeWay a b c s t = 0) ∧
    ((∀ i, S.g0 b i = S.g0 a i) → (∀ i, S.g0 c i = S.g0 a i) → (∀ i, S.g0 d i = S.g0 a i) →
        S.fourWay a b c d s t = 0) ∧
    ((∀ i, S.g0 a i = S.g1 a i) → (∀ i, S.g1 b i = S.g1 a i) → (∀ i, S.g0 b i = S.g1 a i) →
        S.dihybrid a b s t = 0) := by
  refine ⟨fun h => ?_, fun h1 h2 => ?_, fun h1 h2 h3 => ?_, fun h1 h2 h3 => ?_⟩
  · unfold Setup.twoWay
    split_ifs
    · exact S.twoWayLower_identical hm hc _ _ s t h
    · exact S.twoWayLower_identical hm hc _ _ s t (fun i => (h i).symm)
    · rfl
  · unfold Setup.threeWay
    split_ifs
    · exact S.threeWayLower_identical hm hc _ _ _ s t h1 h2
    · exact S.threeWayLower_identical hm hc _ _ _ s t h2 h1
  · unfold Setup.fourWay
    split_ifs
    · exact S.fourWayLower_identical hm hc _ _ _ _ s t h1 h2 h3
    · exact S.fourWayLower_identical hm hc _ _ _ _ s t h1 h3 h2
  · unfold Setup.dihybrid
    split_ifs
    · exact S.dihybridLower_identical hm hc _ _ s t h1 h2 h3
    · rw [S.dihybridLower_symm hm hc]
      exact S.dihybridLower_identical hm hc _ _ s t h1 h2 h3

/-- the same inputs with the taxa reordered: taxon `k` of the new matrix is taxon `π k` of the old one -/
def relabel (S : Setup α) (π : Nat → Nat) : Setup α :=
  { S with g0 := fun k => S.g0 (π k), g1 := fun k => S.g1 (π k) }

/-- **`taxa_equivariant`** — reordering the taxa by an injective map reorders every matrix accordingly. -/
theorem taxa_equivariant (S : Setup α) (hm : MemOK S.mem) (hc : ChrOK S.chrs) (π : Nat → Nat)
    (hπ : Function.Injective π) (a b c d s t : Nat) :
    (relabel S π).twoWay a b s t = S.twoWay (π a) (π b) s t ∧
    (relabel S π).threeWay a b c s t = S.threeWay (π a) (π b) (π c) s t ∧
    (relabel S π).fourWay a b c d s t = S.fourWay (π a) (π b) (π c) (π d) s t ∧
    (relabel S π).dihybrid a b s t = S.dihybrid (π a) (π b) s t := by
  have e2 : ∀ f m, (relabel S π).twoWayLower f m s t = S.twoWayLower (π f) (π m) s t := fun _ _ => rfl
  have e3 : ∀ r f m, (relabel S π).threeWayLower r f m s t = S.threeWayLower (π r) (π f) (π m) s t :=
    fun _ _ _ => rfl
  have e4 : ∀ f2 m2 f1 m1, (relabel S π).fourWayLower f2 m2 f1 m1 s t
      = S.fourWayLower (π f2) (π m2) (π f1) (π m1) s t := fun _ _ _ _ => rfl
  have ed : ∀ f m, (relabel S π).dihybridLower f m s t = S.dihybridLower (π f) (π m) s t := fun _ _ => rfl
  have inj : ∀ x y, x ≠ y → π x ≠ π y := fun x y h e => h (hπ e)
  refine ⟨?_, ?_, ?_, ?_⟩
  · unfold Setup.twoWay
    simp only [e2]
    rcases Nat.lt_trichotomy b a with h | h | h
    · have := inj b a (by omega)
      rw [if_pos h]
      split_ifs
      · rfl
      · exact S.twoWayLower_symm hm hc _ _ s t
      · omega
    · subst h; simp
    · have := inj a b (by omega)
      rw [if_neg (by omega), if_pos h]
      split_ifs
      · exact S.twoWayLower_symm hm hc _ _ s t
      · rfl
      · omega
  · unfold Setup.threeWay
    simp only [e3]
    split_ifs
    · rfl
    · exact S.threeWayLower_symm hm hc _ _ _ s t
    · exact S.threeWayLower_symm hm hc _ _ _ s t
    · rfl
  · unfold Setup.fourWay
    simp only [e4]
    split_ifs
    · rfl
    · exact S.fourWayLower_symm_inner hm hc _ _ _ _ s t
    · exact S.fourWayLower_symm_inner hm hc _ _ _ _ s t
    · rfl
  · unfold Setup.dihybrid
    simp only [ed]
    split_ifs
    · rfl
    · exact S.dihybridLower_symm hm hc _ _ s t
    · exact S.dihybridLower_symm hm hc _ _ s t
    · rfl

/-! ## 4. genic variance = the same quantity with linkage ignored

Since fixes D15 / D30 all four genic classes write every cell, so the statements hold for all index tuples
(`genic2Pre`, the code before D15, is kept in `genic_diagonal_prerepair_counterexample`). -/

/-- **`genic_eq_linkage_free`**, two-way class — for inbred parents coded {0,1} every genic cell (diagonal
    included) equals the enumerated variance of the two-way cross under free recombination (all crossover
    probabilities 1/2), for every selfing depth. -/
theorem genic_eq_linkage_free_twoWay (S : Setup α) (xs : List α) (p n : Nat) (hx : AllHalf xs p)
    (f m t : Nat)
    (inf : ∀ i, S.g1 f i = S.g0 f i) (inm : ∀ i, S.g1 m i = S.g0 m i)
    (bf : ∀ i, S.g0 f i * S.g0 f i = S.g0 f i) (bm : ∀ i, S.g0 m i * S.g0 m i = S.g0 m i) :
    genic2 S p 2 f m t =
      covOf (twoWayE xs n (S.g0 f) (S.g0 m)) (dhValue p (fun i => S.u i t)) (dhValue p (fun i => S.u i t)) := by
  rw [cov_linkage_free hx (lin_twoWay xs n _ _) _ _
      (fun c i j => (S.g0 f i - S.g0 m i) * delta c n * (S.g0 f j - S.g0 m j))
      (fun i j => coordCov_twoWay xs hx.1 n _ _ i j)
      (fun i j => by simp only [delta_zero]; ring)]
  unfold genic2 genicCell
  apply sumRange_congr
  intro i _ _
  have key : ∀ a b u : α, a * a = a → b * b = b →
      powN (2 * u) 2 * (half * ((a + a) / 2) + half * ((b + b) / 2)) * (1 - (half * ((a + a) / 2) + half * ((b + b) / 2)))
        = u * ((a - b) * 1 * (a - b)) * u := by
    intro a b u ha hb
    simp only [powN, half_eq]
    linear_combination (-2 * u ^ 2) * ha + (-2 * u ^ 2) * hb
  rw [delta_one]
  rcases le_total f m with h | h
  · simp only [crossFreq2, max_eq_right h, min_eq_left h, inf i, inm i]
    rw [add_comm (half * ((S.g0 m i + S.g0 m i) / 2))]
    exact key _ _ _ (bf i) (bm i)
  · simp only [crossFreq2, max_eq_left h, min_eq_right h, inf i, inm i]
    exact key _ _ _ (bf i) (bm i)

/-- **`genic_eq_linkage_free`**, dihybrid class — arbitrary phased {0,1} genotypes of the two parents: every
    genic cell (selfs included) equals the enumerated variance of the dihybrid (four-phase) scheme under free
    recombination. -/
theorem genic_eq_linkage_free_dihybrid (S : Setup α) (xs : List α) (p n : Nat) (hx : AllHalf xs p)
    (f m t : Nat)
    (b0f : ∀ i, S.g0 f i * S.g0 f i = S.g0 f i) (b1f : ∀ i, S.g1 f i * S.g1 f i = S.g1 f i)
    (b0m : ∀ i, S.g0 m i * S.g0 m i = S.g0 m i) (b1m : ∀ i, S.g1 m i * S.g1 m i = S.g1 m i) :
    genic2 S p 2 f m t =
      covOf (fourWayE xs n (S.g1 f) (S.g0 f) (S.g1 m) (S.g0 m))
        (dhValue p (fun i => S.u i t)) (dhValue p (fun i => S.u i t)) := by
  rw [cov_linkage_free hx (lin_fourWay xs n _ _ _ _) _ _
      (fun c i j =>
        ( (S.g0 f i - S.g1 f i) * (c - delta c n + c * delta c n) * (S.g0 f j - S.g1 f j)
        + (S.g1 m i - S.g1 f i) * delta c n * (S.g1 m j - S.g1 f j)
        + (S.g1 m i - S.g0 f i) * delta c n * (S.g1 m j - S.g0 f j)
        + (S.g0 m i - S.g1 f i) * delta c n * (S.g0 m j - S.g1 f j)
        + (S.g0 m i - S.g0 f i) * delta c n * (S.g0 m j - S.g0 f j)
        + (S.g0 m i - S.g1 m i) * (c - delta c n + c * delta c n) * (S.g0 m j - S.g1 m j)) * (1 / 4))
      (fun i j => coordCov_fourWay xs hx.1 n _ _ _ _ i j)
      (fun i j => by simp only [delta_zero]; ring)]
  unfold genic2 genicCell
  apply sumRange_congr
  intro i _ _
  have key : ∀ x1 x2 x3 x4 u : α, x1 * x1 = x1 → x2 * x2 = x2 → x3 * x3 = x3 → x4 * x4 = x4 →
      powN (2 * u) 2 * (half * ((x2 + x1) / 2) + half * ((x4 + x3) / 2)) * (1 - (half * ((x2 + x1) / 2) + half * ((x4 + x3) / 2)))
        = u * (((x2 - x1) * (1 - 1 + 1 * 1) * (x2 - x1) + (x3 - x1) * 1 * (x3 - x1) + (x3 - x2) * 1 * (x3 - x2)
            + (x4 - x1) * 1 * (x4 - x1) + (x4 - x2) * 1 * (x4 - x2) + (x4 - x3) * (1 - 1 + 1 * 1) * (x4 - x3)) * (1 / 4)) * u := by
    intro x1 x2 x3 x4 u h1 h2 h3 h4
    simp only [powN, half_eq]
    linear_combination (-u ^ 2) * h1 + (-u ^ 2) * h2 + (-u ^ 2) * h3 + (-u ^ 2) * h4
  rw [delta_one]
  rcases le_total f m with h | h
  · simp only [crossFreq2, max_eq_right h, min_eq_left h]
    rw [add_comm (half * ((S.g0 m i + S.g1 m i) / 2))]
    exact key _ _ _ _ _ (b1f i) (b0f i) (b1m i) (b0m i)
  · simp only [crossFreq2, max_eq_left h, min_eq_right h]
    exact key _ _ _ _ _ (b1f i) (b0f i) (b1m i) (b0m i)

/-- **`genic_eq_linkage_free`**, three-way class (constructible since fix D30) — inbred {0,1} parents, every
    cell `[r,f,m]`: the genic value equals the enumerated variance of `r × (f × m)` under free recombination. -/
theorem genic_eq_linkage_free_threeWay (S : Setup α) (xs : List α) (p n : Nat) (hx : AllHalf xs p)
    (r f m t : Nat)
    (inr : ∀ i, S.g1 r i = S.g0 r i) (inf : ∀ i, S.g1 f i = S.g0 f i) (inm : ∀ i, S.g1 m i = S.g0 m i)
    (br : ∀ i, S.g0 r i * S.g0 r i = S.g0 r i) (bf : ∀ i, S.g0 f i * S.g0 f i = S.g0 f i)
    (bm : ∀ i, S.g0 m i * S.g0 m i = S.g0 m i) :
    genic3 S p 2 r f m t =
      covOf (threeWayE xs n (S.g0 r) (S.g0 f) (S.g0 m))
        (dhValue p (fun i => S.u i t)) (dhValue p (fun i => S.u i t)) := by
  rw [cov_linkage_free hx (lin_threeWay xs n _ _ _) _ _
      (fun c i j => (2 * ((S.g0 f i - S.g0 r i) * delta c n * (S.g0 f j - S.g0 r j)
            + (S.g0 m i - S.g0 r i) * delta c n * (S.g0 m j - S.g0 r j))
        + (S.g0 f i - S.g0 m i) * (c - delta c n + c * delta c n) * (S.g0 f j - S.g0 m j)) * (1 / 4))
      (fun i j => coordCov_threeWay xs hx.1 n _ _ _ i j)
      (fun i j => by simp only [delta_zero]; ring)]
  unfold genic3 genicCell
  apply sumRange_congr
  intro i _ _
  have key : ∀ a b c u : α, a * a = a → b * b = b → c * c = c →
      powN (2 * u) 2 * (half * ((a + a) / 2) + half * half * ((b + b) / 2) + half * half * ((c + c) / 2))
          * (1 - (half * ((a + a) / 2) + half * half * ((b + b) / 2) + half * half * ((c + c) / 2)))
        = u * ((2 * ((b - a) * 1 * (b - a) + (c - a) * 1 * (c - a)) + (b - c) * (1 - 1 + 1 * 1) * (b - c)) * (1 / 4)) * u := by
    intro a b c u ha hb hc
    simp only [powN, half_eq]
    linear_combination (-2 * u ^ 2) * ha + (-u ^ 2) * hb + (-u ^ 2) * hc
  rw [delta_one]
  rcases le_total f m with h | h
  · simp only [crossFreq3, tafreq, max_eq_right h, min_eq_left h, inr i, inf i, inm i]
    rw [add_assoc, add_comm (half * half * ((S.g0 m i + S.g0 m i) / 2)), ← add_assoc]
    exact key _ _ _ _ (br i) (bf i) (bm i)
  · simp only [crossFreq3, tafreq, max_eq_left h, min_eq_right h, inr i, inf i, inm i]
    exact key _ _ _ _ (br i) (bf i) (bm i)

/-- **`genic_eq_linkage_free`**, four-way class (constructible since fix D30) — every cell `[f2,m2,f1,m1]`. -/
theorem genic_eq_linkage_free_fourWay (S : Setup α) (xs : List α) (p n : Nat) (hx : AllHalf xs p)
    (f2 m2 f1 m1 t : Nat)
    (i1 : ∀ i, S.g1 f2 i = S.g0 f2 i) (i2 : ∀ i, S.g1 m2 i = S.g0 m2 i)
    (i3 : ∀ i, S.g1 f1 i = S.g0 f1 i) (i4 : ∀ i, S.g1 m1 i = S.g0 m1 i)
    (b1 : ∀ i, S.g0 f2 i * S.g0 f2 i = S.g0 f2 i) (b2 : ∀ i, S.g0 m2 i * S.g0 m2 i = S.g0 m2 i)
    (b3 : ∀ i, S.g0 f1 i * S.g0 f1 i = S.g0 f1 i) (b4 : ∀ i, S.g0 m1 i * S.g0 m1 i = S.g0 m1 i) :
    genic4 S p 2 f2 m2 f1 m1 t =
      covOf (fourWayE xs n (S.g0 f2) (S.g0 m2) (S.g0 f1) (S.g0 m1))
        (dhValue p (fun i => S.u i t)) (dhValue p (fun i => S.u i t)) := by
  rw [cov_linkage_free hx (lin_fourWay xs n _ _ _ _) _ _
      (fun c i j =>
        ( (S.g0 m2 i - S.g0 f2 i) * (c - delta c n + c * delta c n) * (S.g0 m2 j - S.g0 f2 j)
        + (S.g0 f1 i - S.g0 f2 i) * delta c n * (S.g0 f1 j - S.g0 f2 j)
        + (S.g0 f1 i - S.g0 m2 i) * delta c n * (S.g0 f1 j - S.g0 m2 j)
        + (S.g0 m1 i - S.g0 f2 i) * delta c n * (S.g0 m1 j - S.g0 f2 j)
        + (S.g0 m1 i - S.g0 m2 i) * delta c n * (S.g0 m1 j - S.g0 m2 j)
        + (S.g0 m1 i - S.g0 f1 i) * (c - delta c n + c * delta c n) * (S.g0 m1 j - S.g0 f1 j)) * (1 / 4))
      (fun i j => coordCov_fourWay xs hx.1 n _ _ _ _ i j)
      (fun i j => by simp only [delta_zero]; ring)]
  unfold genic4 genicCell
  apply sumRange_congr
  intro i _ _
  have key : ∀ x1 x2 x3 x4 u : α, x1 * x1 = x1 → x2 * x2 = x2 → x3 * x3 = x3 → x4 * x4 = x4 →
      powN (2 * u) 2 * (half * half * ((x1 + x1) / 2) + half * half * ((x2 + x2) / 2) + half * half * ((x3 + x3) / 2)
            + half * half * ((x4 + x4) / 2))
          * (1 - (half * half * ((x1 + x1) / 2) + half * half * ((x2 + x2) / 2) + half * half * ((x3 + x3) / 2)
            + half * half * ((x4 + x4) / 2)))
        = u * (((x2 - x1) * (1 - 1 + 1 * 1) * (x2 - x1) + (x3 - x1) * 1 * (x3 - x1) + (x3 - x2) * 1 * (x3 - x2)
            + (x4 - x1) * 1 * (x4 - x1) + (x4 - x2) * 1 * (x4 - x2) + (x4 - x3) * (1 - 1 + 1 * 1) * (x4 - x3)) * (1 / 4)) * u := by
    intro x1 x2 x3 x4 u h1 h2 h3 h4
    simp only [powN, half_eq]
    linear_combination (-u ^ 2) * h1 + (-u ^ 2) * h2 + (-u ^ 2) * h3 + (-u ^ 2) * h4
  rw [delta_one]
  rcases le_total f1 m1 with h | h
  · simp only [crossFreq4, tafreq, max_eq_right h, min_eq_left h, i1 i, i2 i, i3 i, i4 i]
    rw [add_assoc, add_comm (half * half * ((S.g0 m1 i + S.g0 m1 i) / 2)), ← add_assoc]
    exact key _ _ _ _ _ (b1 i) (b2 i) (b3 i) (b4 i)
  · simp only [crossFreq4, tafreq, max_eq_left h, min_eq_right h, i1 i, i2 i, i3 i, i4 i]
    exact key _ _ _ _ _ (b1 i) (b2 i) (b3 i) (b4 i)

/-! ## 5. selfing depth `inf` -/

/-- **`selfing_limit`** — the value used for `nself = inf` is the fixed point of the selfing recursion
    `δ ↦ c/2·(1+δ)` (`c = 1-2r`) and the finite-depth values approach it geometrically:
    `D1(n) - D1(inf) = (c/2)^n (c - D1(inf))`; `D2(inf)` is the same function of `D1(inf)` as at finite depth. -/
theorem selfing_limit (r : α) (h : 1 + 2 * r ≠ 0) (n : Nat) :
    covD1s r none = (1 - 2 * r) / 2 * (1 + covD1s r none) ∧
    covD1s r (some n) - covD1s r none = ((1 - 2 * r) / 2) ^ n * ((1 - 2 * r) - covD1s r none) ∧
    covD2s r none = (1 - 2 * r) - covD1s r none + (1 - 2 * r) * covD1s r none := by
  have hinf : covD1s r none = 1 - 2 * (2 * r / (1 + 2 * r)) := by
    simp [covD1s, succInf, rprobFilial, two_eq]
  have hfix : covD1s r none = (1 - 2 * r) / 2 * (1 + covD1s r none) := by
    rw [hinf]; field_simp; ring
  refine ⟨hfix, ?_, ?_⟩
  · rw [covD1s_eq_delta r h]
    induction n with
    | zero => simp [delta]
    | succ n ih =>
      have e : delta (1 - 2 * r) (n + 1) - covD1s r none
          = (1 - 2 * r) / 2 * (delta (1 - 2 * r) n - covD1s r none) := by
        simp only [delta]
        linear_combination (-1 : α) * hfix
      rw [e, ih, pow_succ]; ring
  · have h2 : covD2s r none = 1 - 4 * r + 4 * r * (2 * r / (1 + 2 * r)) := by
      simp [covD2s, succInf, rprobFilial, two_eq, four_eq]
    rw [h2, hinf]; field_simp; ring

/-- **`nself = inf`, two-way class** — the reported cell differs from the enumeration at selfing depth `n`
    by a double sum whose every term carries the factor `(ρ_ij / 2)^n` (`|ρ_ij / 2| ≤ 1/2`): the value for
    `inf` is the limit of the finite-depth enumerations, approached geometrically. -/
theorem twoWayDH_inf_error (S : Setup α) (xs : List α) (p n : Nat) (hinf : S.nself = none)
    (hc : Compat S xs p) (hm : MemOK S.mem) (f m s t : Nat) :
    S.twoWay f m s t
      - covOf (twoWayE xs n (S.g0 f) (S.g0 m)) (dhValue p (fun i => S.u i s)) (dhValue p (fun i => S.u i t))
    = genomeKer S.chrs (fun i j =>
        ((S.g0 f i - S.g0 m i) * S.u i s)
          * ((rho xs i j / 2) ^ n * (covD1s (S.r i j) none - rho xs i j))
          * ((S.g0 f j - S.g0 m j) * S.u j t)) := by
  rw [cov_eq_genomeKer hc (lin_twoWay xs n _ _) _ _
      (fun c i j => (S.g0 f i - S.g0 m i) * delta c n * (S.g0 f j - S.g0 m j))
      (fun i j => coordCov_twoWay xs hc.half n _ _ i j)
      (fun i j => by simp only [delta_zero]; ring)]
  have key : ∀ c ∈ S.chrs, ∀ i j, c.1 ≤ i → i < c.2 → c.1 ≤ j → j < c.2 →
      S.D1 i j - delta (rho xs i j) n = (rho xs i j / 2) ^ n * (covD1s (S.r i j) none - rho xs i j) := by
    intro c hcm i j hi1 hi2 hj1 hj2
    have h2 := (selfing_limit (S.r i j) (hc.rne i j) n).2.1
    rw [covD1s_eq_delta _ (hc.rne i j), hc.within c hcm i j hi1 hi2 hj1 hj2] at h2
    unfold Setup.D1
    rw [hinf]
    linear_combination (-1 : α) * h2
  unfold Setup.twoWay
  split_ifs with h1 h2
  · rw [Setup.twoWayLower_closed S hm hc.chrOK, genomeKer_sub]
    apply genomeKer_congr
    intro c hcm i j hi1 hi2 hj1 hj2
    unfold Setup.ker
    rw [← key c hcm i j hi1 hi2 hj1 hj2]
    ring
  · rw [Setup.twoWayLower_closed S hm hc.chrOK, genomeKer_sub]
    apply genomeKer_congr
    intro c hcm i j hi1 hi2 hj1 hj2
    unfold Setup.ker
    rw [← key c hcm i j hi1 hi2 hj1 hj2]
    ring
  · have hfm : f = m := by omega
    subst hfm
    have : ∀ κ : Nat → Nat → α, (∀ i j, κ i j = 0) → genomeKer S.chrs κ = 0 := by
      intro κ h
      rw [← genomeKer_zero S.chrs]
      exact genomeKer_congr _ _ _ (fun c _ i j _ _ _ _ => h i j)
    rw [this _ (fun i j => by ring), this _ (fun i j => by ring)]
    ring

/-! ## 6. progeny mean and usefulness criterion -/

/-- the enumerated mean of the doubled-haploid progeny is the contribution-weighted mean of the
    parental (inbred line) values: 1/2,1/2 — 1/2,1/4,1/4 — 1/4 each -/
theorem progeny_mean (xs : List α) (hx : HalfStart xs) (n p : Nat) (p1 p2 p3 p4 u : Nat → α) :
    twoWayE xs n p1 p2 (dhValue p u) = 1 / 2 * dhValue p u p1 + 1 / 2 * dhValue p u p2 ∧
    threeWayE xs n p1 p2 p3 (dhValue p u)
      = 1 / 2 * dhValue p u p1 + 1 / 4 * dhValue p u p2 + 1 / 4 * dhValue p u p3 ∧
    fourWayE xs n p1 p2 p3 p4 (dhValue p u)
      = 1 / 4 * dhValue p u p1 + 1 / 4 * dhValue p u p2 + 1 / 4 * dhValue p u p3 + 1 / 4 * dhValue p u p4 := by
  refine ⟨?_, ?_, ?_⟩
  · rw [mean_expand (lin_twoWay xs n _ _)]
    unfold twoWayE dhValue
    simp only [ssd_first xs hx, ← sumRange_mul_left, ← sumRange_add]
    apply sumRange_congr; intro j _ _; ring
  · rw [mean_expand (lin_threeWay xs n _ _ _)]
    unfold dhValue
    simp only [threeWay_first xs hx, ← sumRange_mul_left, ← sumRange_add]
    apply sumRange_congr; intro j _ _; ring
  · rw [mean_expand (lin_fourWay xs n _ _ _ _)]
    unfold dhValue
    simp only [fourWay_first xs hx, ← sumRange_mul_left, ← sumRange_add]
    apply sumRange_congr; intro j _ _; ring

/-! `uc_def` (all four classes) and `ucmat_rows` follow `variance_nonneg` in section 9: since fix D37 the cell formula clips the
    variance at zero, and that the clip is the identity on the reported variances is exactly `variance_nonneg`. -/

end field

section ordered
variable {α : Type} [Field α] [LinearOrder α] [IsStrictOrderedRing α]

/-- for a recombination probability `0 ≤ r ≤ 1/2` the finite-depth decay is within `(1/2)^n` of the
    value used for `nself = inf` -/
theorem selfing_limit_bound (r : α) (h0 : 0 ≤ r) (h1 : r ≤ 1 / 2) (n : Nat) :
    |covD1s r (some n) - covD1s r none| ≤ (1 / 2) ^ n := by
  have hne : 1 + 2 * r ≠ 0 := by positivity
  obtain ⟨hfix, hgeo, _⟩ := selfing_limit r hne n
  rw [hgeo]
  have hc0 : 0 ≤ 1 - 2 * r := by linarith
  have hc1 : 1 - 2 * r ≤ 1 := by linarith
  have hinf : covD1s r none = (1 - 2 * r) / (1 + 2 * r) := by
    have : covD1s r none = 1 - 2 * (2 * r / (1 + 2 * r)) := by
      simp [covD1s, succInf, rprobFilial, two_eq]
    rw [this]; field_simp; ring
  have hpos : 0 < 1 + 2 * r := by positivity
  have hd0 : 0 ≤ covD1s r none := by rw [hinf]; positivity
  have hd1 : covD1s r none ≤ 1 - 2 * r := by
    rw [hinf, div_le_iff₀ hpos]
    nlinarith
  rw [abs_mul, abs_pow]
  have ha : |(1 - 2 * r) / 2| ≤ 1 / 2 := by
    rw [abs_of_nonneg (by positivity)]; linarith
  have hb : |(1 - 2 * r) - covD1s r none| ≤ 1 := by
    rw [abs_of_nonneg (by linarith)]; linarith
  calc |(1 - 2 * r) / 2| ^ n * |(1 - 2 * r) - covD1s r none|
      ≤ (1 / 2) ^ n * 1 := by
        apply mul_le_mul (pow_le_pow_left₀ (abs_nonneg _) ha n) hb (abs_nonneg _) (by positivity)
    _ = (1 / 2) ^ n := by ring
end ordered

/-! ## 6b. Haldane's map function discharges the compatibility hypothesis -/
section haldane

/-- **`eq_enum_haldane`** — over ℝ, with the recombination matrix computed as in the code by
    `HaldaneMapFunction.mapfn(|genpos_i - genpos_j|)`, positions sorted within each linkage group, and
    the meiosis model's crossover probabilities `haldaneXs` (1/2 at group starts, `mapfn` of the adjacent
    distance elsewhere): every reported cell of the two-, three-, four-way and dihybrid matrices (self hybrids included)
    equals the exhaustive enumeration, for every finite selfing depth and chunk size. -/
theorem eq_enum_haldane (S : Setup ℝ) (p n : Nat) (hp : 0 < p) (gp : Nat → ℝ) (ht : Tiles 0 p S.chrs)
    (hsorted : ∀ c ∈ S.chrs, ∀ i j, c.1 ≤ i → i ≤ j → j < c.2 → gp i ≤ gp j)
    (hr : ∀ i j, S.r i j = haldane |gp i - gp j|)
    (hn : S.nself = some n) (hm : MemOK S.mem) (a b c d s t : Nat) :
    let xs := haldaneXs S.chrs gp p
    let U := dhValue p (fun i => S.u i s)
    let V := dhValue p (fun i => S.u i t)
    S.twoWay a b s t = covOf (twoWayE xs n (S.g0 a) (S.g0 b)) U V ∧
    S.threeWay a b c s t = covOf (threeWayE xs n (S.g0 a) (S.g0 b) (S.g0 c)) U V ∧
    S.fourWay a b c d s t = covOf (fourWayE xs n (S.g0 a) (S.g0 b) (S.g0 c) (S.g0 d)) U V ∧
    S.dihybrid a b s t = covOf (fourWayE xs n (S.g1 a) (S.g0 a) (S.g1 b) (S.g0 b)) U V := by
  have hc := haldane_compat S p hp gp ht hsorted hr
  exact ⟨twoWayDH_eq_enum S _ p n hn hc hm a b s t, threeWayDH_eq_enum S _ p n hn hc hm a b c s t,
    fourWayDH_eq_enum S _ p n hn hc hm a b c d s t, dihybridDH_eq_enum S _ p n hn hc hm a b s t⟩

/-- non-vacuity: positions 0, 1, 2 Morgan on two linkage groups -/
example : ∃ S : Setup ℝ, Tiles 0 3 S.chrs ∧
    (∀ c ∈ S.chrs, ∀ i j, c.1 ≤ i → i ≤ j → j < c.2 → ((fun k : Nat => (k : ℝ)) i) ≤ (fun k : Nat => (k : ℝ)) j) ∧
    (∀ i j, S.r i j = haldane |(i : ℝ) - (j : ℝ)|) ∧ S.nself = some 2 ∧ MemOK S.mem :=
  ⟨{ g0 := fun k i => if k = i then 1 else 0, g1 := fun k i => if k = i then 1 else 0, u := fun _ _ => 1,
     r := fun i j => haldane |(i : ℝ) - (j : ℝ)|, chrs := [(0, 2), (2, 3)], mem := some 2, nself := some 2 },
   Tiles.cons 0 2 3 _ (by omega) (Tiles.cons 2 3 3 [] (by omega) (Tiles.nil 3)),
   fun c _ i j _ hij _ => by simp only; exact_mod_cast hij,
   fun _ _ => rfl, rfl, fun k h => by simp only [Option.some.injEq] at h; omega⟩

end haldane

/-! ## 7. behaviour of the code before the repairs (counterexamples) and non-vacuity of the hypotheses -/
section witnesses

/-- one marker, one linkage group; taxon 1 carries allele 1, every other taxon allele 0 (inbred lines) -/
def W : Setup ℚ :=
  { g0 := fun k _ => if k = 1 then 1 else 0, g1 := fun k _ => if k = 1 then 1 else 0,
    u := fun _ _ => 1, r := fun _ _ => 0, chrs := [(0, 1)], mem := none, nself := some 0 }

/-- one marker; taxon 0 is heterozygous (phase 0 carries allele 1, phase 1 allele 0) -/
def Wd : Setup ℚ :=
  { g0 := fun k _ => if k = 0 then 1 else 0, g1 := fun _ _ => 0,
    u := fun _ _ => 1, r := fun _ _ => 0, chrs := [(0, 1)], mem := none, nself := some 0 }

/-- `W`, `Wd` meet every hypothesis of the enumeration theorems -/
theorem nonvacuous_W : Compat W [1 / 2] 1 ∧ Compat Wd [1 / 2] 1 ∧ MemOK W.mem ∧ MemOK Wd.mem := by
  have hc : ∀ (S : Setup ℚ), S.chrs = [(0, 1)] → (∀ i j, S.r i j = 0) → Compat S [1 / 2] 1 := by
    intro S h1 h2
    refine ⟨halfStart_cons [], ?_, ?_, ?_, ?_⟩
    · rw [h1]; exact Tiles.cons 0 1 1 [] (by omega) (Tiles.nil 1)
    · intro c hc _
      rw [h1] at hc
      simp only [List.mem_singleton] at hc
      subst hc; rfl
    · intro c hc i j hi1 hi2 hj1 hj2
      rw [h1] at hc
      simp only [List.mem_singleton] at hc
      subst hc
      have hi : i = 0 := by simp only at hi2; omega
      have hj : j = 0 := by simp only at hj2; omega
      subst hi; subst hj
      rw [h2]; simp [rho]
    · intro i j; rw [h2]; norm_num
  have hm : MemOK (none : Option Nat) := fun k h => by cases h
  exact ⟨hc W rfl (fun _ _ => rfl), hc Wd rfl (fun _ _ => rfl), hm, hm⟩

/-- **three-way, self-hybrid cell, before fix D33**: the cross `0 × (1 × 1)` = `0 × 1` has enumerated variance 1;
    the pre-repair code reported 0 in cell `[0,1,1]`; the repaired code reports 1. -/
theorem threeWayDH_diagonal_prerepair_counterexample :
    W.threeWayPre 0 1 1 0 0 = 0 ∧ W.threeWay 0 1 1 0 0 = 1 ∧
    covOf (threeWayE [1 / 2] 0 (W.g0 0) (W.g0 1) (W.g0 1)) (dhValue 1 (fun i => W.u i 0)) (dhValue 1 (fun i => W.u i 0)) = 1 := by
  decide +kernel

/-- **four-way, self-hybrid cell, before fix D33**: `(0 × 0) × (1 × 1)` has enumerated variance 1. -/
theorem fourWayDH_diagonal_prerepair_counterexample :
    W.fourWayPre 0 0 1 1 0 0 = 0 ∧ W.fourWay 0 0 1 1 0 0 = 1 ∧
    covOf (fourWayE [1 / 2] 0 (W.g0 0) (W.g0 0) (W.g0 1) (W.g0 1)) (dhValue 1 (fun i => W.u i 0)) (dhValue 1 (fun i => W.u i 0)) = 1 := by
  decide +kernel

/-- **four-way, exchanging the hybrids, before fix D33**: `(0 × 1) × (1 × 1)` vs `(1 × 1) × (0 × 1)`. -/
theorem fourWay_exchange_hybrids_prerepair_counterexample :
    W.fourWayPre 0 1 1 1 0 0 = 0 ∧ W.fourWayPre 1 1 0 1 0 0 = 3 / 4 ∧
    W.fourWay 0 1 1 1 0 0 = 3 / 4 ∧ W.fourWay 1 1 0 1 0 0 = 3 / 4 := by
  decide +kernel

/-- **dihybrid, selfing a heterozygous parent, before fix D33**: enumerated variance 1, reported 0. -/
theorem dihybridDH_self_prerepair_counterexample :
    Wd.dihybridPre 0 0 0 0 = 0 ∧ Wd.dihybrid 0 0 0 0 = 1 ∧
    covOf (fourWayE [1 / 2] 0 (Wd.g1 0) (Wd.g0 0) (Wd.g1 0) (Wd.g0 0)) (dhValue 1 (fun i => Wd.u i 0)) (dhValue 1 (fun i => Wd.u i 0)) = 1 := by
  decide +kernel

/-- **genic diagonal, before fix D15**: the cell of identical parents was never written (`none`); the
    repaired code gives the enumerated linkage-free variance: 0 (two-way), 1 (selfing the heterozygous
    taxon 0 of `Wd`). -/
theorem genic_diagonal_prerepair_counterexample :
    genic2Pre W 1 2 0 0 0 = none ∧ genic2 W 1 2 0 0 0 = 0 ∧
    covOf (twoWayE [1 / 2] 0 (W.g0 0) (W.g0 0)) (dhValue 1 (fun i => W.u i 0)) (dhValue 1 (fun i => W.u i 0)) = 0 ∧
    genic2Pre Wd 1 2 0 0 0 = none ∧ genic2 Wd 1 2 0 0 0 = 1 ∧
    covOf (fourWayE [1 / 2] 0 (Wd.g1 0) (Wd.g0 0) (Wd.g1 0) (Wd.g0 0)) (dhValue 1 (fun i => Wd.u i 0)) (dhValue 1 (fun i => Wd.u i 0)) = 1 := by
  decide +kernel

/-! ### a non-trivial instance: 3 taxa, 3 markers on 2 linkage groups, 2 traits, one selfing, chunk size 1 -/

def exG : Nat → Nat → ℚ := fun k i =>
  match k, i with
  | 0, 1 => 1 | 0, 2 => 1
  | 1, 0 => 1 | 1, 2 => 1
  | 2, 0 => 1 | 2, 1 => 1
  | _, _ => 0

def exS : Setup ℚ :=
  { g0 := exG, g1 := exG, u := fun i s => (i : ℚ) + 1 + 2 * s,
    r := fun i j => if i = j then 0 else 1 / 4, chrs := [(0, 2), (2, 3)], mem := some 1, nself := some 1 }

def exXs : List ℚ := [1 / 2, 1 / 4, 1 / 2]

theorem nonvacuous_ex : Compat exS exXs 3 := by
  refine ⟨halfStart_cons _, ?_, ?_, ?_, ?_⟩
  · exact Tiles.cons 0 2 3 _ (by omega) (Tiles.cons 2 3 3 [] (by omega) (Tiles.nil 3))
  · intro c hc _
    simp only [exS, List.mem_cons, List.not_mem_nil, or_false] at hc
    rcases hc with rfl | rfl <;> rfl
  · intro c hc i j hi1 hi2 hj1 hj2
    simp only [exS, List.mem_cons, List.not_mem_nil, or_false] at hc
    rcases hc with rfl | rfl
    · simp only at hi1 hi2 hj1 hj2
      interval_cases i <;> interval_cases j <;> simp [exS, exXs, rho, prodTo]
    · simp only at hi1 hi2 hj1 hj2
      have hi : i = 2 := by omega
      have hj : j = 2 := by omega
      subst hi; subst hj
      simp [exS, exXs, rho]
  · intro i j
    simp only [exS]
    split_ifs <;> norm_num

example : MemOK exS.mem := fun k h => by simp only [exS, Option.some.injEq] at h; omega
example : ChrOK exS.chrs := nonvacuous_ex.chrOK
/-- the theorem's two sides on the instance: cell `[0,1]`, trait pair `(0,1)` (2⁹ masks enumerated by the kernel) -/
example : exS.twoWay 0 1 0 1 = 29 / 4 ∧
    covOf (twoWayE exXs 1 (exS.g0 0) (exS.g0 1)) (dhValue 3 (fun i => exS.u i 0)) (dhValue 3 (fun i => exS.u i 1)) = 29 / 4 := by
  decide +kernel
example : exS.threeWay 0 1 2 0 0 =
    covOf (threeWayE exXs 1 (exS.g0 0) (exS.g0 1) (exS.g0 2)) (dhValue 3 (fun i => exS.u i 0)) (dhValue 3 (fun i => exS.u i 0)) :=
  threeWayDH_eq_enum exS exXs 3 1 rfl nonvacuous_ex (fun k h => by simp only [exS, Option.some.injEq] at h; omega) 0 1 2 0 0
example : (withMem exS none).fourWay 0 1 2 1 0 1 = exS.fourWay 0 1 2 1 0 1 :=
  (chunk_invariant exS none (fun k h => by simp only [exS, Option.some.injEq] at h; omega) (fun k h => by cases h)
    nonvacuous_ex.chrOK 0 1 2 1 0 1).2.2.1
example : AllHalf (List.replicate 3 (1 / 2 : ℚ)) 3 := allHalf_replicate 3 (by omega)
example : ∀ i, exS.g0 1 i * exS.g0 1 i = exS.g0 1 i := by
  intro i; simp only [exS, exG]; split <;> norm_num
example : Function.Injective (fun k : Nat => if k = 0 then 1 else if k = 1 then 0 else k) := by
  intro a b h
  simp only at h
  split_ifs at h <;> omega
example : chunks 3 10 3 = [(3, 6), (6, 9), (9, 10)] ∧ chunks 0 2 7 = [(0, 2)] ∧ chunks 4 4 2 = [] := by decide
example : (1 : ℚ) + 2 * (1 / 4) ≠ 0 := by norm_num

end witnesses
/-! ### `nself = inf`, three-way / four-way / dihybrid classes

Same statement as `twoWayDH_inf_error`: the value reported for `inf` differs from the enumeration at selfing depth `n` by a
double sum whose every term carries `infGap = (ρ_ij/2)^n (D1_inf - ρ_ij)`; the `D2` parts contribute `(ρ_ij - 1)·infGap`. -/
section inf_error
variable {α : Type} [Field α] [CharZero α]

theorem threeWayDH_inf_error (S : Setup α) (xs : List α) (p n : Nat) (hinf : S.nself = none)
    (hc : Compat S xs p) (hm : MemOK S.mem) (r f m s t : Nat) :
    S.threeWayLower r f m s t
      - covOf (threeWayE xs n (S.g0 r) (S.g0 f) (S.g0 m)) (dhValue p (fun i => S.u i s)) (dhValue p (fun i => S.u i t))
    = genomeKer S.chrs (fun i j =>
        S.u i s * (infGap S xs n i j *
          (2 * ((S.g0 f i - S.g0 r i) * (S.g0 f j - S.g0 r j) + (S.g0 m i - S.g0 r i) * (S.g0 m j - S.g0 r j))
            + (rho xs i j - 1) * ((S.g0 f i - S.g0 m i) * (S.g0 f j - S.g0 m j))) * (1 / 4)) * S.u j t) := by
  rw [cov_eq_genomeKer hc (lin_threeWay xs n _ _ _) _ _
      (fun c i j => (2 * ((S.g0 f i - S.g0 r i) * delta c n * (S.g0 f j - S.g0 r j)
            + (S.g0 m i - S.g0 r i) * delta c n * (S.g0 m j - S.g0 r j))
        + (S.g0 f i - S.g0 m i) * (c - delta c n + c * delta c n) * (S.g0 f j - S.g0 m j)) * (1 / 4))
      (fun i j => coordCov_threeWay xs hc.half n _ _ _ i j)
      (fun i j => by simp only [delta_zero]; ring)]
  rw [Setup.threeWayLower_closed S hm hc.chrOK, genomeKer_mul_right, genomeKer_sub]
  apply genomeKer_congr
  intro c hcm i j hi1 hi2 hj1 hj2
  unfold Setup.ker3 Setup.ker
  rw [hc.D1_inf_within hinf n c hcm i j hi1 hi2 hj1 hj2, hc.D2_inf_within hinf n c hcm i j hi1 hi2 hj1 hj2]
  ring

theorem fourWayDH_inf_error (S : Setup α) (xs : List α) (p n : Nat) (hinf : S.nself = none)
    (hc : Compat S xs p) (hm : MemOK S.mem) (f2 m2 f1 m1 s t : Nat) :
    S.fourWayLower f2 m2 f1 m1 s t
      - covOf (fourWayE xs n (S.g0 f2) (S.g0 m2) (S.g0 f1) (S.g0 m1)) (dhValue p (fun i => S.u i s)) (dhValue p (fun i => S.u i t))
    = genomeKer S.chrs (fun i j =>
        S.u i s * (infGap S xs n i j *
          ( (rho xs i j - 1) * ((S.g0 m2 i - S.g0 f2 i) * (S.g0 m2 j - S.g0 f2 j))
          + (S.g0 f1 i - S.g0 f2 i) * (S.g0 f1 j - S.g0 f2 j) + (S.g0 f1 i - S.g0 m2 i) * (S.g0 f1 j - S.g0 m2 j)
          + (S.g0 m1 i - S.g0 f2 i) * (S.g0 m1 j - S.g0 f2 j) + (S.g0 m1 i - S.g0 m2 i) * (S.g0 m1 j - S.g0 m2 j)
          + (rho xs i j - 1) * ((S.g0 m1 i - S.g0 f1 i) * (S.g0 m1 j - S.g0 f1 j))) * (1 / 4)) * S.u j t) := by
  rw [cov_eq_genomeKer hc (lin_fourWay xs n _ _ _ _) _ _
      (fun c i j =>
        ( (S.g0 m2 i - S.g0 f2 i) * (c - delta c n + c * delta c n) * (S.g0 m2 j - S.g0 f2 j)
        + (S.g0 f1 i - S.g0 f2 i) * delta c n * (S.g0 f1 j - S.g0 f2 j)
        + (S.g0 f1 i - S.g0 m2 i) * delta c n * (S.g0 f1 j - S.g0 m2 j)
        + (S.g0 m1 i - S.g0 f2 i) * delta c n * (S.g0 m1 j - S.g0 f2 j)
        + (S.g0 m1 i - S.g0 m2 i) * delta c n * (S.g0 m1 j - S.g0 m2 j)
        + (S.g0 m1 i - S.g0 f1 i) * (c - delta c n + c * delta c n) * (S.g0 m1 j - S.g0 f1 j)) * (1 / 4))
      (fun i j => coordCov_fourWay xs hc.half n _ _ _ _ i j)
      (fun i j => by simp only [delta_zero]; ring)]
  rw [Setup.fourWayLower_closed S hm hc.chrOK, genomeKer_mul_right, genomeKer_sub]
  apply genomeKer_congr
  intro c hcm i j hi1 hi2 hj1 hj2
  unfold Setup.ker6 Setup.ker
  rw [hc.D1_inf_within hinf n c hcm i j hi1 hi2 hj1 hj2, hc.D2_inf_within hinf n c hcm i j hi1 hi2 hj1 hj2]
  ring

theorem dihybridDH_inf_error (S : Setup α) (xs : List α) (p n : Nat) (hinf : S.nself = none)
    (hc : Compat S xs p) (hm : MemOK S.mem) (f m s t : Nat) :
    S.dihybridLower f m s t
      - covOf (fourWayE xs n (S.g1 f) (S.g0 f) (S.g1 m) (S.g0 m)) (dhValue p (fun i => S.u i s)) (dhValue p (fun i => S.u i t))
    = genomeKer S.chrs (fun i j =>
        S.u i s * (infGap S xs n i j *
          ( (rho xs i j - 1) * ((S.g0 f i - S.g1 f i) * (S.g0 f j - S.g1 f j))
          + (S.g1 m i - S.g1 f i) * (S.g1 m j - S.g1 f j) + (S.g1 m i - S.g0 f i) * (S.g1 m j - S.g0 f j)
          + (S.g0 m i - S.g1 f i) * (S.g0 m j - S.g1 f j) + (S.g0 m i - S.g0 f i) * (S.g0 m j - S.g0 f j)
          + (rho xs i j - 1) * ((S.g0 m i - S.g1 m i) * (S.g0 m j - S.g1 m j))) * (1 / 4)) * S.u j t) := by
  rw [cov_eq_genomeKer hc (lin_fourWay xs n _ _ _ _) _ _
      (fun c i j =>
        ( (S.g0 f i - S.g1 f i) * (c - delta c n + c * delta c n) * (S.g0 f j - S.g1 f j)
        + (S.g1 m i - S.g1 f i) * delta c n * (S.g1 m j - S.g1 f j)
        + (S.g1 m i - S.g0 f i) * delta c n * (S.g1 m j - S.g0 f j)
        + (S.g0 m i - S.g1 f i) * delta c n * (S.g0 m j - S.g1 f j)
        + (S.g0 m i - S.g0 f i) * delta c n * (S.g0 m j - S.g0 f j)
        + (S.g0 m i - S.g1 m i) * (c - delta c n + c * delta c n) * (S.g0 m j - S.g1 m j)) * (1 / 4))
      (fun i j => coordCov_fourWay xs hc.half n _ _ _ _ i j)
      (fun i j => by simp only [delta_zero]; ring)]
  rw [Setup.dihybridLower_closed S hm hc.chrOK, genomeKer_mul_right, genomeKer_sub]
  apply genomeKer_congr
  intro c hcm i j hi1 hi2 hj1 hj2
  unfold Setup.ker6 Setup.ker
  rw [hc.D1_inf_within hinf n c hcm i j hi1 hi2 hj1 hj2, hc.D2_inf_within hinf n c hcm i j hi1 hi2 hj1 hj2]
  ring

end inf_error

section inf_bound
variable {α : Type} [Field α] [LinearOrder α] [IsStrictOrderedRing α]

/-- every term of the `inf` error sums is geometrically small: `|infGap| ≤ (1/2)^n` whenever the pairwise recombination
    rate lies in `[0, 1/2]` (as every map function delivers) -/
theorem infGap_bound (S : Setup α) (xs : List α) (p n : Nat) (hc : Compat S xs p) (c : Nat × Nat) (hcm : c ∈ S.chrs)
    (i j : Nat) (hi1 : c.1 ≤ i) (hi2 : i < c.2) (hj1 : c.1 ≤ j) (hj2 : j < c.2)
    (h0 : 0 ≤ S.r i j) (h1 : S.r i j ≤ 1 / 2) :
    |infGap S xs n i j| ≤ (1 / 2) ^ n := by
  have hw := hc.within c hcm i j hi1 hi2 hj1 hj2
  have hne : 1 + 2 * S.r i j ≠ 0 := by positivity
  have g := covD1s_inf_gap (S.r i j) hne n
  have b := selfing_limit_bound (S.r i j) h0 h1 n
  rw [covD1s_eq_delta _ hne] at b
  unfold infGap
  rw [← hw, ← g, abs_sub_comm]
  exact b

end inf_bound

/-! ## 8. round 3: the loops as written, `rprob_filial` for every `k`, chunk boundaries, the Spec oracle -/
section round3
variable {α : Type} [Field α] [CharZero α]

/-- **`loops_eq_closed`** — the literal transcription of `from_algmod` (`numpy.zeros`; the chunk loops outside and the
    loops over the index tuples inside, accumulating with `+=`; `*= 0.25`; the mirror loop over `male < female`) leaves in
    every cell of an `n`-taxon matrix exactly the closed form the other theorems speak about — all four schemes, every
    chunk size, every number of linkage groups, variance and covariance classes (trait pair `(s,t)`). -/
theorem loops_eq_closed (S : Setup α) (n s t a b f m : Nat) (hf : f < n) (hm : m < n) :
    getAt (S.twoWayLoop n s t) (f, m) = S.twoWay f m s t ∧
    getAt (S.threeWayLoop n a s t) (f, m) = S.threeWay a f m s t ∧
    getAt (S.fourWayLoop n a b s t) (f, m) = S.fourWay a b f m s t ∧
    getAt (S.dihybridLoop n s t) (f, m) = S.dihybrid f m s t :=
  ⟨twoWayLoop_get S n s t f m hf hm, threeWayLoop_get S n a s t f m hf hm,
   fourWayLoop_get S n a b s t f m hf hm, dihybridLoop_get S n s t f m hf hm⟩

/-- the mirror loop alone: strictly-upper cells receive their transpose, every other cell is untouched -/
theorem mirror_loop_spec {β : Type} [Zero β] (n : Nat) (M : List ((Nat × Nat) × β)) (a b : Nat) :
    getAt (mirrorLoop n M) (a, b) = if a < b ∧ b < n then getAt M (b, a) else getAt M (a, b) :=
  mirrorLoop_get n M a b

/-- **`chunks_exact_multiple`** — when the chunk size divides the group size exactly (`lsp - lst = (q+1)·step`) the iterator
    yields `q + 1` full blocks: the extra `stop` of `srange` does not create an empty or a missing block. -/
theorem chunks_exact_multiple (lst step q : Nat) (hs : 0 < step) :
    chunks lst (lst + (q + 1) * step) step
      = (List.range (q + 1)).map (fun i => (lst + i * step, lst + (i + 1) * step)) :=
  chunks_exact step hs q lst

/-- **`chunks_single_block`** — a chunk size ≥ the group size (in particular every one-marker group, `lsp = lst + 1`)
    gives the single block `[lst, lsp)`. -/
theorem chunks_single_block (lst lsp step : Nat) (h1 : lst < lsp) (h2 : lsp - lst ≤ step) :
    chunks lst lsp step = [(lst, lsp)] :=
  chunks_big_step lst lsp step h1 h2

/-- **`one_marker_group`** — a linkage group with a single marker `i` contributes its diagonal term
    `d_i u_is · D(r_ii) · d_i u_it` (nothing is skipped), for every chunk size. -/
theorem one_marker_group (S : Setup α) (hm : MemOK S.mem) (i : Nat) (hc : S.chrs = [(i, i + 1)]) (f m s t : Nat) :
    S.twoWayLower f m s t
      = ((S.g0 f i - S.g0 m i) * S.u i s) * S.D1 i i * ((S.g0 f i - S.g0 m i) * S.u i t) := by
  unfold Setup.twoWayLower
  rw [hc, accum_one_marker S.mem hm i]
  unfold Setup.part
  rw [blockQuad_one]


/-- the alleles of a haplotype at the two markers `i`, `j`, as a two-marker haplotype -/
def pick (a : Nat → α) (i j : Nat) : Nat → α := fun k => if k = 0 then a i else a j

/-- **`pair_marginal`** — the covariance of the final gamete's alleles at markers `i`, `j` under the full enumeration over all
    `m` markers equals the one under the enumeration of the TWO-locus process with crossover probabilities
    `[1/2, (1 - ρ_ij)/2]` on the parental alleles at `i` and `j` — for the two-, three- and four-way (dihybrid) schemes and
    every selfing depth.  (This is what the harness's pairwise Spec oracle evaluates for many markers / deep selfing.) -/
theorem pair_marginal (xs : List α) (hx : HalfStart xs) (n : Nat) (p1 p2 p3 p4 : Nat → α) (i j : Nat) :
    let ys : List α := [1 / 2, (1 - rho xs i j) / 2]
    coordCov (twoWayE xs n p1 p2) i j = coordCov (twoWayE ys n (pick p1 i j) (pick p2 i j)) 0 1 ∧
    coordCov (threeWayE xs n p1 p2 p3) i j
      = coordCov (threeWayE ys n (pick p1 i j) (pick p2 i j) (pick p3 i j)) 0 1 ∧
    coordCov (fourWayE xs n p1 p2 p3 p4) i j
      = coordCov (fourWayE ys n (pick p1 i j) (pick p2 i j) (pick p3 i j) (pick p4 i j)) 0 1 := by
  intro ys
  have hy : HalfStart ys := halfStart_cons _
  have hr : rho ys 0 1 = rho xs i j := by
    simp only [ys, rho, prodTo]; ring
  have four_ne : (4 : α) ≠ 0 := by norm_num
  refine ⟨?_, ?_, ?_⟩
  · apply mul_left_cancel₀ four_ne
    rw [coordCov_twoWay xs hx, coordCov_twoWay ys hy, hr]
    simp [pick]
  · apply mul_left_cancel₀ four_ne
    rw [coordCov_threeWay xs hx, coordCov_threeWay ys hy, hr]
    simp [pick]
  · apply mul_left_cancel₀ four_ne
    rw [coordCov_fourWay xs hx, coordCov_fourWay ys hy, hr]
    simp [pick]

/-- **`rprob_filial_closed`** — `rprob_filial(r, k)` for EVERY finite `k`: `r_0 = 0`, `r_1 = r`, the one-generation selfing
    recursion `r_{k+1} = r + (1-2r)/2 · r_k`, the geometric-sum identity `r_k = r Σ_{j<k} ((1-2r)/2)^j`, the closed form
    `r_k = r_inf (1 - ((1-2r)/2)^k)`; and `k = inf`: the model returns `2r/(1+2r)`, the fixed point of the recursion. -/
theorem rprob_filial_closed (r : α) (h : 1 + 2 * r ≠ 0) (k : Nat) :
    rprobFilial r (some 0) = 0 ∧ rprobFilial r (some 1) = r ∧
    rprobFilial r (some (k + 1)) = r + (1 - 2 * r) / 2 * rprobFilial r (some k) ∧
    rprobFilial r (some k) = r * ∑ j ∈ Finset.range k, ((1 - 2 * r) / 2) ^ j ∧
    rprobFilial r (some k) = rprobFilial r none * (1 - ((1 - 2 * r) / 2) ^ k) ∧
    rprobFilial r none = 2 * r / (1 + 2 * r) ∧
    rprobFilial r none = r + (1 - 2 * r) / 2 * rprobFilial r none :=
  ⟨rprobFilial_zero r, rprobFilial_one r h, rprobFilial_succ r h k, rprobFilial_geom r h k, rprobFilial_closed r k,
   rprobFilial_none r, rprobFilial_inf_fixed r h⟩

/-- **`cov_D_defs`** — `cov_D1s` / `cov_D2s` at EVERY selfing depth (the special-cased `nself == 0` branch included) and at
    `inf` are `1 - 2 r_{nself+1}` and `1 - 4r + 4r r_{nself+1}`; `D2 = c - D1 + c·D1` with `c = 1 - 2r`. -/
theorem cov_D_defs (r : α) (h : 1 + 2 * r ≠ 0) (n : Nat) (ns : Option Nat) :
    covD1s r (some n) = 1 - 2 * rprobFilial r (some (n + 1)) ∧ covD1s r none = 1 - 2 * rprobFilial r none ∧
    covD2s r (some n) = 1 - 4 * r + 4 * r * rprobFilial r (some (n + 1)) ∧
    covD2s r none = 1 - 4 * r + 4 * r * rprobFilial r none ∧
    covD2s r ns = (1 - 2 * r) - covD1s r ns + (1 - 2 * r) * covD1s r ns :=
  ⟨covD1s_def r h n, covD1s_inf r, covD2s_def r h n, covD2s_inf r, covD2s_of_D1 r h ns⟩

/-- **`cov_Dst_defs`** — the variants with `t` generations of random intermating: without selfing the F1 terms decay by
    `(1-r)^t`; with any selfing (`nself ≥ 1` or `inf`) `t` is ignored ("s takes priority over t"). -/
theorem cov_Dst_defs (r : α) (n t : Nat) :
    covD1st r (some 0) t = (1 - 2 * r) * (1 - r) ^ t ∧ covD2st r (some 0) t = (1 - 2 * r) ^ 2 * (1 - r) ^ t ∧
    covD1st r (some (n + 1)) t = covD1s r (some (n + 1)) ∧ covD2st r (some (n + 1)) t = covD2s r (some (n + 1)) ∧
    covD1st r none t = covD1s r none ∧ covD2st r none t = covD2s r none :=
  ⟨covD1st_zero_self r t, covD2st_zero_self r t, covD1st_selfed r n t, covD2st_selfed r n t, covD1st_inf r t, covD2st_inf r t⟩

end round3

section round3_ordered
variable {α : Type} [Field α] [LinearOrder α] [IsStrictOrderedRing α]

/-- **`rprob_filial_monotone`** — for a recombination rate `0 ≤ r ≤ 1/2`: `r_k` is non-negative, non-decreasing in `k`,
    bounded by the value for `k = inf`, which it approaches geometrically: `0 ≤ r_inf - r_k ≤ (1/2)^(k+1)`. -/
theorem rprob_filial_monotone (r : α) (h0 : 0 ≤ r) (h1 : r ≤ 1 / 2) (k : Nat) :
    0 ≤ rprobFilial r (some k) ∧ rprobFilial r (some k) ≤ rprobFilial r (some (k + 1)) ∧
    rprobFilial r (some k) ≤ rprobFilial r none ∧ rprobFilial r none ≤ 1 / 2 ∧
    rprobFilial r none - rprobFilial r (some k) ≤ (1 / 2) ^ (k + 1) :=
  ⟨(rprobFilial_mono r h0 h1 k).1, (rprobFilial_mono r h0 h1 k).2.1, (rprobFilial_mono r h0 h1 k).2.2,
   (rprobFilial_inf_bounds r h0 h1).2, (rprobFilial_limit r h0 h1 k).2⟩

/-- **`spec_iff`** — the Bool oracle `specClose` evaluated by the driver op `c12.spec_enum` on the implementation's value
    accepts exactly when `|impl - want| ≤ tol · max(1, |want|)`; with tolerance 0 it is equality. -/
theorem spec_iff (impl want tol : α) :
    (specClose impl want tol = true ↔ |impl - want| ≤ tol * max 1 |want|) ∧
    (specClose impl want 0 = true ↔ impl = want) :=
  ⟨specClose_iff impl want tol, specClose_zero_iff impl want⟩

/-- **`spec_sound`** — the model's own cells pass the oracle against the enumeration at every tolerance ≥ 0
    (all four schemes, every finite selfing depth). -/
theorem spec_sound (S : Setup α) (xs : List α) (p n : Nat) (hn : S.nself = some n) (hc : Compat S xs p)
    (hm : MemOK S.mem) (tol : α) (ht : 0 ≤ tol) (a b c d s t : Nat) :
    let U := dhValue p (fun i => S.u i s)
    let V := dhValue p (fun i => S.u i t)
    specClose (S.twoWay a b s t) (covOf (twoWayE xs n (S.g0 a) (S.g0 b)) U V) tol = true ∧
    specClose (S.threeWay a b c s t) (covOf (threeWayE xs n (S.g0 a) (S.g0 b) (S.g0 c)) U V) tol = true ∧
    specClose (S.fourWay a b c d s t) (covOf (fourWayE xs n (S.g0 a) (S.g0 b) (S.g0 c) (S.g0 d)) U V) tol = true ∧
    specClose (S.dihybrid a b s t) (covOf (fourWayE xs n (S.g1 a) (S.g0 a) (S.g1 b) (S.g0 b)) U V) tol = true :=
  ⟨specClose_of_eq _ _ tol (twoWayDH_eq_enum S xs p n hn hc hm a b s t) ht,
   specClose_of_eq _ _ tol (threeWayDH_eq_enum S xs p n hn hc hm a b c s t) ht,
   specClose_of_eq _ _ tol (fourWayDH_eq_enum S xs p n hn hc hm a b c d s t) ht,
   specClose_of_eq _ _ tol (dihybridDH_eq_enum S xs p n hn hc hm a b s t) ht⟩

end round3_ordered

section round3_witnesses

/-- chunk boundaries: exact multiples (no empty / missing last block), one-marker groups, the default `mem = 1024` on 1030
    and on 2048 markers -/
example : chunks 0 6 3 = [(0, 3), (3, 6)] ∧ chunks 5 6 4 = [(5, 6)] ∧ chunks 2 3 1 = [(2, 3)] ∧
    chunks 0 1030 1024 = [(0, 1024), (1024, 1030)] ∧ chunks 0 2048 1024 = [(0, 1024), (1024, 2048)] := by decide +kernel
example : blocksOf (some 2) [(0, 3), (3, 4)] = [(0, 2, 0, 2), (0, 2, 2, 3), (2, 3, 0, 2), (2, 3, 2, 3), (3, 4, 3, 4)] := by
  decide +kernel
/-- `r = 1/4`: `r_1 = 1/4`, `r_2 = 5/16`, `r_8 = 21845/65536`, `r_inf = 1/3` (the values of `k ≥ 8` are NOT the limit) -/
example : rprobFilial (1 / 4 : ℚ) (some 1) = 1 / 4 ∧ rprobFilial (1 / 4 : ℚ) (some 2) = 5 / 16 ∧
    rprobFilial (1 / 4 : ℚ) (some 8) = 21845 / 65536 ∧ rprobFilial (1 / 4 : ℚ) none = 1 / 3 := by decide +kernel
example : (0 : ℚ) ≤ 1 / 4 ∧ (1 / 4 : ℚ) ≤ 1 / 2 ∧ (1 : ℚ) + 2 * (1 / 4) ≠ 0 := by norm_num
/-- the literal loops on the instance `exS` (3 taxa): cell `[0,1]` filled by the mirror loop, cell `[1,0]` by the accumulation -/
example : getAt (exS.twoWayLoop 3 0 1) (0, 1) = 29 / 4 ∧ getAt (exS.twoWayLoop 3 0 1) (1, 0) = 29 / 4 ∧
    getAt (exS.twoWayLoop 3 0 1) (2, 2) = 0 := by decide +kernel
example : getAt (exS.dihybridLoop 3 0 0) (0, 2) = exS.dihybrid 0 2 0 0 :=
  (loops_eq_closed exS 3 0 0 0 0 0 2 (by omega) (by omega)).2.2.2
example : HalfStart exXs := halfStart_cons _
/-- the oracle on concrete numbers -/
example : specClose (29 / 4 : ℚ) (29 / 4) 0 = true ∧ specClose (7 : ℚ) (29 / 4) (1 / 1000) = false := by decide +kernel
/-- dihybrid class, selfing the heterozygous taxon 0 of `Wd` (configuration `[0,0]`): the criterion uses variance 1, not 0 -/
example : ucVal (fun x => x)
    (pmean [1 / 2, 1 / 2] [bvOf 1 0 (fun i => Wd.u i 0) (Wd.g0 0) (Wd.g1 0), bvOf 1 0 (fun i => Wd.u i 0) (Wd.g0 0) (Wd.g1 0)])
    2 (Wd.dihybrid 0 0 0 0) = 3 := by decide +kernel
/-- a one-marker linkage group -/
example : W.chrs = [(0, 0 + 1)] := rfl
/-- the hypotheses of the `inf` theorems: the instance `exS` with `nself = inf`; recombination rates within `[0, 1/2]` -/
example : ({ exS with nself := none } : Setup ℚ).nself = none ∧ Compat ({ exS with nself := none } : Setup ℚ) exXs 3 :=
  ⟨rfl, ⟨nonvacuous_ex.half, nonvacuous_ex.tiles, nonvacuous_ex.start, nonvacuous_ex.within, nonvacuous_ex.rne⟩⟩
example : (0 : ℚ) ≤ exS.r 0 1 ∧ exS.r 0 1 ≤ 1 / 2 := by decide +kernel

end round3_witnesses

/-! ## 9. round 4: non-negative variances, trait symmetry of every covariance class, the cross map, the rows of the
usefulness-criterion matrix for ANY list of configurations, the genic loops as written -/
section round4_ordered
variable {α : Type} [Field α] [LinearOrder α] [IsStrictOrderedRing α]

/-- **`variance_nonneg`** — with crossover probabilities in `[0, 1]` every reported variance (trait diagonal of all four
    classes, every index tuple, every finite selfing depth, every chunk size) is non-negative: it is the variance of a
    probability distribution.  (Ties the judge's `negative_variance` clause to the property.) -/
theorem variance_nonneg (S : Setup α) (xs : List α) (p n : Nat) (hn : S.nself = some n) (hc : Compat S xs p)
    (hm : MemOK S.mem) (hp : Prob xs) (a b c d t : Nat) :
    0 ≤ S.twoWay a b t t ∧ 0 ≤ S.threeWay a b c t t ∧ 0 ≤ S.fourWay a b c d t t ∧ 0 ≤ S.dihybrid a b t t := by
  refine ⟨?_, ?_, ?_, ?_⟩
  · rw [twoWayDH_eq_enum S xs p n hn hc hm]
    exact covOf_self_nonneg _ _ (twoWayE_jensen xs hp n _ _ _)
  · rw [threeWayDH_eq_enum S xs p n hn hc hm]
    exact covOf_self_nonneg _ _ (threeWayE_jensen xs hp n _ _ _ _)
  · rw [fourWayDH_eq_enum S xs p n hn hc hm]
    exact covOf_self_nonneg _ _ (fourWayE_jensen xs hp n _ _ _ _ _)
  · rw [dihybridDH_eq_enum S xs p n hn hc hm]
    exact covOf_self_nonneg _ _ (fourWayE_jensen xs hp n _ _ _ _ _)

/-- **`uc_def`** — two-way class (cell formula since fix D37: `sqrt(max(pvar, 0))`): the usefulness criterion built on the reported variance is the
    enumerated progeny mean (intercept included) plus the selection intensity times the square root of
    the enumerated progeny variance. -/
theorem uc_def (S : Setup α) (xs : List α) (p n : Nat) (hn : S.nself = some n)
    (hc : Compat S xs p) (hm : MemOK S.mem) (hp : Prob xs) (sqrt : α → α) (inten beta : α) (f m t : Nat)
    (inf : ∀ i, S.g1 f i = S.g0 f i) (inm : ∀ i, S.g1 m i = S.g0 m i) :
    ucVal sqrt
        (pmean [1 / 2, 1 / 2] [bvOf p beta (fun i => S.u i t) (S.g0 f) (S.g1 f),
                               bvOf p beta (fun i => S.u i t) (S.g0 m) (S.g1 m)])
        inten (S.twoWay f m t t)
      = (beta + twoWayE xs n (S.g0 f) (S.g0 m) (dhValue p (fun i => S.u i t)))
        + inten * sqrt (covOf (twoWayE xs n (S.g0 f) (S.g0 m))
            (dhValue p (fun i => S.u i t)) (dhValue p (fun i => S.u i t))) := by
  rw [ucVal_of_nonneg _ _ _ _ (variance_nonneg S xs p n hn hc hm hp f m 0 0 t).1]
  unfold ucValPrerepair
  rw [twoWayDH_eq_enum S xs p n hn hc hm f m t t, (progeny_mean xs hc.half n p _ _ (S.g0 f) (S.g0 f) _).1]
  congr 1
  have e1 : S.g1 f = S.g0 f := funext inf
  have e2 : S.g1 m = S.g0 m := funext inm
  simp only [pmean, bvOf, dhValue, e1, e2, List.zipWith_cons_cons, List.zipWith_nil_right, List.sum_cons, List.sum_nil]
  ring

/-- `uc_def`, three-way class (all cells): contributions 1/2, 1/4, 1/4 -/
theorem uc_def_threeWay (S : Setup α) (xs : List α) (p n : Nat) (hn : S.nself = some n)
    (hc : Compat S xs p) (hm : MemOK S.mem) (hp : Prob xs) (sqrt : α → α) (inten beta : α) (r f m t : Nat)
    (inr : ∀ i, S.g1 r i = S.g0 r i) (inf : ∀ i, S.g1 f i = S.g0 f i) (inm : ∀ i, S.g1 m i = S.g0 m i) :
    ucVal sqrt
        (pmean [1 / 2, 1 / 4, 1 / 4] [bvOf p beta (fun i => S.u i t) (S.g0 r) (S.g1 r),
                                      bvOf p beta (fun i => S.u i t) (S.g0 f) (S.g1 f),
                                      bvOf p beta (fun i => S.u i t) (S.g0 m) (S.g1 m)])
        inten (S.threeWay r f m t t)
      = (beta + threeWayE xs n (S.g0 r) (S.g0 f) (S.g0 m) (dhValue p (fun i => S.u i t)))
        + inten * sqrt (covOf (threeWayE xs n (S.g0 r) (S.g0 f) (S.g0 m))
            (dhValue p (fun i => S.u i t)) (dhValue p (fun i => S.u i t))) := by
  rw [ucVal_of_nonneg _ _ _ _ (variance_nonneg S xs p n hn hc hm hp r f m 0 t).2.1]
  unfold ucValPrerepair
  rw [threeWayDH_eq_enum S xs p n hn hc hm r f m t t,
    (progeny_mean xs hc.half n p (S.g0 r) (S.g0 f) (S.g0 m) (S.g0 m) _).2.1]
  congr 1
  have e0 : S.g1 r = S.g0 r := funext inr
  have e1 : S.g1 f = S.g0 f := funext inf
  have e2 : S.g1 m = S.g0 m := funext inm
  simp only [pmean, bvOf, dhValue, e0, e1, e2, List.zipWith_cons_cons, List.zipWith_nil_right, List.sum_cons, List.sum_nil]
  ring

/-- `uc_def`, four-way class (all cells): contributions 1/4 each -/
theorem uc_def_fourWay (S : Setup α) (xs : List α) (p n : Nat) (hn : S.nself = some n)
    (hc : Compat S xs p) (hm : MemOK S.mem) (hp : Prob xs) (sqrt : α → α) (inten beta : α) (f2 m2 f1 m1 t : Nat)
    (i1 : ∀ i, S.g1 f2 i = S.g0 f2 i) (i2 : ∀ i, S.g1 m2 i = S.g0 m2 i)
    (i3 : ∀ i, S.g1 f1 i = S.g0 f1 i) (i4 : ∀ i, S.g1 m1 i = S.g0 m1 i) :
    ucVal sqrt
        (pmean [1 / 4, 1 / 4, 1 / 4, 1 / 4] [bvOf p beta (fun i => S.u i t) (S.g0 f2) (S.g1 f2),
                                             bvOf p beta (fun i => S.u i t) (S.g0 m2) (S.g1 m2),
                                             bvOf p beta (fun i => S.u i t) (S.g0 f1) (S.g1 f1),
                                             bvOf p beta (fun i => S.u i t) (S.g0 m1) (S.g1 m1)])
        inten (S.fourWay f2 m2 f1 m1 t t)
      = (beta + fourWayE xs n (S.g0 f2) (S.g0 m2) (S.g0 f1) (S.g0 m1) (dhValue p (fun i => S.u i t)))
        + inten * sqrt (covOf (fourWayE xs n (S.g0 f2) (S.g0 m2) (S.g0 f1) (S.g0 m1))
            (dhValue p (fun i => S.u i t)) (dhValue p (fun i => S.u i t))) := by
  rw [ucVal_of_nonneg _ _ _ _ (variance_nonneg S xs p n hn hc hm hp f2 m2 f1 m1 t).2.2.1]
  unfold ucValPrerepair
  rw [fourWayDH_eq_enum S xs p n hn hc hm f2 m2 f1 m1 t t,
    (progeny_mean xs hc.half n p (S.g0 f2) (S.g0 m2) (S.g0 f1) (S.g0 m1) _).2.2]
  congr 1
  have e1 : S.g1 f2 = S.g0 f2 := funext i1
  have e2 : S.g1 m2 = S.g0 m2 := funext i2
  have e3 : S.g1 f1 = S.g0 f1 := funext i3
  have e4 : S.g1 m1 = S.g0 m1 := funext i4
  simp only [pmean, bvOf, dhValue, e1, e2, e3, e4, List.zipWith_cons_cons, List.zipWith_nil_right, List.sum_cons, List.sum_nil]
  ring

/-- `uc_def`, dihybrid class (all cells, selfs included; heterozygous parents, contributions 1/2, 1/2) -/
theorem uc_def_dihybrid (S : Setup α) (xs : List α) (p n : Nat) (hn : S.nself = some n)
    (hc : Compat S xs p) (hm : MemOK S.mem) (hp : Prob xs) (sqrt : α → α) (inten beta : α) (f m t : Nat) :
    ucVal sqrt
        (pmean [1 / 2, 1 / 2] [bvOf p beta (fun i => S.u i t) (S.g0 f) (S.g1 f),
                               bvOf p beta (fun i => S.u i t) (S.g0 m) (S.g1 m)])
        inten (S.dihybrid f m t t)
      = (beta + fourWayE xs n (S.g1 f) (S.g0 f) (S.g1 m) (S.g0 m) (dhValue p (fun i => S.u i t)))
        + inten * sqrt (covOf (fourWayE xs n (S.g1 f) (S.g0 f) (S.g1 m) (S.g0 m))
            (dhValue p (fun i => S.u i t)) (dhValue p (fun i => S.u i t))) := by
  rw [ucVal_of_nonneg _ _ _ _ (variance_nonneg S xs p n hn hc hm hp f m 0 0 t).2.2.2]
  unfold ucValPrerepair
  rw [dihybridDH_eq_enum S xs p n hn hc hm f m t t,
    (progeny_mean xs hc.half n p (S.g1 f) (S.g0 f) (S.g1 m) (S.g0 m) _).2.2]
  congr 1
  have hb : ∀ h0 h1 : Nat → α, bvOf p beta (fun i => S.u i t) h0 h1
      = beta + 1 / 2 * dhValue p (fun i => S.u i t) h0 + 1 / 2 * dhValue p (fun i => S.u i t) h1 := by
    intro h0 h1
    unfold bvOf dhValue
    rw [← sumRange_mul_left, ← sumRange_mul_left, add_assoc, ← sumRange_add]
    congr 1
    apply sumRange_congr; intro i _ _; ring
  simp only [pmean, hb, List.zipWith_cons_cons, List.zipWith_nil_right, List.sum_cons, List.sum_nil]
  ring

/-- **`ucmat_rows`** — `_calc_uc` for ANY cross map (any list of configurations, in any parent order, rows repeated or not):
    row `i`, trait `t` of the usefulness-criterion matrix is the enumerated progeny mean (intercept included) of the cross
    named by row `i` of the map plus the selection intensity times the square root of its enumerated variance.
    Two-way, three-way, four-way (inbred parents) and dihybrid (arbitrary phased parents) classes. -/
theorem ucmat_rows (S : Setup α) (xs : List α) (p n : Nat) (hn : S.nself = some n) (hc : Compat S xs p)
    (hm : MemOK S.mem) (hp : Prob xs) (sqrt : α → α) (inten : α) (beta : Nat → α) (ntrait : Nat) (xmap : List (List Nat))
    (i t : Nat) (hi : i < xmap.length) (ht : t < ntrait) (a b c d : Nat) :
    let bv : Nat → Nat → α := fun k t => bvOf p (beta t) (fun j => S.u j t) (S.g0 k) (S.g1 k)
    let U := dhValue p (fun j => S.u j t)
    let cell (M : List (List α)) := M[i]?.bind (fun row => row[t]?)
    (xmap[i] = [a, b] → (∀ j, S.g1 a j = S.g0 a j) → (∀ j, S.g1 b j = S.g0 b j) →
      cell (ucMat sqrt inten [1 / 2, 1 / 2] bv (fun cfg t => S.twoWay (cfg.getD 0 0) (cfg.getD 1 0) t t) ntrait xmap)
        = some ((beta t + twoWayE xs n (S.g0 a) (S.g0 b) U) + inten * sqrt (covOf (twoWayE xs n (S.g0 a) (S.g0 b)) U U))) ∧
    (xmap[i] = [a, b, c] → (∀ j, S.g1 a j = S.g0 a j) → (∀ j, S.g1 b j = S.g0 b j) → (∀ j, S.g1 c j = S.g0 c j) →
      cell (ucMat sqrt inten [1 / 2, 1 / 4, 1 / 4] bv
          (fun cfg t => S.threeWay (cfg.getD 0 0) (cfg.getD 1 0) (cfg.getD 2 0) t t) ntrait xmap)
        = some ((beta t + threeWayE xs n (S.g0 a) (S.g0 b) (S.g0 c) U)
            + inten * sqrt (covOf (threeWayE xs n (S.g0 a) (S.g0 b) (S.g0 c)) U U))) ∧
    (xmap[i] = [a, b, c, d] → (∀ j, S.g1 a j = S.g0 a j) → (∀ j, S.g1 b j = S.g0 b j) → (∀ j, S.g1 c j = S.g0 c j) →
        (∀ j, S.g1 d j = S.g0 d j) →
      cell (ucMat sqrt inten [1 / 4, 1 / 4, 1 / 4, 1 / 4] bv
          (fun cfg t => S.fourWay (cfg.getD 0 0) (cfg.getD 1 0) (cfg.getD 2 0) (cfg.getD 3 0) t t) ntrait xmap)
        = some ((beta t + fourWayE xs n (S.g0 a) (S.g0 b) (S.g0 c) (S.g0 d) U)
            + inten * sqrt (covOf (fourWayE xs n (S.g0 a) (S.g0 b) (S.g0 c) (S.g0 d)) U U))) ∧
    (xmap[i] = [a, b] →
      cell (ucMat sqrt inten [1 / 2, 1 / 2] bv (fun cfg t => S.dihybrid (cfg.getD 0 0) (cfg.getD 1 0) t t) ntrait xmap)
        = some ((beta t + fourWayE xs n (S.g1 a) (S.g0 a) (S.g1 b) (S.g0 b) U)
            + inten * sqrt (covOf (fourWayE xs n (S.g1 a) (S.g0 a) (S.g1 b) (S.g0 b)) U U))) := by
  intro bv U cell
  refine ⟨?_, ?_, ?_, ?_⟩
  · intro hcfg ia ib
    simp only [cell]
    rw [ucMat_get _ _ _ _ _ _ _ i t hi ht, hcfg]
    exact congrArg some (uc_def S xs p n hn hc hm hp sqrt inten (beta t) a b t ia ib)
  · intro hcfg ia ib ic
    simp only [cell]
    rw [ucMat_get _ _ _ _ _ _ _ i t hi ht, hcfg]
    exact congrArg some (uc_def_threeWay S xs p n hn hc hm hp sqrt inten (beta t) a b c t ia ib ic)
  · intro hcfg ia ib ic id
    simp only [cell]
    rw [ucMat_get _ _ _ _ _ _ _ i t hi ht, hcfg]
    exact congrArg some (uc_def_fourWay S xs p n hn hc hm hp sqrt inten (beta t) a b c d t ia ib ic id)
  · intro hcfg
    simp only [cell]
    rw [ucMat_get _ _ _ _ _ _ _ i t hi ht, hcfg]
    exact congrArg some (uc_def_dihybrid S xs p n hn hc hm hp sqrt inten (beta t) a b t)

end round4_ordered

section round4
variable {α : Type} [Field α] [CharZero α]

/-- **`trait_symm`** — the three-way, four-way and dihybrid covariance classes are symmetric in the trait pair, for every
    index tuple (the two-way class: `twoWay_trait_symm`). -/
theorem trait_symm (S : Setup α) (xs : List α) (p n : Nat) (hn : S.nself = some n)
    (hc : Compat S xs p) (hm : MemOK S.mem) (a b c d s t : Nat) :
    S.threeWay a b c s t = S.threeWay a b c t s ∧ S.fourWay a b c d s t = S.fourWay a b c d t s ∧
    S.dihybrid a b s t = S.dihybrid a b t s := by
  refine ⟨?_, ?_, ?_⟩
  · rw [threeWayDH_eq_enum S xs p n hn hc hm, threeWayDH_eq_enum S xs p n hn hc hm]; exact covOf_comm _ _ _
  · rw [fourWayDH_eq_enum S xs p n hn hc hm, fourWayDH_eq_enum S xs p n hn hc hm]; exact covOf_comm _ _ _
  · rw [dihybridDH_eq_enum S xs p n hn hc hm, dihybridDH_eq_enum S xs p n hn hc hm]; exact covOf_comm _ _ _

/-- **`xmap_spec`** — `_calc_xmap(ntaxa, nparent, unique_parents)` (`triudix` / `triuix`, the recursion as written) lists
    exactly the index tuples of length `nparent` over `range(ntaxa)` whose entries increase strictly (`unique_parents`) or
    weakly, each once. -/
theorem xmap_spec (n k : Nat) (unique : Bool) (l : List Nat) :
    (l ∈ calcXmap n k unique ↔
      l.length = k ∧ (∀ x ∈ l, x < n) ∧ l.Pairwise (fun a b => if unique then a < b else a ≤ b)) ∧
    (calcXmap n k unique).Nodup := by
  constructor
  · have h := mem_triuAux unique n k 0 l
    have e : calcXmap n k unique = triuAux unique n k 0 := by cases unique <;> rfl
    rw [e, h]
    simp only [Nat.zero_le, true_and]
    rfl
  · cases unique
    · exact nodup_triuAux false n k 0
    · exact nodup_triuAux true n k 0

/-- **`genic_loops_written`** — the genic `from_algmod` loops as written (`numpy.empty`; `for female: for male ≤ female:
    M[f,m] = v; M[m,f] = v`): every cell with both indices `< n` IS written (nothing of the uninitialised array survives) and
    holds the closed form the `genic_eq_linkage_free_*` theorems speak about; two-way / dihybrid, three-way (slice of a
    recurrent parent) and four-way (slice of a first hybrid) classes. -/
theorem genic_loops_written (S : Setup α) (n nvrnt : Nat) (ploidy : α) (r f2 m2 t f m : Nat) (hf : f < n) (hm : m < n) :
    findAt (S.genic2Loop n nvrnt ploidy t) (f, m) = some (genic2 S nvrnt ploidy f m t) ∧
    findAt (S.genic3Loop n nvrnt ploidy r t) (f, m) = some (genic3 S nvrnt ploidy r f m t) ∧
    findAt (S.genic4Loop n nvrnt ploidy f2 m2 t) (f, m) = some (genic4 S nvrnt ploidy f2 m2 f m t) := by
  refine ⟨?_, ?_, ?_⟩
  · unfold Setup.genic2Loop; rw [fillSymLoop_find]; simp [hf, hm, genic2]
  · unfold Setup.genic3Loop; rw [fillSymLoop_find]; simp [hf, hm, genic3]
  · unfold Setup.genic4Loop; rw [fillSymLoop_find]; simp [hf, hm, genic4]

end round4

section round4_witnesses

/-- the crossover probabilities of the instance `exS` are probabilities -/
example : Prob exXs := by
  intro x hx
  simp only [exXs, List.mem_cons, List.not_mem_nil, or_false] at hx
  rcases hx with rfl | rfl | rfl <;> norm_num
example : 0 ≤ exS.threeWay 0 1 2 1 1 :=
  (variance_nonneg exS exXs 3 1 rfl nonvacuous_ex (fun k h => by simp only [exS, Option.some.injEq] at h; omega)
    (by intro x hx
        simp only [exXs, List.mem_cons, List.not_mem_nil, or_false] at hx
        rcases hx with rfl | rfl | rfl <;> norm_num) 0 1 2 0 1).2.1
/-- the cross maps: 3 taxa, 2 parents, selfs allowed; 4 taxa, 3 distinct parents -/
example : calcXmap 3 2 false = [[0, 0], [0, 1], [0, 2], [1, 1], [1, 2], [2, 2]] ∧
    calcXmap 4 3 true = [[0, 1, 2], [0, 1, 3], [0, 2, 3], [1, 2, 3]] ∧ calcXmap 2 4 true = [] := by decide +kernel
/-- a caller-supplied map in descending parent order with a repeated row: rows follow the map, not a sorted form of it -/
example : ucMat (fun x => x) (2 : ℚ) [1 / 2, 1 / 4, 1 / 4] (fun k _ => (k : ℚ)) (fun cfg _ => (cfg.getD 0 0 : ℚ)) 1
    [[2, 1, 0], [0, 1, 2], [2, 1, 0]] = [[21 / 4], [3 / 4], [21 / 4]] := by decide +kernel
/-- the genic loop on the instance: cell `[0,2]` is filled by the second assignment of the pair `(2,0)` -/
example : findAt (exS.genic2Loop 3 3 2 0) (0, 2) = some (genic2 exS 3 2 0 2 0) ∧
    findAt (exS.genic2Loop 3 3 2 0) (3, 0) = none := by decide +kernel

/-- **fix D37, before the repair** (`_calc_uc` took `numpy.sqrt(pvar)`): in binary64 the accumulated variance of a cross whose
    completely linked effects cancel is `-2.8e-17` (numpy reports exactly this value for the same input), and `numpy.sqrt` of it is
    NaN, so the pre-repair cell formula gives NaN — whereas over an ordered field the variance is non-negative (`variance_nonneg`)
    and `uc_def` gives the parental mean. -/
theorem uc_sqrt_of_rounded_variance_prerepair_counterexample :
    (negVarWitness < 0) = true ∧ (Float.sqrt negVarWitness).isNaN = true ∧
    (ucValPrerepair Float.sqrt 1.5 1.75 negVarWitness).isNaN = true := by decide +kernel

/-- **fix D37, repaired** (`numpy.sqrt(numpy.maximum(pvar, 0.0))`): on the same binary64 input the cell formula gives exactly the
    parental mean (here 1.5, intensity 1.75) -/
example : (ucVal Float.sqrt 1.5 1.75 negVarWitness == 1.5) = true ∧ (clip0 negVarWitness == 0) = true := by decide +kernel
/-- over an ordered field: a negative argument is read as 0, a non-negative one is unchanged -/
example : ucVal (fun x => x) (3 : ℚ) 2 (-1 / 8) = 3 ∧ ucVal (fun x => x) (3 : ℚ) 2 (1 / 8) = ucValPrerepair (fun x => x) 3 2 (1 / 8) := by
  decide +kernel

end round4_witnesses

end C12
