import PybropsModel.Model.Pareto
theorem C19_dummy : 1 + 1 = 2 := by decide
