/-
C19 — Pareto-front identification and front ranking are exact.
Property theorems only (helper lemmas live in Lemmas/ParetoLoop, ParetoVec, ParetoSet, ParetoSpecMask,
ParetoFirst, ParetoSigned for the filter and the dominance predicate, Lemmas/ParetoDist, ParetoCols,
ParetoGeo, ParetoSpec, ParetoCopies, ParetoFast, ParetoDot for the transformations).

Model: PybropsModel/Model/Pareto.lean (`efficientIdx`, `efficientMask` transcribe
pybrops/core/util/pareto.py:is_pareto_efficient; `dominates` transcribes pymoo_addon.dominates;
`transDistSq` is the common model of the three distance-to-preference-vector transformations on squared
distances and `transDistCore` / `transDistProb` / `transDistFn` follow the three source copies statement by
statement; `transDot`, `transSum*`, `latent*` are the other front-ranking transformations;
`geoDist` / `specDist` are the geometric definition and the Spec, `geoDistFast` / `specDistFast` what the
driver evaluates; `specMask`, `specIdx`, `specDominates` are the Spec oracles of sentences 1 and 2;
`Pareto.Q.*` are the constants the driver executes).

Sentence 1 of the property: `filter_sound`, `filter_complete`, `filter_indices`, `filter_loop_fuel_enough`,
`mask_eq_index`, `efficient_vectors_char`, `efficientIdx_char` (index form exactly: maximal and first of its
duplicates), `efficient_vectors_nodup`, `perm_invariant_set`, `perm_invariant_idx`, `perm_invariant_count`,
`filter_single_objective`, `rescale_invariant`, `rescale_invariant_mask`, `rescale_objective_invariant`,
`filter_sound_signed`, `filter_complete_signed` (negative weights = minimised objectives);
Spec oracles: `spec_mask_iff`, `spec_mask_sound`, `spec_mask_determines_vectors`, `spec_idx_iff`, `spec_idx_sound`.
Sentence 2 (dominance predicate): `dominates_feasible`, `dominates_feasible_eq_strictDom`,
`dominates_infeasible(_iff)`, `dominates_feasibility_first`, `dominates_irrefl`, `dominates_asymm`,
`dominates_trans`, `dominates_infeasible_total`, `dominates_infeasible_negtrans`;
Spec oracle: `wantDominates_iff`, `spec_dominates_iff`, `spec_dominates_sound`.
Sentence 3 (distances): equal their geometric definitions — `dist_geometric_def`,
`dist_residual_orthogonal`, `dist_pythagoras`, `dist_nonneg`, `dist_zero_iff_on_line`,
`dist_eq_geometric_def`, `dist_three_copies_agree`, `dist_copies_eq_geometric_def`,
`dist_core_rejects_negative_preference`, `scaled_in_unit_interval`, `scaled_constant_zero`; invariant to translation —
`dist_translation_invariant` (and to positive rescaling: `dist_rescale_invariant`,
`dist_sign_flip_counterexample`); finite when an objective is constant — `dist_finite_when_constant`,
`dist_finite_one_per_point`, against `dist_prerepair_nan_of_constant` / `…_counterexample` (D13, repaired).
Spec oracle: `spec_dist_sound`, `spec_dist_rejects`, `spec_dist_iff`, `geo_dist_fast_eq`, `spec_dist_fast_eq`.
Other front-ranking transformations: `trans_dot_geometric_def`, `trans_dot_translation`, `trans_dot_monotone`,
`trans_dot_argmax_efficient`, `trans_sum_eq_dot_ones`.
Section `Q`: the same statements on the driver's constants.
Round 4: `filter_indices_ascending`, `filter_empty_and_single`; relational Spec oracles `spec_same_vectors_iff`,
`spec_same_vectors_sound` (order independence), `spec_close_all_iff`, `spec_close_all_refl`,
`spec_close_translation_sound` (translation pairs / the three copies); `dominates_sum_form_exact` against
`dominates_sum_form_float_counterexample` (the class of C19-d2: exact over an ordered field, false in binary64);
`dist_preference_scale_invariant`, `dist_copies_preference_scale_invariant` against
`dist_extreme_preference_float_prerepair_counterexample` (D190, repaired in c276d45e: `1/(L·L)` overflowed or underflowed
in binary64), `dist_repair_D190_exact`, `dist_repair_D190_float_example`, `dist_zero_preference_nan` (the model follows the
repaired code: `transDistCore/Prob/Fn` normalise the preference vector first, the old code is `…Prerepair`);
`filter_min_iff_not_dominated` (sentences 1 and 2 describe the same non-dominated set).
-/
import PybropsModel.Lemmas.ParetoR4
set_option linter.unusedSectionVars false
set_option autoImplicit false

namespace C19
open Pareto

section filter
variable {α : Type} [Mul α] [LinearOrder α]

/-- **Soundness.**  A point is marked efficient only if no other point is at least as good in
    every weighted objective and strictly better in one. -/
theorem filter_sound (fmat : List (List α)) (wt : List α) (hrect : ∀ r ∈ fmat, r.length = wt.length)
    (i : Nat) (hi : i ∈ efficientIdx fmat wt) (j : Nat) (hj : j < fmat.length) :
    strictDom (wrow fmat wt j) (wrow fmat wt i) = false := by
  obtain ⟨h1, _, h3⟩ := filter_facts fmat wt hrect
  rw [efficientIdx_eq] at hi
  obtain ⟨x, hx, rfl⟩ := List.mem_map.mp hi
  have hxr := h1 x hx
  obtain ⟨_, hxv⟩ := (mem_rows fmat wt x).mp hxr
  have hy : (j, wrow fmat wt j) ∈ rows fmat wt := (mem_rows fmat wt _).mpr ⟨hj, rfl⟩
  by_contra hs
  have hs : strictDom (wrow fmat wt j) (wrow fmat wt x.1) = true := by simpa using hs
  have hnw := strictDom_not_weakDom _ _ hs
  -- strictDom j x gives weakDom x j, so by the filter weakDom j x: contradiction
  have hwxj : wdI x (j, wrow fmat wt j) = true := by
    unfold strictDom at hs
    simp only [Bool.and_eq_true] at hs
    show weakDom x.2 (wrow fmat wt j) = true
    rw [hxv]; exact hs.1
  have := h3 x hx _ hy hwxj
  have : weakDom (wrow fmat wt j) x.2 = true := this
  rw [hxv] at this
  rw [this] at hnw
  exact Bool.noConfusion hnw

/-- **Completeness.**  Every unmarked point is equalled or dominated by a marked one. -/
theorem filter_complete (fmat : List (List α)) (wt : List α) (hrect : ∀ r ∈ fmat, r.length = wt.length)
    (i : Nat) (hi : i < fmat.length) (hni : i ∉ efficientIdx fmat wt) :
    ∃ j ∈ efficientIdx fmat wt, weakDom (wrow fmat wt i) (wrow fmat wt j) = true := by
  obtain ⟨h1, h2, _⟩ := filter_facts fmat wt hrect
  have hr : (i, wrow fmat wt i) ∈ rows fmat wt := (mem_rows fmat wt _).mpr ⟨hi, rfl⟩
  rw [efficientIdx_eq] at hni ⊢
  have hnot : (i, wrow fmat wt i) ∉ paretoGo wdI [] (rows fmat wt) := by
    intro h; exact hni (List.mem_map.mpr ⟨_, h, rfl⟩)
  obtain ⟨s, hs, hws⟩ := h2 _ hr hnot
  refine ⟨s.1, List.mem_map.mpr ⟨s, hs, rfl⟩, ?_⟩
  obtain ⟨_, hsv⟩ := (mem_rows fmat wt s).mp (h1 s hs)
  have : weakDom (wrow fmat wt i) s.2 = true := hws
  rw [hsv] at this
  exact this

/-- efficient indices are valid, duplicate-free and keep the input order -/
theorem filter_indices (fmat : List (List α)) (wt : List α) :
    (efficientIdx fmat wt).Sublist (List.range fmat.length) := by
  rw [efficientIdx_eq]
  have hs := paretoGo_sublist (wdI (α := α)) (rows fmat wt).length [] (rows fmat wt) rfl
  simp only [List.nil_append] at hs
  have := hs.map Prod.fst
  have hr : ((rows fmat wt).map Prod.fst) = List.range fmat.length := by
    simp only [rows, List.map_map]
    have : (Prod.fst ∘ fun ri : List α × Nat => (ri.2, ri.1)) = Prod.snd := rfl
    rw [this]
    rw [List.zipIdx_eq_zip_range', List.map_snd_zip (by simp), List.range_eq_range', List.length_map]
  rw [hr] at this
  exact this

/-- **The `while` loop terminates within `npt` iterations**: any fuel `≥ npt` gives the same result as the
    fuel `npt` the model uses (the literal index-juggling loop equals the two-list recursion). -/
theorem filter_loop_fuel_enough (fmat : List (List α)) (wt : List α) (fuel : Nat)
    (h : (rows fmat wt).length ≤ fuel) :
    (loop fuel (rows fmat wt) 0).map Prod.fst = efficientIdx fmat wt := by
  rw [efficientIdx_eq]
  have := loop_eq_paretoGo fuel [] (rows fmat wt) h
  simp only [List.nil_append, List.length_nil] at this
  rw [this]

/-- **Mask and index forms agree.** -/
theorem mask_eq_index (fmat : List (List α)) (wt : List α) (i : Nat) (hi : i < fmat.length) :
    (efficientMask fmat wt)[i]? = some (decide (i ∈ efficientIdx fmat wt)) := by
  unfold efficientMask
  simp [hi]

theorem mask_length (fmat : List (List α)) (wt : List α) :
    (efficientMask fmat wt).length = fmat.length := by
  simp [efficientMask]

/-- the objective vectors marked efficient -/
def effVecs (fmat : List (List α)) (wt : List α) : List (List α) :=
  (efficientIdx fmat wt).map (wrow fmat wt)

/-- **Set characterisation.**  The set of efficient objective vectors is exactly the set of maximal
    elements of the set of weighted input vectors — it mentions the input only through membership. -/
theorem efficient_vectors_char (fmat : List (List α)) (wt : List α)
    (hrect : ∀ r ∈ fmat, r.length = wt.length) (v : List α) :
    v ∈ effVecs fmat wt ↔
      (v ∈ fmat.map (applyWt wt) ∧ ∀ u ∈ fmat.map (applyWt wt), weakDom v u = true → weakDom u v = true) := by
  obtain ⟨h1, h2, h3⟩ := filter_facts fmat wt hrect
  have memV : ∀ u, u ∈ fmat.map (applyWt wt) ↔ ∃ i, i < fmat.length ∧ u = wrow fmat wt i := by
    intro u
    simp only [List.mem_map, wrow]
    constructor
    · rintro ⟨r, hr, rfl⟩
      obtain ⟨i, hi, rfl⟩ := List.mem_iff_getElem.mp hr
      exact ⟨i, hi, by simp [List.getD_eq_getElem?_getD, List.getElem?_eq_getElem hi]⟩
    · rintro ⟨i, hi, rfl⟩
      exact ⟨fmat[i], List.getElem_mem hi, by simp [List.getD_eq_getElem?_getD, List.getElem?_eq_getElem hi]⟩
  unfold effVecs
  rw [efficientIdx_eq]
  constructor
  · intro hv
    obtain ⟨i0, hi0, rfl⟩ := List.mem_map.mp hv
    obtain ⟨x, hx, rfl⟩ := List.mem_map.mp hi0
    have hxr := h1 x hx
    obtain ⟨hlt, hxv⟩ := (mem_rows fmat wt x).mp hxr
    refine ⟨(memV _).mpr ⟨x.1, hlt, rfl⟩, ?_⟩
    · intro u hu hvu
      obtain ⟨j, hj, rfl⟩ := (memV u).mp hu
      have hy : (j, wrow fmat wt j) ∈ rows fmat wt := (mem_rows fmat wt _).mpr ⟨hj, rfl⟩
      have := h3 x hx _ hy (by
        show weakDom x.2 (wrow fmat wt j) = true
        rw [hxv]; exact hvu)
      have : weakDom (wrow fmat wt j) x.2 = true := this
      rw [hxv] at this
      exact this
  · rintro ⟨hv, hmax⟩
    obtain ⟨i, hi, rfl⟩ := (memV v).mp hv
    have hr : (i, wrow fmat wt i) ∈ rows fmat wt := (mem_rows fmat wt _).mpr ⟨hi, rfl⟩
    by_cases hin : (i, wrow fmat wt i) ∈ paretoGo wdI [] (rows fmat wt)
    · exact List.mem_map.mpr ⟨i, List.mem_map.mpr ⟨_, hin, rfl⟩, rfl⟩
    · obtain ⟨s, hs, hws⟩ := h2 _ hr hin
      have hsr := h1 s hs
      obtain ⟨hslt, hsv⟩ := (mem_rows fmat wt s).mp hsr
      have hws' : weakDom (wrow fmat wt i) (wrow fmat wt s.1) = true := by
        have : weakDom (wrow fmat wt i) s.2 = true := hws
        rw [hsv] at this; exact this
      have hsu : wrow fmat wt s.1 ∈ fmat.map (applyWt wt) := (memV _).mpr ⟨s.1, hslt, rfl⟩
      have hback := hmax _ hsu hws'
      have hlen : (wrow fmat wt i).length = (wrow fmat wt s.1).length := by
        have a := rows_length_eq fmat wt hrect _ hr
        have b := rows_length_eq fmat wt hrect _ hsr
        rw [hsv] at b
        exact a.trans b.symm
      exact List.mem_map.mpr ⟨s.1, List.mem_map.mpr ⟨s, hs, rfl⟩, (weakDom_antisymm _ _ hlen hws' hback).symm⟩

/-- **Order independence.**  Permuting the points does not change the set of efficient vectors. -/
theorem perm_invariant_set (fmat fmat' : List (List α)) (wt : List α) (hp : fmat.Perm fmat')
    (hrect : ∀ r ∈ fmat, r.length = wt.length) (v : List α) :
    v ∈ effVecs fmat wt ↔ v ∈ effVecs fmat' wt := by
  have hrect' : ∀ r ∈ fmat', r.length = wt.length := fun r hr => hrect r (hp.mem_iff.mpr hr)
  rw [efficient_vectors_char fmat wt hrect, efficient_vectors_char fmat' wt hrect']
  have hm : ∀ u, u ∈ fmat.map (applyWt wt) ↔ u ∈ fmat'.map (applyWt wt) :=
    fun u => (hp.map _).mem_iff
  constructor
  · rintro ⟨h1, h2⟩; exact ⟨(hm v).mp h1, fun u hu => h2 u ((hm u).mpr hu)⟩
  · rintro ⟨h1, h2⟩; exact ⟨(hm v).mpr h1, fun u hu => h2 u ((hm u).mp hu)⟩


/-- every index of the input is its own weighted row (bridge between indices and vectors) -/
theorem mem_weighted_iff (fmat : List (List α)) (wt : List α) (u : List α) :
    u ∈ fmat.map (applyWt wt) ↔ ∃ i, i < fmat.length ∧ u = wrow fmat wt i := by
  simp only [List.mem_map, wrow]
  constructor
  · rintro ⟨r, hr, rfl⟩
    obtain ⟨i, hi, rfl⟩ := List.mem_iff_getElem.mp hr
    exact ⟨i, hi, by simp [List.getD_eq_getElem?_getD, List.getElem?_eq_getElem hi]⟩
  · rintro ⟨i, hi, rfl⟩
    exact ⟨fmat[i], List.getElem_mem hi, by simp [List.getD_eq_getElem?_getD, List.getElem?_eq_getElem hi]⟩

/-- **Index form, exactly.**  Index `i` is returned iff its weighted vector is maximal (nothing is at
    least as good everywhere without being equal) and `i` is the FIRST point carrying that vector:
    the index form is a function of the point list, duplicates are represented by their first occurrence. -/
theorem efficientIdx_char (fmat : List (List α)) (wt : List α) (hrect : ∀ r ∈ fmat, r.length = wt.length) (i : Nat) :
    i ∈ efficientIdx fmat wt ↔
      (i < fmat.length ∧
       (∀ j, j < fmat.length → weakDom (wrow fmat wt i) (wrow fmat wt j) = true →
          weakDom (wrow fmat wt j) (wrow fmat wt i) = true) ∧
       (∀ j, j < i → wrow fmat wt j ≠ wrow fmat wt i)) := by
  obtain ⟨h1, _, h3⟩ := filter_facts fmat wt hrect
  have fwd : ∀ i, i ∈ efficientIdx fmat wt →
      (i < fmat.length ∧
       (∀ j, j < fmat.length → weakDom (wrow fmat wt i) (wrow fmat wt j) = true →
          weakDom (wrow fmat wt j) (wrow fmat wt i) = true) ∧
       (∀ j, j < i → wrow fmat wt j ≠ wrow fmat wt i)) := by
    intro i hi
    rw [efficientIdx_eq] at hi
    obtain ⟨x, hx, rfl⟩ := List.mem_map.mp hi
    obtain ⟨hlt, hxv⟩ := (mem_rows fmat wt x).mp (h1 x hx)
    refine ⟨hlt, ?_, ?_⟩
    · intro j hj hw
      have hy : (j, wrow fmat wt j) ∈ rows fmat wt := (mem_rows fmat wt _).mpr ⟨hj, rfl⟩
      have := h3 x hx _ hy (by show weakDom x.2 (wrow fmat wt j) = true; rw [hxv]; exact hw)
      have : weakDom (wrow fmat wt j) x.2 = true := this
      rw [hxv] at this
      exact this
    · intro j hj
      have hy : (j, wrow fmat wt j) ∈ rows fmat wt := (mem_rows fmat wt _).mpr ⟨lt_trans hj hlt, rfl⟩
      have := result_first fmat wt hrect x hx _ hy hj
      rw [hxv] at this
      exact this
  constructor
  · exact fwd i
  · rintro ⟨hi, hmax, hfirst⟩
    have hv : wrow fmat wt i ∈ effVecs fmat wt := by
      rw [efficient_vectors_char fmat wt hrect]
      refine ⟨(mem_weighted_iff fmat wt _).mpr ⟨i, hi, rfl⟩, ?_⟩
      intro u hu hw
      obtain ⟨j, hj, rfl⟩ := (mem_weighted_iff fmat wt u).mp hu
      exact hmax j hj hw
    obtain ⟨i0, hi0, hv0⟩ := List.mem_map.mp hv
    rcases lt_trichotomy i0 i with hlt | heq | hgt
    · exact absurd hv0 (hfirst i0 hlt)
    · rw [← heq]; exact hi0
    · exact absurd hv0.symm ((fwd i0 hi0).2.2 i hgt)

/-- the efficient vectors are listed without repetition (one index per distinct vector) -/
theorem efficient_vectors_nodup (fmat : List (List α)) (wt : List α) (hrect : ∀ r ∈ fmat, r.length = wt.length) :
    (effVecs fmat wt).Nodup := by
  unfold effVecs
  have hnd : (efficientIdx fmat wt).Nodup := (filter_indices fmat wt).nodup List.nodup_range
  refine List.Nodup.map_on ?_ hnd
  intro a ha b hb hab
  rcases lt_trichotomy a b with h | h | h
  · exact absurd hab (((efficientIdx_char fmat wt hrect b).mp hb).2.2 a h)
  · exact h
  · exact absurd hab.symm (((efficientIdx_char fmat wt hrect a).mp ha).2.2 b h)

/-- **Order independence, index form** (sets of indices modulo duplicates): after any permutation of the
    points every efficient index has a counterpart carrying the same weighted vector … -/
theorem perm_invariant_idx (fmat fmat' : List (List α)) (wt : List α) (hp : fmat.Perm fmat')
    (hrect : ∀ r ∈ fmat, r.length = wt.length) (i : Nat) (hi : i ∈ efficientIdx fmat wt) :
    ∃ i' ∈ efficientIdx fmat' wt, wrow fmat' wt i' = wrow fmat wt i := by
  have hv : wrow fmat wt i ∈ effVecs fmat wt := List.mem_map.mpr ⟨i, hi, rfl⟩
  rw [perm_invariant_set fmat fmat' wt hp hrect] at hv
  obtain ⟨i', hi', hv'⟩ := List.mem_map.mp hv
  exact ⟨i', hi', hv'⟩

/-- … and the number of efficient indices does not depend on the order of the points -/
theorem perm_invariant_count (fmat fmat' : List (List α)) (wt : List α) (hp : fmat.Perm fmat')
    (hrect : ∀ r ∈ fmat, r.length = wt.length) :
    (efficientIdx fmat wt).length = (efficientIdx fmat' wt).length := by
  have hrect' : ∀ r ∈ fmat', r.length = wt.length := fun r hr => hrect r (hp.mem_iff.mpr hr)
  have h := (List.perm_ext_iff_of_nodup (efficient_vectors_nodup fmat wt hrect)
    (efficient_vectors_nodup fmat' wt hrect')).mpr (fun v => perm_invariant_set fmat fmat' wt hp hrect v)
  have := h.length_eq
  simpa [effVecs] using this

/-- **Single objective.**  With one objective the filter returns exactly one index (for a non-empty
    input): the first point attaining the maximum of the weighted objective. -/
theorem filter_single_objective (fmat : List (List α)) (w : α) (hrect : ∀ r ∈ fmat, r.length = 1) :
    (∀ i ∈ efficientIdx fmat [w], ∀ j, j < fmat.length → weakDom (wrow fmat [w] j) (wrow fmat [w] i) = true) ∧
    (∀ i ∈ efficientIdx fmat [w], ∀ i' ∈ efficientIdx fmat [w], i = i') ∧
    (fmat ≠ [] → efficientIdx fmat [w] ≠ []) := by
  have hrect' : ∀ r ∈ fmat, r.length = [w].length := by simpa using hrect
  have hlen1 : ∀ j, j < fmat.length → (wrow fmat [w] j).length = 1 := by
    intro j hj
    have := rows_length_eq fmat [w] hrect' (j, wrow fmat [w] j) ((mem_rows fmat [w] _).mpr ⟨hj, rfl⟩)
    simpa using this
  have hmax : ∀ i ∈ efficientIdx fmat [w], ∀ j, j < fmat.length →
      weakDom (wrow fmat [w] j) (wrow fmat [w] i) = true := by
    intro i hi j hj
    obtain ⟨hil, hm, _⟩ := (efficientIdx_char fmat [w] hrect' i).mp hi
    by_cases hji : weakDom (wrow fmat [w] j) (wrow fmat [w] i) = true
    · exact hji
    · apply hm j hj
      rw [weakDom_iff]
      intro k h1 h2
      have hk : k = 0 := by have := hlen1 i hil; omega
      subst hk
      by_contra hle
      apply hji
      rw [weakDom_iff]
      intro k h1' h2'
      have hk : k = 0 := by have := hlen1 i hil; omega
      subst hk
      exact (not_le.mp hle).le
  refine ⟨hmax, ?_, ?_⟩
  · intro i hi i' hi'
    obtain ⟨hil, _, hf⟩ := (efficientIdx_char fmat [w] hrect' i).mp hi
    obtain ⟨hil', _, hf'⟩ := (efficientIdx_char fmat [w] hrect' i').mp hi'
    have heq : wrow fmat [w] i = wrow fmat [w] i' :=
      weakDom_antisymm _ _ ((hlen1 i hil).trans (hlen1 i' hil').symm) (hmax i' hi' i hil) (hmax i hi i' hil')
    rcases lt_trichotomy i i' with h | h | h
    · exact absurd heq (hf' i h)
    · exact h
    · exact absurd heq.symm (hf i' h)
  · intro hne h0
    have hpos : 0 < fmat.length := List.length_pos_iff.mpr hne
    have hni : 0 ∉ efficientIdx fmat [w] := by rw [h0]; simp
    obtain ⟨j, hj, _⟩ := filter_complete fmat [w] hrect' 0 hpos hni
    rw [h0] at hj
    simp at hj

/-! ### the Spec oracles of the filter decide exactly the property's first sentence -/

/-- **Spec ⇔ Prop (mask).**  `Pareto.specMask` (driver op `c19.spec_pareto`) accepts a claimed mask iff it has
    one entry per point, no marked point is strictly dominated by any point (sound) and every unmarked
    point is equalled or dominated by a marked one (complete). -/
theorem spec_mask_iff (fmat : List (List α)) (wt : List α) (mask : List Bool) :
    specMask fmat wt mask = true ↔
      (mask.length = fmat.length ∧
       (∀ i (hi : i < mask.length), mask[i] = true → ∀ j, j < fmat.length →
          strictDom (wrow fmat wt j) (wrow fmat wt i) = false) ∧
       (∀ i (hi : i < mask.length), mask[i] = false →
          ∃ j, ∃ (hj : j < mask.length), mask[j] = true ∧ weakDom (wrow fmat wt i) (wrow fmat wt j) = true)) := by
  unfold specMask
  simp only [Bool.and_eq_true, beq_iff_eq, List.length_map]
  constructor
  · rintro ⟨⟨hl, hs⟩, hc⟩
    exact ⟨hl, (specRowsSound_iff fmat wt mask hl).mp hs, (specRowsComplete_iff fmat wt mask hl).mp hc⟩
  · rintro ⟨hl, hs, hc⟩
    exact ⟨⟨hl, (specRowsSound_iff fmat wt mask hl).mpr hs⟩, (specRowsComplete_iff fmat wt mask hl).mpr hc⟩

/-- **Spec soundness (mask).**  The Spec accepts the model's own mask, for every rectangular input. -/
theorem spec_mask_sound (fmat : List (List α)) (wt : List α) (hrect : ∀ r ∈ fmat, r.length = wt.length) :
    specMask fmat wt (efficientMask fmat wt) = true := by
  rw [spec_mask_iff]
  have hl := mask_length fmat wt
  have hget : ∀ i (hi : i < (efficientMask fmat wt).length),
      (efficientMask fmat wt)[i] = decide (i ∈ efficientIdx fmat wt) := by
    intro i hi
    have := mask_eq_index fmat wt i (hl ▸ hi)
    rw [List.getElem?_eq_getElem hi] at this
    exact Option.some.inj this
  refine ⟨hl, ?_, ?_⟩
  · intro i hi hm j hj
    rw [hget i hi] at hm
    exact filter_sound fmat wt hrect i (by simpa using hm) j hj
  · intro i hi hm
    rw [hget i hi] at hm
    obtain ⟨j, hj, hw⟩ := filter_complete fmat wt hrect i (hl ▸ hi) (by simpa using hm)
    have hjl : j < (efficientMask fmat wt).length := by
      rw [hl]; exact List.mem_range.mp ((filter_indices fmat wt).subset hj)
    exact ⟨j, hjl, by rw [hget j hjl]; simpa using hj, hw⟩

/-- **The Spec pins down the efficient set.**  Any mask the Spec accepts marks exactly the efficient
    objective vectors of the model (possibly marking several equal points): the Spec is neither
    weaker nor stronger than "the set of efficient objective vectors is the set of maximal vectors". -/
theorem spec_mask_determines_vectors (fmat : List (List α)) (wt : List α) (hrect : ∀ r ∈ fmat, r.length = wt.length)
    (mask : List Bool) (h : specMask fmat wt mask = true) (v : List α) :
    (∃ i, ∃ (hi : i < mask.length), mask[i] = true ∧ wrow fmat wt i = v) ↔ v ∈ effVecs fmat wt := by
  obtain ⟨hl, hs, hc⟩ := (spec_mask_iff fmat wt mask).mp h
  have hlenrow : ∀ i, i < fmat.length → (wrow fmat wt i).length = wt.length := fun i hi =>
    rows_length_eq fmat wt hrect (i, wrow fmat wt i) ((mem_rows fmat wt _).mpr ⟨hi, rfl⟩)
  constructor
  · rintro ⟨i, hi, hm, rfl⟩
    have hif : i < fmat.length := hl ▸ hi
    rw [efficient_vectors_char fmat wt hrect]
    refine ⟨(mem_weighted_iff fmat wt _).mpr ⟨i, hif, rfl⟩, ?_⟩
    intro u hu hw
    obtain ⟨j, hj, rfl⟩ := (mem_weighted_iff fmat wt u).mp hu
    have hsd := hs i hi hm j hj
    by_contra hne
    have hne : weakDom (wrow fmat wt j) (wrow fmat wt i) = false := by simpa using hne
    have := (strictDom_iff_weak (wrow fmat wt j) (wrow fmat wt i)
      ((hlenrow j hj).trans (hlenrow i hif).symm)).mpr ⟨hw, hne⟩
    rw [this] at hsd
    exact Bool.noConfusion hsd
  · intro hv
    have hchar := (efficient_vectors_char fmat wt hrect v).mp hv
    obtain ⟨i0, hi0, rfl⟩ := (mem_weighted_iff fmat wt v).mp hchar.1
    have hi0m : i0 < mask.length := hl ▸ hi0
    by_cases hm : mask[i0] = true
    · exact ⟨i0, hi0m, hm, rfl⟩
    · obtain ⟨j, hj, hmj, hw⟩ := hc i0 hi0m (by simpa using hm)
      have hjf : j < fmat.length := hl ▸ hj
      have hback := hchar.2 _ ((mem_weighted_iff fmat wt _).mpr ⟨j, hjf, rfl⟩) hw
      exact ⟨j, hj, hmj, weakDom_antisymm _ _ ((hlenrow j hjf).trans (hlenrow i0 hi0).symm) hback hw⟩

/-- **Spec ⇔ Prop (mask against index form).** -/
theorem spec_idx_iff (n : Nat) (mask : List Bool) (idx : List Nat) :
    specIdx n mask idx = true ↔
      (mask.length = n ∧ (∀ i ∈ idx, i < n) ∧ idx.Nodup ∧ ∀ i (hi : i < mask.length), (mask[i] = true ↔ i ∈ idx)) :=
  specIdx_iff n mask idx

/-- **Spec soundness (mask against index form).** -/
theorem spec_idx_sound (fmat : List (List α)) (wt : List α) :
    specIdx fmat.length (efficientMask fmat wt) (efficientIdx fmat wt) = true := by
  rw [spec_idx_iff]
  have hl := mask_length fmat wt
  refine ⟨hl, fun i hi => List.mem_range.mp ((filter_indices fmat wt).subset hi),
    (filter_indices fmat wt).nodup List.nodup_range, ?_⟩
  intro i hi
  have := mask_eq_index fmat wt i (hl ▸ hi)
  rw [List.getElem?_eq_getElem hi] at this
  rw [Option.some.inj this]
  simp

/-- the index form is strictly ascending (what `numpy.flatnonzero(mask)` would give) -/
theorem filter_indices_ascending (fmat : List (List α)) (wt : List α) :
    (efficientIdx fmat wt).Pairwise (· < ·) :=
  List.Pairwise.sublist (filter_indices fmat wt) List.pairwise_lt_range

/-- **No point / one point.**  The empty point set has no efficient point; a single point is efficient
    (whatever its objectives and the weights, ragged rows included). -/
theorem filter_empty_and_single (r wt : List α) :
    efficientIdx ([] : List (List α)) wt = [] ∧ efficientMask ([] : List (List α)) wt = [] ∧
    efficientIdx [r] wt = [0] ∧ efficientMask [r] wt = [true] := by
  have h1 : efficientIdx ([] : List (List α)) wt = [] := by simp [efficientIdx, loop]
  have h2 : efficientIdx [r] wt = [0] := by
    simp [efficientIdx, loop, step, Np.compress]
  refine ⟨h1, by simp [efficientMask], h2, ?_⟩
  simp [efficientMask, h2]

/-- **Spec ⇔ Prop (order independence).**  `Pareto.specSameVectors` (driver op `c19.spec_same_vectors`) accepts two
    masks over two lists of weighted rows iff they mark the same set of objective vectors. -/
theorem spec_same_vectors_iff (rows rows' : List (List α)) (mask mask' : List Bool) :
    specSameVectors rows rows' mask mask' = true ↔
      ∀ v, v ∈ Np.compress mask rows ↔ v ∈ Np.compress mask' rows' :=
  specSameVectors_iff rows rows' mask mask'

/-- **Spec soundness (order independence).**  The Spec accepts the model's masks on a point list and on ANY
    permutation of it: the mask form marks exactly `effVecs`, which is permutation invariant. -/
theorem spec_same_vectors_sound (fmat fmat' : List (List α)) (wt : List α) (hp : fmat.Perm fmat')
    (hrect : ∀ r ∈ fmat, r.length = wt.length) :
    specSameVectors (fmat.map (applyWt wt)) (fmat'.map (applyWt wt))
      (efficientMask fmat wt) (efficientMask fmat' wt) = true := by
  rw [spec_same_vectors_iff]
  intro v
  have key : ∀ f : List (List α),
      (v ∈ Np.compress (efficientMask f wt) (f.map (applyWt wt)) ↔ v ∈ effVecs f wt) := by
    intro f
    rw [mem_compress_efficientMask]
    unfold effVecs
    rw [List.mem_map]
    constructor
    · rintro ⟨i, hi, _, hv⟩; exact ⟨i, hi, hv⟩
    · rintro ⟨i, hi, hv⟩
      exact ⟨i, hi, List.mem_range.mp ((filter_indices f wt).subset hi), hv⟩
  rw [key fmat, key fmat']
  exact perm_invariant_set fmat fmat' wt hp hrect v

end filter

section rescale
variable {α : Type} [CommRing α] [LinearOrder α] [IsStrictOrderedRing α]

/-- **Positive rescaling of objectives** leaves the filter's answer (indices, hence mask and
    vectors up to the same rescaling) unchanged. -/
theorem rescale_invariant (fmat : List (List α)) (wt cs : List α)
    (hrect : ∀ r ∈ fmat, r.length = wt.length) (hcs : cs.length = wt.length)
    (hpos : ∀ c ∈ cs, 0 < c) :
    efficientIdx fmat (List.zipWith (· * ·) wt cs) = efficientIdx fmat wt := by
  rw [efficientIdx_eq, efficientIdx_eq]
  let g : Nat × List α → Nat × List α := fun p => (p.1, List.zipWith (· * ·) p.2 cs)
  have hrows : rows fmat (List.zipWith (· * ·) wt cs) = (rows fmat wt).map g := by
    simp only [rows, List.map_map, List.zipIdx_map]
    apply List.map_congr_left
    intro ri _
    simp only [Function.comp, g, Prod.map, id, applyWt]
    congr 1
    apply List.ext_getElem
    · simp [List.length_zipWith, min_assoc]
    · intro i h1 h2
      simp only [List.getElem_zipWith]
      ring
  rw [hrows]
  have key := paretoGo_map g (wdI (α := α)) (wdI (α := α)) (rows fmat wt).length [] (rows fmat wt) rfl (by
    intro a ha b hb
    simp only [List.nil_append] at ha hb
    have la := rows_length_eq fmat wt hrect a ha
    have lb := rows_length_eq fmat wt hrect b hb
    show weakDom (List.zipWith (· * ·) a.2 cs) (List.zipWith (· * ·) b.2 cs) = weakDom a.2 b.2
    rw [Bool.eq_iff_iff, weakDom_iff, weakDom_iff]
    constructor
    · intro h i h1 h2
      have hc : i < cs.length := by omega
      have := h i (by simp [List.length_zipWith]; omega) (by simp [List.length_zipWith]; omega)
      simp only [List.getElem_zipWith] at this
      exact le_of_mul_le_mul_right this (hpos _ (List.getElem_mem hc))
    · intro h i h1 h2
      simp only [List.length_zipWith, lt_min_iff] at h1 h2
      simp only [List.getElem_zipWith]
      exact mul_le_mul_of_nonneg_right (h i h1.1 h2.1) (hpos _ (List.getElem_mem h1.2)).le)
  simp only [List.map_nil] at key
  rw [key, List.map_map]
  apply List.map_congr_left
  intro p _
  rfl

/-- … the same for the mask form … -/
theorem rescale_invariant_mask (fmat : List (List α)) (wt cs : List α)
    (hrect : ∀ r ∈ fmat, r.length = wt.length) (hcs : cs.length = wt.length)
    (hpos : ∀ c ∈ cs, 0 < c) :
    efficientMask fmat (List.zipWith (· * ·) wt cs) = efficientMask fmat wt := by
  unfold efficientMask
  rw [rescale_invariant fmat wt cs hrect hcs hpos]

/-- … and for a positive rescaling of the objectives in the DATA (`fmat[:, j] * cs[j]`), whatever the
    signs of the weights (maximised and minimised objectives alike) -/
theorem rescale_objective_invariant (fmat : List (List α)) (wt cs : List α)
    (hrect : ∀ r ∈ fmat, r.length = wt.length) (hcs : cs.length = wt.length)
    (hpos : ∀ c ∈ cs, 0 < c) :
    efficientIdx (fmat.map (fun r => List.zipWith (· * ·) r cs)) wt = efficientIdx fmat wt := by
  rw [← rescale_invariant fmat wt cs hrect hcs hpos]
  unfold efficientIdx
  simp only [List.map_map]
  have e : (applyWt wt ∘ fun r => List.zipWith (· * ·) r cs) = applyWt (List.zipWith (· * ·) wt cs) := by
    funext r
    simp only [Function.comp, applyWt]
    apply List.ext_getElem
    · simp only [List.length_zipWith]; omega
    · intro i h1 h2
      simp only [List.getElem_zipWith]
      ring
  rw [e]

/-- **Soundness in the original objectives** (positive weight = maximised, negative weight = minimised,
    zero weight = ignored): no point is at least as good as a marked point in every weighted objective
    and strictly better in one. -/
theorem filter_sound_signed (fmat : List (List α)) (wt : List α) (hrect : ∀ r ∈ fmat, r.length = wt.length)
    (i : Nat) (hi : i ∈ efficientIdx fmat wt) (j : Nat) (hj : j < fmat.length) :
    ¬ (asGood wt (fmat.getD j []) (fmat.getD i []) ∧ betterSomewhere wt (fmat.getD j []) (fmat.getD i [])) := by
  have hil : i < fmat.length := List.mem_range.mp ((filter_indices fmat wt).subset hi)
  have hlen : ∀ k, k < fmat.length → (fmat.getD k []).length = wt.length := by
    intro k hk
    apply hrect
    rw [List.getD_eq_getElem?_getD, List.getElem?_eq_getElem hk]; simp
  have h := filter_sound fmat wt hrect i hi j hj
  rw [← weighted_strictDom_signed wt _ _ (hlen j hj) (hlen i hil)]
  show ¬ strictDom (wrow fmat wt j) (wrow fmat wt i) = true
  rw [h]; simp

/-- **Completeness in the original objectives.** -/
theorem filter_complete_signed (fmat : List (List α)) (wt : List α) (hrect : ∀ r ∈ fmat, r.length = wt.length)
    (i : Nat) (hi : i < fmat.length) (hni : i ∉ efficientIdx fmat wt) :
    ∃ j ∈ efficientIdx fmat wt, asGood wt (fmat.getD j []) (fmat.getD i []) := by
  have hlen : ∀ k, k < fmat.length → (fmat.getD k []).length = wt.length := by
    intro k hk
    apply hrect
    rw [List.getD_eq_getElem?_getD, List.getElem?_eq_getElem hk]; simp
  obtain ⟨j, hj, hw⟩ := filter_complete fmat wt hrect i hi hni
  have hjl : j < fmat.length := List.mem_range.mp ((filter_indices fmat wt).subset hj)
  exact ⟨j, hj, (weighted_weakDom_signed wt _ _ (hlen i hi) (hlen j hjl)).mp hw⟩

end rescale

/-! ### the dominance predicate of the memetic optimisers -/
section dom
variable {α : Type} [LinearOrder α] [Zero α]

/-- both feasible: plain Pareto dominance (minimisation) -/
theorem dominates_feasible (o1 o2 : List α) (c1 c2 : α) (h1 : c1 ≤ 0) (h2 : c2 ≤ 0) :
    dominates o1 c1 o2 c2 =
      ((List.zip o1 o2).all (fun ab => decide (ab.1 ≤ ab.2)) &&
       (List.zip o1 o2).any (fun ab => decide (ab.1 < ab.2))) := by
  simp [dominates, h1, h2]

/-- otherwise: ordered by constraint violation only -/
theorem dominates_infeasible (o1 o2 : List α) (c1 c2 : α) (h : ¬ (c1 ≤ 0 ∧ c2 ≤ 0)) :
    dominates o1 c1 o2 c2 = decide (c1 < c2) := by
  simp only [dominates]
  rw [if_neg]
  simpa using h

/-- a feasible point dominates every infeasible one, never the other way round -/
theorem dominates_feasibility_first (o1 o2 : List α) (c1 c2 : α) (h1 : c1 ≤ 0) (h2 : 0 < c2) :
    dominates o1 c1 o2 c2 = true ∧ dominates o2 c2 o1 c1 = false := by
  have hn : ¬ (c1 ≤ 0 ∧ c2 ≤ 0) := fun h => absurd h.2 (not_le.mpr h2)
  have hn' : ¬ (c2 ≤ 0 ∧ c1 ≤ 0) := fun h => absurd h.1 (not_le.mpr h2)
  rw [dominates_infeasible _ _ _ _ hn, dominates_infeasible _ _ _ _ hn']
  simp only [decide_eq_true_eq, decide_eq_false_iff_not, not_lt]
  exact ⟨lt_of_le_of_lt h1 h2, le_trans h1 h2.le⟩

theorem dominates_irrefl (o : List α) (c : α) : dominates o c o c = false := by
  by_cases h : c ≤ 0
  · rw [dominates_feasible _ _ _ _ h h]
    have : (List.zip o o).any (fun ab => decide (ab.1 < ab.2)) = false := by
      by_contra hne
      have hne : (List.zip o o).any (fun ab => decide (ab.1 < ab.2)) = true := by simpa using hne
      obtain ⟨i, h1, _, hlt⟩ := (any_lt_iff o o).mp hne
      exact lt_irrefl _ hlt
    simp [this]
  · rw [dominates_infeasible _ _ _ _ (fun hh => h hh.1)]
    simp

private theorem pareto_strict_trans (a b c : List α) (h1 : a.length = b.length) (h2 : b.length = c.length)
    (hab : ((List.zip a b).all (fun ab => decide (ab.1 ≤ ab.2)) && (List.zip a b).any (fun ab => decide (ab.1 < ab.2))) = true)
    (hbc : ((List.zip b c).all (fun ab => decide (ab.1 ≤ ab.2)) && (List.zip b c).any (fun ab => decide (ab.1 < ab.2))) = true) :
    ((List.zip a c).all (fun ab => decide (ab.1 ≤ ab.2)) && (List.zip a c).any (fun ab => decide (ab.1 < ab.2))) = true := by
  rw [Bool.and_eq_true, all_le_iff, any_lt_iff] at *
  obtain ⟨lab, i, ia, ib, hlt⟩ := hab
  obtain ⟨lbc, _⟩ := hbc
  refine ⟨fun k ka kc => le_trans (lab k ka (h1 ▸ ka)) (lbc k (h1 ▸ ka) kc), i, ia, h2 ▸ ib, ?_⟩
  exact lt_of_lt_of_le hlt (lbc i ib (h2 ▸ ib))

/-- `dominates` is transitive on objective vectors of one length: together with irreflexivity it is
    a strict partial order that ranks feasible points by Pareto dominance and infeasible ones by
    constraint violation. -/
theorem dominates_trans (o1 o2 o3 : List α) (c1 c2 c3 : α)
    (hl1 : o1.length = o2.length) (hl2 : o2.length = o3.length)
    (h12 : dominates o1 c1 o2 c2 = true) (h23 : dominates o2 c2 o3 c3 = true) :
    dominates o1 c1 o3 c3 = true := by
  by_cases f1 : c1 ≤ 0 <;> by_cases f2 : c2 ≤ 0 <;> by_cases f3 : c3 ≤ 0
  · rw [dominates_feasible _ _ _ _ f1 f2] at h12
    rw [dominates_feasible _ _ _ _ f2 f3] at h23
    rw [dominates_feasible _ _ _ _ f1 f3]
    exact pareto_strict_trans o1 o2 o3 hl1 hl2 h12 h23
  · rw [dominates_infeasible _ _ _ _ (fun h => f3 h.2)]
    simp only [decide_eq_true_eq]
    exact lt_of_le_of_lt f1 (not_le.mp f3)
  · rw [dominates_infeasible _ _ _ _ (fun h => f2 h.1)] at h23
    simp only [decide_eq_true_eq] at h23
    exact absurd (lt_of_lt_of_le h23 f3) (fun h => f2 h.le)
  · rw [dominates_infeasible _ _ _ _ (fun h => f2 h.2)] at h12
    rw [dominates_infeasible _ _ _ _ (fun h => f2 h.1)] at h23
    rw [dominates_infeasible _ _ _ _ (fun h => f3 h.2)]
    simp only [decide_eq_true_eq] at *
    exact lt_trans h12 h23
  · rw [dominates_infeasible _ _ _ _ (fun h => f1 h.1)] at h12
    simp only [decide_eq_true_eq] at h12
    exact absurd (lt_of_lt_of_le h12 f2) (fun h => f1 h.le)
  · rw [dominates_infeasible _ _ _ _ (fun h => f1 h.1)] at h12
    simp only [decide_eq_true_eq] at h12
    exact absurd (lt_of_lt_of_le h12 f2) (fun h => f1 h.le)
  · rw [dominates_infeasible _ _ _ _ (fun h => f1 h.1)] at h12
    rw [dominates_infeasible _ _ _ _ (fun h => f2 h.1)] at h23
    simp only [decide_eq_true_eq] at *
    exact absurd (lt_of_lt_of_le (lt_trans h12 h23) f3) (fun h => f1 h.le)
  · rw [dominates_infeasible _ _ _ _ (fun h => f1 h.1)] at h12
    rw [dominates_infeasible _ _ _ _ (fun h => f2 h.1)] at h23
    rw [dominates_infeasible _ _ _ _ (fun h => f1 h.1)]
    simp only [decide_eq_true_eq] at *
    exact lt_trans h12 h23

end dom


/-! ### the dominance predicate: asymmetry, link to the filter's test, infeasible points by `cv` -/
section dom2
variable {α : Type} [LinearOrder α] [Zero α]

/-- `dominates` is asymmetric (no length hypothesis needed) -/
theorem dominates_asymm (o1 o2 : List α) (c1 c2 : α) (h : dominates o1 c1 o2 c2 = true) :
    dominates o2 c2 o1 c1 = false := by
  by_cases f : c1 ≤ 0 ∧ c2 ≤ 0
  · rw [dominates_feasible _ _ _ _ f.1 f.2] at h
    rw [dominates_feasible _ _ _ _ f.2 f.1]
    rw [Bool.and_eq_true, all_le_iff, any_lt_iff] at h
    obtain ⟨_, i, h1, h2, hlt⟩ := h
    have : (List.zip o2 o1).all (fun ab => decide (ab.1 ≤ ab.2)) = false := by
      by_contra hne
      have hne : (List.zip o2 o1).all (fun ab => decide (ab.1 ≤ ab.2)) = true := by simpa using hne
      rw [all_le_iff] at hne
      exact absurd (hne i h2 h1) (not_le.mpr hlt)
    rw [this]; rfl
  · rw [dominates_infeasible _ _ _ _ f] at h
    rw [dominates_infeasible _ _ _ _ (fun g => f ⟨g.2, g.1⟩)]
    simp only [decide_eq_true_eq, decide_eq_false_iff_not, not_lt] at h ⊢
    exact h.le

/-- on feasible points `dominates` (minimisation) is exactly the strict Pareto dominance test the
    filter's Spec uses (`strictDom`, maximisation) with the arguments exchanged -/
theorem dominates_feasible_eq_strictDom (o1 o2 : List α) (c1 c2 : α) (h1 : c1 ≤ 0) (h2 : c2 ≤ 0) :
    dominates o1 c1 o2 c2 = strictDom o2 o1 := by
  rw [dominates_feasible _ _ _ _ h1 h2, Bool.eq_iff_iff, Bool.and_eq_true, all_le_iff, any_lt_iff,
    strictDom_iff, weakDom_iff]
  constructor
  · rintro ⟨ha, i, h1, h2, hlt⟩; exact ⟨ha, i, h2, h1, hlt⟩
  · rintro ⟨ha, i, h1, h2, hlt⟩; exact ⟨ha, i, h2, h1, hlt⟩

/-- as soon as one point is infeasible the predicate is the strict order of the violations … -/
theorem dominates_infeasible_iff (o1 o2 : List α) (c1 c2 : α) (h : 0 < c1 ∨ 0 < c2) :
    dominates o1 c1 o2 c2 = true ↔ c1 < c2 := by
  rw [dominates_infeasible _ _ _ _ (by
    rintro ⟨a, b⟩
    rcases h with h | h
    · exact absurd a (not_le.mpr h)
    · exact absurd b (not_le.mpr h))]
  simp

/-- … hence infeasible points are totally pre-ordered by constraint violation: of two of them
    exactly one dominates, unless their violations are equal (then neither does) -/
theorem dominates_infeasible_total (o1 o2 : List α) (c1 c2 : α) (h1 : 0 < c1) (_h2 : 0 < c2) :
    (dominates o1 c1 o2 c2 = true ∧ dominates o2 c2 o1 c1 = false ∧ c1 ≠ c2) ∨
    (dominates o1 c1 o2 c2 = false ∧ dominates o2 c2 o1 c1 = true ∧ c1 ≠ c2) ∨
    (dominates o1 c1 o2 c2 = false ∧ dominates o2 c2 o1 c1 = false ∧ c1 = c2) := by
  have e12 := dominates_infeasible_iff o1 o2 c1 c2 (Or.inl h1)
  have e21 := dominates_infeasible_iff o2 o1 c2 c1 (Or.inr h1)
  rcases lt_trichotomy c1 c2 with h | h | h
  · left
    refine ⟨e12.mpr h, ?_, h.ne⟩
    rw [← Bool.not_eq_true, e21]; exact not_lt.mpr h.le
  · right; right
    refine ⟨?_, ?_, h⟩
    · rw [← Bool.not_eq_true, e12, h]; exact lt_irrefl _
    · rw [← Bool.not_eq_true, e21, h]; exact lt_irrefl _
  · right; left
    refine ⟨?_, e21.mpr h, h.ne'⟩
    rw [← Bool.not_eq_true, e12]; exact not_lt.mpr h.le

/-- negative transitivity among infeasible points (what makes "neither dominates" an equivalence,
    i.e. the order a total pre-order) -/
theorem dominates_infeasible_negtrans (o1 o2 o3 : List α) (c1 c2 c3 : α) (h1 : 0 < c1) (h2 : 0 < c2)
    (_h3 : 0 < c3) (h12 : dominates o1 c1 o2 c2 = false) (h23 : dominates o2 c2 o3 c3 = false) :
    dominates o1 c1 o3 c3 = false := by
  rw [← Bool.not_eq_true, dominates_infeasible_iff _ _ _ _ (Or.inl h1)] at h12 ⊢
  rw [← Bool.not_eq_true, dominates_infeasible_iff _ _ _ _ (Or.inl h2)] at h23
  exact not_lt.mpr ((not_lt.mp h23).trans (not_lt.mp h12))

end dom2

/-! ### the Spec oracle of the dominance predicate -/
section domspec
variable {α : Type} [LinearOrder α] [Zero α]

/-- the order the property's second sentence describes: feasible points (violation `≤ 0`) by Pareto
    dominance of the minimised objectives, a feasible point before every infeasible one, infeasible
    points by smaller violation -/
def DomOrder (o1 : List α) (c1 : α) (o2 : List α) (c2 : α) : Prop :=
  (c1 ≤ 0 ∧ c2 ≤ 0 ∧ (∀ k (h1 : k < o1.length) (h2 : k < o2.length), o1[k] ≤ o2[k]) ∧
      ∃ k, ∃ (h1 : k < o1.length) (h2 : k < o2.length), o1[k] < o2[k]) ∨
  (c1 ≤ 0 ∧ 0 < c2) ∨
  (0 < c1 ∧ 0 < c2 ∧ c1 < c2)

theorem wantDominates_iff (o1 o2 : List α) (c1 c2 : α) :
    wantDominates o1 c1 o2 c2 = true ↔ DomOrder o1 c1 o2 c2 := by
  unfold wantDominates DomOrder
  by_cases h1 : 0 < c1 <;> by_cases h2 : 0 < c2
  · have d1 : decide (0 < c1) = true := decide_eq_true h1
    have d2 : decide (0 < c2) = true := decide_eq_true h2
    rw [d1, d2]
    simp only [decide_eq_true_eq]
    constructor
    · intro h; exact Or.inr (Or.inr ⟨h1, h2, h⟩)
    · rintro (⟨h, _⟩ | ⟨h, _⟩ | ⟨_, _, h⟩)
      · exact absurd h (not_le.mpr h1)
      · exact absurd h (not_le.mpr h1)
      · exact h
  · have d1 : decide (0 < c1) = true := decide_eq_true h1
    have d2 : decide (0 < c2) = false := decide_eq_false h2
    rw [d1, d2]
    constructor
    · intro h; exact Bool.noConfusion h
    · rintro (⟨h, _⟩ | ⟨h, _⟩ | ⟨_, h, _⟩)
      · exact absurd h (not_le.mpr h1)
      · exact absurd h (not_le.mpr h1)
      · exact absurd h h2
  · have d1 : decide (0 < c1) = false := decide_eq_false h1
    have d2 : decide (0 < c2) = true := decide_eq_true h2
    rw [d1, d2]
    constructor
    · intro _; exact Or.inr (Or.inl ⟨not_lt.mp h1, h2⟩)
    · intro _; rfl
  · have d1 : decide (0 < c1) = false := decide_eq_false h1
    have d2 : decide (0 < c2) = false := decide_eq_false h2
    rw [d1, d2]
    show strictDom o2 o1 = true ↔ _
    rw [strictDom_iff, weakDom_iff]
    constructor
    · rintro ⟨ha, k, hk2, hk1, hlt⟩
      exact Or.inl ⟨not_lt.mp h1, not_lt.mp h2, ha, k, hk1, hk2, hlt⟩
    · rintro (⟨_, _, ha, k, hk1, hk2, hlt⟩ | ⟨_, h⟩ | ⟨h, _⟩)
      · exact ⟨ha, k, hk2, hk1, hlt⟩
      · exact absurd h h2
      · exact absurd h h1

/-- **Spec ⇔ Prop (dominance).**  `Pareto.specDominates` (driver op `c19.spec_dominates`) accepts a claimed
    answer iff the answer is `true` exactly when point 1 precedes point 2 in `DomOrder`. -/
theorem spec_dominates_iff (o1 o2 : List α) (c1 c2 : α) (claimed : Bool) :
    specDominates o1 c1 o2 c2 claimed = true ↔ (claimed = true ↔ DomOrder o1 c1 o2 c2) := by
  unfold specDominates
  rw [← wantDominates_iff, beq_iff_eq]
  cases claimed <;> cases wantDominates o1 c1 o2 c2 <;> simp

/-- **Spec soundness (dominance).**  The model's predicate is the four-way case split of the Spec, hence
    the Spec accepts it and `dominates` decides `DomOrder`. -/
theorem spec_dominates_sound (o1 o2 : List α) (c1 c2 : α) :
    dominates o1 c1 o2 c2 = wantDominates o1 c1 o2 c2 ∧
    specDominates o1 c1 o2 c2 (dominates o1 c1 o2 c2) = true ∧
    (dominates o1 c1 o2 c2 = true ↔ DomOrder o1 c1 o2 c2) := by
  have key : dominates o1 c1 o2 c2 = wantDominates o1 c1 o2 c2 := by
    unfold wantDominates
    by_cases h1 : 0 < c1 <;> by_cases h2 : 0 < c2
    · rw [decide_eq_true h1, decide_eq_true h2]
      exact dominates_infeasible o1 o2 c1 c2 (fun h => absurd h.1 (not_le.mpr h1))
    · rw [decide_eq_true h1, decide_eq_false h2]
      rw [dominates_infeasible o1 o2 c1 c2 (fun h => absurd h.1 (not_le.mpr h1))]
      simp only [decide_eq_false_iff_not, not_lt]
      exact le_trans (not_lt.mp h2) h1.le
    · rw [decide_eq_false h1, decide_eq_true h2]
      rw [dominates_infeasible o1 o2 c1 c2 (fun h => absurd h.2 (not_le.mpr h2))]
      simp only [decide_eq_true_eq]
      exact lt_of_le_of_lt (not_lt.mp h1) h2
    · rw [decide_eq_false h1, decide_eq_false h2]
      exact dominates_feasible_eq_strictDom o1 o2 c1 c2 (not_lt.mp h1) (not_lt.mp h2)
  refine ⟨key, ?_, ?_⟩
  · unfold specDominates; rw [key]; simp
  · rw [key]; exact wantDominates_iff o1 o2 c1 c2

end domspec

/-! ### sentences 1 and 2 meet: the filter with every objective minimised keeps exactly the points that no
other (feasible) point `dominates` -/
section link
variable {α : Type} [CommRing α] [LinearOrder α] [IsStrictOrderedRing α]

/-- **Filter ⇔ dominance predicate.**  For feasible points (`cv = 0`) with objective rows `F` of one length, the
    index form of `is_pareto_efficient(F, wt = -1, …, -1)` lists exactly the points that no point of `F`
    `dominates` (pymoo_addon, minimisation), each distinct vector once, by its first occurrence: the hill
    climbers' archive test and the selection protocols' filter describe the same non-dominated set. -/
theorem filter_min_iff_not_dominated (F : List (List α)) (n : Nat) (hrect : ∀ r ∈ F, r.length = n) (i : Nat) :
    i ∈ efficientIdx F (List.replicate n (-1)) ↔
      (i < F.length ∧
       (∀ j, j < F.length → dominates (F.getD j []) 0 (F.getD i []) 0 = false) ∧
       (∀ j, j < i → F.getD j [] ≠ F.getD i [])) := by
  have hrect' : ∀ r ∈ F, r.length = (List.replicate n (-1 : α)).length := by simpa using hrect
  have hlen : ∀ k, k < F.length → (F.getD k []).length = n := by
    intro k hk
    apply hrect
    rw [List.getD_eq_getElem?_getD, List.getElem?_eq_getElem hk]; simp
  have hw : ∀ k, k < F.length → wrow F (List.replicate n (-1)) k = (F.getD k []).map (fun x => -x) :=
    fun k hk => applyWt_neg_ones n _ (hlen k hk)
  rw [efficientIdx_char F _ hrect' i]
  constructor
  · rintro ⟨hi, hmax, hfirst⟩
    refine ⟨hi, ?_, ?_⟩
    · intro j hj
      rw [dominates_feasible_eq_strictDom _ _ _ _ (le_refl 0) (le_refl 0), ← strictDom_map_neg, ← hw j hj, ← hw i hi]
      by_contra hne
      have hs : strictDom (wrow F (List.replicate n (-1)) j) (wrow F (List.replicate n (-1)) i) = true := by
        simpa using hne
      have hl : (wrow F (List.replicate n (-1)) j).length = (wrow F (List.replicate n (-1)) i).length := by
        rw [hw j hj, hw i hi, List.length_map, List.length_map, hlen j hj, hlen i hi]
      obtain ⟨h1, h2⟩ := (strictDom_iff_weak _ _ hl).mp hs
      rw [hmax j hj h1] at h2
      exact Bool.noConfusion h2
    · intro j hj heq
      exact hfirst j hj (by rw [hw j (lt_trans hj hi), hw i hi, heq])
  · rintro ⟨hi, hnd, hfirst⟩
    refine ⟨hi, ?_, ?_⟩
    · intro j hj h1
      by_contra hne
      have h2 : weakDom (wrow F (List.replicate n (-1)) j) (wrow F (List.replicate n (-1)) i) = false := by
        simpa using hne
      have hl : (wrow F (List.replicate n (-1)) j).length = (wrow F (List.replicate n (-1)) i).length := by
        rw [hw j hj, hw i hi, List.length_map, List.length_map, hlen j hj, hlen i hi]
      have hs := (strictDom_iff_weak _ _ hl).mpr ⟨h1, h2⟩
      rw [hw j hj, hw i hi, strictDom_map_neg,
        ← dominates_feasible_eq_strictDom _ _ (0:α) (0:α) (le_refl 0) (le_refl 0), hnd j hj] at hs
      exact Bool.noConfusion hs
    · intro j hj heq
      rw [hw j (lt_trans hj hi), hw i hi] at heq
      exact hfirst j hj (map_neg_injective _ _ heq)

end link

/-! ### a rewriting of the dominance test that is exact over the reals and wrong in binary64 -/
section sumform
variable {α : Type} [Field α] [LinearOrder α] [IsStrictOrderedRing α]

/-- **Sum form, exact arithmetic.**  Over an ordered field, for objective vectors of one length, "nowhere worse
    and the total strictly smaller" IS Pareto dominance: `dominatesSumForm` (the rewriting of the seeded change
    C19-d2) equals `dominates`.  The exact model cannot tell the two apart … -/
theorem dominates_sum_form_exact (o1 o2 : List α) (c1 c2 : α) (hlen : o1.length = o2.length) :
    dominatesSumForm o1 c1 o2 c2 = dominates o1 c1 o2 c2 := by
  unfold dominatesSumForm dominates
  by_cases hf : c1 ≤ 0 ∧ c2 ≤ 0
  · rw [if_pos hf, if_pos hf]
    by_cases hall : (List.zip o1 o2).all (fun ab => decide (ab.1 ≤ ab.2)) = true
    · rw [hall, Bool.true_and, Bool.true_and, Bool.eq_iff_iff, decide_eq_true_eq, any_lt_iff,
        np_sum_eq, np_sum_eq]
      exact (sum_le_and_lt_iff o1 o2 hlen ((all_le_iff o1 o2).mp hall)).2
    · have : (List.zip o1 o2).all (fun ab => decide (ab.1 ≤ ab.2)) = false := by simpa using hall
      rw [this]; rfl
  · rw [if_neg hf, if_neg hf]

end sumform

/-- … **in binary64 they differ**: with objectives on very different scales the strict improvement in the small
    objective is absorbed by the rounded totals (`-3e15 + 1.0` and `-3e15 + 1.25` are the same double), so the sum
    form denies a genuine dominance.  This is why the Spec `specDominates` is evaluated on the implementation's own
    answer for vectors with mixed scales, not only on the exact model.  (Lean `Float` = IEEE binary64, kernel evaluation.) -/
theorem dominates_sum_form_float_counterexample :
    dominates (α := Float) [-3e15, 1.0] 0 [-3e15, 1.25] 0 = true ∧
    dominatesSumForm (α := Float) [-3e15, 1.0] 0 [-3e15, 1.25] 0 = false := by
  decide +kernel

/-! ### the distance-to-preference-vector transformations

`transDistSq guarded mat sign line` transcribes the three functions (squared distances; `sign` =
`objfn_minmax` / `vec_wt` / `wt` multiplies the front first, `line` = the vector projected on);
since fix 1939b469 all three carry the zero-range guard, i.e. run with `guarded = true`. -/
section dist
variable {α : Type} [Field α] [LinearOrder α] [IsStrictOrderedRing α]

/-- **Geometric definition, one point.**  The code's `‖P - (1/(L·L))(P·L) L‖²` written with list
    sums is the squared norm of `P - proj_L P`, `proj_L P = ((P·L)/(L·L)) L` (no hypothesis). -/
theorem dist_geometric_def (l p : List α) :
    distSq l p = normSq (vsub p (proj l p)) ∧
    distSq l p = ((List.zipWith (fun x y => x - (vdot p l / vdot l l) * y) p l).map (fun d => d * d)).sum := by
  have h := distSq_eq_normSq l p
  rw [resid_eq_vsub_proj] at h
  refine ⟨h, ?_⟩
  rw [h]
  unfold normSq vsub proj smul
  rw [List.zipWith_map_right]

/-- the residual `P - proj_L P` is orthogonal to the line -/
theorem dist_residual_orthogonal (l p : List α) (hlen : p.length = l.length) (hll : vdot l l ≠ 0) :
    vdot (vsub p (proj l p)) l = 0 := by
  have : vsub p (proj l p) = List.zipWith (fun x y => x - (vdot p l / vdot l l) * y) p l := by
    unfold vsub proj smul; rw [List.zipWith_map_right]
  rw [this, resid_dot _ p l hlen]
  field_simp
  ring

/-- Pythagoras form: `dist² = P·P - (P·L)²/(L·L)` -/
theorem dist_pythagoras (l p : List α) (hlen : p.length = l.length) (hll : vdot l l ≠ 0) :
    distSq l p = vdot p p - (vdot p l) ^ 2 / vdot l l := by
  rw [(dist_geometric_def l p).2]
  have := sum_resid_sq (vdot p l / vdot l l) p l hlen
  unfold normSq at this
  rw [this]
  field_simp
  ring

/-- squared distances are non-negative (so the code's `norm` is a real number) -/
theorem dist_nonneg (l p : List α) : 0 ≤ distSq l p := by
  rw [(dist_geometric_def l p).1]; exact normSq_nonneg _

/-- the distance is exactly 0 iff the (scaled) point lies on the preference line -/
theorem dist_zero_iff_on_line (l p : List α) (hlen : p.length = l.length) (hll : vdot l l ≠ 0) :
    distSq l p = 0 ↔ ∃ c : α, p = smul c l := by
  rw [(dist_geometric_def l p).1, normSq_eq_zero_iff]
  constructor
  · intro h
    refine ⟨vdot p l / vdot l l, ?_⟩
    apply List.ext_getElem
    · simp [smul, hlen]
    intro i h1 h2
    have hi : i < l.length := by simpa [smul] using h2
    have hm : p[i] - (vdot p l / vdot l l) * l[i] ∈ vsub p (proj l p) := by
      unfold vsub proj smul
      rw [List.mem_iff_getElem]
      exact ⟨i, by simp [hlen, hi], by simp⟩
    have := h _ hm
    simp only [smul, List.getElem_map]
    exact sub_eq_zero.mp this
  · rintro ⟨c, rfl⟩ x hx
    have hpl : vdot (smul c l) l = c * vdot l l := by
      unfold smul vdot
      rw [List.zipWith_map_left]
      have : List.zipWith (fun a b => c * a * b) l l = (List.zipWith (· * ·) l l).map (fun z => c * z) := by
        rw [List.map_zipWith]; congr 1; funext a b; ring
      rw [this, List.sum_map_mul_left, List.map_id']
    unfold vsub proj at hx
    rw [hpl, mul_div_assoc, div_self hll, mul_one] at hx
    unfold smul at hx
    rw [List.zipWith_map_left, List.zipWith_map_right, List.zipWith_self] at hx
    obtain ⟨y, _, rfl⟩ := List.mem_map.mp hx
    ring

/-- the property's quantifier ("non-zero preference vectors") gives the hypothesis `L·L ≠ 0` used below -/
theorem pref_vector_dot_ne_zero (line : List α) (h : ∃ x ∈ line, x ≠ 0) : Np.dot line line ≠ 0 := by
  rw [np_dot_eq, vdot_self]
  intro h0
  obtain ⟨x, hx, hne⟩ := h
  exact hne ((normSq_eq_zero_iff line).mp h0 x hx)

/-- **Geometric definition, whole transformation.**  On a rectangular front with at least one
    objective the three functions return, for every point, the squared distance between the
    min–max scaled point (`(x - lo)/(hi - lo)`, `0` for a constant objective) and its projection on
    the preference line — the row-by-row definition `Pareto.geoDist` that the Spec oracle evaluates. -/
theorem dist_eq_geometric_def (mat : List (List α)) (sign line : List α)
    (hrect : ∀ r ∈ mat, r.length = sign.length) (hn : 0 < sign.length) (hll : Np.dot line line ≠ 0) :
    transDistSq true mat sign line = some (geoDist mat sign line) := by
  unfold transDistSq geoDist
  have h0 : (Np.dot line line == 0) = false := by simpa using hll
  rw [h0]
  simp only [Bool.false_eq_true, if_false]
  rw [scaleCols_guarded_geo _ sign.length hn (rect_zipWith (f := (· * ·)) mat sign hrect)]
  simp only [List.map_map]
  congr 1
  apply List.map_congr_left
  intro r _
  exact distSq_eq_geoDistSq _ _

/-- **Finite when an objective is constant.**  With the zero-range guard the transformation returns
    a value for EVERY matrix (constant objectives, one point, ragged input included) … -/
theorem dist_finite_when_constant (mat : List (List α)) (sign line : List α) (hll : Np.dot line line ≠ 0) :
    ∃ out, transDistSq true mat sign line = some out := by
  unfold transDistSq
  have h0 : (Np.dot line line == 0) = false := by simpa using hll
  rw [h0, scaleCols_guarded]
  exact ⟨_, rfl⟩

/-- … one value per point, each a non-negative number -/
theorem dist_finite_one_per_point (mat : List (List α)) (sign line : List α)
    (hrect : ∀ r ∈ mat, r.length = sign.length) (hn : 0 < sign.length) (hll : Np.dot line line ≠ 0) :
    ∃ out, transDistSq true mat sign line = some out ∧ out.length = mat.length ∧ ∀ d ∈ out, 0 ≤ d := by
  refine ⟨_, dist_eq_geometric_def mat sign line hrect hn hll, by simp [geoDist], ?_⟩
  intro d hd
  simp only [geoDist, List.map_map, List.mem_map, Function.comp] at hd
  obtain ⟨r, _, rfl⟩ := hd
  rw [← distSq_eq_geoDistSq]
  exact dist_nonneg _ _

/-- **D13 (pre-repair behaviour).**  Without the guard (`trans_ndpt_to_vec_dist` before 1939b469)
    every non-empty front with a constant objective gives NaN (`none`). -/
theorem dist_prerepair_nan_of_constant (mat : List (List α)) (sign line : List α)
    (hne : mat ≠ []) (hrect : ∀ r ∈ mat, r.length = sign.length) (j : Nat) (hj : j < sign.length) (v : α)
    (hconst : ∀ r ∈ mat, r[j]? = some v) :
    transDistSq false mat sign line = none := by
  unfold transDistSq
  by_cases h0 : (Np.dot line line == 0) = true
  · rw [if_pos h0]
  rw [if_neg h0]
  have hne' : mat.map (fun r => List.zipWith (· * ·) r sign) ≠ [] := by simpa using hne
  rw [scaleCols_unguarded_const _ sign.length j hne' (rect_zipWith (f := (· * ·)) mat sign hrect) hj
    (v * sign[j]) (by
      intro r hr
      obtain ⟨r0, h0, rfl⟩ := List.mem_map.mp hr
      simp [List.getElem?_zipWith, hconst r0 h0, List.getElem?_eq_getElem hj])]

/-- the concrete front of the corpus (second objective constant): NaN before the repair,
    finite (`[1/4, 1/2, 0]`) after it -/
theorem dist_prerepair_nan_counterexample :
    transDistSq false ([[1, 2], [2, 2], [0, 2]] : List (List α)) [1, 1] [1, 1] = none ∧
    ∃ out, transDistSq true ([[1, 2], [2, 2], [0, 2]] : List (List α)) [1, 1] [1, 1] = some out := by
  constructor
  · apply dist_prerepair_nan_of_constant _ _ _ (by simp) (by simp) 1 (by simp) 2
    simp
  · apply dist_finite_when_constant
    simp [Np.dot, Np.sum]

/-- **Translation invariance.**  Translating the front by any vector `t` (before the sign
    multiplication, as a caller would) does not change any distance; holds with and without the guard. -/
theorem dist_translation_invariant (g : Bool) (mat : List (List α)) (t sign line : List α)
    (hrect : ∀ r ∈ mat, r.length = sign.length) (ht : t.length = sign.length) :
    transDistSq g (mat.map (fun r => List.zipWith (· + ·) r t)) sign line = transDistSq g mat sign line := by
  unfold transDistSq
  have e : (mat.map (fun r => List.zipWith (· + ·) r t)).map (fun r => List.zipWith (· * ·) r sign) =
      (mat.map (fun r => List.zipWith (· * ·) r sign)).map
        (fun r => List.zipWith (· + ·) r (List.zipWith (· * ·) t sign)) := by
    simp only [List.map_map]
    apply List.map_congr_left
    intro r _
    simp only [Function.comp]
    apply List.ext_getElem
    · simp only [List.length_zipWith]; omega
    · intro i h1 h2
      simp only [List.getElem_zipWith]
      ring
  rw [e, scaleCols_add]
  intro r hr
  obtain ⟨r0, h0, rfl⟩ := List.mem_map.mp hr
  simp [hrect r0 h0, ht]

/-- **Positive rescaling of objectives** (each objective `j` multiplied by `cs[j] > 0`) does not
    change any distance: the min–max scaling removes it.  (Only for positive factors — a negative
    factor reverses the objective, which is what `sign` is for: see `dist_sign_flip_counterexample`.) -/
theorem dist_rescale_invariant (g : Bool) (mat : List (List α)) (cs sign line : List α)
    (hrect : ∀ r ∈ mat, r.length = sign.length) (hc : cs.length = sign.length) (hpos : ∀ c ∈ cs, 0 < c) :
    transDistSq g (mat.map (fun r => List.zipWith (· * ·) r cs)) sign line = transDistSq g mat sign line := by
  unfold transDistSq
  have e : (mat.map (fun r => List.zipWith (· * ·) r cs)).map (fun r => List.zipWith (· * ·) r sign) =
      (mat.map (fun r => List.zipWith (· * ·) r sign)).map (fun r => List.zipWith (· * ·) r cs) := by
    simp only [List.map_map]
    apply List.map_congr_left
    intro r _
    simp only [Function.comp]
    apply List.ext_getElem
    · simp only [List.length_zipWith]; omega
    · intro i h1 h2
      simp only [List.getElem_zipWith]
      ring
  rw [e, scaleCols_mul g _ cs _ hpos]
  intro r hr
  obtain ⟨r0, h0, rfl⟩ := List.mem_map.mp hr
  simp [hrect r0 h0, hc]

/-- **Scaled values lie in [0,1]** (any matrix) … -/
theorem scaled_in_unit_interval (mat scaled : List (List α)) (h : scaleCols true mat = some scaled) :
    ∀ row ∈ scaled, ∀ y ∈ row, 0 ≤ y ∧ y ≤ 1 :=
  scaleCols_unit mat scaled h

/-- … and a constant objective is scaled to 0 in every point -/
theorem scaled_constant_zero (mat scaled : List (List α)) (n : Nat) (hn : 0 < n)
    (hrect : ∀ r ∈ mat, r.length = n) (j : Nat) (v : α) (hconst : ∀ r ∈ mat, r[j]? = some v)
    (h : scaleCols true mat = some scaled) : ∀ row ∈ scaled, row[j]? = some 0 := by
  rw [scaleCols_guarded_rows mat n hn hrect] at h
  have h := Option.some.inj h
  subst h
  intro row hrow
  obtain ⟨r, hr, rfl⟩ := List.mem_map.mp hrow
  have hcc : ∀ x ∈ colOf mat j, x = v := by
    intro x hx
    obtain ⟨r', hr', hrx⟩ := (mem_colOf _ _ _).mp hx
    rw [hconst r' hr'] at hrx
    exact (Option.some.inj hrx).symm
  have hcne : colOf mat j ≠ [] := by
    intro h0
    have : v ∈ colOf mat j := (mem_colOf _ _ _).mpr ⟨r, hr, hconst r hr⟩
    rw [h0] at this; simp at this
  simp only [List.getElem?_map, List.getElem?_zipIdx, hconst r hr, Option.map_some, zero_add]
  simp [scaleEntryG, colMax_const _ v hcne hcc, colMin_const _ v hcne hcc]

/-- **Spec soundness.**  The decidable Spec `Pareto.specDist` that the harness evaluates (driver op
    `c19.spec_dist`) on the implementation's squared distances accepts the model's own output, for
    every tolerance. -/
theorem spec_dist_sound (rel abs_ : α) (mat : List (List α)) (sign line : List α)
    (hrect : ∀ r ∈ mat, r.length = sign.length) (hn : 0 < sign.length) (hll : Np.dot line line ≠ 0)
    (out : List α) (h : transDistSq true mat sign line = some out) :
    specDist rel abs_ mat sign line (out.map some) = true := by
  rw [dist_eq_geometric_def mat sign line hrect hn hll] at h
  rw [← Option.some.inj h]
  exact specDist_geoDist rel abs_ mat sign line

/-- the Spec demands finiteness and one distance per point -/
theorem spec_dist_rejects (rel abs_ : α) (mat : List (List α)) (sign line : List α) (d2 : List (Option α)) :
    (none ∈ d2 → specDist rel abs_ mat sign line d2 = false) ∧
    (specDist rel abs_ mat sign line d2 = true → d2.length = mat.length) :=
  ⟨specDist_none rel abs_ mat sign line d2, specDist_length rel abs_ mat sign line d2⟩

/-- **The three source copies agree.**  The statement-by-statement transcriptions of
    `core/util/trans.py:trans_ndpt_pseudo_dist(mat, sign, line)`,
    `sel/prob/trans.py:trans_ndpt_to_vec_dist(mat, line, sign)` and
    `sel/transfn.py:trans_ndpt_to_vec_dist(mat, line, sign)` (argument orders of the sources) compute the
    same squared distances as the common model, for every matrix (the last two also for every
    preference vector; the first one `assert`s that it is non-negative with a positive entry). -/
theorem dist_three_copies_agree (mat : List (List α)) (sign line : List α)
    (hnn : ∀ x ∈ line, 0 ≤ x) (hpos : ∃ x ∈ line, 0 < x) :
    transDistCore mat sign line = transDistSq true mat sign line ∧
    transDistProb mat line sign = transDistSq true mat sign line ∧
    transDistFn mat line sign = transDistSq true mat sign line := by
  have hne : ∃ x ∈ line, x ≠ 0 := by
    obtain ⟨x, hx, hp⟩ := hpos
    exact ⟨x, hx, ne_of_gt hp⟩
  exact ⟨transDistCore_eq mat sign line hnn hpos, transDistProb_eq mat line sign hne, transDistFn_eq mat line sign hne⟩

/-- each copy equals the geometric definition (rectangular front, at least one objective) -/
theorem dist_copies_eq_geometric_def (mat : List (List α)) (sign line : List α)
    (hrect : ∀ r ∈ mat, r.length = sign.length) (hn : 0 < sign.length)
    (hnn : ∀ x ∈ line, 0 ≤ x) (hpos : ∃ x ∈ line, 0 < x) :
    transDistCore mat sign line = some (geoDist mat sign line) ∧
    transDistProb mat line sign = some (geoDist mat sign line) ∧
    transDistFn mat line sign = some (geoDist mat sign line) := by
  have hll : Np.dot line line ≠ 0 := by
    obtain ⟨x, hx, hp⟩ := hpos
    exact pref_vector_dot_ne_zero line ⟨x, hx, ne_of_gt hp⟩
  obtain ⟨h1, h2, h3⟩ := dist_three_copies_agree mat sign line hnn hpos
  rw [h1, h2, h3]
  exact ⟨dist_eq_geometric_def mat sign line hrect hn hll, dist_eq_geometric_def mat sign line hrect hn hll,
    dist_eq_geometric_def mat sign line hrect hn hll⟩

/-- the core copy rejects (AssertionError, `none`) a preference vector with a negative entry -/
theorem dist_core_rejects_negative_preference (mat : List (List α)) (sign line : List α) (h : ∃ x ∈ line, x < 0) :
    transDistCore mat sign line = none :=
  transDistCore_rejects_negative mat sign line h

/-- the linear-time evaluation the driver runs is the geometric definition, and so is its Spec -/
theorem geo_dist_fast_eq (mat : List (List α)) (sign line : List α) :
    geoDistFast mat sign line = geoDist mat sign line := geoDistFast_eq mat sign line

theorem spec_dist_fast_eq (rel abs_ : α) (mat : List (List α)) (sign line : List α) (d2 : List (Option α)) :
    specDistFast rel abs_ mat sign line d2 = specDist rel abs_ mat sign line d2 :=
  specDistFast_eq rel abs_ mat sign line d2

/-- **Spec ⇔ Prop (distances).**  `Pareto.specDist` accepts claimed squared distances iff there is one per
    point, each is a number (not NaN / inf) and each is within the tolerance rule of the geometric definition. -/
theorem spec_dist_iff (rel abs_ : α) (mat : List (List α)) (sign line : List α) (d2 : List (Option α)) :
    specDist rel abs_ mat sign line d2 = true ↔
      (d2.length = mat.length ∧
       ∀ i (hi : i < d2.length), ∃ x, d2[i] = some x ∧
         closeTol rel abs_ x ((geoDist mat sign line).getD i 0) = true) := by
  have hwl : (geoDist mat sign line).length = mat.length := by simp [geoDist]
  unfold specDist
  simp only [Bool.and_eq_true, beq_iff_eq, List.all_eq_true]
  constructor
  · rintro ⟨⟨_, hl⟩, hz⟩
    refine ⟨hl.trans hwl, ?_⟩
    intro i hi
    have hiw : i < (geoDist mat sign line).length := hl ▸ hi
    have := hz (d2[i], (geoDist mat sign line)[i]) (by
      rw [List.mem_iff_getElem]
      exact ⟨i, by simp [hi, hiw], by simp⟩)
    simp only at this
    cases hd : d2[i] with
    | none => rw [hd] at this; exact Bool.noConfusion this
    | some x =>
      rw [hd] at this
      refine ⟨x, rfl, ?_⟩
      rw [List.getD_eq_getElem?_getD, List.getElem?_eq_getElem hiw]
      exact this
  · rintro ⟨hl, hz⟩
    have hl' : d2.length = (geoDist mat sign line).length := hl.trans hwl.symm
    refine ⟨⟨?_, hl'⟩, ?_⟩
    · intro o ho
      obtain ⟨i, hi, rfl⟩ := List.mem_iff_getElem.mp ho
      obtain ⟨x, hx, _⟩ := hz i hi
      rw [hx]; rfl
    · rintro ⟨o, w⟩ hp
      obtain ⟨i, hi, heq⟩ := List.mem_iff_getElem.mp hp
      simp only [List.length_zip, lt_min_iff] at hi
      simp only [List.getElem_zip, Prod.mk.injEq] at heq
      obtain ⟨x, hx, hc⟩ := hz i hi.1
      rw [List.getD_eq_getElem?_getD, List.getElem?_eq_getElem hi.2] at hc
      simp only
      rw [← heq.1, ← heq.2, hx]
      exact hc

/-- **The length of the preference vector is immaterial.**  Multiplying the preference vector by any non-zero
    factor changes no distance (the projection is on the LINE it spans).  Justifies the repair of D190 (c276d45e)
    (divide the vector by its largest entry before forming `1/(L·L)`) and the generator's `2^±400` multiples. -/
theorem dist_preference_scale_invariant (g : Bool) (mat : List (List α)) (sign line : List α) (c : α) (hc : c ≠ 0) :
    transDistSq g mat sign (smul c line) = transDistSq g mat sign line :=
  transDistSq_smul_line g mat sign line c hc

/-- … the same for the statement-by-statement transcriptions of the two selection-protocol copies (as they are
    since c276d45e), for every non-zero preference vector -/
theorem dist_copies_preference_scale_invariant (mat : List (List α)) (sign line : List α) (c : α) (hc : c ≠ 0)
    (hne : ∃ x ∈ line, x ≠ 0) :
    transDistProb mat (smul c line) sign = transDistProb mat line sign ∧
    transDistFn mat (smul c line) sign = transDistFn mat line sign := by
  have hne' : ∃ x ∈ smul c line, x ≠ 0 := by
    obtain ⟨x, hx, hx0⟩ := hne
    exact ⟨c * x, List.mem_map.mpr ⟨x, hx, rfl⟩, mul_ne_zero hc hx0⟩
  rw [transDistProb_eq _ _ _ hne', transDistProb_eq _ _ _ hne, transDistFn_eq _ _ _ hne', transDistFn_eq _ _ _ hne]
  exact ⟨dist_preference_scale_invariant true mat sign line c hc, dist_preference_scale_invariant true mat sign line c hc⟩

/-- **The repair of D190 (c276d45e) is exact.**  Dividing the preference vector by its largest magnitude changes no
    distance in exact arithmetic: for every non-zero preference vector the two protocol copies return what they
    returned before the repair (`…Prerepair`), and so does the core copy for every vector its `assert`s accept. -/
theorem dist_repair_D190_exact (mat : List (List α)) (sign line : List α) (hne : ∃ x ∈ line, x ≠ 0) :
    transDistProb mat line sign = transDistProbPrerepair mat line sign ∧
    transDistFn mat line sign = transDistFnPrerepair mat line sign ∧
    ((∀ x ∈ line, 0 ≤ x) → (∃ x ∈ line, 0 < x) →
      transDistCore mat sign line = transDistCorePrerepair mat sign line) := by
  refine ⟨?_, ?_, ?_⟩
  · rw [transDistProb_eq _ _ _ hne, transDistProbPrerepair_eq]
  · rw [transDistFn_eq _ _ _ hne, transDistFnPrerepair_eq]
  · intro hnn hpos
    rw [transDistCore_eq _ _ _ hnn hpos, transDistCorePrerepair_eq _ _ _ hnn hpos]

/-- the zero vector (excluded by the property's quantifier) still gives NaN (`none`) in the two protocol copies -/
theorem dist_zero_preference_nan (mat : List (List α)) (sign line : List α) (h : ∀ x ∈ line, x = 0) :
    transDistFn mat line sign = none ∧ transDistProb mat line sign = none :=
  transDistFn_zero_vector mat line sign h

/-- **Spec ⇔ Prop (two result vectors agree).**  `Pareto.specCloseAll` (driver op `c19.spec_close`: translation pairs,
    the three copies on one front) accepts iff the vectors have one length, every entry is a number and
    corresponding entries satisfy the tolerance rule. -/
theorem spec_close_all_iff (rel abs_ : α) (d d' : List (Option α)) :
    specCloseAll rel abs_ d d' = true ↔
      (d.length = d'.length ∧ ∀ i (h1 : i < d.length) (h2 : i < d'.length),
        ∃ x y, d[i] = some x ∧ d'[i] = some y ∧ closeTol rel abs_ x y = true) := by
  unfold specCloseAll
  simp only [Bool.and_eq_true, beq_iff_eq, List.all_eq_true]
  constructor
  · rintro ⟨hl, hz⟩
    refine ⟨hl, ?_⟩
    intro i h1 h2
    have := hz (d[i], d'[i]) (by
      rw [List.mem_iff_getElem]
      exact ⟨i, by simp [h1, h2], by simp⟩)
    simp only at this
    cases hx : d[i] with
    | none => rw [hx] at this; exact Bool.noConfusion this
    | some x =>
      cases hy : d'[i] with
      | none => rw [hx, hy] at this; exact Bool.noConfusion this
      | some y =>
        rw [hx, hy] at this
        exact ⟨x, y, rfl, rfl, this⟩
  · rintro ⟨hl, hz⟩
    refine ⟨hl, ?_⟩
    rintro ⟨o, o'⟩ hp
    obtain ⟨i, hi, heq⟩ := List.mem_iff_getElem.mp hp
    simp only [List.length_zip, lt_min_iff] at hi
    simp only [List.getElem_zip, Prod.mk.injEq] at heq
    obtain ⟨x, y, hx, hy, hc⟩ := hz i hi.1 hi.2
    simp only
    rw [← heq.1, ← heq.2, hx, hy]
    exact hc

/-- **Spec soundness (translation pairs, copies).**  Equal result vectors of numbers are accepted for every
    tolerance — in particular the model's outputs on a front and on its translate (`dist_translation_invariant`)
    and the outputs of the three transcriptions (`dist_three_copies_agree`). -/
theorem spec_close_all_refl (rel abs_ : α) (out : List α) :
    specCloseAll rel abs_ (out.map some) (out.map some) = true := by
  rw [spec_close_all_iff]
  refine ⟨rfl, ?_⟩
  intro i h1 _
  have hi : i < out.length := by simpa using h1
  exact ⟨out[i], out[i], by simp, by simp, closeTol_refl rel abs_ _⟩

theorem spec_close_translation_sound (rel abs_ : α) (g : Bool) (mat : List (List α)) (t sign line : List α)
    (hrect : ∀ r ∈ mat, r.length = sign.length) (ht : t.length = sign.length)
    (out out' : List α) (h : transDistSq g mat sign line = some out)
    (h' : transDistSq g (mat.map (fun r => List.zipWith (· + ·) r t)) sign line = some out') :
    specCloseAll rel abs_ (out.map some) (out'.map some) = true := by
  rw [dist_translation_invariant g mat t sign line hrect ht, h] at h'
  rw [← Option.some.inj h']
  exact spec_close_all_refl rel abs_ out

end dist

/-! ### the other front-ranking transformations (`transfn.trans_dot`, `transfn.trans_sum`) -/
section wsum
variable {α : Type} [Field α] [LinearOrder α] [IsStrictOrderedRing α]

/-- **Weighted sum = geometric definition.**  `trans_dot(mat, wt)[i]` is the dot product of point `i`
    with `wt`; it equals the dot product of the point's orthogonal projection on the weight vector
    with `wt`, i.e. `‖wt‖²` times the coordinate of the projection along `wt`. -/
theorem trans_dot_geometric_def (mat : List (List α)) (wt : List α) (hww : vdot wt wt ≠ 0) :
    transDot mat wt = mat.map (fun p => vdot p wt) ∧
    transDot mat wt = mat.map (fun p => vdot (proj wt p) wt) ∧
    transDot mat wt = mat.map (fun p => (vdot p wt / vdot wt wt) * vdot wt wt) := by
  have h1 := transDot_eq mat wt
  refine ⟨h1, ?_, ?_⟩
  · rw [h1]
    apply List.map_congr_left
    intro p _
    unfold proj
    rw [vdot_smul_left, div_mul_cancel₀ _ hww]
  · rw [h1]
    apply List.map_congr_left
    intro p _
    rw [div_mul_cancel₀ _ hww]

/-- translating the front by `t` adds the constant `t·wt` to every score: the ranking is unchanged -/
theorem trans_dot_translation (mat : List (List α)) (t wt : List α) (hrect : ∀ r ∈ mat, r.length = t.length) :
    transDot (mat.map (fun r => List.zipWith (· + ·) r t)) wt = (transDot mat wt).map (fun s => s + vdot t wt) := by
  rw [transDot_eq, transDot_eq, List.map_map, List.map_map]
  apply List.map_congr_left
  intro r hr
  simp only [Function.comp]
  exact vdot_add_left r t wt (hrect r hr)

/-- the weighted sum respects Pareto dominance: non-negative weights never rank a weakly dominated
    point higher, positive weights rank a strictly dominated point strictly lower -/
theorem trans_dot_monotone (a b wt : List α) (hlen : a.length = b.length) :
    ((∀ x ∈ wt, 0 ≤ x) → weakDom a b = true → Np.dot a wt ≤ Np.dot b wt) ∧
    ((∀ x ∈ wt, 0 < x) → wt.length = a.length → strictDom b a = true → Np.dot a wt < Np.dot b wt) := by
  rw [np_dot_eq, np_dot_eq]
  constructor
  · intro hw h
    exact vdot_le_of_le a b wt hlen hw ((weakDom_iff a b).mp h)
  · intro hw hlw h
    obtain ⟨hwd, k, h1, h2, hlt⟩ := (strictDom_iff b a).mp h
    exact vdot_lt_of_lt a b wt hlen hlw hw ((weakDom_iff a b).mp hwd) ⟨k, h2, h1, hlt⟩

/-- a point that maximises a positively weighted sum over the front is Pareto efficient -/
theorem trans_dot_argmax_efficient (mat : List (List α)) (wt : List α) (hrect : ∀ r ∈ mat, r.length = wt.length)
    (hpos : ∀ x ∈ wt, 0 < x) (p : List α) (hp : p ∈ mat) (hmax : ∀ q ∈ mat, Np.dot q wt ≤ Np.dot p wt) :
    ∀ q ∈ mat, strictDom q p = false := by
  intro q hq
  by_contra hne
  have hs : strictDom q p = true := by simpa using hne
  have := (trans_dot_monotone p q wt ((hrect p hp).trans (hrect q hq).symm)).2 hpos (hrect p hp).symm hs
  exact absurd (hmax q hq) (not_le.mpr this)

/-- `trans_sum(mat, axis=1)` is the weighted sum with unit weights -/
theorem trans_sum_eq_dot_ones (mat : List (List α)) (n : Nat) (hrect : ∀ r ∈ mat, r.length = n) :
    transSumAxis1 mat = transDot mat (List.replicate n 1) := by
  rw [transDot_eq]
  unfold transSumAxis1
  apply List.map_congr_left
  intro r hr
  rw [np_sum_eq, ← hrect r hr, vdot_replicate_one]

end wsum


/-! ### the theorems apply to exactly the functions the driver runs

`Pareto.Q.*` (Model/Pareto.lean, compiled without Mathlib) are the model's definitions at core `Rat`
with the core instances (`Rat.instMul`, `Rat.instLT`, `Rat.instDecidableLt`, `Rat.instOfNat`,
`instBEqOfDecidableEq`, …); `Drv/C19.lean` calls these constants.  The generic theorems above are
stated over `[Field α] [LinearOrder α] [IsStrictOrderedRing α]`; at `α := ℚ` Mathlib's instances
unfold to the core operations, so every instantiation below is accepted by `exact` up to
definitional unfolding of instances — no `Subsingleton` / `decide` bridge was needed. -/
section Q
open Pareto

theorem Q_filter_sound (fmat : List (List ℚ)) (wt : List ℚ) (hrect : ∀ r ∈ fmat, r.length = wt.length)
    (i : Nat) (hi : i ∈ Q.efficientIdx fmat wt) (j : Nat) (hj : j < fmat.length) :
    Q.strictDom (Q.applyWt wt (fmat.getD j [])) (Q.applyWt wt (fmat.getD i [])) = false :=
  filter_sound (α := ℚ) fmat wt hrect i hi j hj

theorem Q_filter_complete (fmat : List (List ℚ)) (wt : List ℚ) (hrect : ∀ r ∈ fmat, r.length = wt.length)
    (i : Nat) (hi : i < fmat.length) (hni : i ∉ Q.efficientIdx fmat wt) :
    ∃ j ∈ Q.efficientIdx fmat wt, Q.weakDom (Q.applyWt wt (fmat.getD i [])) (Q.applyWt wt (fmat.getD j [])) = true :=
  filter_complete (α := ℚ) fmat wt hrect i hi hni

theorem Q_mask_eq_index (fmat : List (List ℚ)) (wt : List ℚ) (i : Nat) (hi : i < fmat.length) :
    (Q.efficientMask fmat wt)[i]? = some (decide (i ∈ Q.efficientIdx fmat wt)) :=
  mask_eq_index (α := ℚ) fmat wt i hi

theorem Q_perm_invariant_set (fmat fmat' : List (List ℚ)) (wt : List ℚ) (hp : fmat.Perm fmat')
    (hrect : ∀ r ∈ fmat, r.length = wt.length) (v : List ℚ) :
    v ∈ (Q.efficientIdx fmat wt).map (fun i => Q.applyWt wt (fmat.getD i [])) ↔
    v ∈ (Q.efficientIdx fmat' wt).map (fun i => Q.applyWt wt (fmat'.getD i [])) :=
  perm_invariant_set (α := ℚ) fmat fmat' wt hp hrect v

theorem Q_rescale_invariant (fmat : List (List ℚ)) (wt cs : List ℚ)
    (hrect : ∀ r ∈ fmat, r.length = wt.length) (hcs : cs.length = wt.length) (hpos : ∀ c ∈ cs, 0 < c) :
    Q.efficientIdx fmat (List.zipWith (· * ·) wt cs) = Q.efficientIdx fmat wt :=
  rescale_invariant (α := ℚ) fmat wt cs hrect hcs hpos

theorem Q_dominates_feasible (o1 o2 : List ℚ) (c1 c2 : ℚ) (h1 : c1 ≤ 0) (h2 : c2 ≤ 0) :
    Q.dominates o1 c1 o2 c2 = Q.strictDom o2 o1 :=
  dominates_feasible_eq_strictDom (α := ℚ) o1 o2 c1 c2 h1 h2

theorem Q_dominates_infeasible (o1 o2 : List ℚ) (c1 c2 : ℚ) (h : 0 < c1 ∨ 0 < c2) :
    Q.dominates o1 c1 o2 c2 = true ↔ c1 < c2 :=
  dominates_infeasible_iff (α := ℚ) o1 o2 c1 c2 h

theorem Q_dominates_strict_order (o1 o2 o3 : List ℚ) (c1 c2 c3 : ℚ) :
    Q.dominates o1 c1 o1 c1 = false ∧
    (Q.dominates o1 c1 o2 c2 = true → Q.dominates o2 c2 o1 c1 = false) ∧
    (o1.length = o2.length → o2.length = o3.length → Q.dominates o1 c1 o2 c2 = true →
      Q.dominates o2 c2 o3 c3 = true → Q.dominates o1 c1 o3 c3 = true) :=
  ⟨dominates_irrefl (α := ℚ) o1 c1, dominates_asymm (α := ℚ) o1 o2 c1 c2,
   dominates_trans (α := ℚ) o1 o2 o3 c1 c2 c3⟩

theorem Q_dist_eq_geometric_def (mat : List (List ℚ)) (sign line : List ℚ)
    (hrect : ∀ r ∈ mat, r.length = sign.length) (hn : 0 < sign.length) (hll : Np.dot line line ≠ 0) :
    Q.transDistSq true mat sign line = some (Q.geoDist mat sign line) :=
  dist_eq_geometric_def (α := ℚ) mat sign line hrect hn hll

theorem Q_dist_finite_when_constant (mat : List (List ℚ)) (sign line : List ℚ) (hll : Np.dot line line ≠ 0) :
    ∃ out, Q.transDistSq true mat sign line = some out :=
  dist_finite_when_constant (α := ℚ) mat sign line hll

theorem Q_dist_translation_invariant (g : Bool) (mat : List (List ℚ)) (t sign line : List ℚ)
    (hrect : ∀ r ∈ mat, r.length = sign.length) (ht : t.length = sign.length) :
    Q.transDistSq g (mat.map (fun r => List.zipWith (· + ·) r t)) sign line = Q.transDistSq g mat sign line :=
  dist_translation_invariant (α := ℚ) g mat t sign line hrect ht

theorem Q_dist_rescale_invariant (g : Bool) (mat : List (List ℚ)) (cs sign line : List ℚ)
    (hrect : ∀ r ∈ mat, r.length = sign.length) (hc : cs.length = sign.length) (hpos : ∀ c ∈ cs, 0 < c) :
    Q.transDistSq g (mat.map (fun r => List.zipWith (· * ·) r cs)) sign line = Q.transDistSq g mat sign line :=
  dist_rescale_invariant (α := ℚ) g mat cs sign line hrect hc hpos

/-- the Spec the driver evaluates (`c19.spec_dist`) accepts what the driver's model (`c19.dist`) returns -/
theorem Q_spec_dist_sound (rel abs_ : ℚ) (mat : List (List ℚ)) (sign line : List ℚ)
    (hrect : ∀ r ∈ mat, r.length = sign.length) (hn : 0 < sign.length) (hll : Np.dot line line ≠ 0)
    (out : List ℚ) (h : Q.transDistSq true mat sign line = some out) :
    Q.specDist rel abs_ mat sign line (out.map some) = true :=
  spec_dist_sound (α := ℚ) rel abs_ mat sign line hrect hn hll out h

theorem Q_efficientIdx_char (fmat : List (List ℚ)) (wt : List ℚ) (hrect : ∀ r ∈ fmat, r.length = wt.length) (i : Nat) :
    i ∈ Q.efficientIdx fmat wt ↔
      (i < fmat.length ∧
       (∀ j, j < fmat.length → Q.weakDom (Q.applyWt wt (fmat.getD i [])) (Q.applyWt wt (fmat.getD j [])) = true →
          Q.weakDom (Q.applyWt wt (fmat.getD j [])) (Q.applyWt wt (fmat.getD i [])) = true) ∧
       (∀ j, j < i → Q.applyWt wt (fmat.getD j []) ≠ Q.applyWt wt (fmat.getD i []))) :=
  efficientIdx_char (α := ℚ) fmat wt hrect i

theorem Q_perm_invariant_count (fmat fmat' : List (List ℚ)) (wt : List ℚ) (hp : fmat.Perm fmat')
    (hrect : ∀ r ∈ fmat, r.length = wt.length) :
    (Q.efficientIdx fmat wt).length = (Q.efficientIdx fmat' wt).length :=
  perm_invariant_count (α := ℚ) fmat fmat' wt hp hrect

/-- the Spec ops of the driver accept what the model ops of the driver return -/
theorem Q_spec_mask_sound (fmat : List (List ℚ)) (wt : List ℚ) (hrect : ∀ r ∈ fmat, r.length = wt.length) :
    Q.specMask fmat wt (Q.efficientMask fmat wt) = true ∧
    Pareto.specIdx fmat.length (Q.efficientMask fmat wt) (Q.efficientIdx fmat wt) = true :=
  ⟨spec_mask_sound (α := ℚ) fmat wt hrect, spec_idx_sound (α := ℚ) fmat wt⟩

theorem Q_spec_mask_determines_vectors (fmat : List (List ℚ)) (wt : List ℚ) (hrect : ∀ r ∈ fmat, r.length = wt.length)
    (mask : List Bool) (h : Q.specMask fmat wt mask = true) (v : List ℚ) :
    (∃ i, ∃ (hi : i < mask.length), mask[i] = true ∧ Q.applyWt wt (fmat.getD i []) = v) ↔
      v ∈ (Q.efficientIdx fmat wt).map (fun i => Q.applyWt wt (fmat.getD i [])) :=
  spec_mask_determines_vectors (α := ℚ) fmat wt hrect mask h v

theorem Q_spec_dominates_sound (o1 o2 : List ℚ) (c1 c2 : ℚ) :
    Q.specDominates o1 c1 o2 c2 (Q.dominates o1 c1 o2 c2) = true ∧
    (Q.dominates o1 c1 o2 c2 = true ↔ DomOrder o1 c1 o2 c2) :=
  ⟨(spec_dominates_sound (α := ℚ) o1 o2 c1 c2).2.1, (spec_dominates_sound (α := ℚ) o1 o2 c1 c2).2.2⟩

theorem Q_dist_three_copies_agree (mat : List (List ℚ)) (sign line : List ℚ)
    (hnn : ∀ x ∈ line, 0 ≤ x) (hpos : ∃ x ∈ line, 0 < x) :
    Q.transDistCore mat sign line = Q.transDistSq true mat sign line ∧
    Q.transDistProb mat line sign = Q.transDistSq true mat sign line ∧
    Q.transDistFn mat line sign = Q.transDistSq true mat sign line :=
  dist_three_copies_agree (α := ℚ) mat sign line hnn hpos

/-- the Spec the driver runs (`specDistFast`) is the Spec of the theorems (`specDist`), and accepts the
    answers of all three transcriptions -/
theorem Q_spec_dist_fast_sound (rel abs_ : ℚ) (mat : List (List ℚ)) (sign line : List ℚ)
    (hrect : ∀ r ∈ mat, r.length = sign.length) (hn : 0 < sign.length)
    (hnn : ∀ x ∈ line, 0 ≤ x) (hpos : ∃ x ∈ line, 0 < x) (d2 : List (Option ℚ)) :
    Q.specDistFast rel abs_ mat sign line d2 = Q.specDist rel abs_ mat sign line d2 ∧
    (∀ out, Q.transDistCore mat sign line = some out → Q.specDistFast rel abs_ mat sign line (out.map some) = true) ∧
    (∀ out, Q.transDistProb mat line sign = some out → Q.specDistFast rel abs_ mat sign line (out.map some) = true) ∧
    (∀ out, Q.transDistFn mat line sign = some out → Q.specDistFast rel abs_ mat sign line (out.map some) = true) := by
  have hll : Np.dot line line ≠ 0 := by
    obtain ⟨x, hx, hp⟩ := hpos
    exact pref_vector_dot_ne_zero (α := ℚ) line ⟨x, hx, ne_of_gt hp⟩
  obtain ⟨h1, h2, h3⟩ := dist_three_copies_agree (α := ℚ) mat sign line hnn hpos
  have key : ∀ out, Pareto.transDistSq true mat sign line = some out →
      Pareto.specDistFast rel abs_ mat sign line (out.map some) = true := by
    intro out h
    rw [spec_dist_fast_eq]
    exact spec_dist_sound (α := ℚ) rel abs_ mat sign line hrect hn hll out h
  refine ⟨spec_dist_fast_eq (α := ℚ) rel abs_ mat sign line d2, ?_, ?_, ?_⟩
  · intro out h; exact key out (h1 ▸ h)
  · intro out h; exact key out (h2 ▸ h)
  · intro out h; exact key out (h3 ▸ h)


theorem Q_spec_same_vectors_sound (fmat fmat' : List (List ℚ)) (wt : List ℚ) (hp : fmat.Perm fmat')
    (hrect : ∀ r ∈ fmat, r.length = wt.length) :
    Q.specSameVectors (fmat.map (Q.applyWt wt)) (fmat'.map (Q.applyWt wt))
      (Q.efficientMask fmat wt) (Q.efficientMask fmat' wt) = true :=
  spec_same_vectors_sound (α := ℚ) fmat fmat' wt hp hrect

theorem Q_spec_close_translation_sound (rel abs_ : ℚ) (g : Bool) (mat : List (List ℚ)) (t sign line : List ℚ)
    (hrect : ∀ r ∈ mat, r.length = sign.length) (ht : t.length = sign.length)
    (out out' : List ℚ) (h : Q.transDistSq g mat sign line = some out)
    (h' : Q.transDistSq g (mat.map (fun r => List.zipWith (· + ·) r t)) sign line = some out') :
    Q.specCloseAll rel abs_ (out.map some) (out'.map some) = true :=
  spec_close_translation_sound (α := ℚ) rel abs_ g mat t sign line hrect ht out out' h h'

theorem Q_filter_min_iff_not_dominated (F : List (List ℚ)) (n : Nat) (hrect : ∀ r ∈ F, r.length = n) (i : Nat) :
    i ∈ Q.efficientIdx F (List.replicate n (-1)) ↔
      (i < F.length ∧ (∀ j, j < F.length → Q.dominates (F.getD j []) 0 (F.getD i []) 0 = false) ∧
       (∀ j, j < i → F.getD j [] ≠ F.getD i [])) :=
  filter_min_iff_not_dominated (α := ℚ) F n hrect i

theorem Q_dist_preference_scale_invariant (g : Bool) (mat : List (List ℚ)) (sign line : List ℚ) (c : ℚ) (hc : c ≠ 0) :
    Q.transDistSq g mat sign (line.map (fun y => c * y)) = Q.transDistSq g mat sign line :=
  dist_preference_scale_invariant (α := ℚ) g mat sign line c hc

/-- **D190 (before c276d45e).**  The three transformations formed `1/(L·L)` in binary64 on the vector as given.  On the front
    `[[1,2],[2,1],[0,0],[3,3]]` with preference direction `(1, 2)` the exact distances² are `[0, 1/5, 0, 1/5]` for
    EVERY length of the preference vector (`dist_preference_scale_invariant`); evaluated on IEEE doubles (Lean
    `Float`, the same model functions): with `L = 1e-200·(1,2)` `L·L` underflows to 0 and the result is NaN
    (`none`); with `L = 1e170·(1,2)` `L·L = inf`, `1/inf = 0`, the projection vanishes and the first point — which
    lies ON the line — gets the squared distance 5/9 instead of 0; with `L = 1e100·(1,2)` (`L·L` representable)
    the first distance is 0 up to rounding, as it should be. -/
theorem dist_extreme_preference_float_prerepair_counterexample :
    Q.transDistFn [[1, 2], [2, 1], [0, 0], [3, 3]] [1, 2] [1, 1] = some [0, 1/5, 0, 1/5] ∧
    (transDistFnPrerepair (α := Float) [[1, 2], [2, 1], [0, 0], [3, 3]] [1e-200, 2e-200] [1, 1]).isNone = true ∧
    (match transDistFnPrerepair (α := Float) [[1, 2], [2, 1], [0, 0], [3, 3]] [1e170, 2e170] [1, 1] with
      | some (d :: _) => decide (0.5 < d)
      | _ => false) = true ∧
    (match transDistFnPrerepair (α := Float) [[1, 2], [2, 1], [0, 0], [3, 3]] [1e100, 2e100] [1, 1] with
      | some (d :: _) => decide (d < 1e-20)
      | _ => false) = true := by
  decide +kernel

/-- the function as it is now (repaired) on the three preference vectors of the witness above, in binary64: finite, and the
    point on the line gets a distance² below 1e-20 in every case -/
theorem dist_repair_D190_float_example :
    (match transDistFn (α := Float) [[1, 2], [2, 1], [0, 0], [3, 3]] [1e-200, 2e-200] [1, 1] with
      | some [d0, d1, _, _] => decide (d0 < 1e-20) && decide (0.19 < d1) && decide (d1 < 0.21)
      | _ => false) = true ∧
    (match transDistFn (α := Float) [[1, 2], [2, 1], [0, 0], [3, 3]] [1e170, 2e170] [1, 1] with
      | some [d0, d1, _, _] => decide (d0 < 1e-20) && decide (0.19 < d1) && decide (d1 < 0.21)
      | _ => false) = true ∧
    (match transDistFn (α := Float) [[1, 2], [2, 1], [0, 0], [3, 3]] [1e100, 2e100] [1, 1] with
      | some [d0, d1, _, _] => decide (d0 < 1e-20) && decide (0.19 < d1) && decide (d1 < 0.21)
      | _ => false) = true := by
  decide +kernel

/-- D13 on the driver's functions, evaluated by the kernel: NaN before the repair, finite after -/
theorem Q_dist_prerepair_nan_counterexample :
    Q.transDistSq false [[1, 2], [2, 2], [0, 2]] [1, 1] [1, 1] = none ∧
    Q.transDistSq true [[1, 2], [2, 2], [0, 2]] [1, 1] [1, 1] = some [1/8, 1/2, 0] := by
  decide +kernel

/-- rescaling invariance needs POSITIVE factors: reversing one objective (factor −1) changes the
    distances (the caller has to say so through `sign`) -/
theorem dist_sign_flip_counterexample :
    Q.transDistSq true ([[0, 0], [1, 1]].map (fun r => List.zipWith (· * ·) r [-1, 1])) [1, 1] [1, 1] = some [1/2, 1/2] ∧
    Q.transDistSq true [[0, 0], [1, 1]] [1, 1] [1, 1] = some [0, 0] ∧
    Q.transDistSq true [[0, 0], [1, 1]] [-1, 1] [1, 1] = some [1/2, 1/2] := by
  decide +kernel

end Q

/-! ### non-vacuity: the hypotheses are met by concrete non-trivial inputs (evaluated by the kernel) -/

example : efficientIdx (α := Int) [[1, 2], [2, 1], [1, 1], [2, 1], [0, 3]] [1, 1] = [0, 1, 4] := by decide
example : efficientMask (α := Int) [[1, 2], [2, 1], [1, 1], [2, 1], [0, 3]] [1, 1]
    = [true, true, false, false, true] := by decide
example : (∀ r ∈ ([[1, 2], [2, 1], [1, 1]] : List (List Int)), r.length = ([1, 1] : List Int).length) := by decide
example : effVecs (α := Int) [[1, 2], [2, 1], [1, 1], [2, 1], [0, 3]] [1, 1] = [[1, 2], [2, 1], [0, 3]] := by decide
example : efficientIdx (α := Int) [[1, 2], [2, 1], [1, 1]] (List.zipWith (· * ·) [1, -1] [3, 5])
    = efficientIdx (α := Int) [[1, 2], [2, 1], [1, 1]] [1, -1] := by decide
example : dominates (α := Int) [1, 2] 0 [1, 3] 0 = true ∧ dominates (α := Int) [1, 2] 1 [0, 0] 2 = true := by decide


/- distance part: hypotheses of the theorems on concrete rational inputs, and the values the
   driver's functions return on them (kernel evaluation of the core `Rat` code) -/
example : vdot ([1, 2] : List ℚ) [1, 2] ≠ 0 ∧ ([3, 1] : List ℚ).length = ([1, 2] : List ℚ).length := by
  norm_num [vdot]
example : distSq ([1, 2] : List ℚ) [3, 1] = vdot ([3, 1] : List ℚ) [3, 1] - (vdot ([3, 1] : List ℚ) [1, 2]) ^ 2 / vdot ([1, 2] : List ℚ) [1, 2] :=
  dist_pythagoras _ _ rfl (by norm_num [vdot])
example : distSq ([1, 2] : List ℚ) (smul 3 [1, 2]) = 0 :=
  (dist_zero_iff_on_line _ _ (by simp [smul]) (by norm_num [vdot])).mpr ⟨3, rfl⟩
example : (∀ r ∈ ([[5, 2], [7, 2], [6, 2]] : List (List ℚ)), r.length = ([1, -1] : List ℚ).length) ∧
    0 < ([1, -1] : List ℚ).length ∧ Np.dot ([1, 2] : List ℚ) [1, 2] ≠ 0 := by
  refine ⟨by simp, by simp, by norm_num [Np.dot, Np.sum]⟩
example : Pareto.Q.transDistSq true [[5, 2], [7, 2], [6, 2]] [1, -1] [1, 2] = some [0, 4/5, 1/5] := by decide +kernel
example : Pareto.Q.geoDist [[5, 2], [7, 2], [6, 2]] [1, -1] [1, 2] = [0, 4/5, 1/5] := by decide +kernel
example : Pareto.Q.transDistSq true ([[5, 2], [7, 2], [6, 2]].map (fun r => List.zipWith (· + ·) r [1000000, -8388608]))
    [1, -1] [1, 2] = some [0, 4/5, 1/5] := by decide +kernel
example : Pareto.Q.transDistSq true ([[5, 2], [7, 2], [6, 2]].map (fun r => List.zipWith (· * ·) r [3, 1/7]))
    [1, -1] [1, 2] = some [0, 4/5, 1/5] := by decide +kernel
example : Pareto.Q.specDist (1/1000000000) (1/1000000000000) [[5, 2], [7, 2], [6, 2]] [1, -1] [1, 2]
    [some 0, some (4/5), some (1/5)] = true ∧
    Pareto.Q.specDist (1/1000000000) (1/1000000000000) [[5, 2], [7, 2], [6, 2]] [1, -1] [1, 2]
    [some 0, some (4/5), some (1/4)] = false ∧
    Pareto.Q.specDist (1/1000000000) (1/1000000000000) [[5, 2], [7, 2], [6, 2]] [1, -1] [1, 2]
    [some 0, none, some (1/5)] = false := by decide +kernel
example : Pareto.scaleCols (α := Rat) true [[5, 2], [7, 2], [6, 2]] = some [[0, 0], [1, 0], [1/2, 0]] ∧
    Pareto.scaleCols (α := Rat) false [[5, 2], [7, 2], [6, 2]] = none := by decide +kernel
example : (∀ r ∈ ([[5, 2], [7, 2], [6, 2]] : List (List ℚ)), r[1]? = some 2) ∧
    (∃ x ∈ ([0, 2] : List ℚ), x ≠ 0) := by
  refine ⟨by decide, 2, by simp, by norm_num⟩
-- collinear front (every scaled point on the line (1,1)): all distances exactly 0; one objective: 0
example : Pareto.Q.transDistSq true [[0, 10], [1, 12], [4, 18], [2, 14]] [1, 1] [1, 1] = some [0, 0, 0, 0] := by decide +kernel
example : Pareto.Q.transDistSq true [[3], [5], [4]] [-1] [2] = some [0, 0, 0] := by decide +kernel
example : Pareto.Q.dominates [1, 2] 1 [0, 0] 2 = true ∧ Pareto.Q.dominates [0, 0] 2 [1, 2] 1 = false ∧
    Pareto.Q.dominates [1, 2] 2 [0, 0] 2 = false ∧ Pareto.Q.dominates [0, 0] 2 [1, 2] 2 = false := by decide +kernel

/- round 3: index characterisation, Spec oracles, the three transcriptions, weighted sums -/
example : (1 ∈ efficientIdx (α := Int) [[1, 2], [2, 1], [1, 1], [2, 1], [0, 3]] [1, 1]) ∧
    (3 ∉ efficientIdx (α := Int) [[1, 2], [2, 1], [1, 1], [2, 1], [0, 3]] [1, 1]) ∧
    wrow (α := Int) [[1, 2], [2, 1], [1, 1], [2, 1], [0, 3]] [1, 1] 3 = wrow [[1, 2], [2, 1], [1, 1], [2, 1], [0, 3]] [1, 1] 1 := by
  decide
example : (effVecs (α := Int) [[1, 2], [2, 1], [1, 1], [2, 1], [0, 3]] [1, 1]).Nodup := by decide
example : ([[1, 2], [2, 1], [1, 1]] : List (List Int)).Perm [[1, 1], [1, 2], [2, 1]] ∧
    (efficientIdx (α := Int) [[1, 2], [2, 1], [1, 1]] [1, 1]).length = (efficientIdx (α := Int) [[1, 1], [1, 2], [2, 1]] [1, 1]).length := by
  decide
example : efficientIdx (α := Int) [[3], [5], [4], [5]] [1] = [1] ∧ efficientIdx (α := Int) [[3], [5], [4], [3]] [-2] = [0] := by decide
-- the Spec accepts the model's mask, also a mask marking BOTH equal points, and rejects an incomplete / an unsound one
example : specMask (α := Int) [[1, 2], [2, 1], [1, 1], [2, 1], [0, 3]] [1, 1] [true, true, false, false, true] = true ∧
    specMask (α := Int) [[1, 2], [2, 1], [1, 1], [2, 1], [0, 3]] [1, 1] [true, true, false, true, true] = true ∧
    specMask (α := Int) [[1, 2], [2, 1], [1, 1], [2, 1], [0, 3]] [1, 1] [true, false, false, false, true] = false ∧
    specMask (α := Int) [[1, 2], [2, 1], [1, 1], [2, 1], [0, 3]] [1, 1] [true, true, true, false, true] = false ∧
    specMask (α := Int) [[1, 2], [2, 1], [1, 1], [2, 1], [0, 3]] [1, 1] [true, true, false, false] = false := by decide
example : specIdx 5 [true, true, false, false, true] [0, 1, 4] = true ∧ specIdx 5 [true, true, false, false, true] [4, 1, 0] = true ∧
    specIdx 5 [true, true, false, false, true] [0, 1] = false ∧ specIdx 5 [true, true, false, false, true] [0, 1, 4, 4] = false ∧
    specIdx 5 [true, true, false, false, true] [0, 1, 4, 5] = false := by decide
-- integer-valued objectives with a fractional weight (the class of change C19-b1): all three points efficient
example : Pareto.Q.efficientIdx [[1, 3], [2, 2], [3, 1]] [1, 1/4] = [0, 1, 2] ∧
    Pareto.Q.efficientIdx [[1, 3], [2, 2], [3, 1]] [1, 0] = [2] := by decide +kernel
-- weights with a negative entry read in the original objectives: second objective minimised
example : asGood (α := ℚ) [1, -1] [2, 1] [1, 3] ∧ betterSomewhere (α := ℚ) [1, -1] [2, 1] [1, 3] := by
  refine ⟨?_, 0, by simp, Or.inl (by norm_num)⟩
  intro k hk
  have : k = 0 ∨ k = 1 := by simp at hk; omega
  rcases this with rfl | rfl <;> norm_num
-- a tiny positive violation is a violation (the class of change C19-b3)
example : Pareto.Q.dominates [1, 1] 0 [1, 1] (1/1000000000) = true ∧
    Pareto.Q.wantDominates [1, 1] 0 [1, 1] (1/1000000000) = true ∧
    Pareto.Q.dominates [2, 2] (1/1000000000) [1, 1] (5/1000000000) = true ∧
    Pareto.Q.dominates [0, 0] (1/1000000000) [1, 1] 0 = false ∧
    Pareto.Q.specDominates [0, 0] (1/1000000000) [1, 1] 0 true = false := by decide +kernel
example : DomOrder (α := ℚ) [1, 2] 0 [1, 3] (-1) := by
  left
  refine ⟨le_refl _, by norm_num, ?_, 1, by simp, by simp, by norm_num⟩
  intro k h1 h2
  have : k = 0 ∨ k = 1 := by simp at h1; omega
  rcases this with rfl | rfl <;> norm_num
-- the three transcriptions on a front with a constant objective, argument orders of the sources
example : Pareto.Q.transDistCore [[5, 2], [7, 2], [6, 2]] [1, -1] [1, 2] = some [0, 4/5, 1/5] ∧
    Pareto.Q.transDistProb [[5, 2], [7, 2], [6, 2]] [1, 2] [1, -1] = some [0, 4/5, 1/5] ∧
    Pareto.Q.transDistFn [[5, 2], [7, 2], [6, 2]] [1, 2] [1, -1] = some [0, 4/5, 1/5] ∧
    Pareto.Q.transDistCore [[5, 2], [7, 2], [6, 2]] [1, -1] [1, -2] = none ∧
    Pareto.Q.transDistProb [[5, 2], [7, 2], [6, 2]] [0, 0] [1, -1] = none := by decide +kernel
example : (∀ x ∈ ([1, 2] : List ℚ), 0 ≤ x) ∧ (∃ x ∈ ([1, 2] : List ℚ), 0 < x) :=
  ⟨by intro x hx; simp at hx; rcases hx with rfl | rfl <;> norm_num, 1, by simp, by norm_num⟩
example : Pareto.Q.geoDistFast [[5, 2], [7, 2], [6, 2]] [1, -1] [1, 2] = [0, 4/5, 1/5] ∧
    Pareto.Q.specDistFast (1/1000000000) (1/1000000000000) [[5, 2], [7, 2], [6, 2]] [1, -1] [1, 2]
      [some 0, some (4/5), some (1/4)] = false := by decide +kernel
example : Pareto.Q.transDot [[1, 2], [2, 1], [1/2, 0]] [1, -2] = [-3, 0, 1/2] ∧
    Pareto.Q.transSumAxis1 [[1, 2], [2, 1], [1/2, 0]] = [3, 3, 1/2] ∧
    Pareto.Q.transSumAxis0 [[1, 2], [2, 1], [1/2, 0]] = [7/2, 3] ∧ Pareto.Q.transSumAll [[1, 2], [2, 1], [1/2, 0]] = 13/2 ∧
    Pareto.Q.latentSum [1, 2, 1/2] = [7/2] ∧ Pareto.Q.latentDot [1, 2, 1/2] [2, -1, 4] = [2] := by decide +kernel
example : vdot ([1, 2] : List ℚ) [1, 2] ≠ 0 ∧ (∀ x ∈ ([1, 2] : List ℚ), 0 < x) :=
  ⟨by norm_num [vdot], by intro x hx; simp at hx; rcases hx with rfl | rfl <;> norm_num⟩

/- round 4: relational Spec oracles, sum form of the dominance test, preference vectors of any length -/
example : Pareto.Q.specSameVectors [[1, 2], [2, 1], [1, 1], [2, 1]] [[2, 1], [1, 1], [1, 2], [2, 1]]
      [true, true, false, false] [true, false, true, false] = true ∧
    -- marking both copies of a duplicated efficient vector is the same SET
    Pareto.Q.specSameVectors [[1, 2], [2, 1], [1, 1], [2, 1]] [[2, 1], [1, 1], [1, 2], [2, 1]]
      [true, true, false, false] [true, false, true, true] = true ∧
    Pareto.Q.specSameVectors [[1, 2], [2, 1], [1, 1], [2, 1]] [[2, 1], [1, 1], [1, 2], [2, 1]]
      [true, true, false, false] [true, true, true, false] = false := by decide +kernel
example : ([[1, 2], [2, 1], [1, 1], [2, 1]] : List (List ℚ)).Perm [[2, 1], [1, 1], [1, 2], [2, 1]] := by decide
example : Pareto.Q.specCloseAll (1/1000000000) (1/1000000000) [some 1, some (1/2)] [some 1, some (1/2 + 1/100000000000)] = true ∧
    Pareto.Q.specCloseAll (1/1000000000) (1/1000000000) [some 1, some (1/2)] [some 1, some (1/2 + 1/1000)] = false ∧
    Pareto.Q.specCloseAll (1/1000000000) (1/1000000000) [some 1, none] [some 1, none] = false ∧
    Pareto.Q.specCloseAll (1/1000000000) (1/1000000000) [some 1] [some 1, some 1] = false := by decide +kernel
-- in exact arithmetic the sum form agrees with the predicate on the very pair on which binary64 disagrees
example : Pareto.dominatesSumForm (α := Rat) [-3000000000000000, 1] 0 [-3000000000000000, 5/4] 0 = true ∧
    Pareto.Q.dominates [-3000000000000000, 1] 0 [-3000000000000000, 5/4] 0 = true ∧
    ([-3000000000000000, 1] : List ℚ).length = ([-3000000000000000, 5/4] : List ℚ).length := by decide +kernel
example : ((2:ℚ) ^ 400 ≠ 0) ∧ smul (3:ℚ) [1, 2] = [3, 6] := ⟨by positivity, by norm_num [smul]⟩
example : Pareto.Q.transDistSq true [[1, 2], [2, 1], [0, 0], [3, 3]] [1, 1] [3, 6] =
    Pareto.Q.transDistSq true [[1, 2], [2, 1], [0, 0], [3, 3]] [1, 1] [1, 2] := by decide +kernel
-- all objectives minimised: the filter keeps [1,2] (first copy), [2,1]; [2,2] and the second [1,2] go; `dominates` agrees
example : Pareto.Q.efficientIdx [[1, 2], [2, 2], [2, 1], [1, 2]] (List.replicate 2 (-1)) = [0, 2] ∧
    Pareto.Q.dominates [1, 2] 0 [2, 2] 0 = true ∧ Pareto.Q.dominates [1, 2] 0 [2, 1] 0 = false ∧
    Pareto.Q.dominates [1, 2] 0 [1, 2] 0 = false ∧
    (∀ r ∈ ([[1, 2], [2, 2], [2, 1], [1, 2]] : List (List ℚ)), r.length = 2) := by decide +kernel
example : Pareto.colMax ((([3, 6] : List ℚ)).map Pareto.absv) ≠ 0 ∧
    Pareto.transDistFn (α := Rat) [[1, 2], [2, 1], [0, 0], [3, 3]] [3, 6] [1, 1] = some [0, 1/5, 0, 1/5] ∧
    Pareto.transDistFnPrerepair (α := Rat) [[1, 2], [2, 1], [0, 0], [3, 3]] [3, 6] [1, 1] = some [0, 1/5, 0, 1/5] ∧
    (∃ x ∈ ([3, 6] : List ℚ), x ≠ 0) := by
  decide +kernel
example : efficientIdx (α := Int) [[7, 7]] [1, -1] = [0] ∧ efficientMask (α := Int) ([] : List (List Int)) [1, -1] = [] := by decide

end C19
