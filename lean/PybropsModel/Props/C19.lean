/-
C19 — Pareto-front identification and front ranking are exact.
Property theorems only (helper lemmas live in Lemmas/ParetoLoop, ParetoVec, ParetoSet for the filter
and the dominance predicate, Lemmas/ParetoDist, ParetoCols, ParetoGeo, ParetoSpec for the distances).

Model: PybropsModel/Model/Pareto.lean (`efficientIdx`, `efficientMask` transcribe
pybrops/core/util/pareto.py:is_pareto_efficient; `dominates` transcribes pymoo_addon.dominates;
`transDistSq` transcribes the three distance-to-preference-vector transformations on squared
distances; `geoDist` / `specDist` are the geometric definition and the Spec the driver evaluates;
`Pareto.Q.*` are the constants the driver executes).

Sentence 1 of the property: `filter_sound`, `filter_complete`, `filter_indices`, `mask_eq_index`,
`efficient_vectors_char`, `perm_invariant_set`, `rescale_invariant`.
Sentence 2 (dominance predicate): `dominates_feasible`, `dominates_feasible_eq_strictDom`,
`dominates_infeasible(_iff)`, `dominates_feasibility_first`, `dominates_irrefl`, `dominates_asymm`,
`dominates_trans`, `dominates_infeasible_total`, `dominates_infeasible_negtrans`.
Sentence 3 (distances): equal their geometric definitions — `dist_geometric_def`,
`dist_residual_orthogonal`, `dist_pythagoras`, `dist_nonneg`, `dist_zero_iff_on_line`,
`dist_eq_geometric_def`, `scaled_in_unit_interval`, `scaled_constant_zero`; invariant to translation —
`dist_translation_invariant` (and to positive rescaling: `dist_rescale_invariant`,
`dist_sign_flip_counterexample`); finite when an objective is constant — `dist_finite_when_constant`,
`dist_finite_one_per_point`, against `dist_prerepair_nan_of_constant` / `…_counterexample` (D13, repaired).
Spec oracle: `spec_dist_sound`, `spec_dist_rejects`.  Section `Q`: the same statements on the driver's constants.
-/
import PybropsModel.Lemmas.ParetoSet
import PybropsModel.Lemmas.ParetoSpec
set_option linter.unusedSectionVars false
set_option autoImplicit false

namespace C19
open Pareto

section filter
variable {α : Type} [Mul α] [LinearOrder α]

/-- **Soundness.**  A point is marked efficient only if no other point is at least as good in
    every weighted objective and strictly better in one. -/
theorem filter_sound (fmat : List (List α)) (wt : List α) (hrect : ∀ r ∈ fmat, r.length = wt.length)
    (i : Nat) (hi : i ∈ efficientIdx fmat wt) (j : Nat) (hj : j < fmat.length) :
    strictDom (wrow fmat wt j) (wrow fmat wt i) = false := by
  obtain ⟨h1, _, h3⟩ := filter_facts fmat wt hrect
  rw [efficientIdx_eq] at hi
  obtain ⟨x, hx, rfl⟩ := List.mem_map.mp hi
  have hxr := h1 x hx
  obtain ⟨_, hxv⟩ := (mem_rows fmat wt x).mp hxr
  have hy : (j, wrow fmat wt j) ∈ rows fmat wt := (mem_rows fmat wt _).mpr ⟨hj, rfl⟩
  by_contra hs
  have hs : strictDom (wrow fmat wt j) (wrow fmat wt x.1) = true := by simpa using hs
  have hnw := strictDom_not_weakDom _ _ hs
  -- strictDom j x gives weakDom x j, so by the filter weakDom j x: contradiction
  have hwxj : wdI x (j, wrow fmat wt j) = true := by
    unfold strictDom at hs
    simp only [Bool.and_eq_true] at hs
    show weakDom x.2 (wrow fmat wt j) = true
    rw [hxv]; exact hs.1
  have := h3 x hx _ hy hwxj
  have : weakDom (wrow fmat wt j) x.2 = true := this
  rw [hxv] at this
  rw [this] at hnw
  exact Bool.noConfusion hnw

/-- **Completeness.**  Every unmarked point is equalled or dominated by a marked one. -/
theorem filter_complete (fmat : List (List α)) (wt : List α) (hrect : ∀ r ∈ fmat, r.length = wt.length)
    (i : Nat) (hi : i < fmat.length) (hni : i ∉ efficientIdx fmat wt) :
    ∃ j ∈ efficientIdx fmat wt, weakDom (wrow fmat wt i) (wrow fmat wt j) = true := by
  obtain ⟨h1, h2, _⟩ := filter_facts fmat wt hrect
  have hr : (i, wrow fmat wt i) ∈ rows fmat wt := (mem_rows fmat wt _).mpr ⟨hi, rfl⟩
  rw [efficientIdx_eq] at hni ⊢
  have hnot : (i, wrow fmat wt i) ∉ paretoGo wdI [] (rows fmat wt) := by
    intro h; exact hni (List.mem_map.mpr ⟨_, h, rfl⟩)
  obtain ⟨s, hs, hws⟩ := h2 _ hr hnot
  refine ⟨s.1, List.mem_map.mpr ⟨s, hs, rfl⟩, ?_⟩
  obtain ⟨_, hsv⟩ := (mem_rows fmat wt s).mp (h1 s hs)
  have : weakDom (wrow fmat wt i) s.2 = true := hws
  rw [hsv] at this
  exact this

/-- efficient indices are valid, duplicate-free and keep the input order -/
theorem filter_indices (fmat : List (List α)) (wt : List α) :
    (efficientIdx fmat wt).Sublist (List.range fmat.length) := by
  rw [efficientIdx_eq]
  have hs := paretoGo_sublist (wdI (α := α)) (rows fmat wt).length [] (rows fmat wt) rfl
  simp only [List.nil_append] at hs
  have := hs.map Prod.fst
  have hr : ((rows fmat wt).map Prod.fst) = List.range fmat.length := by
    simp only [rows, List.map_map]
    have : (Prod.fst ∘ fun ri : List α × Nat => (ri.2, ri.1)) = Prod.snd := rfl
    rw [this]
    rw [List.zipIdx_eq_zip_range', List.map_snd_zip (by simp), List.range_eq_range', List.length_map]
  rw [hr] at this
  exact this

/-- **Mask and index forms agree.** -/
theorem mask_eq_index (fmat : List (List α)) (wt : List α) (i : Nat) (hi : i < fmat.length) :
    (efficientMask fmat wt)[i]? = some (decide (i ∈ efficientIdx fmat wt)) := by
  unfold efficientMask
  simp [hi]

theorem mask_length (fmat : List (List α)) (wt : List α) :
    (efficientMask fmat wt).length = fmat.length := by
  simp [efficientMask]

/-- the objective vectors marked efficient -/
def effVecs (fmat : List (List α)) (wt : List α) : List (List α) :=
  (efficientIdx fmat wt).map (wrow fmat wt)

/-- **Set characterisation.**  The set of efficient objective vectors is exactly the set of maximal
    elements of the set of weighted input vectors — it mentions the input only through membership. -/
theorem efficient_vectors_char (fmat : List (List α)) (wt : List α)
    (hrect : ∀ r ∈ fmat, r.length = wt.length) (v : List α) :
    v ∈ effVecs fmat wt ↔
      (v ∈ fmat.map (applyWt wt) ∧ ∀ u ∈ fmat.map (applyWt wt), weakDom v u = true → weakDom u v = true) := by
  obtain ⟨h1, h2, h3⟩ := filter_facts fmat wt hrect
  have memV : ∀ u, u ∈ fmat.map (applyWt wt) ↔ ∃ i, i < fmat.length ∧ u = wrow fmat wt i := by
    intro u
    simp only [List.mem_map, wrow]
    constructor
    · rintro ⟨r, hr, rfl⟩
      obtain ⟨i, hi, rfl⟩ := List.mem_iff_getElem.mp hr
      exact ⟨i, hi, by simp [List.getD_eq_getElem?_getD, List.getElem?_eq_getElem hi]⟩
    · rintro ⟨i, hi, rfl⟩
      exact ⟨fmat[i], List.getElem_mem hi, by simp [List.getD_eq_getElem?_getD, List.getElem?_eq_getElem hi]⟩
  unfold effVecs
  rw [efficientIdx_eq]
  constructor
  · intro hv
    obtain ⟨i0, hi0, rfl⟩ := List.mem_map.mp hv
    obtain ⟨x, hx, rfl⟩ := List.mem_map.mp hi0
    have hxr := h1 x hx
    obtain ⟨hlt, hxv⟩ := (mem_rows fmat wt x).mp hxr
    refine ⟨(memV _).mpr ⟨x.1, hlt, rfl⟩, ?_⟩
    · intro u hu hvu
      obtain ⟨j, hj, rfl⟩ := (memV u).mp hu
      have hy : (j, wrow fmat wt j) ∈ rows fmat wt := (mem_rows fmat wt _).mpr ⟨hj, rfl⟩
      have := h3 x hx _ hy (by
        show weakDom x.2 (wrow fmat wt j) = true
        rw [hxv]; exact hvu)
      have : weakDom (wrow fmat wt j) x.2 = true := this
      rw [hxv] at this
      exact this
  · rintro ⟨hv, hmax⟩
    obtain ⟨i, hi, rfl⟩ := (memV v).mp hv
    have hr : (i, wrow fmat wt i) ∈ rows fmat wt := (mem_rows fmat wt _).mpr ⟨hi, rfl⟩
    by_cases hin : (i, wrow fmat wt i) ∈ paretoGo wdI [] (rows fmat wt)
    · exact List.mem_map.mpr ⟨i, List.mem_map.mpr ⟨_, hin, rfl⟩, rfl⟩
    · obtain ⟨s, hs, hws⟩ := h2 _ hr hin
      have hsr := h1 s hs
      obtain ⟨hslt, hsv⟩ := (mem_rows fmat wt s).mp hsr
      have hws' : weakDom (wrow fmat wt i) (wrow fmat wt s.1) = true := by
        have : weakDom (wrow fmat wt i) s.2 = true := hws
        rw [hsv] at this; exact this
      have hsu : wrow fmat wt s.1 ∈ fmat.map (applyWt wt) := (memV _).mpr ⟨s.1, hslt, rfl⟩
      have hback := hmax _ hsu hws'
      have hlen : (wrow fmat wt i).length = (wrow fmat wt s.1).length := by
        have a := rows_length_eq fmat wt hrect _ hr
        have b := rows_length_eq fmat wt hrect _ hsr
        rw [hsv] at b
        exact a.trans b.symm
      exact List.mem_map.mpr ⟨s.1, List.mem_map.mpr ⟨s, hs, rfl⟩, (weakDom_antisymm _ _ hlen hws' hback).symm⟩

/-- **Order independence.**  Permuting the points does not change the set of efficient vectors. -/
theorem perm_invariant_set (fmat fmat' : List (List α)) (wt : List α) (hp : fmat.Perm fmat')
    (hrect : ∀ r ∈ fmat, r.length = wt.length) (v : List α) :
    v ∈ effVecs fmat wt ↔ v ∈ effVecs fmat' wt := by
  have hrect' : ∀ r ∈ fmat', r.length = wt.length := fun r hr => hrect r (hp.mem_iff.mpr hr)
  rw [efficient_vectors_char fmat wt hrect, efficient_vectors_char fmat' wt hrect']
  have hm : ∀ u, u ∈ fmat.map (applyWt wt) ↔ u ∈ fmat'.map (applyWt wt) :=
    fun u => (hp.map _).mem_iff
  constructor
  · rintro ⟨h1, h2⟩; exact ⟨(hm v).mp h1, fun u hu => h2 u ((hm u).mpr hu)⟩
  · rintro ⟨h1, h2⟩; exact ⟨(hm v).mpr h1, fun u hu => h2 u ((hm u).mp hu)⟩

end filter

section rescale
variable {α : Type} [CommRing α] [LinearOrder α] [IsStrictOrderedRing α]

/-- **Positive rescaling of objectives** leaves the filter's answer (indices, hence mask and
    vectors up to the same rescaling) unchanged. -/
theorem rescale_invariant (fmat : List (List α)) (wt cs : List α)
    (hrect : ∀ r ∈ fmat, r.length = wt.length) (hcs : cs.length = wt.length)
    (hpos : ∀ c ∈ cs, 0 < c) :
    efficientIdx fmat (List.zipWith (· * ·) wt cs) = efficientIdx fmat wt := by
  rw [efficientIdx_eq, efficientIdx_eq]
  let g : Nat × List α → Nat × List α := fun p => (p.1, List.zipWith (· * ·) p.2 cs)
  have hrows : rows fmat (List.zipWith (· * ·) wt cs) = (rows fmat wt).map g := by
    simp only [rows, List.map_map, List.zipIdx_map]
    apply List.map_congr_left
    intro ri _
    simp only [Function.comp, g, Prod.map, id, applyWt]
    congr 1
    apply List.ext_getElem
    · simp [List.length_zipWith, min_assoc]
    · intro i h1 h2
      simp only [List.getElem_zipWith]
      ring
  rw [hrows]
  have key := paretoGo_map g (wdI (α := α)) (wdI (α := α)) (rows fmat wt).length [] (rows fmat wt) rfl (by
    intro a ha b hb
    simp only [List.nil_append] at ha hb
    have la := rows_length_eq fmat wt hrect a ha
    have lb := rows_length_eq fmat wt hrect b hb
    show weakDom (List.zipWith (· * ·) a.2 cs) (List.zipWith (· * ·) b.2 cs) = weakDom a.2 b.2
    rw [Bool.eq_iff_iff, weakDom_iff, weakDom_iff]
    constructor
    · intro h i h1 h2
      have hc : i < cs.length := by omega
      have := h i (by simp [List.length_zipWith]; omega) (by simp [List.length_zipWith]; omega)
      simp only [List.getElem_zipWith] at this
      exact le_of_mul_le_mul_right this (hpos _ (List.getElem_mem hc))
    · intro h i h1 h2
      simp only [List.length_zipWith, lt_min_iff] at h1 h2
      simp only [List.getElem_zipWith]
      exact mul_le_mul_of_nonneg_right (h i h1.1 h2.1) (hpos _ (List.getElem_mem h1.2)).le)
  simp only [List.map_nil] at key
  rw [key, List.map_map]
  apply List.map_congr_left
  intro p _
  rfl

end rescale

/-! ### the dominance predicate of the memetic optimisers -/
section dom
variable {α : Type} [LinearOrder α] [Zero α]

/-- both feasible: plain Pareto dominance (minimisation) -/
theorem dominates_feasible (o1 o2 : List α) (c1 c2 : α) (h1 : c1 ≤ 0) (h2 : c2 ≤ 0) :
    dominates o1 c1 o2 c2 =
      ((List.zip o1 o2).all (fun ab => decide (ab.1 ≤ ab.2)) &&
       (List.zip o1 o2).any (fun ab => decide (ab.1 < ab.2))) := by
  simp [dominates, h1, h2]

/-- otherwise: ordered by constraint violation only -/
theorem dominates_infeasible (o1 o2 : List α) (c1 c2 : α) (h : ¬ (c1 ≤ 0 ∧ c2 ≤ 0)) :
    dominates o1 c1 o2 c2 = decide (c1 < c2) := by
  simp only [dominates]
  rw [if_neg]
  simpa using h

/-- a feasible point dominates every infeasible one, never the other way round -/
theorem dominates_feasibility_first (o1 o2 : List α) (c1 c2 : α) (h1 : c1 ≤ 0) (h2 : 0 < c2) :
    dominates o1 c1 o2 c2 = true ∧ dominates o2 c2 o1 c1 = false := by
  have hn : ¬ (c1 ≤ 0 ∧ c2 ≤ 0) := fun h => absurd h.2 (not_le.mpr h2)
  have hn' : ¬ (c2 ≤ 0 ∧ c1 ≤ 0) := fun h => absurd h.1 (not_le.mpr h2)
  rw [dominates_infeasible _ _ _ _ hn, dominates_infeasible _ _ _ _ hn']
  simp only [decide_eq_true_eq, decide_eq_false_iff_not, not_lt]
  exact ⟨lt_of_le_of_lt h1 h2, le_trans h1 h2.le⟩

theorem dominates_irrefl (o : List α) (c : α) : dominates o c o c = false := by
  by_cases h : c ≤ 0
  · rw [dominates_feasible _ _ _ _ h h]
    have : (List.zip o o).any (fun ab => decide (ab.1 < ab.2)) = false := by
      by_contra hne
      have hne : (List.zip o o).any (fun ab => decide (ab.1 < ab.2)) = true := by simpa using hne
      obtain ⟨i, h1, _, hlt⟩ := (any_lt_iff o o).mp hne
      exact lt_irrefl _ hlt
    simp [this]
  · rw [dominates_infeasible _ _ _ _ (fun hh => h hh.1)]
    simp

private theorem pareto_strict_trans (a b c : List α) (h1 : a.length = b.length) (h2 : b.length = c.length)
    (hab : ((List.zip a b).all (fun ab => decide (ab.1 ≤ ab.2)) && (List.zip a b).any (fun ab => decide (ab.1 < ab.2))) = true)
    (hbc : ((List.zip b c).all (fun ab => decide (ab.1 ≤ ab.2)) && (List.zip b c).any (fun ab => decide (ab.1 < ab.2))) = true) :
    ((List.zip a c).all (fun ab => decide (ab.1 ≤ ab.2)) && (List.zip a c).any (fun ab => decide (ab.1 < ab.2))) = true := by
  rw [Bool.and_eq_true, all_le_iff, any_lt_iff] at *
  obtain ⟨lab, i, ia, ib, hlt⟩ := hab
  obtain ⟨lbc, _⟩ := hbc
  refine ⟨fun k ka kc => le_trans (lab k ka (h1 ▸ ka)) (lbc k (h1 ▸ ka) kc), i, ia, h2 ▸ ib, ?_⟩
  exact lt_of_lt_of_le hlt (lbc i ib (h2 ▸ ib))

/-- `dominates` is transitive on objective vectors of one length: together with irreflexivity it is
    a strict partial order that ranks feasible points by Pareto dominance and infeasible ones by
    constraint violation. -/
theorem dominates_trans (o1 o2 o3 : List α) (c1 c2 c3 : α)
    (hl1 : o1.length = o2.length) (hl2 : o2.length = o3.length)
    (h12 : dominates o1 c1 o2 c2 = true) (h23 : dominates o2 c2 o3 c3 = true) :
    dominates o1 c1 o3 c3 = true := by
  by_cases f1 : c1 ≤ 0 <;> by_cases f2 : c2 ≤ 0 <;> by_cases f3 : c3 ≤ 0
  · rw [dominates_feasible _ _ _ _ f1 f2] at h12
    rw [dominates_feasible _ _ _ _ f2 f3] at h23
    rw [dominates_feasible _ _ _ _ f1 f3]
    exact pareto_strict_trans o1 o2 o3 hl1 hl2 h12 h23
  · rw [dominates_infeasible _ _ _ _ (fun h => f3 h.2)]
    simp only [decide_eq_true_eq]
    exact lt_of_le_of_lt f1 (not_le.mp f3)
  · rw [dominates_infeasible _ _ _ _ (fun h => f2 h.1)] at h23
    simp only [decide_eq_true_eq] at h23
    exact absurd (lt_of_lt_of_le h23 f3) (fun h => f2 h.le)
  · rw [dominates_infeasible _ _ _ _ (fun h => f2 h.2)] at h12
    rw [dominates_infeasible _ _ _ _ (fun h => f2 h.1)] at h23
    rw [dominates_infeasible _ _ _ _ (fun h => f3 h.2)]
    simp only [decide_eq_true_eq] at *
    exact lt_trans h12 h23
  · rw [dominates_infeasible _ _ _ _ (fun h => f1 h.1)] at h12
    simp only [decide_eq_true_eq] at h12
    exact absurd (lt_of_lt_of_le h12 f2) (fun h => f1 h.le)
  · rw [dominates_infeasible _ _ _ _ (fun h => f1 h.1)] at h12
    simp only [decide_eq_true_eq] at h12
    exact absurd (lt_of_lt_of_le h12 f2) (fun h => f1 h.le)
  · rw [dominates_infeasible _ _ _ _ (fun h => f1 h.1)] at h12
    rw [dominates_infeasible _ _ _ _ (fun h => f2 h.1)] at h23
    simp only [decide_eq_true_eq] at *
    exact absurd (lt_of_lt_of_le (lt_trans h12 h23) f3) (fun h => f1 h.le)
  · rw [dominates_infeasible _ _ _ _ (fun h => f1 h.1)] at h12
    rw [dominates_infeasible _ _ _ _ (fun h => f2 h.1)] at h23
    rw [dominates_infeasible _ _ _ _ (fun h => f1 h.1)]
    simp only [decide_eq_true_eq] at *
    exact lt_trans h12 h23

end dom


/-! ### the dominance predicate: asymmetry, link to the filter's test, infeasible points by `cv` -/
section dom2
variable {α : Type} [LinearOrder α] [Zero α]

/-- `dominates` is asymmetric (no length hypothesis needed) -/
theorem dominates_asymm (o1 o2 : List α) (c1 c2 : α) (h : dominates o1 c1 o2 c2 = true) :
    dominates o2 c2 o1 c1 = false := by
  by_cases f : c1 ≤ 0 ∧ c2 ≤ 0
  · rw [dominates_feasible _ _ _ _ f.1 f.2] at h
    rw [dominates_feasible _ _ _ _ f.2 f.1]
    rw [Bool.and_eq_true, all_le_iff, any_lt_iff] at h
    obtain ⟨_, i, h1, h2, hlt⟩ := h
    have : (List.zip o2 o1).all (fun ab => decide (ab.1 ≤ ab.2)) = false := by
      by_contra hne
      have hne : (List.zip o2 o1).all (fun ab => decide (ab.1 ≤ ab.2)) = true := by simpa using hne
      rw [all_le_iff] at hne
      exact absurd (hne i h2 h1) (not_le.mpr hlt)
    rw [this]; rfl
  · rw [dominates_infeasible _ _ _ _ f] at h
    rw [dominates_infeasible _ _ _ _ (fun g => f ⟨g.2, g.1⟩)]
    simp only [decide_eq_true_eq, decide_eq_false_iff_not, not_lt] at h ⊢
    exact h.le

/-- on feasible points `dominates` (minimisation) is exactly the strict Pareto dominance test the
    filter's Spec uses (`strictDom`, maximisation) with the arguments exchanged -/
theorem dominates_feasible_eq_strictDom (o1 o2 : List α) (c1 c2 : α) (h1 : c1 ≤ 0) (h2 : c2 ≤ 0) :
    dominates o1 c1 o2 c2 = strictDom o2 o1 := by
  rw [dominates_feasible _ _ _ _ h1 h2, Bool.eq_iff_iff, Bool.and_eq_true, all_le_iff, any_lt_iff,
    strictDom_iff, weakDom_iff]
  constructor
  · rintro ⟨ha, i, h1, h2, hlt⟩; exact ⟨ha, i, h2, h1, hlt⟩
  · rintro ⟨ha, i, h1, h2, hlt⟩; exact ⟨ha, i, h2, h1, hlt⟩

/-- as soon as one point is infeasible the predicate is the strict order of the violations … -/
theorem dominates_infeasible_iff (o1 o2 : List α) (c1 c2 : α) (h : 0 < c1 ∨ 0 < c2) :
    dominates o1 c1 o2 c2 = true ↔ c1 < c2 := by
  rw [dominates_infeasible _ _ _ _ (by
    rintro ⟨a, b⟩
    rcases h with h | h
    · exact absurd a (not_le.mpr h)
    · exact absurd b (not_le.mpr h))]
  simp

/-- … hence infeasible points are totally pre-ordered by constraint violation: of two of them
    exactly one dominates, unless their violations are equal (then neither does) -/
theorem dominates_infeasible_total (o1 o2 : List α) (c1 c2 : α) (h1 : 0 < c1) (_h2 : 0 < c2) :
    (dominates o1 c1 o2 c2 = true ∧ dominates o2 c2 o1 c1 = false ∧ c1 ≠ c2) ∨
    (dominates o1 c1 o2 c2 = false ∧ dominates o2 c2 o1 c1 = true ∧ c1 ≠ c2) ∨
    (dominates o1 c1 o2 c2 = false ∧ dominates o2 c2 o1 c1 = false ∧ c1 = c2) := by
  have e12 := dominates_infeasible_iff o1 o2 c1 c2 (Or.inl h1)
  have e21 := dominates_infeasible_iff o2 o1 c2 c1 (Or.inr h1)
  rcases lt_trichotomy c1 c2 with h | h | h
  · left
    refine ⟨e12.mpr h, ?_, h.ne⟩
    rw [← Bool.not_eq_true, e21]; exact not_lt.mpr h.le
  · right; right
    refine ⟨?_, ?_, h⟩
    · rw [← Bool.not_eq_true, e12, h]; exact lt_irrefl _
    · rw [← Bool.not_eq_true, e21, h]; exact lt_irrefl _
  · right; left
    refine ⟨?_, e21.mpr h, h.ne'⟩
    rw [← Bool.not_eq_true, e12]; exact not_lt.mpr h.le

/-- negative transitivity among infeasible points (what makes "neither dominates" an equivalence,
    i.e. the order a total pre-order) -/
theorem dominates_infeasible_negtrans (o1 o2 o3 : List α) (c1 c2 c3 : α) (h1 : 0 < c1) (h2 : 0 < c2)
    (_h3 : 0 < c3) (h12 : dominates o1 c1 o2 c2 = false) (h23 : dominates o2 c2 o3 c3 = false) :
    dominates o1 c1 o3 c3 = false := by
  rw [← Bool.not_eq_true, dominates_infeasible_iff _ _ _ _ (Or.inl h1)] at h12 ⊢
  rw [← Bool.not_eq_true, dominates_infeasible_iff _ _ _ _ (Or.inl h2)] at h23
  exact not_lt.mpr ((not_lt.mp h23).trans (not_lt.mp h12))

end dom2

/-! ### the distance-to-preference-vector transformations

`transDistSq guarded mat sign line` transcribes the three functions (squared distances; `sign` =
`objfn_minmax` / `vec_wt` / `wt` multiplies the front first, `line` = the vector projected on);
since fix 1939b469 all three carry the zero-range guard, i.e. run with `guarded = true`. -/
section dist
variable {α : Type} [Field α] [LinearOrder α] [IsStrictOrderedRing α]

/-- **Geometric definition, one point.**  The code's `‖P - (1/(L·L))(P·L) L‖²` written with list
    sums is the squared norm of `P - proj_L P`, `proj_L P = ((P·L)/(L·L)) L` (no hypothesis). -/
theorem dist_geometric_def (l p : List α) :
    distSq l p = normSq (vsub p (proj l p)) ∧
    distSq l p = ((List.zipWith (fun x y => x - (vdot p l / vdot l l) * y) p l).map (fun d => d * d)).sum := by
  have h := distSq_eq_normSq l p
  rw [resid_eq_vsub_proj] at h
  refine ⟨h, ?_⟩
  rw [h]
  unfold normSq vsub proj smul
  rw [List.zipWith_map_right]

/-- the residual `P - proj_L P` is orthogonal to the line -/
theorem dist_residual_orthogonal (l p : List α) (hlen : p.length = l.length) (hll : vdot l l ≠ 0) :
    vdot (vsub p (proj l p)) l = 0 := by
  have : vsub p (proj l p) = List.zipWith (fun x y => x - (vdot p l / vdot l l) * y) p l := by
    unfold vsub proj smul; rw [List.zipWith_map_right]
  rw [this, resid_dot _ p l hlen]
  field_simp
  ring

/-- Pythagoras form: `dist² = P·P - (P·L)²/(L·L)` -/
theorem dist_pythagoras (l p : List α) (hlen : p.length = l.length) (hll : vdot l l ≠ 0) :
    distSq l p = vdot p p - (vdot p l) ^ 2 / vdot l l := by
  rw [(dist_geometric_def l p).2]
  have := sum_resid_sq (vdot p l / vdot l l) p l hlen
  unfold normSq at this
  rw [this]
  field_simp
  ring

/-- squared distances are non-negative (so the code's `norm` is a real number) -/
theorem dist_nonneg (l p : List α) : 0 ≤ distSq l p := by
  rw [(dist_geometric_def l p).1]; exact normSq_nonneg _

/-- the distance is exactly 0 iff the (scaled) point lies on the preference line -/
theorem dist_zero_iff_on_line (l p : List α) (hlen : p.length = l.length) (hll : vdot l l ≠ 0) :
    distSq l p = 0 ↔ ∃ c : α, p = smul c l := by
  rw [(dist_geometric_def l p).1, normSq_eq_zero_iff]
  constructor
  · intro h
    refine ⟨vdot p l / vdot l l, ?_⟩
    apply List.ext_getElem
    · simp [smul, hlen]
    intro i h1 h2
    have hi : i < l.length := by simpa [smul] using h2
    have hm : p[i] - (vdot p l / vdot l l) * l[i] ∈ vsub p (proj l p) := by
      unfold vsub proj smul
      rw [List.mem_iff_getElem]
      exact ⟨i, by simp [hlen, hi], by simp⟩
    have := h _ hm
    simp only [smul, List.getElem_map]
    exact sub_eq_zero.mp this
  · rintro ⟨c, rfl⟩ x hx
    have hpl : vdot (smul c l) l = c * vdot l l := by
      unfold smul vdot
      rw [List.zipWith_map_left]
      have : List.zipWith (fun a b => c * a * b) l l = (List.zipWith (· * ·) l l).map (fun z => c * z) := by
        rw [List.map_zipWith]; congr 1; funext a b; ring
      rw [this, List.sum_map_mul_left, List.map_id']
    unfold vsub proj at hx
    rw [hpl, mul_div_assoc, div_self hll, mul_one] at hx
    unfold smul at hx
    rw [List.zipWith_map_left, List.zipWith_map_right, List.zipWith_self] at hx
    obtain ⟨y, _, rfl⟩ := List.mem_map.mp hx
    ring

/-- the property's quantifier ("non-zero preference vectors") gives the hypothesis `L·L ≠ 0` used below -/
theorem pref_vector_dot_ne_zero (line : List α) (h : ∃ x ∈ line, x ≠ 0) : Np.dot line line ≠ 0 := by
  rw [np_dot_eq, vdot_self]
  intro h0
  obtain ⟨x, hx, hne⟩ := h
  exact hne ((normSq_eq_zero_iff line).mp h0 x hx)

/-- **Geometric definition, whole transformation.**  On a rectangular front with at least one
    objective the three functions return, for every point, the squared distance between the
    min–max scaled point (`(x - lo)/(hi - lo)`, `0` for a constant objective) and its projection on
    the preference line — the row-by-row definition `Pareto.geoDist` that the Spec oracle evaluates. -/
theorem dist_eq_geometric_def (mat : List (List α)) (sign line : List α)
    (hrect : ∀ r ∈ mat, r.length = sign.length) (hn : 0 < sign.length) (hll : Np.dot line line ≠ 0) :
    transDistSq true mat sign line = some (geoDist mat sign line) := by
  unfold transDistSq geoDist
  have h0 : (Np.dot line line == 0) = false := by simpa using hll
  rw [h0]
  simp only [Bool.false_eq_true, if_false]
  rw [scaleCols_guarded_geo _ sign.length hn (rect_zipWith (f := (· * ·)) mat sign hrect)]
  simp only [List.map_map]
  congr 1
  apply List.map_congr_left
  intro r _
  exact distSq_eq_geoDistSq _ _

/-- **Finite when an objective is constant.**  With the zero-range guard the transformation returns
    a value for EVERY matrix (constant objectives, one point, ragged input included) … -/
theorem dist_finite_when_constant (mat : List (List α)) (sign line : List α) (hll : Np.dot line line ≠ 0) :
    ∃ out, transDistSq true mat sign line = some out := by
  unfold transDistSq
  have h0 : (Np.dot line line == 0) = false := by simpa using hll
  rw [h0, scaleCols_guarded]
  exact ⟨_, rfl⟩

/-- … one value per point, each a non-negative number -/
theorem dist_finite_one_per_point (mat : List (List α)) (sign line : List α)
    (hrect : ∀ r ∈ mat, r.length = sign.length) (hn : 0 < sign.length) (hll : Np.dot line line ≠ 0) :
    ∃ out, transDistSq true mat sign line = some out ∧ out.length = mat.length ∧ ∀ d ∈ out, 0 ≤ d := by
  refine ⟨_, dist_eq_geometric_def mat sign line hrect hn hll, by simp [geoDist], ?_⟩
  intro d hd
  simp only [geoDist, List.map_map, List.mem_map, Function.comp] at hd
  obtain ⟨r, _, rfl⟩ := hd
  rw [← distSq_eq_geoDistSq]
  exact dist_nonneg _ _

/-- **D13 (pre-repair behaviour).**  Without the guard (`trans_ndpt_to_vec_dist` before 1939b469)
    every non-empty front with a constant objective gives NaN (`none`). -/
theorem dist_prerepair_nan_of_constant (mat : List (List α)) (sign line : List α)
    (hne : mat ≠ []) (hrect : ∀ r ∈ mat, r.length = sign.length) (j : Nat) (hj : j < sign.length) (v : α)
    (hconst : ∀ r ∈ mat, r[j]? = some v) :
    transDistSq false mat sign line = none := by
  unfold transDistSq
  by_cases h0 : (Np.dot line line == 0) = true
  · rw [if_pos h0]
  rw [if_neg h0]
  have hne' : mat.map (fun r => List.zipWith (· * ·) r sign) ≠ [] := by simpa using hne
  rw [scaleCols_unguarded_const _ sign.length j hne' (rect_zipWith (f := (· * ·)) mat sign hrect) hj
    (v * sign[j]) (by
      intro r hr
      obtain ⟨r0, h0, rfl⟩ := List.mem_map.mp hr
      simp [List.getElem?_zipWith, hconst r0 h0, List.getElem?_eq_getElem hj])]

/-- the concrete front of the corpus (second objective constant): NaN before the repair,
    finite (`[1/4, 1/2, 0]`) after it -/
theorem dist_prerepair_nan_counterexample :
    transDistSq false ([[1, 2], [2, 2], [0, 2]] : List (List α)) [1, 1] [1, 1] = none ∧
    ∃ out, transDistSq true ([[1, 2], [2, 2], [0, 2]] : List (List α)) [1, 1] [1, 1] = some out := by
  constructor
  · apply dist_prerepair_nan_of_constant _ _ _ (by simp) (by simp) 1 (by simp) 2
    simp
  · apply dist_finite_when_constant
    simp [Np.dot, Np.sum]

/-- **Translation invariance.**  Translating the front by any vector `t` (before the sign
    multiplication, as a caller would) does not change any distance; holds with and without the guard. -/
theorem dist_translation_invariant (g : Bool) (mat : List (List α)) (t sign line : List α)
    (hrect : ∀ r ∈ mat, r.length = sign.length) (ht : t.length = sign.length) :
    transDistSq g (mat.map (fun r => List.zipWith (· + ·) r t)) sign line = transDistSq g mat sign line := by
  unfold transDistSq
  have e : (mat.map (fun r => List.zipWith (· + ·) r t)).map (fun r => List.zipWith (· * ·) r sign) =
      (mat.map (fun r => List.zipWith (· * ·) r sign)).map
        (fun r => List.zipWith (· + ·) r (List.zipWith (· * ·) t sign)) := by
    simp only [List.map_map]
    apply List.map_congr_left
    intro r _
    simp only [Function.comp]
    apply List.ext_getElem
    · simp only [List.length_zipWith]; omega
    · intro i h1 h2
      simp only [List.getElem_zipWith]
      ring
  rw [e, scaleCols_add]
  intro r hr
  obtain ⟨r0, h0, rfl⟩ := List.mem_map.mp hr
  simp [hrect r0 h0, ht]

/-- **Positive rescaling of objectives** (each objective `j` multiplied by `cs[j] > 0`) does not
    change any distance: the min–max scaling removes it.  (Only for positive factors — a negative
    factor reverses the objective, which is what `sign` is for: see `dist_sign_flip_counterexample`.) -/
theorem dist_rescale_invariant (g : Bool) (mat : List (List α)) (cs sign line : List α)
    (hrect : ∀ r ∈ mat, r.length = sign.length) (hc : cs.length = sign.length) (hpos : ∀ c ∈ cs, 0 < c) :
    transDistSq g (mat.map (fun r => List.zipWith (· * ·) r cs)) sign line = transDistSq g mat sign line := by
  unfold transDistSq
  have e : (mat.map (fun r => List.zipWith (· * ·) r cs)).map (fun r => List.zipWith (· * ·) r sign) =
      (mat.map (fun r => List.zipWith (· * ·) r sign)).map (fun r => List.zipWith (· * ·) r cs) := by
    simp only [List.map_map]
    apply List.map_congr_left
    intro r _
    simp only [Function.comp]
    apply List.ext_getElem
    · simp only [List.length_zipWith]; omega
    · intro i h1 h2
      simp only [List.getElem_zipWith]
      ring
  rw [e, scaleCols_mul g _ cs _ hpos]
  intro r hr
  obtain ⟨r0, h0, rfl⟩ := List.mem_map.mp hr
  simp [hrect r0 h0, hc]

/-- **Scaled values lie in [0,1]** (any matrix) … -/
theorem scaled_in_unit_interval (mat scaled : List (List α)) (h : scaleCols true mat = some scaled) :
    ∀ row ∈ scaled, ∀ y ∈ row, 0 ≤ y ∧ y ≤ 1 :=
  scaleCols_unit mat scaled h

/-- … and a constant objective is scaled to 0 in every point -/
theorem scaled_constant_zero (mat scaled : List (List α)) (n : Nat) (hn : 0 < n)
    (hrect : ∀ r ∈ mat, r.length = n) (j : Nat) (v : α) (hconst : ∀ r ∈ mat, r[j]? = some v)
    (h : scaleCols true mat = some scaled) : ∀ row ∈ scaled, row[j]? = some 0 := by
  rw [scaleCols_guarded_rows mat n hn hrect] at h
  have h := Option.some.inj h
  subst h
  intro row hrow
  obtain ⟨r, hr, rfl⟩ := List.mem_map.mp hrow
  have hcc : ∀ x ∈ colOf mat j, x = v := by
    intro x hx
    obtain ⟨r', hr', hrx⟩ := (mem_colOf _ _ _).mp hx
    rw [hconst r' hr'] at hrx
    exact (Option.some.inj hrx).symm
  have hcne : colOf mat j ≠ [] := by
    intro h0
    have : v ∈ colOf mat j := (mem_colOf _ _ _).mpr ⟨r, hr, hconst r hr⟩
    rw [h0] at this; simp at this
  simp only [List.getElem?_map, List.getElem?_zipIdx, hconst r hr, Option.map_some, zero_add]
  simp [scaleEntryG, colMax_const _ v hcne hcc, colMin_const _ v hcne hcc]

/-- **Spec soundness.**  The decidable Spec `Pareto.specDist` that the harness evaluates (driver op
    `c19.spec_dist`) on the implementation's squared distances accepts the model's own output, for
    every tolerance. -/
theorem spec_dist_sound (rel abs_ : α) (mat : List (List α)) (sign line : List α)
    (hrect : ∀ r ∈ mat, r.length = sign.length) (hn : 0 < sign.length) (hll : Np.dot line line ≠ 0)
    (out : List α) (h : transDistSq true mat sign line = some out) :
    specDist rel abs_ mat sign line (out.map some) = true := by
  rw [dist_eq_geometric_def mat sign line hrect hn hll] at h
  rw [← Option.some.inj h]
  exact specDist_geoDist rel abs_ mat sign line

/-- the Spec demands finiteness and one distance per point -/
theorem spec_dist_rejects (rel abs_ : α) (mat : List (List α)) (sign line : List α) (d2 : List (Option α)) :
    (none ∈ d2 → specDist rel abs_ mat sign line d2 = false) ∧
    (specDist rel abs_ mat sign line d2 = true → d2.length = mat.length) :=
  ⟨specDist_none rel abs_ mat sign line d2, specDist_length rel abs_ mat sign line d2⟩

end dist


/-! ### the theorems apply to exactly the functions the driver runs

`Pareto.Q.*` (Model/Pareto.lean, compiled without Mathlib) are the model's definitions at core `Rat`
with the core instances (`Rat.instMul`, `Rat.instLT`, `Rat.instDecidableLt`, `Rat.instOfNat`,
`instBEqOfDecidableEq`, …); `Drv/C19.lean` calls these constants.  The generic theorems above are
stated over `[Field α] [LinearOrder α] [IsStrictOrderedRing α]`; at `α := ℚ` Mathlib's instances
unfold to the core operations, so every instantiation below is accepted by `exact` up to
definitional unfolding of instances — no `Subsingleton` / `decide` bridge was needed. -/
section Q
open Pareto

theorem Q_filter_sound (fmat : List (List ℚ)) (wt : List ℚ) (hrect : ∀ r ∈ fmat, r.length = wt.length)
    (i : Nat) (hi : i ∈ Q.efficientIdx fmat wt) (j : Nat) (hj : j < fmat.length) :
    Q.strictDom (Q.applyWt wt (fmat.getD j [])) (Q.applyWt wt (fmat.getD i [])) = false :=
  filter_sound (α := ℚ) fmat wt hrect i hi j hj

theorem Q_filter_complete (fmat : List (List ℚ)) (wt : List ℚ) (hrect : ∀ r ∈ fmat, r.length = wt.length)
    (i : Nat) (hi : i < fmat.length) (hni : i ∉ Q.efficientIdx fmat wt) :
    ∃ j ∈ Q.efficientIdx fmat wt, Q.weakDom (Q.applyWt wt (fmat.getD i [])) (Q.applyWt wt (fmat.getD j [])) = true :=
  filter_complete (α := ℚ) fmat wt hrect i hi hni

theorem Q_mask_eq_index (fmat : List (List ℚ)) (wt : List ℚ) (i : Nat) (hi : i < fmat.length) :
    (Q.efficientMask fmat wt)[i]? = some (decide (i ∈ Q.efficientIdx fmat wt)) :=
  mask_eq_index (α := ℚ) fmat wt i hi

theorem Q_perm_invariant_set (fmat fmat' : List (List ℚ)) (wt : List ℚ) (hp : fmat.Perm fmat')
    (hrect : ∀ r ∈ fmat, r.length = wt.length) (v : List ℚ) :
    v ∈ (Q.efficientIdx fmat wt).map (fun i => Q.applyWt wt (fmat.getD i [])) ↔
    v ∈ (Q.efficientIdx fmat' wt).map (fun i => Q.applyWt wt (fmat'.getD i [])) :=
  perm_invariant_set (α := ℚ) fmat fmat' wt hp hrect v

theorem Q_rescale_invariant (fmat : List (List ℚ)) (wt cs : List ℚ)
    (hrect : ∀ r ∈ fmat, r.length = wt.length) (hcs : cs.length = wt.length) (hpos : ∀ c ∈ cs, 0 < c) :
    Q.efficientIdx fmat (List.zipWith (· * ·) wt cs) = Q.efficientIdx fmat wt :=
  rescale_invariant (α := ℚ) fmat wt cs hrect hcs hpos

theorem Q_dominates_feasible (o1 o2 : List ℚ) (c1 c2 : ℚ) (h1 : c1 ≤ 0) (h2 : c2 ≤ 0) :
    Q.dominates o1 c1 o2 c2 = Q.strictDom o2 o1 :=
  dominates_feasible_eq_strictDom (α := ℚ) o1 o2 c1 c2 h1 h2

theorem Q_dominates_infeasible (o1 o2 : List ℚ) (c1 c2 : ℚ) (h : 0 < c1 ∨ 0 < c2) :
    Q.dominates o1 c1 o2 c2 = true ↔ c1 < c2 :=
  dominates_infeasible_iff (α := ℚ) o1 o2 c1 c2 h

theorem Q_dominates_strict_order (o1 o2 o3 : List ℚ) (c1 c2 c3 : ℚ) :
    Q.dominates o1 c1 o1 c1 = false ∧
    (Q.dominates o1 c1 o2 c2 = true → Q.dominates o2 c2 o1 c1 = false) ∧
    (o1.length = o2.length → o2.length = o3.length → Q.dominates o1 c1 o2 c2 = true →
      Q.dominates o2 c2 o3 c3 = true → Q.dominates o1 c1 o3 c3 = true) :=
  ⟨dominates_irrefl (α := ℚ) o1 c1, dominates_asymm (α := ℚ) o1 o2 c1 c2,
   dominates_trans (α := ℚ) o1 o2 o3 c1 c2 c3⟩

theorem Q_dist_eq_geometric_def (mat : List (List ℚ)) (sign line : List ℚ)
    (hrect : ∀ r ∈ mat, r.length = sign.length) (hn : 0 < sign.length) (hll : Np.dot line line ≠ 0) :
    Q.transDistSq true mat sign line = some (Q.geoDist mat sign line) :=
  dist_eq_geometric_def (α := ℚ) mat sign line hrect hn hll

theorem Q_dist_finite_when_constant (mat : List (List ℚ)) (sign line : List ℚ) (hll : Np.dot line line ≠ 0) :
    ∃ out, Q.transDistSq true mat sign line = some out :=
  dist_finite_when_constant (α := ℚ) mat sign line hll

theorem Q_dist_translation_invariant (g : Bool) (mat : List (List ℚ)) (t sign line : List ℚ)
    (hrect : ∀ r ∈ mat, r.length = sign.length) (ht : t.length = sign.length) :
    Q.transDistSq g (mat.map (fun r => List.zipWith (· + ·) r t)) sign line = Q.transDistSq g mat sign line :=
  dist_translation_invariant (α := ℚ) g mat t sign line hrect ht

theorem Q_dist_rescale_invariant (g : Bool) (mat : List (List ℚ)) (cs sign line : List ℚ)
    (hrect : ∀ r ∈ mat, r.length = sign.length) (hc : cs.length = sign.length) (hpos : ∀ c ∈ cs, 0 < c) :
    Q.transDistSq g (mat.map (fun r => List.zipWith (· * ·) r cs)) sign line = Q.transDistSq g mat sign line :=
  dist_rescale_invariant (α := ℚ) g mat cs sign line hrect hc hpos

/-- the Spec the driver evaluates (`c19.spec_dist`) accepts what the driver's model (`c19.dist`) returns -/
theorem Q_spec_dist_sound (rel abs_ : ℚ) (mat : List (List ℚ)) (sign line : List ℚ)
    (hrect : ∀ r ∈ mat, r.length = sign.length) (hn : 0 < sign.length) (hll : Np.dot line line ≠ 0)
    (out : List ℚ) (h : Q.transDistSq true mat sign line = some out) :
    Q.specDist rel abs_ mat sign line (out.map some) = true :=
  spec_dist_sound (α := ℚ) rel abs_ mat sign line hrect hn hll out h

/-- D13 on the driver's functions, evaluated by the kernel: NaN before the repair, finite after -/
theorem Q_dist_prerepair_nan_counterexample :
    Q.transDistSq false [[1, 2], [2, 2], [0, 2]] [1, 1] [1, 1] = none ∧
    Q.transDistSq true [[1, 2], [2, 2], [0, 2]] [1, 1] [1, 1] = some [1/8, 1/2, 0] := by
  decide +kernel

/-- rescaling invariance needs POSITIVE factors: reversing one objective (factor −1) changes the
    distances (the caller has to say so through `sign`) -/
theorem dist_sign_flip_counterexample :
    Q.transDistSq true ([[0, 0], [1, 1]].map (fun r => List.zipWith (· * ·) r [-1, 1])) [1, 1] [1, 1] = some [1/2, 1/2] ∧
    Q.transDistSq true [[0, 0], [1, 1]] [1, 1] [1, 1] = some [0, 0] ∧
    Q.transDistSq true [[0, 0], [1, 1]] [-1, 1] [1, 1] = some [1/2, 1/2] := by
  decide +kernel

end Q

/-! ### non-vacuity: the hypotheses are met by concrete non-trivial inputs (evaluated by the kernel) -/

example : efficientIdx (α := Int) [[1, 2], [2, 1], [1, 1], [2, 1], [0, 3]] [1, 1] = [0, 1, 4] := by decide
example : efficientMask (α := Int) [[1, 2], [2, 1], [1, 1], [2, 1], [0, 3]] [1, 1]
    = [true, true, false, false, true] := by decide
example : (∀ r ∈ ([[1, 2], [2, 1], [1, 1]] : List (List Int)), r.length = ([1, 1] : List Int).length) := by decide
example : effVecs (α := Int) [[1, 2], [2, 1], [1, 1], [2, 1], [0, 3]] [1, 1] = [[1, 2], [2, 1], [0, 3]] := by decide
example : efficientIdx (α := Int) [[1, 2], [2, 1], [1, 1]] (List.zipWith (· * ·) [1, -1] [3, 5])
    = efficientIdx (α := Int) [[1, 2], [2, 1], [1, 1]] [1, -1] := by decide
example : dominates (α := Int) [1, 2] 0 [1, 3] 0 = true ∧ dominates (α := Int) [1, 2] 1 [0, 0] 2 = true := by decide


/- distance part: hypotheses of the theorems on concrete rational inputs, and the values the
   driver's functions return on them (kernel evaluation of the core `Rat` code) -/
example : vdot ([1, 2] : List ℚ) [1, 2] ≠ 0 ∧ ([3, 1] : List ℚ).length = ([1, 2] : List ℚ).length := by
  norm_num [vdot]
example : distSq ([1, 2] : List ℚ) [3, 1] = vdot ([3, 1] : List ℚ) [3, 1] - (vdot ([3, 1] : List ℚ) [1, 2]) ^ 2 / vdot ([1, 2] : List ℚ) [1, 2] :=
  dist_pythagoras _ _ rfl (by norm_num [vdot])
example : distSq ([1, 2] : List ℚ) (smul 3 [1, 2]) = 0 :=
  (dist_zero_iff_on_line _ _ (by simp [smul]) (by norm_num [vdot])).mpr ⟨3, rfl⟩
example : (∀ r ∈ ([[5, 2], [7, 2], [6, 2]] : List (List ℚ)), r.length = ([1, -1] : List ℚ).length) ∧
    0 < ([1, -1] : List ℚ).length ∧ Np.dot ([1, 2] : List ℚ) [1, 2] ≠ 0 := by
  refine ⟨by simp, by simp, by norm_num [Np.dot, Np.sum]⟩
example : Pareto.Q.transDistSq true [[5, 2], [7, 2], [6, 2]] [1, -1] [1, 2] = some [0, 4/5, 1/5] := by decide +kernel
example : Pareto.Q.geoDist [[5, 2], [7, 2], [6, 2]] [1, -1] [1, 2] = [0, 4/5, 1/5] := by decide +kernel
example : Pareto.Q.transDistSq true ([[5, 2], [7, 2], [6, 2]].map (fun r => List.zipWith (· + ·) r [1000000, -8388608]))
    [1, -1] [1, 2] = some [0, 4/5, 1/5] := by decide +kernel
example : Pareto.Q.transDistSq true ([[5, 2], [7, 2], [6, 2]].map (fun r => List.zipWith (· * ·) r [3, 1/7]))
    [1, -1] [1, 2] = some [0, 4/5, 1/5] := by decide +kernel
example : Pareto.Q.specDist (1/1000000000) (1/1000000000000) [[5, 2], [7, 2], [6, 2]] [1, -1] [1, 2]
    [some 0, some (4/5), some (1/5)] = true ∧
    Pareto.Q.specDist (1/1000000000) (1/1000000000000) [[5, 2], [7, 2], [6, 2]] [1, -1] [1, 2]
    [some 0, some (4/5), some (1/4)] = false ∧
    Pareto.Q.specDist (1/1000000000) (1/1000000000000) [[5, 2], [7, 2], [6, 2]] [1, -1] [1, 2]
    [some 0, none, some (1/5)] = false := by decide +kernel
example : Pareto.scaleCols (α := Rat) true [[5, 2], [7, 2], [6, 2]] = some [[0, 0], [1, 0], [1/2, 0]] ∧
    Pareto.scaleCols (α := Rat) false [[5, 2], [7, 2], [6, 2]] = none := by decide +kernel
example : (∀ r ∈ ([[5, 2], [7, 2], [6, 2]] : List (List ℚ)), r[1]? = some 2) ∧
    (∃ x ∈ ([0, 2] : List ℚ), x ≠ 0) := by
  refine ⟨by decide, 2, by simp, by norm_num⟩
-- collinear front (every scaled point on the line (1,1)): all distances exactly 0; one objective: 0
example : Pareto.Q.transDistSq true [[0, 10], [1, 12], [4, 18], [2, 14]] [1, 1] [1, 1] = some [0, 0, 0, 0] := by decide +kernel
example : Pareto.Q.transDistSq true [[3], [5], [4]] [-1] [2] = some [0, 0, 0] := by decide +kernel
example : Pareto.Q.dominates [1, 2] 1 [0, 0] 2 = true ∧ Pareto.Q.dominates [0, 0] 2 [1, 2] 1 = false ∧
    Pareto.Q.dominates [1, 2] 2 [0, 0] 2 = false ∧ Pareto.Q.dominates [0, 0] 2 [1, 2] 2 = false := by decide +kernel

end C19
