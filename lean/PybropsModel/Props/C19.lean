/-
C19 — Pareto-front identification and front ranking are exact.
Property theorems only (helper lemmas live in Lemmas/ParetoLoop.lean).

Model: PybropsModel/Model/Pareto.lean (`efficientIdx`, `efficientMask` transcribe
pybrops/core/util/pareto.py:is_pareto_efficient; `dominates` transcribes pymoo_addon.dominates).
-/
import PybropsModel.Lemmas.ParetoSet
set_option linter.unusedSectionVars false
set_option autoImplicit false

namespace C19
open Pareto

section filter
variable {α : Type} [Mul α] [LinearOrder α]

/-- **Soundness.**  A point is marked efficient only if no other point is at least as good in
    every weighted objective and strictly better in one. -/
theorem filter_sound (fmat : List (List α)) (wt : List α) (hrect : ∀ r ∈ fmat, r.length = wt.length)
    (i : Nat) (hi : i ∈ efficientIdx fmat wt) (j : Nat) (hj : j < fmat.length) :
    strictDom (wrow fmat wt j) (wrow fmat wt i) = false := by
  obtain ⟨h1, _, h3⟩ := filter_facts fmat wt hrect
  rw [efficientIdx_eq] at hi
  obtain ⟨x, hx, rfl⟩ := List.mem_map.mp hi
  have hxr := h1 x hx
  obtain ⟨_, hxv⟩ := (mem_rows fmat wt x).mp hxr
  have hy : (j, wrow fmat wt j) ∈ rows fmat wt := (mem_rows fmat wt _).mpr ⟨hj, rfl⟩
  by_contra hs
  have hs : strictDom (wrow fmat wt j) (wrow fmat wt x.1) = true := by simpa using hs
  have hnw := strictDom_not_weakDom _ _ hs
  -- strictDom j x gives weakDom x j, so by the filter weakDom j x: contradiction
  have hwxj : wdI x (j, wrow fmat wt j) = true := by
    unfold strictDom at hs
    simp only [Bool.and_eq_true] at hs
    show weakDom x.2 (wrow fmat wt j) = true
    rw [hxv]; exact hs.1
  have := h3 x hx _ hy hwxj
  have : weakDom (wrow fmat wt j) x.2 = true := this
  rw [hxv] at this
  rw [this] at hnw
  exact Bool.noConfusion hnw

/-- **Completeness.**  Every unmarked point is equalled or dominated by a marked one. -/
theorem filter_complete (fmat : List (List α)) (wt : List α) (hrect : ∀ r ∈ fmat, r.length = wt.length)
    (i : Nat) (hi : i < fmat.length) (hni : i ∉ efficientIdx fmat wt) :
    ∃ j ∈ efficientIdx fmat wt, weakDom (wrow fmat wt i) (wrow fmat wt j) = true := by
  obtain ⟨h1, h2, _⟩ := filter_facts fmat wt hrect
  have hr : (i, wrow fmat wt i) ∈ rows fmat wt := (mem_rows fmat wt _).mpr ⟨hi, rfl⟩
  rw [efficientIdx_eq] at hni ⊢
  have hnot : (i, wrow fmat wt i) ∉ paretoGo wdI [] (rows fmat wt) := by
    intro h; exact hni (List.mem_map.mpr ⟨_, h, rfl⟩)
  obtain ⟨s, hs, hws⟩ := h2 _ hr hnot
  refine ⟨s.1, List.mem_map.mpr ⟨s, hs, rfl⟩, ?_⟩
  obtain ⟨_, hsv⟩ := (mem_rows fmat wt s).mp (h1 s hs)
  have : weakDom (wrow fmat wt i) s.2 = true := hws
  rw [hsv] at this
  exact this

/-- efficient indices are valid, duplicate-free and keep the input order -/
theorem filter_indices (fmat : List (List α)) (wt : List α) :
    (efficientIdx fmat wt).Sublist (List.range fmat.length) := by
  rw [efficientIdx_eq]
  have hs := paretoGo_sublist (wdI (α := α)) (rows fmat wt).length [] (rows fmat wt) rfl
  simp only [List.nil_append] at hs
  have := hs.map Prod.fst
  have hr : ((rows fmat wt).map Prod.fst) = List.range fmat.length := by
    simp only [rows, List.map_map]
    have : (Prod.fst ∘ fun ri : List α × Nat => (ri.2, ri.1)) = Prod.snd := rfl
    rw [this]
    rw [List.zipIdx_eq_zip_range', List.map_snd_zip (by simp), List.range_eq_range', List.length_map]
  rw [hr] at this
  exact this

/-- **Mask and index forms agree.** -/
theorem mask_eq_index (fmat : List (List α)) (wt : List α) (i : Nat) (hi : i < fmat.length) :
    (efficientMask fmat wt)[i]? = some (decide (i ∈ efficientIdx fmat wt)) := by
  unfold efficientMask
  simp [hi]

theorem mask_length (fmat : List (List α)) (wt : List α) :
    (efficientMask fmat wt).length = fmat.length := by
  simp [efficientMask]

/-- the objective vectors marked efficient -/
def effVecs (fmat : List (List α)) (wt : List α) : List (List α) :=
  (efficientIdx fmat wt).map (wrow fmat wt)

/-- **Set characterisation.**  The set of efficient objective vectors is exactly the set of maximal
    elements of the set of weighted input vectors — it mentions the input only through membership. -/
theorem efficient_vectors_char (fmat : List (List α)) (wt : List α)
    (hrect : ∀ r ∈ fmat, r.length = wt.length) (v : List α) :
    v ∈ effVecs fmat wt ↔
      (v ∈ fmat.map (applyWt wt) ∧ ∀ u ∈ fmat.map (applyWt wt), weakDom v u = true → weakDom u v = true) := by
  obtain ⟨h1, h2, h3⟩ := filter_facts fmat wt hrect
  have memV : ∀ u, u ∈ fmat.map (applyWt wt) ↔ ∃ i, i < fmat.length ∧ u = wrow fmat wt i := by
    intro u
    simp only [List.mem_map, wrow]
    constructor
    · rintro ⟨r, hr, rfl⟩
      obtain ⟨i, hi, rfl⟩ := List.mem_iff_getElem.mp hr
      exact ⟨i, hi, by simp [List.getD_eq_getElem?_getD, List.getElem?_eq_getElem hi]⟩
    · rintro ⟨i, hi, rfl⟩
      exact ⟨fmat[i], List.getElem_mem hi, by simp [List.getD_eq_getElem?_getD, List.getElem?_eq_getElem hi]⟩
  unfold effVecs
  rw [efficientIdx_eq]
  constructor
  · intro hv
    obtain ⟨i0, hi0, rfl⟩ := List.mem_map.mp hv
    obtain ⟨x, hx, rfl⟩ := List.mem_map.mp hi0
    have hxr := h1 x hx
    obtain ⟨hlt, hxv⟩ := (mem_rows fmat wt x).mp hxr
    refine ⟨(memV _).mpr ⟨x.1, hlt, rfl⟩, ?_⟩
    · intro u hu hvu
      obtain ⟨j, hj, rfl⟩ := (memV u).mp hu
      have hy : (j, wrow fmat wt j) ∈ rows fmat wt := (mem_rows fmat wt _).mpr ⟨hj, rfl⟩
      have := h3 x hx _ hy (by
        show weakDom x.2 (wrow fmat wt j) = true
        rw [hxv]; exact hvu)
      have : weakDom (wrow fmat wt j) x.2 = true := this
      rw [hxv] at this
      exact this
  · rintro ⟨hv, hmax⟩
    obtain ⟨i, hi, rfl⟩ := (memV v).mp hv
    have hr : (i, wrow fmat wt i) ∈ rows fmat wt := (mem_rows fmat wt _).mpr ⟨hi, rfl⟩
    by_cases hin : (i, wrow fmat wt i) ∈ paretoGo wdI [] (rows fmat wt)
    · exact List.mem_map.mpr ⟨i, List.mem_map.mpr ⟨_, hin, rfl⟩, rfl⟩
    · obtain ⟨s, hs, hws⟩ := h2 _ hr hin
      have hsr := h1 s hs
      obtain ⟨hslt, hsv⟩ := (mem_rows fmat wt s).mp hsr
      have hws' : weakDom (wrow fmat wt i) (wrow fmat wt s.1) = true := by
        have : weakDom (wrow fmat wt i) s.2 = true := hws
        rw [hsv] at this; exact this
      have hsu : wrow fmat wt s.1 ∈ fmat.map (applyWt wt) := (memV _).mpr ⟨s.1, hslt, rfl⟩
      have hback := hmax _ hsu hws'
      have hlen : (wrow fmat wt i).length = (wrow fmat wt s.1).length := by
        have a := rows_length_eq fmat wt hrect _ hr
        have b := rows_length_eq fmat wt hrect _ hsr
        rw [hsv] at b
        exact a.trans b.symm
      exact List.mem_map.mpr ⟨s.1, List.mem_map.mpr ⟨s, hs, rfl⟩, (weakDom_antisymm _ _ hlen hws' hback).symm⟩

/-- **Order independence.**  Permuting the points does not change the set of efficient vectors. -/
theorem perm_invariant_set (fmat fmat' : List (List α)) (wt : List α) (hp : fmat.Perm fmat')
    (hrect : ∀ r ∈ fmat, r.length = wt.length) (v : List α) :
    v ∈ effVecs fmat wt ↔ v ∈ effVecs fmat' wt := by
  have hrect' : ∀ r ∈ fmat', r.length = wt.length := fun r hr => hrect r (hp.mem_iff.mpr hr)
  rw [efficient_vectors_char fmat wt hrect, efficient_vectors_char fmat' wt hrect']
  have hm : ∀ u, u ∈ fmat.map (applyWt wt) ↔ u ∈ fmat'.map (applyWt wt) :=
    fun u => (hp.map _).mem_iff
  constructor
  · rintro ⟨h1, h2⟩; exact ⟨(hm v).mp h1, fun u hu => h2 u ((hm u).mpr hu)⟩
  · rintro ⟨h1, h2⟩; exact ⟨(hm v).mpr h1, fun u hu => h2 u ((hm u).mp hu)⟩

end filter

section rescale
variable {α : Type} [CommRing α] [LinearOrder α] [IsStrictOrderedRing α]

/-- **Positive rescaling of objectives** leaves the filter's answer (indices, hence mask and
    vectors up to the same rescaling) unchanged. -/
theorem rescale_invariant (fmat : List (List α)) (wt cs : List α)
    (hrect : ∀ r ∈ fmat, r.length = wt.length) (hcs : cs.length = wt.length)
    (hpos : ∀ c ∈ cs, 0 < c) :
    efficientIdx fmat (List.zipWith (· * ·) wt cs) = efficientIdx fmat wt := by
  rw [efficientIdx_eq, efficientIdx_eq]
  let g : Nat × List α → Nat × List α := fun p => (p.1, List.zipWith (· * ·) p.2 cs)
  have hrows : rows fmat (List.zipWith (· * ·) wt cs) = (rows fmat wt).map g := by
    simp only [rows, List.map_map, List.zipIdx_map]
    apply List.map_congr_left
    intro ri _
    simp only [Function.comp, g, Prod.map, id, applyWt]
    congr 1
    apply List.ext_getElem
    · simp [List.length_zipWith, min_assoc]
    · intro i h1 h2
      simp only [List.getElem_zipWith]
      ring
  rw [hrows]
  have key := paretoGo_map g (wdI (α := α)) (wdI (α := α)) (rows fmat wt).length [] (rows fmat wt) rfl (by
    intro a ha b hb
    simp only [List.nil_append] at ha hb
    have la := rows_length_eq fmat wt hrect a ha
    have lb := rows_length_eq fmat wt hrect b hb
    show weakDom (List.zipWith (· * ·) a.2 cs) (List.zipWith (· * ·) b.2 cs) = weakDom a.2 b.2
    rw [Bool.eq_iff_iff, weakDom_iff, weakDom_iff]
    constructor
    · intro h i h1 h2
      have hc : i < cs.length := by omega
      have := h i (by simp [List.length_zipWith]; omega) (by simp [List.length_zipWith]; omega)
      simp only [List.getElem_zipWith] at this
      exact le_of_mul_le_mul_right this (hpos _ (List.getElem_mem hc))
    · intro h i h1 h2
      simp only [List.length_zipWith, lt_min_iff] at h1 h2
      simp only [List.getElem_zipWith]
      exact mul_le_mul_of_nonneg_right (h i h1.1 h2.1) (hpos _ (List.getElem_mem h1.2)).le)
  simp only [List.map_nil] at key
  rw [key, List.map_map]
  apply List.map_congr_left
  intro p _
  rfl

end rescale

/-! ### the dominance predicate of the memetic optimisers -/
section dom
variable {α : Type} [LinearOrder α] [Zero α]

/-- both feasible: plain Pareto dominance (minimisation) -/
theorem dominates_feasible (o1 o2 : List α) (c1 c2 : α) (h1 : c1 ≤ 0) (h2 : c2 ≤ 0) :
    dominates o1 c1 o2 c2 =
      ((List.zip o1 o2).all (fun ab => decide (ab.1 ≤ ab.2)) &&
       (List.zip o1 o2).any (fun ab => decide (ab.1 < ab.2))) := by
  simp [dominates, h1, h2]

/-- otherwise: ordered by constraint violation only -/
theorem dominates_infeasible (o1 o2 : List α) (c1 c2 : α) (h : ¬ (c1 ≤ 0 ∧ c2 ≤ 0)) :
    dominates o1 c1 o2 c2 = decide (c1 < c2) := by
  simp only [dominates]
  rw [if_neg]
  simpa using h

/-- a feasible point dominates every infeasible one, never the other way round -/
theorem dominates_feasibility_first (o1 o2 : List α) (c1 c2 : α) (h1 : c1 ≤ 0) (h2 : 0 < c2) :
    dominates o1 c1 o2 c2 = true ∧ dominates o2 c2 o1 c1 = false := by
  have hn : ¬ (c1 ≤ 0 ∧ c2 ≤ 0) := fun h => absurd h.2 (not_le.mpr h2)
  have hn' : ¬ (c2 ≤ 0 ∧ c1 ≤ 0) := fun h => absurd h.1 (not_le.mpr h2)
  rw [dominates_infeasible _ _ _ _ hn, dominates_infeasible _ _ _ _ hn']
  simp only [decide_eq_true_eq, decide_eq_false_iff_not, not_lt]
  exact ⟨lt_of_le_of_lt h1 h2, le_trans h1 h2.le⟩

theorem dominates_irrefl (o : List α) (c : α) : dominates o c o c = false := by
  by_cases h : c ≤ 0
  · rw [dominates_feasible _ _ _ _ h h]
    have : (List.zip o o).any (fun ab => decide (ab.1 < ab.2)) = false := by
      by_contra hne
      have hne : (List.zip o o).any (fun ab => decide (ab.1 < ab.2)) = true := by simpa using hne
      obtain ⟨i, h1, _, hlt⟩ := (any_lt_iff o o).mp hne
      exact lt_irrefl _ hlt
    simp [this]
  · rw [dominates_infeasible _ _ _ _ (fun hh => h hh.1)]
    simp

private theorem pareto_strict_trans (a b c : List α) (h1 : a.length = b.length) (h2 : b.length = c.length)
    (hab : ((List.zip a b).all (fun ab => decide (ab.1 ≤ ab.2)) && (List.zip a b).any (fun ab => decide (ab.1 < ab.2))) = true)
    (hbc : ((List.zip b c).all (fun ab => decide (ab.1 ≤ ab.2)) && (List.zip b c).any (fun ab => decide (ab.1 < ab.2))) = true) :
    ((List.zip a c).all (fun ab => decide (ab.1 ≤ ab.2)) && (List.zip a c).any (fun ab => decide (ab.1 < ab.2))) = true := by
  rw [Bool.and_eq_true, all_le_iff, any_lt_iff] at *
  obtain ⟨lab, i, ia, ib, hlt⟩ := hab
  obtain ⟨lbc, _⟩ := hbc
  refine ⟨fun k ka kc => le_trans (lab k ka (h1 ▸ ka)) (lbc k (h1 ▸ ka) kc), i, ia, h2 ▸ ib, ?_⟩
  exact lt_of_lt_of_le hlt (lbc i ib (h2 ▸ ib))

/-- `dominates` is transitive on objective vectors of one length: together with irreflexivity it is
    a strict partial order that ranks feasible points by Pareto dominance and infeasible ones by
    constraint violation. -/
theorem dominates_trans (o1 o2 o3 : List α) (c1 c2 c3 : α)
    (hl1 : o1.length = o2.length) (hl2 : o2.length = o3.length)
    (h12 : dominates o1 c1 o2 c2 = true) (h23 : dominates o2 c2 o3 c3 = true) :
    dominates o1 c1 o3 c3 = true := by
  by_cases f1 : c1 ≤ 0 <;> by_cases f2 : c2 ≤ 0 <;> by_cases f3 : c3 ≤ 0
  · rw [dominates_feasible _ _ _ _ f1 f2] at h12
    rw [dominates_feasible _ _ _ _ f2 f3] at h23
    rw [dominates_feasible _ _ _ _ f1 f3]
    exact pareto_strict_trans o1 o2 o3 hl1 hl2 h12 h23
  · rw [dominates_infeasible _ _ _ _ (fun h => f3 h.2)]
    simp only [decide_eq_true_eq]
    exact lt_of_le_of_lt f1 (not_le.mp f3)
  · rw [dominates_infeasible _ _ _ _ (fun h => f2 h.1)] at h23
    simp only [decide_eq_true_eq] at h23
    exact absurd (lt_of_lt_of_le h23 f3) (fun h => f2 h.le)
  · rw [dominates_infeasible _ _ _ _ (fun h => f2 h.2)] at h12
    rw [dominates_infeasible _ _ _ _ (fun h => f2 h.1)] at h23
    rw [dominates_infeasible _ _ _ _ (fun h => f3 h.2)]
    simp only [decide_eq_true_eq] at *
    exact lt_trans h12 h23
  · rw [dominates_infeasible _ _ _ _ (fun h => f1 h.1)] at h12
    simp only [decide_eq_true_eq] at h12
    exact absurd (lt_of_lt_of_le h12 f2) (fun h => f1 h.le)
  · rw [dominates_infeasible _ _ _ _ (fun h => f1 h.1)] at h12
    simp only [decide_eq_true_eq] at h12
    exact absurd (lt_of_lt_of_le h12 f2) (fun h => f1 h.le)
  · rw [dominates_infeasible _ _ _ _ (fun h => f1 h.1)] at h12
    rw [dominates_infeasible _ _ _ _ (fun h => f2 h.1)] at h23
    simp only [decide_eq_true_eq] at *
    exact absurd (lt_of_lt_of_le (lt_trans h12 h23) f3) (fun h => f1 h.le)
  · rw [dominates_infeasible _ _ _ _ (fun h => f1 h.1)] at h12
    rw [dominates_infeasible _ _ _ _ (fun h => f2 h.1)] at h23
    rw [dominates_infeasible _ _ _ _ (fun h => f1 h.1)]
    simp only [decide_eq_true_eq] at *
    exact lt_trans h12 h23

end dom

/-! ### non-vacuity: the hypotheses are met by concrete non-trivial inputs (evaluated by the kernel) -/

example : efficientIdx (α := Int) [[1, 2], [2, 1], [1, 1], [2, 1], [0, 3]] [1, 1] = [0, 1, 4] := by decide
example : efficientMask (α := Int) [[1, 2], [2, 1], [1, 1], [2, 1], [0, 3]] [1, 1]
    = [true, true, false, false, true] := by decide
example : (∀ r ∈ ([[1, 2], [2, 1], [1, 1]] : List (List Int)), r.length = ([1, 1] : List Int).length) := by decide
example : effVecs (α := Int) [[1, 2], [2, 1], [1, 1], [2, 1], [0, 3]] [1, 1] = [[1, 2], [2, 1], [0, 3]] := by decide
example : efficientIdx (α := Int) [[1, 2], [2, 1], [1, 1]] (List.zipWith (· * ·) [1, -1] [3, 5])
    = efficientIdx (α := Int) [[1, 2], [2, 1], [1, 1]] [1, -1] := by decide
example : dominates (α := Int) [1, 2] 0 [1, 3] 0 = true ∧ dominates (α := Int) [1, 2] 1 [0, 0] 2 = true := by decide

end C19
