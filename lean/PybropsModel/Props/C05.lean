/-
C05 — Selection objectives mean what they say in every decision encoding.
Property theorems only (helper lemmas: Lemmas/SelectionSum, SelectionCrit, SelectionDef, SelectionFactory,
SelectionSpec, SelectionRelabel, SelectionChunk, SelectionRelabelAll, SelectionObj).

Model: PybropsModel/Model/Selection.lean.  `latent eps crit decn` transcribes `latentfn` of every class of
pybrops/breed/prot/sel/prob (criterion families `Crit`: lin = EBV, GEBV, wGEBV, gwGEBV, random, EMBV, UC,
OHV; ocs; mgr; meh; l1; l2; family; opv; pafd; pau; mogs), `Decn.subset` = the subset classes,
`Decn.vec` = the real / integer / binary classes (one latentfn text), `eps` = the literal 1e-10.
All theorems hold over every linearly ordered field and for every square-root function unless stated.
-/
import Mathlib.Analysis.SpecialFunctions.Sqrt
import PybropsModel.Lemmas.SelectionRelabelAll
import PybropsModel.Lemmas.SelectionLookAhead
import PybropsModel.Lemmas.SelectionSpecGB
import PybropsModel.Lemmas.SelectionObj
set_option autoImplicit false
set_option linter.unusedSectionVars false
set_option linter.unusedSimpArgs false

namespace C05
open Selection Selection.Spec Finset

section encodings
variable {α : Type} [Field α] [LinearOrder α] [IsStrictOrderedRing α] [HasSqrt α]

/-- **The four encodings agree.**  For a duplicate-free, non-empty list `S` of candidates the
    integer-count vector, the binary indicator vector and the real contribution vector `(1/k)·1_S`
    get exactly the latent vector of the subset `S`, for every criterion that has vector classes. -/
theorem encodings_agree (eps : α) (heps : eps ≤ 1) (cr : Crit α) (hv : cr.hasVec = true)
    (S : List Nat) (hnd : S.Nodup) (hne : S ≠ []) (hS : ∀ i ∈ S, i < cr.ncand) :
    latent eps cr (.vec (counts cr.ncand S)) = latent eps cr (.subset S) ∧
    latent eps cr (.vec (indicator cr.ncand S)) = latent eps cr (.subset S) ∧
    latent eps cr (.vec (shares cr.ncand S 1)) = latent eps cr (.subset S) := by
  have hsub := subset_eq_core eps cr hv S hnd hS
  refine ⟨?_, ?_, ?_⟩
  · rw [latent_vec, contrib_counts _ eps heps _ S hS hne, hsub]
  · rw [indicator_eq_counts _ S hnd, latent_vec, contrib_counts _ eps heps _ S hS hne, hsub]
  · rw [latent_vec, contrib_shares _ eps _ S hS hne 1 one_pos (fun _ => heps), hsub]

example : ([2, 0] : List Nat).Nodup ∧ ([2, 0] : List Nat) ≠ [] ∧
    (∀ i ∈ ([2, 0] : List Nat), i < (Crit.lin true [[(1:ℚ), 2], [3, 4], [5, 7]]).ncand) ∧
    (Crit.lin true [[(1:ℚ), 2], [3, 4], [5, 7]]).hasVec = true ∧ ((1:ℚ) / 10 ^ 10 ≤ 1) := by
  refine ⟨by decide, by decide, by decide, rfl, by norm_num⟩

/- FULL STATEMENT (false of the as-is model, see `encodings_real_total_guard_counterexample`):
   theorem encodings_agree_real_total : ∀ a > 0, latent eps cr (.vec (shares cr.ncand S a)) = latent eps cr (.subset S)
   (the guarded classes leave a vector whose total is below 1e-10 unnormalised). -/
/-- a real contribution vector with any total `a > 0` (at least `eps` for the guarded classes) encodes
    the same parental contributions as the subset -/
theorem encodings_agree_real_total_partial (eps : α) (cr : Crit α) (hv : cr.hasVec = true)
    (S : List Nat) (hnd : S.Nodup) (hne : S ≠ []) (hS : ∀ i ∈ S, i < cr.ncand) (a : α) (ha : 0 < a)
    (hga : cr.guarded = true → eps ≤ a) :
    latent eps cr (.vec (shares cr.ncand S a)) = latent eps cr (.subset S) := by
  rw [latent_vec, contrib_shares _ eps _ S hS hne a ha hga, subset_eq_core eps cr hv S hnd hS]

example : (0:ℚ) < 7 ∧ ((Crit.mgr [[(1:ℚ), 2], [0, 3]]).guarded = true → (1:ℚ) / 10 ^ 10 ≤ 7) := by
  refine ⟨by norm_num, fun _ => by norm_num⟩

/-- the hypothesis `eps ≤ a` is necessary for the guarded classes: the real vector `1e-11 · 1_{0}` encodes the
    subset {0} but gets the EBV latent value −1e-11, the subset class gives −1 -/
theorem encodings_real_total_guard_counterexample (inst : HasSqrt Rat) :
    latent (mkRat 1 (10 ^ 10)) (.lin true [[1], [0]]) (.vec (shares 2 [0] (mkRat 1 (10 ^ 11))))
      ≠ latent (mkRat 1 (10 ^ 10)) (.lin true [[1], [0]]) (.subset [0]) := by
  show some (linCore [[1], [0]] (contrib true (mkRat 1 (10 ^ 10)) (shares 2 [0] (mkRat 1 (10 ^ 11))))) ≠
       some (linSubset [[1], [0]] [0])
  decide +kernel

/-- **Order independence.**  The latent vector of a subset does not depend on the order in which the
    subset is listed — all eleven criterion families, no side condition. -/
theorem subset_order_invariant (eps : α) (cr : Crit α) (S S' : List Nat) (h : S.Perm S') :
    latent eps cr (.subset S) = latent eps cr (.subset S') :=
  latent_subset_perm eps cr S S' h

example : ([3, 0, 2] : List Nat).Perm [0, 2, 3] := by decide

/- FULL STATEMENT (false of the as-is model, see `scale_guard_counterexample`):
   theorem scale_invariant : ∀ a > 0, Np.sum x ≠ 0 → latent eps cr (.vec (x.map (a * ·))) = latent eps cr (.vec x) -/
/-- **Positive rescaling** of a contribution vector leaves the latent vector unchanged, provided the
    totals of both vectors are outside the 1e-10 guard (no condition for the unguarded classes beyond a
    non-zero total). -/
theorem scale_invariant_partial (eps : α) (cr : Crit α) (x : List α) (a : α) (ha : 0 < a)
    (h0 : Np.sum x ≠ 0) (hg : cr.guarded = true → eps ≤ |Np.sum x| ∧ eps ≤ |a * Np.sum x|) :
    latent eps cr (.vec (x.map (fun v => a * v))) = latent eps cr (.vec x) := by
  rw [latent_vec, latent_vec, contrib_scale _ eps x a ha h0 hg]

example : (0:ℚ) < 3 ∧ Np.sum [(1:ℚ), 0, 2] ≠ 0 ∧
    ((1:ℚ) / 10 ^ 10 ≤ |Np.sum [(1:ℚ), 0, 2]| ∧ (1:ℚ) / 10 ^ 10 ≤ |3 * Np.sum [(1:ℚ), 0, 2]|) := by
  have : Np.sum [(1:ℚ), 0, 2] = 3 := by norm_num [Np.sum]
  rw [this]
  refine ⟨by norm_num, by norm_num, ?_, ?_⟩ <;> (rw [abs_of_pos] <;> norm_num)

/-- inside the guard the classes do depend on the scale: x = (1e-11, 0) and 1e11·x = (1, 0) get different
    EBV latent vectors (−1e-11 and −1) -/
theorem scale_guard_counterexample (inst : HasSqrt Rat) :
    latent (mkRat 1 (10 ^ 10)) (.lin true [[1], [0]]) (.vec [mkRat 1 (10 ^ 11), 0])
      ≠ latent (mkRat 1 (10 ^ 10)) (.lin true [[1], [0]])
          (.vec ([mkRat 1 (10 ^ 11), 0].map (fun v => (10 ^ 11 : Rat) * v))) := by
  show some (linCore [[1], [0]] (contrib true (mkRat 1 (10 ^ 10)) [mkRat 1 (10 ^ 11), 0])) ≠
       some (linCore [[1], [0]] (contrib true (mkRat 1 (10 ^ 10))
         ([mkRat 1 (10 ^ 11), 0].map (fun v => (10 ^ 11 : Rat) * v))))
  decide +kernel

end encodings

/-! ### the latent vector is the criterion's definition -/
section definitions
variable {α : Type} [Field α] [LinearOrder α] [IsStrictOrderedRing α] [HasSqrt α]

/-- vector classes: the latent vector is the shared closed form `core` evaluated at the normalised
    decision vector `x / Σx` -/
theorem vec_latent_normalised (eps : α) (cr : Crit α) (x : List α)
    (hg : cr.guarded = true → eps ≤ |Np.sum x|) :
    latent eps cr (.vec x) = core cr (x.map fun v => v / Np.sum x) := by
  rw [latent_vec]
  congr 1
  unfold contrib
  have : (if cr.guarded = true then xsumGuard eps x else Np.sum x) = Np.sum x := by
    by_cases h : cr.guarded = true
    · rw [if_pos h]; exact xsumGuard_of_le eps x (hg h)
    · rw [if_neg h]
  simp only [this]
  apply List.map_congr_left
  intro v _
  rw [one_div, div_eq_inv_mul]

/-- EBV / GEBV / wGEBV / gwGEBV / random / EMBV / UC / OHV, vector classes:
    latent_j = −(Σ_i x_i·D_ij) / (Σ_i x_i) -/
theorem lin_vec_def (eps : α) (g : Bool) (D : List (List α)) (x : List α)
    (hg : g = true → eps ≤ |Np.sum x|) :
    latent eps (.lin g D) (.vec x) = some ((List.range (ncols D)).map fun j =>
      -((∑ i ∈ range x.length, vget x i * ent D i j) / Np.sum x)) := by
  rw [vec_latent_normalised eps (.lin g D) x hg]
  simp only [core]
  rw [linCore_eq]
  congr 1
  apply List.map_congr_left
  intro j _
  simp only [List.length_map]
  rw [Finset.sum_div]
  congr 1
  apply Finset.sum_congr rfl
  intro i _
  have : vget (x.map fun v => v / Np.sum x) i = vget x i / Np.sum x :=
    vget_map x (fun v => v / Np.sum x) (by simp) i
  rw [this]
  ring

/-- the same criteria, subset classes: latent_j = −(mean of D_ij over the listed members) -/
theorem lin_subset_def (eps : α) (g : Bool) (D : List (List α)) (S : List Nat) :
    latent eps (.lin g D) (.subset S) = some ((List.range (ncols D)).map fun j =>
      -((S.map fun i => ent D i j).sum / (S.length : α))) := by
  simp only [latent, linSubset]
  congr 1
  apply List.map_congr_left
  intro j _
  rw [ssum_eq]
  unfold indcontrib
  ring

/-- **Kinship factor.**  If `K = CᵀC` (what `cholesky(K).T` delivers) then ‖C c‖² = cᵀ K c. -/
theorem norm_via_factor (C : List (List α)) (c : List α) (K : Nat → Nat → α)
    (hK : ∀ i j, i < c.length → j < c.length → K i j = ∑ r ∈ range C.length, ent C r i * ent C r j) :
    normSq (matVec C c) = ∑ i ∈ range c.length, ∑ j ∈ range c.length, vget c i * K i j * vget c j :=
  normSq_matVec C c K hK

/-- mean genomic relationship, vector classes, for a lawful square root: the latent value is the
    non-negative `r` with `r² = cᵀ K c`, `c = x/Σx`, `K = CᵀC` -/
theorem mgr_vec_def (eps : α) (C : List (List α)) (x : List α) (hg : eps ≤ |Np.sum x|)
    (hsqrt : ∀ q : α, 0 ≤ q → 0 ≤ HasSqrt.sqrt q ∧ HasSqrt.sqrt q * HasSqrt.sqrt q = q)
    (K : Nat → Nat → α)
    (hK : ∀ i j, i < x.length → j < x.length → K i j = ∑ r ∈ range C.length, ent C r i * ent C r j) :
    ∃ r : α, latent eps (.mgr C) (.vec x) = some [r] ∧ 0 ≤ r ∧
      r * r = ∑ i ∈ range x.length, ∑ j ∈ range x.length,
        (vget x i / Np.sum x) * K i j * (vget x j / Np.sum x) := by
  refine ⟨norm2 (matVec C (x.map fun v => v / Np.sum x)), ?_, ?_, ?_⟩
  · rw [vec_latent_normalised eps (.mgr C) x (fun _ => hg)]; rfl
  · exact (hsqrt _ (normSq_nonneg _)).1
  · unfold norm2
    rw [(hsqrt _ (normSq_nonneg _)).2]
    have := normSq_matVec C (x.map fun v => v / Np.sum x) K (by simpa using hK)
    rw [this]
    simp only [List.length_map]
    apply Finset.sum_congr rfl
    intro i _
    apply Finset.sum_congr rfl
    intro j _
    rw [vget_map x (fun v => v / Np.sum x) (by simp) i, vget_map x (fun v => v / Np.sum x) (by simp) j]

/-- the hypothesis `hsqrt` of `mgr_vec_def` is met by the real square root -/
noncomputable instance : HasSqrt ℝ := ⟨Real.sqrt⟩
example : ∀ q : ℝ, 0 ≤ q → 0 ≤ HasSqrt.sqrt q ∧ HasSqrt.sqrt q * HasSqrt.sqrt q = q :=
  fun q hq => ⟨Real.sqrt_nonneg q, Real.mul_self_sqrt hq⟩

/-- optimal contribution = [mean genomic relationship] ++ EBV gain; mean expected heterozygosity =
    −(1 − mean genomic relationship): the composite classes reuse the simple criteria's values -/
theorem ocs_components (eps : α) (C D : List (List α)) (d : Decn α) :
    latent eps (.ocs C D) d =
      (do let m ← latent eps (.mgr C) d
          let g ← latent eps (.lin true D) d
          some (m ++ g)) := by
  cases d <;> rfl

theorem meh_of_mgr (eps : α) (C : List (List α)) (d : Decn α) :
    latent eps (.meh C) d = (latent eps (.mgr C) d).map (fun l => l.map fun r => -(1 - r)) := by
  cases d <;> rfl

/-- family criterion, vector classes: the EBV gain followed, per family `f`, by minus the total
    normalised contribution of the members of `f` -/
theorem family_vec_def (eps : α) (D : List (List α)) (fix : List Nat) (nfam : Nat) (x : List α) :
    latent eps (.family D fix nfam) (.vec x) =
      some (linCore D (x.map fun v => v / Np.sum x) ++ (List.range nfam).map fun f =>
        -(∑ i ∈ (range fix.length).filter (fun i => fix.getD i 0 = f), vget x i / Np.sum x)) := by
  rw [vec_latent_normalised eps (.family D fix nfam) x (fun h => by simp [Crit.guarded] at h)]
  simp only [core]
  congr 2
  apply List.map_congr_left
  intro f _
  unfold bincountAt
  rw [rsum_eq, Finset.sum_filter]
  congr 1
  apply Finset.sum_congr rfl
  intro i _
  rw [vget_map x (fun v => v / Np.sum x) (by simp) i]
  by_cases h : fix.getD i 0 = f <;> simp [h]

/-- the contribution shares of a listed parent set add up to one -/
theorem shares_sum_one (n : Nat) (S : List Nat) (hS : ∀ i ∈ S, i < n) (hne : S ≠ []) :
    ∑ i ∈ range n, vget (unitShares (α := α) n S) i = 1 :=
  sum_unitShares n S hS hne

/-- **L1-norm genomic selection from the underlying data.**  For a problem built by `from_numpy`
    (`V = _calc_V(mkrwt, tafreq, tfreq)`) and contributions `c` with `Σc = 1`, the latent value of trait
    `t` is `Σ_m |mkrwt_mt · (Σ_i c_i·tafreq_im − tfreq_mt)|`. -/
theorem l1_def (mk ta tf : List (List α)) (c : List α) (hc : c.length = ta.length)
    (hsum : ∑ i ∈ range c.length, vget c i = 1) (t : Nat) (ht : t < ncols mk) :
    norm1 (matVec ((calcV mk ta tf).getD t []) c)
      = ∑ m ∈ range mk.length, |ent mk m t * ((∑ i ∈ range ta.length, vget c i * ent ta i m) - ent tf m t)| :=
  l1_row_def mk ta tf c hc hsum t ht

example : ([(1:ℚ)/2, 1/2] : List ℚ).length = [[(0:ℚ), 1], [1, 1]].length ∧
    ∑ i ∈ range ([(1:ℚ)/2, 1/2] : List ℚ).length, vget [(1:ℚ)/2, 1/2] i = 1 := by
  refine ⟨rfl, ?_⟩
  simp [Finset.sum_range_succ, vget]
  norm_num

/-- allele-frequency distance: the selection's allele frequency entering PAFD / PAU / MOGS is the
    share-weighted mean genotype over the ploidy -/
theorem pafd_def (geno : List (List α)) (ploidy : Nat) (w tf : List (List α)) (S : List Nat)
    (hS : ∀ i ∈ S, i < geno.length) (hne : S ≠ []) (hp : 0 < ploidy) :
    pafdSubset geno ploidy w tf S = (List.range (ncols w)).map fun j =>
      ∑ m ∈ range w.length, ent w m j *
        |ent tf m j - (∑ i ∈ range geno.length, vget (unitShares geno.length S) i * ent geno i m) / (ploidy : α)| := by
  unfold pafdSubset
  apply List.map_congr_left
  intro j _
  rw [rsum_eq]
  apply Finset.sum_congr rfl
  intro m _
  rw [absv_eq_abs, pfreq_eq geno ploidy geno.length S hS hne hp m]

/-- the multi-objective class scores allele unavailability exactly by its definition -/
theorem mogs_pau_def (eps : α) (geno : List (List α)) (ploidy : Nat) (w tf : List (List α)) (S : List Nat) :
    latent eps (.mogs geno ploidy w tf) (.subset S)
      = some (pauDef geno ploidy w tf S ++ pafdSubset geno ploidy w tf S) := by
  simp only [latent]
  rw [mogsPau_eq_def]

/-- **Allele unavailability** (stand-alone class, after repair 59e0f579): for target frequencies in [0,1]
    the latent vector is `Σ_m mkrwt_mj · [target (m,j) cannot be attained from the selection]` -/
theorem pau_def (eps : α) (geno : List (List α)) (ploidy : Nat) (w tf : List (List α)) (S : List Nat)
    (hfreq : ∀ m j, m < w.length → j < ncols w → 0 ≤ ent tf m j ∧ ent tf m j ≤ 1) :
    latent eps (.pau geno ploidy w tf) (.subset S) = some (pauDef geno ploidy w tf S) := by
  simp only [latent]
  rw [pauSubset_eq_def geno ploidy w tf S hfreq]

example : ∀ m j, m < [[(1:ℚ)], [10]].length → j < ncols [[(1:ℚ)], [10]] →
    0 ≤ ent [[(1:ℚ)], [0]] m j ∧ ent [[(1:ℚ)], [0]] m j ≤ 1 := by
  intro m j hm hj
  have hj0 : j = 0 := by simpa [ncols] using hj
  subst hj0
  simp only [List.length_cons, List.length_nil] at hm
  interval_cases m <;> norm_num [ent]

/-- the stand-alone class and the multi-objective class agree on the unavailability half -/
theorem pau_eq_mogs_half (eps : α) (geno : List (List α)) (ploidy : Nat) (w tf : List (List α)) (S : List Nat)
    (hfreq : ∀ m j, m < w.length → j < ncols w → 0 ≤ ent tf m j ∧ ent tf m j ≤ 1) :
    latent eps (.mogs geno ploidy w tf) (.subset S)
      = (latent eps (.pau geno ploidy w tf) (.subset S)).map (· ++ pafdSubset geno ploidy w tf S) := by
  rw [mogs_pau_def, pau_def eps geno ploidy w tf S hfreq]
  rfl

/-- why repair 59e0f579 matters: with `_tmajor = _calc_tminor(tfreq)` two parents fixed for the allele at
    locus 0 and lacking it at locus 1, targets (1, 0) — both already attained — scored 1; the repaired
    class and the definition give 0 -/
theorem pau_tmajor_prerepair_counterexample :
    pauSubsetPrerepair [[2, 0], [2, 0]] 2 [[1], [10]] [[1], [0]] [0, 1] = [(1 : Rat)]
    ∧ pauSubset [[2, 0], [2, 0]] 2 [[1], [10]] [[1], [0]] [0, 1] = [(0 : Rat)]
    ∧ pauDef [[2, 0], [2, 0]] 2 [[1], [10]] [[1], [0]] [0, 1] = [(0 : Rat)] := by
  decide +kernel

end definitions

/-! ### kinship-factor criteria: relabelling of the candidates, L2 as per-slice MGR -/
section kinship
variable {α : Type} [Field α] [LinearOrder α] [IsStrictOrderedRing α] [HasSqrt α]

/-- **Taxa relabelling, subset classes** (OCS / MGR / MEH / L2): re-ordering the columns of the kinship
    factor(s) (and the rows of the breeding values) by `π` and listing the subset by the new positions gives
    the latent vector of the original problem at the original indices. -/
theorem kinship_relabel_subset (eps : α) (π : List Nat) (cr : Crit α) (hv : KinshipValid π cr) (S : List Nat)
    (hS : ∀ i ∈ S, i < π.length) (hne : S ≠ []) :
    latent eps (relabelCols π cr) (.subset S) = latent eps cr (.subset (S.map fun i => π.getD i 0)) :=
  latent_relabel_subset eps π cr hv S hS hne

/-- **Taxa relabelling, real / integer / binary classes**: for a permutation `π` of the candidates, the
    relabelled problem at the relabelled decision vector `x[π]` has the latent vector of the original. -/
theorem kinship_relabel_vec (eps : α) (π : List Nat) (cr : Crit α) (x : List α)
    (hπ : π.Perm (List.range x.length)) (hv : KinshipValidVec x.length cr) :
    latent eps (relabelCols π cr) (.vec (Np.take π x)) = latent eps cr (.vec x) :=
  latent_relabel_vec eps π cr x hπ hv

example : ([2, 0, 1] : List Nat).Perm (List.range ([(1:ℚ), 0, 2] : List ℚ).length) ∧
    KinshipValidVec (α := ℚ) 3 (.mgr [[1, 2, 3], [0, 4, 5], [0, 0, 6]]) ∧
    KinshipValid (α := ℚ) [2, 0, 1] (.mgr [[1, 2, 3], [0, 4, 5], [0, 0, 6]]) := by
  refine ⟨by decide, ?_, ?_⟩
  · intro r hr; simp at hr; rcases hr with rfl | rfl | rfl <;> rfl
  · intro r hr p hp; simp at hr hp
    rcases hr with rfl | rfl | rfl <;> rcases hp with rfl | rfl | rfl <;> decide

/-- **L2 = per-slice MGR**, subset classes: entry `t` of the L2 latent vector is the mean genomic
    relationship computed from slice `t` -/
theorem l2_is_slicewise_mgr_subset (eps : α) (Cs : List (List (List α))) (S : List Nat) :
    latent eps (.l2 Cs) (.subset S)
      = some (Cs.map fun Ct => ((latent eps (.mgr Ct) (.subset S)).getD []).headD 0) :=
  l2_subset_slices eps Cs S

/- FULL STATEMENT (false of the as-is model, see `l2_mgr_guard_counterexample`):
   theorem l2_is_slicewise_mgr_vec : ∀ x, latent eps (.l2 Cs) (.vec x) = some (Cs.map fun Ct => … mgr Ct … x)
   (the L2 classes compute `1/x.sum()` unguarded, the MGR classes replace a total below 1e-10 by 1). -/
theorem l2_is_slicewise_mgr_vec_partial (eps : α) (Cs : List (List (List α))) (x : List α)
    (hg : eps ≤ |Np.sum x|) :
    latent eps (.l2 Cs) (.vec x)
      = some (Cs.map fun Ct => ((latent eps (.mgr Ct) (.vec x)).getD []).headD 0) :=
  l2_vec_slices eps Cs x hg

/-- inside the guard the two families normalise differently: for x = (1e-11, 0) the MGR classes use x as it
    is, the L2 classes use x/Σx = (1, 0) -/
theorem l2_mgr_guard_counterexample :
    contrib true (mkRat 1 (10 ^ 10)) [mkRat 1 (10 ^ 11), 0] = [mkRat 1 (10 ^ 11), 0] ∧
    contrib false (mkRat 1 (10 ^ 10)) [mkRat 1 (10 ^ 11), 0] = [(1 : Rat), 0] := by
  decide +kernel

end kinship

/-! ### genotype builder -/
section genotypeBuilder
variable {α : Type} [Field α] [LinearOrder α] [IsStrictOrderedRing α] [HasSqrt α]

/-- **Genotype builder with every selected founder counted** (`nbestfndr = len(x)`): the latent value is
    `−(ploidy/k) · Σ_blocks Σ_{i∈S} (best phase value of i)` — the sort drops out. -/
theorem gb_all_founders (eps : α) (H : List (List (List (List α)))) (S : List Nat) :
    latent eps (.gb H S.length) (.subset S) = some
      ((List.range (((H.headD []).headD []).headD []).length).map fun j =>
        (-(((H.length : Nat) : α) / ((S.length : Nat) : α))) * rsum ((H.headD []).headD []).length (fun b =>
          ssum S fun i => maxL (H.map fun Hp => ((Hp.getD i []).getD b []).getD j 0))) := by
  simp only [latent]
  rw [gbSubset_all]

/-- **Genotype builder with one best founder = optimal population value**: the best of the members' best
    phases is the maximum over all phases of all members. -/
theorem gb_one_founder_is_opv (eps : α) (H : List (List (List (List α)))) (S : List Nat) (hH : H ≠ [])
    (hS : S ≠ []) :
    latent eps (.gb H 1) (.subset S) = latent eps (.opv H) (.subset S) := by
  simp only [latent]
  rw [gbSubset_one H S hH hS]

example : ([[[[(1:ℚ)]]], [[[2]]]] : List (List (List (List ℚ)))) ≠ [] ∧ ([0] : List Nat) ≠ [] := by
  constructor <;> simp

end genotypeBuilder

/-! ### the Spec oracle evaluated by the harness accepts every output of the model -/
section spec
variable {α : Type} [Field α] [LinearOrder α] [IsStrictOrderedRing α] [HasSqrt α]

/-- **Spec soundness, vector classes.**  `Selection.Spec.definition` — what `c05.spec_latent` evaluates on
    the implementation's outputs: zipped `Np.dot`, explicit `K = CᵀC` via `Np.transpose`, square roots in
    squared form — accepts the model's latent vector of every decision vector of the right length outside
    the guard, with any tolerance ≥ 0 (so in particular exactly), for every well-formed criterion with
    vector classes and a lawful square root. -/
theorem spec_sound_vec (eps rel abs_ : α) (h : 0 ≤ abs_) (hs : LawfulSqrt α) (cr : Crit α)
    (hv : cr.hasVec = true) (hwf : cr.WellFormed) (x : List α) (hx : x.length = cr.ncand)
    (hg : cr.guarded = true → eps ≤ |Np.sum x|) (supp : List Nat) (l : List α)
    (hl : latent eps cr (.vec x) = some l) :
    accepts rel abs_ (definition cr (x.map fun v => v / Np.sum x) supp) l = true := by
  rw [vec_latent_normalised eps cr x hg] at hl
  exact spec_core_sound rel abs_ h hs cr hv hwf _ (by simpa using hx) supp l hl

/-- **Spec soundness, subset classes** (all criterion families except the genotype builder, whose
    "nbest largest" is defined through a descending sort in the Spec and an ascending one in the code). -/
theorem spec_sound_subset (eps rel abs_ : α) (h : 0 ≤ abs_) (hs : LawfulSqrt α) (cr : Crit α)
    (hwf : cr.WellFormed) (hgb : ∀ H nb, cr ≠ .gb H nb) (S : List Nat) (hnd : S.Nodup) (hne : S ≠ [])
    (hS : ∀ i ∈ S, i < cr.ncand) (l : List α) (hl : latent eps cr (.subset S) = some l) :
    accepts rel abs_ (definition cr (unitShares cr.ncand S) S) l = true := by
  by_cases hv : cr.hasVec = true
  · rw [subset_eq_core eps cr hv S hnd hS] at hl
    exact spec_core_sound rel abs_ h hs cr hv hwf _ (unitShares_length _ _) S l hl
  · exact spec_subset_only_sound eps rel abs_ h cr hwf S hS hne l hl (by simpa using hv) hgb

/- FULL STATEMENT (false of the as-is model, see `gb_nbest_exceeds_selection_counterexample`):
   theorem spec_sound_subset_gb : ∀ nb S, accepts … (definition (.gb H nb) …) (latent (.gb H nb) (.subset S))
   (for `nbestfndr > len(x)` the slice start `k - nbestfndr` is negative and Python counts it from the end). -/
/-- **Spec soundness, genotype builder**, for `nbestfndr ≤ len(x)` (the best founders are taken out of the
    selected ones): the Spec's "sum of the nbest largest" (descending sort, `take`) is the code's ascending sort and
    slice `[k - nbest : k]`. -/
theorem spec_sound_subset_gb_partial (eps rel abs_ : α) (h : 0 ≤ abs_) (H : List (List (List (List α))))
    (nb : Nat) (S : List Nat) (hk : nb ≤ S.length) (l : List α)
    (hl : latent eps (.gb H nb) (.subset S) = some l) :
    accepts rel abs_ (definition (.gb H nb) (unitShares (Crit.gb H nb).ncand S) S) l = true :=
  spec_gb_sound eps rel abs_ h H nb S hk l hl

example : (2 : Nat) ≤ ([0, 2, 1] : List Nat).length := by decide

/-- with more "best founders" than selected individuals the class does not return the mean of the available best
    phases: two selected founders with block values 1 and 2, `nbestfndr = 3`: slice `[-1:2]` keeps only the best
    one (value −2/3), the definition on the two available founders gives −(1+2)/3 = −1 -/
theorem gb_nbest_exceeds_selection_counterexample (inst : HasSqrt Rat) :
    latent (mkRat 1 (10 ^ 10)) (.gb [[[[(1 : Rat)]], [[2]]]] 3) (.subset [0, 1]) = some [mkRat (-2) 3] ∧
    accepts (0 : Rat) 0 (definition (.gb [[[[(1 : Rat)]], [[2]]]] 3) [1/2, 1/2] [0, 1]) [mkRat (-2) 3] = false := by
  constructor
  · show some (gbSubset [[[[(1 : Rat)]], [[2]]]] 3 [0, 1]) = some [mkRat (-2) 3]
    decide +kernel
  · decide +kernel

/-- **The Spec is as strong as the model (vector classes).**  With zero tolerance `Selection.Spec.definition`
    accepts exactly one vector — the model's latent vector: the oracle evaluated on the implementation's output
    demands the criterion's definition, nothing weaker. -/
theorem spec_exact_iff_vec (eps : α) (hs : LawfulSqrt α) (cr : Crit α) (hv : cr.hasVec = true)
    (hwf : cr.WellFormed) (x : List α) (hx : x.length = cr.ncand) (hg : cr.guarded = true → eps ≤ |Np.sum x|)
    (supp : List Nat) (l : List α) (hl : latent eps cr (.vec x) = some l) (l' : List α) :
    accepts 0 0 (definition cr (x.map fun v => v / Np.sum x) supp) l' = true ↔ l' = l := by
  have hsound := spec_sound_vec eps 0 0 (le_refl 0) hs cr hv hwf x hx hg supp l hl
  exact ⟨fun h => accepts_exact_unique _ l' l h hsound, fun h => h ▸ hsound⟩

/-- the same for the subset classes (genotype builder: `nbestfndr ≤ len(x)`, see below) -/
theorem spec_exact_iff_subset (eps : α) (hs : LawfulSqrt α) (cr : Crit α) (hwf : cr.WellFormed)
    (hgb : ∀ H nb, cr ≠ .gb H nb) (S : List Nat) (hnd : S.Nodup) (hne : S ≠ []) (hS : ∀ i ∈ S, i < cr.ncand)
    (l : List α) (hl : latent eps cr (.subset S) = some l) (l' : List α) :
    accepts 0 0 (definition cr (unitShares cr.ncand S) S) l' = true ↔ l' = l := by
  have hsound := spec_sound_subset eps 0 0 (le_refl 0) hs cr hwf hgb S hnd hne hS l hl
  exact ⟨fun h => accepts_exact_unique _ l' l h hsound, fun h => h ▸ hsound⟩

/-- **Contract oracle `c05.spec_factor`** (`Selection.Spec.factorOk`, evaluated on every kinship factor a factory
    returns): it accepts the exact Gram matrix `CᵀC` for every tolerance ≥ 0, … -/
theorem spec_factor_sound (rel abs_ : α) (h : 0 ≤ abs_) (C : List (List α)) :
    factorOk rel abs_ C (gram C) = true :=
  factorOk_self rel abs_ h C

/-- … with zero tolerance it accepts nothing else, … -/
theorem spec_factor_exact_iff (C K : List (List α)) : factorOk 0 0 C K = true ↔ K = gram C :=
  ⟨factorOk_exact C K, fun h => h ▸ factorOk_self 0 0 (le_refl 0) C⟩

/-- … and what it certifies is what the criteria need: `‖C c‖² = cᵀ K c` (the first latent component of the
    optimal-contribution / mean-relationship / heterozygosity / L2 classes is the root of this) -/
theorem spec_factor_gives_norm (C K : List (List α)) (c : List α) (hrect : ∀ r ∈ C, r.length = c.length)
    (hne : C ≠ []) (h : factorOk 0 0 C K = true) :
    normSq (matVec C c) = ∑ i ∈ range c.length, ∑ j ∈ range c.length, vget c i * ent K i j * vget c j :=
  factor_contract_norm C K c hrect hne h

example : factorOk (0:ℚ) 0 [[2, 1], [0, 3]] [[4, 2], [2, 10]] = true := by decide +kernel

example : LawfulSqrt ℝ := fun q hq => ⟨Real.sqrt_nonneg q, Real.mul_self_sqrt hq⟩
example : (Crit.ocs [[(2:ℚ), 1], [0, 3]] [[1, 2], [3, 4]]).WellFormed ∧
    (Crit.pau [[(2:ℚ), 0], [2, 0]] 2 [[1], [10]] [[1], [0]]).WellFormed := by
  refine ⟨⟨?_, rfl⟩, by decide, ?_⟩
  · intro r hr; simp at hr; rcases hr with rfl | rfl <;> rfl
  · intro m j hm hj
    have hj0 : j = 0 := by simpa [ncols] using hj
    subst hj0
    simp only [List.length_cons, List.length_nil] at hm
    interval_cases m <;> norm_num [ent]

/-- the Spec's zipped dot product is the model's indexed sum -/
theorem dot_eq_range_sum (a b : List α) (hab : a.length ≤ b.length) :
    Np.dot a b = ∑ i ∈ range a.length, vget a i * vget b i :=
  np_dot_eq a b hab

end spec

/-! ### evalfn -/
section evalfn
variable {α : Type} [Field α] [LinearOrder α] [IsStrictOrderedRing α]

/-- **evalfn.**  The three reported vectors are the declared weights times the declared transformations
    of the decision vector and its latent vector, entry by entry. -/
theorem evalfn_def (ow iw ew : List α) (tO tI tE : Trans α) (x l : List α) :
    evalfn ow iw ew tO tI tE x l =
      (List.zipWith (· * ·) ow (tO.apply x l), List.zipWith (· * ·) iw (tI.apply x l),
       List.zipWith (· * ·) ew (tE.apply x l)) := rfl

theorem evalfn_obj_entry (ow iw ew : List α) (tO tI tE : Trans α) (x l : List α) (i : Nat)
    (h1 : i < ow.length) (h2 : i < (tO.apply x l).length) :
    (evalfn ow iw ew tO tI tE x l).1[i]? = some (ow[i] * (tO.apply x l)[i]) := by
  simp [evalfn, wmul, List.getElem?_zipWith, h1, h2]

/-- the constraint vectors are computed from the latent vector itself: they do not depend on the objective
    weights or the objective transformation (no role sees another role's weighted output), and vice versa -/
theorem evalfn_roles_independent (ow ow' iw ew : List α) (tO tO' tI tE : Trans α) (x l : List α) :
    (evalfn ow iw ew tO tI tE x l).2 = (evalfn ow' iw ew tO' tI tE x l).2 ∧
    (evalfn ow iw ew tO tI tE x l).1 = (evalfn ow [] [] tO .empty .empty x l).1 := ⟨rfl, rfl⟩

/-- the built-in transformations: identity returns the latent vector, `trans_sum` its total,
    `trans_dot` the weighted total, `trans_empty` nothing -/
theorem trans_builtin (x l w : List α) :
    (Trans.identity : Trans α).apply x l = l ∧ (Trans.sum : Trans α).apply x l = [l.sum] ∧
    (Trans.dot w).apply x l = [(List.zipWith (· * ·) w l).sum] ∧ (Trans.empty : Trans α).apply x l = [] := by
  refine ⟨rfl, ?_, ?_, rfl⟩ <;> simp [Trans.apply, np_sum_eq]

end evalfn

/-! ### factory data paths -/
section factories
variable {α : Type} [Field α] [LinearOrder α] [IsStrictOrderedRing α] [HasSqrt α]

/-- **Cross maps are complete.**  `_calc_xmap` lists exactly the parent tuples of the requested length
    over the taxa that are strictly increasing (`unique_parents`) / non-decreasing (selfs allowed). -/
theorem xmap_complete (ntaxa nparent : Nat) (uniq : Bool) (l : List Nat) :
    l ∈ calcXmap ntaxa nparent uniq ↔
      l.length = nparent ∧ (∀ x ∈ l, x < ntaxa) ∧ l.Pairwise (fun a b => if uniq then a < b else a ≤ b) := by
  unfold calcXmap
  rw [triu_mem_iff]
  have : crossRel (!uniq) = fun a b => if uniq then a < b else a ≤ b := by
    funext a b
    unfold crossRel
    cases uniq <;> simp
  rw [this]
  simp

/-- … and lists each of them once -/
theorem xmap_nodup (ntaxa nparent : Nat) (uniq : Bool) : (calcXmap ntaxa nparent uniq).Nodup :=
  triu_nodup _ _ _ _

example : [0, 2] ∈ calcXmap 3 2 true ∧ [1, 1] ∈ calcXmap 3 2 false ∧ [1, 1] ∉ calcXmap 3 2 true := by decide

/-- **Taxon order.**  The breeding-value data of a problem built by `from_bvmat` is row-wise in the
    matrix's taxon order: selecting / permuting taxa before or after the factory gives the same rows. -/
theorem factory_taxon_order_bv (u : Bool) (mat : List (List α)) (loc sc : List α) (is : List Nat) :
    bvData u (Np.take is mat) loc sc = Np.take is (bvData u mat loc sc) :=
  bvData_take u mat loc sc is

/-- **Data follow the taxa.**  Re-ordering the candidates' data rows by `π` and listing the subset by the
    new positions gives the latent vector of the original data at the original indices (linear criteria). -/
theorem lin_relabel (eps : α) (g : Bool) (D : List (List α)) (π S : List Nat)
    (hD : ∀ p ∈ π, p < D.length) (hS : ∀ i ∈ S, i < π.length) (hne : S ≠ []) (t : Nat)
    (hrect : ∀ r ∈ D, r.length = t) :
    latent eps (.lin g (Np.take π D)) (.subset S)
      = latent eps (.lin g D) (.subset (S.map fun i => π.getD i 0)) := by
  simp only [latent]
  rw [linSubset_relabel D π S hD hS hne t hrect]

example : (∀ p ∈ ([2, 0, 1] : List Nat), p < [[(1:ℚ), 2], [3, 4], [5, 7]].length) ∧
    (∀ i ∈ ([1, 2] : List Nat), i < ([2, 0, 1] : List Nat).length) ∧
    (∀ r ∈ [[(1:ℚ), 2], [3, 4], [5, 7]], r.length = 2) := by
  refine ⟨by decide, by decide, ?_⟩
  intro r hr
  simp at hr
  rcases hr with rfl | rfl | rfl <;> rfl

/-- `unscale = True`: datum (i, j) is `scale_j · mat_ij + location_j` -/
theorem bv_unscale_entry (mat : List (List α)) (loc sc : List α) (i j : Nat) (hi : i < mat.length)
    (hj : j < (mat.getD i []).length) :
    ent (bvData true mat loc sc) i j = vget sc j * ent mat i j + vget loc j :=
  bvData_entry mat loc sc i j hi hj

theorem bv_noscale (mat : List (List α)) (loc sc : List α) : bvData false mat loc sc = mat := by
  simp [bvData]

theorem factory_taxon_order_wgebv (Z u pw : List (List α)) (is : List Nat) :
    wgebvData (Np.take is Z) u pw = Np.take is (wgebvData Z u pw) :=
  wgebvData_take Z u pw is

/-- usefulness criterion of cross `i` = parental mean (weighted by `epgc`) of the parents named by
    `xmap[i]` + intensity · √(progeny variance of that cross), for every progeny variance that is a variance
    (non-negative).  (Since repair dbcebcc2 the code clips a variance that rounding left below zero to 0 before the
    root — `Selection.clip0`, the identity on non-negative values.) -/
theorem uc_row_def (epgc : List α) (bv : List (List α)) (intensity : α) (xmap : List (List Nat))
    (pvar : List (List α)) (i : Nat) (hi : i < xmap.length) (hv : ∀ j, j < ncols bv → 0 ≤ ent pvar i j) :
    (calcUc epgc bv intensity xmap pvar).getD i [] =
      (List.range (ncols bv)).map fun j =>
        rsum (xmap.getD i []).length (fun p => vget epgc p * ent bv ((xmap.getD i []).getD p 0) j)
          + intensity * HasSqrt.sqrt (ent pvar i j) := by
  rw [calcUc_row epgc bv intensity xmap pvar i hi]
  apply List.map_congr_left
  intro j hj
  have : clip0 (ent pvar i j) = ent pvar i j := by
    unfold clip0
    rw [if_neg (not_lt.mpr (hv j (List.mem_range.mp hj)))]
  rw [this]

/-- … and a "variance" that rounding left below zero contributes nothing instead of NaN: the row is the parental
    mean alone when the square root of 0 is 0 -/
theorem uc_row_negative_variance_clipped (epgc : List α) (bv : List (List α)) (intensity : α) (xmap : List (List Nat))
    (pvar : List (List α)) (i : Nat) (hi : i < xmap.length) (hv : ∀ j, j < ncols bv → ent pvar i j < 0)
    (hs0 : HasSqrt.sqrt (0 : α) = 0) :
    (calcUc epgc bv intensity xmap pvar).getD i [] =
      (List.range (ncols bv)).map fun j =>
        rsum (xmap.getD i []).length (fun p => vget epgc p * ent bv ((xmap.getD i []).getD p 0) j) := by
  rw [calcUc_row epgc bv intensity xmap pvar i hi]
  apply List.map_congr_left
  intro j hj
  have : clip0 (ent pvar i j) = 0 := by
    unfold clip0
    rw [if_pos (hv j (List.mem_range.mp hj))]
  rw [this, hs0, mul_zero, add_zero]

example : (∀ j, j < ncols [[(1:ℚ), 2], [3, 4]] → 0 ≤ ent [[(9:ℚ)/16, 0]] 0 j) := by
  intro j hj
  have : j < 2 := by simpa [ncols] using hj
  interval_cases j <;> norm_num [ent]

/-- EMBV row `i` is the mean over the replicates of cross `i` (every cross gets its own row) -/
theorem embv_row_mean (nrep : Nat) (tmaxs : List (List (List α))) (ntrait : Nat) (i : Nat)
    (hi : i < tmaxs.length) :
    (calcEmbv nrep tmaxs ntrait).getD i [] =
      (List.range ntrait).map fun j =>
        (((tmaxs.getD i []).take nrep).map fun r => vget r j).sum / (nrep : α) :=
  calcEmbv_row nrep tmaxs ntrait i hi

example : calcEmbv 2 [[[(1:ℚ)], [3]], [[5], [9]]] 1 = [[2], [7]] := by decide +kernel

/-- optimal haploid value: every block term is the maximum haplotype value over the phases of the
    parents of the cross -/
theorem ohv_block_is_max (H : List (List (List (List α)))) (cconfig : List Nat) (b j : Nat)
    (hH : H ≠ []) (hc : cconfig ≠ []) :
    let vals := H.flatMap fun Hp => cconfig.map fun i => ((Hp.getD i []).getD b []).getD j 0
    maxL vals ∈ vals ∧ ∀ Hp ∈ H, ∀ i ∈ cconfig, ((Hp.getD i []).getD b []).getD j 0 ≤ maxL vals :=
  ohv_block_max H cconfig b j hH hc

/-- optimal population value of a subset = −(optimal haploid value of the "cross" formed by all of it) -/
theorem opv_eq_neg_ohv (eps : α) (H : List (List (List (List α)))) (S : List Nat) :
    latent eps (.opv H) (.subset S) = some (((calcOhvmat H [S]).headD []).map fun v => -v) := by
  simp only [latent, opvSubset, calcOhvmat, List.map_cons, List.map_nil, List.headD_cons, List.map_map]
  congr 1
  apply List.map_congr_left
  intro j _
  simp only [Function.comp]
  ring

end factories

/-! ### round 3: the chunk loop of `_calc_ohvmat`, the EMBV matrix factory, taxa order for every criterion -/
section round3
variable {α : Type} [Field α] [LinearOrder α] [IsStrictOrderedRing α] [HasSqrt α]

/-- **Chunk invariance of `_calc_ohvmat`.**  The loop over memory chunks
    `zip(range(0,n,step), srange(step,n,step))` with `out[rst:rsp] = …(xmap[rst:rsp])`, transcribed literally
    (`calcOhvmatChunked`), returns the closed form `ploidy · Σ_blocks max_{parents, phases}` for every admissible
    chunk size: `mem = None` with a non-empty cross map, or any `mem ≥ 1` (1024 in the factories) — whatever
    the number of crosses. -/
theorem ohvmat_chunk_invariant (mem : Option Nat) (H : List (List (List (List α)))) (xmap : List (List Nat))
    (hstep : 0 < mem.getD xmap.length) :
    calcOhvmatChunked mem H xmap = some (calcOhvmat H xmap) :=
  calcOhvmatChunked_eq mem H xmap hstep

/-- two admissible chunk sizes give the same table -/
theorem ohvmat_chunk_size_irrelevant (mem mem' : Option Nat) (H : List (List (List (List α))))
    (xmap : List (List Nat)) (h : 0 < mem.getD xmap.length) (h' : 0 < mem'.getD xmap.length) :
    calcOhvmatChunked mem H xmap = calcOhvmatChunked mem' H xmap := by
  rw [calcOhvmatChunked_eq mem H xmap h, calcOhvmatChunked_eq mem' H xmap h']

/-- the inadmissible sizes are rejected (Python: `range() arg 3 must not be zero`), not defaulted -/
theorem ohvmat_chunk_zero_step_rejected (mem : Option Nat) (H : List (List (List (List α))))
    (xmap : List (List Nat)) (h : mem.getD xmap.length = 0) : calcOhvmatChunked mem H xmap = none :=
  calcOhvmatChunked_none mem H xmap h

example : (0 < (some 1024 : Option Nat).getD ([[0, 1], [0, 2], [1, 2]] : List (List Nat)).length) ∧
    (0 < (none : Option Nat).getD ([[0, 1], [0, 2], [1, 2]] : List (List Nat)).length) := by decide
example : calcOhvmatChunked (some 2) [[[[(1:ℚ)]], [[3]], [[2]]], [[[0]], [[1]], [[5]]]] [[0, 1], [0, 2], [1, 2]]
    = some [[6], [10], [10]] := by decide +kernel

/-- **EMBV matrix factory** (`DenseExpectedMaximumBreedingValueMatrix.from_gmod`, per-taxon `nrep` / `nprogeny`
    arrays, doubled-haploid simulation scripted): row `i` is the mean, over the taxon's OWN `nrep[i]` replicates,
    of the per-trait maximum over the breeding values of that replicate's progeny. -/
theorem embvmat_row_def (nrep : List Nat) (prog : List (List (List (List α)))) (ntrait i : Nat)
    (hi : i < prog.length) :
    (embvMat nrep prog ntrait).getD i [] = (List.range ntrait).map fun t =>
      ((((prog.getD i []).take (nrep.getD i 0)).map fun rep => maxL (rep.map fun r => vget r t)).sum)
        / ((nrep.getD i 0 : Nat) : α) :=
  embvMat_row nrep prog ntrait i hi

/-- … so it does not depend on any other taxon's progeny or replicate count, nor on replicates beyond `nrep[i]` -/
theorem embvmat_row_local (nrep nrep' : List Nat) (prog prog' : List (List (List (List α)))) (ntrait i : Nat)
    (hi : i < prog.length) (hi' : i < prog'.length) (hn : nrep.getD i 0 = nrep'.getD i 0)
    (hp : (prog.getD i []).take (nrep.getD i 0) = (prog'.getD i []).take (nrep.getD i 0)) :
    (embvMat nrep prog ntrait).getD i [] = (embvMat nrep' prog' ntrait).getD i [] :=
  embvMat_row_local nrep nrep' prog prog' ntrait i hi hi' hn hp

/-- **Homozygous line: EMBV = GEBV.**  If every simulated doubled haploid of taxon `i` has the line's own
    breeding values `g` (a fully homozygous line reproduces itself), its EMBV row is `g` for every positive
    replicate count and every positive progeny count. -/
theorem embvmat_homozygous_is_gebv (nrep : List Nat) (prog : List (List (List (List α)))) (ntrait i : Nat)
    (hi : i < prog.length) (g : List α) (hg : g.length = ntrait) (hn : 0 < nrep.getD i 0)
    (hlen : nrep.getD i 0 ≤ (prog.getD i []).length)
    (hrep : ∀ rep ∈ prog.getD i [], rep ≠ [] ∧ ∀ r ∈ rep, r = g) :
    (embvMat nrep prog ntrait).getD i [] = g :=
  embvMat_homozygous nrep prog ntrait i hi g hg hn hlen hrep

example : embvMat [3, 1] [[[[(1:ℚ), 2], [0, 7]], [[3, 6], [2, 5]], [[-4, 0], [8, 1]]], [[[5, 1], [4, 1], [0, 9]]]] 2
    = [[4, 14/3], [5, 9]] := by decide +kernel
example : (1 : Nat) < [[[[(4:ℚ), 1]], [[4, 1], [4, 1]]], [[[0, 0]]]].length ∧ ([(4:ℚ), 1]).length = 2 ∧
    0 < ([2, 1] : List Nat).getD 0 0 := by decide

/-- **Taxa relabelling, subset classes, EVERY criterion family** (linear criteria, L1, family, optimal population
    value, genotype builder, allele-frequency distance / unavailability / multi-objective, and the kinship ones):
    moving the data of candidate `π i` to position `i` and listing the subset by the new positions gives the latent
    vector of the original problem at the original indices. -/
theorem taxa_relabel_subset (eps : α) (π : List Nat) (cr : Crit α) (hv : RelabelValid π cr) (S : List Nat)
    (hS : ∀ i ∈ S, i < π.length) (hne : S ≠ []) :
    latent eps (relabelAll π cr) (.subset S) = latent eps cr (.subset (S.map fun i => π.getD i 0)) :=
  latent_relabelAll_subset eps π cr hv S hS hne

/-- **Taxa relabelling, real / integer / binary classes, every criterion that has them**: for a permutation `π`
    of the candidates the relabelled problem at the relabelled decision vector `x[π]` has the latent vector of the
    original. -/
theorem taxa_relabel_vec (eps : α) (π : List Nat) (cr : Crit α) (x : List α)
    (hπ : π.Perm (List.range x.length)) (hv : RelabelValidVec x.length cr) :
    latent eps (relabelAll π cr) (.vec (Np.take π x)) = latent eps cr (.vec x) :=
  latent_relabelAll_vec eps π cr x hπ hv

example : RelabelValid (α := ℚ) [2, 0, 1] (.pau [[2, 0], [1, 1], [0, 2]] 2 [[1], [3]] [[1], [0]]) ∧
    RelabelValid (α := ℚ) [2, 0, 1] (.family [[1, 2], [3, 4], [5, 7]] [1, 0, 1] 2) ∧
    RelabelValidVec (α := ℚ) 3 (.family [[1, 2], [3, 4], [5, 7]] [1, 0, 1] 2) := by
  have hrect : ∀ r ∈ ([[1, 2], [3, 4], [5, 7]] : List (List ℚ)), r.length = 2 := by
    intro r hr; simp at hr; rcases hr with rfl | rfl | rfl <;> rfl
  refine ⟨?_, ⟨?_, ⟨2, hrect⟩, ?_, ?_⟩, rfl, ⟨2, hrect⟩, rfl⟩
  · show ∀ p ∈ ([2, 0, 1] : List Nat), p < 3
    decide
  · show ∀ p ∈ ([2, 0, 1] : List Nat), p < 3
    decide
  · show ∀ p ∈ ([2, 0, 1] : List Nat), p < 3
    decide
  · show ([2, 0, 1] : List Nat).Nodup
    decide

/-- **Factory data follow the taxa**: the L1 marker-deviation tensor `_calc_V`, the haplotype tensor
    `_calc_haplomat` and the EMBV matrix of a re-ordered population are the re-ordered tensors / matrix of the
    original population. -/
theorem factory_taxon_order_l1 (mk ta tf : List (List α)) (π : List Nat) (hta : ∀ p ∈ π, p < ta.length) :
    calcV mk (Np.take π ta) tf = (calcV mk ta tf).map fun Vt => Vt.map (Np.take π) :=
  calcV_take mk ta tf π hta

theorem factory_taxon_order_haplomat (mat : List (List (List α))) (u : List (List α)) (bounds : List (Nat × Nat))
    (π : List Nat) :
    calcHaplomat (mat.map (Np.take π)) u bounds = (calcHaplomat mat u bounds).map (Np.take π) :=
  calcHaplomat_take mat u bounds π

theorem factory_taxon_order_embvmat (nrep : List Nat) (prog : List (List (List (List α)))) (ntrait : Nat)
    (π : List Nat) (hp : ∀ p ∈ π, p < prog.length) (hn : ∀ p ∈ π, p < nrep.length) :
    embvMat (Np.take π nrep) (Np.take π prog) ntrait = Np.take π (embvMat nrep prog ntrait) :=
  embvMat_take nrep prog ntrait π hp hn

/-- **Cross tables follow the cross map and the taxa**: row `i` of the optimal-haploid-value table belongs to
    cross `xmap[i]` (re-ordering / selecting crosses re-orders / selects rows), and re-ordering the taxa while
    naming the parents by their new positions changes nothing; the same for the usefulness criterion. -/
theorem ohvmat_follows_xmap (H : List (List (List (List α)))) (xmap : List (List Nat)) (is : List Nat) :
    calcOhvmat H (Np.take is xmap) = Np.take is (calcOhvmat H xmap) :=
  calcOhvmat_take H xmap is

theorem embv_follows_xmap (nrep : Nat) (tmaxs : List (List (List α))) (ntrait : Nat) (is : List Nat) :
    calcEmbv nrep (Np.take is tmaxs) ntrait = Np.take is (calcEmbv nrep tmaxs ntrait) :=
  calcEmbv_take nrep tmaxs ntrait is

theorem ohvmat_taxa_relabel (H : List (List (List (List α)))) (xmap : List (List Nat)) (π : List Nat) (hπ : π ≠ [])
    (hH : ∀ Hp ∈ H, ∀ p ∈ π, p < Hp.length) (hx : ∀ cc ∈ xmap, ∀ i ∈ cc, i < π.length) (nb nt : Nat)
    (hr : Rect4 H nb nt) :
    calcOhvmat (H.map (Np.take π)) xmap = calcOhvmat H (xmap.map fun cc => cc.map fun i => π.getD i 0) :=
  calcOhvmat_relabel H xmap π hπ hH hx nb nt hr

theorem uc_taxa_relabel (epgc : List α) (bv : List (List α)) (intensity : α) (xmap : List (List Nat))
    (pvar : List (List α)) (π : List Nat) (hπ : π ≠ []) (hbv : ∀ p ∈ π, p < bv.length)
    (hx : ∀ cc ∈ xmap, ∀ i ∈ cc, i < π.length) (t : Nat) (hrect : ∀ r ∈ bv, r.length = t) :
    calcUc epgc (Np.take π bv) intensity xmap pvar
      = calcUc epgc bv intensity (xmap.map fun cc => cc.map fun i => π.getD i 0) pvar :=
  calcUc_relabel epgc bv intensity xmap pvar π hπ hbv hx t hrect

example : Rect4 (α := ℚ) [[[[1], [2]], [[3], [4]]], [[[0], [5]], [[6], [1]]]] 2 1 ∧
    (∀ Hp ∈ ([[[[1], [2]], [[3], [4]]], [[[0], [5]], [[6], [1]]]] : List (List (List (List ℚ)))),
      ∀ p ∈ ([1, 0] : List Nat), p < Hp.length) := by
  constructor
  · intro Hp hHp g hg
    simp at hHp
    rcases hHp with rfl | rfl <;> simp at hg <;> rcases hg with rfl | rfl <;> simp
  · intro Hp hHp p hp
    simp at hHp hp
    rcases hHp with rfl | rfl <;> rcases hp with rfl | rfl <;> simp

/-- **Look-ahead class, selection step** (`sel = wgebv.argsort()[::-1][:nparent]` of
    RealLookAheadGeneralizedWeightedGenomicSelectionProblem): `nparent` distinct valid indices (all candidates when
    there are fewer), and no unselected candidate has a higher weighted breeding value than a selected one. -/
theorem lookahead_selects_topk (scores : List α) (k : Nat) :
    (laSelect scores k).Nodup ∧ (∀ i ∈ laSelect scores k, i < scores.length) ∧
    (laSelect scores k).length = min k scores.length ∧
    ∀ i ∈ laSelect scores k, ∀ j, j < scores.length → j ∉ laSelect scores k →
      scores.getD j 0 ≤ scores.getD i 0 :=
  laSelect_topk scores k

/-- **Look-ahead class, latent vector**: minus the mean over the simulations of the last generation's mean
    genotypic value, and minus the mean over the simulations of its upper-selection-limit term. -/
theorem lookahead_latent_def (ploidy : Nat) (u : List (List α)) (finals : List (List (List α))) :
    laLatent ploidy u finals =
      [-((finals.map fun Z => laGain Z u).sum / ((finals.length : Nat) : α)),
       -((finals.map fun Z => laUsl ploidy Z u).sum / ((finals.length : Nat) : α))] := by
  unfold laLatent
  simp only [foldl_add_eq_sum, zero_add]

example : laSelect [(3:ℚ), 7, 1, 5] 2 = [1, 3] := by decide +kernel

end round3

/-! ### round 4: problem OBJECTS — histories of setter calls, several objects alive at once, the evalfn oracle -/
section round4
variable {α : Type} [Field α] [LinearOrder α] [IsStrictOrderedRing α] [HasSqrt α]

/-- **Histories on one allele-frequency object** (PopulationAlleleUnavailability, PopulationAlleleFrequencyDistance,
    MultiObjectiveGenomic subset classes).  The classes' latentfn reads masks that the `tfreq` setter stored
    (`_tminor / _thet / _tmajor`, `_tfreq_fix_minor / _heter / _major`).  After the constructor and ANY sequence of
    assignments to `geno`, `ploidy`, `mkrwt`, `tfreq`, the three latent vectors are those of the stateless classes on
    the values assigned last — the stored masks never lag behind the stored targets. -/
theorem tfobj_history_latent (eps : α) (g : List (List α)) (p : Nat) (w tf : List (List α)) (ops : List (TfOp α))
    (S : List Nat) (hs : TfShape (lastMkrwt w ops) (lastTfreq tf ops)) :
    let o := (TfObj.new g p w tf).run ops
    let G := lastGeno g ops; let P := lastPloidy p ops; let W := lastMkrwt w ops; let T := lastTfreq tf ops
    some (o.latentPau S) = latent eps (.pau G P W T) (.subset S) ∧
    some (o.latentPafd S) = latent eps (.pafd G P W T) (.subset S) ∧
    some (o.latentMogs S) = latent eps (.mogs G P W T) (.subset S) := by
  intro o G P W T
  have hc : o.Consistent := TfObj.run_consistent ops _ (TfObj.new_consistent g p w tf)
  obtain ⟨hG, hP, hW, hT⟩ := TfObj.run_fields ops (TfObj.new g p w tf)
  obtain ⟨ng, np, nw, nt⟩ := TfObj.new_fields g p w tf
  rw [ng] at hG; rw [np] at hP; rw [nw] at hW; rw [nt] at hT
  have hs' : TfShape o.mkrwt o.tfreq := by
    show TfShape ((TfObj.new g p w tf).run ops).mkrwt ((TfObj.new g p w tf).run ops).tfreq
    rw [hW, hT]; exact hs
  have h1 := TfObj.pauLatent_eq o hc hs' S
  have h2 := TfObj.mogsPauLatent_eq o hc hs' S
  have eG : o.geno = G := hG
  have eP : o.ploidy = P := hP
  have eW : o.mkrwt = W := hW
  have eT : o.tfreq = T := hT
  refine ⟨?_, ?_, ?_⟩
  · show some (o.pauLatent S) = some (pauSubset G P W T S)
    rw [h1, eG, eP, eW, eT]
  · show some (pafdSubset o.geno o.ploidy o.mkrwt o.tfreq S) = some (pafdSubset G P W T S)
    rw [eG, eP, eW, eT]
  · show some (o.mogsPauLatent S ++ pafdSubset o.geno o.ploidy o.mkrwt o.tfreq S)
      = some (mogsPau G P W T S ++ pafdSubset G P W T S)
    rw [h2, eG, eP, eW, eT]

/-- … hence, with `pau_def`, after any history the unavailability class reports the DEFINITION on the data it now holds -/
theorem tfobj_history_pau_def (g : List (List α)) (p : Nat) (w tf : List (List α)) (ops : List (TfOp α))
    (S : List Nat) (hs : TfShape (lastMkrwt w ops) (lastTfreq tf ops))
    (hfreq : ∀ m j, m < (lastMkrwt w ops).length → j < ncols (lastMkrwt w ops) →
      0 ≤ ent (lastTfreq tf ops) m j ∧ ent (lastTfreq tf ops) m j ≤ 1) :
    ((TfObj.new g p w tf).run ops).latentPau S
      = pauDef (lastGeno g ops) (lastPloidy p ops) (lastMkrwt w ops) (lastTfreq tf ops) S := by
  have h := (tfobj_history_latent (0 : α) g p w tf ops S hs).1
  rw [pau_def (0 : α) _ _ _ _ S hfreq] at h
  exact Option.some.inj h

example : TfShape (α := ℚ) (lastMkrwt [[1], [10]] [TfOp.setTfreq [[0], [1]]]) (lastTfreq [[1], [0]] [TfOp.setTfreq [[0], [1]]]) := by
  intro m j hm hj
  have hj0 : j = 0 := by simpa [lastMkrwt, ncols] using hj
  subst hj0
  simp only [lastMkrwt, List.foldl, List.length_cons, List.length_nil] at hm
  interval_cases m <;> simp [lastTfreq]

/-- a history in which the masks matter: two parents fixed for the allele at locus 0 and lacking it at locus 1;
    targets (1, 0) are met (score 0); after `tfreq = (0, 1)` both targets are out of reach (score 1 + 10) -/
example : ((TfObj.new [[2, 0], [2, 0]] 2 [[1], [10]] [[(1 : ℚ)], [0]]).run []).latentPau [0, 1] = [0] ∧
    ((TfObj.new [[2, 0], [2, 0]] 2 [[1], [10]] [[(1 : ℚ)], [0]]).run [.setTfreq [[0], [1]]]).latentPau [0, 1] = [11] ∧
    ((TfObj.new [[2, 0], [2, 0]] 2 [[1], [10]] [[(1 : ℚ)], [0]]).run [.setTfreq [[0], [1]]]).latentMogs [0, 1]
      = [11, 11] := by
  refine ⟨by decide +kernel, by decide +kernel, by decide +kernel⟩

/-- **Histories on one family object.**  After the constructor and any sequence of assignments to `ebv` and
    `familyid`, the stored family list is ascending and duplicate-free, consists of exactly the labels in use, and
    the stored index sends every candidate to the position of its own label
    (`numpy.unique(familyid, return_inverse = True)` of the CURRENT `familyid`). -/
theorem famobj_history (D : List (List α)) (ids : List Nat) (ops : List (FamOp α)) :
    let o := (FamObj.new D ids).run ops
    o.family.Pairwise (· < ·) ∧ (∀ x, x ∈ o.family ↔ x ∈ o.familyid) ∧ o.familyix.length = o.familyid.length ∧
    ∀ i, i < o.familyid.length → o.familyix.getD i 0 < o.family.length ∧
      o.family.getD (o.familyix.getD i 0) 0 = o.familyid.getD i 0 := by
  intro o
  obtain ⟨h1, h2⟩ : o.Consistent := FamObj.run_consistent ops _ (FamObj.new_consistent D ids)
  rw [h1, h2]
  exact uniqueInverse_spec o.familyid

example : uniqueInverse [7, 3, 7, 5] = ([3, 5, 7], [2, 0, 2, 1]) := by decide

/-- … and the criterion the four family classes evaluate after any history is the family criterion of the data and
    labels assigned last, with the index `numpy.unique` gives for THOSE labels -/
theorem famobj_history_crit (D : List (List α)) (ids : List Nat) (ops : List (FamOp α)) :
    ((FamObj.new D ids).run ops).crit =
      .family (lastEbv D ops) (uniqueInverse (lastIds ids ops)).2 (uniqueInverse (lastIds ids ops)).1.length := by
  obtain ⟨h1, h2⟩ : ((FamObj.new D ids).run ops).Consistent :=
    FamObj.run_consistent ops _ (FamObj.new_consistent D ids)
  obtain ⟨e1, e2⟩ := FamObj.run_fields ops (FamObj.new D ids)
  have e1' : ((FamObj.new D ids).run ops).ebv = lastEbv D ops := e1
  have e2' : ((FamObj.new D ids).run ops).familyid = lastIds ids ops := e2
  unfold FamObj.crit
  rw [h1, h2, e1', e2']

/-- **Several problem objects alive at once.**  Whatever sequence of assignments (data, weights, transformations
    with their keyword arguments) is applied to the objects of a store, object `i` ends in the state that the
    assignments naming `i` alone produce: nothing done to another object shows in it. -/
theorem store_frame (st : List (Problem α)) (ops : List (Nat × POp α)) (i : Nat) :
    (Store.run st ops)[i]? = st[i]?.map fun p => p.run (opsFor i ops) :=
  Store.run_get ops st i

/-- … so two histories that agree on what they do to `i` leave `i` (its latentfn, its evalfn) the same -/
theorem store_isolation (eps : α) (st : List (Problem α)) (ops ops' : List (Nat × POp α)) (i : Nat)
    (h : opsFor i ops = opsFor i ops') (d : Decn α) (x : List α) :
    ((Store.run st ops)[i]?.map fun p => p.query eps d x) = ((Store.run st ops')[i]?.map fun p => p.query eps d x) := by
  rw [store_frame, store_frame, h]

/-- **One object, any history of re-declarations**: what `latentfn` / `evalfn` answer afterwards is the latent vector
    of the data assigned last and the weights assigned last times the transformations assigned last. -/
theorem problem_history_query (eps : α) (p : Problem α) (ops : List (POp α)) (d : Decn α) (x : List α) :
    (p.run ops).query eps d x =
      (latent eps (lastOf POp.crit? p.crit ops) d).map fun l =>
        (l, evalfn (lastOf POp.objWt? p.cfg.objWt ops) (lastOf POp.ineqWt? p.cfg.ineqWt ops)
              (lastOf POp.eqWt? p.cfg.eqWt ops) (lastOf POp.tObj? p.cfg.tObj ops)
              (lastOf POp.tIneq? p.cfg.tIneq ops) (lastOf POp.tEq? p.cfg.tEq ops) x l) := by
  obtain ⟨h1, h2, h3, h4, h5, h6, h7⟩ := Problem.run_fields ops p
  unfold Problem.query
  rw [h1, h2, h3, h4, h5, h6, h7]

/-- **Jittered kinship factor.**  `_calc_C` may add a jitter `δ ≥ 0` to the diagonal before the Cholesky factorisation
    (`apply_jitter`), so the factor satisfies `CᵀC = K + δ·I`.  For parental contributions `c ≥ 0`, `Σc = 1`, the
    squared mean relationship computed from the factor then lies in `[cᵀKc, cᵀKc + δ]`: the tolerance of the
    contract check (δ ≤ 5.1e-7) bounds the error of the criterion itself. -/
theorem factor_jitter_bound (C : List (List α)) (c : List α) (K : Nat → Nat → α) (δ : α) (hδ : 0 ≤ δ)
    (hK : ∀ i j, i < c.length → j < c.length →
      K i j + (if i = j then δ else 0) = ∑ r ∈ range C.length, ent C r i * ent C r j)
    (h0 : ∀ i, i < c.length → 0 ≤ vget c i) (h1 : ∑ i ∈ range c.length, vget c i = 1) :
    let q := ∑ i ∈ range c.length, ∑ j ∈ range c.length, vget c i * K i j * vget c j
    q ≤ normSq (matVec C c) ∧ normSq (matVec C c) ≤ q + δ := by
  intro q
  have hn := normSq_matVec C c (fun i j => K i j + if i = j then δ else 0) hK
  rw [quad_add_diag c.length (vget c) K δ] at hn
  obtain ⟨hs0, hs1⟩ := sum_sq_le_one c.length (vget c) h0 h1
  rw [hn]
  constructor
  · exact le_add_of_nonneg_right (mul_nonneg hδ hs0)
  · have hd : δ * ∑ i ∈ range c.length, vget c i * vget c i ≤ δ := by
      calc δ * _ ≤ δ * 1 := mul_le_mul_of_nonneg_left hs1 hδ
        _ = δ := mul_one _
    show q + δ * _ ≤ q + δ
    linarith

example : (∀ i, i < ([(1:ℚ)/2, 1/2] : List ℚ).length → 0 ≤ vget [(1:ℚ)/2, 1/2] i) ∧
    ∑ i ∈ range ([(1:ℚ)/2, 1/2] : List ℚ).length, vget [(1:ℚ)/2, 1/2] i = 1 := by
  constructor
  · intro i hi
    simp only [List.length_cons, List.length_nil] at hi
    interval_cases i <;> norm_num [vget]
  · simp [Finset.sum_range_succ, vget]; norm_num

example : opsFor (α := ℚ) 0 [(1, .setObjWt [2]), (0, .setEqWt [3]), (1, .setObjTrans .sum)] = [.setEqWt [3]] := rfl

/-- **Spec oracle of evalfn** (`Selection.evalOk`, driver op `c05.spec_evalfn`, evaluated on the three vectors every
    implementation call reports): it accepts the model's evalfn for every tolerance ≥ 0, … -/
theorem spec_evalfn_sound (rel abs_ : α) (h : 0 ≤ abs_) (cfg : EvalCfg α) (x l : List α) :
    evalOk rel abs_ cfg x l (evalfn cfg.objWt cfg.ineqWt cfg.eqWt cfg.tObj cfg.tIneq cfg.tEq x l).1
      (evalfn cfg.objWt cfg.ineqWt cfg.eqWt cfg.tObj cfg.tIneq cfg.tEq x l).2.1
      (evalfn cfg.objWt cfg.ineqWt cfg.eqWt cfg.tObj cfg.tIneq cfg.tEq x l).2.2 = true := by
  unfold evalOk evalfn
  simp only [vecClose_self rel abs_ h, Bool.and_self]

/-- … and with zero tolerance nothing else: the oracle demands exactly "weights × declared transformations" -/
theorem spec_evalfn_exact_iff (cfg : EvalCfg α) (x l o i e : List α) :
    evalOk 0 0 cfg x l o i e = true ↔
      (o, i, e) = evalfn cfg.objWt cfg.ineqWt cfg.eqWt cfg.tObj cfg.tIneq cfg.tEq x l := by
  unfold evalOk evalfn
  simp only [Bool.and_eq_true, vecClose_exact_iff, Prod.mk.injEq]
  constructor
  · rintro ⟨⟨h1, h2⟩, h3⟩; exact ⟨h1.symm, h2.symm, h3.symm⟩
  · rintro ⟨h1, h2, h3⟩; exact ⟨⟨h1.symm, h2.symm⟩, h3.symm⟩

/-- the user callables handed to the problems by the harness: a one-entry view, a hinge penalty, an affine map -/
theorem trans_user (x l : List α) (thr m c : α) :
    (Trans.slice : Trans α).apply x l = l.take 1 ∧
    (Trans.penalty thr).apply x l = l.map (fun v => max (v - thr) 0) ∧
    (Trans.affine m c).apply x l = l.map (fun v => m * v + c) := by
  refine ⟨rfl, ?_, rfl⟩
  simp only [Trans.apply]
  apply List.map_congr_left
  intro v _
  by_cases h : v - thr < 0
  · rw [if_pos h, max_eq_right h.le]
  · rw [if_neg h, max_eq_left (not_lt.mp h)]

/-- `trans_decnvec_sum_eq`: the distance of the decision vector's total from the declared target — zero exactly when
    the total IS the target (no tolerance) -/
theorem trans_decn_sum_eq_zero_iff (x l : List α) (t : α) :
    (Trans.decnSumEq t).apply x l = [|Np.sum x - t|] ∧ ((Trans.decnSumEq t).apply x l = [0] ↔ Np.sum x = t) := by
  have h : (Trans.decnSumEq t).apply x l = [|Np.sum x - t|] := by simp [Trans.apply, absv_eq_abs]
  refine ⟨h, ?_⟩
  rw [h]
  constructor
  · intro h0
    have : |Np.sum x - t| = 0 := by simpa using h0
    exact sub_eq_zero.mp (abs_eq_zero.mp this)
  · intro h0; simp [h0]

end round4

/-! ### the guarded weights of the (generalised) weighted breeding values -/
section guards
variable {α : Type} [Field α] [LinearOrder α] [IsStrictOrderedRing α]

/-- **Weighted genomic problems** (after repair defea8b1 both the weighted and the generalised weighted
    class): the frequencies handed to `numpy.power(·, -alpha)` are strictly positive, whatever favourable
    allele is absent — the weights, hence the breeding values, are finite -/
theorem wgebv_guarded_freq_pos (ff : List (List α)) (h : ∀ r ∈ ff, ∀ v ∈ r, 0 ≤ v) :
    ∀ r ∈ guardZero ff, ∀ v ∈ r, 0 < v :=
  guardZero_pos ff h

/-- the guard changes nothing where the favourable allele is present -/
theorem wgebv_guard_id (ff : List (List α)) (h : ∀ r ∈ ff, ∀ v ∈ r, 0 < v) : guardZero ff = ff := by
  unfold guardZero
  conv_rhs => rw [← List.map_id ff]
  apply List.map_congr_left
  intro r hr
  conv_rhs => rw [id, ← List.map_id r]
  apply List.map_congr_left
  intro v hv
  have hne : eqv v 0 = false := by
    rw [Bool.eq_false_iff]
    intro e
    exact (h r hr v hv).ne' ((eqv_iff v 0).mp e)
  simp [hne]

/-- **wGEBV matrix** (after repair 2fe3bbf4): the masked `p(1-p)` is strictly positive for every favourable
    allele frequency in [0,1], fixed alleles included, so `pq ** -0.5` is finite -/
theorem wgebvmat_pq_pos (p : α) (h0 : 0 ≤ p) (h1 : p ≤ 1) : 0 < pqGuard p :=
  pqGuard_pos p h0 h1

example : pqGuard (1 : ℚ) = 1 ∧ pqGuard (0 : ℚ) = 1 ∧ pqGuard ((1 : ℚ) / 2) = 1 / 4 := by
  refine ⟨by decide +kernel, by decide +kernel, by decide +kernel⟩

end guards

/-! ### why the two repairs matter: binary64 witnesses of the pre-repair expressions (Lean's own `Float`) -/
section floats

/-- before defea8b1: `u * numpy.power(fafreq, -0.5)` at `fafreq = 0` is `u·inf`; a taxon carrying 2 copies
    gets ±inf, a taxon carrying 0 copies gets `0·inf = NaN`; with the guard the same terms are finite -/
theorem wgebv_absent_allele_prerepair_counterexample :
    ((2.0 : Float) * (-1.0 * (1.0 / Float.sqrt 0.0))).isInf = true ∧
    ((0.0 : Float) * (-1.0 * (1.0 / Float.sqrt 0.0))).isNaN = true ∧
    ((2.0 : Float) * (-1.0 * (1.0 / Float.sqrt 1.0))).isFinite = true := by
  refine ⟨?_, ?_, ?_⟩ <;> decide +kernel

/-- before dbcebcc2: `numpy.sqrt` of a progeny variance that rounding left at −1e-18 is NaN, so the usefulness
    criterion of that cross (and every objective computed from it) was NaN; clipped to 0 the root is 0 -/
theorem uc_negative_variance_prerepair_counterexample :
    (Float.sqrt (-1.0e-18)).isNaN = true ∧
    (Float.sqrt (if (-1.0e-18 : Float) < 0.0 then 0.0 else -1.0e-18) == 0.0) = true := by
  constructor <;> decide +kernel

/-- before 2fe3bbf4: at `fafreq = 1` the numerator `asin 1 − asin √1` is 0 and `1/√(p(1−p))` is inf: the
    weight was `0·inf = NaN`; with `pq` masked to 1 it is `0·1`, overwritten by the limit value 1 -/
theorem wgebvmat_fixed_allele_prerepair_counterexample :
    ((0.0 : Float) * (1.0 / Float.sqrt (1.0 * (1.0 - 1.0)))).isNaN = true ∧
    ((0.0 : Float) * (1.0 / Float.sqrt 1.0)).isFinite = true := by
  constructor <;> decide +kernel

end floats
end C05
