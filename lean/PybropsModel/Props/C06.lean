/-
C06 — Optimisers return feasible solutions with truthful objective values.
Property theorems only (helper lemmas: Lemmas/OptSort.lean, OptClimb.lean, OptOps.lean).

Model: PybropsModel/Model/Optimize.lean
  `sortingSubset`            SortingSubsetOptimizationAlgorithm.minimize
  `hillclimb`                SteepestDescentSubsetHillClimber.minimize  (start subset = oracle input)
  `sortingHillclimb`         SortingSteepestDescentSubsetHillClimber.minimize
  `sampleSubset` `crossover` `mutation` `hcNeighbors` `mutatorRows` `stochasticHillclimb`   pymoo_addon operators
  `applyOp`                  one step of pymoo's loop, selection/survival = arbitrary re-selection
  `roundHalfEven`            `.round(0).astype(int)` of the integer operator variants

What is NOT proved here (pymoo's loop is not modelled): that the values pymoo reports for the
returned individuals equal a fresh evaluation, and that the returned set is mutually
non-dominated.  Both are evaluated by the Lean Spec `c06.spec_solution` on every returned Solution
of every run (relational correspondence).
-/
import PybropsModel.Lemmas.OptClimb
import PybropsModel.Lemmas.OptOps
import PybropsModel.Lemmas.OptSpec
set_option linter.unusedSectionVars false
set_option autoImplicit false

namespace C06
open Optimize

/-! ## 1. The exhaustive sorting optimiser attains the brute-force optimum -/
section sorting
variable {α : Type} [Field α] [LinearOrder α] [IsStrictOrderedRing α]

/-- **Optimality for every tie order.**  Whatever permutation `ix` the sort returns (numpy's default
    argsort breaks ties arbitrarily), as long as the keys ascend along it, the first `|P|` positions
    minimise the separable objective `c · Σ key` (c = 1: sum, c = 1/k: mean) over all duplicate-free
    selections `P` of that many candidates. -/
theorem sorting_optimal_any_tie_order (n : ℕ) (key : ℕ → α) (ix : List ℕ)
    (hperm : ix.Perm (List.range n)) (hsorted : (ix.map key).Pairwise (· ≤ ·))
    (P : List ℕ) (hP : P.Nodup) (hPn : ∀ i ∈ P, i < n) (c : α) (hc : 0 ≤ c) :
    c * ((ix.take P.length).map key).sum ≤ c * (P.map key).sum :=
  mul_le_mul_of_nonneg_left (prefix_sum_le_of_sorting_perm n key ix hperm hsorted P hP hPn) hc

example : ([1, 3, 0, 2] : List ℕ).Perm (List.range 4) ∧
    (([1, 3, 0, 2] : List ℕ).map (fun i => ([3, 1, 4, 1] : List ℚ).getD i 0)).Pairwise (· ≤ ·) := by
  constructor
  · decide
  · decide +kernel

variable {ε : Type} [DecidableEq ε]

/-- **The model's decision is a brute-force optimum.**  For a separable objective
    `f(S) = c · Σ_{e ∈ S} g e` (`g e` = weighted single-member objective, `c ≥ 0`) the decision of
    the sorting optimiser is at least as good as every feasible subset `S` of the same size. -/
theorem sorting_optimal (g : ε → α) (space : List ε) (S : List ε) (hS : S.Nodup)
    (hsub : ∀ e ∈ S, e ∈ space) (c : α) (hc : 0 ≤ c) :
    c * ((sortingSubset g space S.length).map g).sum ≤ c * (S.map g).sum := by
  set keys := space.map g with hkeys
  set ix := Np.argsort leB keys with hix
  have hperm : ix.Perm (List.range space.length) := by
    have := argsort_perm keys
    rwa [hkeys, List.length_map] at this
  have hsorted := argsort_sorted keys 0
  set P := S.map (fun e => space.idxOf e) with hPdef
  have hPnd : P.Nodup := by
    apply List.Nodup.map_on _ hS
    intro x hx y _ hxy
    exact (List.idxOf_inj (hsub x hx)).mp hxy
  have hPn : ∀ i ∈ P, i < space.length := by
    intro i hi
    obtain ⟨e, he, rfl⟩ := List.mem_map.mp hi
    exact List.idxOf_lt_length_iff.mpr (hsub e he)
  have hmain := prefix_sum_le_of_sorting_perm space.length (fun i => keys.getD i 0) ix hperm hsorted P hPnd hPn
  have hPlen : P.length = S.length := by simp [hPdef]
  have hL : (sortingSubset g space S.length).map g = (ix.take P.length).map (fun i => keys.getD i 0) := by
    unfold sortingSubset sortingIdx
    rw [hPlen]
    apply take_map_getD
    intro i hi
    have := hperm.mem_iff.mp (List.mem_of_mem_take hi)
    exact List.mem_range.mp this
  have hR : P.map (fun i => keys.getD i 0) = S.map g := by
    rw [hPdef, List.map_map]
    apply List.map_congr_left
    intro e he
    have hlt : space.idxOf e < space.length := List.idxOf_lt_length_iff.mpr (hsub e he)
    simp only [Function.comp, hkeys, List.getD_eq_getElem?_getD, List.getElem?_map,
      List.getElem?_eq_getElem hlt, Option.map_some, Option.getD_some, List.getElem_idxOf hlt]
  rw [hL]
  rw [hR] at hmain
  exact mul_le_mul_of_nonneg_left hmain hc

example : sortingSubset (fun e : ℤ => ((e % 5 : ℤ) : ℚ)) [10, 13, 11, 17, 12, 19] 3 = [10, 11, 17] := by
  decide +kernel
-- a competitor meeting the hypotheses: duplicate-free, inside the candidate set, not the optimum
example : ([19, 12, 13] : List ℤ).Nodup ∧ (∀ e ∈ ([19, 12, 13] : List ℤ), e ∈ ([10, 13, 11, 17, 12, 19] : List ℤ)) ∧
    (0 : ℚ) ≤ 1 / 3 := by
  refine ⟨by decide, by decide, by norm_num⟩

/-- **The brute force of the Spec oracle is complete**: `combos k space` (what `c06.spec_optimum`
    minimises over) lists exactly the order-preserving k-selections of the candidate set, and every
    feasible subset is a rearrangement of one of them — so for an order-independent objective the
    oracle's minimum is the minimum over the whole decision space. -/
theorem bruteforce_enumeration_complete (space : List ε) (hs : space.Nodup) (k : ℕ) :
    (∀ s, s ∈ combos k space ↔ s.Sublist space ∧ s.length = k) ∧
    (∀ S : List ε, S.Nodup → (∀ e ∈ S, e ∈ space) → S.length = k → ∃ s ∈ combos k space, s.Perm S) := by
  refine ⟨mem_combos_iff space k, ?_⟩
  intro S hS hsub hk
  exact hk ▸ feasible_perm_mem_combos space hs S hS hsub

example : combos 2 ([7, 3, 5] : List ℤ) = [[7, 3], [7, 5], [3, 5]] := by decide +kernel

/-- the decision of the sorting optimiser lies in the decision space -/
theorem sorting_feasible (g : ε → α) (space : List ε) (hs : space.Nodup) (k : ℕ) (hk : k ≤ space.length) :
    Feasible space k (sortingSubset g space k) := by
  unfold sortingSubset sortingIdx
  have hperm : (Np.argsort leB (space.map g)).Perm (List.range space.length) := by
    have := argsort_perm (space.map g)
    rwa [List.length_map] at this
  have hnd : ((Np.argsort leB (space.map g)).take k).Nodup :=
    (hperm.nodup_iff.mpr List.nodup_range).sublist (List.take_sublist _ _)
  have hlt : ∀ i ∈ (Np.argsort leB (space.map g)).take k, i < space.length := fun i hi =>
    List.mem_range.mp (hperm.mem_iff.mp (List.mem_of_mem_take hi))
  refine ⟨take_nodup space hs _ hnd, take_mem space _, ?_⟩
  rw [take_length space _ hlt, List.length_take, hperm.length_eq, List.length_range]
  exact Nat.min_eq_left hk

example : ([10, 13, 11, 17] : List ℤ).Nodup ∧ 2 ≤ ([10, 13, 11, 17] : List ℤ).length := by decide

end sorting

/-! ## 2. The hill climbers: termination, local optimality, truthfulness, feasibility -/
section hillclimb
variable {ε β α : Type} [LinearOrder α] [DecidableEq ε]
variable (eval : List ε → β) (key : β → α × α)

/-- **Termination is proved, not assumed**: for every problem (`eval` arbitrary, even order
    dependent), every candidate set and every start there is a fuel with which the `while True`
    loop exits through `break`. -/
theorem hillclimb_terminates (space init : List ε) :
    ∃ fuel, (hillclimb eval key space init fuel).2 = true := by
  unfold hillclimb
  exact iter_terminates (step eval key) (fun s => toLex (key s.val))
    (HCInv eval (init ++ complement space init) init.length)
    (keySet eval key (init ++ complement space init) init.length)
    (fun s s' hs h => step_inv eval key _ _ s s' hs h)
    (fun s hs => key_mem_keySet eval key _ _ s hs) _ (hcInit_inv eval space init)

/-- loop invariant at whatever point the fuel runs out or the loop exits -/
theorem hillclimb_invariant (space init : List ε) (fuel : ℕ) :
    HCInv eval (init ++ complement space init) init.length (hillclimb eval key space init fuel).1 := by
  unfold hillclimb
  exact iter_inv (step eval key) _ (fun s s' hs h => (step_inv eval key _ _ s s' hs h).1) fuel _
    (hcInit_inv eval space init)

/-- **Truthfulness**: the evaluation stored with the returned decision is the evaluation of the
    problem at that decision (in the arrangement returned). -/
theorem hillclimb_truthful (space init : List ε) (fuel : ℕ) :
    (hillclimb eval key space init fuel).1.val = eval (hillclimb eval key space init fuel).1.soln :=
  (hillclimb_invariant eval key space init fuel).2.2

/-- **Local optimality**: when the loop has exited, exchanging any member of the returned decision
    (position `i`) for any candidate outside it does not give a lexicographically smaller
    (constraint violation, score). -/
theorem hillclimb_local_opt (space init : List ε) (fuel : ℕ)
    (hstop : (hillclimb eval key space init fuel).2 = true) :
    ∀ i, i < (hillclimb eval key space init fuel).1.soln.length →
    ∀ e ∈ space, e ∉ (hillclimb eval key space init fuel).1.soln →
      lexLt (key (eval ((hillclimb eval key space init fuel).1.soln.set i e)))
            (key (eval (hillclimb eval key space init fuel).1.soln)) = false := by
  intro i hi e hes hen
  have hinv := hillclimb_invariant eval key space init fuel
  set s := (hillclimb eval key space init fuel).1 with hs
  have hnone : step eval key s = none := by
    unfold hillclimb at hstop hs
    rw [hs]
    exact iter_stopped (step eval key) fuel _ hstop
  -- e is one of the candidates currently outside the decision
  have hbase : e ∈ init ++ complement space init := by
    by_cases h : e ∈ init
    · exact List.mem_append_left _ h
    · exact List.mem_append_right _ ((complement_mem space init e).mpr ⟨hes, h⟩)
  have hwrk : e ∈ s.wrk := by
    have := hinv.1.mem_iff.mpr hbase
    rcases List.mem_append.mp this with h | h
    · exact absurd h hen
    · exact h
  obtain ⟨j, hj, rfl⟩ := List.mem_iff_getElem.mp hwrk
  have h := step_none eval key s hnone i j hi hj
  rw [exch_of_lt s.soln s.wrk i j hi hj, hinv.2.2] at h
  exact (lexLt_false_iff _ _).mpr h

/-- **Feasibility**: started from a feasible subset (what `rng.choice(space, k, replace=False)` and
    the sorting phase deliver), every iterate — in particular the returned decision — consists of
    `k` distinct members of the candidate set. -/
theorem hillclimb_feasible (space init : List ε) (hs : space.Nodup) (k : ℕ) (hinit : Feasible space k init)
    (fuel : ℕ) : Feasible space k (hillclimb eval key space init fuel).1.soln := by
  obtain ⟨hperm, hlen, _⟩ := hillclimb_invariant eval key space init fuel
  have hbase : (init ++ complement space init).Nodup := by
    rw [List.nodup_append]
    refine ⟨hinit.1, complement_nodup space init hs, ?_⟩
    intro x hx y hy hxy
    subst hxy
    exact ((complement_mem space init x).mp hy).2 hx
  have hnd := hperm.nodup_iff.mpr hbase
  refine ⟨(List.nodup_append.mp hnd).1, ?_, hlen.trans hinit.2.2⟩
  intro e he
  have := hperm.mem_iff.mp (List.mem_append_left _ he)
  rcases List.mem_append.mp this with h | h
  · exact hinit.2.1 e h
  · exact ((complement_mem space init e).mp h).1

example : ([4, 1, 3, 2] : List ℤ).Nodup ∧ Feasible ([4, 1, 3, 2] : List ℤ) 2 [4, 3] := by
  refine ⟨by decide, by decide, by decide, rfl⟩

/-- the returned decision is never worse than the start -/
theorem hillclimb_never_worse (space init : List ε) (fuel : ℕ) :
    toLex (key (hillclimb eval key space init fuel).1.val) ≤ toLex (key (eval init)) := by
  unfold hillclimb
  have := iter_inv (step eval key)
    (fun s => HCInv eval (init ++ complement space init) init.length s ∧ toLex (key s.val) ≤ toLex (key (eval init)))
    (fun s s' hs h => by
      obtain ⟨h1, h2⟩ := step_inv eval key _ _ s s' hs.1 h
      exact ⟨h1, le_trans (le_of_lt h2) hs.2⟩) fuel (hcInit eval space init)
    ⟨hcInit_inv eval space init, le_refl _⟩
  exact this.2

example : (hillclimb (fun x : List ℤ => x) (fun x => ((0 : ℚ), ((x.foldl (· + ·) 0 : ℤ) : ℚ))) [4, 1, 3, 2] [4, 3] 10).1.soln
    = [1, 2] ∧ (hillclimb (fun x : List ℤ => x) (fun x => ((0 : ℚ), ((x.foldl (· + ·) 0 : ℤ) : ℚ))) [4, 1, 3, 2] [4, 3] 10).2 = true := by
  decide +kernel

/-- the hypothesis `init.Nodup` of `hillclimb_feasible` cannot be dropped: a start subset with a
    repeated member (what `rng.choice(space, k)` *with* replacement could return — D6, repaired in
    /repo by `replace = False`) can be returned unchanged -/
theorem hillclimb_feasible_needs_nodup_start_counterexample :
    ¬ Feasible ([1, 2, 3] : List ℤ) 2
      (hillclimb (fun x : List ℤ => x) (fun x => ((0 : ℚ), ((x.foldl (· + ·) 0 : ℤ) : ℚ))) [1, 2, 3] [1, 1] 10).1.soln := by
  have : (hillclimb (fun x : List ℤ => x) (fun x => ((0 : ℚ), ((x.foldl (· + ·) 0 : ℤ) : ℚ))) [1, 2, 3] [1, 1] 10).1.soln
      = [1, 1] := by decide +kernel
  rw [this]
  intro h
  exact absurd h.1 (by decide)

/-! ### sorting start + hill climb -/
variable [Field α] [IsStrictOrderedRing α]

theorem sorting_hillclimb_terminates (g : ε → α) (space : List ε) (k : ℕ) :
    ∃ fuel, (sortingHillclimb eval key g space k fuel).2 = true :=
  hillclimb_terminates eval key space (sortingSubset g space k)

theorem sorting_hillclimb_local_opt (g : ε → α) (space : List ε) (k fuel : ℕ)
    (hstop : (sortingHillclimb eval key g space k fuel).2 = true) :
    ∀ i, i < (sortingHillclimb eval key g space k fuel).1.soln.length →
    ∀ e ∈ space, e ∉ (sortingHillclimb eval key g space k fuel).1.soln →
      lexLt (key (eval ((sortingHillclimb eval key g space k fuel).1.soln.set i e)))
            (key (eval (sortingHillclimb eval key g space k fuel).1.soln)) = false :=
  hillclimb_local_opt eval key space (sortingSubset g space k) fuel hstop

theorem sorting_hillclimb_feasible (g : ε → α) (space : List ε) (hs : space.Nodup) (k : ℕ)
    (hk : k ≤ space.length) (fuel : ℕ) :
    Feasible space k (sortingHillclimb eval key g space k fuel).1.soln :=
  hillclimb_feasible eval key space _ hs k (sorting_feasible g space hs k hk) fuel

theorem sorting_hillclimb_truthful (g : ε → α) (space : List ε) (k fuel : ℕ) :
    (sortingHillclimb eval key g space k fuel).1.val = eval (sortingHillclimb eval key g space k fuel).1.soln :=
  hillclimb_truthful eval key space _ fuel

end hillclimb

/-! ## 3. The subset operators keep every chromosome in the decision space -/
section operators
variable {ε : Type} [DecidableEq ε]

/-- the decidable Spec used by the driver is the feasibility predicate of the theorems -/
theorem feasible_spec_iff (space : List ε) (k : ℕ) (x : List ε) :
    feasibleB space k x = true ↔ (x.Nodup ∧ (∀ e ∈ x, e ∈ space) ∧ x.length = k) :=
  feasibleB_iff space k x

/-- **Candidate labels may be of any type; feasibility does not depend on how candidates are labelled.**
    Every theorem of this file is stated for an arbitrary label type `ε` with decidable equality (integers,
    rationals = the exactly represented floats of a float-labelled `decn_space`, strings …).  The harness runs
    float-labelled candidate sets against the integer ids of the table model through the injective map
    label ↦ id: a decision is a feasible subset of the labelled candidate set iff its image is one of the
    id set. -/
theorem feasible_relabel {ε' : Type} [DecidableEq ε'] (f : ε → ε') (hf : Function.Injective f)
    (space : List ε) (k : ℕ) (x : List ε) :
    Feasible (space.map f) k (x.map f) ↔ Feasible space k x := by
  unfold Feasible
  rw [List.nodup_map_iff hf, List.length_map]
  constructor
  · rintro ⟨h1, h2, h3⟩
    refine ⟨h1, fun e he => ?_, h3⟩
    have := h2 (f e) (List.mem_map_of_mem he)
    exact (List.mem_map_of_injective hf).1 this
  · rintro ⟨h1, h2, h3⟩
    refine ⟨h1, fun e he => ?_, h3⟩
    obtain ⟨a, ha, rfl⟩ := List.mem_map.1 he
    exact List.mem_map_of_mem (h2 a ha)

example : Function.Injective (fun z : ℤ => ((z : ℚ) + 1 / 2) / 4) ∧
    Feasible ([7, 3, 5, 1] : List ℤ) 2 [5, 7] := by
  refine ⟨fun a b h => ?_, by decide, by decide, rfl⟩
  have h' : ((a : ℚ) + 1 / 2) / 4 = ((b : ℚ) + 1 / 2) / 4 := h
  have : (a : ℚ) = b := by linarith
  exact_mod_cast this

/-- the Spec at rational labels (`c06.spec_solution` with `labels`): members by VALUE -/
example : feasibleB ([7 / 4, -1 / 2, 3, 17 / 4] : List ℚ) 2 [3, 7 / 4] = true ∧
    feasibleB ([7 / 4, -1 / 2, 3, 17 / 4] : List ℚ) 2 [3, 2] = false := by decide +kernel

/-- **Casting a decision to an integer type is not label-preserving**: on a candidate set with non-integral
    labels the truncated chromosome (numpy `astype(int)`: toward zero) leaves the candidate set, and two
    members may collide — why a returned decision must carry the candidates' own labels. -/
theorem label_cast_to_int_counterexample :
    feasibleB ([7 / 4, -1 / 2, 3, 5 / 4] : List ℚ) 2 [7 / 4, 5 / 4] = true ∧
    feasibleB ([7 / 4, -1 / 2, 3, 5 / 4] : List ℚ) 2 ([7 / 4, 5 / 4].map (fun q : ℚ => ((Int.tdiv q.num q.den : ℤ) : ℚ))) = false ∧
    ([7 / 4, 5 / 4] : List ℚ).map (fun q : ℚ => ((Int.tdiv q.num q.den : ℤ) : ℚ)) = [1, 1] := by
  decide +kernel

/-- **Sampling establishes feasibility iff it is done without replacement.**  `replace` is the
    flag handed to `np.random.choice`; a draw is any list of `k` positions, duplicate-free when
    `replace = false`. -/
theorem sampling_feasible_iff_no_replace (space : List ε) (hs : space.Nodup) (k : ℕ) (hk2 : 2 ≤ k)
    (hkn : k ≤ space.length) (replace : Bool) :
    (∀ idx : List ℕ, idx.length = k → (∀ i ∈ idx, i < space.length) → (replace = false → idx.Nodup) →
        Feasible space k (sampleSubset space idx)) ↔ replace = false := by
  constructor
  · intro h
    by_contra hr
    have hr' : replace = true := by simpa using hr
    have hpos : 0 < space.length := by omega
    -- the draw (0, 0, …, 0) is admissible with replacement and repeats space[0]
    have hf := h (List.replicate k 0) (by simp) (by
      intro i hi; rw [List.eq_of_mem_replicate hi]; exact hpos) (by intro hc; rw [hr'] at hc; cases hc)
    have hnd := hf.1
    unfold sampleSubset Np.take at hnd
    obtain ⟨m, rfl⟩ : ∃ m, k = m + 2 := ⟨k - 2, by omega⟩
    simp [List.replicate_succ, List.getElem?_eq_getElem hpos] at hnd
  · intro hr idx hlen hlt hnd
    rw [← hlen]
    exact sample_feasible space hs idx (hnd hr) hlt

example : ([7, 3, 5, 1] : List ℤ).Nodup ∧ 2 ≤ 3 ∧ 3 ≤ ([7, 3, 5, 1] : List ℤ).length := by decide

/-- **Crossover preserves feasibility for every choice of exchange positions** (repeated positions,
    out-of-range positions and identical parents included). -/
theorem crossover_preserves_feasible (space : List ε) (k : ℕ) (a b : List ε) (mex : List ℕ)
    (ha : Feasible space k a) (hb : Feasible space k b) :
    Feasible space k (crossover a b mex).1 ∧ Feasible space k (crossover a b mex).2 :=
  crossover_feasible space k a b mex ha hb

example : crossover ([1, 2, 3, 4] : List ℤ) [3, 5, 1, 6] [1, 1] = ([1, 2, 3, 6], [3, 5, 1, 4]) ∧
    Feasible ([1, 2, 3, 4, 5, 6] : List ℤ) 4 [1, 2, 3, 4] ∧ Feasible ([1, 2, 3, 4, 5, 6] : List ℤ) 4 [3, 5, 1, 6] := by
  refine ⟨by decide +kernel, ⟨by decide, by decide, rfl⟩, ⟨by decide, by decide, rfl⟩⟩

/-- **Mutation preserves feasibility** — as written in /repo it only rewrites members that are
    *outside* the set space, so it is the identity on every chromosome made of candidates
    (see REPORT: the operator never mutates; not a C06 violation). -/
theorem mutation_preserves_feasible (space : List ε) (k : ℕ) (x : List ε) (mexMask : List Bool)
    (choice : List ℕ) (hx : Feasible space k x) :
    mutation space x mexMask choice = x ∧ Feasible space k (mutation space x mexMask choice) := by
  have h := mutation_id space x mexMask choice hx.2.1
  exact ⟨h, by rw [h]; exact hx⟩

example : mutation ([1, 2, 3, 4, 5] : List ℤ) [4, 2, 1] [true, true, true] [0, 0, 0] = [4, 2, 1] := by decide +kernel

/-- **Memetic hill-climb step** (`X[:,locus] = wrkss`): every generated neighbour is feasible. -/
theorem memetic_neighbors_feasible (space : List ε) (k : ℕ) (x : List ε) (locus : ℕ) (hx : Feasible space k x) :
    ∀ y ∈ hcNeighbors space x locus, Feasible space k y :=
  neighbors_feasible space k x locus hx

example : hcNeighbors ([7, 3, 5, 1, 9] : List ℤ) [5, 7] 1 = [[5, 3], [5, 1], [5, 9]] := by decide +kernel

/-- **Every population reachable by the operators is feasible, whatever selection does.**  The
    history is any list of operations: sampling draws without replacement, crossover of any two
    individuals with any exchange positions, mutation, memetic neighbourhoods, and arbitrary
    re-selections (selection, survival, duplicate elimination — with repetition, in any order). -/
theorem reachable_feasible (space : List ε) (hs : space.Nodup) (k : ℕ) (ops : List GAOp)
    (hops : ∀ op ∈ ops, Admissible space k op) (pop0 : List (List ε)) (h0 : ∀ x ∈ pop0, Feasible space k x) :
    ∀ x ∈ ops.foldl (applyOp space) pop0, Feasible space k x := by
  induction ops generalizing pop0 with
  | nil => simpa using h0
  | cons op ops ih =>
    simp only [List.foldl_cons]
    exact ih (fun o ho => hops o (List.mem_cons_of_mem _ ho)) _
      (applyOp_feasible space hs k pop0 h0 op (hops op List.mem_cons_self))

example : ∀ op ∈ [GAOp.sample [2, 0], .sample [1, 3], .cross 0 1 [0], .mutate 2 [] [], .neighbors 3 0, .select [4, 4, 2]],
    Admissible ([7, 3, 5, 1] : List ℤ) 2 op := by
  intro op hop
  simp only [List.mem_cons, List.not_mem_nil, or_false] at hop
  rcases hop with rfl | rfl | rfl | rfl | rfl | rfl <;> simp [Admissible]

example : [GAOp.sample [2, 0], .sample [1, 3], .cross 0 1 [0], .mutate 2 [] [], .neighbors 3 0, .select [4, 4, 2]].foldl
    (applyOp ([7, 3, 5, 1] : List ℤ)) [] = [[7, 1], [7, 1], [3, 7]] := by decide +kernel

/-- **MutatorA / MutatorB hill-climb** (as repaired by f3bb3b1b / 39facf4d): every candidate the
    method can return — `x` itself when there is no alternative allele (n = k), otherwise `x` with
    ONE locus replaced by a candidate outside it — is feasible, for every draw of loci and alleles. -/
theorem mutatorAB_hillclimb_feasible (space : List ε) (k : ℕ) (x : List ε) (lociix alleleix : List ℕ)
    (hx : Feasible space k x) : ∀ y ∈ mutatorRows space x lociix alleleix, Feasible space k y := by
  intro y hy
  unfold mutatorRows at hy
  simp only [] at hy
  split at hy
  · rw [List.mem_singleton.mp hy]; exact hx
  · obtain ⟨p, hp, rfl⟩ := List.mem_map.mp hy
    have hw : p.2 ∈ complement space x := take_mem _ _ _ (List.of_mem_zip hp).2
    obtain ⟨h1, h2⟩ := (complement_mem space x p.2).mp hw
    exact set_feasible space k x p.1 p.2 hx h1 h2

example : mutatorRows ([5, 3, 9, 1] : List ℤ) [5, 3, 9] [0, 1, 2] [0, 0, 0] = [[1, 3, 9], [5, 1, 9], [5, 3, 1]] ∧
    mutatorRows ([5, 3, 9] : List ℤ) [5, 3, 9] [] [] = [[5, 3, 9]] := by
  decide +kernel

/-- regression witness for D34 (fixed by f3bb3b1b): the broadcast assignment
    `Xhc[:,lociix] = alleles[alleleix]` overwrote all listed loci of every row; with one alternative
    allele and three loci the row was `[1, 1, 1]`. -/
theorem mutatorAB_hillclimb_prerepair_counterexample :
    ¬ Feasible ([5, 3, 9, 1] : List ℤ) 3 (mutatorRowPrerepair [5, 3, 9, 1] [5, 3, 9] [0, 1, 2] [0, 0, 0]) := by
  have : mutatorRowPrerepair ([5, 3, 9, 1] : List ℤ) [5, 3, 9] [0, 1, 2] [0, 0, 0] = [1, 1, 1] := by decide +kernel
  rw [this]
  intro h
  exact absurd h.1 (by decide)

/-- **Stochastic memetic hill-climb incl. the n = k early return** (39facf4d): feasible for every
    sequence of kept exchanges and every draw of the fallback mutation. -/
theorem stochastic_hillclimb_feasible (space : List ε) (hs : space.Nodup) (k : ℕ) (x : List ε)
    (hx : Feasible space k x) (kept : List (ℕ × ℕ)) (mexMask : List Bool) (choice : List ℕ) :
    Feasible space k (stochasticHillclimb space x kept mexMask choice) := by
  unfold stochasticHillclimb
  simp only []
  split
  · rw [mutation_id space x mexMask choice hx.2.1]; exact hx
  · obtain ⟨hperm, hlen⟩ := exchSeq_perm x (complement space x) kept
    have hbase : (x ++ complement space x).Nodup := by
      rw [List.nodup_append]
      refine ⟨hx.1, complement_nodup space x hs, ?_⟩
      intro a ha b hb hab
      subst hab
      exact ((complement_mem space x a).mp hb).2 ha
    have hnd := hperm.nodup_iff.mpr hbase
    refine ⟨(List.nodup_append.mp hnd).1, ?_, hlen.trans hx.2.2⟩
    intro e he
    rcases List.mem_append.mp (hperm.mem_iff.mp (List.mem_append_left _ he)) with h | h
    · exact hx.2.1 e h
    · exact ((complement_mem space x e).mp h).1

example : stochasticHillclimb ([5, 3, 9] : List ℤ) [5, 3, 9] [(0, 0)] [] [] = [5, 3, 9] ∧
    stochasticHillclimb ([7, 3, 5, 1, 9] : List ℤ) [5, 7] [(0, 2), (1, 0)] [] [] = [9, 3] := by
  decide +kernel

/-- **The mechanism the property names, "mutation from the complement of the individual"**, keeps
    feasibility for every mask exactly when the replacement alleles are drawn WITHOUT replacement
    (`choice` duplicate-free).  `/repo`'s ReducedExchangeMutation does not implement it (it is the
    identity, `mutation_preserves_feasible`); a repair must sample with `replace = False`. -/
theorem mutation_from_complement_feasible (space : List ε) (hs : space.Nodup) (k : ℕ) (x : List ε)
    (mexMask : List Bool) (choice : List ℕ) (hx : Feasible space k x) (hnd : choice.Nodup) :
    Feasible space k (mutationFromComplement space x mexMask choice) := by
  unfold mutationFromComplement
  have hvs : ∀ v ∈ Np.take choice (complement space x), v ∈ space ∧ v ∉ x := fun v hv =>
    (complement_mem space x v).mp (take_mem _ _ v hv)
  refine ⟨maskSet_nodup x mexMask _ hx.1 (take_nodup _ (complement_nodup space x hs) _ hnd) (fun v hv => (hvs v hv).2), ?_,
    by rw [maskSet_length]; exact hx.2.2⟩
  intro e he
  rcases maskSet_mem x mexMask _ e he with h | h
  · exact hx.2.1 e h
  · exact (hvs e h).1

example : mutationFromComplement ([1, 2, 3, 4, 5] : List ℤ) [4, 2, 1] [true, false, true] [1, 0] = [5, 2, 3] := by
  decide +kernel

/-- with replacement (a repeated position in `choice` — what `np.random.choice(bp, nex)` or a
    `replace = nex > len(bp)` fallback allows) the mutated chromosome can repeat a member -/
theorem mutation_from_complement_with_replacement_counterexample :
    ¬ Feasible ([1, 2, 3, 4] : List ℤ) 3 (mutationFromComplement [1, 2, 3, 4] [3, 2, 1] [true, true, false] [0, 0]) := by
  have : mutationFromComplement ([1, 2, 3, 4] : List ℤ) [3, 2, 1] [true, true, false] [0, 0] = [4, 4, 1] := by decide +kernel
  rw [this]
  intro h
  exact absurd h.1 (by decide)

end operators

/-- **Stochastic memetic hill-climb**: any sequence of exchanges between a chromosome and the pool
    of candidates outside it (kept proposals of StochasticHillClimberMutation.hillclimb) ends in a
    feasible chromosome. -/
theorem exchange_sequence_feasible {ε : Type} [DecidableEq ε] (space : List ε) (hs : space.Nodup) (k : ℕ)
    (x : List ε) (hx : Feasible space k x) (L : List (ℕ × ℕ)) :
    Feasible space k (exchSeq x (complement space x) L).1 := by
  obtain ⟨hperm, hlen⟩ := exchSeq_perm x (complement space x) L
  have hbase : (x ++ complement space x).Nodup := by
    rw [List.nodup_append]
    refine ⟨hx.1, complement_nodup space x hs, ?_⟩
    intro a ha b hb hab
    subst hab
    exact ((complement_mem space x a).mp hb).2 ha
  have hnd := hperm.nodup_iff.mpr hbase
  refine ⟨(List.nodup_append.mp hnd).1, ?_, hlen.trans hx.2.2⟩
  intro e he
  rcases List.mem_append.mp (hperm.mem_iff.mp (List.mem_append_left _ he)) with h | h
  · exact hx.2.1 e h
  · exact ((complement_mem space x e).mp h).1

example : (exchSeq ([5, 7] : List ℤ) (complement [7, 3, 5, 1, 9] [5, 7]) [(0, 2), (1, 0), (0, 2)]).1 = [5, 3] := by
  decide +kernel

/-! ## 4. Integer variants: clamp + rounding keeps every entry an integer inside integer bounds -/

/-- **Full statement for the integer operators.**  Whatever value `raw` the real-coded arithmetic of
    pymoo's SBX / polynomial mutation produced (any rational: spread factors, perturbations and the
    draws are arbitrary), after pymoo's final clamp to `[l, u]` (`repair_clamp`, last statement of
    `cross_sbx`; `set_to_bounds_if_outside`, last statement of `mut_pm`) and `.round(0).astype(int)`
    the entry is an integer with `l ≤ · ≤ u`, for all integer bounds `l ≤ u`, negative ones included. -/
theorem integer_ops_in_bounds (l u : ℤ) (hlu : l ≤ u) (raw : ℚ) :
    l ≤ roundHalfEven (clampR (l : ℚ) (u : ℚ) raw) ∧ roundHalfEven (clampR (l : ℚ) (u : ℚ) raw) ≤ u := by
  obtain ⟨hl, hu⟩ := clampR_mem (l : ℚ) (u : ℚ) raw (by exact_mod_cast hlu)
  set q := clampR (l : ℚ) (u : ℚ) raw
  have hfl : l ≤ q.floor := Rat.le_floor_iff.mpr hl
  have hfq : (q.floor : ℚ) ≤ q := Rat.floor_le q
  have hfu : q.floor ≤ u := by exact_mod_cast le_trans hfq hu
  have hup : (1 : ℚ) / 2 ≤ q - (q.floor : ℚ) → q.floor + 1 ≤ u := by
    intro h
    have : (q.floor : ℚ) < (u : ℚ) := by linarith
    have : q.floor < u := by exact_mod_cast this
    omega
  unfold roundHalfEven
  simp only []
  split_ifs with h1 h2 h3
  · exact ⟨hfl, hfu⟩
  · exact ⟨by omega, hup (le_of_lt h2)⟩
  · exact ⟨hfl, hfu⟩
  · exact ⟨by omega, hup (not_lt.mp h1)⟩

example : roundHalfEven (clampR ((-6 : ℤ) : ℚ) ((-1 : ℤ) : ℚ) (-1 / 4)) = -1 ∧
    roundHalfEven (clampR ((-6 : ℤ) : ℚ) ((-1 : ℤ) : ℚ) (-7 / 2)) = -4 ∧
    roundHalfEven (clampR ((-6 : ℤ) : ℚ) ((-1 : ℤ) : ℚ) (-13 / 2)) = -6 := by
  refine ⟨by decide +kernel, by decide +kernel, by decide +kernel⟩

/-- the whole chromosome: every entry of the integer variant lies inside its own bounds -/
theorem integer_variant_in_bounds (xl xu : List ℤ) (raw : List ℚ)
    (hb : ∀ b ∈ List.zip xl xu, b.1 ≤ b.2) :
    ∀ p ∈ List.zip (integerVariant xl xu raw) (List.zip xl xu), p.2.1 ≤ p.1 ∧ p.1 ≤ p.2.2 := by
  intro p hp
  obtain ⟨i, hi, rfl⟩ := List.mem_iff_getElem.mp hp
  simp only [List.length_zip, integerVariant, List.length_map, lt_min_iff] at hi
  obtain ⟨⟨hr, h1, h2⟩, _⟩ := hi
  simp only [integerVariant, List.getElem_zip, List.getElem_map]
  have hmem : (xl[i], xu[i]) ∈ List.zip xl xu := by
    rw [List.mem_iff_getElem]
    exact ⟨i, by simp [List.length_zip]; omega, by simp⟩
  exact integer_ops_in_bounds xl[i] xu[i] (hb _ hmem) raw[i]

example : integerVariant [-6, 0] [-1, 3] [-1 / 4, 7 / 2] = [-1, 3] := by decide +kernel

/-
FULL STATEMENT of the rounding step alone (false, see `integer_round_without_clamp_counterexample`):
  ∀ q l u, l ≤ u → l ≤ roundHalfEven q ∧ roundHalfEven q ≤ u.
The hypothesis `l ≤ q ≤ u` is necessary for the bare rounding; `integer_ops_in_bounds` above removes it
for the operators by including pymoo's final clamp.
-/
theorem integer_round_in_bounds_partial (q : ℚ) (l u : ℤ) (hl : (l : ℚ) ≤ q) (hu : q ≤ (u : ℚ)) :
    l ≤ roundHalfEven q ∧ roundHalfEven q ≤ u := by
  have hlu : l ≤ u := by exact_mod_cast le_trans hl hu
  have := integer_ops_in_bounds l u hlu q
  rwa [clampR_id _ _ _ hl hu] at this

example : ((-1 : ℤ) : ℚ) ≤ (5 / 2 : ℚ) ∧ (5 / 2 : ℚ) ≤ ((3 : ℤ) : ℚ) ∧ roundHalfEven (5 / 2) = 2 ∧ roundHalfEven (7 / 2) = 4 := by
  refine ⟨by norm_num, by norm_num, by decide +kernel, by decide +kernel⟩

/-- the clamp is what makes the statement full: rounding a value outside the bounds leaves them -/
theorem integer_round_without_clamp_counterexample :
    ¬ (roundHalfEven (7 / 2) ≤ (3 : ℤ)) ∧ ¬ ((-1 : ℤ) ≤ roundHalfEven (-5 / 2)) := by
  refine ⟨by decide +kernel, by decide +kernel⟩

/-- integers are fixed points of the rounding (an integer chromosome is not moved by `.round(0)`) -/
theorem integer_round_of_int (z : ℤ) : roundHalfEven (z : ℚ) = z := by
  unfold roundHalfEven
  simp [Rat.floor_intCast]

/-! ## 5. The Spec oracles of the driver say what the theorems say, and the model satisfies them -/
section specs
variable {ε β α : Type} [LinearOrder α] [DecidableEq ε]
variable (eval : List ε → β) (key : β → α × α)

/-- `c06.spec_localopt` (`localOptB`) is the conclusion of `hillclimb_local_opt` -/
theorem local_opt_spec_iff (space decn : List ε) :
    localOptB eval key space decn = true ↔
      ∀ i, i < decn.length → ∀ e ∈ space, e ∉ decn →
        lexLt (key (eval (decn.set i e))) (key (eval decn)) = false :=
  localOptB_iff eval key space decn

/-- the model of both hill climbers satisfies the local-optimality oracle, for every evaluation
    function (any magnitudes: the comparison is exact), every start and every fuel with which it exits -/
theorem hillclimb_spec_sound (space init : List ε) (fuel : ℕ)
    (hstop : (hillclimb eval key space init fuel).2 = true) :
    localOptB eval key space (hillclimb eval key space init fuel).1.soln = true :=
  (local_opt_spec_iff eval key space _).mpr (hillclimb_local_opt eval key space init fuel hstop)

example : localOptB (fun x : List ℤ => x) (fun x => ((0 : ℚ), ((x.foldl (· + ·) 0 : ℤ) : ℚ))) [4, 1, 3, 2] [1, 2] = true ∧
    localOptB (fun x : List ℤ => x) (fun x => ((0 : ℚ), ((x.foldl (· + ·) 0 : ℤ) : ℚ))) [4, 1, 3, 2] [1, 3] = false := by
  decide +kernel

/-- the composite optimiser (sorted start, then the same climb) satisfies the oracle as well -/
theorem sorting_hillclimb_spec_sound (g : ε → α) (space : List ε) (k fuel : ℕ)
    (hstop : (sortingHillclimb eval key g space k fuel).2 = true) :
    localOptB eval key space (sortingHillclimb eval key g space k fuel).1.soln = true :=
  hillclimb_spec_sound eval key space (sortingSubset g space k) fuel hstop

/-- `c06.spec_optimum` (`optimumB`): no order-preserving k-selection of the candidate set scores
    strictly better (by `bruteforce_enumeration_complete` these are all subsets up to arrangement) -/
theorem optimum_spec_iff {γ : Type} [LinearOrder γ] (score : List ε → γ) (k : ℕ) (space decn : List ε) :
    optimumB score k space decn = true ↔ ∀ x ∈ combos k space, score decn ≤ score x :=
  optimumB_iff score k space decn

/-- the model of the sorting optimiser satisfies the brute-force oracle for every separable score
    `c · Σ g e` with `c ≥ 0` (sum: c = 1, mean: c = 1/k), any data, any size -/
theorem sorting_spec_sound {γ : Type} [Field γ] [LinearOrder γ] [IsStrictOrderedRing γ]
    (g : ε → γ) (space : List ε) (hs : space.Nodup) (k : ℕ) (c : γ) (hc : 0 ≤ c) :
    optimumB (fun x => c * (x.map g).sum) k space (sortingSubset g space k) = true := by
  rw [optimum_spec_iff]
  intro x hx
  obtain ⟨hsub, hlen⟩ := (mem_combos_iff space k x).mp hx
  have := sorting_optimal g space x (hsub.nodup hs) (fun e he => hsub.subset he) c hc
  rwa [hlen] at this

example : optimumB (fun x : List ℤ => (1 / 3 : ℚ) * (x.map (fun e : ℤ => ((e % 5 : ℤ) : ℚ))).sum) 3
    [10, 13, 11, 17, 12, 19] [10, 11, 17] = true := by decide +kernel

/-- `c06.spec_solution`, part "no member dominated by another" -/
theorem nondominated_spec_iff {ρ : Type} (dom : ρ → ρ → Bool) (rows : List ρ) :
    nondomB dom rows = true ↔
      ∀ i j (hi : i < rows.length) (hj : j < rows.length), i ≠ j → dom rows[j] rows[i] = false :=
  nondomB_iff dom rows

example : nondomB (fun (a b : ℕ × ℕ) => decide (a.1 ≤ b.1 ∧ a.2 ≤ b.2 ∧ a ≠ b)) [(1, 3), (2, 2), (3, 1)] = true ∧
    nondomB (fun (a b : ℕ × ℕ) => decide (a.1 ≤ b.1 ∧ a.2 ≤ b.2 ∧ a ≠ b)) [(1, 3), (2, 2), (2, 3)] = false := by
  decide

end specs

/-! ### the older copy of the climber (UnconstrainedSteepestAscentSetHillClimber) -/
section ascent
variable {ε β α : Type} [Field α] [LinearOrder α] [IsStrictOrderedRing α] [DecidableEq ε]
variable (eval : List ε → β) (wscore : β → α)

theorem steepest_ascent_terminates (space init : List ε) :
    ∃ fuel, (steepestAscent eval wscore space init fuel).2 = true :=
  hillclimb_terminates eval _ space init

/-- when the older climber exits, no single exchange has a LARGER weighted score -/
theorem steepest_ascent_local_opt (space init : List ε) (fuel : ℕ)
    (hstop : (steepestAscent eval wscore space init fuel).2 = true) :
    ∀ i, i < (steepestAscent eval wscore space init fuel).1.soln.length →
    ∀ e ∈ space, e ∉ (steepestAscent eval wscore space init fuel).1.soln →
      wscore (eval ((steepestAscent eval wscore space init fuel).1.soln.set i e)) ≤
        wscore (eval (steepestAscent eval wscore space init fuel).1.soln) := by
  intro i hi e he hne
  have h := hillclimb_local_opt eval (fun v => ((0 : α), - wscore v)) space init fuel hstop i hi e he hne
  rw [lexLt_false_iff, Prod.Lex.toLex_le_toLex] at h
  rcases h with h | ⟨_, h⟩
  · exact absurd h (lt_irrefl _)
  · exact neg_le_neg_iff.mp h

theorem steepest_ascent_truthful (space init : List ε) (fuel : ℕ) :
    (steepestAscent eval wscore space init fuel).1.val = eval (steepestAscent eval wscore space init fuel).1.soln :=
  hillclimb_truthful eval _ space init fuel

example : (steepestAscent (fun x : List ℤ => x) (fun x => ((x.foldl (· + ·) 0 : ℤ) : ℚ)) [4, 1, 3, 2] [1, 2] 10).1.soln = [4, 3] := by
  decide +kernel

end ascent

/-! ## 6. Solution assembly: reported values = fresh evaluation -/
section assembly
variable {ε ν : Type} [DecidableEq ν]

/-- `c06.spec_solution`, part "truthful": row by row the reported triple is the evaluation of the
    reported decision (the four arrays have one row per solution) -/
theorem truthful_spec_iff (ev : List ε → ν × ν × ν) (s : Soln ε ν) :
    truthfulB ev s = true ↔
      (s.decn.length = s.obj.length ∧ s.decn.length = s.ineqcv.length ∧ s.decn.length = s.eqcv.length) ∧
      ∀ r ∈ s.rows, ev r.1 = r.2 :=
  truthfulB_iff ev s

/-- **Every pymoo-driven optimiser**: whatever set of chromosomes `X` pymoo's loop ends with
    (arbitrary: selection, survival and termination are not modelled), the Solution assembled from
    `res.X / res.F / res.G / res.H` is truthful, because `Problem._evaluate` hands pymoo the vectors
    of `evalfn` unchanged (signed constraint values included) and the four arrays are taken from the
    same members in the same order. -/
theorem ga_solution_truthful (ev : List ε → ν × ν × ν) (X : List (List ε)) :
    truthfulB ev (assemble (X.map (mkIndiv ev))) = true := by
  apply assemble_truthful
  intro i hi
  obtain ⟨x, _, rfl⟩ := List.mem_map.mp hi
  exact mkIndiv_eval ev x

example : truthfulB (fun x : List ℤ => ([x.sum], [x.sum - 7], ([] : List ℤ)))
    (assemble ([[1, 2], [3, 5]].map (mkIndiv (fun x : List ℤ => ([x.sum], [x.sum - 7], ([] : List ℤ)))))) = true := by
  decide

/-- the exact optimisers report `prob.evalfn(gbest_soln)` itself -/
theorem exact_solution_truthful (ev : List ε → ν × ν × ν) (x : List ε) :
    truthfulB ev (solutionOf x (ev x)) = true := by
  apply assemble_truthful
  intro i hi
  rw [List.mem_singleton.mp hi]

end assembly

/-- the Solution of the sorting optimiser (signed constraint values or not) is truthful -/
theorem sorting_solution_truthful {ε ν α : Type} [DecidableEq ν] [LT α] [DecidableLT α]
    (ev : List ε → ν × ν × ν) (g : ε → α) (space : List ε) (k : ℕ) :
    truthfulB ev (solutionOf (sortingSubset g space k) (ev (sortingSubset g space k))) = true :=
  exact_solution_truthful ev _

/-- the Solution of both hill climbers is truthful, at whatever point the loop is left -/
theorem hillclimb_solution_truthful {ε ν α : Type} [DecidableEq ν] [LinearOrder α] [DecidableEq ε]
    (ev : List ε → ν × ν × ν) (key : ν × ν × ν → α × α) (space init : List ε) (fuel : ℕ) :
    truthfulB ev (solutionOf (hillclimb ev key space init fuel).1.soln (hillclimb ev key space init fuel).1.val) = true := by
  rw [hillclimb_truthful ev key space init fuel]
  exact exact_solution_truthful ev _

/-- handing pymoo `max(0, G)` instead of `G` (NOT the code of /repo) would break truthfulness as soon
    as a satisfied constraint has slack: the signed values must reach `res.G` -/
theorem clipped_constraint_values_untruthful_counterexample :
    truthfulB (fun x : List ℤ => (([(x.sum : ℚ)], [(x.sum : ℚ) - 7], ([] : List ℚ))))
      (assemble [mkIndivClipped (fun x : List ℤ => (([(x.sum : ℚ)], [(x.sum : ℚ) - 7], ([] : List ℚ)))) [1, 2]]) = false := by
  decide +kernel

/-! ## 7. `Problem._evaluate`: both branches (D42 repaired) -/

/-- **Full**: for every configuration of the problem (element-wise or vectorised) the batch
    evaluation handed to pymoo is the row-wise `evalfn` -/
theorem evaluate_batch {ε ν : Type} (elementwise : Bool) (ev : List ε → ν) (X : List (List ε)) :
    evaluateBatch elementwise ev X = .ok (X.map ev) :=
  evaluateBatch_eq elementwise ev X

example : evaluateBatch false (fun x : List ℤ => x.sum) [[1, 2], [3, 4]] = .ok [3, 7] ∧
    evaluateBatch true (fun x : List ℤ => x.sum) [[5], [7]] = .ok [5, 7] := by decide

/-- regression witness for D42 (before the repair): `elementwise = False` evaluated
    `self.evalfn(v *args, **kwargs)`, the product `v * ()` — a broadcast error for `ndecn ≥ 2`, the
    evaluation of an EMPTY vector for `ndecn = 1` -/
theorem evaluate_batch_vectorised_prerepair_counterexample :
    evaluateBatchPrerepair false (fun x : List ℤ => x.sum) [[1, 2], [3, 4]] = .error "operands could not be broadcast together" ∧
    evaluateBatchPrerepair false (fun x : List ℤ => x.sum) [[5], [7]] = .ok [0, 0] ∧
    evaluateBatchPrerepair false (fun x : List ℤ => x.sum) [[5], [7]] ≠ .ok ([[5], [7]].map (fun x : List ℤ => x.sum)) := by
  refine ⟨by decide, by decide, by decide⟩

/-! ## 8. Signed constraint functions and the climbers' violation key (D41 repaired) -/

/-- **Full**: for EVERY evaluation function — constraint functions signed (the documented
    `G(x) ≤ 0` form, negative slack) or penalty-style — when the repaired climb has exited no single
    exchange has a lexicographically smaller (Σ max(0,g) + Σ |h|, Σ obj) -/
theorem hillclimb_local_opt_violation_key (eval : List ℤ → List ℚ × List ℚ × List ℚ)
    (space init : List ℤ) (fuel : ℕ)
    (hstop : (hillclimb eval TableProb.key space init fuel).2 = true) :
    localOptB eval TableProb.key space (hillclimb eval TableProb.key space init fuel).1.soln = true :=
  hillclimb_spec_sound eval TableProb.key space init fuel hstop

-- non-vacuity on the signed D41 table: the repaired climb from [12, 15] exits at [10, 15] (violation 0, score −7)
example : (hillclimb d41.evalD TableProb.key d41.space [12, 15] 100).2 = true ∧
    (hillclimb d41.evalD TableProb.key d41.space [12, 15] 100).1.soln = [10, 15] ∧
    TableProb.key (d41.evalD [10, 15]) = (0, -7) := by
  refine ⟨by decide +kernel, by decide +kernel, by decide +kernel⟩

/-- before the repair the two keys agreed only for penalty-style (non-negative) constraint functions -/
theorem key_prerepair_agrees_on_penalties (v : List ℚ × List ℚ × List ℚ)
    (hg : ∀ a ∈ v.2.1, 0 ≤ a) (hh : ∀ a ∈ v.2.2, 0 ≤ a) : TableProb.key v = TableProb.keyPrerepair v :=
  key_eq_keyPrerepair v hg hh

example : ∀ x ∈ [[10, 11], [12, 15], [13, 14]],
    (∀ a ∈ (d41pen.evalD x).2.1, (0 : ℚ) ≤ a) := by decide +kernel

/-- regression witness for D41 (before the repair, key = raw sum Σ g + Σ h): with signed constraint
    functions the climb started at [12, 15] stopped there at once (slack −4, 0: raw key (−4, −5)),
    although exchanging 12 for 10 keeps both constraints satisfied and improves the score −5 → −7 -/
theorem hillclimb_signed_constraints_prerepair_counterexample :
    (hillclimb d41.evalD TableProb.keyPrerepair d41.space [12, 15] 100).2 = true ∧
    (hillclimb d41.evalD TableProb.keyPrerepair d41.space [12, 15] 100).1.soln = [12, 15] ∧
    localOptB d41.evalD TableProb.keyPrerepair d41.space [12, 15] = true ∧
    localOptB d41.evalD TableProb.key d41.space [12, 15] = false := by
  refine ⟨by decide +kernel, by decide +kernel, by decide +kernel, by decide +kernel⟩

end C06
