/-
C03 — labels stay attached to their data under every matrix operation history.
Property theorems only (helper lemmas live in Lemmas/LabelMat*.lean).

Model: PybropsModel/Model/LabelMat.lean.  A state `St α lab` = 3-level data array + the taxa / variant /
trait label bundles (parallel optional label columns + optional cached group metadata); a `Schema` says
which data axes each bundle governs and carries the class quirks.  `LCell` = a data cell together with
everything that labels it (the label tuple of its coordinate on every labelled axis, the bare position on
unlabelled axes); `IsLCell sch s c` = "c is a labelled cell of s" (`lcells` is its executable list, used by
the Spec oracle on the implementation's states).

"Labels stay attached" is stated as: every labelled cell of the result of an operation (of a history) is a
labelled cell of the receiver or of an operand block — the block carrying its own labels on the edited
axis and the receiver's labels on the other axes (operands are aligned by position there).
-/
import PybropsModel.Lemmas.LabelMatMisc
import PybropsModel.Lemmas.LabelMatHistory3
import PybropsModel.Lemmas.LabelMatGeno
import PybropsModel.Lemmas.LabelMatUnphase
import PybropsModel.Lemmas.LabelMatGood
import PybropsModel.Lemmas.LabelMatBV
import PybropsModel.Lemmas.LabelMatNOps
import PybropsModel.Lemmas.LabelHeap
import PybropsModel.Lemmas.LabelMatRepair
import PybropsModel.Lemmas.LabelMatRepair2
import PybropsModel.Lemmas.LabelMatSquare3
import PybropsModel.Lemmas.LabelMatFill
import PybropsModel.Lemmas.LabelMatX
import PybropsModel.Lemmas.LabelMatSpec
import PybropsModel.Lemmas.LabelDtype
import PybropsModel.Props.C15

set_option autoImplicit false
set_option linter.unusedVariables false

namespace C03
open LabelMat

/-! ### concrete classes and states used by the examples and counterexamples -/

/-- DensePhasedGenotypeMatrix: phase × taxa × variant -/
def schPhased : Schema := { ndim := 3, taxaAx := [1], vrntAx := [2], traitAx := [] }
/-- DenseGenotypeMatrix: taxa × variant (embedded with a trailing singleton axis) -/
def schGeno : Schema := { ndim := 2, taxaAx := [0], vrntAx := [1], traitAx := [] }
/-- DenseSquareTaxaMatrix / DenseCoancestryMatrix: taxa × taxa -/
def schSquare : Schema := { ndim := 2, taxaAx := [0, 1], vrntAx := [], traitAx := [] }
def schCoancestry : Schema := { schSquare with squareCheck := true }
/-- DenseTaxaMatrix (base class) as it was before fix ec46686b -/
def schTaxaBase : Schema := { ndim := 2, taxaAx := [0], vrntAx := [], traitAx := [], genericSelfCall := true }
/-- DensePhasedGenotypeMatrix as it was before fix 74ad0b65 (integer positions reach numpy.insert as scalars) -/
def schPhasedPre : Schema := { schPhased with scalarInsertRaw := true }
/-- DenseSquareTaxaTraitMatrix -/
def schSqTrait : Schema := { ndim := 3, taxaAx := [0, 1], vrntAx := [], traitAx := [2] }
/-- DenseSquareTaxaTraitMatrix as it was before the repair of D27 (non-mutating methods inherited from the single-bundle
    parents: the other bundle's labels were not handed to the new object) -/
def schSqTraitPre : Schema := { schSqTrait with pureDropsOther := true }

def leI (a b : Int) : Bool := decide (a ≤ b)

def noCols (n : Nat) : Bundle Int := { cols := List.replicate n none, grp := none }

/-- 2 phases × 4 taxa × 2 variants, taxa groups 2,1,2,1 -/
def sPhased : St Int Int :=
  { mat := [[[0, 1], [2, 3], [4, 5], [6, 7]], [[10, 11], [12, 13], [14, 15], [16, 17]]],
    taxa := { cols := [some [100, 101, 102, 103], some [2, 1, 2, 1]], grp := none },
    vrnt := { cols := [some [1, 1], some [20, 10], none, none, none, none, none, none, none], grp := none },
    trait := noCols 1 }

/-- two taxa to be inserted: 2 phases × 2 taxa × 2 variants -/
def opTaxa : Operand Int Int :=
  { mat := [[[50, 51], [52, 53]], [[60, 61], [62, 63]]], cols := [some [150, 151], some [3, 3]] }

def sSquare : St Int Int :=
  { mat := [[[0], [1], [2]], [[3], [4], [5]], [[6], [7], [8]]],
    taxa := { cols := [some [100, 101, 102], some [1, 2, 1]], grp := none },
    vrnt := noCols 9, trait := noCols 1 }

def opSquareRow : Operand Int Int := { mat := [[[70], [71], [72]]], cols := [some [170], some [5]] }

def sTaxaBase : St Int Int :=
  { mat := [[[0], [1]], [[2], [3]], [[4], [5]]],
    taxa := { cols := [some [100, 101, 102], some [1, 2, 1]], grp := none },
    vrnt := noCols 9, trait := noCols 1 }

def sSqTrait : St Int Int :=
  { mat := [[[0, 1], [2, 3]], [[4, 5], [6, 7]]],
    taxa := { cols := [some [100, 101], some [1, 2]], grp := none },
    vrnt := noCols 9, trait := { cols := [some [200, 201]], grp := none } }

theorem nonvacuous_schPhased_simple : schPhased.Simple := by
  refine ⟨?_, ?_, rfl, rfl⟩
  · intro b k1 k2 h1 h2
    cases k1 <;> cases k2 <;> simp [Schema.axes, schPhased] at h1 h2 ⊢ <;> omega
  · intro k
    cases k <;> simp [Schema.axes, schPhased]

theorem nonvacuous_schGeno_simple : schGeno.Simple := by
  refine ⟨?_, ?_, rfl, rfl⟩
  · intro b k1 k2 h1 h2
    cases k1 <;> cases k2 <;> simp [Schema.axes, schGeno] at h1 h2 ⊢ <;> omega
  · intro k
    cases k <;> simp [Schema.axes, schGeno]

/-! ## 1. Labels stay attached — single operations -/

/-
FULL STATEMENT (stated here for bundles that govern ONE axis; the bundles that govern two axes, i.e. the square classes,
are `square_unary_op_attached_partial` below; before the repair of D27 it was false of DenseSquareTaxaTraitMatrix, see
`pure_op_drops_other_labels_prerepair_counterexample`):
  for every class schema `sch`, every labelled bundle `k`, every consistent state `s` and every unary
  structural operation (select / delete / remove / reorder / sort / group / ungroup) that succeeds with
  result `s'`, every labelled cell of `s'` is a labelled cell of `s`.
Hypotheses of the partial theorems: `sch.Simple` (no axis claimed twice, every bundle governs at most one
axis < 3, non-mutating methods pass every label array on, integer insert positions are wrapped — all true of the phased / unphased genotype,
taxa-variant, taxa-trait matrices and the single-axis base classes).
-/

/-- **select / delete / remove / reorder / sort / group / ungroup keep labels attached**, for every index
    form (negative entries, slices, masks), every key choice, every state, every size. -/
theorem unary_op_attached_partial {α lab : Type} [BEq lab] (le : lab → lab → Bool) (sch : Schema)
    (hs : sch.Simple) (fill : α) (fx : Bool) (op : Op α lab) (hun : op.isUnary = true)
    (s s' : St α lab) (hcons : consistentOK sch s = true)
    (h : step le sch fill fx op s = .ok s') (c : LCell α lab) (hc : c ∈ lcells sch s')
    (hr' : rect s'.mat = true) : c ∈ lcells sch s := by
  rw [mem_lcells_iff sch s (consistent_rect hcons)]
  rw [mem_lcells_iff sch s' hr'] at hc
  have hsafe : op.Safe sch := by
    cases op <;> simp [Op.Safe] <;> simp [Op.isUnary] at hun
  have hops : op.operands = [] := by
    cases op <;> simp [Op.operands] <;> simp [Op.isUnary] at hun
  have hopnd : OperandsOK sch op s := by
    intro v hv; rw [hops] at hv; cases hv
  rcases step_attached le sch fill fx op (hs.at _) s s' hcons hopnd hsafe h c hc with h1 | ⟨v, hv, _⟩
  · exact h1
  · rw [hops] at hv; cases hv

example : consistentOK schPhased sPhased = true := by decide
example : (step leI schPhased 0 false (.select .taxa [3, -4, 1]) sPhased).toOption.isSome = true := by decide
example : (step leI schPhased 0 false (.delete .vrnt (.slice none none (some 2))) sPhased).toOption.isSome = true := by
  decide
example : (step leI schPhased 0 false (.sort .taxa none) sPhased).toOption.isSome = true := by decide

/-
FULL STATEMENT for the square classes (false for insert / incorp / concat, see `square_incorp_counterexample`;
adjoin / append are covered by `operand_op_attached_partial` below):
  the same for every operation on a taxa × taxa (× trait) matrix.
-/

/-- **Square matrices (coancestry and other taxa × taxa classes): select / delete / remove / reorder / sort /
    group / ungroup keep labels attached** — the edit is applied along both taxa axes and to the labels. -/
theorem square_unary_op_attached_partial {α lab : Type} [BEq lab] (le : lab → lab → Bool) (sch : Schema)
    (hwf : sch.WF) (hd : sch.pureDropsOther = false) (fill : α) (fx : Bool) (op : Op α lab)
    (hun : op.isUnary = true) (hax : sch.axes op.kind = [0, 1]) (s s' : St α lab)
    (hcons : consistentOK sch s = true)
    (h : step le sch fill fx op s = .ok s') (c : LCell α lab) (hc : IsLCell sch s' c) : IsLCell sch s c := by
  have hsq : axLen 0 s.mat = axLen 1 s.mat :=
    ((cons_iff _ _).mp hcons).2.2 op.kind 0 1 (by rw [hax]; simp) (by rw [hax]; simp)
  have key : ∀ k, op.kind = k → UnaryForm sch k s s' → IsLCell sch s c := by
    intro k hk hu
    rw [hk] at hax
    exact unaryForm_attached_square sch hwf k hax s s' hcons hsq hu c hc
  cases op with
  | select k is => exact key k rfl (selectK_form hd h)
  | delete k obj => exact key k rfl (deleteK_form hd h)
  | remove k obj => exact key k rfl (removeK_form h)
  | reorder k is =>
    simp only [step] at h
    split at h
    · exact key k rfl (reorderK_form h)
    · exact key k rfl (reorderKPre_form h)
  | sort k keys => exact key k rfl (sortK_form h)
  | group k => exact key k rfl (groupK_form h)
  | ungroup k =>
    simp only [step] at h
    rw [ungroupK_eq h] at hc
    exact (isLCell_congr sch _ s (freshK_mat k s) (fun kk => freshK_cols k kk s) c).mp hc
  | adjoin k v => simp [Op.isUnary] at hun
  | append k v => simp [Op.isUnary] at hun
  | insert k obj v => simp [Op.isUnary] at hun
  | incorp k obj v => simp [Op.isUnary] at hun
  | concat k vs => simp [Op.isUnary] at hun

theorem nonvacuous_schSquare_wf : schSquare.WF := by
  intro b k1 k2 h1 h2
  cases k1 <;> cases k2 <;> simp [Schema.axes, schSquare] at h1 h2 ⊢

example : consistentOK schSquare sSquare = true := by decide
example : (step leI schSquare 0 false (.group .taxa) sSquare).toOption.isSome = true := by decide +kernel

/-
FULL STATEMENT (false for the single-axis insert / incorp / concat of the square classes (D14)):
  the same for adjoin / append / insert / incorp / concat with every position form of numpy.insert, on every class.
The partial theorem is for `sch.Good` classes (every bundle governs one axis or the two leading axes; non-mutating
methods pass every label array on) and excludes exactly the D14 operations (`Op.SquareOK`).  For the block-diagonal
adjoin / append of a square class the cross blocks hold the class's fill value — the third disjunct.
-/

/-- **adjoin / append / insert / incorp / concat (and every other operation) keep labels attached**, on single-axis
    *and* square classes: every labelled cell of the result is a labelled cell of the receiver, or of an operand
    block, or (square adjoin / append only) a cross-block cell holding the fill value. -/
theorem operand_op_attached_partial {α lab : Type} [BEq lab] (le : lab → lab → Bool) (sch : Schema)
    (hg : sch.Good) (fill : α) (fx : Bool) (op : Op α lab) (hok : op.SquareOK sch) (s s' : St α lab)
    (hcons : consistentOK sch s = true) (hopnd : OperandsOK sch op s)
    (hp : PosDims s.mat) (hpv : ∀ v ∈ op.operands, PosDims v.mat)
    (h : step le sch fill fx op s = .ok s') (c : LCell α lab) (hc : IsLCell sch s' c) :
    IsLCell sch s c ∨ (∃ v ∈ op.operands, IsLCell sch (operandState s op.kind v) c) ∨ c.val = fill :=
  step_attached_good le sch hg fill fx op hok s s' hcons hopnd hp hpv h c hc

/-- **Growing a square matrix loses no data cell** (full: any bundle that governs the two leading axes, any sizes, any fill
    value).  After `append_<k>(block)` (and hence `adjoin_<k>`, `mutating_eq_pure_partial`) every cell of the receiver
    sits at its own coordinates, every cell of the block at its coordinates shifted by the receiver's lengths along the two
    square axes, and whatever lies in the two cross blocks is the fill value.  This is the Prop behind the driver's
    fill-count balance (`Drv.C03.fillBalance`): the fill value stands in the cross blocks only. -/
theorem square_adjoin_keeps_every_data_cell {α lab : Type} (sch : Schema) (k : Kind) (hax : sch.axes k = [0, 1])
    (fill : α) (v : Operand α lab) (s s' : St α lab) (h : appendK sch k fill v s = .ok s')
    (hm : rect s.mat = true) (hv : rect v.mat = true) :
    (∀ i j l x, cell s.mat i j l = some x → cell s'.mat i j l = some x) ∧
    (∀ i j l x, cell v.mat i j l = some x → cell s'.mat (axLen 0 s.mat + i) (axLen 1 s.mat + j) l = some x) ∧
    (∀ i j l x, cell s'.mat i j l = some x →
      (i < axLen 0 s.mat ∧ ¬ j < axLen 1 s.mat) ∨ (¬ i < axLen 0 s.mat ∧ j < axLen 1 s.mat) → x = fill) := by
  obtain ⟨h1, h2⟩ := appendK_square_keeps_data hax h hm hv
  refine ⟨h1, h2, fun i j l x hc hcross => ?_⟩
  rw [(adjoinCore_square hax h).mat] at hc
  exact blockDiag01_cross_is_fill fill s.mat v.mat i j l x hc hcross

example : schSquare.axes .taxa = [0, 1] := rfl
example : rect sSquare.mat = true := by decide
example : ((appendK schSquare .taxa (-99 : Int) ({ mat := [[[70]]], cols := [some [170], some [5]] } : Operand Int Int) sSquare).toOption.map
    (fun s' => (cell s'.mat 1 2 0, cell s'.mat 3 3 0, cell s'.mat 0 3 0))) = some (some 5, some 70, some (-99)) := by
  decide +kernel

theorem nonvacuous_schSquare_good : schSquare.Good := by
  refine ⟨nonvacuous_schSquare_wf, ?_, rfl, rfl⟩
  intro k
  cases k <;> simp [Schema.axes, schSquare]

/-- a 1 × 1 block adjoined to the 3 × 3 square matrix: 16 cells, 6 of them the fill value -99 -/
example : ((step leI schSquare (-99 : Int) true (.adjoin .taxa { mat := [[[(70 : Int)]]], cols := [some [170], some [5]] }) sSquare).toOption.map
    (fun s' => (shape3 s'.mat, consistentOK schSquare s', ((lcells schSquare s').filter (fun c => c.val == (-99 : Int))).length)))
    = some ((4, 4, 1), true, 6) := by decide +kernel

example : OperandsOK schPhased (.insert .taxa (.list [1]) opTaxa) sPhased := by
  intro v hv
  simp only [Op.operands, List.mem_singleton] at hv
  subst hv
  exact ⟨by decide, by decide⟩
example : (step leI schPhased 0 false (.insert .taxa (.list [1]) opTaxa) sPhased).toOption.isSome = true := by
  decide

/-- **D17 (repaired by 74ad0b65; what the code did before).**  `insert_taxa(1, block)` on a phased matrix
    with the integer position passed on to numpy.insert as a scalar: axis 0 of the block is moved to the taxa
    axis, so the result contains a cell (value 60, phase 0, labels of taxon 151) that neither the receiver nor
    the operand block has — while every label array is placed correctly. -/
theorem insert_scalar_nonleading_prerepair_counterexample :
    (match insertK schPhasedPre .taxa (.int 1) opTaxa sPhased with
     | .ok s' => (lcells schPhasedPre s').all (fun c =>
         (lcells schPhasedPre sPhased).contains c ||
         (lcells schPhasedPre (operandState sPhased .taxa opTaxa)).contains c)
     | .error _ => true) = false := by
  decide +kernel

/-- the same call on the code as it is now (the integer is wrapped into a one-element list) -/
example :
    (match insertK schPhased .taxa (.int 1) opTaxa sPhased with
     | .ok s' => (lcells schPhased s').all (fun c =>
         (lcells schPhased sPhased).contains c ||
         (lcells schPhased (operandState sPhased .taxa opTaxa)).contains c)
     | .error _ => false) = true := by
  decide +kernel

/-- **D17b (repaired; what the code did before).**  A 0-d ndarray position (`insert_taxa(numpy.array(1), block)`) is
    neither `int` nor `numpy.integer`: the wrapping of fix 74ad0b65 did not apply, the position reached numpy.insert as a
    scalar and the result again contained a cell that neither the receiver nor the operand block has. -/
theorem insert_zero_dim_array_position_prerepair_counterexample :
    (match insertZeroDimKPrerepair schPhased .taxa 1 opTaxa sPhased with
     | .ok s' => (lcells schPhased s').all (fun c =>
         (lcells schPhased sPhased).contains c ||
         (lcells schPhased (operandState sPhased .taxa opTaxa)).contains c)
     | .error _ => true) = false := by
  decide +kernel

/-- **A 0-d ndarray insert position is an integer position** (full, the code as it is now: the wrap tests
    `isinstance(obj, (int, numpy.integer)) or (isinstance(obj, numpy.ndarray) and obj.ndim == 0)`): on every class, every
    axis and both forms the call is the integer call, so `insert_any_position_form_attached_partial`,
    `operand_op_attached_partial` and the history theorems cover it. -/
theorem insert_zero_dim_position_is_integer_position {α lab : Type} (sch : Schema) (k : Kind) (i : Int)
    (v : Operand α lab) (s : St α lab) :
    insertZeroDimK sch k i v s = insertK sch k (.int i) v s ∧ incorpZeroDimK sch k i v s = incorpK sch k (.int i) v s :=
  ⟨rfl, rfl⟩

/-- the witness of D17b on the code as it is now: every labelled cell of the result is one of the receiver or the block -/
example :
    (match insertZeroDimK schPhased .taxa 1 opTaxa sPhased with
     | .ok s' => (lcells schPhased s').all (fun c =>
         (lcells schPhased sPhased).contains c ||
         (lcells schPhased (operandState sPhased .taxa opTaxa)).contains c)
     | .error _ => false) = true := by
  decide +kernel

/-- a 2 × 2 unphased matrix and one taxon to insert -/
def sGeno22 : St Int Int :=
  { mat := [[[0], [1]], [[2], [3]]], taxa := { cols := [some [100, 101], some [1, 2]], grp := none },
    vrnt := noCols 9, trait := noCols 1 }
def opGenoRow : Operand Int Int := { mat := [[[50], [51]]], cols := [some [150], some [3]] }

/-- on a leading axis (unphased matrix: taxa axis 0) numpy's scalar rule is the block insert: even the pre-repair form
    gave the result of the wrapped integer — the defect needed a non-leading axis -/
example : insertZeroDimKPrerepair schGeno .taxa 1 opGenoRow sGeno22 = insertK schGeno .taxa (.int 1) opGenoRow sGeno22 := by
  decide +kernel
example : schGeno.axes .taxa = [0] := rfl
example : consistentOK schGeno sGeno22 = true ∧ consistentOK schGeno (operandState sGeno22 .taxa opGenoRow) = true := by
  decide +kernel

/-- **D27 (repaired; what the code did before).**  DenseSquareTaxaTraitMatrix inherited `select_taxa` from its
    taxa-only parent: the returned object had lost the trait names. -/
theorem pure_op_drops_other_labels_prerepair_counterexample :
    ((selectK schSqTraitPre .taxa [1, 0] sSqTrait).toOption.map (fun s' => (s'.bundle .trait).cols))
      = some [none] := by
  decide +kernel

/-- the same call on the code as it is now (the ten overrides hand the other bundle's arrays on) keeps the trait names -/
example : ((selectK schSqTrait .taxa [1, 0] sSqTrait).toOption.map (fun s' => (s'.bundle .trait).cols))
    = some (sSqTrait.bundle .trait).cols := by decide +kernel

/-! ## 2. Histories -/

/-
FULL STATEMENT (false for the single-axis insert / incorp / concat of the square classes (D14)):
  for every class, every initial state and every finite list of structural operations with valid arguments,
  every state of the history is shape-consistent and every labelled cell of the final state is a labelled
  cell of the initial state or of an operand block.
The partial theorem is for `sch.Good` classes (single-axis *and* square bundles) and histories that are
`ValidHist4`: operands fit the state they meet (`OperandsOK`), no dimension is or becomes 0 (the quantifier's "all
shapes down to a single row or column"), none of the D14 operations.  Every position form (integer, list, slice),
`concat`, and the block-diagonal square adjoin / append are covered.  Shape consistency is required of
the *initial* state only — for every later state it is a conclusion.
-/

/-- **history_preserves_entities.**  For *any* finite operation list (induction over the list; no bound on
    lengths or sizes): the final state is shape-consistent (clause S1 of the Spec), and every labelled cell of
    the final state is a labelled cell of the initial state, or of an operand block joined somewhere along
    the history (`SourcesTail`), or — after a block-diagonal adjoin / append of a square class — a cross-block cell
    holding the fill value. -/
theorem history_preserves_entities_partial {α lab : Type} [BEq lab] (le : lab → lab → Bool) (sch : Schema)
    (hg : sch.Good) (fill : α) (fx : Bool) (ops : List (Op α lab)) (s s' : St α lab)
    (hcons : consistentOK sch s = true) (hv : ValidHist4 le sch fill fx ops s)
    (h : run le sch fill fx ops s = .ok s') :
    consistentOK sch s' = true ∧
      ∀ c, IsLCell sch s' c →
        IsLCell sch s c ∨ Sources.SourcesTail le sch fill fx ops s c ∨ c.val = fill :=
  run_attached4 le sch hg fill fx ops s s' hcons hv h

/-- a history without operands only ever shows labelled cells of the initial state -/
theorem history_without_operands_partial {α lab : Type} [BEq lab] (le : lab → lab → Bool) (sch : Schema)
    (hs : sch.Simple) (fill : α) (fx : Bool) (ops : List (Op α lab)) (hno : ∀ op ∈ ops, op.operands = [])
    (s s' : St α lab) (hcons : consistentOK sch s = true) (hv : ValidHist3 le sch fill fx ops s)
    (h : run le sch fill fx ops s = .ok s') (c : LCell α lab) (hc : c ∈ lcells sch s') : c ∈ lcells sch s := by
  obtain ⟨hc', hatt⟩ := run_attached3 le sch hs fill fx ops s s' hcons hv h
  rw [mem_lcells_iff sch s (consistent_rect hcons)]
  rw [mem_lcells_iff sch s' (consistent_rect hc')] at hc
  rcases hatt c hc with h1 | h1
  · exact h1
  · exfalso
    clear h hc hv hatt hc' hcons
    induction ops generalizing s with
    | nil => exact h1
    | cons op ops ih =>
      rcases h1 with ⟨v, hv, _⟩ | ⟨s1, _, h2⟩
      · rw [hno op (by simp)] at hv; cases hv
      · exact ih (fun o ho => hno o (by simp [ho])) s1 h2

def histExample : List (Op Int Int) :=
  [.group .taxa, .select .vrnt [1, 0], .append .taxa opTaxa, .sort .taxa none, .remove .taxa (.int (-1)),
   .group .vrnt, .incorp .taxa (.int 1) opTaxa, .reorder .taxa [6, 5, 4, 3, 2, 1, 0], .concat .taxa [opTaxa, opTaxa]]

example : (run leI schPhased 0 false histExample sPhased).toOption.isSome = true := by decide +kernel

/-- the state after `group_taxa()` -/
def sGrouped : St Int Int :=
  { mat := [[[2, 3], [6, 7], [0, 1], [4, 5]], [[12, 13], [16, 17], [10, 11], [14, 15]]],
    taxa := { cols := [some [101, 103, 100, 102], some [1, 1, 2, 2]],
              grp := some { name := [1, 2], stix := [0, 2], spix := [2, 4], len := [2, 2] } },
    vrnt := { cols := [some [1, 1], some [20, 10], none, none, none, none, none, none, none], grp := none },
    trait := noCols 1 }

/-- … and after appending the two taxa of `opTaxa` -/
def sAppended : St Int Int :=
  { mat := [[[2, 3], [6, 7], [0, 1], [4, 5], [50, 51], [52, 53]],
            [[12, 13], [16, 17], [10, 11], [14, 15], [60, 61], [62, 63]]],
    taxa := { cols := [some [101, 103, 100, 102, 150, 151], some [1, 1, 2, 2, 3, 3]], grp := none },
    vrnt := { cols := [some [1, 1], some [20, 10], none, none, none, none, none, none, none], grp := none },
    trait := noCols 1 }

theorem nonvacuous_posDims (m : Mat3 Int) (h : (decide (0 < axLen 0 m) && decide (0 < axLen 1 m) &&
    decide (0 < axLen 2 m)) = true) : PosDims m := by
  simp only [Bool.and_eq_true, decide_eq_true_eq] at h
  exact ⟨h.1.1, h.1.2, h.2⟩

/-- the hypotheses of the history theorem are met by a concrete two-step history (group, then append) -/
theorem nonvacuous_validHist4 :
    ValidHist4 leI schPhased (0 : Int) false [.group .taxa, .append .taxa opTaxa] sPhased := by
  have p0 : PosDims sPhased.mat := nonvacuous_posDims sPhased.mat (by decide)
  have p1 : PosDims sGrouped.mat := nonvacuous_posDims sGrouped.mat (by decide)
  have p2 : PosDims sAppended.mat := nonvacuous_posDims sAppended.mat (by decide)
  have pv : PosDims opTaxa.mat := nonvacuous_posDims opTaxa.mat (by decide)
  have e1 : (step leI schPhased (0 : Int) false (.group .taxa) sPhased).toOption = some sGrouped := by
    decide +kernel
  have e2 : (step leI schPhased (0 : Int) false (.append .taxa opTaxa) sGrouped).toOption = some sAppended := by
    decide +kernel
  have o2 : OperandsOK schPhased (.append .taxa opTaxa : Op Int Int) sGrouped := by
    intro v hv
    simp only [Op.operands, List.mem_singleton] at hv
    subst hv
    exact ⟨by decide +kernel, by decide⟩
  show OperandsOK _ _ _ ∧ Op.SquareOK _ _ ∧ PosDims _ ∧ _ ∧ _
  refine ⟨fun v hv => (by cases hv), trivial, p0, fun v hv => (by cases hv), ?_⟩
  intro s1 h1
  rw [h1] at e1
  simp only [Except.toOption, Option.some.injEq] at e1
  subst e1
  refine ⟨p1, ?_⟩
  show OperandsOK _ _ _ ∧ Op.SquareOK _ _ ∧ PosDims _ ∧ _ ∧ _
  refine ⟨o2, trivial, p1, ?_, ?_⟩
  · intro v hv
    simp only [Op.operands, List.mem_singleton] at hv
    subst hv
    exact pv
  · intro s2 h2
    rw [h2] at e2
    simp only [Except.toOption, Option.some.injEq] at e2
    subst e2
    exact ⟨p2, trivial⟩

/-! ## 3. Grouping -/

/-- **group_partition** (full).  Whatever the class, the state and the sizes: if `group_<k>` succeeds and the
    result reports itself grouped, the cached metadata are a true contiguous partition of the current
    group column (`partitionOK`: the blocks `[stix, spix)` of lengths `len` tile `[0, n)`, the names are
    pairwise different, every label in block `i` equals `name i`), the names are strictly increasing and no
    block is empty. -/
theorem group_partition {α lab : Type} [LinearOrder lab] (sch : Schema) (k : Kind) (s s' : St α lab)
    (h : groupK (fun a b : lab => decide (a ≤ b)) sch k s = .ok s') (g : Grp lab)
    (hg : (s'.bundle k).grp = some g) :
    ∃ c col, k.grpCol = some c ∧ ((s'.bundle k).cols[c]?).join = some col ∧
      partitionOK g col = true ∧ g.name.Pairwise (· < ·) ∧ (∀ n ∈ g.len, 0 < n) :=
  groupK_partition h g hg

example : ((groupK leI schPhased .taxa sPhased).toOption.map (fun s' => (s'.bundle .taxa).grp))
    = some (some { name := [1, 2], stix := [0, 2], spix := [2, 4], len := [2, 2] }) := by decide +kernel

/-- lexsort indices are a permutation of `range n`: sorting loses and duplicates nothing -/
theorem lexsort_is_permutation {lab : Type} (le : lab → lab → Bool) (keys : List (List lab)) (n : Nat) :
    (lexsortIdx le keys n).Perm (List.range n) :=
  lexsortIdx_perm le keys n

/-- **grouped_invariant** (full).  "Reported grouped ⇒ true partition" is an invariant of every history of
    every class of the code as it is now (`reorder_<k>` drops the cached metadata since fix 3438b72e): all twelve
    operations, `reorder` and `concat` included, any number of steps, any sizes. -/
theorem grouped_invariant {α lab : Type} [LinearOrder lab] (sch : Schema) (fill : α) (ops : List (Op α lab))
    (s s' : St α lab) (h0 : groupedOK sch s = true)
    (h : run (fun a b : lab => decide (a ≤ b)) sch fill true ops s = .ok s') :
    groupedOK sch s' = true := by
  induction ops generalizing s with
  | nil => simp only [run, pure, Except.pure] at h; cases h; exact h0
  | cons op ops ih =>
    simp only [run, bind, Except.bind] at h
    split at h
    · cases h
    · rename_i s1 hs1
      refine ih s1 ?_ h
      cases op with
      | select k is => exact groupedOK_of_frame' sch k s s1 (selectK_frame' hs1) h0
      | delete k obj => exact groupedOK_of_frame' sch k s s1 (deleteK_frame' hs1) h0
      | remove k obj => exact groupedOK_of_frame sch k s s1 (removeK_frame hs1) h0
      | reorder k is => exact groupedOK_of_frame sch k s s1 (reorderK_frame hs1) h0
      | sort k keys => exact groupedOK_of_frame sch k s s1 (sortK_frame hs1) h0
      | group k => exact groupedOK_groupK sch k s s1 hs1 h0
      | ungroup k => exact groupedOK_of_frame sch k s s1 (ungroupK_frame hs1) h0
      | adjoin k v => exact groupedOK_of_frame' sch k s s1 (adjoinK_frame' hs1) h0
      | append k v => exact groupedOK_of_frame sch k s s1 (adjoinCore_frame hs1) h0
      | insert k obj v => exact groupedOK_of_frame' sch k s s1 (insertK_frame' hs1) h0
      | incorp k obj v => exact groupedOK_of_frame sch k s s1 (insertCore_frame hs1) h0
      | concat k vs => exact groupedOK_of_frame' sch k s s1 (concatK_frame' hs1) h0

example : groupedOK schPhased sPhased = true := by decide

/-- **D3 (repaired by 3438b72e; what the code did before).**  `group_taxa(); reorder_taxa([0,2,1,3])` with the
    pre-repair `reorder_taxa`: the matrix still reports itself grouped, but its metadata no longer describe
    the labels. -/
theorem reorder_after_group_prerepair_counterexample :
    ((run leI schPhased 0 false [.group .taxa, .reorder .taxa [0, 2, 1, 3]] sPhased).toOption.map
      (fun s' => ((s'.bundle .taxa).isGrouped, groupedOK schPhased s'))) = some (true, false) := by
  decide +kernel

/-- the same history on the code as it is now ends ungrouped -/
example :
    ((run leI schPhased 0 true [.group .taxa, .reorder .taxa [0, 2, 1, 3]] sPhased).toOption.map
      (fun s' => ((s'.bundle .taxa).isGrouped, groupedOK schPhased s'))) = some (false, true) := by
  decide +kernel

/-! ## 4. Mutating = non-mutating -/

/-
FULL STATEMENT (false of the as-is model, see `square_incorp_counterexample`):
  append ≡ adjoin, remove ≡ delete, incorp ≡ insert as functions of the receiver's state.
What holds: whenever the non-mutating method succeeds the mutating one leaves exactly that state; conversely
the mutating method's state is what the non-mutating one returns *provided the constructor would accept
it* (`ctorOK`: label lengths, squareness) — the mutating methods assign the private fields unchecked.
-/

theorem mutating_eq_pure_partial {α lab : Type} (sch : Schema) (hd : sch.pureDropsOther = false) (k : Kind)
    (fill : α) (v : Operand α lab) (obj : InsIdx) (dobj : DelIdx) (s s' : St α lab) :
    (adjoinK sch k fill v s = .ok s' → appendK sch k fill v s = .ok s') ∧
    (insertK sch k obj v s = .ok s' → incorpK sch k obj v s = .ok s') ∧
    (deleteK sch k dobj s = .ok s' → removeK sch k dobj s = .ok s') ∧
    (s'.ctorOK sch = true →
      (appendK sch k fill v s = .ok s' → adjoinK sch k fill v s = .ok s') ∧
      (incorpK sch k obj v s = .ok s' → insertK sch k obj v s = .ok s') ∧
      (removeK sch k dobj s = .ok s' → deleteK sch k dobj s = .ok s')) :=
  ⟨append_of_adjoin hd, incorp_of_insert hd, remove_of_delete hd,
   fun hc => ⟨fun h => adjoin_of_append hd h hc, fun h => insert_of_incorp hd h hc,
              fun h => delete_of_remove hd h hc⟩⟩

example : (adjoinK schPhased .taxa 0 opTaxa sPhased).toOption.isSome = true := by decide

/-- **D27 (repaired; what the code did before): `pureDropsOther = false` — a fact of every class as the code is now — is
    what `mutating_eq_pure_partial` needs.**  Before the repair `adjoin_taxa` of DenseSquareTaxaTraitMatrix (inherited
    from the taxa-only parent) returned an object without trait names while `append_taxa` with the same arguments kept
    them: the two states differed. -/
def opSqTrait : Operand Int Int := { mat := [[[70, 71]]], cols := [some [170], some [5]] }

theorem mutating_eq_pure_drops_other_prerepair_counterexample :
    ((adjoinK schSqTraitPre .taxa (-99 : Int) opSqTrait sSqTrait).toOption.map
        (fun s' => (s'.bundle .trait).cols),
     (appendK schSqTraitPre .taxa (-99 : Int) opSqTrait sSqTrait).toOption.map
        (fun s' => (s'.bundle .trait).cols)) = (some [none], some [some [200, 201]]) := by
  decide +kernel

/-- **D14.**  Coancestry matrix (square check in the constructor): `insert_taxa` is rejected, `incorp_taxa`
    with the same arguments goes through and leaves a 4 × 3 array with 4 labels. -/
theorem square_incorp_counterexample :
    ((insertK schCoancestry .taxa (.list [1]) opSquareRow sSquare).toOption.isSome,
     (incorpK schCoancestry .taxa (.list [1]) opSquareRow sSquare).toOption.map
        (fun s' => (shape3 s'.mat, consistentOK schCoancestry s'))) = (false, some ((4, 3, 1), false)) := by
  decide +kernel

/-- DenseSquareTraitMatrix: ONE trait bundle governing both axes (its own copy of the square mechanism) -/
def schSquareTrait : Schema := { ndim := 2, taxaAx := [], vrntAx := [], traitAx := [0, 1] }

/-- the square theorems (`square_unary_op_attached_partial`, `operand_op_attached_partial`, the history theorems) are
    stated for ANY bundle that governs the two leading axes: the square trait class is an admissible class too -/
theorem nonvacuous_schSquareTrait_good : schSquareTrait.Good := by
  refine ⟨?_, ?_, rfl, rfl⟩
  · intro b k1 k2 h1 h2
    cases k1 <;> cases k2 <;> simp [Schema.axes, schSquareTrait] at h1 h2 ⊢
  · intro k
    cases k <;> simp [Schema.axes, schSquareTrait]

/-- a 3 × 3 trait-by-trait matrix and a row block for one new trait -/
def sSquareTrait : St Int Int :=
  { mat := [[[0], [1], [2]], [[3], [4], [5]], [[6], [7], [8]]], taxa := noCols 2, vrnt := noCols 9,
    trait := { cols := [some [100, 101, 102]], grp := none } }
def opSqTraitRow : Operand Int Int := { mat := [[[70], [71], [72]]], cols := [some [170]] }

/-- **D14b.**  DenseSquareTraitMatrix.incorp_trait edits the first of its two trait axes only: a 3 × 3 trait-by-trait
    matrix becomes 4 × 3 with 4 trait names (and `insert_trait` returns that object: no squareness check). -/
theorem square_trait_incorp_counterexample :
    (insertK schSquareTrait .trait (.list [1]) opSqTraitRow sSquareTrait).toOption.map
        (fun s' => (shape3 s'.mat, consistentOK schSquareTrait s')) = some ((4, 3, 1), false) ∧
    (incorpK schSquareTrait .trait (.list [1]) opSqTraitRow sSquareTrait).toOption.map
        (fun s' => (shape3 s'.mat, consistentOK schSquareTrait s')) = some ((4, 3, 1), false) ∧
    (incorpK schSquareTrait .trait (.list [1]) opSqTraitRow sSquareTrait).toOption.map
        (fun s' => (s'.bundle .trait).cols) = some [some [100, 170, 101, 102]] := by
  refine ⟨?_, ?_, ?_⟩ <;> decide +kernel

/-! ## 5. Generic = specific -/

/-- **generic_eq_specific** (full).  For every class, every operation and every valid (positive or negative)
    axis number, `op(…, axis)` is `op_<k>(…)` for the bundle `k` that owns the axis (fix ec46686b removed the
    exception of the base classes' `reorder` / `incorp`). -/
theorem generic_eq_specific {α lab : Type} [BEq lab] (le : lab → lab → Bool) (sch : Schema) (fill : α)
    (fx : Bool) (axis : Int) (a : Nat) (k : Kind) (op : Op α lab) (s : St α lab)
    (ha : getAxis axis sch.ndim = .ok a) (hk : sch.kindOf a = some k) :
    stepGeneric le sch fill fx axis op s = step le sch fill fx (op.withKind k) s :=
  stepGeneric_eq le sch fill fx axis a k op s ha hk

example : getAxis (-2) schPhased.ndim = .ok 1 := by decide
example : schPhased.kindOf 1 = some .taxa := by decide

/-- **D4 (repaired by ec46686b; what the code did before).**  DenseTaxaMatrix: the axis-specific
    `reorder_taxa` worked, the generic `reorder(…, axis = 0)` called itself and raised for that same axis. -/
theorem generic_reorder_base_class_prerepair_counterexample :
    ((step leI schTaxaBase 0 true (.reorder .taxa [2, 1, 0]) sTaxaBase).toOption.isSome,
     (stepGenericPre leI schTaxaBase 0 true 0 (.reorder .taxa [2, 1, 0]) sTaxaBase).toOption.isSome,
     (stepGeneric leI schTaxaBase 0 true 0 (.reorder .taxa [2, 1, 0]) sTaxaBase).toOption.isSome)
      = (true, false, true) := by
  decide +kernel

/-! ## 6. Genotyping protocols -/

/-
FULL STATEMENT (the attachment theorems below assume a class whose bundles govern one axis each, `sch.Simple`,
which all genotype matrix classes are):
  the matrices returned by the three genotyping protocols carry, for every kept variant and every taxon, the
  labels and data of that entity, and group metadata that are a true partition.
-/

/-- **Masked phased genotyping keeps labels attached**: every labelled cell of the output is a labelled cell
    of the input, whatever the mask, `invert`, the presence pattern of the label arrays and the sizes. -/
theorem masked_genotyping_attached_partial {α lab : Type} [Add α] (sch : Schema) (hs : sch.Simple)
    (hax : sch.vrntAx = [2]) (zero : α) (isTrue : lab → Bool) (invert : Bool) (s : St α lab)
    (hcons : consistentOK sch s = true) (c : LCell α lab)
    (hc : IsLCell sch (genotype zero isTrue true invert false s) c) : IsLCell sch s c := by
  rcases genotype_masked_form sch hax zero isTrue invert s with hu | ⟨hm, hcols⟩
  · exact unaryForm_attached sch hs.wf .vrnt 2 (by simpa [Schema.axes] using hax) (by decide) s _ hcons hu c hc
  · exact (isLCell_congr sch _ s hm hcols c).mp hc

example : schPhased.vrntAx = [2] := rfl

/-- **… at full strength for the class the protocols accept** (`DensePhasedGenotypeMatrix`, phase × taxa × variant: the
    schema hypotheses of the `_partial` form are facts of that class, not restrictions of the property's quantifier):
    any mask, `invert`, presence pattern of the label arrays, sizes. -/
theorem masked_genotyping_attached {α lab : Type} [Add α] (zero : α) (isTrue : lab → Bool) (invert : Bool)
    (s : St α lab) (hcons : consistentOK schPhased s = true) (c : LCell α lab)
    (hc : IsLCell schPhased (genotype zero isTrue true invert false s) c) : IsLCell schPhased s c :=
  masked_genotyping_attached_partial schPhased nonvacuous_schPhased_simple rfl zero isTrue invert s hcons c hc

example : consistentOK schPhased sPhased = true := by decide +kernel

/-- **Genotyping keeps "reported grouped ⇒ true partition"** (full): for the three protocols (`masked`, `invert`,
    `unphase` arbitrary), any class schema, any sizes.  In particular the metadata that
    `DenseMasked*Genotyping.genotype` recounts from the mask are a true contiguous partition of the masked
    chromosome-group column whenever the input's were one of the unmasked column (groups may become empty). -/
theorem genotyping_keeps_partition {α lab : Type} [BEq lab] [Add α] (sch : Schema) (zero : α) (isTrue : lab → Bool)
    (masked invert unphase : Bool) (s : St α lab) (hcons : consistentOK sch s = true)
    (h : groupedOK sch s = true) : groupedOK sch (genotype zero isTrue masked invert unphase s) = true :=
  genotype_groupedOK sch zero isTrue masked invert unphase s hcons h

/-- the recount itself: `regroupMasked` of a true partition is a true partition of the masked column -/
theorem masked_regroup_partition {lab : Type} [BEq lab] (g : Grp lab) (col : List lab) (mask : List Bool)
    (hm : mask.length = col.length) (h : partitionOK g col = true) :
    partitionOK (regroupMasked g mask) (Np.compress mask col) = true :=
  partitionOK_regroupMasked g col mask hm h

example : partitionOK ({ name := [1, 2], stix := [0, 2], spix := [2, 3], len := [2, 1] } : Grp Int) [1, 1, 2] = true := by
  decide
example : regroupMasked ({ name := [1, 2], stix := [0, 2], spix := [2, 3], len := [2, 1] } : Grp Int)
    [false, true, false] = { name := [1, 2], stix := [0, 1], spix := [1, 1], len := [1, 0] } := by decide

/-- **Unphased genotyping outputs stay attached at the level of (taxon, variant)**: the output cell of taxon `j`
    and variant `k` is the sum, over *every* phase, of labelled cells of the input that sit in that phase and carry
    exactly the taxon labels of output row `j` and the variant labels of output column `k` — for the masked and
    the unmasked protocol, any mask, any sizes. -/
theorem unphased_genotyping_attached_partial {α lab : Type} [Add α] (sch : Schema) (hs : sch.Simple)
    (h0 : sch.kindOf 0 = none) (htx : sch.taxaAx = [1]) (hvx : sch.vrntAx = [2]) (zero : α) (isTrue : lab → Bool)
    (masked invert : Bool) (s : St α lab) (hcons : consistentOK sch s = true) (j k : Nat) (v : α)
    (h : cell (genotype zero isTrue masked invert true s).mat j k 0 = some v) :
    ∃ cs : List (LCell α lab),
      v = (cs.map (fun c => c.val)).foldl (· + ·) zero ∧
      cs.map (fun c => c.i0) = (List.range s.mat.length).map AxInfo.pos ∧
      ∀ c ∈ cs, IsLCell sch s c ∧
        c.i1 = .lab (labelsAt (genotype zero isTrue masked invert true s).taxa j) ∧
        c.i2 = .lab (labelsAt (genotype zero isTrue masked invert true s).vrnt k) :=
  unphased_attached sch hs h0 htx hvx zero isTrue masked invert s hcons j k v h

example : schPhased.kindOf 0 = none := by decide

/-- **… at full strength for `DensePhasedGenotypeMatrix`** (the only class the three protocols accept). -/
theorem unphased_genotyping_attached {α lab : Type} [Add α] (zero : α) (isTrue : lab → Bool)
    (masked invert : Bool) (s : St α lab) (hcons : consistentOK schPhased s = true) (j k : Nat) (v : α)
    (h : cell (genotype zero isTrue masked invert true s).mat j k 0 = some v) :
    ∃ cs : List (LCell α lab),
      v = (cs.map (fun c => c.val)).foldl (· + ·) zero ∧
      cs.map (fun c => c.i0) = (List.range s.mat.length).map AxInfo.pos ∧
      ∀ c ∈ cs, IsLCell schPhased s c ∧
        c.i1 = .lab (labelsAt (genotype zero isTrue masked invert true s).taxa j) ∧
        c.i2 = .lab (labelsAt (genotype zero isTrue masked invert true s).vrnt k) :=
  unphased_genotyping_attached_partial schPhased nonvacuous_schPhased_simple (by decide) rfl rfl zero isTrue masked
    invert s hcons j k v h

/-- **Masked genotyping without a mask copies everything** (fix 0d32ae5d): data, labels and both axes' group
    metadata of the output are those of the input, so a grouped input gives a correctly grouped output. -/
theorem masked_genotyping_without_mask {α lab : Type} [Add α] (zero : α) (isTrue : lab → Bool) (invert : Bool)
    (s : St α lab) (hm : (s.vrnt.cols[maskCol]?).join = none) :
    genotype zero isTrue true invert false s = s := by
  simp [genotype, hm]

example : (sPhased.vrnt.cols[maskCol]?).join = none := by decide

/-- **D19 / D28 (repaired by 0d32ae5d; what the code did before).**  `DenseMaskedPhasedGenotyping.genotype` on a
    variant-grouped matrix without `vrnt_mask`: the output reported itself grouped with every group length 0. -/
theorem masked_genotyping_without_mask_prerepair_counterexample :
    ((run leI schPhased 0 true [.group .vrnt] sPhased).toOption.map (fun s1 =>
      let out := genotypePre (0 : Int) (fun x => x != 0) true false false s1
      (groupedOK schPhased s1, out.vrnt.grp.map (fun g => g.len), groupedOK schPhased out,
       groupedOK schPhased (genotype (0 : Int) (fun x => x != 0) true false false s1))))
      = some (true, some [0], false, true) := by
  decide +kernel

/-- with a mask the rebuilt metadata describe the kept variants (one whole chromosome removed here) -/
def sMasked : St Int Int :=
  { sPhased with
    vrnt := { cols := [some [2, 1], some [20, 10], none, none, none, none, none, none, some [1, 0]], grp := none } }

/-- the masked output of the grouped `sMasked` -/
def maskedOut : Option (St Int Int) :=
  (run leI schPhased 0 false [.group .vrnt] sMasked).toOption.map
    (fun s1 => genotype (0 : Int) (fun x => x != 0) true false false s1)

example : maskedOut.map (fun o => o.vrnt.grp) =
    some (some { name := [1, 2], stix := [0, 0], spix := [0, 1], len := [0, 1] }) := by decide +kernel
example : maskedOut.map (fun o => groupedOK schPhased o) = some true := by decide +kernel

/-- inverted mask `[1,0]` keeps variant 1 (cells 1+11, 3+13, 5+15, 7+17), labelled chromosome 1, position 10 -/
example : (genotype (0 : Int) (fun x => x != 0) true true true sMasked).mat = [[[12]], [[16]], [[20]], [[24]]] := by
  decide +kernel

/-! ## 7. Breeding-value matrices (through C15's model, Model/BVMat.lean) -/

/-
FULL STATEMENT (false of the code for the inherited in-place `append_taxa` / `incorp_taxa` and for `concat_taxa`,
which store the operand's *standardised* values under the receiver's location / scale — C15 findings D23–D25,
`C15.append_counterexample` etc.):
  after any history of taxa operations on a breeding-value matrix every row still carries the taxon it was created
  with and the raw (unscaled) value of every trait of that taxon.
The partial theorem is for the operations the class defines itself (`select_taxa`, `delete_taxa`, `insert_taxa`
with one or with several sorted positions, `adjoin_taxa`), which re-standardise.
-/

/-- **Breeding-value matrices keep taxa attached to their raw values.**  Start from `from_numpy(cols, taxa)`; after
    *any* history of select / delete / insert (one position or several) / adjoin (any sizes, NaN entries, constant
    traits; operands raw arrays or
    other matrices) every row `(taxon, unscale()-value of every trait)` of the result is such a row of the start or of
    an operand.  Composes `C15.history_refines_from_numpy_partial` (the stored matrix is `from_numpy` of the edited
    raw data) with the raw-edit attachment `runRaw_rows`. -/
theorem breeding_values_attached_partial {α : Type} [Field α] [LinearOrder α] [IsStrictOrderedRing α]
    (sq : α → α) (needs : Bool) (ops : List (BVMat.Op α))
    (hops : ∀ op ∈ ops, op.restandardises = true)
    (hvs : ∀ op ∈ ops, ∀ v, bvOperand? op = some v → RectRaw v.raw)
    (cols : List (BVMat.Col α)) (taxa : List Nat) (hr : RectRaw (cols, taxa)) (b : BVMat.BV α)
    (h : BVMat.run sq needs ops (BVMat.fromNumpy sq cols taxa) = .ok b) :
    RectRaw (BVMat.unscale b, b.taxa) ∧
      ∀ e, IsBVRow (BVMat.unscale b, b.taxa) e →
        IsBVRow (cols, taxa) e ∨ ∃ op ∈ ops, ∃ v, bvOperand? op = some v ∧ IsBVRow v.raw e := by
  have href := C15.history_refines_from_numpy_partial sq needs ops hops cols taxa
  rw [h] at href
  cases hr' : BVMat.runRaw ops (cols, taxa) with
  | error e => rw [hr'] at href; cases href
  | ok r =>
    rw [hr'] at href
    simp only [Except.map] at href
    have hb : b = BVMat.fromNumpy sq r.1 r.2 := by injection href
    subst hb
    rw [BVMat.unscale_fromNumpy, BVMat.fromNumpy_taxa]
    exact runRaw_rows ops hops hvs (cols, taxa) r hr hr'

/-- two taxa, two traits (one with a NaN); select, then adjoin a raw row -/
example :
    (BVMat.runRaw [.select [1, 0], .adjoin (.nd [[some 7], [some 8]] [9])]
      (([[some 1, some 2], [none, some 4]], [5, 6]) : BVMat.Raw ℚ)).toOption
      = some ([[some 2, some 1, some 7], [some 4, none, some 8]], [6, 5, 9]) := by decide +kernel
/-- a multi-position insert: one new taxon before row 0 and one before row 2 -/
example :
    (BVMat.runRaw [.insertMany [0, 2] (.nd [[some 7, some 9], [some 8, some 10]] [30, 31])]
      (([[some 1, some 2], [none, some 4]], [5, 6]) : BVMat.Raw ℚ)).toOption
      = some ([[some 7, some 1, some 2, some 9], [some 8, none, some 4, some 10]], [30, 5, 6, 31]) := by decide +kernel
example : (BVMat.Op.insertMany [0, 2] (.nd [[some 7, some 9], [some 8, some 10]] [30, 31]) : BVMat.Op ℚ).restandardises
    = true := rfl
example : RectRaw (([[some 1, some 2], [none, some 4]], [5, 6]) : BVMat.Raw ℚ) := by
  intro c hc; simp at hc; rcases hc with rfl | rfl <;> rfl

/-! ## 8. Square matrices with any number of taxa axes (three-way / four-way variance matrices)

`DenseSquareTaxaTraitMatrix.square_taxa_axes = range(ndim - 1)`: ONE taxa bundle governs `r` data axes (r = 2 for
coancestry-like and two-way variance matrices, 3 / 4 for the three-way / four-way variance matrices), the trait bundle
the last axis.  Model: `Model/LabelMatN.lean` (`StN α lab r`, data = `r`-fold nested list of trait vectors); every
theorem below is for ALL `r`, by induction on `r`. -/

open LabelMatN in
/-- **The source's loop over `square_taxa_axes` equals the closed form** (full): applying a list operation that does
    not look at the elements (numpy.take / numpy.delete / fancy indexing) along axis 0, then axis 1, …, then axis
    r - 1 is the operation applied at every nesting level — for every `r` and every array. -/
theorem square_nd_loop_eq_closed_form {β : Type} {f : ListOp} (hf : Natural f) (r : Nat) (t : Tn β r) :
    loopAll f r t = mapAll f r t :=
  loopAll_eq_mapAll hf r t

example : Natural (fun _ => Np.take [2, 0]) := natural_take [2, 0]

/-- a 2 × 2 × 2 cube of one-trait leaves: the cell at (i, j, k) holds 100 i + 10 j + k -/
def cube3 : LabelMatN.StN Int Int 3 :=
  { mat := [[[[0], [1]], [[10], [11]]], [[[100], [101]], [[110], [111]]]],
    taxa := { cols := [some [7, 8], some [2, 1]], grp := none },
    trait := { cols := [some [50]], grp := none } }

open LabelMatN in
/-- **Any number of taxa axes: histories of unary operations keep labels attached along EVERY taxa axis** (full: for every
    number `r` of square taxa axes, every shape-consistent state and every finite history of select / delete / remove /
    reorder / sort / group / ungroup along the taxa axes or the trait axis, the final state is shape-consistent and every
    labelled cell of it — value + the taxa label tuple of EACH of its r taxa coordinates + its trait label — is a labelled
    cell of the initial state).  `{}` is the class as the code is now (D27 repaired: the non-mutating methods pass every
    label array on); before the repair the statement failed for select / delete, see
    `square_nd_pure_op_drops_trait_names_prerepair_counterexample`. -/
theorem square_nd_history_attached {α lab : Type} [BEq lab] (le : lab → lab → Bool) (r : Nat)
    (ops : List (UOp lab)) (s s' : StN α lab r) (hs : OKN s) (h : runU le {} ops s = .ok s') :
    OKN s' ∧ ∀ c, IsLCellN s' c → IsLCellN s c :=
  runU_attached le {} ops (fun _ _ _ => rfl) s s' hs h

open LabelMatN in
example : consistentN cube3 = true := by decide +kernel
open LabelMatN in
/-- reorder, group, remove on the three-axis cube: runs, and the cell that ends at (0,0,0) is the one labelled (8, 8, 8) -/
example : ((runU leI {} [.reorder .taxa [1, 0], .group .taxa, .remove .taxa (.int (-1))] cube3).toOption.map
    (fun s' => (s'.mat, s'.taxa.cols))) = some ([[[[111]]]], [some [8], some [1]]) := by decide +kernel

open LabelMatN in
/-- **spec_sound for the N-D shape oracle**: what the driver's Bool oracle `consistentN` accepts is shape-consistent in
    the sense the theorems use (cube of one edge length, trait vectors of one length, label columns to match). -/
theorem square_nd_consistent_spec_sound {α lab : Type} (r : Nat) (s : StN α lab r) (h : consistentN s = true) : OKN s :=
  consistentN_ok s h

open LabelMatN in
/-- **spec_iff for the N-D attachment oracle**: the list of labelled cells the driver hashes is exactly the predicate
    the theorems conclude. -/
theorem square_nd_lcells_spec_iff {α lab : Type} (r : Nat) (s : StN α lab r) (c : LCellN α lab) :
    c ∈ lcellsN s ↔ IsLCellN s c :=
  mem_lcellsN_iff s c

open LabelMatN in
/-- **D27 on a three-way matrix (repaired; what the code did before).**  `select_taxa` (inherited from the taxa-only
    parent) returned an object without trait names; the mutating `reorder_taxa` with the same indices kept them. -/
theorem square_nd_pure_op_drops_trait_names_prerepair_counterexample :
    ((selectN { pureDropsOther := true } .taxa [1, 0] cube3).toOption.map (fun s' => s'.trait.cols),
     (reorderN .taxa [1, 0] cube3).toOption.map (fun s' => s'.trait.cols)) = (some [none], some [some [50]]) := by
  decide +kernel

open LabelMatN in
/-- **group_partition for any number of taxa axes** (full): if `group_taxa` of a square matrix succeeds and the result
    reports itself grouped, the cached metadata are a true contiguous partition of the current taxa-group column,
    names strictly increasing, no empty block. -/
theorem square_nd_group_partition {α lab : Type} [LinearOrder lab] (r : Nat) (s s' : StN α lab r)
    (h : groupN (fun a b : lab => decide (a ≤ b)) .taxa s = .ok s') (g : Grp lab) (hg : s'.taxa.grp = some g) :
    ∃ col, (s'.taxa.cols[1]?).join = some col ∧
      partitionOK g col = true ∧ g.name.Pairwise (· < ·) ∧ (∀ n ∈ g.len, 0 < n) :=
  groupN_partition h g hg

open LabelMatN in
example : ((groupN leI .taxa cube3).toOption.map (fun s' => s'.taxa.grp))
    = some (some { name := [1, 2], stix := [0, 1], spix := [1, 2], len := [1, 1] }) := by decide +kernel

open LabelMatN in
/-- **grouped_invariant for any number of taxa axes** (full): "reported grouped ⇒ true partition" survives every
    history of unary operations (pure or mutating; also of the pre-repair class of D27). -/
theorem square_nd_grouped_invariant {α lab : Type} [LinearOrder lab] (sch : SchN) (r : Nat) (ops : List (UOp lab))
    (s s' : StN α lab r) (h0 : groupedN s = true)
    (h : runU (fun a b : lab => decide (a ≤ b)) sch ops s = .ok s') : groupedN s' = true :=
  runU_grouped sch ops s s' h0 h

open LabelMatN in
example : groupedN cube3 = true := by decide

/-! ## 9. Several live objects that share label arrays (heap / aliasing model, `Model/LabelHeap.lean`)

The non-mutating methods hand the receiver's arrays of every bundle they do not edit to the new object BY REFERENCE;
the mutating methods rebind fields to new arrays and never write into an existing one.  `hrun` executes a history of
(receiver index, operation) pairs over a heap of arrays with exactly this sharing; `vrun` is the reference semantics
in which every object is an independent value. -/

open LabelHeap in
/-- **Histories over several live objects: sharing is unobservable** (full over the modelled operations).  Whatever
    label arrays the live objects share, after any finite history every live object denotes exactly the value the
    sharing-free functional model computes for it, and the heap only grew (no array was overwritten). -/
theorem shared_arrays_history_refines_values {α lab : Type} [BEq lab] [DecidableEq lab] [DecidableEq α]
    (le : lab → lab → Bool) (sch : Schema) (fill : α) (ops : List (Nat × Op α lab)) (h h' : Heap α lab)
    (objs objs' : List Obj) (vs : List (St α lab)) (d : Denotes h objs vs)
    (hs : hrun le sch fill ops (h, objs) = some (h', objs')) :
    Ext h h' ∧ ∃ vs', vrun le sch fill ops vs = some vs' ∧ Denotes h' objs' vs' :=
  hrun_refines le sch fill ops h h' objs objs' vs d hs

open LabelHeap in
/-- **An operation leaves every other live object unchanged** (and a non-mutating one its receiver too): if object `j`
    is not the receiver of a mutating operation, it denotes after the step what it denoted before — although the
    step's result may share label arrays with it. -/
theorem operation_leaves_other_objects_unchanged {α lab : Type} [BEq lab] [DecidableEq lab] [DecidableEq α]
    (le : lab → lab → Bool) (sch : Schema) (fill : α) (i : Nat) (op : Op α lab) (h h' : Heap α lab)
    (objs objs' : List Obj) (vs : List (St α lab)) (d : Denotes h objs vs)
    (hs : hstep le sch fill i op (h, objs) = some (h', objs')) (j : Nat) (o : Obj) (ho : objs[j]? = some o)
    (hne : LabelHeap.Op.isPure op = true ∨ j ≠ i) :
    ∃ o', objs'[j]? = some o' ∧ view h' o' = view h o := by
  obtain ⟨_, vs', hv, d'⟩ := hstep_refines le sch fill i op h h' objs objs' vs d hs
  obtain ⟨s, hs1, hview⟩ := d.get j o ho
  have hj : j < vs.length := (List.getElem?_eq_some_iff.mp hs1).1
  have hkeep := vstep_others le sch fill i op vs vs' hv j hj hne
  have hlen' : objs'.length = vs'.length := List.Forall₂.length_eq d'
  have hj' : j < vs'.length := by
    have : vs'[j]? = some s := by rw [hkeep, hs1]
    exact (List.getElem?_eq_some_iff.mp this).1
  have hjo : j < objs'.length := by rw [hlen']; exact hj'
  refine ⟨objs'[j], by simp [hjo], ?_⟩
  obtain ⟨s2, hs2, hview2⟩ := d'.get j objs'[j] (by simp [hjo])
  rw [hview2, hview, ← hs2, hkeep, hs1]

open LabelHeap in
/-- a heap with the object of `sPhased` -/
def heap0 : Heap Int Int × List Obj :=
  let r := storeFresh ([] : Heap Int Int) sPhased
  (r.1, [r.2])

open LabelHeap in
example : views heap0 = some [sPhased] := by decide +kernel

open LabelHeap in
/-- `B = A.select_vrnt([1, 0])`, then `B.reorder_taxa([3, 2, 1, 0])`: B's taxa columns are A's arrays (same
    addresses) after the first step; after the second A still denotes `sPhased` -/
example : ((hrun leI schPhased 0 [(0, .select .vrnt [1, 0])] heap0).map
      (fun hp => (hp.2.map (fun o => o.taxa.cols)))) = some [[some 1, some 2], [some 1, some 2]] := by decide +kernel
open LabelHeap in
example : ((hrun leI schPhased 0 [(0, .select .vrnt [1, 0]), (1, .reorder .taxa [3, 2, 1, 0])] heap0).bind
      (fun hp => (hp.2[0]?).bind (view hp.1))) = some sPhased := by decide +kernel

open LabelHeap in
/-- **Why the discipline matters** (the variant the code does NOT implement): with `reorder_taxa` writing the permuted
    labels into the existing arrays, the same two steps leave A with its data untouched and its taxon names reversed —
    A's rows no longer carry the taxa they were created with. -/
example : (((hstep leI schPhased 0 0 (.select .vrnt [1, 0]) heap0).bind
      (hstepInPlace leI schPhased 0 1 (.reorder .taxa [3, 2, 1, 0]))).bind
      (fun hp => ((hp.2[0]?).bind (view hp.1)).map (fun s => (s.mat == sPhased.mat, s.taxa.cols))))
    = some (true, [some [103, 102, 101, 100], some [1, 2, 1, 2]]) := by decide +kernel

/-! ## 10. The recorded square-class defect D14 (and D14b): proposed repair and what is proved of the repaired model

(**D27** — `DenseSquareTaxaTraitMatrix` inherited the axis-specific non-mutating methods of its single-bundle parents,
which dropped the other bundle's labels — is repaired in /repo: ten overrides hand the other bundle's arrays to the new
object, exactly as `DenseTaxaTraitMatrix` does.  The class is now an admissible class (`nonvacuous_schSqTrait_good`), so
`square_unary_op_attached_partial`, `operand_op_attached_partial`, `history_preserves_entities_partial`,
`mutating_eq_pure_partial` apply to it as to every other class — instance `square_taxa_trait_history_attached_partial`
below — and `square_nd_history_attached` is full for three / four taxa axes.)

**D14** (square `insert_taxa` / `incorp_taxa` / `concat_taxa` edit the first taxa axis only).  Cannot be repaired
without an API decision: the present methods take a block of *rows* (q × n …), which can never yield a square result —
the source itself carries `# TODO: # FIXME: figure out insertion logic`.  `patch_D14.diff` proposes the one reading that
needs no new information: `values` is the q × … × q block of the new taxa among themselves (as for `adjoin_taxa`), the
block is adjoined and the new entries are then moved to their position along every taxa axis by the permutation
`numpy.insert(arange(n), obj, arange(n, n + q))`.  That is a *history of already-correct operations*, so: -/

/-
FULL STATEMENT (of the repaired model; the hypotheses below are those of `history_preserves_entities_partial`: an
admissible class, operands that fit the state they meet, no empty dimension):
  the repaired `insert_taxa(p, block)` returns a square matrix all of whose labelled cells are labelled cells of the
  receiver or of the block, or cross-block fill cells.
-/

/-- **D14 repaired: the proposed `insert_taxa` of the square classes meets the history statement** — the result is
    shape-consistent (square) and every labelled cell of it is a labelled cell of the receiver, of the operand block, or
    a cross-block fill cell. -/
theorem square_insert_repaired_attached_partial {α lab : Type} [BEq lab] (le : lab → lab → Bool) (sch : Schema) (hg : sch.Good)
    (fill : α) (k : Kind) (n q p : Nat) (v : Operand α lab) (s s' : St α lab) (hcons : consistentOK sch s = true)
    (hv : ValidHist4 le sch fill true (squareInsertRepaired k n q p v) s)
    (h : run le sch fill true (squareInsertRepaired k n q p v) s = .ok s') :
    consistentOK sch s' = true ∧
      ∀ c, IsLCell sch s' c → IsLCell sch s c ∨ IsLCell sch (operandState s k v) c ∨ c.val = fill := by
  obtain ⟨hc, hatt⟩ := run_attached4 le sch hg fill true _ s s' hcons hv h
  refine ⟨hc, fun c hcell => ?_⟩
  rcases hatt c hcell with h1 | h1 | h1
  · exact Or.inl h1
  · simp only [squareInsertRepaired, Sources.SourcesTail, Op.operands, List.mem_singleton, exists_eq_left, Op.kind,
      List.not_mem_nil, false_and, exists_false, or_false, and_false, false_or] at h1
    exact Or.inr (Or.inl h1)
  · exact Or.inr (Or.inr h1)

/-- **… and the new entries land where numpy.insert would put them**: the permutation of the patch applied to an
    adjoined label column `l ++ lv` is `numpy.insert(l, p, lv)` (every label column, every position `p ≤ n`). -/
theorem square_insert_repaired_position {β : Type} (l lv : List β) (p : Nat) (hp : p ≤ l.length) :
    Np.take (insertPerm l.length lv.length p) (l ++ lv) = Np.insert p lv l :=
  take_insertPerm l lv p hp

/-- a 1 × 1 block inserted before position 1 of the 3 × 3 square matrix with the repaired method: 4 × 4, consistent,
    names in numpy.insert order, the 6 cross cells hold the fill value -/
def sqRepairedOut : Option (St Int Int) :=
  (run leI schSquare (-99 : Int) true
    (squareInsertRepaired .taxa 3 1 1 { mat := [[[(70 : Int)]]], cols := [some [170], some [5]] }) sSquare).toOption

example : sqRepairedOut.map (fun s' => (shape3 s'.mat, consistentOK schSquare s',
      ((lcells schSquare s').filter (fun c => c.val == (-99 : Int))).length)) = some ((4, 4, 1), true, 6) := by
  decide +kernel
example : sqRepairedOut.map (fun s' => (s'.bundle .taxa).cols)
    = some [some [100, 170, 101, 102], some [1, 5, 2, 1]] := by decide +kernel

/-- **D14 repaired, mutating form: the proposed `incorp_taxa` keeps labels attached** (append, then reorder by the
    same permutation) -/
theorem square_incorp_repaired_attached_partial {α lab : Type} [BEq lab] (le : lab → lab → Bool) (sch : Schema) (hg : sch.Good)
    (fill : α) (k : Kind) (n q p : Nat) (v : Operand α lab) (s s' : St α lab) (hcons : consistentOK sch s = true)
    (hv : ValidHist4 le sch fill true (squareIncorpRepaired k n q p v) s)
    (h : run le sch fill true (squareIncorpRepaired k n q p v) s = .ok s') :
    consistentOK sch s' = true ∧
      ∀ c, IsLCell sch s' c → IsLCell sch s c ∨ IsLCell sch (operandState s k v) c ∨ c.val = fill := by
  obtain ⟨hc, hatt⟩ := run_attached4 le sch hg fill true _ s s' hcons hv h
  refine ⟨hc, fun c hcell => ?_⟩
  rcases hatt c hcell with h1 | h1 | h1
  · exact Or.inl h1
  · simp only [squareIncorpRepaired, Sources.SourcesTail, Op.operands, List.mem_singleton, exists_eq_left, Op.kind,
      List.not_mem_nil, false_and, exists_false, or_false, and_false, false_or] at h1
    exact Or.inr (Or.inl h1)
  · exact Or.inr (Or.inr h1)

/-- **D14 repaired: mutating = non-mutating** (full for the repaired pair, every class whose non-mutating methods keep
    all bundles): whenever the repaired `insert_taxa(p, block)` returns a state, the repaired `incorp_taxa(p, block)`
    leaves exactly that state — the statement `square_incorp_counterexample` refutes for the code as it is. -/
theorem square_incorp_repaired_eq_insert {α lab : Type} [BEq lab] (le : lab → lab → Bool) (sch : Schema)
    (hd : sch.pureDropsOther = false) (fill : α) (k : Kind) (n q p : Nat) (v : Operand α lab) (s s' : St α lab)
    (h : run le sch fill true (squareInsertRepaired k n q p v) s = .ok s') :
    run le sch fill true (squareIncorpRepaired k n q p v) s = .ok s' :=
  squareIncorpRepaired_of_insert le sch hd fill k n q p v s s' h

example : (run leI schSquare (-99 : Int) true
    (squareIncorpRepaired .taxa 3 1 1 { mat := [[[(70 : Int)]]], cols := [some [170], some [5]] }) sSquare).toOption
    = sqRepairedOut := by decide +kernel

/-- **D14 repaired: the proposed `concat_taxa` (successive block-diagonal adjoins) keeps labels attached**: every
    labelled cell of the result is a labelled cell of the first matrix, of one of the further matrices (seen with the
    labels the intermediate result carries on the other axes), or a cross-block fill cell; the result is square. -/
theorem square_concat_repaired_attached_partial {α lab : Type} [BEq lab] (le : lab → lab → Bool) (sch : Schema)
    (hg : sch.Good) (fill : α) (k : Kind) (vs : List (Operand α lab)) (s s' : St α lab)
    (hcons : consistentOK sch s = true) (hv : ValidHist4 le sch fill true (squareConcatRepaired k vs) s)
    (h : run le sch fill true (squareConcatRepaired k vs) s = .ok s') :
    consistentOK sch s' = true ∧
      ∀ c, IsLCell sch s' c →
        IsLCell sch s c ∨ Sources.SourcesTail le sch fill true (squareConcatRepaired k vs) s c ∨ c.val = fill :=
  run_attached4 le sch hg fill true _ s s' hcons hv h

example : ((run leI schSquare (-99 : Int) true
    (squareConcatRepaired .taxa [{ mat := [[[(70 : Int)]]], cols := [some [170], some [5]] },
                                 { mat := [[[(80 : Int)]]], cols := [some [180], some [6]] }]) sSquare).toOption.map
    (fun s' => (shape3 s'.mat, consistentOK schSquare s', (s'.bundle .taxa).cols)))
    = some ((5, 5, 1), true, [some [100, 101, 102, 170, 180], some [1, 2, 1, 5, 6]]) := by decide +kernel

theorem nonvacuous_schSqTrait_good : schSqTrait.Good := by
  refine ⟨?_, ?_, rfl, rfl⟩
  · intro b k1 k2 h1 h2
    cases k1 <;> cases k2 <;> simp [Schema.axes, schSqTrait] at h1 h2 ⊢ <;> omega
  · intro k
    cases k <;> simp [Schema.axes, schSqTrait]

/-
FULL STATEMENT (false only for the single-axis insert / incorp / concat along the square taxa bundle, D14):
  every history of structural operations on a DenseSquareTaxaTraitMatrix keeps labels attached.
Hypotheses of the partial theorem: those of `history_preserves_entities_partial` (`ValidHist4`: operands fit, no empty
dimension, none of the D14 operations).
-/

/-- **DenseSquareTaxaTraitMatrix (the code as it is, D27 repaired) is an admissible class**: EVERY history on it —
    non-mutating methods included, along the square taxa bundle and along the trait axis — keeps labels attached. -/
theorem square_taxa_trait_history_attached_partial {α lab : Type} [BEq lab] (le : lab → lab → Bool) (fill : α)
    (ops : List (Op α lab)) (s s' : St α lab)
    (hcons : consistentOK schSqTrait s = true)
    (hv : ValidHist4 le schSqTrait fill true ops s)
    (h : run le schSqTrait fill true ops s = .ok s') :
    consistentOK schSqTrait s' = true ∧
      ∀ c, IsLCell schSqTrait s' c →
        IsLCell schSqTrait s c ∨
        Sources.SourcesTail le schSqTrait fill true ops s c ∨ c.val = fill :=
  run_attached4 le _ nonvacuous_schSqTrait_good fill true ops s s' hcons hv h

example : consistentOK schSqTrait sSqTrait = true := by decide +kernel
example : (run leI schSqTrait (-99 : Int) true [.select .taxa [1, 0], .adjoin .taxa opSqTrait, .sort .trait none]
    sSqTrait).toOption.isSome = true := by decide +kernel

/-! ## 11. Every position form of numpy.insert (boolean masks, unsorted index lists: `Model/LabelMatX.lean`)

numpy sorts unsorted positions stably and moves the values along; a boolean ndarray stands for `flatnonzero`.  Both
forms are the sorted-list insertion of a PERMUTED operand, on the data block and on every label array alike. -/

/-
FULL STATEMENT (not proved for the square classes, whose insert / incorp are defect D14; a 0-d ndarray position is an
integer position since the repair of D17b, `insert_zero_dim_position_is_integer_position`):
  for every class, `insert_<k>(obj, values, …)` and `incorp_<k>(obj, values, …)` with `obj` an integer (Python int,
  numpy integer scalar or 0-d integer ndarray), a slice, an index list in any order or a boolean mask leave a state
  whose labelled cells are labelled cells of the receiver or of the operand block as it was passed.
Hypotheses of the partial theorem: `sch.Good`, the bundle governs one axis, receiver and operand block are
shape-consistent with no empty dimension (also after the operand has been permuted).
-/

/-- **insert / incorp keep labels attached for EVERY position form** — integer, slice, list in any order, boolean mask. -/
theorem insert_any_position_form_attached_partial {α lab : Type} [BEq lab] (le : lab → lab → Bool) (sch : Schema)
    (hg : sch.Good) (fill : α) (k : Kind) (a : Nat) (hax : sch.axes k = [a]) (mutating : Bool) (o : InsIdxX)
    (v : Operand α lab) (s s' : St α lab) (hcons : consistentOK sch s = true)
    (hcv : consistentOK sch (operandState s k v) = true) (hlen : (s.bundle k).cols.length = v.cols.length)
    (hp : PosDims s.mat) (hpv : PosDims v.mat) (hpp : ∀ perm, PosDims (permuteOperand sch k perm v).mat)
    (h : (if mutating then incorpXK sch k o v s else insertXK sch k o v s) = .ok s')
    (c : LCell α lab) (hc : IsLCell sch s' c) : IsLCell sch s c ∨ IsLCell sch (operandState s k v) c :=
  insertXK_attached le sch hg fill k a hax mutating o v s s' hcons hcv hlen hp hpv hpp h c hc

/-- positions `[3, 1]` (unsorted): taxon 150 lands before original row 3 and taxon 151 before original row 1 — the
    names AND the data rows (50.. / 52..) move together -/
example : ((insertXK schPhased .taxa (.anyList [3, 1]) opTaxa sPhased).toOption.map
      (fun s' => ((s'.bundle .taxa).cols.head?, s'.mat.head?)))
    = some (some (some [100, 151, 101, 102, 150, 103]),
            some [[0, 1], [52, 53], [2, 3], [4, 5], [50, 51], [6, 7]]) := by decide +kernel
/-- the same two positions as a boolean mask `[F, T, F, T]` (ascending: 150 before row 1, 151 before row 3) -/
example : ((insertXK schPhased .taxa (.mask [false, true, false, true]) opTaxa sPhased).toOption.map
      (fun s' => (s'.bundle .taxa).cols.head?)) = some (some (some [100, 150, 101, 102, 151, 103])) := by decide +kernel
example : consistentOK schPhased (operandState sPhased .taxa opTaxa) = true := by decide +kernel

/-! ## 12. The Bool oracles the driver evaluates on the implementation's states = the Props of the theorems

`c03.spec_step` / `c03.nd_spec` evaluate `consistentOK` (S1), membership in `lcells` (S2) and `groupedOK` → `partitionOK`
(S4) on the states read back from pybrops.  Each is tied to the Prop the theorems above conclude (for the N-D oracles see
`square_nd_consistent_spec_sound`, `square_nd_lcells_spec_iff`); that the MODEL's outputs satisfy them is
`history_preserves_entities_partial` (S1, S2), `grouped_invariant` / `group_partition` (S4). -/

/-- **spec_iff, partition oracle**: `partitionOK g col` holds exactly when the metadata describe a true contiguous
    partition — as many names as blocks, block `i` = `[stix i, spix i)` with `stix 0 = 0`, `spix i = stix i + len i =
    stix (i+1)`, names pairwise different, and the column is `name 0` × `len 0`, `name 1` × `len 1`, … to its end. -/
theorem spec_partition_iff {lab : Type} [DecidableEq lab] (g : Grp lab) (col : List lab) :
    partitionOK g col = true ↔ IsPartition g col :=
  partitionOK_iff g col

example : IsPartition ({ name := [1, 2], stix := [0, 2], spix := [2, 3], len := [2, 1] } : Grp Int) [1, 1, 2] :=
  (spec_partition_iff _ _).mp (by decide)

/-- **spec_iff, shape oracle**: `consistentOK` holds exactly when the data are rectangular, every present label column
    is as long as each axis it labels, and the axes governed by one bundle are equally long. -/
theorem spec_consistent_iff {α lab : Type} (sch : Schema) (s : St α lab) : consistentOK sch s = true ↔ Cons sch s :=
  cons_iff sch s

/-- **spec_iff, attachment oracle**: the executable list of labelled cells is the predicate `IsLCell` of the theorems. -/
theorem spec_lcells_iff {α lab : Type} (sch : Schema) (s : St α lab) (hr : rect s.mat = true) (c : LCell α lab) :
    c ∈ lcells sch s ↔ IsLCell sch s c :=
  mem_lcells_iff sch s hr c

/-- **spec_sound, fill-count oracle**: the state the model's `append_<k>` / `adjoin_<k>` of a square bundle leaves
    satisfies the driver's `fillBalance` — `#fill(result) = #fill(receiver) + #fill(block) + (|result| - |receiver| - |block|)`,
    i.e. the fill value stands in the cross blocks only (any sizes, any fill value; the Prop behind it is
    `square_adjoin_keeps_every_data_cell`). -/
theorem spec_fill_balance_sound {lab : Type} (sch : Schema) (k : Kind) (hax : sch.axes k = [0, 1]) (fill : Int)
    (v : Operand Int lab) (s s' : St Int lab) (h : appendK sch k fill v s = .ok s')
    (hm : rect s.mat = true) (hv : rect v.mat = true) (h0 : 0 < axLen 0 s.mat) (h1 : 0 < axLen 1 s.mat) :
    fillBalance (some fill) (lcells sch s).length ((lcells sch s).map (·.val))
      [((lcells sch (operandState s k v)).length, (lcells sch (operandState s k v)).map (·.val))]
      (lcells sch s').length ((lcells sch s').map (·.val)) = true :=
  fillBalance_appendK sch k hax fill v s s' h hm hv h0 h1

/-- the oracle rejects a result whose operand block was left as fill value (what the self-test mutant does) -/
example : fillBalance (some (-99)) 9 [0, 1, 2, 3, 4, 5, 6, 7, 8] [(1, [70])] 16
    [0, 1, 2, -99, 3, 4, 5, -99, 6, 7, 8, -99, -99, -99, -99, -99] = false := by decide
example : fillBalance (some (-99)) 9 [0, 1, 2, 3, 4, 5, 6, 7, 8] [(1, [70])] 16
    [0, 1, 2, -99, 3, 4, 5, -99, 6, 7, 8, -99, -99, -99, -99, 70] = true := by decide

/-- **spec_sound, grouping oracle**: if `groupedOK` accepts a state, every labelled bundle that reports itself grouped
    has a group column and its metadata are a true contiguous partition of that column. -/
theorem spec_grouped_sound {α lab : Type} [DecidableEq lab] (sch : Schema) (s : St α lab) (h : groupedOK sch s = true)
    (k : Kind) (hk : k = .taxa ∨ k = .vrnt) (hax : sch.axes k ≠ []) (g : Grp lab) (hg : (s.bundle k).grp = some g) :
    ∃ c col, k.grpCol = some c ∧ ((s.bundle k).cols[c]?).join = some col ∧ IsPartition g col := by
  have hk' : grpOKk sch s k = true := by
    rw [groupedOK_iff] at h
    rcases hk with rfl | rfl
    · exact h.1
    · exact h.2
  unfold grpOKk at hk'
  have hne : (sch.axes k).isEmpty = false := by
    cases hl : sch.axes k with
    | nil => exact absurd hl hax
    | cons a as => rfl
  rw [hne, hg] at hk'
  simp only [Bool.false_or] at hk'
  cases hc : k.grpCol with
  | none => rw [hc] at hk'; cases hk'
  | some c =>
    rw [hc] at hk'
    simp only at hk'
    cases hcol : ((s.bundle k).cols[c]?).join with
    | none => rw [hcol] at hk'; cases hk'
    | some col =>
      rw [hcol] at hk'
      exact ⟨c, col, rfl, hcol, (partitionOK_iff g col).mp hk'⟩

example : groupedOK schPhased sGrouped = true := by decide

/-! ## 12. The storage dtype of a data block (round 5; `Model/LabelDtype.lean`, integer dtypes)

The label-matrix model moves integer codes and has no dtype.  The one place where a dtype decides whether "the data
cells are exactly those of that entity" is the meeting of a block of one dtype with a receiver of another one. -/

open LabelDtype in
/-- adjoin / append / concat of the single-axis classes (numpy.append / concatenate promote): whatever the two integer
    dtypes are, every cell of the receiver and of the operand block is stored unchanged. -/
theorem append_store_keeps_cells (da db d : IDt) (xs ys zs : List Int)
    (hx : ∀ x ∈ xs, da.fits x) (hy : ∀ y ∈ ys, db.fits y) (h : appendStore da xs db ys = some (d, zs)) :
    zs = xs ++ ys := by
  unfold appendStore at h
  cases hp : promote da db with
  | none => rw [hp] at h; cases h
  | some d' =>
    rw [hp] at h
    simp only [Option.map_some, Option.some.injEq, Prod.mk.injEq] at h
    obtain ⟨hd, hz⟩ := h
    subst hd
    rw [← hz]
    apply map_wrap_of_fits
    intro v hv
    rcases List.mem_append.mp hv with hv | hv
    · exact fits_promote_left da db d' hp v (hx v hv)
    · exact fits_promote_right da db d' hp v (hy v hv)

open LabelDtype in
example : appendStore .i16 [1, 2] .i64 [70000, -40000] = some (.i64, [1, 2, 70000, -40000]) := by decide

/- FULL STATEMENT (insert_* / incorp_* of every class; adjoin_* / append_* of the square classes — the operations that
   keep the receiver's storage dtype):
     theorem store_into_keeps_cells (da db : IDt) (xs ys : List Int)
         (hx : ∀ x ∈ xs, da.fits x) (hy : ∀ y ∈ ys, db.fits y) : (storeInto da xs ys).2 = xs ++ ys
   It fails for the code as it is (finding D71): `store_into_narrows_counterexample`.  What holds is the statement for
   blocks whose values are representable in the RECEIVER's dtype. -/
open LabelDtype in
theorem store_into_keeps_cells_partial (da : IDt) (xs ys : List Int) (hy : ∀ y ∈ ys, da.fits y) :
    (storeInto da xs ys).2 = xs ++ ys := by
  simp only [storeInto]
  rw [map_wrap_of_fits da ys hy]

open LabelDtype in
example : ∀ y ∈ [100, -7], IDt.i16.fits y := by decide

open LabelDtype in
/-- finding D71: an int64 block adjoined to an int16 square matrix (or inserted into any int16 matrix): the cell created
    as 70000 is stored as 4464 although both blocks hold only values of their own dtypes. -/
theorem store_into_narrows_counterexample :
    (∀ x ∈ [0, 1], IDt.i16.fits x) ∧ (∀ y ∈ [70000], IDt.i64.fits y) ∧
      (storeInto .i16 [0, 1] [70000]).2 = [0, 1, 4464] ∧ (storeInto .i16 [0, 1] [70000]).2 ≠ [0, 1] ++ [70000] := by
  decide

open LabelDtype in
/-- patches/C03_D71.diff (the receiver is promoted to numpy.result_type first): every cell is kept. -/
theorem store_into_repaired_keeps_cells (da db d : IDt) (xs ys zs : List Int)
    (hx : ∀ x ∈ xs, da.fits x) (hy : ∀ y ∈ ys, db.fits y) (h : storeIntoRepaired da xs db ys = some (d, zs)) :
    zs = xs ++ ys := by
  unfold storeIntoRepaired at h
  cases hp : promote da db with
  | none => rw [hp] at h; cases h
  | some d' =>
    rw [hp] at h
    simp only [Option.map_some, Option.some.injEq, Prod.mk.injEq] at h
    obtain ⟨hd, hz⟩ := h
    subst hd
    rw [← hz, map_wrap_of_fits d' xs (fun v hv => fits_promote_left da db d' hp v (hx v hv)),
      map_wrap_of_fits d' ys (fun v hv => fits_promote_right da db d' hp v (hy v hv))]

open LabelDtype in
example : storeIntoRepaired .i16 [0, 1] .i64 [70000] = some (.i64, [0, 1, 70000]) := by decide

end C03
