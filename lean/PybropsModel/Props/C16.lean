/-
C16 — saving, loading and copying reproduce objects exactly.
Property theorems only (helper lemmas live in Lemmas/Store*.lean).

Model: PybropsModel/Model/Store.lean — an HDF5 file as a finite map path ↦ dataset,
`h5py_File_write_dict` and `h5py_File_read_dict` as they are (after fixes 93761174 / 9631bba1;
the pre-repair writer and reader are kept as `…Prerepair` for the counterexamples),
the typed readers, one schema + constructor per persistable class.
-/
import PybropsModel.Lemmas.StoreHist
import PybropsModel.Lemmas.StoreExamples
import PybropsModel.Lemmas.StoreCopyLemmas
import PybropsModel.Lemmas.StoreVcfLemmas
import PybropsModel.Lemmas.StoreFrameLemmas
set_option autoImplicit false

namespace C16
open Store

/-! ## HDF5: write histories -/

/-- **Last write wins.**  For every history of overwriting `to_hdf5` calls — any number of writes,
    any objects of any classes, any groups none of which is a path-prefix of another, each field
    name used consistently — no call fails, and `from_hdf5` at the location `w.g` returns exactly
    the object `w.obj` written there last (`H2` contains no later write to that location), whatever
    was written there before (richer or poorer objects, other classes) and whatever is written
    elsewhere. -/
theorem hdf5_last_write_wins (sch : Schema) (ty : String → Bool)
    (H1 H2 : List Write) (w : Write)
    (hsep : Separated (H1 ++ w :: H2)) (hty : ∀ w' ∈ H1 ++ w :: H2, Typed ty w'.obj)
    (hkeys : (sch.fields.map (·.key)).Nodup) (hlast : ∀ w' ∈ H2, w'.g ≠ w.g)
    (hv : valid sch w.obj = true) :
    ∃ f, runHist [] (H1 ++ w :: H2) = (f, none) ∧ fromHdf5At sch f w.g = .ok w.obj := by
  have hv' : validG true sch w.obj = true := hv
  have hc : conformsG true sch w.obj = true := by
    unfold validG at hv'; rw [Bool.and_eq_true] at hv'; exact hv'.1
  obtain ⟨f, h1, h2, h3⟩ := region_after_fixed ty H1 H2 w hsep hty
    (keysNodup_of_conforms true sch w.obj hc hkeys) hlast
  exact ⟨f, h1, fromHdf5At_of_region true sch h2 h3 hv'⟩

/-- **Round trip** (the one-write instance, stated separately because it is the everyday use): an
    object written to a location, while any number of other objects are written to other groups of
    the same file before and after, is read back exactly. -/
theorem hdf5_roundtrip (sch : Schema) (ty : String → Bool)
    (H1 H2 : List Write) (w : Write)
    (hsep : Separated (H1 ++ w :: H2)) (hty : ∀ w' ∈ H1 ++ w :: H2, Typed ty w'.obj)
    (hkeys : (sch.fields.map (·.key)).Nodup)
    (hfresh : ∀ w' ∈ H1, w'.g ≠ w.g) (hlast : ∀ w' ∈ H2, w'.g ≠ w.g)
    (hv : valid sch w.obj = true) :
    ∃ f, runHist [] (H1 ++ w :: H2) = (f, none) ∧ fromHdf5At sch f w.g = .ok w.obj :=
  hdf5_last_write_wins sch ty H1 H2 w hsep hty hkeys hlast hv

/-- **D8, repaired by 93761174.**  The writer *before* the repair violated the statement: a grouped,
    labelled phased genotype matrix and then a bare one of the same shape are written to `a/b`;
    `from_hdf5` succeeded and returned the second matrix with the taxa names, taxa groups, variant
    labels and group metadata of the first. -/
theorem stale_field_prerepair_counterexample :
    let H : List Write := [⟨["a", "b"], Ex.pgRich⟩, ⟨["a", "b"], Ex.pgPoor⟩]
    valid pgmatSchema Ex.pgPoor = true ∧
    (runHistPrerepair [] H).2 = none ∧
    fromHdf5At pgmatSchema (runHistPrerepair [] H).1 ["a", "b"] = .ok Ex.pgStale ∧
    Ex.pgStale ≠ Ex.pgPoor := by
  decide +kernel

/-- the same history under the code as it is (regression instance of `hdf5_last_write_wins`) -/
theorem stale_field_regression :
    let H : List Write := [⟨["a", "b"], Ex.pgRich⟩, ⟨["a", "b"], Ex.pgPoor⟩]
    fromHdf5At pgmatSchema (runHist [] H).1 ["a", "b"] = .ok Ex.pgPoor := by
  decide +kernel

/-- **`overwrite = False` refuses an occupied location** and leaves the file untouched: the first
    field every class writes is mandatory, so the call fails before anything is changed. -/
theorem overwrite_false_refuses (f : File) (g : Path) (k : String) (d : DS) (rest : Obj)
    (hocc : mem f (g ++ [k]) = true) :
    writeItems g false f ((k, .data d) :: rest) = (f, some .exists_) := by
  have hne : ((g ++ [k]) == []) = false := by simp
  simp [writeItems, putLeaf, create, hocc, hne]

/-- **Group names.**  The group argument matters only through its normalised path: two spellings of
    the same path (`"a/b"`, `"/a//b/"`, `"a/./b"`) denote the same location for `to_hdf5` and
    `from_hdf5` alike; `None` is the root. -/
theorem group_name_normalised (sch : Schema) (f : File) (s s' : String) (ow : Bool) (o : Obj)
    (hs : s.isEmpty = false) (hs' : s'.isEmpty = false) (hp : parsePath s = parsePath s') :
    toHdf5 f (some s) ow o = toHdf5 f (some s') ow o ∧
    fromHdf5 sch f (some s) = fromHdf5 sch f (some s') := by
  simp [toHdf5, fromHdf5, toHdf5G, groupPath, fromHdf5G, hs, hs', hp]

/- (`String.splitOn` does not reduce in the kernel, so the instances `parsePath "/a//b/" = ["a","b"]`
   are checked at run time through the driver op `c16.parse_path` and through every correspondence
   case whose group name is spelled oddly.) -/

/-- `from_hdf5(file, "g")` on a file that holds an object at `g` is the path-level read used in the
    theorems above (the group-existence test passes) -/
theorem fromHdf5_some (sch : Schema) (f : File) (s : String) (hs : s.isEmpty = false)
    (hm : mem f (parsePath s) = true) :
    fromHdf5 sch f (some s) = fromHdf5At sch f (parsePath s) := by
  simp [fromHdf5, fromHdf5At, fromHdf5G, chk, hs, hm]

/-! ## HDF5: the classes -/

/-- field names of every schema are distinct (side condition of the theorems above) -/
theorem schema_keys_nodup :
    (pgmatSchema.fields.map (·.key)).Nodup ∧ (gmatSchema.fields.map (·.key)).Nodup ∧
    (bvmatSchema.fields.map (·.key)).Nodup ∧ (cmatSchema.fields.map (·.key)).Nodup ∧
    (vmatSchema.fields.map (·.key)).Nodup ∧ (algSchema.fields.map (·.key)).Nodup ∧
    (adlgSchema.fields.map (·.key)).Nodup ∧ ((geSchema 2).fields.map (·.key)).Nodup := by
  decide +kernel

/-- every class uses its field names consistently: only `hyperparams` is a nested dictionary -/
theorem schema_typing (sch : Schema)
    (h : sch.fields ∈ [pgmatSchema.fields, bvmatSchema.fields, cmatSchema.fields, vmatSchema.fields,
      algSchema.fields, adlgSchema.fields, (geSchema 0).fields]) :
    ∀ fd ∈ sch.fields, Ex.ty fd.key = (fd.reader == .dict) := by
  simp only [List.mem_cons, List.mem_nil_iff, or_false] at h
  rcases h with h | h | h | h | h | h | h <;> rw [h] <;> decide +kernel

/-- non-vacuity: one valid object per persistable class (grouped, non-ASCII labels, several traits,
    nested hyper-parameters incl. a string value) — `valid` is the hypothesis `hv` above -/
example : valid pgmatSchema Ex.pgRich = true := by decide +kernel
example : valid pgmatSchema Ex.pgPoor = true := by decide +kernel
example : valid gmatSchema Ex.gmEx = true := by decide +kernel
example : valid bvmatSchema Ex.bvEx = true := by decide +kernel
example : valid cmatSchema Ex.cmEx = true := by decide +kernel
example : valid vmatSchema Ex.vmEx = true := by decide +kernel
example : valid algSchema Ex.algEx = true := by decide +kernel
example : valid algSchema Ex.algStr = true := by decide +kernel
example : valid adlgSchema Ex.adlgEx = true := by decide +kernel
example : valid (geSchema 2) Ex.geEx = true := by decide +kernel

/-- non-vacuity of the history hypotheses: a poorer object written over a richer one, a model with
    a string hyper-parameter in a sibling group -/
example :
    let H : List Write := [⟨["a", "b"], Ex.pgRich⟩, ⟨["a", "c"], Ex.algStr⟩, ⟨["a", "b"], Ex.pgPoor⟩]
    (fromHdf5At pgmatSchema (runHist [] H).1 ["a", "b"] = .ok Ex.pgPoor) ∧
    (fromHdf5At algSchema (runHist [] H).1 ["a", "c"] = .ok Ex.algStr) := by
  decide +kernel

/-- **D29 (reported as D18), repaired by 9631bba1.**  The dictionary reader *before* the repair did
    not reproduce a string-valued hyper-parameter: the value came back as `bytes`, so the object
    was not `valid` for that reader. -/
theorem str_hyperparam_prerepair_counterexample :
    validPrerepair algSchema Ex.algStr = false ∧
    dictEntry false ["m", "hyperparams"] (["m", "hyperparams", "method"], mkStr "ML")
      = .ok ("method", some ⟨.bytes, [], [], [], ["ML"]⟩) ∧
    dictEntry true ["m", "hyperparams"] (["m", "hyperparams", "method"], mkStr "ML")
      = .ok ("method", some (mkStr "ML")) := by
  decide +kernel

/-! ## data-frame layouts -/

open StoreFrame in
/-- **Breeding values, wide layout.**  For every matrix (any number of taxa and traits), with the
    label-column options matching on both sides (a label array that is absent has `…_col = None`)
    and pairwise distinct column names, `from_pandas ∘ to_pandas` extracts exactly the taxa names,
    taxa groups, trait names and (unscaled) value columns of the original. -/
theorem bv_frame_roundtrip {α : Type} [Add α] [Mul α] [Inhabited α] (b : BV α)
    (taxaCol taxaGrpCol : Option String) (unsc : Bool)
    (hnames : ((bvCols b taxaCol taxaGrpCol unsc).map Prod.fst).Nodup)
    (htaxa : taxaCol.isSome = b.taxa.isSome) (hgrp : taxaGrpCol.isSome = b.taxa_grp.isSome) :
    bvFromPandas (bvToPandas b taxaCol taxaGrpCol unsc) taxaCol taxaGrpCol =
      .ok ⟨b.taxa, b.taxa_grp, (List.range b.ntrait).map (traitName b),
           (List.range b.ntrait).map (column (if unsc then unscale b else b.mat))⟩ :=
  bvFromPandas_toPandas b taxaCol taxaGrpCol unsc hnames htaxa hgrp

open StoreFrame in
/-- non-vacuity: two taxa, two traits with a non-ASCII name, taxa groups absent -/
example :
    let b : BV Rat := ⟨[[1, 2], [3, 5]], [1, 2], [2, 3], some ["tå", "βb"], none, some ["yld", "hté"]⟩
    ((bvCols b (some "taxa") none true).map Prod.fst).Nodup ∧
    bvFromPandas (bvToPandas b (some "taxa") none true) (some "taxa") none =
      .ok ⟨some ["tå", "βb"], none, [.s "yld", .s "hté"], [[3, 7], [8, 17]]⟩ := by
  decide +kernel

open StoreFrame in
/-- **Genetic map, matching units.**  Over any field in which 100 ≠ 0, writing the map with unit `u`
    (Morgans or centimorgans) and reading it with the same unit gives back chromosomes, physical and
    genetic positions exactly.  (The defaults do *not* match: `to_pandas` writes centimorgans,
    `from_pandas` reads Morgans — the unit argument is part of "matching options".) -/
theorem gmap_frame_roundtrip {α : Type} [Field α] (h100 : (100 : α) ≠ 0) (m : GMap α) (u : Units) :
    gmapFromPandas (gmapToPandas m u) u = .ok m := by
  unfold gmapToPandas
  rw [mkFrame_of_nodup _ (by simp)]
  cases u with
  | M => simp [gmapFromPandas, lookupCol]; rfl
  | cM =>
    simp [gmapFromPandas, lookupCol]
    have hid : (fun x : α => (100 : α)⁻¹ * 100 * x) = id := by
      funext x; rw [inv_mul_cancel₀ h100, one_mul]; rfl
    rw [hid, List.map_id]
    rfl

open StoreFrame in
/-- with mismatched units (the two defaults) the positions come back 100 times too large -/
theorem gmap_units_must_match :
    gmapFromPandas (gmapToPandas (⟨[1], [10], [1]⟩ : GMap Rat) .cM) .M = .ok ⟨[1], [10], [100]⟩ := by
  decide +kernel

/-! ## VCF import -/

open StoreVcf in
/-- the variants of the imported matrix, in its order: the file's records, reordered by
    `group_vrnt` when `auto_group_vrnt` -/
def vcfVariants (recs : List Rec) (autoGroup : Bool) : List Rec :=
  if autoGroup then grouped recs else recs

open StoreVcf in
/-- **VCF import is exact.**  For every list of records with one phased diploid call per sample:
    sample names, chromosome, position and identifier of every variant are reproduced; entry
    (phase, taxon, variant) of the phased matrix is allele `phase` of that sample's call in that
    variant's record (the unphased class stores their sum); without grouping the variants keep the
    file order, with grouping they are a permutation of the records in (chromosome, position) order —
    labels and calls travel together because every per-variant array is reordered by the same
    index vector. -/
theorem vcf_import_exact (samples : List String) (recs : List Rec) (autoGroup : Bool)
    (hrect : ∀ r ∈ recs, r.calls.length = samples.length) :
    (fromVcf samples recs autoGroup).taxa = samples ∧
    (fromVcf samples recs autoGroup).chrgrp = (vcfVariants recs autoGroup).map (·.chrom) ∧
    (fromVcf samples recs autoGroup).phypos = (vcfVariants recs autoGroup).map (·.pos) ∧
    (fromVcf samples recs autoGroup).name = (vcfVariants recs autoGroup).map (·.id) ∧
    (∀ ph i j, ph < 2 → i < samples.length → j < recs.length →
      entry3 (fromVcf samples recs autoGroup).matP ph i j =
        allele (((vcfVariants recs autoGroup).getD j default).calls.getD i (0, 0)) ph) ∧
    (∀ i j, i < samples.length → j < recs.length →
      entry2 (fromVcf samples recs autoGroup).matU i j =
        (((vcfVariants recs autoGroup).getD j default).calls.getD i (0, 0)).1 +
        (((vcfVariants recs autoGroup).getD j default).calls.getD i (0, 0)).2) ∧
    (vcfVariants recs autoGroup).Perm recs ∧
    (autoGroup = true →
      (vcfVariants recs autoGroup).Pairwise (fun a b => keyLt (keyOf b) (keyOf a) = false)) ∧
    (autoGroup = false → vcfVariants recs autoGroup = recs) := by
  cases autoGroup with
  | false =>
    refine ⟨rfl, rfl, rfl, rfl, ?_, ?_, List.Perm.refl _, fun h => by simp at h, fun _ => rfl⟩
    · intro ph i j hph hi hj
      exact matPhased_entry samples.length recs hrect ph i j hph hi hj
    · intro i j hi hj
      exact matUnphased_entry samples.length recs hrect i j hi hj
  | true =>
    refine ⟨rfl, ?_, ?_, ?_, ?_, ?_, grouped_perm recs, fun _ => grouped_sorted recs, fun h => by simp at h⟩
    · show Np.take (lexsortIdx recs) (recs.map (·.chrom)) = (grouped recs).map (·.chrom)
      rw [take_map]; rfl
    · show Np.take (lexsortIdx recs) (recs.map (·.pos)) = (grouped recs).map (·.pos)
      rw [take_map]; rfl
    · show Np.take (lexsortIdx recs) (recs.map (·.id)) = (grouped recs).map (·.id)
      rw [take_map]; rfl
    · intro ph i j hph hi hj
      exact grouped_entry samples.length recs hrect ph i j hph hi hj
    · intro i j hi hj
      exact grouped_entry_unphased samples.length recs hrect i j hi hj

open StoreVcf in
/-- non-vacuity: four records on two chromosomes in non-sorted order with a tie in position,
    three samples, a tri-allelic site -/
example :
    let recs : List Rec := [⟨2, 100, "m1", [(0, 1), (1, 1), (1, 0)]⟩, ⟨1, 300, "mé2", [(2, 1), (0, 0), (0, 2)]⟩,
      ⟨1, 200, "m3", [(1, 1), (0, 1), (0, 0)]⟩, ⟨1, 200, "m4", [(0, 0), (1, 0), (1, 1)]⟩]
    (∀ r ∈ recs, r.calls.length = 3) ∧
    (fromVcf ["tå", "βb", "s 3"] recs true).name = ["m3", "m4", "mé2", "m1"] ∧
    (fromVcf ["tå", "βb", "s 3"] recs true).matP =
      [[[1, 0, 2, 0], [0, 1, 0, 1], [0, 1, 0, 1]], [[1, 0, 1, 1], [1, 0, 0, 1], [0, 1, 2, 0]]] := by
  decide +kernel

/-! ## copies -/

open StoreCopy in
/-- **Copies compare equal to their source** (shallow and deep), and making the copy does not
    change the source. -/
theorem copy_equals_source (deep : Bool) (h : Heap) (o : HObj) (hwf : WF h o) :
    view (copyObj deep h o).1 (copyObj deep h o).2 = view h o ∧
    view (copyObj deep h o).1 o = view h o := by
  obtain ⟨c1, c2, _, _⟩ := copyObj_spec deep o h hwf
  exact ⟨c2, view_prefix c1 o hwf⟩

open StoreCopy in
/-- **A deep copy shares no buffer with its source**: every array it refers to — directly or
    through a nested dictionary — was allocated by the copy. -/
theorem deepcopy_shares_nothing (h : Heap) (o : HObj) (hwf : WF h o) :
    ∀ a ∈ refs (copyObj true h o).2, a ∉ refs o := by
  obtain ⟨_, _, c3, _⟩ := copyObj_spec true o h hwf
  intro a ha hao
  have h1 : h.length ≤ a := c3 rfl a ha
  have h2 : a < h.length := hwf a hao
  exact absurd h2 (Nat.not_lt.mpr h1)

open StoreCopy in
/-- **Mutating a deep copy never shows in the source**: after any sequence of in-place writes
    to buffers of the copy the source is observably what it was. -/
theorem deepcopy_independent (h : Heap) (o : HObj) (hwf : WF h o) (ps : List (Addr × DS))
    (hps : ∀ p ∈ ps, p.1 ∈ refs (copyObj true h o).2) :
    view (pokes (copyObj true h o).1 ps) o = view h o := by
  obtain ⟨c1, _, _, _⟩ := copyObj_spec true o h hwf
  rw [view_pokes o ps _ (fun p hp => ?_)]
  · exact view_prefix c1 o hwf
  · intro hmem
    exact deepcopy_shares_nothing h o hwf p.1 (hps p hp) hmem

open StoreCopy in
/-- … and mutating the source never shows in the deep copy. -/
theorem deepcopy_independent_of_source (h : Heap) (o : HObj) (hwf : WF h o) (ps : List (Addr × DS))
    (hps : ∀ p ∈ ps, p.1 ∈ refs o) :
    view (pokes (copyObj true h o).1 ps) (copyObj true h o).2 = view h o := by
  obtain ⟨_, c2, _, _⟩ := copyObj_spec true o h hwf
  rw [view_pokes _ ps _ (fun p hp hmem => deepcopy_shares_nothing h o hwf p.1 hmem (hps p hp))]
  exact c2

open StoreCopy in
/-- non-vacuity: a genomic model with a nested dictionary laid out on a heap is well formed, its
    deep copy is equal, and poking all of the copy's buffers leaves the source alone; a *shallow*
    copy, by contrast, shares the arrays inside `hyperparams` (that is what "shallow" means). -/
example :
    let o : Obj := Ex.mkObj algSchema
      [("beta", Ex.f64 [1, 2] [1, 2]), ("u_a", Ex.f64 [2, 2] [0, 3, 2, -1]),
       ("hyperparams", .dict [("k", some (mkInt 5)), ("wts", some ⟨.f64, [2], [], [1, 2], []⟩)])]
    let ho := allocObj [] o
    (∀ a ∈ refs ho.2, a < ho.1.length) ∧ view ho.1 ho.2 = o ∧
    view (copyObj true ho.1 ho.2).1 (copyObj true ho.1 ho.2).2 = o ∧
    (refs (copyObj true ho.1 ho.2).2).all (fun a => !(refs ho.2).contains a) = true ∧
    (refs (copyObj false ho.1 ho.2).2).any (fun a => (refs ho.2).contains a) = true := by
  decide +kernel

end C16
