/-
C16 — saving, loading and copying reproduce objects exactly.
Property theorems only (helper lemmas live in Lemmas/Store*.lean).

Model: PybropsModel/Model/Store.lean — an HDF5 file as a finite map path ↦ dataset,
`h5py_File_write_dict` and `h5py_File_read_dict` as they are (after fixes 93761174 / 9631bba1;
the pre-repair writer and reader are kept as `…Prerepair` for the counterexamples), `TruePhenotyping.to_hdf5`
after the repair of D30 (`require_group`; explicit groups are marker entries of the map),
the typed readers, one schema + constructor per persistable class.
-/
import PybropsModel.Lemmas.StoreHist2
import PybropsModel.Lemmas.StoreGroup
import PybropsModel.Lemmas.StoreExamples
import PybropsModel.Lemmas.StoreCopyLemmas
import PybropsModel.Lemmas.StoreVcfLemmas
import PybropsModel.Lemmas.StoreFrameLemmas2
import PybropsModel.Lemmas.StoreGraphLemmas
import PybropsModel.Lemmas.StoreSpecLemmas
import PybropsModel.Lemmas.StoreVcfSpec
import PybropsModel.Lemmas.StoreFrameK
set_option autoImplicit false

namespace C16
open Store

/-! ## HDF5: write histories -/

/-- **Last write wins.**  For every history of overwriting `to_hdf5` calls — any number of writes,
    any objects of any classes, any groups (nested ones and the root included) — such that the
    datasets written form a prefix-free set of paths (nothing is written *inside* a dataset) and no
    later call claims a field name that is path-comparable with a field name of `w`: no call fails,
    and `from_hdf5` at the location `w.g` returns exactly the object `w.obj`, whatever was written
    there before (richer or poorer objects, other classes) and whatever is written elsewhere. -/
theorem hdf5_last_write_wins (sch : Schema) (H1 H2 : List Write) (w : Write)
    (hpf : PrefixFree (Touched (H1 ++ w :: H2))) (hnb : ∀ w' ∈ H1 ++ w :: H2, NoBad w'.obj)
    (hkeys : (sch.fields.map (·.key)).Nodup) (hun : Unreached w H2)
    (hv : valid sch w.obj = true) :
    ∃ f, runHist [] (H1 ++ w :: H2) = (f, none) ∧ fromHdf5At sch f w.g = .ok w.obj := by
  have hv' : validG true sch w.obj = true := hv
  have hc : conformsG true sch w.obj = true := by
    unfold validG at hv'; rw [Bool.and_eq_true] at hv'; exact hv'.1
  obtain ⟨f, h1, h2, h3⟩ := region_after_write H1 H2 w hpf hnb
    (keysNodup_of_conforms true sch w.obj hc hkeys) hun
  exact ⟨f, h1, fromHdf5At_of_region true sch h2 h3 hv'⟩

/-- **Separate groups** (the everyday instance): when no group of the history is a path-prefix of
    another and every field name is used consistently as a leaf or as a dictionary, the hypotheses
    above hold — the object written last to a location is read back exactly, while any number of
    other objects are written to other groups of the same file before and after. -/
theorem hdf5_roundtrip (sch : Schema) (ty : String → Bool)
    (H1 H2 : List Write) (w : Write)
    (hsep : Separated (H1 ++ w :: H2)) (hty : ∀ w' ∈ H1 ++ w :: H2, Typed ty w'.obj)
    (hkeys : (sch.fields.map (·.key)).Nodup) (hlast : ∀ w' ∈ H2, w'.g ≠ w.g)
    (hv : valid sch w.obj = true) :
    ∃ f, runHist [] (H1 ++ w :: H2) = (f, none) ∧ fromHdf5At sch f w.g = .ok w.obj :=
  hdf5_last_write_wins sch H1 H2 w (touched_prefixFree ty _ hsep hty)
    (fun w' h => typed_noBad (hty w' h)) hkeys (unreached_of_separated hsep hlast) hv

/-- non-vacuity of the general hypotheses beyond separated groups: the root and a nested group in
    one file (`"a"` is not a field name), the root written last -/
example :
    let H : List Write := [⟨[], Ex.pgRich⟩, ⟨["a"], Ex.algStr⟩, ⟨[], Ex.pgPoor⟩]
    (fromHdf5At pgmatSchema (runHist [] H).1 [] = .ok Ex.pgPoor) ∧
    (fromHdf5At algSchema (runHist [] H).1 ["a"] = .ok Ex.algStr) := by
  decide +kernel

/-- **The pre-repair writer, exactly** (what D8 was): for every history whose written datasets are
    prefix-free no call failed, and every dataset of the file held the value of the *last
    non-`None` write to its path* — a `None` field wrote nothing and deleted nothing, so a field
    absent from the last object kept the value of the last earlier object that had it. -/
theorem hdf5_fieldwise_last_nonNone_prerepair (H : List Write) (hpf : PrefixFree (Touched H))
    (hnb : ∀ w ∈ H, NoBad w.obj) :
    ∃ f, runHistPrerepair [] H = (f, none) ∧ ∀ q, lookup f q = lastWrite (flatH H) q :=
  prerepair_lookup H hpf hnb

/-- **D8, repaired by 93761174.**  The writer *before* the repair violated the statement: a grouped,
    labelled phased genotype matrix and then a bare one of the same shape are written to `a/b`;
    `from_hdf5` succeeded and returned the second matrix with the taxa names, taxa groups, variant
    labels and group metadata of the first. -/
theorem stale_field_prerepair_counterexample :
    let H : List Write := [⟨["a", "b"], Ex.pgRich⟩, ⟨["a", "b"], Ex.pgPoor⟩]
    valid pgmatSchema Ex.pgPoor = true ∧
    (runHistPrerepair [] H).2 = none ∧
    fromHdf5At pgmatSchema (runHistPrerepair [] H).1 ["a", "b"] = .ok Ex.pgStale ∧
    Ex.pgStale ≠ Ex.pgPoor := by
  decide +kernel

/-- the same history under the code as it is (regression instance of `hdf5_last_write_wins`) -/
theorem stale_field_regression :
    let H : List Write := [⟨["a", "b"], Ex.pgRich⟩, ⟨["a", "b"], Ex.pgPoor⟩]
    fromHdf5At pgmatSchema (runHist [] H).1 ["a", "b"] = .ok Ex.pgPoor := by
  decide +kernel

/-- **`overwrite = False` refuses an occupied location** and leaves the file untouched: the first
    field every class writes is mandatory, so the call fails before anything is changed. -/
theorem overwrite_false_refuses (f : File) (g : Path) (k : String) (d : DS) (rest : Obj)
    (hocc : mem f (g ++ [k]) = true) :
    writeItems g false f ((k, .data d) :: rest) = (f, some .exists_) := by
  have hne : ((g ++ [k]) == []) = false := by simp
  simp [writeItems, putLeaf, create, hocc, hne]

/-- **Group names.**  The group argument matters only through its normalised path: two spellings of
    the same path (`"a/b"`, `"/a//b/"`, `"a/./b"`) denote the same location for `to_hdf5` and
    `from_hdf5` alike; `None` is the root. -/
theorem group_name_normalised (sch : Schema) (f : File) (s s' : String) (ow : Bool) (o : Obj)
    (hs : s.isEmpty = false) (hs' : s'.isEmpty = false) (hp : parsePath s = parsePath s') :
    toHdf5 f (some s) ow o = toHdf5 f (some s') ow o ∧
    fromHdf5 sch f (some s) = fromHdf5 sch f (some s') := by
  simp [toHdf5, fromHdf5, toHdf5G, groupPath, fromHdf5G, hs, hs', hp]

/- (`String.splitOn` does not reduce in the kernel, so the instances `parsePath "/a//b/" = ["a","b"]`
   are checked at run time through the driver op `c16.parse_path` and through every correspondence
   case whose group name is spelled oddly.) -/

/-- `from_hdf5(file, "g")` on a file that holds an object at `g` is the path-level read used in the
    theorems above (the group-existence test passes) -/
theorem fromHdf5_some (sch : Schema) (f : File) (s : String) (hs : s.isEmpty = false)
    (hm : mem f (parsePath s) = true) :
    fromHdf5 sch f (some s) = fromHdf5At sch f (parsePath s) := by
  simp [fromHdf5, fromHdf5At, fromHdf5G, chk, hs, hm]

/-- every class either makes its group on purpose (`TruePhenotyping`, after the repair of D30) or stores a
    mandatory array, and no class has a field called like the group marker -/
theorem every_class_makes_its_group (sch : Schema)
    (h : sch ∈ [pgmatSchema, gmatSchema, bvmatSchema, cmatSchema, vmatSchema, vmatKSchema 3, vmatKSchema 4,
      algSchema, adlgSchema, geSchema 0, tpSchema, dmatSchema, tmatSchema, vrmatSchema, tvmatSchema, trmatSchema,
      ttmatSchema, sq4Schema]) :
    (requiresGroup sch = true ∨ ∃ fd ∈ sch.fields, fd.required = true) ∧
      ∀ fd ∈ sch.fields, fd.key ≠ markKey := by
  simp only [List.mem_cons, List.mem_nil_iff, or_false] at h
  rcases h with h | h | h | h | h | h | h | h | h | h | h | h | h | h | h | h | h | h <;> subst h <;> decide +kernel

/-- **Last write wins, all classes, named groups.**  For every history of overwriting `to_hdf5` calls of ANY of
    the persistable classes — the parameter-free `TruePhenotyping` included, whose `to_hdf5` makes its group
    on purpose — in which the datasets and group markers form a prefix-free set of paths and no later call
    reaches into `x`: no call fails; `from_hdf5` at the location `x.g` returns exactly the object written
    there last; and so does `from_hdf5` with the group *name* (any spelling `s` of the path), because the
    group exists — through the mandatory array of the class, or because the class made it. -/
theorem hdf5_named_group_roundtrip (sch : Schema) (H1 H2 : List WriteX) (g : Path) (o : Obj) (s : String)
    (hpf : PrefixFree (TouchedX (H1 ++ writeOf sch g o :: H2)))
    (hnb : ∀ x' ∈ H1 ++ writeOf sch g o :: H2, NoBad x'.obj)
    (hkeys : (sch.fields.map (·.key)).Nodup) (hun : UnreachedX (writeOf sch g o) H2)
    (hv : valid sch o = true) (hs : s.isEmpty = false) (hp : parsePath s = g)
    (hcls : (requiresGroup sch = true ∨ ∃ fd ∈ sch.fields, fd.required = true) ∧
      ∀ fd ∈ sch.fields, fd.key ≠ markKey) :
    ∃ f, runHistX [] (H1 ++ writeOf sch g o :: H2) = (f, none) ∧ fromHdf5At sch f g = .ok o ∧
      fromHdf5 sch f (some s) = .ok o := by
  have hv' : validG true sch o = true := hv
  have hc : conformsG true sch o = true := by
    unfold validG at hv'; rw [Bool.and_eq_true] at hv'; exact hv'.1
  have hmk : ∀ kv ∈ (writeOf sch g o).obj, kv.1 ≠ markKey := by
    intro kv hkv
    have : kv.1 ∈ sch.fields.map (·.key) := by
      rw [← keys_of_conforms true sch o hc]; exact List.mem_map_of_mem (f := Prod.fst) hkv
    obtain ⟨fd, hfd, hk⟩ := List.mem_map.mp this
    exact hk ▸ hcls.2 fd hfd
  obtain ⟨f, h1, h2, h3, h4⟩ := region_after_writeX H1 H2 (writeOf sch g o) hpf hnb
    (keysNodup_of_conforms true sch o hc hkeys) hun hmk
  have hread : fromHdf5At sch f g = .ok o := fromHdf5At_of_region true sch h2 h3 hv'
  refine ⟨f, h1, hread, ?_⟩
  have hg : mem f (parsePath s) = true := by
    rw [hp]
    rcases hcls.1 with hgrp | hreq
    · exact h4 hgrp
    · obtain ⟨k, d, hm⟩ := data_of_required true sch o hc hreq
      have hmem : mem f (g ++ [k]) = true := mem_of_region_data h3 hm
      rw [mem_eq_true_iff]
      rcases (mem_eq_true_iff f (g ++ [k])).mp hmem with h | ⟨e, he, hpre⟩
      · exact absurd h (append_singleton_ne_nil g k)
      · exact Or.inr ⟨e, he, (List.prefix_append g [k]).trans hpre⟩
  rw [fromHdf5_some sch f s hs hg, hp]
  exact hread

/-- non-vacuity: a protocol under `prot/true`, a matrix next to it under `prot/gm`, a second protocol above both
    (`prot`), the matrix overwritten by a poorer one: the hypotheses are decidable on the instance and every
    location reads back what was written there last -/
example :
    let H : List WriteX := [writeOf tpSchema ["prot", "true"] [], writeOf pgmatSchema ["prot", "gm"] Ex.pgRich,
      writeOf tpSchema ["prot"] [], writeOf pgmatSchema ["prot", "gm"] Ex.pgPoor]
    (runHistX [] H).2 = none ∧
    mem (runHistX [] H).1 ["prot", "true"] = true ∧
    fromHdf5At tpSchema (runHistX [] H).1 ["prot", "true"] = .ok [] ∧
    fromHdf5At pgmatSchema (runHistX [] H).1 ["prot", "gm"] = .ok Ex.pgPoor ∧
    mem (runHistX [] H).1 ["elsewhere"] = false := by
  decide +kernel

/-- **D30, repaired.**  `TruePhenotyping.to_hdf5` *before* the repair violated the statement: the protocol has
    no parameter to store, `to_hdf5` wrote nothing, so a group that did not exist before still did not exist,
    and `from_hdf5` with that group name refused (`LookupError`) — for every file and every fresh group name. -/
theorem tp_named_group_prerepair_counterexample (s : String) (f : File) (hs : s.isEmpty = false)
    (hfresh : mem f (parsePath s) = false) :
    (toHdf5TPPrerepair f (some s) true).2 = none ∧
    fromHdf5 tpSchema (toHdf5TPPrerepair f (some s) true).1 (some s) = .error .missing := by
  have hw : toHdf5TPPrerepair f (some s) true = (f, none) := by
    simp [toHdf5TPPrerepair, toHdf5G, groupPath, hs, writeItems]
    rfl
  rw [hw]
  refine ⟨rfl, ?_⟩
  simp [fromHdf5, fromHdf5G, chk, hfresh]
  rfl

/-- **The parameter-free protocol, full statement** (the code as repaired): for EVERY file, every group name
    (or `None`) and either value of `overwrite`, whenever `to_hdf5` returns without error `from_hdf5` with the
    same group argument returns the protocol … -/
theorem tp_hdf5_roundtrip (f : File) (ow : Bool) :
    fromHdf5 tpSchema (toHdf5TP f none ow).1 none = .ok [] ∧
    (∀ s, s.isEmpty = false → (toHdf5TP f (some s) ow).2 = none →
      fromHdf5 tpSchema (toHdf5TP f (some s) ow).1 (some s) = .ok []) := by
  have hread : ∀ (f' : File) (p : Path), fromHdf5At tpSchema f' p = .ok [] := by
    intro f' p
    simp [fromHdf5At, fromHdf5AtG, readRaw, checkRequired, readFields, tpSchema]
    rfl
  constructor
  · simp [toHdf5TP, groupPath, writeItems, fromHdf5, fromHdf5G]
    exact hread f []
  · intro s hs hok
    rw [toHdf5TP_named f s ow hs] at hok ⊢
    by_cases hg : (parsePath s == []) = true
    · rw [if_pos hg]
      have hm : mem f (parsePath s) = true := by
        have : parsePath s = [] := by simpa using hg
        rw [this]; rfl
      rw [fromHdf5_some tpSchema f s hs hm]
      exact hread _ _
    · rw [if_neg hg] at hok ⊢
      cases h : requireGroup f (parsePath s) with
      | mk f' e =>
        rw [h] at hok
        have he : e = none := hok
        subst he
        rw [fromHdf5_some tpSchema f' s hs (mem_after_requireGroup f f' _ h)]
        exact hread _ _

/-- … and `to_hdf5` does return without error whenever neither the group path nor one of its ancestors is a
    dataset of the file (a fresh file, a fresh group, an existing group: all fine) -/
theorem tp_to_hdf5_ok (f : File) (s : String) (ow : Bool) (hs : s.isEmpty = false)
    (hfree : ∀ e ∈ f, ¬ e.1 <+: (parsePath s ++ [markKey])) :
    (toHdf5TP f (some s) ow).2 = none := by
  rw [toHdf5TP_named f s ow hs]
  by_cases hg : (parsePath s == []) = true
  · rw [if_pos hg]
  · rw [if_neg hg]
    obtain ⟨f', hf'⟩ := requireGroup_ok f (parsePath s) hfree
    rw [hf']

/-- the steps of a history over all classes ARE the classes' `to_hdf5` calls with `overwrite = True`:
    `TruePhenotyping.to_hdf5` for the class that makes its group, the generic writer for the others -/
theorem stepX_is_to_hdf5 (sch : Schema) (f : File) (s : String) (o : Obj) (hs : s.isEmpty = false) :
    (requiresGroup sch = true → stepX f (writeOf sch (parsePath s) []) = toHdf5TP f (some s) true) ∧
    (requiresGroup sch = false → stepX f (writeOf sch (parsePath s) o) = toHdf5 f (some s) true o) := by
  constructor
  · intro h
    rw [toHdf5TP_named f s true hs]
    by_cases hg : (parsePath s == []) = true
    · have hnil : parsePath s = [] := by simpa using hg
      simp [stepX, writeOf, h, hnil, writeItems]
    · have hg' : (parsePath s == []) = false := by simpa using hg
      have hne : (parsePath s != []) = true := by simp [bne, hg']
      simp only [stepX, writeOf, h, hne, Bool.and_self, if_true, hg', Bool.false_eq_true, if_false]
      cases hr : requireGroup f (parsePath s) with
      | mk f' e => cases e <;> simp [writeItems]
  · intro h
    have hgp : groupPath (some s) = .ok (parsePath s) := by simp [groupPath, hs]; rfl
    simp [stepX, writeOf, h, toHdf5, toHdf5G, hgp]

/-- `TruePhenotyping.to_hdf5` does not look at `overwrite`: on an occupied group it is accepted as well (there is
    nothing of the protocol's own to overwrite) -/
theorem tp_overwrite_irrelevant (f : File) (g : Option String) :
    toHdf5TP f g false = toHdf5TP f g true := by
  unfold toHdf5TP
  cases groupPath g with
  | error e => rfl
  | ok p =>
    simp only
    cases (if (p == []) = true then (f, none) else requireGroup f p) with
    | mk f' e => cases e <;> simp [writeItems]

/-- the D30 history under the code as it is (regression instance at path level: `String.splitOn` does not
    reduce in the kernel): a fresh nested group, then a second call with `overwrite = False` — accepted, the
    group is there and stays -/
theorem tp_named_group_regression :
    let f1 := (stepX [] (writeOf tpSchema ["prot", "true"] [])).1
    mem [] ["prot", "true"] = false ∧ mem f1 ["prot", "true"] = true ∧ mem f1 ["prot"] = true ∧
    requireGroup f1 ["prot", "true"] = (f1, none) ∧
    fromHdf5At tpSchema f1 ["prot", "true"] = .ok [] := by
  decide +kernel

/-! ## the Spec oracle of stored / copied objects (driver op `c16.spec_obj`) -/

/-- **spec_iff.**  The Bool oracle evaluated on the implementation's outputs decides observable equality
    of two object states: the same field names in the same order, every item equal in dtype, shape and
    values, dictionaries of the same size with every entry of the first found in the second … -/
theorem spec_obj_iff (want got : Obj) : StoreSpec.specObj want got = true ↔ StoreSpec.ObsEq want got :=
  StoreSpec.specObj_iff want got

/-- … which for dictionaries with distinct keys (every Python dictionary) is equality as finite maps -/
theorem spec_obj_dict_iff (a b : List (String × Option DS))
    (ha : (StoreSpec.dkeys a).Nodup) (hb : (StoreSpec.dkeys b).Nodup) :
    StoreSpec.dictEq a b = true ↔ ∀ k, a.lookup k = b.lookup k :=
  StoreSpec.dictEq_iff_same_map a b ha hb

/-- **spec_sound (HDF5).**  Under the hypotheses of `hdf5_last_write_wins` the oracle accepts what the
    model reads back at `w.g` against the object written there last: what the check demands of the
    implementation on every case is what the theorem establishes for the model. -/
theorem hdf5_spec_sound (sch : Schema) (H1 H2 : List Write) (w : Write)
    (hpf : PrefixFree (Touched (H1 ++ w :: H2))) (hnb : ∀ w' ∈ H1 ++ w :: H2, NoBad w'.obj)
    (hkeys : (sch.fields.map (·.key)).Nodup) (hun : Unreached w H2)
    (hv : valid sch w.obj = true) :
    ∃ f o', runHist [] (H1 ++ w :: H2) = (f, none) ∧ fromHdf5At sch f w.g = .ok o' ∧
      StoreSpec.specObj w.obj o' = true := by
  obtain ⟨f, h1, h2⟩ := hdf5_last_write_wins sch H1 H2 w hpf hnb hkeys hun hv
  have hv' : validG true sch w.obj = true := hv
  have hc : conformsG true sch w.obj = true := by
    unfold validG at hv'; rw [Bool.and_eq_true] at hv'; exact hv'.1
  exact ⟨f, w.obj, h1, h2, StoreSpec.specObj_refl w.obj (StoreSpec.dictsNodup_of_conforms true sch w.obj hc)⟩

/-- non-vacuity: the oracle separates the stale read-back of D8 from the object written last, and
    accepts a dictionary whose entries come back in another order -/
example :
    StoreSpec.specObj Ex.pgPoor Ex.pgStale = false ∧ StoreSpec.specObj Ex.pgPoor Ex.pgPoor = true ∧
    StoreSpec.dictEq [("k", some (mkInt 5)), ("lam", some (mkInt 1))] [("lam", some (mkInt 1)), ("k", some (mkInt 5))] = true := by
  decide +kernel

/-! ## HDF5: the classes -/

/-- field names of every schema are distinct (side condition of the theorems above) -/
theorem schema_keys_nodup :
    (pgmatSchema.fields.map (·.key)).Nodup ∧ (gmatSchema.fields.map (·.key)).Nodup ∧
    (bvmatSchema.fields.map (·.key)).Nodup ∧ (cmatSchema.fields.map (·.key)).Nodup ∧
    (vmatSchema.fields.map (·.key)).Nodup ∧ (algSchema.fields.map (·.key)).Nodup ∧
    (adlgSchema.fields.map (·.key)).Nodup ∧ ((geSchema 2).fields.map (·.key)).Nodup ∧
    ((vmatKSchema 3).fields.map (·.key)).Nodup ∧ ((vmatKSchema 4).fields.map (·.key)).Nodup ∧
    (tpSchema.fields.map (·.key)).Nodup ∧
    -- the base classes of `pybrops.core.mat` and the (n,n,t,t) covariance matrices
    (dmatSchema.fields.map (·.key)).Nodup ∧ (tmatSchema.fields.map (·.key)).Nodup ∧
    (vrmatSchema.fields.map (·.key)).Nodup ∧ (tvmatSchema.fields.map (·.key)).Nodup ∧
    (trmatSchema.fields.map (·.key)).Nodup ∧ (ttmatSchema.fields.map (·.key)).Nodup ∧
    (sq4Schema.fields.map (·.key)).Nodup := by
  decide +kernel

/-- every class uses its field names consistently: only `hyperparams` is a nested dictionary -/
theorem schema_typing (sch : Schema)
    (h : sch.fields ∈ [pgmatSchema.fields, bvmatSchema.fields, cmatSchema.fields, vmatSchema.fields,
      algSchema.fields, adlgSchema.fields, (geSchema 0).fields, (vmatKSchema 3).fields, (vmatKSchema 4).fields,
      tpSchema.fields, dmatSchema.fields, tmatSchema.fields, vrmatSchema.fields, tvmatSchema.fields,
      trmatSchema.fields, ttmatSchema.fields, sq4Schema.fields]) :
    ∀ fd ∈ sch.fields, Ex.ty fd.key = (fd.reader == .dict) := by
  simp only [List.mem_cons, List.mem_nil_iff, or_false] at h
  rcases h with h | h | h | h | h | h | h | h | h | h | h | h | h | h | h | h | h <;> rw [h] <;> decide +kernel

/-- non-vacuity: one valid object per persistable class (grouped, non-ASCII labels, several traits,
    nested hyper-parameters incl. a string value) — `valid` is the hypothesis `hv` above -/
example : valid pgmatSchema Ex.pgRich = true := by decide +kernel
example : valid pgmatSchema Ex.pgPoor = true := by decide +kernel
example : valid gmatSchema Ex.gmEx = true := by decide +kernel
example : valid bvmatSchema Ex.bvEx = true := by decide +kernel
example : valid cmatSchema Ex.cmEx = true := by decide +kernel
example : valid vmatSchema Ex.vmEx = true := by decide +kernel
example : valid algSchema Ex.algEx = true := by decide +kernel
example : valid algSchema Ex.algStr = true := by decide +kernel
example : valid adlgSchema Ex.adlgEx = true := by decide +kernel
example : valid (geSchema 2) Ex.geEx = true := by decide +kernel
/-- … and of the base classes: a grouped taxa × variant matrix with labels on both axes, a 4-d covariance matrix -/
example : valid tvmatSchema Ex.tvEx = true ∧ valid sq4Schema Ex.sq4Ex = true ∧ valid dmatSchema Ex.dmEx = true := by
  decide +kernel

/-- non-vacuity of the history hypotheses: a poorer object written over a richer one, a model with
    a string hyper-parameter in a sibling group -/
example :
    let H : List Write := [⟨["a", "b"], Ex.pgRich⟩, ⟨["a", "c"], Ex.algStr⟩, ⟨["a", "b"], Ex.pgPoor⟩]
    (fromHdf5At pgmatSchema (runHist [] H).1 ["a", "b"] = .ok Ex.pgPoor) ∧
    (fromHdf5At algSchema (runHist [] H).1 ["a", "c"] = .ok Ex.algStr) := by
  decide +kernel

/-- **D29 (reported as D18), repaired by 9631bba1.**  The dictionary reader *before* the repair did
    not reproduce a string-valued hyper-parameter: the value came back as `bytes`, so the object
    was not `valid` for that reader. -/
theorem str_hyperparam_prerepair_counterexample :
    validPrerepair algSchema Ex.algStr = false ∧
    dictEntry false ["m", "hyperparams"] (["m", "hyperparams", "method"], mkStr "ML")
      = .ok ("method", some ⟨.bytes, [], [], [], ["ML"]⟩) ∧
    dictEntry true ["m", "hyperparams"] (["m", "hyperparams", "method"], mkStr "ML")
      = .ok ("method", some (mkStr "ML")) := by
  decide +kernel

/-! ## data-frame layouts -/

open StoreFrame in
/-- **Breeding values, wide layout.**  For every matrix (any number of taxa and traits), with the
    label-column options matching on both sides (a label array that is absent has `…_col = None`)
    and pairwise distinct column names, `from_pandas ∘ to_pandas` extracts exactly the taxa names,
    taxa groups, trait names and (unscaled) value columns of the original. -/
theorem bv_frame_roundtrip {α : Type} [Add α] [Mul α] [Inhabited α] (b : BV α)
    (taxaCol taxaGrpCol : Option String) (unsc : Bool)
    (hnames : ((bvCols b taxaCol taxaGrpCol unsc).map Prod.fst).Nodup)
    (htaxa : taxaCol.isSome = b.taxa.isSome) (hgrp : taxaGrpCol.isSome = b.taxa_grp.isSome) :
    bvFromPandas (bvToPandas b taxaCol taxaGrpCol unsc) taxaCol taxaGrpCol =
      .ok ⟨b.taxa, b.taxa_grp, (List.range b.ntrait).map (traitName b),
           (List.range b.ntrait).map (column (if unsc then unscale b else b.mat))⟩ :=
  bvFromPandas_toPandas b taxaCol taxaGrpCol unsc hnames htaxa hgrp

open StoreFrame in
/-- non-vacuity: two taxa, two traits with a non-ASCII name, taxa groups absent -/
example :
    let b : BV Rat := ⟨[[1, 2], [3, 5]], [1, 2], [2, 3], some ["tå", "βb"], none, some ["yld", "hté"]⟩
    ((bvCols b (some "taxa") none true).map Prod.fst).Nodup ∧
    bvFromPandas (bvToPandas b (some "taxa") none true) (some "taxa") none =
      .ok ⟨some ["tå", "βb"], none, [.s "yld", .s "hté"], [[3, 7], [8, 17]]⟩ := by
  decide +kernel

open StoreFrame in
/-- **Genetic map, matching units.**  Over any field in which 100 ≠ 0, writing the map with unit `u`
    (Morgans or centimorgans) and reading it with the same unit gives back chromosomes, physical and
    genetic positions exactly.  (The defaults do *not* match: `to_pandas` writes centimorgans,
    `from_pandas` reads Morgans — the unit argument is part of "matching options".) -/
theorem gmap_frame_roundtrip {α : Type} [Field α] (h100 : (100 : α) ≠ 0) (m : GMap α) (u : Units) :
    gmapFromPandas (gmapToPandas m u) u = .ok m := by
  unfold gmapToPandas
  rw [mkFrame_of_nodup _ (by simp)]
  cases u with
  | M => simp [gmapFromPandas, lookupCol]; rfl
  | cM =>
    simp [gmapFromPandas, lookupCol]
    have hid : (fun x : α => (100 : α)⁻¹ * 100 * x) = id := by
      funext x; rw [inv_mul_cancel₀ h100, one_mul]; rfl
    rw [hid, List.map_id]
    rfl

open StoreFrame in
/-- with mismatched units (the two defaults) the positions come back 100 times too large -/
theorem gmap_units_must_match :
    gmapFromPandas (gmapToPandas (⟨[1], [10], [1]⟩ : GMap Rat) .cM) .M = .ok ⟨[1], [10], [100]⟩ := by
  decide +kernel

open StoreFrame in
/-- **Coancestry matrix, wide layout.**  With taxa names present, pairwise distinct and different
    from the label column names, any square matrix is read back exactly — names, groups (an absent
    group array is a column of `None`, read as absent) and every cell. -/
theorem cmat_frame_roundtrip {α : Type} [Inhabited α] (c : CMat α) (names : List String)
    (ht : c.taxa = some names) (hn : c.mat.length = names.length)
    (hsq : ∀ r ∈ c.mat, r.length = names.length) (taxaCol : String) (taxaGrpCol : Option String)
    (hnd : (cmNames names taxaCol taxaGrpCol).Nodup) (hg : taxaGrpCol = none → c.taxa_grp = none) :
    cmFromPandas (cmToPandas c taxaCol taxaGrpCol) taxaCol taxaGrpCol = .ok c :=
  cmFromPandas_toPandas c names ht hn hsq taxaCol taxaGrpCol hnd hg

open StoreFrame in
/-- non-vacuity: an asymmetric 2 × 2 matrix with non-ASCII taxa, no groups -/
example :
    let c : CMat Rat := ⟨[[1, 2], [3, 5]], some ["tå", "βb"], none⟩
    (cmNames ["tå", "βb"] "taxa" (some "taxa_grp")).Nodup ∧
    cmFromPandas (cmToPandas c "taxa" (some "taxa_grp")) "taxa" (some "taxa_grp") = .ok c := by
  decide +kernel

open StoreFrame in
/-- **Extended genetic map.**  Over any field with 100 ≠ 0: all six columns (the optional name and
    mapping-function columns being read exactly when present) come back, positions converted with
    the same unit on both sides. -/
theorem emap_frame_roundtrip {α : Type} [Field α] (h100 : (100 : α) ≠ 0) (m : EMap α) (u : Units) :
    emapFromPandas (emapToPandas m u) u m.name.isSome m.fncode.isSome = .ok m :=
  emap_roundtrip h100 m u

open StoreFrame in
/-- **Genomic-model dictionaries** (`to_pandas_dict` / `from_pandas_dict`, any number of coefficient
    blocks — `beta`, `u_misc`, `u_a`, `u_d` — of any sizes): with trait names present and distinct
    every block and the trait names are read back exactly. -/
theorem model_dict_roundtrip {α : Type} [Inhabited α] (m : LinMod α) (l : List String)
    (ht : m.trait = some l) (hnd : l.Nodup) (hne : m.blocks ≠ [])
    (hc : ∀ kb ∈ m.blocks, ∀ r ∈ kb.2, r.length = l.length) :
    lmFromPandasDict (lmToPandasDict m l.length) (m.blocks.map (fun kb => kb.2.length)) =
      .ok (m.blocks, l.map Name.s) :=
  lmFromPandasDict_toPandasDict m l ht hnd hne hc

open StoreFrame in
/-- non-vacuity: one fixed effect, an empty miscellaneous block, two marker effects, two traits -/
example :
    let m : LinMod Rat := ⟨[("beta", [[1, 2]]), ("u_misc", []), ("u_a", [[0, 3], [2, -1]])], some ["yld", "hté"]⟩
    lmFromPandasDict (lmToPandasDict m 2) [1, 0, 2] = .ok (m.blocks, [.s "yld", .s "hté"]) := by
  decide +kernel

open StoreFrame in
/-- **Variance matrix, long layout.**  `from_pandas` rebuilds the labels with `numpy.unique`, so the
    layout is canonical in label order: for strictly increasing taxa and trait names, any n × n × t
    matrix (n, t ≥ 1) is read back exactly — every cell addressed by its row (none left NaN), names,
    groups, traits. -/
theorem vmat_frame_roundtrip {α : Type} [Inhabited α] (v : VMat α)
    (hs : v.taxa.Pairwise (· < ·)) (ht : v.trait.Pairwise (· < ·))
    (hn : 0 < v.taxa.length) (htr : 0 < v.trait.length)
    (hg : ∀ g, v.taxa_grp = some g → g.length = v.taxa.length)
    (hm1 : v.mat.length = v.taxa.length) (hm2 : ∀ pl ∈ v.mat, pl.length = v.taxa.length)
    (hm3 : ∀ pl ∈ v.mat, ∀ r ∈ pl, r.length = v.trait.length) :
    vmFromPandas (vmToPandas v v.taxa_grp.isSome) v.taxa_grp.isSome =
      .ok ⟨v.mat.map (fun pl => pl.map (fun r => r.map some)), v.taxa, v.taxa_grp, v.trait⟩ :=
  vmFromPandas_toPandas v hs ht hn htr hg hm1 hm2 hm3

open StoreFrame in
/-- with labels that are *not* in increasing order the read-back is the same labelled data in sorted
    label order (here: taxa and the two planes swapped) — why "sorted labels" is part of the
    matching conditions of this layout -/
theorem vmat_unsorted_labels_are_sorted :
    let v : VMat Rat := ⟨[[[1], [2]], [[3], [4]]], ["b", "a"], none, ["t"]⟩
    vmFromPandas (vmToPandas v false) false =
      .ok ⟨[[[some 4], [some 3]], [[some 2], [some 1]]], ["a", "b"], none, ["t"]⟩ := by
  decide +kernel

open StoreFrame in
/-- **Variance matrices with any number of parental axes, long layout** (three-way: recurrent / female /
    male, four-way: female2 / male2 / female1 / male1, and their genic twins; the two-way class is k = 2).
    The matrix is an arbitrary function of index tuples — nothing depends on memory layout.  For every
    k ≥ 1, n ≥ 1 taxa and t ≥ 1 traits with strictly increasing names, `from_pandas ∘ to_pandas` (group
    columns on both sides exactly when the matrix has groups) returns the same taxa, groups and traits, and
    every cell (i₁, …, i_k, c) holds the value written for it — none is left NaN. -/
theorem kway_vmat_frame_roundtrip {α : Type} (v : KMat α) (wg : Bool)
    (hs : v.taxa.Pairwise (· < ·)) (ht : v.trait.Pairwise (· < ·))
    (hn : 0 < v.taxa.length) (htr : 0 < v.trait.length) (hk : 0 < v.k)
    (hg : ∀ g, v.taxa_grp = some g → g.length = v.taxa.length) (hwg : wg = v.taxa_grp.isSome) :
    ∃ r, kmFromPandas v.k (kmToPandas v wg) wg = .ok r ∧ r.taxa = v.taxa ∧ r.trait = v.trait ∧
      r.taxa_grp = v.taxa_grp ∧
      ∀ ix ∈ tuples v.taxa.length v.k, ∀ c, c < v.trait.length → r.cell ix c = some (v.cell ix c) :=
  kmFromPandas_toPandas v wg hs ht hn htr hk hg hwg

open StoreFrame in
/-- non-vacuity: a three-way matrix over two taxa and two traits (16 rows); with the taxa NOT in increasing
    order the same labelled data come back in sorted label order (cell (b,a,b) of the source is cell
    (0,1,0) there and (1,0,1) here) -/
example :
    let cellOf : List Nat → Nat → Rat := fun ix c => ((ix.foldl (fun a i => 2 * a + i) 0) * 2 + c : Nat)
    let v : KMat Rat := ⟨3, ["a", "b"], some [7, 9], ["t1", "t2"], cellOf⟩
    let w : KMat Rat := ⟨3, ["b", "a"], some [7, 9], ["t1", "t2"], cellOf⟩
    (kmToPandas v true).length = 16 ∧
    okAnd (kmFromPandas 3 (kmToPandas v true) true)
      (fun r => r.taxa == ["a", "b"] && r.taxa_grp == some [7, 9] && r.cell [1, 0, 1] 1 == some 11) = true ∧
    okAnd (kmFromPandas 3 (kmToPandas w true) true)
      (fun r => r.taxa == ["a", "b"] && r.taxa_grp == some [9, 7] &&
        r.cell [1, 0, 1] 1 == some (cellOf [0, 1, 0] 1)) = true := by
  decide +kernel

open StoreFrame in
/-- **CSV text.**  Cell printing and parsing is an abstract dialect; for every dialect that keeps the
    contract `Lawful` (a printed float / int / label-safe string column is typed and parsed back to
    itself, a `None` column is written as empty cells and read as all-NA) a frame with ≥ 1 row is
    read back column by column, the column labels becoming strings. -/
theorem csv_text_roundtrip {σ α : Type} (D : Dialect σ α) (safe : String → Prop) (hD : Lawful D safe)
    (f : Frame α) (n : Nat) (hn : 0 < n) (hlen : ∀ e ∈ f, colLen e.2 = n) (hs : ∀ e ∈ f, ColSafe safe e.2) :
    csvRead D (csvWrite D f n) = f.map (fun e => (Name.s (nameText e.1), e.2)) :=
  csvRead_csvWrite D safe hD f n hn hlen hs

open StoreFrame in
/-- … hence every layout whose column labels are strings goes through `to_csv` / `from_csv`
    unchanged; e.g. the genetic map with matching units: -/
theorem gmap_csv_roundtrip {σ α : Type} [Field α] (h100 : (100 : α) ≠ 0) (D : Dialect σ α)
    (safe : String → Prop) (hD : Lawful D safe) (m : GMap α) (u : Units)
    (hn : 0 < m.chrgrp.length) (h1 : m.phypos.length = m.chrgrp.length) (h2 : m.genpos.length = m.chrgrp.length) :
    gmapFromPandas (csvRead D (csvWrite D (gmapToPandas m u) m.chrgrp.length)) u = .ok m := by
  have hf : gmapToPandas m u = [(.s "chr", .ints m.chrgrp), (.s "pos", .ints m.phypos),
      (.s "cM", .vals (match u with | .M => m.genpos | .cM => m.genpos.map (fun x => (100 : α) * x)))] := by
    unfold gmapToPandas; exact mkFrame_of_nodup _ (by simp)
  rw [csvRead_csvWrite_named D safe hD _ _ hn
    (by rw [hf]; intro e he; simp at he; rcases he with e1 | e1 | e1 <;> subst e1 <;> cases u <;> simp [colLen, h1, h2])
    (by rw [hf]; intro e he; simp at he; rcases he with e1 | e1 | e1 <;> subst e1 <;> simp [ColSafe])
    (by rw [hf]; intro e he; simp at he; rcases he with e1 | e1 | e1 <;> subst e1 <;> simp)]
  exact gmap_frame_roundtrip h100 m u

open StoreFrame in
/-- non-vacuity: the contract is consistent (a dialect with tagged cells keeps it) and a two-row
    frame with an integer-labelled column goes through it, the label coming back as the string "0" -/
example : Lawful (tagDialect Rat) (fun _ => True) ∧
    csvRead (tagDialect Rat) (csvWrite (tagDialect Rat) [(.s "taxa", .strs ["a", "b"]), (.i 0, .vals [1, 2])] 2) =
      [(.s "taxa", .strs ["a", "b"]), (.s "0", .vals [1, 2])] :=
  ⟨tagDialect_lawful Rat, by decide +kernel⟩

/-! ## VCF import -/

open StoreVcf in
/-- the variants of the imported matrix, in its order: the file's records, reordered by
    `group_vrnt` when `auto_group_vrnt` -/
def vcfVariants (recs : List Rec) (autoGroup : Bool) : List Rec :=
  if autoGroup then grouped recs else recs

open StoreVcf in
/-- **VCF import is exact.**  For every list of records with one phased diploid call per sample:
    sample names, chromosome, position and identifier of every variant are reproduced; entry
    (phase, taxon, variant) of the phased matrix is allele `phase` of that sample's call in that
    variant's record (the unphased class stores their sum); without grouping the variants keep the
    file order, with grouping they are a permutation of the records in (chromosome, position) order —
    labels and calls travel together because every per-variant array is reordered by the same
    index vector. -/
theorem vcf_import_exact (samples : List String) (recs : List Rec) (autoGroup : Bool)
    (hrect : ∀ r ∈ recs, r.calls.length = samples.length) :
    (fromVcf samples recs autoGroup).taxa = samples ∧
    (fromVcf samples recs autoGroup).chrgrp = (vcfVariants recs autoGroup).map (·.chrom) ∧
    (fromVcf samples recs autoGroup).phypos = (vcfVariants recs autoGroup).map (·.pos) ∧
    (fromVcf samples recs autoGroup).name = (vcfVariants recs autoGroup).map (·.id) ∧
    (∀ ph i j, ph < 2 → i < samples.length → j < recs.length →
      entry3 (fromVcf samples recs autoGroup).matP ph i j =
        allele (((vcfVariants recs autoGroup).getD j default).calls.getD i (0, 0)) ph) ∧
    (∀ i j, i < samples.length → j < recs.length →
      entry2 (fromVcf samples recs autoGroup).matU i j =
        (((vcfVariants recs autoGroup).getD j default).calls.getD i (0, 0)).1 +
        (((vcfVariants recs autoGroup).getD j default).calls.getD i (0, 0)).2) ∧
    (vcfVariants recs autoGroup).Perm recs ∧
    (autoGroup = true →
      (vcfVariants recs autoGroup).Pairwise (fun a b => keyLt (keyOf b) (keyOf a) = false)) ∧
    (autoGroup = false → vcfVariants recs autoGroup = recs) := by
  cases autoGroup with
  | false =>
    refine ⟨rfl, rfl, rfl, rfl, ?_, ?_, List.Perm.refl _, fun h => by simp at h, fun _ => rfl⟩
    · intro ph i j hph hi hj
      exact matPhased_entry samples.length recs hrect ph i j hph hi hj
    · intro i j hi hj
      exact matUnphased_entry samples.length recs hrect i j hi hj
  | true =>
    refine ⟨rfl, ?_, ?_, ?_, ?_, ?_, grouped_perm recs, fun _ => grouped_sorted recs, fun h => by simp at h⟩
    · show Np.take (lexsortIdx recs) (recs.map (·.chrom)) = (grouped recs).map (·.chrom)
      rw [take_map]; rfl
    · show Np.take (lexsortIdx recs) (recs.map (·.pos)) = (grouped recs).map (·.pos)
      rw [take_map]; rfl
    · show Np.take (lexsortIdx recs) (recs.map (·.id)) = (grouped recs).map (·.id)
      rw [take_map]; rfl
    · intro ph i j hph hi hj
      exact grouped_entry samples.length recs hrect ph i j hph hi hj
    · intro i j hi hj
      exact grouped_entry_unphased samples.length recs hrect i j hi hj

open StoreVcf in
/-- non-vacuity: four records on two chromosomes in non-sorted order with a tie in position,
    three samples, a tri-allelic site -/
example :
    let recs : List Rec := [⟨2, 100, "m1", [(0, 1), (1, 1), (1, 0)]⟩, ⟨1, 300, "mé2", [(2, 1), (0, 0), (0, 2)]⟩,
      ⟨1, 200, "m3", [(1, 1), (0, 1), (0, 0)]⟩, ⟨1, 200, "m4", [(0, 0), (1, 0), (1, 1)]⟩]
    (∀ r ∈ recs, r.calls.length = 3) ∧
    (fromVcf ["tå", "βb", "s 3"] recs true).name = ["m3", "m4", "mé2", "m1"] ∧
    (fromVcf ["tå", "βb", "s 3"] recs true).matP =
      [[[1, 0, 2, 0], [0, 1, 0, 1], [0, 1, 0, 1]], [[1, 0, 1, 1], [1, 0, 0, 1], [0, 1, 2, 0]]] := by
  decide +kernel

open StoreVcf in
/-- **spec_sound (VCF).**  The decidable Spec that the check evaluates on the implementation's matrix and
    labels (`c16.spec_vcf`: sample names, shapes, every variant with its chromosome, position, identifier —
    where the record has one — and column of calls; file order without grouping, a permutation with grouping:
    the property speaks of reproducing names, coordinates, identifiers and calls, not of an order) accepts the
    model's output for every file with one phased diploid call per sample, both classes, with and without
    grouping; the model's grouped output is moreover in (chromosome, position) order (`sortedOut`, compared with
    the code through model = code). -/
theorem vcf_spec_sound (samples : List String) (recs : List Rec) (hasId : List Bool) (autoGroup phased : Bool)
    (hrect : ∀ r ∈ recs, r.calls.length = samples.length) :
    specVcf samples recs hasId autoGroup phased (gotOf (fromVcf samples recs autoGroup)) = true ∧
    sortedOut recs.length (gotOf (fromVcf samples recs true)) = true :=
  ⟨specVcf_sound samples recs hasId autoGroup phased hrect, sortedOut_model samples recs⟩

open StoreVcf in
/-- … and it is not vacuous: it rejects the same import with the identifiers left in file order while the
    calls were regrouped, and a phased matrix whose two phases are swapped -/
example :
    let recs : List Rec := [⟨2, 100, "m1", [(0, 1), (1, 1)]⟩, ⟨1, 300, "m2", [(2, 1), (0, 0)]⟩]
    let good := gotOf (fromVcf ["a", "b"] recs true)
    specVcf ["a", "b"] recs [true, true] true true good = true ∧
    specVcf ["a", "b"] recs [true, true] true true { good with name := ["m1", "m2"] } = false ∧
    specVcf ["a", "b"] recs [true, true] true true { good with matP := good.matP.reverse } = false ∧
    specVcf ["a", "b"] recs [false, false] true true { good with name := ["None", "None"] } = true := by
  decide +kernel

open StoreVcf in
/-- **VCF text level.**  Decision taken from the property text: records whose identifier is missing
    (`.`) are inside the quantifier ("all VCF contents with phased diploid calls") — there is no
    identifier to reproduce, the code stores the string "None", every *present* identifier is
    reproduced exactly; chromosome names that are not integer literals are outside it, because the
    matrix stores chromosomes as an integer array: such a file is refused (`int(variant.CHROM)`
    raises) before anything is built.  Whenever every CHROM parses, the import is `fromVcf` on the
    parsed records, so `vcf_import_exact` applies to it. -/
theorem vcf_text_import (samples : List String) (raws : List RawRec) (autoGroup : Bool) :
    ((∀ r ∈ raws, r.chrom.toInt?.isSome = true) →
      fromVcfRaw samples raws autoGroup = .ok (fromVcf samples
        (raws.map (fun r => ⟨(r.chrom.toInt?).getD 0, r.pos, r.id.getD "None", r.calls⟩)) autoGroup)) ∧
    ((∃ r ∈ raws, r.chrom.toInt? = none) → fromVcfRaw samples raws autoGroup = .error .value) := by
  constructor
  · intro h
    simp [fromVcfRaw, parseRecs_ok raws h]
  · intro h
    simp [fromVcfRaw, parseRecs_err raws h]

/-! ## copies -/

open StoreCopy in
/-- **Copies compare equal to their source** (shallow and deep), and making the copy does not
    change the source. -/
theorem copy_equals_source (deep : Bool) (h : Heap) (o : HObj) (hwf : WF h o) :
    view (copyObj deep h o).1 (copyObj deep h o).2 = view h o ∧
    view (copyObj deep h o).1 o = view h o := by
  obtain ⟨c1, c2, _, _⟩ := copyObj_spec deep o h hwf
  exact ⟨c2, view_prefix c1 o hwf⟩

open StoreCopy in
/-- **spec_sound (copies).**  The oracle accepts the copy against its source, and the source after the
    copy was made against the source before. -/
theorem copy_spec_sound (deep : Bool) (h : Heap) (o : HObj) (hwf : WF h o)
    (hd : StoreSpec.DictsNodup (view h o)) :
    StoreSpec.specObj (view h o) (view (copyObj deep h o).1 (copyObj deep h o).2) = true ∧
    StoreSpec.specObj (view h o) (view (copyObj deep h o).1 o) = true := by
  obtain ⟨e1, e2⟩ := copy_equals_source deep h o hwf
  rw [e1, e2]
  exact ⟨StoreSpec.specObj_refl _ hd, StoreSpec.specObj_refl _ hd⟩

open StoreCopy in
/-- **A deep copy shares no buffer with its source**: every array it refers to — directly or
    through a nested dictionary — was allocated by the copy. -/
theorem deepcopy_shares_nothing (h : Heap) (o : HObj) (hwf : WF h o) :
    ∀ a ∈ refs (copyObj true h o).2, a ∉ refs o := by
  obtain ⟨_, _, c3, _⟩ := copyObj_spec true o h hwf
  intro a ha hao
  have h1 : h.length ≤ a := c3 rfl a ha
  have h2 : a < h.length := hwf a hao
  exact absurd h2 (Nat.not_lt.mpr h1)

open StoreCopy in
/-- **Mutating a deep copy never shows in the source**: after any sequence of in-place writes
    to buffers of the copy the source is observably what it was. -/
theorem deepcopy_independent (h : Heap) (o : HObj) (hwf : WF h o) (ps : List (Addr × DS))
    (hps : ∀ p ∈ ps, p.1 ∈ refs (copyObj true h o).2) :
    view (pokes (copyObj true h o).1 ps) o = view h o := by
  obtain ⟨c1, _, _, _⟩ := copyObj_spec true o h hwf
  rw [view_pokes o ps _ (fun p hp => ?_)]
  · exact view_prefix c1 o hwf
  · intro hmem
    exact deepcopy_shares_nothing h o hwf p.1 (hps p hp) hmem

open StoreCopy in
/-- … and mutating the source never shows in the deep copy. -/
theorem deepcopy_independent_of_source (h : Heap) (o : HObj) (hwf : WF h o) (ps : List (Addr × DS))
    (hps : ∀ p ∈ ps, p.1 ∈ refs o) :
    view (pokes (copyObj true h o).1 ps) (copyObj true h o).2 = view h o := by
  obtain ⟨_, c2, _, _⟩ := copyObj_spec true o h hwf
  rw [view_pokes _ ps _ (fun p hp hmem => deepcopy_shares_nothing h o hwf p.1 hmem (hps p hp))]
  exact c2

open StoreCopy in
/-- **What a shallow copy shares.**  `__copy__` rebuilds the object from `copy.copy` of every field;
    `copy.copy` of a numpy array allocates a fresh buffer, `copy.copy` of a dictionary makes a new
    dictionary holding the same values.  Hence a shallow copy and its source have in common EXACTLY the
    arrays that sit inside a dictionary-valued field (`hyperparams`) — every array attribute of the copy
    itself is a buffer of its own. -/
theorem shallow_copy_shares_exactly_dict_arrays (h : Heap) (o : HObj) (hwf : WF h o) (a : Addr) :
    (a ∈ refs (copyObj false h o).2 ∧ a ∈ refs o) ↔ a ∈ dictRefs o := by
  constructor
  · rintro ⟨h1, h2⟩
    rcases shallow_refs o h a h1 with i | i
    · exact i
    · exact absurd (hwf a h2) (Nat.not_lt.mpr i)
  · intro ha
    exact ⟨dictRefs_in_shallow o h a ha, dictRefs_sub_refs o a ha⟩

open StoreCopy in
/-- non-vacuity: a genomic model with a nested dictionary laid out on a heap is well formed, its
    deep copy is equal, and poking all of the copy's buffers leaves the source alone; a *shallow*
    copy, by contrast, shares the arrays inside `hyperparams` (that is what "shallow" means). -/
example :
    let o : Obj := Ex.mkObj algSchema
      [("beta", Ex.f64 [1, 2] [1, 2]), ("u_a", Ex.f64 [2, 2] [0, 3, 2, -1]),
       ("hyperparams", .dict [("k", some (mkInt 5)), ("wts", some ⟨.f64, [2], [], [1, 2], []⟩)])]
    let ho := allocObj [] o
    (∀ a ∈ refs ho.2, a < ho.1.length) ∧ view ho.1 ho.2 = o ∧
    view (copyObj true ho.1 ho.2).1 (copyObj true ho.1 ho.2).2 = o ∧
    (refs (copyObj true ho.1 ho.2).2).all (fun a => !(refs ho.2).contains a) = true ∧
    (refs (copyObj false ho.1 ho.2).2).any (fun a => (refs ho.2).contains a) = true := by
  decide +kernel

open StoreCopy in
/-- **Copies after any history.**  One live object; copies (shallow or deep, in any mix) are taken at any
    time and any buffer of the heap — of the source, of any earlier copy — is overwritten in place in
    between.  The copy taken NEXT is observably equal to the source as it is at that moment, taking it
    leaves the source and every earlier copy as they are, and a deep copy refers to no buffer of the source
    nor of any copy taken before (so it is never an earlier copy handed out again). -/
theorem copy_after_any_history (s : CState) (hs : CInv s) (ops : List COp) (deep : Bool) :
    view (copyObj deep (runC s ops).heap (runC s ops).src).1 (copyObj deep (runC s ops).heap (runC s ops).src).2
      = view (runC s ops).heap (runC s ops).src ∧
    view (copyObj deep (runC s ops).heap (runC s ops).src).1 (runC s ops).src
      = view (runC s ops).heap (runC s ops).src ∧
    (∀ c ∈ (runC s ops).copies,
      view (copyObj deep (runC s ops).heap (runC s ops).src).1 c = view (runC s ops).heap c) ∧
    (deep = true → ∀ a ∈ refs (copyObj deep (runC s ops).heap (runC s ops).src).2,
      a ∉ refs (runC s ops).src ∧ ∀ c ∈ (runC s ops).copies, a ∉ refs c) := by
  obtain ⟨h1, h2⟩ := CInv_run ops s hs
  obtain ⟨c1, c2, c3, _⟩ := copyObj_spec deep (runC s ops).src (runC s ops).heap h1
  refine ⟨c2, view_prefix c1 _ h1, fun c hc => view_prefix c1 c (h2 c hc), ?_⟩
  intro hd a ha
  have hge : (runC s ops).heap.length ≤ a := c3 hd a ha
  refine ⟨fun hm => absurd (h1 a hm) (Nat.not_lt.mpr hge), fun c hc hm => absurd (h2 c hc a hm) (Nat.not_lt.mpr hge)⟩

open StoreCopy in
/-- … and every deep copy of the history stays what it was when it was taken, whatever is written afterwards to
    buffers it does not own: a write to a buffer of the source (or of another deep copy) never shows in it. -/
theorem copy_history_write_elsewhere (s : CState) (a : Addr) (d : DS) (c : HObj) (hc : a ∉ refs c) :
    view (stepC s (.write a d)).heap c = view s.heap c := by
  simpa [stepC] using view_poke (h := s.heap) (a := a) (d := d) c hc

open StoreCopy in
/-- non-vacuity, and the history of the method form called twice: deep copy, the copy's matrix overwritten, the
    source's matrix overwritten, deep copy again — the second copy equals the source as it is NOW (not the first
    copy), and the first copy kept its own contents. -/
example :
    let d (x : Rat) : DS := ⟨.f64, [1, 1], [], [x], []⟩
    let o : Obj := Ex.mkObj cmatSchema [("mat", .data (d 3)), ("taxa", Ex.strs ["tå"])]
    let ho := allocObj [] o
    let s0 : CState := ⟨ho.1, ho.2, []⟩
    let s1 := runC s0 [.copy true]
    let s2 := runC s1 [.write 2 (d 7), .write 0 (d 5), .copy true]
    (∀ a ∈ refs s0.src, a < s0.heap.length) ∧ (s1.copies.head!.lookup "mat") = some (.ref 2) ∧
    s2.copies.map (fun c => viewV s2.heap ((c.lookup "mat").getD .none)) = [.data (d 7), .data (d 5)] ∧
    viewV s2.heap ((s2.src.lookup "mat").getD .none) = .data (d 5) := by
  decide +kernel

/-! ## copies of object graphs: `copy.deepcopy` inside the model -/

open StoreGraph in
/-- **`copy.deepcopy(x)`** as Python runs it with the classes' `__deepcopy__` methods (memo,
    dictionaries, nested instances such as the genomic model bound to a phenotyping protocol,
    attributes copied without memo, the random source shared on purpose), on any acyclic heap:
    the source heap is only extended; the copy views exactly as the source; every cell the copy can
    reach through its state is fresh or an external resource (the random source) — so they share no
    mutable state —; and overwriting any cell outside the source heap (an array of the copy, one of
    its dictionaries, the copy itself) never shows in the source. -/
theorem deepcopy_graph (h : Heap) (root : Ref) (hwf : WF h) (hr : RefIn h root) :
    DeepCopied h root (deepcopyRoot h root) :=
  deepcopyRoot_spec h root hwf hr

open StoreGraph in
/-- **`x.deepcopy()`** — for the classes that implement it as `self.__deepcopy__(None)` every
    attribute is copied with a memo of its own (aliasing between attributes is not carried over), for
    the others it is `copy.deepcopy(self)`: the same guarantees -/
theorem deepcopy_method_graph (h : Heap) (a : Nat) (cls : String) (attrs : List (String × Ref))
    (hwf : WF h) (ha : a < h.length) (hc : h[a] = .obj cls attrs) :
    DeepCopied h (.ptr a) (deepcopyMethod h (.ptr a)) :=
  deepcopyMethod_spec h a cls attrs hwf ha hc

open StoreGraph in
/-- non-vacuity and the memo at work: a breeding-value matrix whose `location` and `scale` are one
    buffer (cell 1) and whose `taxa_grp_name` / `taxa_grp_len` are one buffer (cell 2).  The heap is
    acyclic (`wfB`, which implies the hypothesis `WF` by `wf_of_wfB`); the deep copy keeps the second aliasing (memo) and splits the first (`location` and
    `scale` are copied without memo) -/
example :
    let h : Heap := [.arr ⟨.f64, [1, 1], [], [3], []⟩, .arr ⟨.f64, [1], [], [2], []⟩, .arr ⟨.i64, [1], [1], [], []⟩,
      .obj "bvmat" [("mat", .ptr 0), ("location", .ptr 1), ("scale", .ptr 1), ("taxa", .none),
                    ("taxa_grp_name", .ptr 2), ("taxa_grp_len", .ptr 2)]]
    wfB h = true ∧
    (deepcopyRoot h (.ptr 3)).2 = .ptr 8 ∧
    (deepcopyRoot h (.ptr 3)).1.getD 8 default =
      .obj "bvmat" [("mat", .ptr 4), ("location", .ptr 5), ("scale", .ptr 6), ("taxa", .none),
                    ("taxa_grp_name", .ptr 7), ("taxa_grp_len", .ptr 7)] := by
  decide +kernel

end C16
