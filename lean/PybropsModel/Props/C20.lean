/-
C20 — the breeding-programme loop applies operators in order on independent replicates.
Property theorems only (helper lemmas: Lemmas/ProgramBasic, ProgramSteps, ProgramLoop, ProgramEvolve).

Model: PybropsModel/Model/Program.lean — statement language + heap semantics of
`RecurrentSelectionBreedingProgram.reset/advance/evolve`; the statement lists of the *current*
source are regenerated on every run into Generated/C20Schedule.lean.

Reading guide.
* `evolve ops cfg sc st` runs `evolve(nrep, ngen, lbook, loginit)` of schedule `sc` from programme
  state `st` with operators `ops` (arbitrary functions with internal state `σ` on a heap of cells
  with arbitrary contents `V`).  The semantics records what every call was handed and returned.
* `Ready ops st` : the state `evolve` is called in (five start slots holding valid references or
  `None`; if one is `None` the initialisation operator returns five valid containers; working
  variables left from earlier calls are not start containers).
* `Respects S ops` : the only assumption on operators and logbook — a call that is not handed one
  of the stored start containers `S` neither modifies nor returns one.  In-place mutation of
  whatever is or was handed, allocation, aliasing, history dependence are all allowed.
* `specTrace R nrep ngen loginit V0 trace` : the decidable Spec (also run on the trace of the real
  class): per replicate one evaluation at time 0 of containers whose contents equal the initial
  state, its log entry, then per generation pselect·log·mate·log·evaluate·log·sselect·log at times
  1, 2, …, every call receiving (relation `R`) what its predecessor returned, the start containers
  holding their initial contents at every call, nothing else in the trace.
-/
import PybropsModel.Lemmas.ProgramDemo
import PybropsModel.Generated.C20Schedule
set_option autoImplicit false
set_option linter.unusedSectionVars false

namespace C20
open Program

/-- **The obligation that follows the source.**  The call skeleton regenerated from the current
    `RecurrentSelectionBreedingProgram.py` is, up to `if verbose: print(...)`, the canonical one. -/
theorem schedule_wellformed : WellFormed C20Schedule.evolve = true := by decide

section generic
variable {σ V : Type} [DecidableEq V]

/-- the events recorded by one call -/
def newEvents (st st' : State σ V) : List (Event V) := st'.trace.drop st.trace.length

/-- **Main theorem (full strength).**  For every well-formed schedule, all replicate and generation
    counts, both settings of `loginit`, all operator / logbook / initialisation implementations that
    respect the stored start containers, all heaps and all initial states: the trace of `evolve`
    satisfies the Spec — call order, one initial evaluation per replicate on a state equal to the
    initial one, clock 0 then 1, 2, …, each call handed what its predecessor returned, a log entry
    after every step, start containers holding their initial contents at every call.
    `R` may be any relation that holds between items with the same reference: `sameRef` gives
    identity wiring, `sameOrEqual` is the relation the run-time oracle uses. -/
theorem evolve_meets_spec (sc : Schedule) (hwf : WellFormed sc = true) (ops : Ops σ V) (cfg : Cfg V)
    (st : State σ V) (hr : Ready ops st) (hR : Respects (startRefs ops st) ops)
    (R : Item V → Item V → Bool) (hRR : ReflOnRefs R) :
    specTrace R cfg.nrep cfg.ngen cfg.loginit (startVals st.heap st.start)
      (newEvents st (evolve ops cfg sc st)) = true := by
  rw [evolve_of_wellFormed sc hwf]
  obtain ⟨s', es0, es1, V0, q, _, tr, _, _, _, _, _, spec, _⟩ := evolve_canonical (cfg := cfg) hr hR
  rw [q]
  unfold newEvents
  rw [tr, List.drop_left']
  · exact spec R hRR
  · rfl

/-- earlier log of calls is never rewritten: the trace only grows -/
theorem evolve_trace_extends (sc : Schedule) (hwf : WellFormed sc = true) (ops : Ops σ V) (cfg : Cfg V)
    (st : State σ V) (hr : Ready ops st) (hR : Respects (startRefs ops st) ops) :
    (evolve ops cfg sc st).trace = st.trace ++ newEvents st (evolve ops cfg sc st) := by
  rw [evolve_of_wellFormed sc hwf]
  obtain ⟨s', es0, es1, V0, q, _, tr, _⟩ := evolve_canonical (cfg := cfg) hr hR
  rw [q]
  unfold newEvents
  rw [tr, List.drop_left' rfl]

/-- **The stored initial state is never modified, and the run does not crash.**  After `evolve`
    the programme has not raised, the start slots hold the same references as after initialisation,
    and — when the programme was initialised by the caller — the same slots with the same contents
    as before the call, whatever the operators did to their working copies. -/
theorem evolve_start_intact (sc : Schedule) (hwf : WellFormed sc = true) (ops : Ops σ V) (cfg : Cfg V)
    (st : State σ V) (hr : Ready ops st) (hR : Respects (startRefs ops st) ops) :
    (evolve ops cfg sc st).bad = false ∧
    (evolve ops cfg sc st).start = (startRefs ops st).map some ∧
    (st.start.all Option.isSome = true →
      (evolve ops cfg sc st).start = st.start ∧
      startVals (evolve ops cfg sc st).heap (evolve ops cfg sc st).start = startVals st.heap st.start) := by
  rw [evolve_of_wellFormed sc hwf]
  obtain ⟨s', es0, es1, V0, q, g, _, _, hinit, _⟩ := evolve_canonical (cfg := cfg) hr hR
  rw [q]
  refine ⟨g.nbad, g.start, ?_⟩
  intro hall
  obtain ⟨_, hv⟩ := hinit hall
  refine ⟨?_, by rw [g.startVals, hv]⟩
  rw [g.start]
  have : startRefs ops st = st.start.filterMap id := by simp [startRefs, hall]
  rw [this]
  exact (all_isSome_eq _ hall).symm

/-- when `evolve` had to initialise the programme, the start containers end with exactly the
    contents the initialisation operator returned -/
theorem evolve_start_intact_after_init (sc : Schedule) (hwf : WellFormed sc = true) (ops : Ops σ V)
    (cfg : Cfg V) (st : State σ V) (hr : Ready ops st) (hR : Respects (startRefs ops st) ops)
    (hnone : st.start.all Option.isSome = false) :
    startVals (evolve ops cfg sc st).heap (evolve ops cfg sc st).start =
      vals (ops.init st.ost st.heap).2.1 (ops.init st.ost st.heap).2.2 := by
  rw [evolve_of_wellFormed sc hwf]
  obtain ⟨s', es0, es1, V0, q, g, _, _, _, hinit, _⟩ := evolve_canonical (cfg := cfg) hr hR
  obtain ⟨_, hv⟩ := hinit hnone
  rw [q, g.startVals, ← hv]
  rfl

/-- **Replicate counter.**  `lbook.rep` grows by one per replicate and every call of replicate `r`
    (0-based) sees `rep₀ + r + 1`. -/
theorem evolve_replicate_counter (sc : Schedule) (hwf : WellFormed sc = true) (ops : Ops σ V) (cfg : Cfg V)
    (st : State σ V) (hr : Ready ops st) (hR : Respects (startRefs ops st) ops) :
    (evolve ops cfg sc st).rep = st.rep + cfg.nrep ∧
    ((newEvents st (evolve ops cfg sc st)).filter (fun e => !(e.kind == EvKind.init))).map (fun e => e.rep)
      = repsOf st.rep cfg.loginit cfg.ngen cfg.nrep := by
  rw [evolve_of_wellFormed sc hwf]
  obtain ⟨s', es0, es1, V0, q, _, tr, rp, h1, h2, reps, _, _, hk⟩ := evolve_canonical (cfg := cfg) hr hR
  rw [q]
  refine ⟨rp, ?_⟩
  unfold newEvents
  rw [tr, List.drop_left' rfl, List.filter_append]
  have e0 : es0.filter (fun e => !(e.kind == EvKind.init)) = [] := by
    cases hall : st.start.all Option.isSome with
    | true => rw [(h1 hall).1]; rfl
    | false =>
      rw [(h2 hall).1]; simp [initEvent]
  have e1 : es1.filter (fun e => !(e.kind == EvKind.init)) = es1 := by
    apply List.filter_eq_self.mpr
    intro e he
    simp [hk e he]
  rw [e0, e1, List.nil_append, reps]

/-- **`evolve` can be called again.**  The state it leaves satisfies the assumptions under which it
    was called, with the same start containers — so all theorems above hold for every later call. -/
theorem evolve_again (sc : Schedule) (hwf : WellFormed sc = true) (ops : Ops σ V) (cfg : Cfg V)
    (st : State σ V) (hr : Ready ops st) (hR : Respects (startRefs ops st) ops) :
    Ready ops (evolve ops cfg sc st) ∧ startRefs ops (evolve ops cfg sc st) = startRefs ops st := by
  rw [evolve_of_wellFormed sc hwf]
  obtain ⟨s', es0, es1, V0, q, g, _⟩ := evolve_canonical (cfg := cfg) hr hR
  obtain ⟨s1, _, _, _, _, _, _, hS, _⟩ := pre_spec (cfg := cfg) hr
  rw [q]
  exact g.ready hS

/-- the classical frame condition ("operators and logbook mutate only what they are handed, and
    allocate") is sufficient: it implies `Respects` for any start containers -/
theorem evolve_meets_spec_of_frame (sc : Schedule) (hwf : WellFormed sc = true) (ops : Ops σ V)
    (cfg : Cfg V) (st : State σ V) (hr : Ready ops st) (hF : Frame ops) :
    specTrace sameRef cfg.nrep cfg.ngen cfg.loginit (startVals st.heap st.start)
      (newEvents st (evolve ops cfg sc st)) = true :=
  evolve_meets_spec sc hwf ops cfg st hr (hF.respects _) sameRef sameRef_refl

/-- **Instance for the current source**: the schedule regenerated from `/repo` satisfies the Spec
    (identity wiring) for all operators, counts and initial states. -/
theorem current_source_meets_spec (ops : Ops σ V) (cfg : Cfg V) (st : State σ V) (hr : Ready ops st)
    (hR : Respects (startRefs ops st) ops) :
    specTrace sameRef cfg.nrep cfg.ngen cfg.loginit (startVals st.heap st.start)
      (newEvents st (evolve ops cfg C20Schedule.evolve st)) = true ∧
    (evolve ops cfg C20Schedule.evolve st).bad = false ∧
    (evolve ops cfg C20Schedule.evolve st).start = (startRefs ops st).map some :=
  ⟨evolve_meets_spec _ schedule_wellformed ops cfg st hr hR sameRef sameRef_refl,
   (evolve_start_intact _ schedule_wellformed ops cfg st hr hR).1,
   (evolve_start_intact _ schedule_wellformed ops cfg st hr hR).2.1⟩

/-- **Explicit call sequence.**  Apart from the optional initialisation event the recorded
    (call, clock) pairs are exactly
    `(evaluate@0 · [log_initialize@0 if loginit] · (pselect·log·mate·log·evaluate·log·sselect·log)@g for g = 1..ngen)^nrep`:
    every operator exactly once per generation, in this order, a log entry after every step. -/
theorem evolve_call_sequence (sc : Schedule) (hwf : WellFormed sc = true) (ops : Ops σ V) (cfg : Cfg V)
    (st : State σ V) (hr : Ready ops st) (hR : Respects (startRefs ops st) ops) :
    ((newEvents st (evolve ops cfg sc st)).filter (fun e => !(e.kind == EvKind.init))).map Event.shape
      = traceShape cfg.loginit cfg.ngen cfg.nrep := by
  rw [evolve_of_wellFormed sc hwf]
  obtain ⟨s', es0, es1, V0, q, _, tr, _, h1, h2, _, chk, _, hk⟩ := evolve_canonical (cfg := cfg) hr hR
  rw [q]
  unfold newEvents
  rw [tr, List.drop_left' rfl, List.filter_append]
  have e0 : es0.filter (fun e => !(e.kind == EvKind.init)) = [] := by
    cases hall : st.start.all Option.isSome with
    | true => rw [(h1 hall).1]; rfl
    | false => rw [(h2 hall).1]; simp [initEvent]
  have e1 : es1.filter (fun e => !(e.kind == EvKind.init)) = es1 := by
    apply List.filter_eq_self.mpr
    intro e he
    simp [hk e he]
  rw [e0, e1, List.nil_append]
  obtain ⟨pre, hpre, hshape⟩ := checkReps_shape sameRef V0 cfg.loginit cfg.ngen cfg.nrep es1 []
    (chk sameRef sameRef_refl)
  rw [List.append_nil] at hpre
  rw [hpre, hshape]

/-- **`reset()`** (anchored mechanism 1): from any state satisfying the invariant, the five working
    variables afterwards refer to valid cells that are none of the start containers, their contents
    equal the initial state, the clock is 0, nothing is logged and the invariant still holds. -/
theorem reset_restores_start (sc : Schedule) (hwf : WellFormed sc = true) (ops : Ops σ V) (cfg : Cfg V)
    (S : List Ref) (V0 : List (Option V)) (hS : S.length = 5) (st : State σ V) (g : Good S V0 st) :
    ∃ cur : List Ref, cur.length = 5 ∧
      five.map (execR ops cfg sc .callReset st).regs = cur.map some ∧
      vals (execR ops cfg sc .callReset st).heap cur = V0 ∧
      (∀ a ∈ cur, a < (execR ops cfg sc .callReset st).heap.length ∧ a ∉ S) ∧
      (execR ops cfg sc .callReset st).t = 0 ∧
      (execR ops cfg sc .callReset st).trace = st.trace ∧
      Good S V0 (execR ops cfg sc .callReset st) := by
  have hsc : sc.strip = canonical := by simpa [WellFormed] using hwf
  rw [← execR_strip, hsc]
  have : execR ops cfg canonical .callReset st = execList (execS ops cfg) canonical.reset st := by
    simp [execR, g.nbad]
  rw [this]
  obtain ⟨s', cur, q, g', tr, t0, _, f, l, hv⟩ := reset_spec (ops := ops) (cfg := cfg) hS g
  rw [q]
  refine ⟨cur, l, f, hv, ?_, t0, tr, g'⟩
  intro a ha
  have : some a ∈ five.map s'.regs := by rw [f]; exact List.mem_map.mpr ⟨a, ha, rfl⟩
  obtain ⟨r, _, hr⟩ := List.mem_map.mp this
  exact g'.regs r a hr

/-- **`advance(ngen)`** (anchored mechanism 2): from any state satisfying the invariant whose five
    working variables are set, `advance` records exactly `ngen` generations
    pselect·log·mate·log·evaluate·log·sselect·log at clock values `t, t+1, …`, every call handed what
    its predecessor returned, and leaves the clock at `t + ngen`. -/
theorem advance_meets_spec (sc : Schedule) (hwf : WellFormed sc = true) (ops : Ops σ V) (cfg : Cfg V)
    (S : List Ref) (V0 : List (Option V)) (hR : Respects S ops) (st : State σ V) (g : Good S V0 st)
    (cur : List Ref) (hcur : five.map st.regs = cur.map some) (hl : cur.length = 5) :
    ∃ es : List (Event V), (advance ops cfg sc st).trace = st.trace ++ es ∧
      (advance ops cfg sc st).t = st.t + cfg.ngen ∧ Good S V0 (advance ops cfg sc st) ∧
      ∀ (R : Item V → Item V → Bool), ReflOnRefs R → ∀ given : List (Item V), given.map Prod.fst = cur →
        checkGens R V0 cfg.ngen st.t given es = some [] := by
  have hsc : sc.strip = canonical := by simpa [WellFormed] using hwf
  rw [← advance_strip, hsc]
  have : advance ops cfg canonical st =
      iter (execList (execR ops cfg canonical) canonical.advanceGen) cfg.ngen st := by
    simp [advance, canonical, execList]
  rw [this]
  obtain ⟨s', es, q, g', tr, t', _, _, _, chk⟩ := gens_spec (cfg := cfg) hR cfg.ngen g cur hcur hl
  rw [q]
  refine ⟨es, tr, t', g', ?_⟩
  intro R hRR given hg
  have := chk R hRR given [] hg
  rwa [List.append_nil] at this

end generic

/-! ### non-vacuity: concrete operators, states and runs -/
section examples
open Program.Demo

/-- an operator family that mutates handed containers in place, allocates and aliases satisfies
    the hypothesis of the theorems, for any start containers -/
example (S : List Ref) : Respects S demoOps := demo_respects S

/-- a caller-initialised programme and a programme with a missing start container satisfy `Ready` -/
example : Ready demoOps given := given_ready demoOps
example : Ready demoOps partly := partly_ready

/-- the invariant assumed by `reset_restores_start` / `advance_meets_spec` holds of a concrete state;
    after `reset` the hypothesis of `advance_meets_spec` (five working variables set) holds too -/
example : Good [0, 1, 2, 3, 4] [some 10, some 20, some 30, some 40, some 50] given := given_good
example : five.map (execR demoOps ⟨1, 1, 9, true, 0⟩ C20Schedule.evolve .callReset given).regs
    = [5, 6, 7, 8, 9].map some := by decide +kernel

/-- the hypotheses of `evolve_meets_spec` are met by a non-trivial instance (3 replicates,
    2 generations, in-place mutating operators, the schedule of the current source) -/
example : specTrace sameRef 3 2 true (startVals given.heap given.start)
    (newEvents given (evolve demoOps ⟨3, 2, 9, true, 0⟩ C20Schedule.evolve given)) = true :=
  evolve_meets_spec _ schedule_wellformed demoOps ⟨3, 2, 9, true, 0⟩ given (given_ready _)
    (demo_respects _) sameRef sameRef_refl

/-- the same conclusion obtained by running the model (the Spec is executable): 2 replicates,
    2 generations, 36 recorded calls -/
example : specTrace sameRef 2 2 true (startVals given.heap given.start)
    (evolve demoOps ⟨2, 2, 9, true, 0⟩ C20Schedule.evolve given).trace = true := by decide +kernel

example : (evolve demoOps ⟨2, 2, 9, true, 0⟩ C20Schedule.evolve given).trace.length = 36 := by decide +kernel

/-- … and for the programme that `evolve` has to initialise first (one more event) -/
example : specTrace sameOrEqual 2 1 false (startVals partly.heap partly.start)
    (evolve demoOps ⟨2, 1, 9, false, 0⟩ C20Schedule.evolve partly).trace = true := by decide +kernel

/-- the operators of the example really mutate their working copies: after the run the heap has
    grown and the first working copy differs from the start container it was copied from, while the
    start containers are untouched -/
example : (evolve demoOps ⟨2, 2, 9, true, 0⟩ C20Schedule.evolve given).heap.take 6 = [10, 20, 30, 40, 50, 17] := by
  decide +kernel

/-- the Spec is not vacuous: it rejects the trace of a schedule whose `advance` forgets the clock … -/
example : specTrace sameOrEqual 2 2 true (startVals given.heap given.start)
    (evolve demoOps ⟨2, 2, 9, true, 0⟩
      { canonical with advanceGen := canonical.advanceGen.filter (fun s => decide (s ≠ Stmt.tick)) } given).trace
    = false := by decide +kernel

/-- … and the trace of a schedule whose `reset` copies the wrong start container -/
example : specTrace sameOrEqual 2 1 true (startVals given.heap given.start)
    (evolve demoOps ⟨2, 1, 9, true, 0⟩
      { canonical with reset := [.copyStart .genome 0, .copyStart .geno 1, .copyStart .pheno 2,
                                 .copyStart .bval 2, .copyStart .gmod 4, .resetT] } given).trace
    = false := by decide +kernel

end examples

/-- **The frame condition cannot be dropped.**  An operator that overwrites a stored start
    container it was never handed (`rogueOps` writes cell 0) violates `Respects`, and the run
    violates the Spec: the initial state is modified and later replicates start from it. -/
theorem frame_condition_necessary :
    ¬ Respects [0, 1, 2, 3, 4] Program.Demo.rogueOps ∧
    specTrace sameOrEqual 2 1 true (startVals Program.Demo.given.heap Program.Demo.given.start)
      (evolve Program.Demo.rogueOps ⟨2, 1, 9, true, 0⟩ C20Schedule.evolve Program.Demo.given).trace = false := by
  constructor
  · intro h
    have := (h.op .evaluate () [10, 20, 30, 40, 50, 10] [5] 0 0 (by decide) (by decide)).2.1 0 (by decide)
    revert this
    decide +kernel
  · decide +kernel

end C20
