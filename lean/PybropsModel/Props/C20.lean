/-
C20 — the breeding-programme loop applies operators in order on independent replicates.
Property theorems only (helper lemmas: Lemmas/Program*.lean).

Model: PybropsModel/Model/Program.lean — statement language + heap semantics of
`RecurrentSelectionBreedingProgram.reset/advance/evolve`; the statement lists of the *current*
source are regenerated on every run into Generated/C20Schedule.lean (one Lean statement per Python
statement, nothing normalised).  Model/ProgramSym.lean — `WellFormed`, a dataflow analysis of a
schedule by symbolic execution.

Reading guide.
* The heap is an object graph: cells hold data and references to other cells (sharing and cycles
  allowed).  `copy.deepcopy` is modelled on it (`deepCopyAll`: every cell that existed at
  initialisation is copied, internal references redirected — the part below the copied root is an
  isomorphic, disjoint graph).  What a call is handed is observed as `view`, the depth-bounded
  unfolding of the graph below a reference; all theorems hold for every depth.
* `evolve ops cfg sc st` runs `evolve(nrep, ngen, lbook, loginit)` of schedule `sc` from programme
  state `st` with operators `ops` (arbitrary functions with internal state `σ` on the heap).  The
  semantics records what every call was handed and returned.
* `WellFormed sc` : the dataflow of `sc` is the one the property describes — every operator once per
  generation, in order, each handed (by whatever variable names, keyword order, intermediate moves)
  what its predecessor returned, a log call after each, the clock read at its entry value and
  incremented once; per replicate one evaluation at clock 0 of pristine deep copies of the five
  start containers (copied in any order, the clock zeroed anywhere before).  Proved sound
  (Lemmas/ProgramSymSound.lean); closed by `decide` for the schedule of the current source.
* `Ready I ops st` : the state `evolve` is called in (five start slots; once initialised — by the caller
  or by the initialisation operator — the object graphs below the start containers exist, are not
  referenced from outside, the heap is well formed; leftover working variables point elsewhere; the
  operators' internal state satisfies the invariant `I`).
* `Respects I S ops` : the only assumption on operators and logbook, over reachability and relative to
  an invariant `I` between their internal state and the heap — in a state satisfying `I`, a call that
  is not handed anything inside the object graphs of the start containers `S` leaves those graphs
  alone, stores no reference into them, returns nothing inside them, and re-establishes `I`.
  `Frame ops` (mutate only what is reachable from the arguments, allocate; `I` = nothing is kept) and
  `Footprint known ops` (mutate anything reachable from the arguments or from anything EVER handed /
  returned / allocated and kept in the internal state; `I` = nothing kept lies inside the start graphs)
  both imply it.  The scripted operators the correspondence driver runs satisfy `Footprint`.
* `effNgen sc cfg = some n` : the generation count the call works with — the argument `ngen`, or
  `t_max` for `ngen = None` when the schedule implements that documented default (`HandlesNone`).
* `specTrace R nrep n loginit V0 trace` : the decidable Spec (also run on the trace of the real class);
  `specFull` adds the replicate-counter clause; `spec_iff` states both declaratively (`TraceSpec`).
* `levelCopyStart dst i k` : a copy that stops `k` levels down; `shallow_level_counterexample`.
* `specEvolveCall` / `specResetCall` / `specAdvanceCall` (Model/ProgramOracle.lean) : the COMPLETE Bool oracles
  the driver evaluates on what was recorded from the real class, one per kind of API call — `specFull` plus
  the initialisation clause (`initOK`: the initialisation operator runs only when a start container is
  missing; an EMPTY container `{}` is a given container), the start containers after the call, the logbook's
  counter and the clock the call leaves behind.  `*_meets_call_spec` are their `spec_sound` theorems,
  `call_spec_iff` says what they mean.
* numpy arrays of dtype=object (cells `[-4]` whose references are the elements) are ordinary cells: all theorems
  cover start containers holding them; `object_array_shallow_copy_counterexample` shows `ndarray.copy()` of a
  top-level object array (= `levelCopy 2`) is not enough.
* `CallX`, `stepX` : histories that also re-assign `t_cur` / `t_max`, hand over another logbook, or do things
  that must not matter (`history_with_reassignment_meets_spec`).
-/
import PybropsModel.Lemmas.ProgramKeep
import PybropsModel.Lemmas.ProgramReps
import PybropsModel.Lemmas.ProgramSpecIff
import PybropsModel.Lemmas.ProgramScripted
import PybropsModel.Lemmas.ProgramHistory
import PybropsModel.Lemmas.ProgramEmptyDemo
import PybropsModel.Lemmas.ProgramObjArr
import PybropsModel.Generated.C20Schedule
set_option autoImplicit false
set_option linter.unusedSectionVars false

namespace C20
open Program

/-- **The obligations that follow the source.**  The dataflow of the schedule regenerated from the
    current `RecurrentSelectionBreedingProgram.py` is the one the property describes … -/
theorem schedule_wellformed : WellFormed C20Schedule.evolve = true := by decide

/-- … its `reset()` on its own re-creates the five working containers and zeroes the clock … -/
theorem schedule_reset_selfcontained : wfReset C20Schedule.evolve = true := by decide

/-- … and `evolve` gives `ngen = None` its documented default (`t_max`) before the replicate loop
    (repaired by 89fb67b3; this obligation breaks if the default handling disappears). -/
theorem schedule_handles_none : HandlesNone C20Schedule.evolve = true := by decide

section generic
variable {σ V : Type} [DecidableEq V] {I : σ → Heap (Cell V) → Prop}

/-- **Main theorem (full strength).**  For every schedule with the right dataflow, all replicate
    and generation counts (`None` included when the schedule implements its default), both settings
    of `loginit`, all operator / logbook / initialisation implementations that respect the stored
    start containers, all heaps and all initial states: the trace of `evolve` satisfies the Spec —
    call order, one initial evaluation per replicate on a state equal to the initial one, clock 0
    then 1, 2, …, each call handed what its predecessor returned, a log entry after every step,
    start containers holding their initial contents at every call.
    `R` may be any relation that holds between items with the same reference: `sameRef` gives
    identity wiring, `sameOrEqual` is the relation the run-time oracle uses. -/
theorem evolve_meets_spec (sc : Schedule) (hwf : WellFormed sc = true) (ops : Ops σ V) (cfg : Cfg V)
    (st : State σ V) (hr : Ready I ops st) (hR : Respects I (startRefs ops st) ops)
    (n : Nat) (hn : effNgen sc cfg = some n)
    (R : Item (View V) → Item (View V) → Bool) (hRR : ReflOnRefs R) :
    specTrace R cfg.nrep n cfg.loginit (startVals cfg.depth st.heap st.start)
      (newEvents st (evolve ops cfg sc st)) = true := by
  obtain ⟨s', es0, es1, V0, q, _, tr, _, _, _, _, _, spec, _⟩ := evolve_wf (cfg := cfg) sc hwf hr hR n hn
  rw [q, newEvents_of_append tr]
  exact spec R hRR

/-- **The complete run-time oracle is sound for the model** (`spec_sound`): besides the call protocol,
    the replicate counter every call sees is constant within a replicate and grows by exactly one from
    each replicate to the next, whatever `lbook.rep` was before the call.  `specFull` is the Bool the
    driver evaluates on the trace recorded from the real class. -/
theorem evolve_meets_spec_full (sc : Schedule) (hwf : WellFormed sc = true) (ops : Ops σ V) (cfg : Cfg V)
    (st : State σ V) (hr : Ready I ops st) (hR : Respects I (startRefs ops st) ops)
    (n : Nat) (hn : effNgen sc cfg = some n)
    (R : Item (View V) → Item (View V) → Bool) (hRR : ReflOnRefs R) :
    specFull R cfg.nrep n cfg.loginit (startVals cfg.depth st.heap st.start)
      (newEvents st (evolve ops cfg sc st)) = true := by
  obtain ⟨s', es0, es1, V0, q, _, tr, _, h1, h2, reps, _, spec, hk, _⟩ := evolve_wf (cfg := cfg) sc hwf hr hR n hn
  rw [q, newEvents_of_append tr]
  unfold specFull
  rw [spec R hRR, Bool.true_and]
  cases hall : st.start.all Option.isSome with
  | true =>
    rw [(h1 hall).1, List.nil_append, specBody_plain _ _ hk, reps]
    exact repsOK_repsOf _ _ _ _
  | false =>
    rw [(h2 hall).1]
    show repsOK cfg.loginit n cfg.nrep ((specBody cfg.loginit (initEvent ops cfg st :: es1)).map (fun e => e.rep)) = true
    rw [specBody_init _ _ _ rfl hk, reps]
    exact repsOK_repsOf _ _ _ _

/-- **`spec_iff`: the oracle says what the property says.**  The Bool `specFull` evaluated by the driver
    (on the model's trace in the theorems, on the trace of the real class at run time) holds exactly
    when the trace is, declaratively (`TraceSpec`, `IsRep`, `IsGen`, `Handed`, `EvIs` in
    Lemmas/ProgramSpecIff.lean): five existing initial containers; then exactly `nrep` replicates, each
    = the initial evaluation at clock 0 handed containers whose contents equal the initial state, its
    log entry when `loginit`, and exactly `ngen` generations of pselect·log·mate·log·evaluate·log·
    sselect·log at clocks 1, 2, …, every call handed what its predecessor returned and seeing the start
    containers with their initial contents; and the replicate counter is `r0 + r + 1` throughout
    replicate `r`. -/
theorem spec_iff (R : Item (View V) → Item (View V) → Bool) (nrep ngen : Nat) (loginit : Bool)
    (V0given : List (Option (View V))) (trace : List (Event (View V))) :
    specFull R nrep ngen loginit V0given trace = true ↔
      TraceSpec R nrep ngen loginit V0given trace ∧
      ((specBody loginit trace).map (fun e => e.rep) = [] ∨
        ∃ r0 : Int, (specBody loginit trace).map (fun e => e.rep) = repsOf r0 loginit ngen nrep) := by
  unfold specFull
  rw [Bool.and_eq_true, specTrace_iff, repsOK_iff]

/-- the main theorem in declarative form -/
theorem evolve_meets_trace_spec (sc : Schedule) (hwf : WellFormed sc = true) (ops : Ops σ V) (cfg : Cfg V)
    (st : State σ V) (hr : Ready I ops st) (hR : Respects I (startRefs ops st) ops)
    (n : Nat) (hn : effNgen sc cfg = some n) :
    TraceSpec sameRef cfg.nrep n cfg.loginit (startVals cfg.depth st.heap st.start)
      (newEvents st (evolve ops cfg sc st)) :=
  (specTrace_iff _ _ _ _ _ _).mp (evolve_meets_spec sc hwf ops cfg st hr hR n hn sameRef sameRef_refl)

/-- `ngen = None` (documented: "use t_max"): a schedule that implements the default runs `t_max`
    generations per replicate and meets the Spec for that count -/
theorem evolve_ngen_none_meets_spec (sc : Schedule) (hwf : WellFormed sc = true) (hH : HandlesNone sc = true)
    (ops : Ops σ V) (cfg : Cfg V) (hnone : cfg.ngen = none) (st : State σ V) (hr : Ready I ops st)
    (hR : Respects I (startRefs ops st) ops) (R : Item (View V) → Item (View V) → Bool) (hRR : ReflOnRefs R) :
    specTrace R cfg.nrep cfg.tmax cfg.loginit (startVals cfg.depth st.heap st.start)
      (newEvents st (evolve ops cfg sc st)) = true :=
  evolve_meets_spec sc hwf ops cfg st hr hR cfg.tmax (by simp [effNgen, hH, hnone]) R hRR

/-- earlier log of calls is never rewritten: the trace only grows -/
theorem evolve_trace_extends (sc : Schedule) (hwf : WellFormed sc = true) (ops : Ops σ V) (cfg : Cfg V)
    (st : State σ V) (hr : Ready I ops st) (hR : Respects I (startRefs ops st) ops)
    (n : Nat) (hn : effNgen sc cfg = some n) :
    (evolve ops cfg sc st).trace = st.trace ++ newEvents st (evolve ops cfg sc st) := by
  obtain ⟨s', es0, es1, V0, q, _, tr, _⟩ := evolve_wf (cfg := cfg) sc hwf hr hR n hn
  rw [q, newEvents_of_append tr, tr]

/-- **The stored initial state is never modified, and the run does not crash.**  After `evolve`
    the programme has not raised, the start slots hold the same references as after initialisation,
    and — when the programme was initialised by the caller — the same slots with the same contents
    as before the call, whatever the operators did to their working copies. -/
theorem evolve_start_intact (sc : Schedule) (hwf : WellFormed sc = true) (ops : Ops σ V) (cfg : Cfg V)
    (st : State σ V) (hr : Ready I ops st) (hR : Respects I (startRefs ops st) ops)
    (n : Nat) (hn : effNgen sc cfg = some n) :
    (evolve ops cfg sc st).bad = false ∧
    (evolve ops cfg sc st).start = (startRefs ops st).map some ∧
    (st.start.all Option.isSome = true →
      (evolve ops cfg sc st).start = st.start ∧
      startVals cfg.depth (evolve ops cfg sc st).heap (evolve ops cfg sc st).start = startVals cfg.depth st.heap st.start) := by
  obtain ⟨s', es0, es1, V0, q, g, _, _, hinit, _⟩ := evolve_wf (cfg := cfg) sc hwf hr hR n hn
  rw [q]
  refine ⟨g.nbad, g.start, ?_⟩
  intro hall
  obtain ⟨_, hv⟩ := hinit hall
  refine ⟨?_, by rw [g.startVals, hv]⟩
  rw [g.start]
  have : startRefs ops st = st.start.filterMap id := by simp [startRefs, hall]
  rw [this]
  exact (all_isSome_eq _ hall).symm

/-- when `evolve` had to initialise the programme, the start containers end with exactly the
    contents the initialisation operator returned -/
theorem evolve_start_intact_after_init (sc : Schedule) (hwf : WellFormed sc = true) (ops : Ops σ V)
    (cfg : Cfg V) (st : State σ V) (hr : Ready I ops st) (hR : Respects I (startRefs ops st) ops)
    (n : Nat) (hn : effNgen sc cfg = some n) (hnone : st.start.all Option.isSome = false) :
    startVals cfg.depth (evolve ops cfg sc st).heap (evolve ops cfg sc st).start =
      vals cfg.depth (ops.init st.ost st.heap).2.1 (ops.init st.ost st.heap).2.2 := by
  obtain ⟨s', es0, es1, V0, q, g, _, _, _, hinit, _⟩ := evolve_wf (cfg := cfg) sc hwf hr hR n hn
  obtain ⟨_, hv⟩ := hinit hnone
  rw [q, g.startVals, ← hv]
  rfl

/-- **Replicate counter.**  `lbook.rep` grows by one per replicate and every call of replicate `r`
    (0-based) sees `rep₀ + r + 1`. -/
theorem evolve_replicate_counter (sc : Schedule) (hwf : WellFormed sc = true) (ops : Ops σ V) (cfg : Cfg V)
    (st : State σ V) (hr : Ready I ops st) (hR : Respects I (startRefs ops st) ops)
    (n : Nat) (hn : effNgen sc cfg = some n) :
    (evolve ops cfg sc st).rep = st.rep + cfg.nrep ∧
    ((newEvents st (evolve ops cfg sc st)).filter (fun e => !(e.kind == EvKind.init))).map (fun e => e.rep)
      = repsOf st.rep cfg.loginit n cfg.nrep := by
  obtain ⟨s', es0, es1, V0, q, _, tr, rp, h1, h2, reps, _, _, hk, _⟩ := evolve_wf (cfg := cfg) sc hwf hr hR n hn
  rw [q]
  refine ⟨rp, ?_⟩
  rw [newEvents_of_append tr, List.filter_append]
  have e0 : es0.filter (fun e => !(e.kind == EvKind.init)) = [] := by
    cases hall : st.start.all Option.isSome with
    | true => rw [(h1 hall).1]; rfl
    | false => rw [(h2 hall).1]; simp [initEvent]
  have e1 : es1.filter (fun e => !(e.kind == EvKind.init)) = es1 := by
    apply List.filter_eq_self.mpr
    intro e he
    simp [(hk e he).2]
  rw [e0, e1, List.nil_append, reps]

/-- **Explicit call sequence.**  Apart from the optional initialisation event the recorded
    (call, clock) pairs are exactly
    `(evaluate@0 · [log_initialize@0 if loginit] · (pselect·log·mate·log·evaluate·log·sselect·log)@g for g = 1..n)^nrep`:
    every operator exactly once per generation, in this order, a log entry after every step. -/
theorem evolve_call_sequence (sc : Schedule) (hwf : WellFormed sc = true) (ops : Ops σ V) (cfg : Cfg V)
    (st : State σ V) (hr : Ready I ops st) (hR : Respects I (startRefs ops st) ops)
    (n : Nat) (hn : effNgen sc cfg = some n) :
    ((newEvents st (evolve ops cfg sc st)).filter (fun e => !(e.kind == EvKind.init))).map Event.shape
      = traceShape cfg.loginit n cfg.nrep := by
  obtain ⟨s', es0, es1, V0, q, _, tr, _, h1, h2, _, chk, _, hk, _⟩ := evolve_wf (cfg := cfg) sc hwf hr hR n hn
  rw [q, newEvents_of_append tr, List.filter_append]
  have e0 : es0.filter (fun e => !(e.kind == EvKind.init)) = [] := by
    cases hall : st.start.all Option.isSome with
    | true => rw [(h1 hall).1]; rfl
    | false => rw [(h2 hall).1]; simp [initEvent]
  have e1 : es1.filter (fun e => !(e.kind == EvKind.init)) = es1 := by
    apply List.filter_eq_self.mpr
    intro e he
    simp [(hk e he).2]
  rw [e0, e1, List.nil_append]
  obtain ⟨pre, hpre, hshape⟩ := checkReps_shape sameRef V0 cfg.loginit n cfg.nrep es1 []
    (chk sameRef sameRef_refl)
  rw [List.append_nil] at hpre
  rw [hpre, hshape]

/-- **`evolve` can be called again.**  The state it leaves satisfies the assumptions under which it
    was called, with the same start containers — so all theorems above hold for every later call. -/
theorem evolve_again (sc : Schedule) (hwf : WellFormed sc = true) (ops : Ops σ V) (cfg : Cfg V)
    (st : State σ V) (hr : Ready I ops st) (hR : Respects I (startRefs ops st) ops)
    (n : Nat) (hn : effNgen sc cfg = some n) :
    Ready I ops (evolve ops cfg sc st) ∧ startRefs ops (evolve ops cfg sc st) = startRefs ops st := by
  obtain ⟨s', es0, es1, V0, q, g, _, _, _, _, _, _, _, _, _, _, hS, _⟩ := evolve_wf (cfg := cfg) sc hwf hr hR n hn
  rw [q]
  exact ⟨(g.ready hS).1, (g.ready hS).2.1⟩

/-- **`reset()`** (anchored mechanism 1) called directly: from any state satisfying the invariant,
    the five working variables afterwards refer to valid cells outside the object graphs of the start
    containers (**a disjoint graph**), what is seen below them equals the initial state (**an equal
    graph**), the clock is 0, nothing is logged and the invariant still holds. -/
theorem reset_restores_start (sc : Schedule) (hwr : wfReset sc = true) (ops : Ops σ V) (cfg : Cfg V)
    (S : List Ref) (V0 : List (Option (View V))) (hS : S.length = 5) (hR : Respects I S ops) (st : State σ V)
    (g : Good I cfg.depth S V0 st) :
    ∃ cur : List Ref, cur.length = 5 ∧
      five.map (resetCall ops cfg sc st).regs = cur.map some ∧
      vals cfg.depth (resetCall ops cfg sc st).heap cur = V0 ∧
      (∀ a ∈ cur, a < (resetCall ops cfg sc st).heap.length ∧
        ∀ x, Reach (resetCall ops cfg sc st).heap a x → ¬ InReg (resetCall ops cfg sc st).heap S x) ∧
      (resetCall ops cfg sc st).t = 0 ∧
      (resetCall ops cfg sc st).trace = st.trace ∧
      Good I cfg.depth S V0 (resetCall ops cfg sc st) := by
  obtain ⟨s', cur, q, g', tr, t0, _, f, l, hv⟩ := reset_spec (cfg := cfg) hR hS sc hwr g
  rw [q]
  refine ⟨cur, l, f, hv, ?_, t0, tr, g'⟩
  intro a ha
  have : some a ∈ five.map s'.regs := by rw [f]; exact List.mem_map.mpr ⟨a, ha, rfl⟩
  obtain ⟨r, _, hr⟩ := List.mem_map.mp this
  exact ⟨(g'.regs r a hr).1, fun x hx => g'.iso.reach (g'.regs r a hr).2 hx⟩

/-- **`advance(ngen)`** (anchored mechanism 2) called directly: from any state satisfying the
    invariant whose five working variables are set, `advance` records exactly `ngen` generations
    pselect·log·mate·log·evaluate·log·sselect·log at clock values `t, t+1, …`, every call handed what
    its predecessor returned, and leaves the clock at `t + ngen`. -/
theorem advance_meets_spec (sc : Schedule) (hwf : WellFormed sc = true) (ops : Ops σ V) (cfg : Cfg V)
    (n : Nat) (hn : cfg.ngen = some n)
    (S : List Ref) (V0 : List (Option (View V))) (hS : S.length = 5) (hR : Respects I S ops) (st : State σ V)
    (g : Good I cfg.depth S V0 st) (cur : List Ref) (hcur : five.map st.regs = cur.map some) (hl : cur.length = 5)
    (R : Item (View V) → Item (View V) → Bool) (hRR : ReflOnRefs R) :
    specAdvance R n st.t V0 (items cur (vals cfg.depth st.heap cur)) (newEvents st (advanceCall ops cfg sc st)) = true ∧
      (advanceCall ops cfg sc st).t = st.t + n ∧ Good I cfg.depth S V0 (advanceCall ops cfg sc st) := by
  simp only [WellFormed, Bool.and_eq_true] at hwf
  obtain ⟨s', es, cur', q, g', tr, t', _, _, _, spec⟩ :=
    advance_spec (cfg := cfg) hR hS sc hwf.1.2 hwf.1.1.2 n hn g cur hcur hl
  rw [q, newEvents_of_append tr]
  exact ⟨spec R hRR _ (by rw [items_fst]; rw [vals_length]), t', g'⟩

/-- **Histories of API calls.**  From a state satisfying the invariant (e.g. the state any `evolve`
    call leaves), every history of `evolve`, `reset` and `advance` calls in which `advance` is only
    called while working containers exist meets the Spec call by call — each `evolve` its trace Spec
    with the initial state `V0`, each `reset` "working containers equal `V0`, clock 0", each `advance`
    its generations from the current clock — and the start containers still hold `V0` at the end. -/
theorem history_meets_spec (sc : Schedule) (hwf : WellFormed sc = true) (hwr : wfReset sc = true)
    (ops : Ops σ V) (tmax : Nat) (emptyV : V) (depth : Nat) (S : List Ref) (V0 : List (Option (View V)))
    (hS : S.length = 5) (hR : Respects I S ops) (R : Item (View V) → Item (View V) → Bool) (hRR : ReflOnRefs R)
    (cs : List Call) (held : Bool) (st : State σ V) (g : Good I depth S V0 st)
    (hheld : held = true → ∃ cur : List Ref, five.map st.regs = cur.map some ∧ cur.length = 5)
    (hadm : admissible cs held = true)
    (hnone : ∀ c ∈ cs, ∀ nrep li, c = .evolve nrep none li → HandlesNone sc = true) :
    histOK R ops sc tmax emptyV depth V0 cs st ∧
      startVals depth (runCalls ops tmax emptyV depth sc cs st).heap (runCalls ops tmax emptyV depth sc cs st).start = V0 ∧
      (runCalls ops tmax emptyV depth sc cs st).bad = false := by
  obtain ⟨h1, h2⟩ := history_spec hR hS sc hwf hwr tmax emptyV depth R hRR cs held st g hheld hadm hnone
  exact ⟨h1, h2.startVals, h2.nbad⟩

/-- **`spec_sound` of the COMPLETE run-time oracle of an `evolve` call.**  Besides the call protocol and
    the replicate counter (`specFull`): the initialisation operator is applied only when a start container
    is missing (never to five given containers, however empty they are); after the call the start containers
    hold the initial state; the logbook's counter has advanced by `nrep`; the clock stands one past the last
    generation (untouched when `nrep = 0`), so that a following `advance` continues the count. -/
theorem evolve_meets_call_spec (sc : Schedule) (hwf : WellFormed sc = true) (ops : Ops σ V) (cfg : Cfg V)
    (st : State σ V) (hr : Ready I ops st) (hR : Respects I (startRefs ops st) ops)
    (n : Nat) (hn : effNgen sc cfg = some n)
    (R : Item (View V) → Item (View V) → Bool) (hRR : ReflOnRefs R) :
    specEvolveCall R cfg.nrep n cfg.loginit (startVals cfg.depth st.heap st.start)
      (newEvents st (evolve ops cfg sc st))
      (startVals cfg.depth (evolve ops cfg sc st).heap (evolve ops cfg sc st).start)
      st.rep (evolve ops cfg sc st).rep st.t (evolve ops cfg sc st).t = true :=
  evolve_call_sound sc hwf hr hR n hn R hRR

/-- **`spec_iff` of the complete oracle**: `specEvolveCall` holds exactly when the trace is the one the
    property describes (`TraceSpec`, replicate counter), no initialisation event occurs when five containers
    were given, the start containers afterwards hold the initial state, the logbook's counter has grown by
    `nrep` and the clock is `ngen + 1` (or untouched for `nrep = 0`). -/
theorem call_spec_iff (R : Item (View V) → Item (View V) → Bool) (nrep ngen : Nat) (loginit : Bool)
    (V0given : List (Option (View V))) (trace : List (Event (View V))) (startAfter : List (Option (View V)))
    (repBefore repAfter : Int) (tBefore tAfter : Nat) :
    specEvolveCall R nrep ngen loginit V0given trace startAfter repBefore repAfter tBefore tAfter = true ↔
      (TraceSpec R nrep ngen loginit V0given trace ∧
        ((specBody loginit trace).map (fun e => e.rep) = [] ∨
          ∃ r0 : Int, (specBody loginit trace).map (fun e => e.rep) = repsOf r0 loginit ngen nrep)) ∧
      (V0given.all Option.isSome = true → ∀ e ∈ trace, e.kind ≠ EvKind.init) ∧
      startAfter = initialState V0given trace ∧
      repAfter = repBefore + (nrep : Int) ∧
      tAfter = (if nrep = 0 then tBefore else ngen + 1) := by
  rw [specEvolveCall_iff, spec_iff]
  rfl

/-- **Initialise only if needed.**  A programme handed five start containers — EMPTY ones (`{}`) included —
    is never re-initialised: `evolve` records no initialisation event, every replicate starts from the given
    state and the start slots keep their references and contents. -/
theorem evolve_initialises_only_if_needed (sc : Schedule) (hwf : WellFormed sc = true) (ops : Ops σ V) (cfg : Cfg V)
    (st : State σ V) (hr : Ready I ops st) (hR : Respects I (startRefs ops st) ops)
    (n : Nat) (hn : effNgen sc cfg = some n) (hall : st.start.all Option.isSome = true) :
    (∀ e ∈ newEvents st (evolve ops cfg sc st), e.kind ≠ EvKind.init) ∧
    initialState (startVals cfg.depth st.heap st.start) (newEvents st (evolve ops cfg sc st))
      = startVals cfg.depth st.heap st.start ∧
    (evolve ops cfg sc st).start = st.start := by
  obtain ⟨s', es0, es1, V0, q, _, tr, _, h1, _, _, _, _, hk, _⟩ := evolve_wf (cfg := cfg) sc hwf hr hR n hn
  have hno : ∀ e ∈ newEvents st (evolve ops cfg sc st), e.kind ≠ EvKind.init := by
    rw [q, newEvents_of_append tr, (h1 hall).1, List.nil_append]
    exact fun e he => (hk e he).2
  exact ⟨hno, initialState_of_not_init _ _ hno, ((evolve_start_intact sc hwf ops cfg st hr hR n hn).2.2 hall).1⟩

/-- **The clock between calls.**  `evolve` leaves the clock one past the last generation of its last
    replicate (so a following `advance` continues with `ngen + 1, ngen + 2, …`); with `nrep = 0` it does not
    touch it. -/
theorem evolve_leaves_clock (sc : Schedule) (hwf : WellFormed sc = true) (ops : Ops σ V) (cfg : Cfg V)
    (st : State σ V) (hr : Ready I ops st) (hR : Respects I (startRefs ops st) ops)
    (n : Nat) (hn : effNgen sc cfg = some n) :
    (evolve ops cfg sc st).t = if cfg.nrep = 0 then st.t else n + 1 := by
  obtain ⟨s', _, _, _, q, _, _, _, _, _, _, _, _, _, _, _, _, clkp, clk0⟩ := evolve_wf (cfg := cfg) sc hwf hr hR n hn
  rw [q]
  rcases Nat.eq_zero_or_pos cfg.nrep with h0 | hpos
  · rw [if_pos h0]; exact clk0 h0
  · rw [if_neg (Nat.pos_iff_ne_zero.mp hpos)]; exact clkp hpos

/-- **`spec_sound` of the oracle of a direct `reset()` call** (`specResetCall`: working containers equal
    the initial state, clock 0, start containers untouched) -/
theorem reset_meets_call_spec (sc : Schedule) (hwr : wfReset sc = true) (ops : Ops σ V) (cfg : Cfg V)
    (S : List Ref) (V0 : List (Option (View V))) (hS : S.length = 5) (hR : Respects I S ops) (st : State σ V)
    (g : Good I cfg.depth S V0 st) :
    specResetCall V0 (startVals cfg.depth (resetCall ops cfg sc st).heap (five.map (resetCall ops cfg sc st).regs))
      (resetCall ops cfg sc st).t
      (startVals cfg.depth (resetCall ops cfg sc st).heap (resetCall ops cfg sc st).start) = true :=
  (reset_call_sound hS hR sc hwr g).1

/-- **`spec_sound` of the oracle of a direct `advance(ngen)` call** (`specAdvanceCall`: the generations
    from the current clock, start containers untouched, clock left at `t + ngen`) -/
theorem advance_meets_call_spec (sc : Schedule) (hwf : WellFormed sc = true) (ops : Ops σ V) (cfg : Cfg V)
    (n : Nat) (hn : cfg.ngen = some n)
    (S : List Ref) (V0 : List (Option (View V))) (hS : S.length = 5) (hR : Respects I S ops) (st : State σ V)
    (g : Good I cfg.depth S V0 st) (cur : List Ref) (hcur : five.map st.regs = cur.map some) (hl : cur.length = 5)
    (R : Item (View V) → Item (View V) → Bool) (hRR : ReflOnRefs R) :
    specAdvanceCall R n st.t V0 (items cur (vals cfg.depth st.heap cur)) (newEvents st (advanceCall ops cfg sc st))
      (startVals cfg.depth (advanceCall ops cfg sc st).heap (advanceCall ops cfg sc st).start)
      (advanceCall ops cfg sc st).t = true :=
  (advance_call_sound hS hR sc hwf n hn g cur hcur hl R hRR).1

/-- **`spec_iff` of the oracles of direct `reset()` / `advance(ngen)` calls**: `specResetCall` says "five
    working containers equal to the initial state, clock 0, start containers untouched"; `specAdvanceCall`
    says "the trace is exactly `ngen` generations (`IsGens`: pselect·log·mate·log·evaluate·log·sselect·log,
    every call handed what its predecessor returned, start containers holding `V0`) at clocks `t0, t0+1, …`
    starting from the containers held, start containers untouched afterwards, clock left at `t0 + ngen`". -/
theorem direct_call_spec_iff (R : Item (View V) → Item (View V) → Bool) (ngen t0 : Nat)
    (V0 work : List (Option (View V))) (cur : List (Item (View V))) (trace : List (Event (View V)))
    (startAfter : List (Option (View V))) (tAfter : Nat) :
    (specResetCall V0 work tAfter startAfter = true ↔
      work = V0 ∧ tAfter = 0 ∧ startAfter = V0 ∧ V0.length = 5 ∧ V0.all Option.isSome = true) ∧
    (specAdvanceCall R ngen t0 V0 cur trace startAfter tAfter = true ↔
      IsGens R V0 ngen t0 cur trace ∧ startAfter = V0 ∧ tAfter = t0 + ngen) := by
  refine ⟨specResetCall_iff _ _ _ _, ?_⟩
  rw [specAdvanceCall_iff]
  have : specAdvance R ngen t0 V0 cur trace = true ↔ IsGens R V0 ngen t0 cur trace := by
    unfold specAdvance
    constructor
    · intro h
      split at h
      · rename_i hc
        obtain ⟨gs, hgs, hg⟩ := (checkGens_iff R V0 ngen t0 cur trace []).mp hc
        rw [List.append_nil] at hgs
        rw [hgs]; exact hg
      · cases h
    · intro h
      have := (checkGens_iff R V0 ngen t0 cur trace []).mpr ⟨trace, by simp, h⟩
      rw [this]
  rw [this]

/-- **Histories with attribute re-assignment, several logbooks and irrelevant events.**  From a state
    satisfying the invariant, every history of `evolve` / `reset` / `advance` calls, assignments
    `prog.t_cur = n` and `prog.t_max = n`, changes of the logbook handed to the calls (each with its own
    replicate counter) and events that must not matter (an operator replaced by an equivalent instance,
    another programme object being run), in which `advance` is only called while working containers exist,
    meets the COMPLETE oracle call by call: `evolve(ngen = None)` runs the `t_max` in force at that call, every
    call starts from the clock and the counter it finds, the quiet events change neither trace nor containers —
    and the start containers hold `V0` at the end. -/
theorem history_with_reassignment_meets_spec (sc : Schedule) (hwf : WellFormed sc = true)
    (hwr : wfReset sc = true) (hH : HandlesNone sc = true)
    (ops : Ops σ V) (emptyV : V) (depth : Nat) (S : List Ref) (V0 : List (Option (View V)))
    (hS : S.length = 5) (hR : Respects I S ops) (R : Item (View V) → Item (View V) → Bool) (hRR : ReflOnRefs R)
    (cs : List CallX) (held : Bool) (p : Prog σ V) (g : Good I depth S V0 p.st)
    (hheld : held = true → ∃ cur : List Ref, five.map p.st.regs = cur.map some ∧ cur.length = 5)
    (hadm : admissibleX cs held = true) :
    histOKX R ops sc emptyV depth V0 cs p ∧
      startVals depth (runX ops emptyV depth sc cs p).st.heap (runX ops emptyV depth sc cs p).st.start = V0 ∧
      (runX ops emptyV depth sc cs p).st.bad = false := by
  obtain ⟨h1, h2⟩ := historyX_spec hR hS sc hwf hwr hH emptyV depth R hRR cs held p g hheld hadm
  exact ⟨h1, h2.startVals, h2.nbad⟩

/-- the classical frame condition ("operators and logbook mutate only what they are handed, and
    allocate") is sufficient: it implies `Respects` for any start containers -/
theorem evolve_meets_spec_of_frame (sc : Schedule) (hwf : WellFormed sc = true) (ops : Ops σ V)
    (cfg : Cfg V) (st : State σ V) (hr : Ready (NoKept (startRefs ops st)) ops st) (hF : Frame ops) (n : Nat)
    (hn : effNgen sc cfg = some n) :
    specTrace sameRef cfg.nrep n cfg.loginit (startVals cfg.depth st.heap st.start)
      (newEvents st (evolve ops cfg sc st)) = true :=
  evolve_meets_spec sc hwf ops cfg st hr (hF.respects _) n hn sameRef sameRef_refl

/-- **Operators that keep what they are handed and mutate it later.**  Let the operators' internal
    state hold references (`known`), and let every call be free to mutate in place anything reachable
    from what it is handed now or from anything it was EVER handed, returned or allocated (`Footprint`).
    If at the time of the call nothing they hold lies inside the object graphs of the stored start
    containers, then the run meets the complete Spec, does not raise, the start slots keep their
    references and (for a programme initialised by the caller) their contents, and afterwards the
    operators still hold nothing inside those graphs — although they now hold every working container
    of every replicate.  This rests on `reset()` handing out deep copies only: see
    `kept_reference_alias_counterexample` for a `reset()` that hands out one start container itself. -/
theorem evolve_meets_spec_of_footprint (sc : Schedule) (hwf : WellFormed sc = true) (ops : Ops σ V)
    (known : σ → List Ref) (hF : Footprint known ops) (cfg : Cfg V) (st : State σ V)
    (hr : Ready (KeptOutside known (startRefs ops st)) ops st) (n : Nat) (hn : effNgen sc cfg = some n) :
    specFull sameRef cfg.nrep n cfg.loginit (startVals cfg.depth st.heap st.start)
      (newEvents st (evolve ops cfg sc st)) = true ∧
    (evolve ops cfg sc st).bad = false ∧
    (evolve ops cfg sc st).start = (startRefs ops st).map some ∧
    (st.start.all Option.isSome = true →
      startVals cfg.depth (evolve ops cfg sc st).heap (evolve ops cfg sc st).start = startVals cfg.depth st.heap st.start) ∧
    KeptOutside known (startRefs ops st) (evolve ops cfg sc st).ost (evolve ops cfg sc st).heap := by
  have hR := hF.respects (startRefs ops st)
  have h2 := evolve_start_intact sc hwf ops cfg st hr hR n hn
  refine ⟨evolve_meets_spec_full sc hwf ops cfg st hr hR n hn sameRef sameRef_refl, h2.1, h2.2.1,
    fun hall => (h2.2.2 hall).2, ?_⟩
  obtain ⟨s', _, _, _, q, g, _⟩ := evolve_wf (cfg := cfg) sc hwf hr hR n hn
  rw [q]
  exact g.inv

/-- **Instance for the current source** (full: the generation count is the argument `ngen` of
    `evolve`, an integer or `None` = "use t_max").  The schedule regenerated from `/repo` satisfies
    the Spec (identity wiring) for all operators, replicate counts, generation counts and initial
    states, does not raise, and keeps its start slots. -/
theorem current_source_meets_spec (ops : Ops σ V) (cfg : Cfg V) (st : State σ V) (hr : Ready I ops st)
    (hR : Respects I (startRefs ops st) ops) :
    specTrace sameRef cfg.nrep (cfg.ngen.getD cfg.tmax) cfg.loginit (startVals cfg.depth st.heap st.start)
      (newEvents st (evolve ops cfg C20Schedule.evolve st)) = true ∧
    (evolve ops cfg C20Schedule.evolve st).bad = false ∧
    (evolve ops cfg C20Schedule.evolve st).start = (startRefs ops st).map some :=
  have he : effNgen C20Schedule.evolve cfg = some (cfg.ngen.getD cfg.tmax) := by
    simp [effNgen, schedule_handles_none]
  ⟨evolve_meets_spec _ schedule_wellformed ops cfg st hr hR _ he sameRef sameRef_refl,
   (evolve_start_intact _ schedule_wellformed ops cfg st hr hR _ he).1,
   (evolve_start_intact _ schedule_wellformed ops cfg st hr hR _ he).2.1⟩

/-- **Instance for the current source, complete oracle.**  For the schedule regenerated from `/repo`, all
    operators respecting the start containers, all counts (`ngen = None` included) and all initial states
    (empty containers included), every `evolve` call satisfies the complete run-time oracle `specEvolveCall`:
    call protocol, replicate counter, initialise-only-if-needed, start containers afterwards, logbook counter,
    clock. -/
theorem current_source_meets_call_spec (ops : Ops σ V) (cfg : Cfg V) (st : State σ V) (hr : Ready I ops st)
    (hR : Respects I (startRefs ops st) ops) :
    specEvolveCall sameRef cfg.nrep (cfg.ngen.getD cfg.tmax) cfg.loginit (startVals cfg.depth st.heap st.start)
      (newEvents st (evolve ops cfg C20Schedule.evolve st))
      (startVals cfg.depth (evolve ops cfg C20Schedule.evolve st).heap (evolve ops cfg C20Schedule.evolve st).start)
      st.rep (evolve ops cfg C20Schedule.evolve st).rep st.t (evolve ops cfg C20Schedule.evolve st).t = true :=
  have he : effNgen C20Schedule.evolve cfg = some (cfg.ngen.getD cfg.tmax) := by
    simp [effNgen, schedule_handles_none]
  evolve_meets_call_spec _ schedule_wellformed ops cfg st hr hR _ he sameRef sameRef_refl

/-- **Instance for the current source, operators that keep what they are handed.**  The schedule
    regenerated from `/repo` meets the complete Spec, does not raise and keeps its start slots for all
    operators satisfying the footprint condition — free to mutate later anything they were ever handed —
    that hold no reference into the start containers' object graphs when `evolve` is called. -/
theorem current_source_meets_spec_of_footprint (ops : Ops σ V) (known : σ → List Ref) (hF : Footprint known ops)
    (cfg : Cfg V) (st : State σ V) (hr : Ready (KeptOutside known (startRefs ops st)) ops st) :
    specFull sameRef cfg.nrep (cfg.ngen.getD cfg.tmax) cfg.loginit (startVals cfg.depth st.heap st.start)
      (newEvents st (evolve ops cfg C20Schedule.evolve st)) = true ∧
    (evolve ops cfg C20Schedule.evolve st).bad = false ∧
    (evolve ops cfg C20Schedule.evolve st).start = (startRefs ops st).map some :=
  have he : effNgen C20Schedule.evolve cfg = some (cfg.ngen.getD cfg.tmax) := by
    simp [effNgen, schedule_handles_none]
  have h := evolve_meets_spec_of_footprint _ schedule_wellformed ops known hF cfg st hr _ he
  ⟨h.1, h.2.1, h.2.2.1⟩

end generic

/-- **The operators the correspondence driver runs are covered by the theorems.**  The scripted
    operators of Drv/C20.lean — the Lean mirror of the Python stubs handed to the real class: they mutate
    what they are handed in place at any depth, mutate objects KEPT from earlier calls, return handed
    objects, aliases and new containers, all as dictated by an arbitrary script — satisfy the footprint
    frame condition (`scripted_footprint`); hence for EVERY script, start graph, replicate and generation
    count the model run the driver compares with the real class meets the complete Spec and leaves the
    start containers intact. -/
theorem driver_operators_meet_spec (sc : Schedule) (hwf : WellFormed sc = true) (cfg : Cfg Drv.C20.D)
    (st : State Drv.C20.OSt Drv.C20.D)
    (hr : Ready (KeptOutside (fun s : Drv.C20.OSt => s.seen) (startRefs Drv.C20.scripted st)) Drv.C20.scripted st)
    (n : Nat) (hn : effNgen sc cfg = some n) :
    specFull sameRef cfg.nrep n cfg.loginit (startVals cfg.depth st.heap st.start)
      (newEvents st (evolve Drv.C20.scripted cfg sc st)) = true ∧
    (evolve Drv.C20.scripted cfg sc st).bad = false ∧
    (evolve Drv.C20.scripted cfg sc st).start = (startRefs Drv.C20.scripted st).map some :=
  have h := evolve_meets_spec_of_footprint sc hwf Drv.C20.scripted _ scripted_footprint cfg st hr n hn
  ⟨h.1, h.2.1, h.2.2.1⟩

/-- … and they meet the COMPLETE oracle the driver evaluates (`specEvolveCall`), for every script -/
theorem driver_operators_meet_call_spec (sc : Schedule) (hwf : WellFormed sc = true) (cfg : Cfg Drv.C20.D)
    (st : State Drv.C20.OSt Drv.C20.D)
    (hr : Ready (KeptOutside (fun s : Drv.C20.OSt => s.seen) (startRefs Drv.C20.scripted st)) Drv.C20.scripted st)
    (n : Nat) (hn : effNgen sc cfg = some n) :
    specEvolveCall sameRef cfg.nrep n cfg.loginit (startVals cfg.depth st.heap st.start)
      (newEvents st (evolve Drv.C20.scripted cfg sc st))
      (startVals cfg.depth (evolve Drv.C20.scripted cfg sc st).heap (evolve Drv.C20.scripted cfg sc st).start)
      st.rep (evolve Drv.C20.scripted cfg sc st).rep st.t (evolve Drv.C20.scripted cfg sc st).t = true :=
  evolve_meets_call_spec sc hwf Drv.C20.scripted cfg st hr (scripted_footprint.respects _) n hn sameRef sameRef_refl

/-! ### non-vacuity: concrete operators, states, schedules and runs -/
section examples
open Program.Demo

/-- an operator family that mutates handed containers in place, allocates and aliases satisfies
    the hypothesis of the theorems, for any start containers -/
example (S : List Ref) : Respects (NoKept S) S demoOps := demo_respects S

/-- a caller-initialised programme and a programme with a missing start container satisfy `Ready` -/
example : Ready (NoKept [0, 1, 2, 3, 4]) demoOps given := given_ready demoOps
example : Ready (NoKept [4, 5, 6, 7, 8]) demoOps partly := partly_ready

/-- `WellFormed` is a property of the dataflow, not of the text: the canonical skeleton, the patched
    one, and a programme written quite differently (deep copies in another order with a redundant one,
    clock zeroed in `evolve`, other local names, shuffled keyword arguments, results routed through
    locals, extra allocations and no-ops) are all accepted … -/
example : WellFormed canonical = true := by decide
example : WellFormed patched = true ∧ HandlesNone patched = true := by decide
example : WellFormed rewritten = true ∧ strip rewritten.advanceGen ≠ strip canonical.advanceGen := by decide

/-- … while schedules with a wrong dataflow are rejected: mating before parent selection, a result
    not assigned back, a stale container handed on, a shallow alias instead of a deep copy, the clock
    not reset, the logbook call dropped -/
example : WellFormed { canonical with reset := canonical.reset.map (fun s =>
    if s = .copyStart .geno 1 then .aliasStart .geno 1 else s) } = false := by decide
example : WellFormed { canonical with reset := canonical.reset.filter (fun s => decide (s ≠ .setT0)) } = false := by
  decide
example : WellFormed { canonical with reset := [.copyStart .genome 0, .copyStart .geno 1, .copyStart .pheno 2,
    .copyStart .bval 2, .copyStart .gmod 4, .setT0] } = false := by decide
example : WellFormed { canonical with advanceGen := canonical.advanceGen.filter (fun s => decide (s ≠ .tick)) } = false := by
  decide
example : WellFormed { canonical with advanceGen := canonical.advanceGen.map (fun s => match s with
    | .call .evaluate args _ => .call .evaluate args [.loc 30, .loc 31, .loc 32, .loc 33, .loc 34]
    | s => s) } = false := by decide
example : WellFormed { canonical with advanceGen := canonical.advanceGen.filter (fun s => match s with
    | .log .mate _ _ => false
    | _ => true) } = false := by decide

/-- the hypotheses of `evolve_meets_spec` are met by non-trivial instances (3 replicates,
    2 generations, in-place mutating operators): the schedule of the current source, and the
    differently written one -/
example : specTrace sameRef 3 2 true (startVals 2 given.heap given.start)
    (newEvents given (evolve demoOps ⟨3, some 2, 9, true, 0, 2⟩ C20Schedule.evolve given)) = true :=
  evolve_meets_spec _ schedule_wellformed demoOps ⟨3, some 2, 9, true, 0, 2⟩ given (given_ready _)
    (demo_respects _) 2 rfl sameRef sameRef_refl

example : specTrace sameRef 3 2 true (startVals 2 given.heap given.start)
    (newEvents given (evolve demoOps ⟨3, some 2, 9, true, 0, 2⟩ rewritten given)) = true :=
  evolve_meets_spec _ (by decide) demoOps ⟨3, some 2, 9, true, 0, 2⟩ given (given_ready _)
    (demo_respects _) 2 rfl sameRef sameRef_refl

/-- the same conclusions obtained by running the model (the Spec is executable): 2 replicates,
    2 generations, 36 recorded calls -/
example : specTrace sameRef 2 2 true (startVals 2 given.heap given.start)
    (evolve demoOps ⟨2, some 2, 9, true, 0, 2⟩ C20Schedule.evolve given).trace = true := by decide +kernel

example : specTrace sameRef 2 2 true (startVals 2 given.heap given.start)
    (evolve demoOps ⟨2, some 2, 9, true, 0, 2⟩ rewritten given).trace = true := by decide +kernel

example : (evolve demoOps ⟨2, some 2, 9, true, 0, 2⟩ C20Schedule.evolve given).trace.length = 36 := by decide +kernel

/-- … and for the programme that `evolve` has to initialise first (one more event) -/
example : specTrace sameOrEqual 2 1 false (startVals 2 partly.heap partly.start)
    (evolve demoOps ⟨2, some 1, 9, false, 0, 2⟩ C20Schedule.evolve partly).trace = true := by decide +kernel

/-- the operators of the example really mutate an object *below* their working copy of `genome`
    (cell 15 is the copy of cell 5, which lies below start container 0) while the object graphs of the
    start containers (cells 0–9) are untouched -/
example : (evolve demoOps ⟨2, some 2, 9, true, 0, 2⟩ canonical given).heap.take 10 = given.heap ∧
    (evolve demoOps ⟨2, some 2, 9, true, 0, 2⟩ canonical given).heap[15]? = some ⟨8, []⟩ ∧
    given.heap[5]? = some ⟨1, []⟩ := by
  decide +kernel

/-- a *shallow* copy of one start container (`dict(self.start_gmod)`) is rejected by the dataflow
    analysis, and its run violates the Spec: the operators reach the start container's inner object
    through the shared reference -/
example : WellFormed shallow = false := by decide
example : specTrace sameOrEqual 2 1 true (startVals 2 given.heap given.start)
    (evolve demoOps ⟨2, some 1, 9, true, 0, 2⟩ shallow given).trace = false := by decide +kernel

/-- operators that keep everything they are handed meet the hypotheses of
    `evolve_meets_spec_of_footprint` (3 replicates, 2 generations; after 2 x 1 they hold 126 references) -/
example : specFull sameRef 3 2 true (startVals 2 givenK.heap givenK.start)
    (newEvents givenK (evolve keeperOps ⟨3, some 2, 9, true, 0, 2⟩ C20Schedule.evolve givenK)) = true :=
  (evolve_meets_spec_of_footprint _ schedule_wellformed keeperOps _ keeper_footprint ⟨3, some 2, 9, true, 0, 2⟩
    givenK givenK_ready 2 rfl).1
example : (evolve keeperOps ⟨2, some 1, 9, true, 0, 2⟩ canonical givenK).ost.length = 126 := by decide +kernel

/-- a concrete driver state and script (in-place mutation at once, later mutation of kept objects,
    fresh returns) meet the hypotheses of `driver_operators_meet_spec`; the late mutations really happen
    (cell 11 = the list below the first working copy of `genome`, kept from the first call) -/
example : specFull sameRef 2 1 true (startVals 5 drvState.heap drvState.start)
    (newEvents drvState (evolve Drv.C20.scripted ⟨2, some 1, 9, true, Drv.C20.dictD, 5⟩ C20Schedule.evolve drvState)) = true :=
  (driver_operators_meet_spec _ schedule_wellformed ⟨2, some 1, 9, true, Drv.C20.dictD, 5⟩ drvState drv_ready 1 rfl).1
example : (evolve Drv.C20.scripted ⟨2, some 1, 9, true, Drv.C20.dictD, 5⟩ C20Schedule.evolve drvState).heap[11]?
    = some ⟨[1, 101, 301, 201], []⟩ := by decide +kernel

/-- a copy as deep as the nesting (or deeper) does keep the start state apart, on the same inputs on
    which shallower copies fail (`shallow_level_counterexample`); the deep copy of the canonical
    skeleton does so at every depth by `evolve_meets_spec` -/
example : ∀ d, d < 5 → Program.Demo.levelRunOK (d + 1) d = true := by decide +kernel

/-- `levelCopy 1` is the shallow copy of `shallowCopyStart` -/
example : (levelCopy 1 given.heap 0).1 = given.heap ++ [⟨10, [5]⟩] ∧ (levelCopy 1 given.heap 0).2 = 10 := by
  decide +kernel

/-- the invariant assumed by `reset_restores_start` / `advance_meets_spec` / `history_meets_spec`
    holds of a concrete state, and a concrete admissible history: reset, advance 2, reset, advance 1,
    evolve(2, 1), advance 1 -/
example : Good (NoKept [0, 1, 2, 3, 4]) 2 [0, 1, 2, 3, 4] (vals 2 given.heap [0, 1, 2, 3, 4]) given := given_good 2
example : admissible [.reset, .advance 2, .reset, .advance 1, .evolve 2 (some 1) true, .advance 1] false = true := by
  decide
example : (runCalls demoOps 9 0 2 C20Schedule.evolve
    [.reset, .advance 2, .reset, .advance 1, .evolve 2 (some 1) true, .advance 1] given).trace.length = 52 := by
  decide +kernel

/-- the schedule of the current source (and the literal patched skeleton) meet the Spec for
    `ngen = None` with `t_max = 2` generations -/
example : specTrace sameRef 2 2 true (startVals 2 given.heap given.start)
    (evolve demoOps ⟨2, none, 2, true, 0, 2⟩ patched given).trace = true := by decide +kernel
example : specTrace sameRef 2 2 true (startVals 2 given.heap given.start)
    (evolve demoOps ⟨2, none, 2, true, 0, 2⟩ C20Schedule.evolve given).trace = true := by decide +kernel
example : specTrace sameRef 2 2 true (startVals 2 given.heap given.start)
    (newEvents given (evolve demoOps ⟨2, none, 2, true, 0, 2⟩ C20Schedule.evolve given)) = true :=
  (current_source_meets_spec demoOps ⟨2, none, 2, true, 0, 2⟩ given (given_ready _) (demo_respects _)).1

/-- EMPTY given containers (`{}`) are given containers: a programme state whose `start_pheno` and `start_gmod`
    are empty satisfies `Ready`; the run on the schedule of the current source meets the COMPLETE oracle
    (by the theorem, and by running the model), records no initialisation event and 18 calls -/
example : Ready (NoKept [0, 1, 2, 3, 4]) demoOps emptyGiven := emptyGiven_ready demoOps
example : specEvolveCall sameRef 2 1 true (startVals 2 emptyGiven.heap emptyGiven.start)
    (newEvents emptyGiven (evolve demoOps ⟨2, some 1, 9, true, 0, 2⟩ C20Schedule.evolve emptyGiven))
    (startVals 2 (evolve demoOps ⟨2, some 1, 9, true, 0, 2⟩ C20Schedule.evolve emptyGiven).heap
      (evolve demoOps ⟨2, some 1, 9, true, 0, 2⟩ C20Schedule.evolve emptyGiven).start)
    3 (evolve demoOps ⟨2, some 1, 9, true, 0, 2⟩ C20Schedule.evolve emptyGiven).rep
    0 (evolve demoOps ⟨2, some 1, 9, true, 0, 2⟩ C20Schedule.evolve emptyGiven).t = true :=
  evolve_meets_call_spec _ schedule_wellformed demoOps ⟨2, some 1, 9, true, 0, 2⟩ emptyGiven (emptyGiven_ready _)
    (by rw [show startRefs demoOps emptyGiven = [0, 1, 2, 3, 4] from by simp [startRefs, emptyGiven]]; exact demo_respects _)
    1 rfl sameRef sameRef_refl
example : (evolve demoOps ⟨2, some 1, 9, true, 0, 2⟩ C20Schedule.evolve emptyGiven).trace.length = 20 ∧
    (evolve demoOps ⟨2, some 1, 9, true, 0, 2⟩ C20Schedule.evolve emptyGiven).rep = 5 ∧
    (evolve demoOps ⟨2, some 1, 9, true, 0, 2⟩ C20Schedule.evolve emptyGiven).t = 2 ∧
    (evolve demoOps ⟨2, some 1, 9, true, 0, 2⟩ C20Schedule.evolve emptyGiven).trace.all
      (fun e => !(e.kind == EvKind.init)) = true := by decide +kernel

/-- … the same state meets the hypothesis of `evolve_initialises_only_if_needed` (five given containers),
    and the concrete driver state meets those of `driver_operators_meet_call_spec` -/
example : emptyGiven.start.all Option.isSome = true := by decide
example : specEvolveCall sameRef 2 1 true (startVals 5 drvState.heap drvState.start)
    (newEvents drvState (evolve Drv.C20.scripted ⟨2, some 1, 9, true, Drv.C20.dictD, 5⟩ C20Schedule.evolve drvState))
    (startVals 5 (evolve Drv.C20.scripted ⟨2, some 1, 9, true, Drv.C20.dictD, 5⟩ C20Schedule.evolve drvState).heap
      (evolve Drv.C20.scripted ⟨2, some 1, 9, true, Drv.C20.dictD, 5⟩ C20Schedule.evolve drvState).start)
    drvState.rep (evolve Drv.C20.scripted ⟨2, some 1, 9, true, Drv.C20.dictD, 5⟩ C20Schedule.evolve drvState).rep
    drvState.t (evolve Drv.C20.scripted ⟨2, some 1, 9, true, Drv.C20.dictD, 5⟩ C20Schedule.evolve drvState).t = true :=
  driver_operators_meet_call_spec _ schedule_wellformed ⟨2, some 1, 9, true, Drv.C20.dictD, 5⟩ drvState drv_ready 1 rfl

/-- the initialisation clause is not vacuous: a trace that begins with an initialisation event (the run of
    the programme that lacks a container) is rejected when five containers were given, and accepted for the
    programme that lacked one -/
example : initOK (startVals 2 given.heap given.start)
    (evolve demoOps ⟨2, some 1, 9, false, 0, 2⟩ C20Schedule.evolve partly).trace = false := by decide +kernel
example : initOK (startVals 2 partly.heap partly.start)
    (evolve demoOps ⟨2, some 1, 9, false, 0, 2⟩ C20Schedule.evolve partly).trace = true := by decide +kernel

/-- a concrete admissible history with re-assignments on a programme created with `t_max = 9`:
    `t_max := 1`, evolve(2, None) (one generation per replicate), clock set to 7, advance 2 (clocks 7, 8),
    another logbook (counter 40), evolve(1, 1), a quiet event, reset, advance 1 -/
example : admissibleX [.setTmax 1, .evolve 2 none true, .setT 7, .advance 2, .setBook 40, .evolve 1 (some 1) false,
    .noop, .reset, .advance 1] false = true := by decide
example : (runX demoOps 0 2 C20Schedule.evolve [.setTmax 1, .evolve 2 none true, .setT 7, .advance 2, .setBook 40,
    .evolve 1 (some 1) false, .noop, .reset, .advance 1] ⟨9, given⟩).st.trace.length = 20 + 16 + 9 + 8 ∧
    (runX demoOps 0 2 C20Schedule.evolve [.setTmax 1, .evolve 2 none true, .setT 7, .advance 2, .setBook 40,
    .evolve 1 (some 1) false, .noop, .reset, .advance 1] ⟨9, given⟩).st.rep = 41 ∧
    (runX demoOps 0 2 C20Schedule.evolve [.setTmax 1, .evolve 2 none true, .setT 7, .advance 2, .setBook 40,
    .evolve 1 (some 1) false, .noop, .reset, .advance 1] ⟨9, given⟩).st.t = 1 := by decide +kernel

/-- the Spec is not vacuous: it rejects the trace of a schedule whose `advance` forgets the clock -/
example : specTrace sameOrEqual 2 2 true (startVals 2 given.heap given.start)
    (evolve demoOps ⟨2, some 2, 9, true, 0, 2⟩
      { canonical with advanceGen := canonical.advanceGen.filter (fun s => decide (s ≠ Stmt.tick)) } given).trace
    = false := by decide +kernel

end examples

/-- **`ngen = None` before the repair (D36, fixed by 89fb67b3).**  The call skeleton of the source
    before the repair (the canonical schedule without the `ngen is None` default) did not implement the
    documented default; with one replicate requested the run raised (`range(None)`) after the initial
    evaluation, and the recorded trace did not satisfy the Spec for `t_max` generations. -/
theorem evolve_ngen_none_prerepair_counterexample :
    HandlesNone canonical = false ∧
    (evolve Program.Demo.demoOps ⟨1, none, 2, true, 0, 2⟩ canonical Program.Demo.given).bad = true ∧
    specTrace sameOrEqual 1 2 true (startVals 2 Program.Demo.given.heap Program.Demo.given.start)
      (evolve Program.Demo.demoOps ⟨1, none, 2, true, 0, 2⟩ canonical Program.Demo.given).trace = false := by
  decide +kernel

/-- **An empty container is not a missing container.**  If `is_initialized()` tested the TRUTH VALUE of the
    five start containers (`truthyInit`) instead of `is not None`, a programme handed an initial state with
    an empty `start_gmod = {}` would be re-initialised by `evolve`: the run records an initialisation event
    although five containers were given (the initialisation clause of the oracle fails), every replicate
    starts from what the initialisation operator returned, and the stored initial state is replaced.  With
    five non-empty containers the two tests agree. -/
theorem truthiness_initialisation_counterexample :
    initOK (startVals 2 Program.Demo.emptyGiven.heap Program.Demo.emptyGiven.start)
      (evolve Program.Demo.demoOps ⟨2, some 1, 9, true, 0, 2⟩ canonical
        (Program.Demo.truthyInit Program.Demo.emptyGiven)).trace = false ∧
    specTrace sameOrEqual 2 1 true (startVals 2 Program.Demo.emptyGiven.heap Program.Demo.emptyGiven.start)
      (evolve Program.Demo.demoOps ⟨2, some 1, 9, true, 0, 2⟩ canonical
        (Program.Demo.truthyInit Program.Demo.emptyGiven)).trace = true ∧
    startVals 2 (evolve Program.Demo.demoOps ⟨2, some 1, 9, true, 0, 2⟩ canonical
        (Program.Demo.truthyInit Program.Demo.emptyGiven)).heap
      (evolve Program.Demo.demoOps ⟨2, some 1, 9, true, 0, 2⟩ canonical
        (Program.Demo.truthyInit Program.Demo.emptyGiven)).start
      ≠ startVals 2 Program.Demo.emptyGiven.heap Program.Demo.emptyGiven.start ∧
    initOK (startVals 2 Program.Demo.emptyGiven.heap Program.Demo.emptyGiven.start)
      (evolve Program.Demo.demoOps ⟨2, some 1, 9, true, 0, 2⟩ canonical Program.Demo.emptyGiven).trace = true ∧
    (Program.Demo.truthyInit Program.Demo.given).start = Program.Demo.given.start := by
  refine ⟨?_, ?_, ?_, ?_, ?_⟩
  · decide +kernel
  · decide +kernel
  · decide +kernel
  · decide +kernel
  · decide +kernel

/-- **The frame condition cannot be dropped.**  An operator that overwrites a cell of a stored start
    container although it is handed nothing (`rogueOps` writes cell 0) violates `Respects`, and the run
    violates the Spec: the initial state is modified and later replicates start from it. -/
theorem frame_condition_necessary :
    (∀ I : Unit → Heap (Cell Nat) → Prop, I () Program.Demo.given.heap →
      ¬ Respects I [0, 1, 2, 3, 4] Program.Demo.rogueOps) ∧
    specTrace sameOrEqual 2 1 true (startVals 2 Program.Demo.given.heap Program.Demo.given.start)
      (evolve Program.Demo.rogueOps ⟨2, some 1, 9, true, 0, 2⟩ canonical Program.Demo.given).trace = false := by
  constructor
  · intro I hI h
    have := (h.op .evaluate () Program.Demo.given.heap [] 0 0 hI Program.Demo.given_wf
      (Program.Demo.region_lt_length Program.Demo.given_wf Program.Demo.given_valid)
      (Program.Demo.iso_of_all_in Program.Demo.given_all_in) (by simp)).2.2.1 0 (InReg.of_mem (by simp))
    revert this
    decide +kernel
  · decide +kernel

/-- **Keeping references is harmless only because `reset()` deep-copies.**  `keeperOps` keep every
    reference they are handed and mutate the kept objects in every LATER call; they satisfy the
    footprint condition, and on the canonical skeleton the run meets the Spec with the start containers
    untouched.  If `reset()` hands out the stored `start_gmod` itself (`aliasGmod`), operators that
    mutate only what they are handed *now* (`demoOps`, which never touch `gmod`) still give a correct
    run, but the keeping operators modify the stored initial state in a later call: the dataflow
    analysis rejects the schedule and the run violates the Spec. -/
theorem kept_reference_alias_counterexample :
    Footprint (fun s : List Ref => s) Program.Demo.keeperOps ∧
    specTrace sameOrEqual 2 1 true (startVals 2 Program.Demo.givenK.heap Program.Demo.givenK.start)
      (evolve Program.Demo.keeperOps ⟨2, some 1, 9, true, 0, 2⟩ canonical Program.Demo.givenK).trace = true ∧
    (evolve Program.Demo.keeperOps ⟨2, some 1, 9, true, 0, 2⟩ canonical Program.Demo.givenK).heap.take 10
      = Program.Demo.given.heap ∧
    WellFormed Program.Demo.aliasGmod = false ∧
    specTrace sameOrEqual 2 1 true (startVals 2 Program.Demo.given.heap Program.Demo.given.start)
      (evolve Program.Demo.demoOps ⟨2, some 1, 9, true, 0, 2⟩ Program.Demo.aliasGmod Program.Demo.given).trace = true ∧
    specTrace sameOrEqual 2 1 true (startVals 2 Program.Demo.givenK.heap Program.Demo.givenK.start)
      (evolve Program.Demo.keeperOps ⟨2, some 1, 9, true, 0, 2⟩ Program.Demo.aliasGmod Program.Demo.givenK).trace = false ∧
    (evolve Program.Demo.keeperOps ⟨2, some 1, 9, true, 0, 2⟩ Program.Demo.aliasGmod Program.Demo.givenK).heap[4]?
      ≠ Program.Demo.given.heap[4]? := by
  refine ⟨Program.Demo.keeper_footprint, ?_, ?_, ?_, ?_, ?_, ?_⟩
  · decide +kernel
  · decide +kernel
  · decide +kernel
  · decide +kernel
  · decide +kernel
  · decide +kernel

/-- **A copy that stops above the deepest level is not enough.**  Start container 0 nested `d + 1`
    levels deep (`chainState d`), operators that mutate the deepest object below what they are handed,
    `reset()` copying `start_genome` only `k` levels deep (`levelSched k`; `k = 1` is `dict(x)`, `k = 2`
    is `{key: copy.copy(v) …}`): for every copy depth `k` up to the nesting depth minus one the run
    violates the Spec (the stored initial state is modified), for every nesting depth `d + 1 <= 5`;
    the dataflow analysis rejects every such schedule. -/
theorem shallow_level_counterexample :
    (∀ d, d < 5 → ∀ k, k ≤ d → Program.Demo.levelRunOK k d = false) ∧
    (∀ k, k < 6 → WellFormed (Program.Demo.levelSched k) = false) := by
  decide +kernel

/-- **`ndarray.copy()` of an object-dtype array is not a deep copy.**  `start_genome = {"h": [1], "k1": a}` with
    `a` a numpy array of dtype=object holding a record list and a marker vector (`objArrState`, driver cell
    conventions), an evaluation operator that edits both elements in place.  A `reset()` that copies the
    container as `{k: v.copy() for k, v in start.items()}` (`levelSched 2`: dict and array of references new,
    elements shared) violates the complete oracle — the stored elements are edited (cells 3, 4) — and is
    rejected by the dataflow analysis; a copy one level deeper, and the deep copy of the canonical skeleton
    (by `evolve_meets_call_spec` on every heap), keep the stored initial state intact. -/
theorem object_array_shallow_copy_counterexample :
    Program.Demo.objArrRunOK (Program.Demo.levelSched 2) = false ∧
    (Program.Demo.objArrRun (Program.Demo.levelSched 2)).heap[3]? = some ⟨[7, 101], []⟩ ∧
    (Program.Demo.objArrRun (Program.Demo.levelSched 2)).heap[4]? = some ⟨[-7, 8, 102], []⟩ ∧
    WellFormed (Program.Demo.levelSched 2) = false ∧
    Program.Demo.objArrRunOK (Program.Demo.levelSched 3) = true ∧
    Program.Demo.objArrRunOK canonical = true ∧
    (Program.Demo.objArrRun canonical).heap.take 13 = Program.Demo.objArrHeap := by
  decide +kernel

/-- the schedule of the current source on the same input: Spec met, stored elements untouched -/
example : Program.Demo.objArrRunOK C20Schedule.evolve = true ∧
    (Program.Demo.objArrRun C20Schedule.evolve).heap.take 13 = Program.Demo.objArrHeap := by decide +kernel

end C20
