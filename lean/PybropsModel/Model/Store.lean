/-
Model of the HDF5 persistence layer of pybrops (property C16).

* `pybrops/core/util/h5py.py`: `h5py_File_write_dict` (as it is after fix 93761174: when
  `overwrite`, an existing dataset is deleted first, a `None` field deletes what an earlier write left
  under its name, a nested dictionary replaces the earlier group), the typed readers,
  `h5py_File_read_dict` (after fix 9631bba1: scalar string members are decoded).  The pre-repair
  versions are kept as `…Prerepair` for the counterexamples only;
* `TruePhenotyping.to_hdf5` after the repair of D30 (`require_group`; explicit groups are marker entries of the map);
* the `to_hdf5` / `from_hdf5` pairs of DensePhasedGenotypeMatrix, DenseGenotypeMatrix,
  DenseBreedingValueMatrix, DenseCoancestryMatrix (through DenseTaxaMatrix),
  DenseTwoWayDHAdditiveGeneticVarianceMatrix (through DenseSquareTaxaTraitMatrix),
  DenseAdditiveLinearGenomicModel, DenseAdditiveDominanceLinearGenomicModel, G_E_Phenotyping:
  one *schema* (field list, reader per field, which fields are read unconditionally, constructor
  checks and defaults) per class.

An HDF5 file is a finite map `path ↦ dataset`; groups are implicit (a group exists iff some dataset
lives below it — `write_dict` never leaves an empty group behind because every delete is followed
by a create at the same path, or the group is emptied on purpose and nothing tests for it).  h5py itself is trusted through the contract
"dataset read = dataset written" (+ variable-length strings come back as `bytes`).

Core Lean only; executed by the driver.
-/
namespace Store

/-! ### datasets -/

inductive DType | i8 | i32 | i64 | f32 | f64 | bool | str | bytes
  deriving DecidableEq, Repr, Inhabited

/-- a dataset / numpy array / Python scalar (`shape = []`): dtype tag, shape, flat payload
    (`ints` for i8/i32/i64/bool, `rats` for f32/f64, `strs` for str/bytes) -/
structure DS where
  dtype : DType
  shape : List Nat
  ints : List Int
  rats : List Rat
  strs : List String
  deriving DecidableEq, Repr, Inhabited

inductive Err | exists_ | notGroup | missing | type | shape | value | root | name
  deriving DecidableEq, Repr, Inhabited

abbrev Path := List String
abbrev File := List (Path × DS)

/-- h5py path normalisation: repeated, leading and trailing `/` and `.` components vanish -/
def parsePath (s : String) : Path := (s.splitOn "/").filter (fun c => c != "" && c != ".")

/-! ### h5py primitives -/

/-- `h5file[p][()]` for a dataset path -/
def lookup (f : File) (p : Path) : Option DS := List.lookup p f

/-- `p in h5file`: `p` names a dataset or a (non-empty) group; the root always exists -/
def mem (f : File) (p : Path) : Bool := p == [] || f.any (fun e => p.isPrefixOf e.1)

/-- `del h5file[p]`: removes the dataset, or the whole group below `p` -/
def del (f : File) (p : Path) : File := f.filter (fun e => !(p.isPrefixOf e.1))

/-- `h5file.create_dataset(p, data = d)`: fails when the name exists (dataset or group) and when a
    proper prefix of `p` is a dataset -/
def create (f : File) (p : Path) (d : DS) : File × Option Err :=
  if p == [] then (f, some .root)
  else if mem f p then (f, some .exists_)
  else if f.any (fun e => e.1.isPrefixOf p) then (f, some .notGroup)
  else ((p, d) :: f, none)

/-! ### `h5py_File_write_dict` -/

/-- values of the dictionary handed to `h5py_File_write_dict` -/
inductive Item
  | none                                         -- Python `None`
  | data (d : DS)                                -- ndarray / str / int / float / numpy scalar
  | dict (kvs : List (String × Option DS))       -- nested dictionary (one level: `hyperparams`)
  | bad                                          -- any other type ⇒ ValueError
  deriving DecidableEq, Repr, Inhabited

abbrev Obj := List (String × Item)

/-- `if (fieldname in h5file) and overwrite: del h5file[fieldname]; h5file.create_dataset(...)` -/
def putLeaf (f : File) (p : Path) (ow : Bool) (d : DS) : File × Option Err :=
  create (if mem f p && ow then del f p else f) p d

/-- the loop of `h5py_File_write_dict` over a dictionary whose values are leaves or `None` -/
def writeLeaves (g : Path) (ow : Bool) : File → List (String × Option DS) → File × Option Err
  | f, [] => (f, none)
  | f, (_, none) :: rest => writeLeaves g ow f rest
  | f, (k, some d) :: rest =>
    match putLeaf f (g ++ [k]) ow d with
    | (f', none) => writeLeaves g ow f' rest
    | r => r

/-- `h5py_File_write_dict` BEFORE fix 93761174 (defect D8), kept for the counterexample.
    `None` ⇒ `continue` (nothing is deleted); nested dictionaries recurse with the default
    `overwrite = True` (the argument is not passed down).  The file is returned together with the
    error, because a failing write leaves the fields written so far in place. -/
def writeItemsPrerepair (g : Path) (ow : Bool) : File → Obj → File × Option Err
  | f, [] => (f, none)
  | f, (_, .none) :: rest => writeItemsPrerepair g ow f rest
  | f, (k, .data d) :: rest =>
    match putLeaf f (g ++ [k]) ow d with
    | (f', none) => writeItemsPrerepair g ow f' rest
    | r => r
  | f, (k, .dict kvs) :: rest =>
    match writeLeaves (g ++ [k]) true f kvs with
    | (f', none) => writeItemsPrerepair g ow f' rest
    | r => r
  | f, (_, .bad) :: _ => (f, some .value)

/-- `h5py_File_write_dict(h5file, groupname, in_dict, overwrite)` as it is: when overwriting, a `None` field deletes what an earlier write left at
    that name, and a nested dictionary replaces the earlier group instead of being merged into it -/
def writeItems (g : Path) (ow : Bool) : File → Obj → File × Option Err
  | f, [] => (f, none)
  | f, (k, .none) :: rest =>
    writeItems g ow (if ow && mem f (g ++ [k]) then del f (g ++ [k]) else f) rest
  | f, (k, .data d) :: rest =>
    match putLeaf f (g ++ [k]) ow d with
    | (f', none) => writeItems g ow f' rest
    | r => r
  | f, (k, .dict kvs) :: rest =>
    match writeLeaves (g ++ [k]) true (if ow && mem f (g ++ [k]) then del f (g ++ [k]) else f) kvs with
    | (f', none) => writeItems g ow f' rest
    | r => r
  | f, (_, .bad) :: _ => (f, some .value)

/-! ### typed readers -/

inductive Reader | raw | int8 | int64 | utf8arr | scalarInt | utf8 | dict
  deriving DecidableEq, Repr, Inhabited

def wrap8 (i : Int) : Int := (i + 128) % 256 - 128

/-- what `h5file[p][()]` hands back: variable-length strings arrive as `bytes` -/
def rawOf (d : DS) : DS := if d.dtype == .str then { d with dtype := .bytes } else d

/-- what the reader returns for a dataset holding `d` (h5py hands variable-length strings back as
    `bytes`; the utf8 readers decode them, the raw reader does not) -/
def applyReader : Reader → DS → Except Err DS
  | .raw, d => pure (rawOf d)
  | .int8, d =>
    match d.dtype with
    | .i8 => pure d
    | .i64 | .i32 | .bool => pure { d with dtype := .i8, ints := d.ints.map wrap8 }
    | .f64 | .f32 => pure { d with dtype := .i8, ints := d.rats.map (fun q => wrap8 (Int.tdiv q.num q.den)), rats := [] }
    | _ => throw .type
  | .int64, d =>
    match d.dtype with
    | .i64 => pure d
    | .i8 | .i32 | .bool => pure { d with dtype := .i64 }
    | .f64 | .f32 => pure { d with dtype := .i64, ints := d.rats.map (fun q => Int.tdiv q.num q.den), rats := [] }
    | _ => throw .type
  | .utf8arr, d =>
    if d.shape == [] then throw .type          -- iteration over a 0-d array
    else match d.dtype with
      | .str | .bytes => pure { d with dtype := .str }
      | _ => throw .type                       -- an object array of numbers: never a validG label array
  | .scalarInt, d =>
    match d.dtype, d.shape with
    | .i64, [] | .i32, [] | .i8, [] | .bool, [] => pure { d with dtype := .i64 }
    | .f64, [] | .f32, [] => pure { d with dtype := .i64, ints := d.rats.map (fun q => Int.tdiv q.num q.den), rats := [] }
    | _, _ => throw .type
  | .utf8, d =>
    match d.dtype, d.shape with
    | .str, [] | .bytes, [] => pure { d with dtype := .str }
    | _, _ => throw .type
  | .dict, _ => throw .type

/-- `h5py_File_read_dict` decodes a scalar string member (`dec = true`, the code as it is);
    `dec = false` is the reader before fix 9631bba1 (defect D29) -/
def decodeScalar (dec : Bool) (d : DS) : DS :=
  if dec && d.dtype == .bytes && d.shape == [] then { d with dtype := .str } else d

/-- datasets strictly below the group `p` -/
def childrenOf (f : File) (p : Path) : File := f.filter (fun e => p.isPrefixOf e.1 && e.1 != p)

/-- one member of the group: its name and raw value; a member that is itself a group fails
    (`view[key][()]` on a Group) -/
def dictEntry (dec : Bool) (p : Path) (e : Path × DS) : Except Err (String × Option DS) :=
  match e.1.drop p.length with
  | [k] => pure (k, some (decodeScalar dec (rawOf e.2)))
  | _ => throw .type

def keyLe (a b : String × Option DS) : Bool := decide (a.1 ≤ b.1)

/-- insertion sort by name (structural recursion, so that closed instances evaluate in the kernel) -/
def insKey (a : String × Option DS) : List (String × Option DS) → List (String × Option DS)
  | [] => [a]
  | b :: l => if keyLe a b then a :: b :: l else b :: insKey a l

def sortKeys : List (String × Option DS) → List (String × Option DS)
  | [] => []
  | b :: l => insKey b (sortKeys l)

/-- `h5py_File_read_dict`: every member of the group read raw (so a `str` value comes back as
    `bytes`; `dec = true` is the patched reader), in h5py's iteration order = by name -/
def readDictG (dec : Bool) (f : File) (p : Path) : Except Err (List (String × Option DS)) := do
  let l ← (childrenOf f p).mapM (dictEntry dec p)
  pure (sortKeys l)

structure Field where
  key : String
  reader : Reader
  /-- read unconditionally (`data["mat"] = read(...)`), otherwise guarded by `name in h5file` -/
  required : Bool
  deriving DecidableEq, Repr, Inhabited

def readOne (dec : Bool) (f : File) (p : Path) (r : Reader) : Except Err Item :=
  match r with
  | .dict => do let kvs ← readDictG dec f p; pure (.dict kvs)
  | r =>
    match lookup f p with
    | some d => do let d' ← applyReader r d; pure (.data d')
    | none => throw .missing           -- absent, or a group where a dataset is expected

/-- one field: read unconditionally, or only when `name in h5file` -/
def readField (dec : Bool) (f : File) (g : Path) (fd : Field) : Except Err Item :=
  if fd.required || mem f (g ++ [fd.key]) then readOne dec f (g ++ [fd.key]) fd.reader
  else pure Item.none

def readFields (dec : Bool) (f : File) (g : Path) : List Field → Except Err Obj
  | [] => pure []
  | fd :: rest => do
    let it ← readField dec f g fd
    let tl ← readFields dec f g rest
    pure ((fd.key, it) :: tl)

/-! ### objects, constructors -/

def Obj.get (o : Obj) (k : String) : Item := (List.lookup k o).getD .none

def Obj.set (o : Obj) (k : String) (it : Item) : Obj :=
  o.map (fun e => if e.1 == k then (k, it) else e)

inductive Kind | int | f64 | real | obj | bool | i8 | i64 | any
  deriving DecidableEq, Repr, Inhabited

def kindOk : Kind → DType → Bool
  | .int, t => t == .i8 || t == .i32 || t == .i64
  | .f64, t => t == .f64
  | .real, t => t == .f64 || t == .f32 || t == .i8 || t == .i32 || t == .i64
  | .obj, t => t == .str || t == .bytes        -- numpy object arrays (of str, or of bytes)
  | .bool, t => t == .bool
  | .i8, t => t == .i8
  | .i64, t => t == .i64
  | .any, _ => true

def chk (c : Bool) (e : Err) : Except Err Unit := if c then pure () else throw e

def mkInt (i : Int) : DS := ⟨.i64, [], [i], [], []⟩
def mkStr (s : String) : DS := ⟨.str, [], [], [], [s]⟩

/-- a mandatory array argument -/
def needArr (o : Obj) (k : String) (kind : Kind) (ndim : Option Nat) : Except Err DS :=
  match o.get k with
  | .data d => do
    chk (kindOk kind d.dtype) .type
    chk (match ndim with | some n => d.shape.length == n | none => true) .shape
    pure d
  | _ => throw .type

/-- an optional array argument: `None` is kept; otherwise dtype kind, ndim and (optionally) the
    length along axis 0 are checked, as the property setters do -/
def optArr (o : Obj) (k : String) (kind : Kind) (ndim : Nat) (len : Option Nat) : Except Err Unit :=
  match o.get k with
  | .none => pure ()
  | .data d => do
    chk (kindOk kind d.dtype) .type
    chk (d.shape.length == ndim) .shape
    chk (match len with | some n => d.shape.head? == some n | none => true) .shape
  | _ => throw .type

def optArrs (o : Obj) (ks : List String) (kind : Kind) (ndim : Nat) (len : Option Nat) : Except Err Unit :=
  ks.forM (fun k => optArr o k kind ndim len)

def taxaMeta : List String := ["taxa_grp_name", "taxa_grp_stix", "taxa_grp_spix", "taxa_grp_len"]
def vrntMeta : List String := ["vrnt_chrgrp_name", "vrnt_chrgrp_stix", "vrnt_chrgrp_spix", "vrnt_chrgrp_len"]

def checkVrnt (o : Obj) (p : Nat) : Except Err Unit := do
  optArrs o ["vrnt_chrgrp", "vrnt_phypos", "vrnt_hapgrp"] .int 1 (some p)
  optArrs o ["vrnt_name", "vrnt_hapalt", "vrnt_hapref"] .obj 1 (some p)
  optArrs o ["vrnt_genpos", "vrnt_xoprob"] .f64 1 (some p)
  optArr o "vrnt_mask" .bool 1 (some p)
  optArrs o vrntMeta .int 1 none

/-- DensePhasedGenotypeMatrix(mat (m,n,p) int8, …); `ploidy` is not stored, it is `mat.shape[0]` -/
def constructPGMat (o : Obj) : Except Err Obj := do
  let mat ← needArr o "mat" .i8 (some 3)
  let n := mat.shape.getD 1 0
  let p := mat.shape.getD 2 0
  optArr o "taxa" .obj 1 (some n)
  optArr o "taxa_grp" .int 1 (some n)
  checkVrnt o p
  optArrs o taxaMeta .int 1 none
  pure (o.set "ploidy" (.data (mkInt (mat.shape.getD 0 0))))

/-- DenseGenotypeMatrix(mat (n,p) int8, …, ploidy = 2) -/
def constructGMat (o : Obj) : Except Err Obj := do
  let mat ← needArr o "mat" .i8 (some 2)
  let n := mat.shape.getD 0 0
  let p := mat.shape.getD 1 0
  optArr o "taxa" .obj 1 (some n)
  optArr o "taxa_grp" .int 1 (some n)
  checkVrnt o p
  optArrs o taxaMeta .int 1 none
  match o.get "ploidy" with
  | .none => pure (o.set "ploidy" (.data (mkInt 2)))
  | .data d => do chk (d.dtype == .i64 && d.shape == []) .type; pure o
  | _ => throw .type

/-- DenseBreedingValueMatrix(mat (n,t), location (t,), scale (t,) ≥ 0, taxa, taxa_grp, trait) -/
def constructBV (o : Obj) : Except Err Obj := do
  let mat ← needArr o "mat" .any (some 2)
  let n := mat.shape.getD 0 0
  let t := mat.shape.getD 1 0
  optArr o "taxa" .obj 1 (some n)
  optArr o "taxa_grp" .int 1 (some n)
  optArr o "trait" .obj 1 (some t)
  let loc ← needArr o "location" .any (some 1)
  chk (loc.shape == [t]) .shape
  let sc ← needArr o "scale" .any (some 1)
  chk (sc.shape == [t]) .shape
  chk (sc.rats.all (fun q => decide (0 ≤ q)) && sc.ints.all (fun i => decide (0 ≤ i))) .value
  optArrs o taxaMeta .int 1 none
  pure o

/-- DenseCoancestryMatrix(mat (n,n) float64, taxa, taxa_grp int64) -/
def constructCMat (o : Obj) : Except Err Obj := do
  let mat ← needArr o "mat" .f64 none
  chk (match mat.shape with | [a, b] => a == b | _ => false) .shape
  let n := mat.shape.getD 0 0
  optArr o "taxa" .obj 1 (some n)
  optArr o "taxa_grp" .i64 1 (some n)
  optArrs o taxaMeta .i64 1 none
  pure o

/-- DenseTwoWayDHAdditiveGeneticVarianceMatrix(mat (n,n,t), taxa, taxa_grp, trait) -/
def constructVMat (o : Obj) : Except Err Obj := do
  let mat ← needArr o "mat" .any (some 3)
  let n := mat.shape.getD 0 0
  let t := mat.shape.getD 2 0
  optArr o "taxa" .obj 1 (some n)
  optArr o "taxa_grp" .int 1 (some n)
  optArr o "trait" .obj 1 (some t)
  optArrs o taxaMeta .int 1 none
  pure o

/-- Dense{Three,Four}WayDHAdditiveGeneticVarianceMatrix(mat (n,…,n,t) with `k` taxa axes, taxa,
    taxa_grp, trait): the `mat` setter checks `ndim = k + 1`, the label setters the length along axis 0
    (taxa) and along the last axis (traits) -/
def constructVMatK (k : Nat) (o : Obj) : Except Err Obj := do
  let mat ← needArr o "mat" .any (some (k + 1))
  let n := mat.shape.getD 0 0
  let t := mat.shape.getD k 0
  optArr o "taxa" .obj 1 (some n)
  optArr o "taxa_grp" .int 1 (some n)
  optArr o "trait" .obj 1 (some t)
  optArrs o taxaMeta .int 1 none
  pure o

/-! the base classes of `pybrops.core.mat` (each has a `to_hdf5` / `from_hdf5` / `__copy__` / `__deepcopy__` of its own) -/

/-- DenseMatrix(mat): any array -/
def constructDMat (o : Obj) : Except Err Obj := do
  let _ ← needArr o "mat" .any none
  pure o

/-- DenseTaxaMatrix(mat, taxa, taxa_grp): taxa along axis 0, `mat.ndim ≥ 1` -/
def constructTMat (o : Obj) : Except Err Obj := do
  let mat ← needArr o "mat" .any none
  chk (decide (1 ≤ mat.shape.length)) .shape
  let n := mat.shape.getD 0 0
  optArr o "taxa" .obj 1 (some n)
  optArr o "taxa_grp" .int 1 (some n)
  optArrs o taxaMeta .int 1 none
  pure o

/-- DenseVariantMatrix(mat, vrnt_…): variants along axis 0 -/
def constructVrMat (o : Obj) : Except Err Obj := do
  let mat ← needArr o "mat" .any none
  chk (decide (1 ≤ mat.shape.length)) .shape
  checkVrnt o (mat.shape.getD 0 0)
  pure o

/-- DenseTaxaVariantMatrix(mat, taxa, taxa_grp, vrnt_…): taxa along axis 0, variants along axis 1 -/
def constructTVMat (o : Obj) : Except Err Obj := do
  let mat ← needArr o "mat" .any none
  chk (decide (2 ≤ mat.shape.length)) .shape
  let n := mat.shape.getD 0 0
  optArr o "taxa" .obj 1 (some n)
  optArr o "taxa_grp" .int 1 (some n)
  checkVrnt o (mat.shape.getD 1 0)
  optArrs o taxaMeta .int 1 none
  pure o

/-- DenseTraitMatrix(mat, trait): traits along axis 0 -/
def constructTrMat (o : Obj) : Except Err Obj := do
  let mat ← needArr o "mat" .any none
  chk (decide (1 ≤ mat.shape.length)) .shape
  optArr o "trait" .obj 1 (some (mat.shape.getD 0 0))
  pure o

/-- DenseTaxaTraitMatrix(mat (n,t), taxa, taxa_grp, trait) -/
def constructTTMat (o : Obj) : Except Err Obj := do
  let mat ← needArr o "mat" .any none
  chk (decide (2 ≤ mat.shape.length)) .shape
  let n := mat.shape.getD 0 0
  optArr o "taxa" .obj 1 (some n)
  optArr o "taxa_grp" .int 1 (some n)
  optArr o "trait" .obj 1 (some (mat.shape.getD 1 0))
  optArrs o taxaMeta .int 1 none
  pure o

/-- DenseSquareTaxaSquareTraitMatrix(mat (n,n,t,t), taxa, taxa_grp, trait) and the progeny covariance matrices -/
def constructSq4 (o : Obj) : Except Err Obj := do
  let mat ← needArr o "mat" .any (some 4)
  let n := mat.shape.getD 0 0
  optArr o "taxa" .obj 1 (some n)
  optArr o "taxa_grp" .int 1 (some n)
  optArr o "trait" .obj 1 (some (mat.shape.getD 2 0))
  optArrs o taxaMeta .int 1 none
  pure o

def emptyRows (t : Nat) : DS := ⟨.f64, [0, t], [], [], []⟩

/-- the `u_misc`/`u_a`/`u_d` setters: `None` ⇒ `numpy.empty((0,t))` -/
def effDefault (o : Obj) (k : String) (t : Nat) : Except Err Obj :=
  match o.get k with
  | .none => pure (o.set k (.data (emptyRows t)))
  | .data d => do chk (d.dtype == .f64) .type; chk (d.shape.length == 2) .shape; pure o
  | _ => throw .type

def modelTail (o : Obj) : Except Err Obj := do
  optArr o "trait" .obj 1 none
  let o ← match o.get "model_name" with
    | .none => pure (o.set "model_name" (.data (mkStr "")))
    | .data d => do chk (d.dtype == .str && d.shape == []) .type; pure o
    | _ => throw .type
  match o.get "hyperparams" with
  | .none => pure (o.set "hyperparams" (.dict []))
  | .dict _ => pure o
  | _ => throw .type

/-- DenseAdditiveLinearGenomicModel(beta, u_misc, u_a, trait, model_name, hyperparams) -/
def constructALG (o : Obj) : Except Err Obj := do
  let beta ← needArr o "beta" .f64 (some 2)
  let t := beta.shape.getD 1 0
  let o ← effDefault o "u_misc" t
  let o ← effDefault o "u_a" t
  modelTail o

/-- DenseAdditiveDominanceLinearGenomicModel(beta, u_misc, u_a, u_d, trait, model_name, hyperparams) -/
def constructADLG (o : Obj) : Except Err Obj := do
  let beta ← needArr o "beta" .f64 (some 2)
  let t := beta.shape.getD 1 0
  let o ← effDefault o "u_misc" t
  let o ← effDefault o "u_a" t
  let o ← effDefault o "u_d" t
  modelTail o

def zerosF (t : Nat) : DS := ⟨.f64, [t], [], List.replicate t 0, []⟩

def varDefault (o : Obj) (k : String) (t : Nat) : Except Err Obj :=
  match o.get k with
  | .none => pure (o.set k (.data (zerosF t)))
  | .data d => do
    chk (kindOk .real d.dtype) .type
    chk (d.shape == [t]) .shape
    chk (d.rats.all (fun q => decide (0 ≤ q)) && d.ints.all (fun i => decide (0 ≤ i))) .value
    pure (if d.dtype == .f64 then o
          else if d.dtype == .f32 then o.set k (.data { d with dtype := .f64 })
          else o.set k (.data { d with dtype := .f64, rats := d.ints.map (fun (i : Int) => ((i : Int) : Rat)), ints := [] }))
  | _ => throw .type

/-- G_E_Phenotyping(gpmod, nenv, nrep, var_env, var_rep, var_err); `t` = `gpmod.ntrait` of the
    model handed to `from_hdf5` -/
def constructGE (t : Nat) (o : Obj) : Except Err Obj := do
  let nenv ← needArr o "nenv" .i64 (some 0)
  let ne := nenv.ints.headD 0
  chk (decide (0 < ne)) .value
  let nrep ← needArr o "nrep" .int (some 1)
  chk (nrep.shape == [ne.toNat]) .shape
  chk (nrep.ints.all (fun i => decide (0 < i))) .value
  let o ← varDefault o "var_env" t
  let o ← varDefault o "var_rep" t
  varDefault o "var_err" t

/-! ### schemas -/

structure Schema where
  name : String
  fields : List Field
  construct : Obj → Except Err Obj

def fOpt (k : String) (r : Reader := .raw) : Field := ⟨k, r, false⟩
def fReq (k : String) (r : Reader := .raw) : Field := ⟨k, r, true⟩

def taxaFields : List Field := [fOpt "taxa" .utf8arr, fOpt "taxa_grp"]
def taxaMetaFields : List Field := taxaMeta.map (fOpt ·)
def vrntFields : List Field :=
  [fOpt "vrnt_chrgrp", fOpt "vrnt_phypos", fOpt "vrnt_name" .utf8arr, fOpt "vrnt_genpos",
   fOpt "vrnt_xoprob", fOpt "vrnt_hapgrp", fOpt "vrnt_hapalt" .utf8arr, fOpt "vrnt_hapref" .utf8arr,
   fOpt "vrnt_mask"]
def vrntMetaFields : List Field := vrntMeta.map (fOpt ·)

def gmatFields : List Field :=
  [fReq "mat" .int8] ++ taxaFields ++ vrntFields ++ [fOpt "ploidy" .scalarInt] ++ taxaMetaFields ++ vrntMetaFields

def pgmatSchema : Schema := ⟨"pgmat", gmatFields, constructPGMat⟩
def gmatSchema : Schema := ⟨"gmat", gmatFields, constructGMat⟩
def bvmatSchema : Schema :=
  ⟨"bvmat", [fReq "mat", fReq "location", fReq "scale", fOpt "taxa" .utf8arr, fOpt "taxa_grp",
             fOpt "trait" .utf8arr] ++ taxaMetaFields, constructBV⟩
def cmatSchema : Schema := ⟨"cmat", [fReq "mat"] ++ taxaFields ++ taxaMetaFields, constructCMat⟩
def vmatSchema : Schema :=
  ⟨"vmat", [fReq "mat"] ++ taxaFields ++ [fOpt "trait" .utf8arr] ++ taxaMetaFields, constructVMat⟩
/-- variance matrices with `k` parental axes: same field list as the two-way class -/
def vmatKSchema (k : Nat) : Schema := ⟨"vmat", vmatSchema.fields, constructVMatK k⟩
def modelTailFields : List Field := [fOpt "trait" .utf8arr, fOpt "model_name" .utf8, fOpt "hyperparams" .dict]
def algSchema : Schema := ⟨"algmod", [fReq "beta", fReq "u_misc", fReq "u_a"] ++ modelTailFields, constructALG⟩
def adlgSchema : Schema :=
  ⟨"adlgmod", [fReq "beta", fReq "u_misc", fReq "u_a", fReq "u_d"] ++ modelTailFields, constructADLG⟩
def geSchema (t : Nat) : Schema :=
  ⟨"ge", [fReq "nenv" .scalarInt, fReq "nrep" .int64, fOpt "var_env", fOpt "var_rep", fOpt "var_err"],
   constructGE t⟩

def dmatSchema : Schema := ⟨"dmat", [fReq "mat"], constructDMat⟩
def tmatSchema : Schema := ⟨"tmat", [fReq "mat"] ++ taxaFields ++ taxaMetaFields, constructTMat⟩
def vrmatSchema : Schema := ⟨"vrmat", [fReq "mat"] ++ vrntFields ++ vrntMetaFields, constructVrMat⟩
def tvmatSchema : Schema :=
  ⟨"tvmat", [fReq "mat"] ++ taxaFields ++ vrntFields ++ taxaMetaFields ++ vrntMetaFields, constructTVMat⟩
def trmatSchema : Schema := ⟨"trmat", [fReq "mat", fOpt "trait" .utf8arr], constructTrMat⟩
def ttmatSchema : Schema := ⟨"ttmat", vmatSchema.fields, constructTTMat⟩
def sq4Schema : Schema := ⟨"sq4", vmatSchema.fields, constructSq4⟩

/-- TruePhenotyping(gpmod): no stored parameter at all — `to_hdf5` hands an EMPTY dictionary to
    `h5py_File_write_dict`, `from_hdf5` reads nothing and builds the protocol around the model it is given -/
def tpSchema : Schema := ⟨"tp", [], fun o => pure o⟩

def schemaOf (name : String) (ctx : Nat) : Option Schema :=
  match name with
  | "pgmat" => some pgmatSchema
  | "gmat" => some gmatSchema
  | "bvmat" => some bvmatSchema
  | "cmat" => some cmatSchema
  | "vmat" => some vmatSchema
  | "vmat3" => some (vmatKSchema 3)
  | "vmat4" => some (vmatKSchema 4)
  | "algmod" => some algSchema
  | "adlgmod" => some adlgSchema
  | "ge" => some (geSchema ctx)
  | "tp" => some tpSchema
  | "dmat" => some dmatSchema
  | "tmat" => some tmatSchema
  | "vrmat" => some vrmatSchema
  | "tvmat" => some tvmatSchema
  | "trmat" => some trmatSchema
  | "ttmat" => some ttmatSchema
  | "sttmat" => some vmatSchema        -- DenseSquareTaxaTraitMatrix: the parent of the two-way variance matrices
  | "sq4" => some sq4Schema
  | _ => none

/-! ### `to_hdf5` / `from_hdf5` -/

/-- group argument: `None` ⇒ base group; a string gets a trailing `/` — `groupname[-1]` raises
    IndexError for the empty string -/
def groupPath : Option String → Except Err Path
  | none => pure []
  | some s => if s.isEmpty then throw .name else pure (parsePath s)

/-- `obj.to_hdf5(file, groupname, overwrite)`; `fixed` selects the patched `write_dict` -/
def toHdf5G (fixed : Bool) (f : File) (gname : Option String) (ow : Bool) (o : Obj) : File × Option Err :=
  match groupPath gname with
  | .error e => (f, some e)
  | .ok g => if fixed then writeItems g ow f o else writeItemsPrerepair g ow f o

/-! ### explicit (possibly empty) groups: `h5file.require_group`

In the finite map `path ↦ dataset` a group that was created on purpose is represented by a *marker* entry
at `g ++ [markKey]`.  `markKey` is the empty string: `parsePath` never yields an empty component and no
class has an empty field name, so a marker can never collide with a dataset.  With this representation
`mem f g` ("`g in h5file`") is true for `g` and for every ancestor of `g` (h5py creates the intermediate
groups as well), `del f p` removes the marker together with `p` when `p` is `g` or an ancestor, and
`create` of a dataset below `g` is not hindered.  Groups that `create_dataset` makes implicitly are not
tracked: they never become empty in a history of complete `to_hdf5` calls. -/

def markKey : String := ""
def markDS : DS := ⟨.bool, [], [], [], []⟩

/-- `h5file.require_group(g)`: nothing happens when the group object is there already; otherwise it is created —
    which fails when `g` or one of its ancestors is a dataset -/
def requireGroup (f : File) (g : Path) : File × Option Err :=
  if mem f (g ++ [markKey]) then (f, none) else create f (g ++ [markKey]) markDS

/-- `TruePhenotyping.to_hdf5(file, groupname, overwrite)` as it is after the repair of D30: the protocol has no
    parameter of its own, so the (empty) dictionary writes nothing; `if groupname != "": h5file.require_group(groupname)`
    makes the named group exist all the same (`"/"` is the root: nothing to create) -/
def toHdf5TP (f : File) (gname : Option String) (ow : Bool) : File × Option Err :=
  match groupPath gname with
  | .error e => (f, some e)
  | .ok g =>
    match (if g == [] then (f, none) else requireGroup f g) with
    | (f', none) => writeItems g ow f' []
    | r => r

/-- `TruePhenotyping.to_hdf5` BEFORE the repair of D30 (kept for the counterexample): only the empty dictionary -/
def toHdf5TPPrerepair (f : File) (gname : Option String) (ow : Bool) : File × Option Err :=
  toHdf5G true f gname ow []

/-- the reading half of `from_hdf5` before the constructor is called -/
def checkRequired (f : File) (g : Path) : List Field → Except Err Unit
  | [] => pure ()
  | fd :: rest => do
    chk (!fd.required || mem f (g ++ [fd.key])) .missing
    checkRequired f g rest

def readRaw (dec : Bool) (sch : Schema) (f : File) (g : Path) : Except Err Obj := do
  checkRequired f g sch.fields
  readFields dec f g sch.fields

/-- `from_hdf5` once the group argument has been resolved to a path: read, then construct -/
def fromHdf5AtG (dec : Bool) (sch : Schema) (f : File) (g : Path) : Except Err Obj := do
  let raw ← readRaw dec sch f g
  sch.construct raw

/-- `cls.from_hdf5(file, groupname)`; `dec = false` is the pre-repair dictionary reader -/
def fromHdf5G (dec : Bool) (sch : Schema) (f : File) (gname : Option String) : Except Err Obj := do
  let g ← match gname with
    | none => pure []
    | some s => do
      chk (mem f (parsePath s) && !s.isEmpty) .missing     -- check_h5py_File_has_group(h5file, groupname)
      pure (parsePath s)
  fromHdf5AtG dec sch f g

/-! ### validity of an object w.r.t. a class (hypotheses of the round-trip theorems; decidable,
       evaluated by the driver on every generated object) -/

/-- a dictionary that `h5py_File_read_dict` reproduces: no `None` value (HDF5 has no null), every
    value unchanged by the raw read (`dec = false`: no `str` value!), names strictly increasing
    (our canonical representation of a Python dict) -/
def dictOK (dec : Bool) (kvs : List (String × Option DS)) : Bool :=
  kvs.all (fun kv => match kv.2 with
    | some d => decodeScalar dec (rawOf d) == d
    | none => false)
  && decide (kvs.Pairwise (fun a b => a.1 < b.1))

/-- the field's reader gives back the stored value unchanged -/
def stable (dec : Bool) (fd : Field) : Item → Bool
  | .none => !fd.required
  | .data d => fd.reader != .dict &&
      (match applyReader fd.reader d with
       | .ok d' => d' == d
       | .error _ => false)
  | .dict kvs => fd.reader == .dict && !fd.required && dictOK dec kvs
  | .bad => false

/-- an empty dictionary leaves nothing in the file: it is read back as "absent" -/
def norm : Item → Item
  | .dict [] => .none
  | it => it

def normObj (o : Obj) : Obj := o.map (fun kv => (kv.1, norm kv.2))

/-- same field names, in the order of the class's `to_hdf5`, each value stable under its reader -/
def conformsG (dec : Bool) (sch : Schema) (o : Obj) : Bool :=
  (o.map Prod.fst == sch.fields.map (·.key)) &&
  (List.zipWith (stable dec) sch.fields (o.map Prod.snd)).all id

/-- `o` is the state of an object of the class: it conformsG and the constructor, given the
    values that are read back, stores exactly `o` -/
def validG (dec : Bool) (sch : Schema) (o : Obj) : Bool :=
  conformsG dec sch o &&
  (match sch.construct (normObj o) with
   | .ok o' => o' == o
   | .error _ => false)

/-! ### histories -/

/-- one `to_hdf5` call of a history -/
structure Write where
  g : Path
  obj : Obj
  deriving Repr

/-- a history of overwriting writes starting from `f`; stops at the first failing write -/
def runHistG (fixed : Bool) : File → List Write → File × Option Err
  | f, [] => (f, none)
  | f, w :: rest =>
    match (if fixed then writeItems w.g true f w.obj else writeItemsPrerepair w.g true f w.obj) with
    | (f', none) => runHistG fixed f' rest
    | r => r

/-! ### histories in which some classes make their group first (TruePhenotyping) -/

/-- only `TruePhenotyping.to_hdf5` calls `h5file.require_group(groupname)` (it has no dataset that would make
    the group exist) -/
def requiresGroup (sch : Schema) : Bool := sch.name == "tp"

/-- one `to_hdf5` call of a history over all classes: `grp` = the class's `to_hdf5` makes the named group first -/
structure WriteX where
  g : Path
  obj : Obj
  grp : Bool
  deriving Repr

/-- the `to_hdf5` call of an object of class `sch` to the group `g` -/
def writeOf (sch : Schema) (g : Path) (o : Obj) : WriteX := ⟨g, o, requiresGroup sch⟩

/-- one overwriting `to_hdf5` call (`if groupname != "": require_group` for the classes that do it) -/
def stepX (f : File) (x : WriteX) : File × Option Err :=
  match (if x.grp && x.g != [] then requireGroup f x.g else (f, none)) with
  | (f', none) => writeItems x.g true f' x.obj
  | r => r

/-- a history of overwriting writes of any classes starting from `f`; stops at the first failing write -/
def runHistX : File → List WriteX → File × Option Err
  | f, [] => (f, none)
  | f, x :: rest =>
    match stepX f x with
    | (f', none) => runHistX f' rest
    | r => r

/-! ### the code as it is now, and the two pre-repair entry points -/

def toHdf5 (f : File) (gname : Option String) (ow : Bool) (o : Obj) : File × Option Err := toHdf5G true f gname ow o
def runHist (f : File) (H : List Write) : File × Option Err := runHistG true f H
/-- `h5py_File_read_dict` -/
def readDict (f : File) (p : Path) : Except Err (List (String × Option DS)) := readDictG true f p
def fromHdf5At (sch : Schema) (f : File) (g : Path) : Except Err Obj := fromHdf5AtG true sch f g
def fromHdf5 (sch : Schema) (f : File) (gname : Option String) : Except Err Obj := fromHdf5G true sch f gname
def conforms (sch : Schema) (o : Obj) : Bool := conformsG true sch o
/-- `o` is the state of an object of the class (hypothesis of the round-trip theorems) -/
def valid (sch : Schema) (o : Obj) : Bool := validG true sch o

/-- histories under the writer before fix 93761174 -/
def runHistPrerepair (f : File) (H : List Write) : File × Option Err := runHistG false f H
/-- reading with the dictionary reader before fix 9631bba1 -/
def fromHdf5AtPrerepair (sch : Schema) (f : File) (g : Path) : Except Err Obj := fromHdf5AtG false sch f g
def validPrerepair (sch : Schema) (o : Obj) : Bool := validG false sch o

end Store
