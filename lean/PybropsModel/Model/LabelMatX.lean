/-
Model/LabelMatX.lean — the position forms of numpy.insert that Model/LabelMat.lean leaves out (property C03):
boolean ndarray masks and UNSORTED index lists.  Core Lean only.

numpy.insert(arr, obj, values, axis):
  * `obj` a boolean ndarray  → `indices = flatnonzero(obj)` (ascending), then as for an index list;
  * `obj` a list of several indices in any order → `order = indices.argsort(kind = "mergesort")` (stable),
    `indices[order] += arange(numnew)`, `new[indices] = values`: value `j` still lands before original position
    `obj[j]`, values that share a position keep their order.  That is the sorted-list insertion of the operand
    PERMUTED by `order` — on the data block and, in pybrops, on every label array (each goes through its own
    numpy.insert call with the same `obj`).
Both forms are therefore *reduced* to the sorted-list form of `LabelMat.insertK` / `incorpK`: the reduction permutes
the operand (`permuteOperand`), nothing else.
-/
import PybropsModel.Model.LabelMat

namespace LabelMat

variable {α lab : Type}

/-- every `obj` form numpy.insert accepts -/
inductive InsIdxX where
  | std (o : InsIdx)           -- integer, slice (as in Model/LabelMat.lean)
  | anyList (is : List Int)    -- index list in any order
  | mask (m : List Bool)       -- boolean ndarray

/-- the operand with its entries along the edited axis (data slices and every label column) permuted -/
def permuteOperand (sch : Schema) (k : Kind) (perm : List Nat) (v : Operand α lab) : Operand α lab :=
  { mat := match sch.axes k with
      | a :: _ => axMap a (fun _ => Np.take perm) v.mat
      | [] => v.mat
    cols := v.cols.map (Option.map (Np.take perm)) }

/-- reduction to the sorted forms: `n` = current length of the edited axis, `q` = entries in the operand -/
def reduceIns (sch : Schema) (k : Kind) (n q : Nat) (o : InsIdxX) (v : Operand α lab) :
    R (InsIdx × Operand α lab) :=
  match o with
  | .std o => pure (o, v)
  | .mask m => pure (.list ((Np.flatnonzero m).map Int.ofNat), v)
  | .anyList is => do
    let ps ← is.mapM (normIns n)
    if isSorted ps then pure (.list is, v)
    else
      let perm := Np.argsort (fun a b : Nat => decide (a ≤ b)) ps
      let sorted : InsIdx := .list ((Np.take perm ps).map Int.ofNat)
      -- one value per position: the values follow their positions; a single value is broadcast as it is
      if q == ps.length then pure (sorted, permuteOperand sch k perm v) else pure (sorted, v)

def operandLen (sch : Schema) (k : Kind) (v : Operand α lab) : Nat :=
  match sch.axes k with
  | a :: _ => axLen a v.mat
  | [] => 0

/-- `insert_<k>(obj, values, …)` with any position form -/
def insertXK (sch : Schema) (k : Kind) (o : InsIdxX) (v : Operand α lab) (s : St α lab) : R (St α lab) := do
  let r ← reduceIns sch k (s.len sch k) (operandLen sch k v) o v
  insertK sch k r.1 r.2 s

/-- `incorp_<k>(obj, values, …)` with any position form -/
def incorpXK (sch : Schema) (k : Kind) (o : InsIdxX) (v : Operand α lab) (s : St α lab) : R (St α lab) := do
  let r ← reduceIns sch k (s.len sch k) (operandLen sch k v) o v
  incorpK sch k r.1 r.2 s

/-- `insert_<k>(numpy.array(i), values, …)` as it was BEFORE the repair of D17b: a 0-d ndarray position is neither `int`
    nor `numpy.integer`, so the wrapping of fix 74ad0b65 (`wrapIns`) did not apply and the position reached numpy.insert as
    a scalar — on a non-leading axis the `moveaxis` rule scrambled the block while the labels were placed correctly.
    Only used by `insert_zero_dim_array_position_prerepair_counterexample`. -/
def insertZeroDimKPrerepair (sch : Schema) (k : Kind) (i : Int) (v : Operand α lab) (s : St α lab) : R (St α lab) := do
  (newObj sch k (← insertCoreRaw sch k (.int i) v s)).checkCtor sch

/-- `incorp_<k>(numpy.array(i), values, …)` before the repair of D17b -/
def incorpZeroDimKPrerepair (sch : Schema) (k : Kind) (i : Int) (v : Operand α lab) (s : St α lab) : R (St α lab) :=
  insertCoreRaw sch k (.int i) v s

/-- `insert_<k>(numpy.array(i), values, …)` as the code is now (repair of D17b:
    `isinstance(obj, (int, numpy.integer)) or (isinstance(obj, numpy.ndarray) and obj.ndim == 0)`): the 0-d position is
    wrapped exactly like a Python / numpy integer -/
def insertZeroDimK (sch : Schema) (k : Kind) (i : Int) (v : Operand α lab) (s : St α lab) : R (St α lab) :=
  insertK sch k (.int i) v s

/-- `incorp_<k>(numpy.array(i), values, …)` as the code is now -/
def incorpZeroDimK (sch : Schema) (k : Kind) (i : Int) (v : Operand α lab) (s : St α lab) : R (St α lab) :=
  incorpK sch k (.int i) v s

end LabelMat
