/-
Spec oracle of property C05: the criterion's *definition* recomputed from the underlying data,
independent of the decision encoding and written with other primitives than the model of the code
(`Np.dot` over zipped lists, explicit `K = CᵀC`, `Np.transpose`).  Input: the parental contribution
shares `c` (Σ c = 1) and the chosen set; `accepts` compares a reported latent vector with it.
Core Lean only; executed at `Rat` by the driver (`c05.spec_latent`), proved to accept every output of
the model over any ordered field with a lawful square root (Props/C05 `spec_sound_*`).
-/
import PybropsModel.Model.Selection

namespace Selection.Spec
open Selection

section spec
variable {α : Type} [Add α] [Mul α] [Sub α] [Div α] [Neg α] [OfNat α 0] [OfNat α 1] [NatCast α]
  [LT α] [DecidableLT α]

/-- a definitional latent entry: `a + b·√q` -/
structure Entry (α : Type) where
  a : α
  b : α
  q : α

def Entry.val (v : α) : Entry α := ⟨v, 0, 0⟩

def le (a b : α) : Bool := !(decide (b < a))
def maxv (a b : α) : α := if a < b then b else a

/-- tolerant comparison: `|a - b| ≤ abs` or `|a - b| ≤ rel · max |a| |b|` -/
def close (rel abs_ : α) (a b : α) : Bool :=
  let d := absv (a - b)
  le d abs_ || le d (rel * maxv (absv a) (absv b))

/-- does the reported value `l` equal `a + b·√q` (within tolerance)?  Square-root entries are compared
    in squared form: `r = (l - a)/b` must be non-negative with `r² = q`. -/
def Entry.holds (rel abs_ : α) (e : Entry α) (l : α) : Bool :=
  if eqv e.b 0 then close rel abs_ l e.a
  else
    let r := (l - e.a) / e.b
    le (0 - abs_) r && close ((1 + 1) * rel) abs_ (r * r) e.q

def accepts (rel abs_ : α) (d : List (Entry α)) (l : List α) : Bool :=
  l.length == d.length && (List.zip d l).all fun p => p.1.holds rel abs_ p.2

def column (M : List (List α)) (j : Nat) : List α := M.map fun r => r.getD j 0

/-- cᵀ (CᵀC) c with K = CᵀC formed explicitly -/
def quadForm (C : List (List α)) (c : List α) : α :=
  let Ct := Np.transpose C
  let K := Ct.map fun ci => Ct.map fun cj => Np.dot ci cj
  Np.dot c (K.map fun row => Np.dot row c)

/-- the Gram matrix `CᵀC` formed explicitly -/
def gram (C : List (List α)) : List (List α) :=
  let Ct := Np.transpose C
  Ct.map fun ci => Ct.map fun cj => Np.dot ci cj

/-- the kinship-factor contract `CᵀC = K`, entry by entry within tolerance (driver op `c05.spec_factor`) -/
def factorOk (rel abs_ : α) (C K : List (List α)) : Bool :=
  let G := gram C
  G.length == K.length && (List.zip G K).all fun p =>
    p.1.length == p.2.length && (List.zip p.1 p.2).all fun q => close rel abs_ q.1 q.2

def linDef (D : List (List α)) (c : List α) : List (Entry α) :=
  (List.range (ncols D)).map fun j => Entry.val (-(Np.dot c (column D j)))

def listMax (l : List α) : α := l.foldl maxv (l.headD 0)

def freqDef (geno : List (List α)) (ploidy : Nat) (c : List α) (m : Nat) : α :=
  Np.dot c (column geno m) / ((ploidy : Nat) : α)

def pafdDef (geno : List (List α)) (ploidy : Nat) (w tf : List (List α)) (c : List α) : List (Entry α) :=
  (List.range (ncols w)).map fun j => Entry.val <|
    Np.sum ((List.range w.length).map fun m =>
      (w.getD m []).getD j 0 * absv ((tf.getD m []).getD j 0 - freqDef geno ploidy c m))

/-- allele unavailability by its definition: the target frequency cannot be attained from the selected
    parents: target 0 needs p < 1, target 1 needs p > 0, an intermediate target needs 0 < p < 1 -/
def pauDefShares (geno : List (List α)) (ploidy : Nat) (w tf : List (List α)) (c : List α) : List (Entry α) :=
  (List.range (ncols w)).map fun j => Entry.val <|
    Np.sum ((List.range w.length).map fun m =>
      let p := freqDef geno ploidy c m
      let t := (tf.getD m []).getD j 0
      let attainable : Bool :=
        if le t 0 then decide (p < 1) else if le 1 t then decide (0 < p) else (decide (0 < p) && decide (p < 1))
      if attainable then 0 else (w.getD m []).getD j 0)

/-- descending insertion sort (for "the nbest largest values") -/
def sortDesc (l : List α) : List α := Np.stableSort (fun a c => !(decide (a < c))) l

def definition (cr : Crit α) (c : List α) (supp : List Nat) : List (Entry α) :=
  match cr with
  | .lin _ D => linDef D c
  | .ocs C D => ⟨0, 1, quadForm C c⟩ :: linDef D c
  | .mgr C => [⟨0, 1, quadForm C c⟩]
  | .meh C => [⟨-1, 1, quadForm C c⟩]
  | .l1 V => V.map fun Vt => Entry.val (Np.sum (Vt.map fun row => absv (Np.dot row c)))
  | .l2 C => C.map fun Ct => ⟨0, 1, quadForm Ct c⟩
  | .family D fix nfam => linDef D c ++ (List.range nfam).map fun f =>
      Entry.val (-(Np.sum ((List.zip fix c).filterMap fun p => if p.1 == f then some p.2 else none)))
  | .opv H =>
      let nblk := ((H.headD []).headD []).length
      let ntrait := (((H.headD []).headD []).headD []).length
      (List.range ntrait).map fun j => Entry.val <|
        -(((H.length : Nat) : α) * Np.sum ((List.range nblk).map fun b =>
            listMax (H.flatMap fun Hp => supp.map fun i => ((Hp.getD i []).getD b []).getD j 0)))
  | .gb H nbest =>
      -- mean over the nbest best founders (by their better phase) per block, summed over blocks, times ploidy
      let nblk := ((H.headD []).headD []).length
      let ntrait := (((H.headD []).headD []).headD []).length
      (List.range ntrait).map fun j => Entry.val <|
        -((((H.length : Nat) : α) * Np.sum ((List.range nblk).map fun b =>
            Np.sum ((sortDesc (supp.map fun i =>
              listMax (H.map fun Hp => ((Hp.getD i []).getD b []).getD j 0))).take nbest))) / ((nbest : Nat) : α))
  | .pafd g p w tf => pafdDef g p w tf c
  | .pau g p w tf => pauDefShares g p w tf c
  | .mogs g p w tf => pauDefShares g p w tf c ++ pafdDef g p w tf c

end spec
end Selection.Spec
