/-
Data-frame layouts (C16): a `pandas.DataFrame` as an ordered list of named columns;
`DenseBreedingValueMatrix.to_pandas` (l.731) / `from_pandas` (l.1047) — wide layout with optional
label columns —, `StandardGeneticMap.to_pandas` (l.1175) / `from_pandas` (l.1308) — three columns,
genetic positions converted to the requested unit on the way out and back to Morgans on the way in.

pandas itself (and the CSV text format) is trusted through "a column read = the column written".
`from_pandas` of the breeding-value class ends in `from_numpy`, which re-standardises the values
(mean / standard deviation): that step is not modelled, the model returns what is handed to it.
Core Lean only; scalars polymorphic.
-/
import PybropsModel.Model.Store

namespace StoreFrame
open Store (Err)

/-- column label: a string, or an integer (pandas' default labels) -/
inductive Name
  | s (v : String)
  | i (v : Nat)
  deriving DecidableEq, Repr, Inhabited

inductive Col (α : Type)
  | ints (l : List Int)
  | vals (l : List α)
  | strs (l : List String)
  | nones (n : Nat)              -- a column of `None`
  deriving DecidableEq, Repr, Inhabited

abbrev Frame (α : Type) := List (Name × Col α)

/-- Python `dict[k] = c`: a repeated key keeps its position and takes the new value -/
def put {α} (f : Frame α) (k : Name) (c : Col α) : Frame α :=
  if f.any (fun e => e.1 == k) then f.map (fun e => if e.1 == k then (k, c) else e) else f ++ [(k, c)]

/-- `pandas.DataFrame({k₁: c₁, k₂: c₂, …})` -/
def mkFrame {α} (cols : List (Name × Col α)) : Frame α := cols.foldl (fun f kc => put f kc.1 kc.2) []

/-- `df[name]` / `df.iloc[:, df.columns.get_loc(name)]` -/
def lookupCol {α} (f : Frame α) (k : Name) : Option (Col α) := (f.find? (fun e => e.1 == k)).map (·.2)

/-! ### breeding values -/

structure BV (α : Type) where
  mat : List (List α)            -- n rows of t values
  location : List α
  scale : List α
  taxa : Option (List String)
  taxa_grp : Option (List Int)
  trait : Option (List String)
  deriving Repr

def BV.ntaxa {α} (b : BV α) : Nat := b.mat.length
def BV.ntrait {α} (b : BV α) : Nat := b.location.length

section bv
variable {α : Type} [Add α] [Mul α] [Inhabited α]

/-- `scale * mat + location`, row by row -/
def unscale (b : BV α) : List (List α) :=
  b.mat.map (fun row => (List.range b.ntrait).map (fun j =>
    b.scale.getD j default * row.getD j default + b.location.getD j default))

def column (m : List (List α)) (j : Nat) : List α := m.map (fun r => r.getD j default)

def traitName (b : BV α) (j : Nat) : Name :=
  match b.trait with
  | some l => .s (l.getD j "")
  | none => .i j

/-- the columns `to_pandas` puts into the dictionary, in order -/
def bvCols (b : BV α) (taxaCol taxaGrpCol : Option String) (unsc : Bool) : List (Name × Col α) :=
  let vals := if unsc then unscale b else b.mat
  (match taxaCol with
   | some c => [(Name.s c, match b.taxa with | some l => Col.strs l | none => Col.nones b.ntaxa)]
   | none => []) ++
  (match taxaGrpCol with
   | some c => [(Name.s c, match b.taxa_grp with | some l => Col.ints l | none => Col.nones b.ntaxa)]
   | none => []) ++
  (List.range b.ntrait).map (fun j => (traitName b j, Col.vals (column vals j)))

def bvToPandas (b : BV α) (taxaCol taxaGrpCol : Option String) (unsc : Bool) : Frame α :=
  mkFrame (bvCols b taxaCol taxaGrpCol unsc)

/-- what `from_pandas` extracts before it calls `from_numpy` -/
structure BVRead (α : Type) where
  taxa : Option (List String)
  taxa_grp : Option (List Int)
  trait : List Name
  cols : List (List α)           -- one list per trait column
  deriving Repr, DecidableEq

def isLabel (taxaCol taxaGrpCol : Option String) (k : Name) : Bool :=
  (taxaCol.map Name.s == some k) || (taxaGrpCol.map Name.s == some k)

def valsOf : Col α → Except Err (List α)
  | .vals l => pure l
  | _ => throw .type

/-- `df[col].to_numpy(dtype = object)` for an optional label column -/
def readStrCol (f : Frame α) : Option String → Except Err (Option (List String))
  | none => pure none
  | some c =>
    match lookupCol f (.s c) with
    | some (.strs l) => pure (some l)
    | some _ => throw .type
    | none => throw .missing

/-- `df[col].to_numpy(dtype = int)` for an optional label column (fails on a column of `None`) -/
def readIntCol (f : Frame α) : Option String → Except Err (Option (List Int))
  | none => pure none
  | some c =>
    match lookupCol f (.s c) with
    | some (.ints l) => pure (some l)
    | some _ => throw .type
    | none => throw .missing

def bvFromPandas (f : Frame α) (taxaCol taxaGrpCol : Option String) : Except Err (BVRead α) := do
  let taxa ← readStrCol f taxaCol
  let grp ← readIntCol f taxaGrpCol
  let rest := f.filter (fun e => !(isLabel taxaCol taxaGrpCol e.1))
  let cols ← rest.mapM (fun e => valsOf e.2)
  pure ⟨taxa, grp, rest.map (·.1), cols⟩

end bv

/-! ### genetic maps -/

structure GMap (α : Type) where
  chrgrp : List Int
  phypos : List Int
  genpos : List α                -- Morgans
  deriving Repr, DecidableEq

inductive Units | M | cM
  deriving DecidableEq, Repr, Inhabited

section gmap
variable {α : Type} [Mul α] [Div α] [OfNat α 100] [OfNat α 1]

/-- `to_pandas(vrnt_genpos_units = u)`: `100.0 * genpos` for centimorgans -/
def gmapToPandas (m : GMap α) (u : Units) : Frame α :=
  mkFrame [(.s "chr", .ints m.chrgrp), (.s "pos", .ints m.phypos),
           (.s "cM", .vals (match u with | .M => m.genpos | .cM => m.genpos.map (fun x => (100 : α) * x)))]

/-- `from_pandas(vrnt_genpos_units = u)`: `0.01 * array` for centimorgans (the `vrnt_genpos` setter) -/
def gmapFromPandas (f : Frame α) (u : Units) : Except Err (GMap α) := do
  let chr ← match lookupCol f (.s "chr") with | some (.ints l) => pure l | some _ => throw .type | none => throw .missing
  let pos ← match lookupCol f (.s "pos") with | some (.ints l) => pure l | some _ => throw .type | none => throw .missing
  let gen ← match lookupCol f (.s "cM") with | some (.vals l) => pure l | some _ => throw .type | none => throw .missing
  pure ⟨chr, pos, match u with | .M => gen | .cM => gen.map (fun x => ((1 : α) / 100) * x)⟩

end gmap

end StoreFrame
