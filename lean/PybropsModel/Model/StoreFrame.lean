/-
Data-frame layouts (C16): a `pandas.DataFrame` as an ordered list of named columns;
`DenseBreedingValueMatrix.to_pandas` (l.731) / `from_pandas` (l.1047) — wide layout with optional
label columns —, `StandardGeneticMap.to_pandas` (l.1175) / `from_pandas` (l.1308) — three columns,
genetic positions converted to the requested unit on the way out and back to Morgans on the way in.

pandas itself (and the CSV text format) is trusted through "a column read = the column written".
`from_pandas` of the breeding-value class ends in `from_numpy`, which re-standardises the values
(mean / standard deviation): that step is not modelled, the model returns what is handed to it.
Core Lean only; scalars polymorphic.
-/
import PybropsModel.Model.Store

namespace StoreFrame
open Store (Err)

/-- column label: a string, or an integer (pandas' default labels) -/
inductive Name
  | s (v : String)
  | i (v : Nat)
  deriving DecidableEq, Repr, Inhabited

inductive Col (α : Type)
  | ints (l : List Int)
  | vals (l : List α)
  | strs (l : List String)
  | nones (n : Nat)              -- a column of `None`
  deriving DecidableEq, Repr, Inhabited

abbrev Frame (α : Type) := List (Name × Col α)

/-- Python `dict[k] = c`: a repeated key keeps its position and takes the new value -/
def put {α} (f : Frame α) (k : Name) (c : Col α) : Frame α :=
  if f.any (fun e => e.1 == k) then f.map (fun e => if e.1 == k then (k, c) else e) else f ++ [(k, c)]

/-- `pandas.DataFrame({k₁: c₁, k₂: c₂, …})` -/
def mkFrame {α} (cols : List (Name × Col α)) : Frame α := cols.foldl (fun f kc => put f kc.1 kc.2) []

/-- `df[name]` / `df.iloc[:, df.columns.get_loc(name)]` -/
def lookupCol {α} (f : Frame α) (k : Name) : Option (Col α) := (f.find? (fun e => e.1 == k)).map (·.2)

/-! ### breeding values -/

structure BV (α : Type) where
  mat : List (List α)            -- n rows of t values
  location : List α
  scale : List α
  taxa : Option (List String)
  taxa_grp : Option (List Int)
  trait : Option (List String)
  deriving Repr

def BV.ntaxa {α} (b : BV α) : Nat := b.mat.length
def BV.ntrait {α} (b : BV α) : Nat := b.location.length

section bv
variable {α : Type} [Add α] [Mul α] [Inhabited α]

/-- `scale * mat + location`, row by row -/
def unscale (b : BV α) : List (List α) :=
  b.mat.map (fun row => (List.range b.ntrait).map (fun j =>
    b.scale.getD j default * row.getD j default + b.location.getD j default))

def column (m : List (List α)) (j : Nat) : List α := m.map (fun r => r.getD j default)

def traitName (b : BV α) (j : Nat) : Name :=
  match b.trait with
  | some l => .s (l.getD j "")
  | none => .i j

/-- the columns `to_pandas` puts into the dictionary, in order -/
def bvCols (b : BV α) (taxaCol taxaGrpCol : Option String) (unsc : Bool) : List (Name × Col α) :=
  let vals := if unsc then unscale b else b.mat
  (match taxaCol with
   | some c => [(Name.s c, match b.taxa with | some l => Col.strs l | none => Col.nones b.ntaxa)]
   | none => []) ++
  (match taxaGrpCol with
   | some c => [(Name.s c, match b.taxa_grp with | some l => Col.ints l | none => Col.nones b.ntaxa)]
   | none => []) ++
  (List.range b.ntrait).map (fun j => (traitName b j, Col.vals (column vals j)))

def bvToPandas (b : BV α) (taxaCol taxaGrpCol : Option String) (unsc : Bool) : Frame α :=
  mkFrame (bvCols b taxaCol taxaGrpCol unsc)

/-- what `from_pandas` extracts before it calls `from_numpy` -/
structure BVRead (α : Type) where
  taxa : Option (List String)
  taxa_grp : Option (List Int)
  trait : List Name
  cols : List (List α)           -- one list per trait column
  deriving Repr, DecidableEq

def isLabel (taxaCol taxaGrpCol : Option String) (k : Name) : Bool :=
  (taxaCol.map Name.s == some k) || (taxaGrpCol.map Name.s == some k)

def valsOf : Col α → Except Err (List α)
  | .vals l => pure l
  | _ => throw .type

/-- `df[col].to_numpy(dtype = object)` for an optional label column -/
def readStrCol (f : Frame α) : Option String → Except Err (Option (List String))
  | none => pure none
  | some c =>
    match lookupCol f (.s c) with
    | some (.strs l) => pure (some l)
    | some _ => throw .type
    | none => throw .missing

/-- `df[col].to_numpy(dtype = int)` for an optional label column (fails on a column of `None`) -/
def readIntCol (f : Frame α) : Option String → Except Err (Option (List Int))
  | none => pure none
  | some c =>
    match lookupCol f (.s c) with
    | some (.ints l) => pure (some l)
    | some _ => throw .type
    | none => throw .missing

def bvFromPandas (f : Frame α) (taxaCol taxaGrpCol : Option String) : Except Err (BVRead α) := do
  let taxa ← readStrCol f taxaCol
  let grp ← readIntCol f taxaGrpCol
  let rest := f.filter (fun e => !(isLabel taxaCol taxaGrpCol e.1))
  let cols ← rest.mapM (fun e => valsOf e.2)
  pure ⟨taxa, grp, rest.map (·.1), cols⟩

end bv

/-! ### genetic maps -/

structure GMap (α : Type) where
  chrgrp : List Int
  phypos : List Int
  genpos : List α                -- Morgans
  deriving Repr, DecidableEq

inductive Units | M | cM
  deriving DecidableEq, Repr, Inhabited

section gmap
variable {α : Type} [Mul α] [Div α] [OfNat α 100] [OfNat α 1]

/-- `to_pandas(vrnt_genpos_units = u)`: `100.0 * genpos` for centimorgans -/
def gmapToPandas (m : GMap α) (u : Units) : Frame α :=
  mkFrame [(.s "chr", .ints m.chrgrp), (.s "pos", .ints m.phypos),
           (.s "cM", .vals (match u with | .M => m.genpos | .cM => m.genpos.map (fun x => (100 : α) * x)))]

/-- `from_pandas(vrnt_genpos_units = u)`: `0.01 * array` for centimorgans (the `vrnt_genpos` setter) -/
def gmapFromPandas (f : Frame α) (u : Units) : Except Err (GMap α) := do
  let chr ← match lookupCol f (.s "chr") with | some (.ints l) => pure l | some _ => throw .type | none => throw .missing
  let pos ← match lookupCol f (.s "pos") with | some (.ints l) => pure l | some _ => throw .type | none => throw .missing
  let gen ← match lookupCol f (.s "cM") with | some (.vals l) => pure l | some _ => throw .type | none => throw .missing
  pure ⟨chr, pos, match u with | .M => gen | .cM => gen.map (fun x => ((1 : α) / 100) * x)⟩

end gmap

/-! ### round 2: coancestry (wide), extended genetic map, model dictionaries, variance matrix (long) -/

/-- `pandas.DataFrame(array, columns = names)` / `pandas.concat([...], axis = 1)`: columns side by
    side, no dictionary semantics (duplicate names stay) -/
def sideBySide {α} (a b : Frame α) : Frame α := a ++ b

/-- `df[name].to_numpy(dtype = float)` -/
def needVals {α} (f : Frame α) (k : Name) : Except Err (List α) :=
  match lookupCol f k with
  | some (.vals l) => pure l
  | some _ => throw .type
  | none => throw .missing

/-- `df[name].to_numpy(dtype = object)` of a label column -/
def needStrs {α} (f : Frame α) (k : String) : Except Err (List String) :=
  match lookupCol f (.s k) with
  | some (.strs l) => pure l
  | some _ => throw .type
  | none => throw .missing

/-- rows of a matrix given by its columns -/
def rowsOf {α} [Inhabited α] (nrow : Nat) (cols : List (List α)) : List (List α) :=
  (List.range nrow).map (fun i => cols.map (fun c => c.getD i default))

/-! #### DenseCoancestryMatrix.to_pandas (l.552) / from_pandas (l.790), `taxa = "all"` -/

structure CMat (α : Type) where
  mat : List (List α)            -- n rows of n values
  taxa : Option (List String)
  taxa_grp : Option (List Int)
  deriving Repr, DecidableEq

section cmat
variable {α : Type} [Inhabited α]

/-- the names the value columns get: the taxa, or "0", "1", … when there are none -/
def cmTaxaNames (c : CMat α) : List String :=
  match c.taxa with
  | some l => l
  | none => (List.range c.mat.length).map (fun i => toString i)

def cmToPandas (c : CMat α) (taxaCol : String) (taxaGrpCol : Option String) : Frame α :=
  let names := cmTaxaNames c
  let labels : Frame α := [(Name.s taxaCol, Col.strs names)] ++
    (match taxaGrpCol with
     | some g => [(Name.s g, match c.taxa_grp with | some l => Col.ints l | none => Col.nones c.mat.length)]
     | none => [])
  let values : Frame α := names.zipIdx.map (fun ni => (Name.s ni.1, Col.vals (c.mat.map (fun r => r.getD ni.2 default))))
  sideBySide labels values

/-- taxa group column: all-NA ⇒ treated as absent -/
def readGrpNA (f : Frame α) : Option String → Except Err (Option (List Int))
  | none => pure none
  | some g =>
    match lookupCol f (.s g) with
    | some (.ints l) => pure (some l)
    | some (.nones _) => pure none
    | some _ => throw .type
    | none => throw .missing

def cmFromPandas (f : Frame α) (taxaCol : String) (taxaGrpCol : Option String) : Except Err (CMat α) := do
  let taxa ← needStrs f taxaCol
  let grp ← readGrpNA f taxaGrpCol
  -- colix = [df.columns.get_loc(str(e)) for e in taxa]; mat = df.iloc[rowix, colix]
  let cols ← taxa.mapM (fun t => needVals f (.s t))
  pure ⟨rowsOf taxa.length cols, some taxa, grp⟩

end cmat

/-! #### ExtendedGeneticMap.to_pandas (l.1417) / from_pandas (l.1600) -/

structure EMap (α : Type) where
  chrgrp : List Int
  phypos : List Int
  stop : List Int
  genpos : List α
  name : Option (List String)
  fncode : Option (List String)
  deriving Repr, DecidableEq

section emap
variable {α : Type} [Mul α] [Div α] [OfNat α 100] [OfNat α 1]

def optStrCol {α} (n : Nat) : Option (List String) → Col α
  | some l => .strs l
  | none => .nones n

def emapToPandas (m : EMap α) (u : Units) : Frame α :=
  mkFrame [(.s "chr", .ints m.chrgrp), (.s "pos", .ints m.phypos), (.s "stop", .ints m.stop),
           (.s "cM", .vals (match u with | .M => m.genpos | .cM => m.genpos.map (fun x => (100 : α) * x))),
           (.s "name", optStrCol m.chrgrp.length m.name), (.s "fncode", optStrCol m.chrgrp.length m.fncode)]

def needInts {α} (f : Frame α) (k : String) : Except Err (List Int) :=
  match lookupCol f (.s k) with | some (.ints l) => pure l | some _ => throw .type | none => throw .missing

/-- `from_pandas(…, vrnt_name_col, vrnt_fncode_col, vrnt_genpos_units = u)`: the two label columns
    are read only when their column argument is given -/
def emapFromPandas (f : Frame α) (u : Units) (nameCol fncodeCol : Bool) : Except Err (EMap α) := do
  let chr ← needInts f "chr"
  let pos ← needInts f "pos"
  let stop ← needInts f "stop"
  let gen ← needVals f (.s "cM")
  let name ← if nameCol then readStrCol f (some "name") else pure none
  let fn ← if fncodeCol then readStrCol f (some "fncode") else pure none
  pure ⟨chr, pos, stop, match u with | .M => gen | .cM => gen.map (fun x => ((1 : α) / 100) * x), name, fn⟩

end emap

/-! #### Dense*LinearGenomicModel.to_pandas_dict / from_pandas_dict: one frame per coefficient block -/

/-- `pandas.DataFrame(block, columns = trait_cols)`; a block is a list of rows -/
def blockToFrame {α} [Inhabited α] (names : List Name) (block : List (List α)) : Frame α :=
  names.zipIdx.map (fun ni => (ni.1, Col.vals (block.map (fun r => r.getD ni.2 default))))

/-- `df.iloc[:, [get_loc(e) for e in trait]].to_numpy(float)` with `nrow` rows -/
def blockFromFrame {α} [Inhabited α] (f : Frame α) (names : List Name) (nrow : Nat) : Except Err (List (List α)) := do
  let cols ← names.mapM (fun t => needVals f t)
  pure (rowsOf nrow cols)

/-- the blocks of a linear genomic model (`beta`, `u_misc`, `u_a`[, `u_d`]) and its trait names -/
structure LinMod (α : Type) where
  blocks : List (String × List (List α))
  trait : Option (List String)
  deriving Repr, DecidableEq

def lmTraitNames {α} (m : LinMod α) (t : Nat) : List Name :=
  match m.trait with
  | some l => l.map Name.s
  | none => (List.range t).map Name.i

def lmToPandasDict {α} [Inhabited α] (m : LinMod α) (t : Nat) : List (String × Frame α) :=
  m.blocks.map (fun kb => (kb.1, blockToFrame (lmTraitNames m t) kb.2))

/-- `trait_cols = "infer"`: the trait names are the column labels of the `beta` (first) frame -/
def firstNames {α} (d : List (String × Frame α)) : List Name :=
  match d with
  | (_, f) :: _ => f.map (·.1)
  | [] => []

def lmFromPandasDict {α} [Inhabited α] (d : List (String × Frame α)) (nrows : List Nat) :
    Except Err (List (String × List (List α)) × List Name) := do
  let blocks ← (d.zip nrows).mapM (fun dn => do
    let b ← blockFromFrame dn.1.2 (firstNames d) dn.2
    pure (dn.1.1, b))
  pure (blocks, firstNames d)

/-! #### DenseTwoWayDHAdditiveGeneticVarianceMatrix.to_pandas (l.138) / from_pandas (l.336): long layout -/

/-- one row of the long frame -/
structure VRow (α : Type) where
  female : String
  femaleGrp : Option Int
  male : String
  maleGrp : Option Int
  trait : String
  variance : α
  deriving Repr, DecidableEq

structure VMat (α : Type) where
  mat : List (List (List α))     -- n × n × t
  taxa : List String
  taxa_grp : Option (List Int)
  trait : List String
  deriving Repr, DecidableEq

/-- what `from_pandas` builds: cells that no row addresses stay NaN (`none`) -/
structure VRead (α : Type) where
  mat : List (List (List (Option α)))
  taxa : List String
  taxa_grp : Option (List Int)
  trait : List String
  deriving Repr, DecidableEq

/-- insert into a strictly increasing list, keeping it strictly increasing -/
def insUniq (a : String) : List String → List String
  | [] => [a]
  | b :: l => if a < b then a :: b :: l else if a = b then b :: l else b :: insUniq a l

/-- `numpy.unique` / `numpy.union1d` on label arrays: sorted, duplicate-free -/
def sortUniq (l : List String) : List String := l.foldr insUniq []

section vmat
variable {α : Type} [Inhabited α]

/-- `flattenix(mat)`: every cell in C order with its three indices -/
def vmToPandas (v : VMat α) (withGrp : Bool) : List (VRow α) :=
  let n := v.taxa.length
  let grpAt (i : Nat) : Option Int :=
    if withGrp then (match v.taxa_grp with | some g => some (g.getD i 0) | none => none) else none
  (List.range n).flatMap (fun i => (List.range n).flatMap (fun j => (List.range v.trait.length).map (fun k =>
    ⟨v.taxa.getD i "", grpAt i, v.taxa.getD j "", grpAt j, v.trait.getD k "",
     ((v.mat.getD i []).getD j []).getD k default⟩)))

/-- taxa_grp of a taxon: the group of the first row in which it is the female, overridden by the
    group of the first row in which it is the male -/
def vmGrpOf (rows : List (VRow α)) (t : String) : Int :=
  match rows.find? (fun r => r.male == t) with
  | some r => r.maleGrp.getD 0
  | none => match rows.find? (fun r => r.female == t) with
    | some r => r.femaleGrp.getD 0
    | none => 0

/-- `mat[femaleix, maleix, traitix] = variance`: the last row addressing a cell wins -/
def vmCell (rows : List (VRow α)) (a b c : String) : Option α :=
  (rows.reverse.find? (fun r => r.female == a && r.male == b && r.trait == c)).map (·.variance)

def vmFromPandas (rows : List (VRow α)) (withGrp : Bool) : Except Err (VRead α) :=
  -- `to_numpy(dtype = int)` on a group column of `None`
  if withGrp && rows.any (fun r => r.femaleGrp.isNone || r.maleGrp.isNone) then throw .type else
  let taxa := sortUniq (rows.map (·.female) ++ rows.map (·.male))
  let trait := sortUniq (rows.map (·.trait))
  pure ⟨taxa.map (fun a => taxa.map (fun b => trait.map (fun c => vmCell rows a b c))), taxa,
   if withGrp then some (taxa.map (vmGrpOf rows)) else none, trait⟩

end vmat

/-! ### CSV text (`DataFrame.to_csv(index = False)` / `pandas.read_csv(header = 0)`)

The printing and parsing of cells is *not* modelled: cell texts are an abstract type `σ` (in pandas:
strings) and printing / parsing an abstract `Dialect` whose laws
(`Lemmas/StoreFrameLemmas2.lean: Lawful`) are the trusted contract of pandas' CSV code:
a column of printed floats (ints) is typed float (int) and parses back to the same values
(`repr` / shortest round-trip printing), a column of label-safe strings stays a string column,
a column of `None` is written as empty cells and read as all-NA. -/

structure Dialect (σ α : Type) where
  /-- text of a float cell / an integer cell / a string cell; the empty cell -/
  showVal : α → σ
  showInt : Int → σ
  showStr : String → σ
  na : σ
  /-- read_csv's type inference + parsing of one column of cells -/
  parse : List σ → Col α

def nameText : Name → String
  | .s v => v
  | .i v => toString v

def printCol {σ α} (D : Dialect σ α) : Col α → List σ
  | .vals l => l.map D.showVal
  | .ints l => l.map D.showInt
  | .strs l => l.map D.showStr
  | .nones n => List.replicate n D.na

/-- header line and `n` data lines, cell by cell -/
def csvWrite {σ α} (D : Dialect σ α) (f : Frame α) (n : Nat) : List String × List (List σ) :=
  (f.map (fun e => nameText e.1),
   (List.range n).map (fun i => (f.map (fun e => printCol D e.2)).map (fun c => c.getD i D.na)))

/-- every header cell names a column (always a string), every column is typed and parsed as a whole -/
def csvRead {σ α} (D : Dialect σ α) (t : List String × List (List σ)) : Frame α :=
  (List.range t.1.length).map (fun j => (Name.s (t.1.getD j ""), D.parse (t.2.map (fun r => r.getD j D.na))))

def colLen {α} : Col α → Nat
  | .vals l => l.length
  | .ints l => l.length
  | .strs l => l.length
  | .nones n => n

end StoreFrame
