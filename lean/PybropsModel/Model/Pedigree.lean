/-
Pedigree specification of the seven mating protocols (C01): the crossing diagrams of the
docstrings as predicates on a progeny individual.  Core Lean only (definitions, no proofs).

`Child xo F M c`   : copy 0 of `c` is a mosaic of the two copies of `F`, copy 1 of the two copies of
                     `M` (`F` = the parent on the female / phase-0 side, `M` on the male / phase-1 side).
`lineage … cross`  : the pedigree the cross configuration row `cross` prescribes, with the
                     intermediate hybrids existentially quantified — selfing uses *one* hybrid for
                     both gametes, a doubled haploid is one gamete of one hybrid, twice.
-/
import PybropsModel.Model.Mating

namespace Mating
open Meiosis
variable {α ρ : Type} [LT ρ] [OfNat ρ 0]

def Child (xo : List ρ) (F M c : Ind α) : Prop :=
  Mosaic [F.1, F.2] xo c.1 ∧ Mosaic [M.1, M.2] xo c.2

/-- `c` is a progeny of a female satisfying `QF` and a male satisfying `QM` -/
def crossPred (xo : List ρ) (QF QM : Ind α → Prop) (c : Ind α) : Prop :=
  ∃ F M, QF F ∧ QM M ∧ Child xo F M c

/-- `c` is a selfed progeny of one individual satisfying `Q` -/
def selfPred (xo : List ρ) (Q : Ind α → Prop) (c : Ind α) : Prop :=
  ∃ H, Q H ∧ Child xo H H c

/-- `c` is a doubled haploid of one individual satisfying `Q` -/
def dhPred (xo : List ρ) (Q : Ind α → Prop) (c : Ind α) : Prop :=
  ∃ H, Q H ∧ Mosaic [H.1, H.2] xo c.1 ∧ c.1 = c.2

/-- `n` generations of single-seed descent -/
def selfN (xo : List ρ) : Nat → (Ind α → Prop) → Ind α → Prop
  | 0, Q => Q
  | n + 1, Q => selfN xo n (selfPred xo Q)

/-- "is taxon `s` of the parental matrix" -/
def isInd (pop : Pop α) (s : Nat) (i : Ind α) : Prop := pop[s]? = some i

/-- the pedigree of a progeny of configuration row `cross` -/
def lineage (xo : List ρ) (P : Proto) (nself : Nat) (pop : Pop α) (cross : List Nat) : Ind α → Prop :=
  let par (k : Nat) : Ind α → Prop := isInd pop (cross.getD k 0)
  match P with
  | .self => selfN xo nself (crossPred xo (par 0) (par 0))
  | .twoWay => selfN xo nself (crossPred xo (par 0) (par 1))
  | .twoWayDH => dhPred xo (selfN xo nself (crossPred xo (par 0) (par 1)))
  | .threeWay => selfN xo nself (crossPred xo (par 0) (crossPred xo (par 1) (par 2)))
  | .threeWayDH => dhPred xo (selfN xo nself (crossPred xo (par 0) (crossPred xo (par 1) (par 2))))
  | .fourWay => selfN xo nself (crossPred xo (crossPred xo (par 2) (par 3)) (crossPred xo (par 0) (par 1)))
  | .fourWayDH =>
      dhPred xo (selfN xo nself (crossPred xo (crossPred xo (par 2) (par 3)) (crossPred xo (par 0) (par 1))))

end Mating
