/-
Pedigree specification of the seven mating protocols (C01): the crossing diagrams of the
docstrings as predicates on a progeny individual.  Core Lean only (definitions, no proofs).

`Child xo F M c`   : copy 0 of `c` is a mosaic of the two copies of `F`, copy 1 of the two copies of
                     `M` (`F` = the parent on the female / phase-0 side, `M` on the male / phase-1 side).
`lineage … cross`  : the pedigree the cross configuration row `cross` prescribes, with the
                     intermediate hybrids existentially quantified — selfing uses *one* hybrid for
                     both gametes, a doubled haploid is one gamete of one hybrid, twice.
-/
import PybropsModel.Model.Mating

namespace Mating
open Meiosis
variable {α ρ : Type} [LT ρ] [OfNat ρ 0]

def Child (xo : List ρ) (F M c : Ind α) : Prop :=
  Mosaic [F.1, F.2] xo c.1 ∧ Mosaic [M.1, M.2] xo c.2

/-- `c` is a progeny of a female satisfying `QF` and a male satisfying `QM` -/
def crossPred (xo : List ρ) (QF QM : Ind α → Prop) (c : Ind α) : Prop :=
  ∃ F M, QF F ∧ QM M ∧ Child xo F M c

/-- `c` is a selfed progeny of one individual satisfying `Q` -/
def selfPred (xo : List ρ) (Q : Ind α → Prop) (c : Ind α) : Prop :=
  ∃ H, Q H ∧ Child xo H H c

/-- `c` is a doubled haploid of one individual satisfying `Q` -/
def dhPred (xo : List ρ) (Q : Ind α → Prop) (c : Ind α) : Prop :=
  ∃ H, Q H ∧ Mosaic [H.1, H.2] xo c.1 ∧ c.1 = c.2

/-- `n` generations of single-seed descent -/
def selfN (xo : List ρ) : Nat → (Ind α → Prop) → Ind α → Prop
  | 0, Q => Q
  | n + 1, Q => selfN xo n (selfPred xo Q)

/-- "is taxon `s` of the parental matrix" -/
def isInd (pop : Pop α) (s : Nat) (i : Ind α) : Prop := pop[s]? = some i

/-- the pedigree of a progeny of configuration row `cross` -/
def lineage (xo : List ρ) (P : Proto) (nself : Nat) (pop : Pop α) (cross : List Nat) : Ind α → Prop :=
  let par (k : Nat) : Ind α → Prop := isInd pop (cross.getD k 0)
  match P with
  | .self => selfN xo nself (crossPred xo (par 0) (par 0))
  | .twoWay => selfN xo nself (crossPred xo (par 0) (par 1))
  | .twoWayDH => dhPred xo (selfN xo nself (crossPred xo (par 0) (par 1)))
  | .threeWay => selfN xo nself (crossPred xo (par 0) (crossPred xo (par 1) (par 2)))
  | .threeWayDH => dhPred xo (selfN xo nself (crossPred xo (par 0) (crossPred xo (par 1) (par 2))))
  | .fourWay => selfN xo nself (crossPred xo (crossPred xo (par 2) (par 3)) (crossPred xo (par 0) (par 1)))
  | .fourWayDH =>
      dhPred xo (selfN xo nself (crossPred xo (crossPred xo (par 2) (par 3)) (crossPred xo (par 0) (par 1))))


/-! ### pedigree terms and the joint (hidden-state) test

`lineage` quantifies over the intermediate hybrids.  The same statement in decidable form: a
pedigree *term* describes how an individual is made, a hidden *state* is one bit per gamete of the
term ("which copy of its parent does this gamete read at the current marker"), and the state may
change only at a marker with positive crossover probability.  Both copies of the observed
individual are read through the *same* state — this is what ties them to one hybrid. -/

inductive Ped where
  | leaf (s : Nat)          -- taxon `s` of the parental matrix
  | cross (f m : Ped)       -- copy 0 = a gamete of `f`, copy 1 = a gamete of `m`
  | self (h : Ped)          -- both copies are gametes of the one individual `h`
  | dh (h : Ped)            -- one gamete of `h`, doubled
  deriving Repr

/-- number of gametes (hidden bits) of a term -/
def Ped.bits : Ped → Nat
  | .leaf _ => 0
  | .cross f m => 2 + f.bits + m.bits
  | .self h => 2 + h.bits
  | .dh h => 1 + h.bits

/-- allele at marker `j` of copy `k` of the individual described by the term, under hidden state `σ`
    (layout of `σ`: the term's own gamete bits first, then the states of its sub-terms) -/
def Ped.allele (pop : Pop α) (j : Nat) : Ped → Bool → List Bool → Option α
  | .leaf s, k, _ => (pop[s]?).bind (fun i => (if k then i.2 else i.1)[j]?)
  | .cross f m, k, σ =>
      if k then m.allele pop j (σ.getD 1 false) ((σ.drop 2).drop f.bits)
      else f.allele pop j (σ.getD 0 false) ((σ.drop 2).take f.bits)
  | .self h, k, σ => h.allele pop j (σ.getD (if k then 1 else 0) false) (σ.drop 2)
  | .dh h, _, σ => h.allele pop j (σ.getD 0 false) (σ.drop 1)

/-- the predicate a term stands for (same connectives as `lineage`) -/
def Ped.sat (xo : List ρ) (pop : Pop α) : Ped → Ind α → Prop
  | .leaf s => isInd pop s
  | .cross f m => crossPred xo (f.sat xo pop) (m.sat xo pop)
  | .self h => selfPred xo (h.sat xo pop)
  | .dh h => dhPred xo (h.sat xo pop)

def pedSelf : Nat → Ped → Ped
  | 0, t => t
  | n + 1, t => pedSelf n (.self t)

/-- the term of a progeny of configuration row `cross` (`lineage … = (pedOf …).sat`) -/
def pedOf (P : Proto) (nself : Nat) (cross : List Nat) : Ped :=
  let par (k : Nat) : Ped := .leaf (cross.getD k 0)
  match P with
  | .self => pedSelf nself (.cross (par 0) (par 0))
  | .twoWay => pedSelf nself (.cross (par 0) (par 1))
  | .twoWayDH => .dh (pedSelf nself (.cross (par 0) (par 1)))
  | .threeWay => pedSelf nself (.cross (par 0) (.cross (par 1) (par 2)))
  | .threeWayDH => .dh (pedSelf nself (.cross (par 0) (.cross (par 1) (par 2))))
  | .fourWay => pedSelf nself (.cross (.cross (par 2) (par 3)) (.cross (par 0) (par 1)))
  | .fourWayDH => .dh (pedSelf nself (.cross (.cross (par 2) (par 3)) (.cross (par 0) (par 1))))

/-- all bit vectors of length `n` -/
def allStates : Nat → List (List Bool)
  | 0 => [[]]
  | n + 1 => (allStates n).flatMap (fun s => [false :: s, true :: s])

/-- state `σ` explains both observed cells at marker `j` -/
def pedOK [BEq α] (t : Ped) (pop : Pop α) (c : Ind α) (σ : List Bool) (j : Nat) : Bool :=
  c.1[j]? == t.allele pop j false σ && c.2[j]? == t.allele pop j true σ

/-- reachability over hidden states: `reach` = the states that explain the markers read so far;
    at a marker with positive crossover probability every state may follow any reachable one -/
def pedDP {S : Type} [DecidableLT ρ] (all : List S) (ok : S → Nat → Bool) :
    List S → Nat → List ρ → Bool
  | reach, _, [] => !reach.isEmpty
  | reach, j, x :: xs =>
      let cand := if decide (0 < x) && !reach.isEmpty then all else reach
      pedDP all ok (cand.filter (fun σ => ok σ j)) (j + 1) xs

/-- the joint pedigree test of one individual -/
def pedCheck [BEq α] [DecidableLT ρ] (t : Ped) (pop : Pop α) (xo : List ρ) (c : Ind α) : Bool :=
  c.1.length == xo.length && c.2.length == xo.length &&
  pedDP (allStates t.bits) (pedOK t pop c) (allStates t.bits) 0 xo

/-! ### the decidable Spec evaluated on implementation outputs -/

section spec
variable [DecidableLT ρ]

/-- up to this selfing depth the joint pedigree test is part of the Spec (its state space is
    `2 ^ bits`, at most 2^11 for a four-way DH with two selfings); deeper lines keep the per-copy test -/
def jointDepth : Nat := 2

/-- Spec of one output row: its family label names a cross of the configuration, both chromosome
    copies are mosaics of the haplotypes that cross assigns to their side, DH ⇒ the copies agree,
    and (nself ≤ 2) the two copies are *jointly* explained by one choice of intermediate hybrids -/
def rowOK [BEq α] [LT ρ] [DecidableLT ρ] [OfNat ρ 0] (P : Proto) (nself : Nat) (pop : Pop α)
    (xc : List (List Nat)) (xo : List ρ) (fc : Nat) (r : Row α) : Bool :=
  decide (fc ≤ r.grp) &&
  match xc[r.grp - fc]? with
  | none => false
  | some cross =>
    let s := sources P nself pop cross
    mosaicCheck s.1 xo r.ind.1 && mosaicCheck s.2 xo r.ind.2 && (!P.isDH || r.ind.1 == r.ind.2) &&
      (decide (jointDepth < nself) || pedCheck (pedOf P nself cross) pop xo r.ind)

/-- names: in generation order when no name outgrows the 7-digit field; in general the generated
    names, each in the family it was generated for -/
def namesOK (pre : List Nat) (pc cnt : Nat) (genGrp : List Nat) (rows : List (Row α)) : Bool :=
  let expect := (Np.arange pc cnt).map (name pre)
  if pc + cnt ≤ 10 ^ 7 then rows.map Row.name == expect
  else
    rows.all (fun r => (List.zip expect genGrp).contains (r.name, r.grp)) &&
    (rows.map Row.name).isPerm expect

/-- the Spec of C01 on one `mate()` call: inputs, and the outputs of the implementation -/
def specMate [BEq α] [LT ρ] [DecidableLT ρ] [OfNat ρ 0] (P : Proto) (pop : Pop α) (xc : List (List Nat))
    (nmating nprogeny : Cnt) (nself : Nat) (xo : List ρ) (pc fc : Nat) (out : Out α) : Bool × String :=
  match nmating.expand xc.length, nprogeny.expand xc.length with
  | .ok nm, .ok np =>
    let per := List.zipWith (· * ·) nm np
    let cnt := Np.sum per
    let genGrp := Np.repeatEach per (Np.arange fc xc.length)
    let cCount := out.rows.length == cnt
    let cGrp := out.rows.map Row.grp == genGrp
    let cNames := namesOK P.pre pc cnt genGrp out.rows
    let cCtr := out.pc == pc + cnt && out.fc == fc + xc.length
    let cRows := out.rows.all (rowOK P nself pop xc xo fc)
    (cCount && cGrp && cNames && cCtr && cRows,
     s!"count={cCount} family={cGrp} names={cNames} counters={cCtr} mosaic={cRows}")
  | _, _ => (false, "count arrays rejected")

/-! ### Spec of the three matrix utilities (`mat_meiosis`/`dense_meiosis`, `mat_dh`/`dense_dh`,
`mat_mate`/`dense_cross`) on implementation outputs -/

/-- row `i` of the gamete matrix is a mosaic of the two copies of taxon `sel[i]` -/
def specGametes [BEq α] [LT ρ] [DecidableLT ρ] [OfNat ρ 0] (pop : Pop α) (sel : List Nat) (xo : List ρ)
    (rows : List (Hap α)) : Bool :=
  rows.length == sel.length &&
  (List.zip sel rows).all (fun sr => match pop[sr.1]? with
    | some F => mosaicCheck [F.1, F.2] xo sr.2
    | none => false)

/-- doubled haploids: one such gamete, twice -/
def specDh [BEq α] [LT ρ] [DecidableLT ρ] [OfNat ρ 0] (pop : Pop α) (sel : List Nat) (xo : List ρ)
    (prog : Pop α) : Bool :=
  specGametes pop sel xo (prog.map Prod.fst) && prog.all (fun c => c.1 == c.2)

/-- a cross: copy 0 a gamete of the selected female, copy 1 a gamete of the selected male -/
def specCross [BEq α] [LT ρ] [DecidableLT ρ] [OfNat ρ 0] (fpop mpop : Pop α) (fsel msel : List Nat) (xo : List ρ)
    (prog : Pop α) : Bool :=
  specGametes fpop fsel xo (prog.map Prod.fst) && specGametes mpop msel xo (prog.map Prod.snd)

end spec

end Mating
