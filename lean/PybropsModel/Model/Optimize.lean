/-
Model of the optimisers of pybrops/opt/algo (property C06).  Core Lean only; executed at `Rat`.

  SortingSubsetOptimizationAlgorithm.minimize            -> `sortingIdx`, `sortingSubset`
  SteepestDescentSubsetHillClimber.minimize              -> `exch`, `scan`, `step`, `iter`, `hillclimb`
  SortingSteepestDescentSubsetHillClimber.minimize       -> `sortingHillclimb`
  pymoo_addon.SubsetRandomSampling._do                   -> `sampleSubset`   (draw = oracle input)
  pymoo_addon.ReducedExchangeCrossover._do               -> `crossover`      (mex  = oracle input)
  pymoo_addon.ReducedExchangeMutation._do                -> `mutation`       (mask, choice = oracle inputs)
  pymoo_addon.MultiObjectiveSteepestDescentHillClimberMutation.hillclimb -> `hcNeighbors`
  pymoo_addon.MutatorA/MutatorB.hillclimb                -> `mutatorRows` (`mutatorRowPrerepair`: before f3bb3b1b)
  pymoo_addon.StochasticHillClimberMutation.hillclimb    -> `exchSeq`, `stochasticHillclimb` (kept exchanges = oracle input)
  pymoo_addon.IntegerSimulatedBinaryCrossover / IntegerPolynomialMutation (`.round(0).astype`) -> `roundHalfEven`
  a table-driven SubsetProblem (the harness' problem class) -> `TableProb`, `TableProb.evalfn`

pymoo's evolutionary loop (selection, survival, duplicate elimination, termination) is NOT modelled:
`GAOp`/`applyOp` let it be an arbitrary re-selection of the current population.
-/
import PybropsModel.Np

namespace Optimize

/-! ### sorting optimiser -/
section sorting
variable {α : Type} [LT α] [DecidableLT α]

/-- `a ≤ b` as numpy's sort sees it on a totally ordered scalar -/
def leB (a b : α) : Bool := !(decide (b < a))

/-- `ix = obj.argsort(0); gbest_ix = ix[0:ndecn,0]` (stable argsort: see TRUSTED in harness/props/c06.py) -/
def sortingIdx (keys : List α) (k : Nat) : List Nat := (Np.argsort leB keys).take k

/-- `gbest_soln = prob.decn_space[gbest_ix]`, where `keys[e] = prob.evalfn([e])[0]` -/
def sortingSubset {ε : Type} (g : ε → α) (space : List ε) (k : Nat) : List ε :=
  Np.take (sortingIdx (space.map g) k) space

end sorting

/-! ### steepest-descent hill climber -/
section hillclimb
variable {ε β α : Type} [LT α] [DecidableLT α] [DecidableEq α]

/-- `prop_cv < best_cv  or  (prop_cv == best_cv and prop_score < best_score)` on keys `(cv, score)` -/
def lexLt (a b : α × α) : Bool := decide (a.1 < b.1) || (decide (a.1 = b.1) && decide (a.2 < b.2))

/-- `gbest_soln[i], wrkss[j] = wrkss[j], gbest_soln[i]` -/
def exch (soln wrk : List ε) (i j : Nat) : List ε × List ε :=
  match soln[i]?, wrk[j]? with
  | some a, some b => (soln.set i b, wrk.set j a)
  | _, _ => (soln, wrk)

/-- `for i in range(len(gbest_soln)): for j in range(len(wrkss)):` -/
def pairs (m n : Nat) : List (Nat × Nat) :=
  (List.range m).flatMap (fun i => (List.range n).map (fun j => (i, j)))

/-- best_i/best_j and the evaluation stored with them -/
structure Best (β : Type) where
  ij : Option (Nat × Nat)
  val : β

/-- body of the inner loop: evaluate the exchange, keep it when strictly better than the best so far -/
def scanStep (eval : List ε → β) (key : β → α × α) (soln wrk : List ε) (best : Best β) (ij : Nat × Nat) :
    Best β :=
  let prop := eval (exch soln wrk ij.1 ij.2).1
  if lexLt (key prop) (key best.val) then ⟨some ij, prop⟩ else best

/-- one full scan of the exchange neighbourhood, started from the incumbent's stored evaluation -/
def scan (eval : List ε → β) (key : β → α × α) (soln wrk : List ε) (val : β) : Best β :=
  (pairs soln.length wrk.length).foldl (scanStep eval key soln wrk) ⟨none, val⟩

/-- state of the `while True` loop: (gbest_soln, wrkss, (gbest_obj, gbest_ineqcv, gbest_eqcv)) -/
structure HC (ε β : Type) where
  soln : List ε
  wrk : List ε
  val : β

/-- one iteration of `while True`; `none` = `break` -/
def step (eval : List ε → β) (key : β → α × α) (s : HC ε β) : Option (HC ε β) :=
  let b := scan eval key s.soln s.wrk s.val
  match b.ij with
  | none => none
  | some ij => let e := exch s.soln s.wrk ij.1 ij.2; some ⟨e.1, e.2, b.val⟩

end hillclimb

/-- StochasticHillClimberMutation.hillclimb / the stochastic memetic mutators: the leader and the
    pool of alternative alleles after any sequence of kept exchanges
    `prop.X[i], alleles[j] = alleles[j], prop.X[i]` (a rejected proposal is exchanged back) -/
def exchSeq {ε : Type} (soln wrk : List ε) : List (Nat × Nat) → List ε × List ε
  | [] => (soln, wrk)
  | ij :: rest => let e := exch soln wrk ij.1 ij.2; exchSeq e.1 e.2 rest

/-- run `step` until it returns `none`; the flag tells whether the loop exited within the fuel
    (`Props/C06.hillclimb_terminates`: some fuel always suffices) -/
def iter {σ : Type} (step : σ → Option σ) : Nat → σ → σ × Bool
  | 0, s => (s, false)
  | fuel + 1, s =>
    match step s with
    | none => (s, true)
    | some s' => iter step fuel s'

section hillclimb2
variable {ε β α : Type} [LT α] [DecidableLT α] [DecidableEq α] [DecidableEq ε]

/-- `wrkss = decn_space[~in1d(decn_space, gbest_soln)]` -/
def complement (space x : List ε) : List ε := space.filter (fun e => !decide (e ∈ x))

/-- start state: `gbest_obj, … = prob.evalfn(gbest_soln)` -/
def hcInit (eval : List ε → β) (space init : List ε) : HC ε β := ⟨init, complement space init, eval init⟩

/-- SteepestDescentSubsetHillClimber.minimize from the start subset `init` (= `rng.choice(space, k, replace=False)`) -/
def hillclimb (eval : List ε → β) (key : β → α × α) (space init : List ε) (fuel : Nat) : HC ε β × Bool :=
  iter (step eval key) fuel (hcInit eval space init)

/-- SortingSteepestDescentSubsetHillClimber.minimize: phase 1 (sorting) then phase 2 (hill climb) -/
def sortingHillclimb (eval : List ε → β) (key : β → α × α) (g : ε → α) (space : List ε) (k fuel : Nat) :
    HC ε β × Bool :=
  hillclimb eval key space (sortingSubset g space k) fuel

/-- UnconstrainedSteepestAscentSetHillClimber.optimize (the older copy of the exchange climber):
    no constraints, MAXIMISES the weighted score `numpy.dot(score, objfn_wt)`, accepts on strict `>` —
    the same loop on the key `(0, -wscore)` -/
def steepestAscent [Neg α] [OfNat α 0] (eval : List ε → β) (wscore : β → α) (space init : List ε) (fuel : Nat) :
    HC ε β × Bool :=
  hillclimb eval (fun v => ((0 : α), - wscore v)) space init fuel

end hillclimb2

/-! ### pymoo operators for subset chromosomes -/
section operators
variable {ε : Type} [DecidableEq ε]

/-- a subset decision: `ndecn` distinct members of the candidate set -/
def feasibleB (space : List ε) (k : Nat) (x : List ε) : Bool :=
  x.length == k && x.all (fun e => decide (e ∈ space)) && decide x.Nodup

/-- `np.random.choice(setspace, n_var, replace=…)`, the draw given as positions into `setspace` -/
def sampleSubset (space : List ε) (idx : List Nat) : List ε := Np.take idx space

/-- `arr[mask] = vals`: masked positions receive the values in order -/
def maskSet : List ε → List Bool → List ε → List ε
  | _ :: xs, true :: ms, v :: vs => v :: maskSet xs ms vs
  | x :: xs, true :: ms, [] => x :: maskSet xs ms []
  | x :: xs, false :: ms, vs => x :: maskSet xs ms vs
  | xs, [], _ => xs
  | [], _ :: _, _ => []

/-- `ap[mex], bp[mex] = bp[mex], ap[mex]`: both right-hand sides are read from the *original*
    arrays, then written index by index (a repeated index writes the same value again) -/
def exchangeAt (ap bp : List ε) (mex : List Nat) : List ε × List ε :=
  mex.foldl (fun (p : List ε × List ε) m =>
    match ap[m]?, bp[m]? with
    | some x, some y => (p.1.set m y, p.2.set m x)
    | _, _ => p) (ap, bp)

/-- ReducedExchangeCrossover._do for one mating; `mex = np.random.choice(clen, nex)` -/
def crossover (a b : List ε) (mex : List Nat) : List ε × List ε :=
  let mab := a.map (fun x => !decide (x ∈ b))
  let mba := b.map (fun x => !decide (x ∈ a))
  let ap := Np.compress mab a
  let bp := Np.compress mba b
  let e := exchangeAt ap bp mex
  (maskSet a mab e.1, maskSet b mba e.2)

/-- `clen` of the crossover (the draws must satisfy `mex ⊆ range clen`) -/
def crossoverClen (a b : List ε) : Nat :=
  min (a.filter (fun x => !decide (x ∈ b))).length (b.filter (fun x => !decide (x ∈ a))).length

/-- ReducedExchangeMutation._do for one individual, as written: `mab = ~isin(x, setspace)` selects
    the members of `x` that are NOT in the set space; `mexMask = random(len pp) < pp`;
    `choice` = positions drawn by `np.random.choice(bp, nex)` (with replacement) -/
def mutation (space x : List ε) (mexMask : List Bool) (choice : List Nat) : List ε :=
  let mab := x.map (fun e => !decide (e ∈ space))
  let mba := space.map (fun e => !decide (e ∈ x))
  let ap := Np.compress mab x
  let bp := Np.compress mba space
  let ap' := maskSet ap mexMask (Np.take choice bp)
  maskSet x mab ap'

/-- MultiObjectiveSteepestDescentHillClimberMutation.hillclimb: `X[:,:] = x; X[:,locus] = wrkss` -/
def hcNeighbors (space x : List ε) (locus : Nat) : List (List ε) :=
  (complement space x).map (fun w => x.set locus w)

/-- numpy fancy assignment `row[idx] = vals` (sequential, last write wins) -/
def fancySet (l : List ε) (idx : List Nat) (vals : List ε) : List ε :=
  (idx.zip vals).foldl (fun acc p => acc.set p.1 p.2) l

/-- MutatorA/MutatorB.hillclimb (as repaired by f3bb3b1b and 39facf4d): the candidate chromosomes one
    of which is returned.  `if nalleles == 0: return x`; otherwise row r of
    `Xhc[:,:] = x; Xhc[arange(nhcstep), lociix] = alleles[alleleix]` is `x` with locus `lociix[r]`
    replaced by `alleles[alleleix[r]]` -/
def mutatorRows (space x : List ε) (lociix alleleix : List Nat) : List (List ε) :=
  let alleles := complement space x
  if alleles.isEmpty then [x]
  else (lociix.zip (Np.take alleleix alleles)).map (fun p => x.set p.1 p.2)

/-- the form before f3bb3b1b: `Xhc[:,lociix] = alleles[alleleix]` broadcast over the rows — *every*
    row got *all* the listed loci overwritten (kept only for the regression counterexample) -/
def mutatorRowPrerepair (space x : List ε) (lociix alleleix : List Nat) : List ε :=
  fancySet x lociix (Np.take alleleix (complement space x))

/-- StochasticHillClimberMutation.hillclimb: with an empty pool of alternative alleles it returns
    `reduced_exchange(x)` (39facf4d), otherwise the leader after the kept exchanges -/
def stochasticHillclimb (space x : List ε) (kept : List (Nat × Nat)) (mexMask : List Bool) (choice : List Nat) :
    List ε :=
  let alleles := complement space x
  if alleles.isEmpty then mutation space x mexMask choice else (exchSeq x alleles kept).1

/-- the mechanism the property names ("mutation from the complement of the individual"), which
    `mutation` above does NOT implement: the members selected by `mexMask` are replaced by candidates
    outside the individual, `choice` = positions drawn in the complement -/
def mutationFromComplement (space x : List ε) (mexMask : List Bool) (choice : List Nat) : List ε :=
  maskSet x mexMask (Np.take choice (complement space x))

/-- abstract step of the evolutionary loop on a population of chromosomes -/
inductive GAOp where
  /-- SubsetRandomSampling: one more individual from a draw of positions -/
  | sample (idx : List Nat)
  /-- ReducedExchangeCrossover on individuals `i`, `j`; both children join the population -/
  | cross (i j : Nat) (mex : List Nat)
  /-- ReducedExchangeMutation on individual `i` (replaced in place) -/
  | mutate (i : Nat) (mexMask : List Bool) (choice : List Nat)
  /-- memetic hill-climb: every exchange neighbour of individual `i` at `locus` joins -/
  | neighbors (i locus : Nat)
  /-- selection / survival / duplicate elimination / pymoo's mating pool: any re-selection
      (with repetition, in any order) of current individuals -/
  | select (keep : List Nat)

def applyOp (space : List ε) (pop : List (List ε)) : GAOp → List (List ε)
  | .sample idx => pop ++ [sampleSubset space idx]
  | .cross i j mex =>
    match pop[i]?, pop[j]? with
    | some a, some b => let c := crossover a b mex; pop ++ [c.1, c.2]
    | _, _ => pop
  | .mutate i m c =>
    match pop[i]? with
    | some x => pop.set i (mutation space x m c)
    | none => pop
  | .neighbors i locus =>
    match pop[i]? with
    | some x => pop ++ hcNeighbors space x locus
    | none => pop
  | .select keep => Np.take keep pop

end operators

/-! ### integer variants: `out.round(0).astype(X.dtype)` -/

/-- numpy.round (round half to even) of a rational -/
def roundHalfEven (q : Rat) : Int :=
  let f := q.floor
  let r := q - (f : Rat)
  if r < 1/2 then f else if 1/2 < r then f + 1 else if f % 2 = 0 then f else f + 1

/-! ### the table-driven subset problem used by the correspondence harness -/

/-- objective j of x = objWt[j] * ( scale * Σ_p lin[x_p][j]  + [j = 0] ( Σ_{p<q} quad[x_p][x_q] + Σ_p posw[p] * lin[x_p][0] ) ),
    scale = 1 or 1/k;  ineqcv_c = ineqWt[c] * max(0, Σ_p cost_c[x_p] - budget_c);
    eqcv_c = eqWt[c] * |Σ_p vec_c[x_p] - target_c| -/
structure TableProb where
  space : List Int
  k : Nat
  lin : List (List Rat)
  mean : Bool
  quad : List (List Rat)
  posw : List Rat
  objWt : List Rat
  ineq : List (List Rat × Rat)
  ineqWt : List Rat
  eq : List (List Rat × Rat)
  eqWt : List Rat
  /-- per inequality constraint: `true` = the constraint function returns the signed slack
      `w * (Σ cost - budget)` (the documented `G(x) ≤ 0` form, negative when satisfied), `false` = the
      penalty form `w * max(0, Σ cost - budget)` -/
  ineqSigned : List Bool := []
  /-- per equality constraint: `true` = signed residual `w * (Σ vec - target)`, `false` = `w * |…|` -/
  eqSigned : List Bool := []

namespace TableProb

def pos (p : TableProb) (e : Int) : Option Nat :=
  let i := p.space.idxOf e
  if i < p.space.length then some i else none

def ratAbs (q : Rat) : Rat := if q < 0 then -q else q
def ratMax0 (q : Rat) : Rat := if q < 0 then 0 else q

/-- `prob.evalfn(x)` -> (obj, ineqcv, eqcv); `none` when a member is not in the candidate set -/
def evalfn (p : TableProb) (x : List Int) : Option (List Rat × List Rat × List Rat) := do
  let ix ← x.mapM p.pos
  let rows := ix.map (fun i => p.lin.getD i [])
  let nobj := p.objWt.length
  let scale : Rat := if p.mean then 1 / (x.length : Rat) else 1
  let colSum (j : Nat) : Rat := Np.sum (rows.map (fun r => r.getD j 0))
  let quadSum : Rat :=
    if p.quad.isEmpty then 0 else
    Np.sum (ix.zipIdx.flatMap (fun a => (ix.zipIdx.filter (fun b => a.2 < b.2)).map
      (fun b => (p.quad.getD a.1 []).getD b.1 0)))
  let posSum : Rat :=
    if p.posw.isEmpty then 0 else Np.sum (List.zipWith (fun w r => w * r.getD 0 0) p.posw rows)
  let obj := (List.range nobj).map (fun j =>
    p.objWt.getD j 1 * (scale * colSum j + (if j = 0 then quadSum + posSum else 0)))
  let tot (v : List Rat) : Rat := Np.sum (ix.map (fun i => v.getD i 0))
  let ineqcv := p.ineq.zipIdx.map (fun c => p.ineqWt.getD c.2 1 *
    (if p.ineqSigned.getD c.2 false then tot c.1.1 - c.1.2 else ratMax0 (tot c.1.1 - c.1.2)))
  let eqcv := p.eq.zipIdx.map (fun c => p.eqWt.getD c.2 1 *
    (if p.eqSigned.getD c.2 false then tot c.1.1 - c.1.2 else ratAbs (tot c.1.1 - c.1.2)))
  pure (obj, ineqcv, eqcv)

/-- evaluation used by the algorithm models: members outside the candidate set cannot occur
    (the start subset is checked by the driver op), the default is never read -/
def evalD (p : TableProb) (x : List Int) : List Rat × List Rat × List Rat := (p.evalfn x).getD ([], [], [])

/-- the climbers' key as REPAIRED (D41):
    `gbest_cv = numpy.maximum(gbest_ineqcv, 0.0).sum() + numpy.abs(gbest_eqcv).sum(); gbest_score = gbest_obj.sum()`
    — the (constraint violation, score) pair of the problem formulation `G(x) ≤ 0, H(x) = 0` -/
def key (v : List Rat × List Rat × List Rat) : Rat × Rat :=
  (Np.sum (v.2.1.map ratMax0) + Np.sum (v.2.2.map ratAbs), Np.sum v.1)

/-- the key BEFORE the repair of D41: `(gbest_ineqcv.sum() + gbest_eqcv.sum(), gbest_obj.sum())` — slack of
    a satisfied signed constraint counted as negative violation (kept for the regression counterexample;
    coincides with `key` when the constraint functions are penalties, i.e. non-negative) -/
def keyPrerepair (v : List Rat × List Rat × List Rat) : Rat × Rat := (Np.sum v.2.1 + Np.sum v.2.2, Np.sum v.1)

end TableProb

/-- all sub-lists of length `k` (order kept): the brute-force search space of a subset problem -/
def combos {ε : Type} : Nat → List ε → List (List ε)
  | 0, _ => [[]]
  | _ + 1, [] => []
  | k + 1, x :: xs => (combos k xs).map (x :: ·) ++ combos (k + 1) xs

/-! ### Spec oracles: the decidable predicates the driver evaluates on the implementation's outputs
    (`Props/C06`: `*_spec_iff` ties each to the Prop of the property theorem, `*_spec_sound` shows the
    model's own output satisfies it) -/
section specs
variable {ε β α : Type} [LT α] [DecidableLT α] [DecidableEq α] [DecidableEq ε]

/-- the single exchanges (position `i` of the decision, position `j` of the candidates outside it)
    whose (constraint violation, score) is lexicographically smaller than the decision's -/
def betterExchanges (eval : List ε → β) (key : β → α × α) (space decn : List ε) : List (Nat × Nat) :=
  (pairs decn.length (complement space decn).length).filter (fun ij =>
    lexLt (key (eval (exch decn (complement space decn) ij.1 ij.2).1)) (key (eval decn)))

/-- "no single exchange improves the decision" -/
def localOptB (eval : List ε → β) (key : β → α × α) (space decn : List ε) : Bool :=
  (betterExchanges eval key space decn).isEmpty

/-- the order-preserving k-selections of the candidate set that score strictly better -/
def betterSubsets {γ : Type} [LT γ] [DecidableLT γ] (score : List ε → γ) (k : Nat) (space decn : List ε) :
    List (List ε) :=
  (combos k space).filter (fun x => decide (score x < score decn))

/-- "the decision attains the brute-force optimum" -/
def optimumB {γ : Type} [LT γ] [DecidableLT γ] (score : List ε → γ) (k : Nat) (space decn : List ε) : Bool :=
  (betterSubsets score k space decn).isEmpty

/-- "no returned member is dominated by another": `dom a b` = row `a` dominates row `b` -/
def nondomB {ρ : Type} (dom : ρ → ρ → Bool) (rows : List ρ) : Bool :=
  rows.zipIdx.all (fun a => rows.zipIdx.all (fun b => a.2 == b.2 || !dom b.1 a.1))

end specs

/-! ### Solution assembly: `res.X / res.F / res.G / res.H` -> `Solution(soln_decn, soln_obj, soln_ineqcv, soln_eqcv)` -/
section assembly
variable {ε ν : Type}

/-- a pymoo individual: chromosome and the three vectors `Problem._evaluate` handed over for it -/
structure Indiv (ε ν : Type) where
  x : List ε
  f : ν
  g : ν
  h : ν

/-- `Problem._evaluate` (element-wise branch): `vals = self.evalfn(x); out.update(F, G, H)` — the
    vectors are handed to pymoo as they are, signed constraint values included -/
def mkIndiv (ev : List ε → ν × ν × ν) (x : List ε) : Indiv ε ν :=
  let v := ev x; ⟨x, v.1, v.2.1, v.2.2⟩

/-- the four parallel arrays of a Solution -/
structure Soln (ε ν : Type) where
  decn : List (List ε)
  obj : List ν
  ineqcv : List ν
  eqcv : List ν

/-- `<Algorithm>.minimize`, after pymoo returns: multi-objective `soln_decn = res.X, soln_obj = res.F,
    soln_ineqcv = res.G, soln_eqcv = res.H` (row r of each array = member r of `res.opt`);
    single-objective `numpy.stack([res.X])`, … (one member) -/
def assemble (opt : List (Indiv ε ν)) : Soln ε ν :=
  ⟨opt.map (·.x), opt.map (·.f), opt.map (·.g), opt.map (·.h)⟩

/-- row view of a Solution: (decision, obj, ineqcv, eqcv) by position -/
def Soln.rows (s : Soln ε ν) : List (List ε × ν × ν × ν) :=
  List.zip s.decn (List.zip s.obj (List.zip s.ineqcv s.eqcv))

/-- "the values reported with each solution equal a fresh evaluation at that decision" (exact) -/
def truthfulB [DecidableEq ν] (ev : List ε → ν × ν × ν) (s : Soln ε ν) : Bool :=
  s.decn.length == s.obj.length && s.decn.length == s.ineqcv.length && s.decn.length == s.eqcv.length &&
  s.rows.all (fun r => decide (ev r.1 = r.2))

/-- the exact optimisers (sorting, hill climbers): `nsoln = 1`, `numpy.stack([gbest_soln])`, … -/
def solutionOf (x : List ε) (v : ν × ν × ν) : Soln ε ν := assemble [⟨x, v.1, v.2.1, v.2.2⟩]

/-- `a * ()`: numpy broadcasts shape `(k,)` against shape `(0,)` — an error unless `k = 1`, in which
    case the product is EMPTY -/
def mulEmptyTuple (v : List ε) : Except String (List ε) :=
  if v.length = 1 then .ok [] else .error "operands could not be broadcast together"

/-- `Problem._evaluate` for a batch of chromosomes, as REPAIRED (D42):
    element-wise problems (`x.ndim == 1`, pymoo loops over the rows) call `evalfn(x, *args)`; the
    vectorised branch (`elementwise = False`) calls `evalfn(v, *args, **kwargs)` for every row `v` -/
def evaluateBatch (elementwise : Bool) (ev : List ε → ν) (X : List (List ε)) : Except String (List ν) :=
  if elementwise then .ok (X.map ev) else X.mapM (fun v => (pure (ev v) : Except String ν))

/-- the vectorised branch BEFORE the repair of D42: `evalfn(v *args, **kwargs)` PARSES as the product
    `v * args` with `args = ()` (kept for the regression counterexample) -/
def evaluateBatchPrerepair (elementwise : Bool) (ev : List ε → ν) (X : List (List ε)) : Except String (List ν) :=
  if elementwise then .ok (X.map ev) else X.mapM (fun v => (mulEmptyTuple v).map ev)

end assembly

/-! ### integer operators: pymoo's last step + rounding -/

/-- `repair_clamp` (last statement of pymoo's `cross_sbx`) / `set_to_bounds_if_outside` (last
    statement of `mut_pm`) for one variable -/
def clampR (l u q : Rat) : Rat := if q < l then l else if u < q then u else q

/-- IntegerSimulatedBinaryCrossover / IntegerPolynomialMutation on one chromosome: `raw` is whatever
    the real-coded arithmetic (SBX spread factors, polynomial perturbation) produced before pymoo's
    final clamp; then `.round(0).astype(int)` -/
def integerVariant (xl xu : List Int) (raw : List Rat) : List Int :=
  (List.zip raw (List.zip xl xu)).map (fun p => roundHalfEven (clampR (p.2.1 : Rat) (p.2.2 : Rat) p.1))

end Optimize
