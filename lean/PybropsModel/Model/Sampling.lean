/-
Model of pybrops/core/random/sampling.py (stochastic_universal_sampling, tiled_choice, axis_shuffle,
outcross_shuffle) and of core/util/array.py:sliceaxisix.  Core Lean only; executed at `Rat`/`Int`.

Randomness is an explicit oracle input: the value returned by `rng.uniform`, the rearrangement applied
by every `rng.shuffle`, the indices returned by `rng.choice`.  Every oracle input is validated against
what the generator call can return (an error starting with "oracle:" is a harness fault, never a
verdict).  Where the real code raises, the model returns the tag of the exception class
("index", "value", "type").
-/
import PybropsModel.Np

namespace Sampling

/-- result of `x[perm]`: entry `i` of the result is entry `perm[i]` of `x` (`rng.shuffle` moves entries
    of the array around; the harness records the rearrangement in this form) -/
def applyPerm {β : Type} (perm : List Nat) (l : List β) : List β := Np.take perm l

/-- `perm` is a rearrangement of `0, …, n-1` -/
def isPerm (perm : List Nat) (n : Nat) : Bool :=
  perm.length == n && (List.range n).all (fun i => perm.contains i)

/-! ## stochastic_universal_sampling (l.24-78) -/
section sus
variable {α : Type} [Add α] [Mul α] [Div α] [OfNat α 0] [NatCast α]
  [LT α] [DecidableLT α] [LE α] [DecidableLE α]

def nonIncreasing : List α → Bool
  | a :: b :: l => decide (b ≤ a) && nonIncreasing (b :: l)
  | _ => true

/-- `numpy.arange(start, stop, step)` over exact scalars: `start + j*step` while it is `< stop`
    (at most `fuel` entries are produced, counting from `j`) -/
def arangeGo (start stop step : α) : Nat → Nat → List α
  | 0, _ => []
  | fuel+1, j =>
    let x := start + (j : α) * step
    if x < stop then x :: arangeGo start stop step fuel (j+1) else []

def arange (cap : Nat) (start stop step : α) : List α := arangeGo start stop step cap 0

/-! ### the function before fix fc545079 (kept for the `…_prerepair_counterexample` theorems only) -/

/-- the pre-repair pointer loop
    `for ptr in ptrs: while cumsum[ix] < ptr: ix += 1; sel.append(indices[ix])`.
    The state `(cumsum[ix:], indices[ix:])` is the first argument: `ix` persists between pointers.
    `none` = `cumsum[ix]` ran off the end (IndexError). -/
def walk : List (α × Nat) → List α → Option (List Nat)
  | _, [] => some []
  | s, t :: ts =>
    match s.dropWhile (fun c => decide (c.1 < t)) with
    | [] => none
    | c :: s' => (walk (c :: s') ts).map (c.2 :: ·)

/-- the function as it was before fix fc545079 (`ptrs = numpy.arange(offset, tot_fit, ptr_dist)`, unguarded
    `while cumsum[ix] < ptr`): everything before `rng.shuffle(sel)` -/
def susIdxPrerepair (p : List α) (k : Nat) (sigma : List Nat) (offset : α) : Except String (List Nat) :=
  if isPerm sigma p.length = true then
    if nonIncreasing (sigma.map (fun i => p.getD i 0)) = true then
      if k = 0 then .error "value" else           -- ptr_dist = inf, rng.uniform raises OverflowError
      if 0 ≤ offset ∧ offset < Np.sum p / (k : α) then
        match walk ((Np.cumsum (sigma.map (fun i => p.getD i 0))).zip sigma)
                   (arange (k+1) offset (Np.sum p) (Np.sum p / (k : α))) with
        | none => .error "index"
        | some sel => if sel.length = k then .ok sel else .error "value"   -- sel.reshape(size)
      else .error "oracle: offset outside [0, ptr_dist)"
    else .error "oracle: sigma does not sort p in descending order"
  else .error "oracle: sigma is not a permutation of the indices"

/-! ### the function as it is (l.24-81, after fix fc545079)
```
ptrs = offset + ptr_dist * numpy.arange(k)
last = numpy.count_nonzero(p) - 1
lo = offset < 0.5 * ptr_dist
for ptr in ptrs:
    while ix < last and (cumsum[ix] <= ptr if lo else cumsum[ix] < ptr): ix += 1
    sel.append(indices[ix])
``` -/

/-- `while ix < last and cond(cumsum[ix]): ix += 1`; state = `(cumsum[ix:], indices[ix:])` and `last - ix` -/
def advanceG (cond : α → Bool) : List (α × Nat) → Nat → List (α × Nat) × Nat
  | c :: s, rem+1 => if cond c.1 then advanceG cond s rem else (c :: s, rem+1)
  | s, rem => (s, rem)

def walkG (cnd : α → α → Bool) : List (α × Nat) → Nat → List α → Option (List Nat)
  | _, _, [] => some []
  | s, rem, t :: ts =>
    match advanceG (fun c => cnd c t) s rem with
    | ([], _) => none
    | (c :: s', rem') => (walkG cnd (c :: s') rem' ts).map (c.2 :: ·)

/-- the comparison of the loop: right-open intervals `[cumsum[i-1], cumsum[i])` for an offset in the lower half
    of `[0, ptr_dist)`, right-closed ones in the upper half -/
def ptrCmp (lo : Bool) (c t : α) : Bool := if lo then decide (c ≤ t) else decide (c < t)

/-- `k > 0`: everything before `rng.shuffle(sel)`: the list `sel` of selected indices, in pointer order.
    `sigma` = `p.argsort()[::-1]` (oracle: numpy's unstable sort decides the order of ties),
    `offset` = the value returned by `rng.uniform(0.0, ptr_dist)`;
    `0.5 * ptr_dist` is exact in binary64, so `offset < 0.5*ptr_dist` is modelled as `offset + offset < ptr_dist`;
    `numpy.count_nonzero(p)` counts the entries that are `< 0` or `> 0`. -/
def susIdxCore (p : List α) (k : Nat) (sigma : List Nat) (offset : α) : Except String (List Nat) :=
  if isPerm sigma p.length = true then
    if nonIncreasing (sigma.map (fun i => p.getD i 0)) = true then
      if k = 0 then .error "value" else
      if 0 ≤ offset ∧ offset < Np.sum p / (k : α) then
        match walkG (ptrCmp (decide (offset + offset < Np.sum p / (k : α))))
                    ((Np.cumsum (sigma.map (fun i => p.getD i 0))).zip sigma)
                    ((p.filter (fun x => decide (0 < x) || decide (x < 0))).length - 1)
                    ((List.range k).map (fun (j : Nat) => offset + (j : α) * (Np.sum p / (k : α)))) with
        | none => .error "index"
        | some sel => .ok sel
      else .error "oracle: offset outside [0, ptr_dist)"
    else .error "oracle: sigma does not sort p in descending order"
  else .error "oracle: sigma is not a permutation of the indices"

/-- the function from its first line: `if k == 0: return a[numpy.zeros(size, dtype=int)]` (fix f1943417: an empty
    request is answered with an empty selection before anything is computed or drawn), otherwise `susIdxCore` -/
def susIdx (p : List α) (k : Nat) (sigma : List Nat) (offset : α) : Except String (List Nat) :=
  if k = 0 then .ok [] else susIdxCore p k sigma offset

/-- `sel` after `rng.shuffle(sel)` (`perm` = the rearrangement the generator made): the indices into
    `a` of the returned array, flat in row-major order (the returned array has shape `size`) -/
def susDraws (p : List α) (size : List Nat) (sigma : List Nat) (offset : α) (perm : List Nat) :
    Except String (List Nat) :=
  match susIdx p size.prod sigma offset with
  | .error e => .error e
  | .ok sel =>
    if isPerm perm sel.length = true then .ok (applyPerm perm sel)
    else .error "oracle: perm is not a rearrangement of the draws"

/-- the whole function: `a[sel]` -/
def sus {β : Type} (a : List β) (p : List α) (size : List Nat) (sigma : List Nat) (offset : α)
    (perm : List Nat) : Except String (List β) :=
  match susDraws p size sigma offset perm with
  | .error e => .error e
  | .ok idx => if idx.all (fun i => decide (i < a.length)) = true then .ok (Np.take idx a) else .error "index"

end sus

/- pre-repair code, binary64 transcription of the two lines that decided how many pointers there were
    (`ptr_dist = tot_fit / k`, `offset = rng.uniform(0.0, ptr_dist)` = `0.0 + (ptr_dist - 0.0) * u`,
     `numpy.arange(offset, tot_fit, ptr_dist)` whose length is `ceil((stop - start)/step)`),
    used for the concrete `Float` counterexamples of Props/C17 only. -/
namespace F
def ptrDist (tot : Float) (k : Nat) : Float := tot / Float.ofNat k
def offset (d u : Float) : Float := 0.0 + (d - 0.0) * u
/-- `len(numpy.arange(start, stop, step)) = n`, i.e. `n - 1 < (stop - start)/step ≤ n` -/
def arangeLenIs (start stop step : Float) (n : Nat) : Bool :=
  let x := (stop - start) / step
  decide (Float.ofNat n - 1.0 < x) && decide (x ≤ Float.ofNat n)
/-- number of pointers the pre-repair code generated for total weight `tot`, `k` draws and uniform variate `u` -/
def nPointersIs (tot : Float) (k : Nat) (u : Float) (n : Nat) : Bool :=
  let d := ptrDist tot k
  arangeLenIs (offset d u) tot d n
/-- pointer `j` as `numpy.arange` fills it: `first + j*(next - first)` with `next = start + step` -/
def pointer (start step : Float) (j : Nat) : Float := start + Float.ofNat j * ((start + step) - start)
end F

/-! ## tiled_choice (l.80-156) -/

/-- indices into `a` of the returned (flat) array.
    `replace = true`: `draw` is what `rng.choice(a, size, True, p)` picked.
    `replace = false`: `draw` is what `rng.choice(a, re, False, p)` picked (distinct options),
    `perm` the rearrangement made by `rng.shuffle(out)`. -/
def tiledIdx (noption nsample : Nat) (replace : Bool) (draw perm : List Nat) : Except String (List Nat) :=
  if replace = true then
    if draw.length = nsample ∧ ∀ i ∈ draw, i < noption then .ok draw
    else .error "oracle: choice must return nsample options"
  else
    if noption = 0 then .error "value" else        -- divmod by zero, then a broadcast ValueError
    if draw.length = nsample % noption ∧ (∀ i ∈ draw, i < noption) ∧ draw.Nodup then
      if isPerm perm nsample = true then
        .ok (applyPerm perm (Np.tile (nsample / noption) (List.range noption) ++ draw))
      else .error "oracle: perm is not a rearrangement"
    else .error "oracle: choice without replacement must return re distinct options"

def tiledChoice {β : Type} (a : List β) (size : List Nat) (replace : Bool) (draw perm : List Nat) :
    Except String (List β) :=
  match tiledIdx a.length size.prod replace draw perm with
  | .error e => .error e
  | .ok idx => .ok (Np.take idx a)

/-! ### tiled_choice, literally
```
out = numpy.empty(nsample, dtype = a.dtype)
for i in range(qu): out[(i*noption):((i+1)*noption)] = a
out[(qu*noption):] = rng.choice(a, re, replace, p)
rng.shuffle(out)
```
`init` = whatever `numpy.empty` left in the buffer (Lemmas/SamplingLoops: the result does not depend on it and is
`tiledIdx`). -/

/-- `out[start : start+len(vals)] = vals` on a flat buffer -/
def setSlice {β : Type} (out : List β) (start : Nat) (vals : List β) : List β :=
  out.take start ++ vals ++ out.drop (start + vals.length)

/-- the tile loop: `for i in range(qu): out[i*noption:(i+1)*noption] = range(noption)` -/
def tiledFill (noption qu : Nat) (init : List Nat) : List Nat :=
  (List.range qu).foldl (fun out i => setSlice out (i * noption) (List.range noption)) init

def tiledLoopIdx (noption nsample : Nat) (draw perm init : List Nat) : Except String (List Nat) :=
  if noption = 0 then .error "value" else
  if draw.length = nsample % noption ∧ (∀ i ∈ draw, i < noption) ∧ draw.Nodup then
    if isPerm perm nsample = true then
      .ok (applyPerm perm (setSlice (tiledFill noption (nsample / noption) init) (nsample / noption * noption) draw))
    else .error "oracle: perm is not a rearrangement"
  else .error "oracle: choice without replacement must return re distinct options"

/-! ## the second copy of the tiling mechanism: opt/algo/pymoo_addon.py:tiled_choice(a, size)
```
ndiv = size // a; nrem = size % a
for i in range(ndiv): out[a*i:a*(i+1)] = np.random.choice(a, a, replace = False)
out[a*ndiv:] = np.random.choice(a, nrem, replace = False)
```
`tiles` = the `ndiv + 1` results of `np.random.choice` in call order (oracle inputs; each is validated to be
what a draw without replacement from `range(a)` can return). -/

/-- `d` is something `choice(a, len, replace=False)` can return: `len` distinct options below `a` -/
def isDistinctDraw (a len : Nat) (d : List Nat) : Bool :=
  d.length == len && d.all (fun i => decide (i < a)) && decide d.Nodup

def tiledAddon (a size : Nat) (tiles : List (List Nat)) : Except String (List Nat) :=
  if a = 0 then .error "zerodiv" else                 -- `size // 0`
  if tiles.length = size / a + 1 ∧ (tiles.take (size / a)).all (isDistinctDraw a a) = true ∧
     (tiles.drop (size / a)).all (isDistinctDraw a (size % a)) = true then .ok tiles.flatten
  else .error "oracle: size // a full draws and one draw of size % a options, all without replacement, expected"

/-! ## axis_shuffle (l.158-196) with sliceaxisix (core/util/array.py l.161-199) -/

/-- all index tuples of an array of the given shape, in row-major order -/
def allIdx : List Nat → List (List Nat)
  | [] => [[]]
  | n :: rest => (List.range n).flatMap (fun i => (allIdx rest).map (i :: ·))

/-- the coordinates of an index tuple (whose first entry belongs to axis `k`) at the axes listed in `axis` -/
def axisKeyFrom (axis : List Nat) : Nat → List Nat → List Nat
  | _, [] => []
  | k, c :: m => if axis.contains k then c :: axisKeyFrom axis (k+1) m else axisKeyFrom axis (k+1) m

/-- the coordinates of index tuple `m` at the axes listed in `axis`: which slice `m` lies in -/
def axisKey (axis : List Nat) (m : List Nat) : List Nat := axisKeyFrom axis 0 m

/-- the first axis that is *not* iterated over: `rng.shuffle(a[s])` rearranges `a[s]` along it -/
def firstFree (axis : List Nat) (ndim : Nat) : Option Nat :=
  (List.range ndim).find? (fun i => !axis.contains i)

/-- `sliceaxisix(shape, axis)` (core/util/array.py l.161-199), literally: the recursion `recurse(l, s, a)`
    at depth `d = len(l)` over the remaining extents; `none` stands for `slice(None)`.  (The Python code
    special-cases the last depth only to yield there; for a non-empty shape that is this recursion.) -/
def sliceTuples (axis : List Nat) : Nat → List Nat → List (List (Option Nat))
  | _, [] => [[]]
  | d, n :: rest =>
    if axis.contains d then
      (List.range n).flatMap (fun i => (sliceTuples axis (d+1) rest).map (some i :: ·))
    else (sliceTuples axis (d+1) rest).map (none :: ·)

/-- the slices generated by `sliceaxisix(shape, axis)`, in generation order, each identified by its
    coordinates at the iterated axes (`axisKey axis shape` = the extents of those axes);
    closed form of `sliceTuples` (Props/C17 `sliceaxisix_keys`) -/
def sliceKeys (shape axis : List Nat) : List (List Nat) := allIdx (axisKey axis shape)

/-- where the value that ends up at index tuple `m` comes from: `a[s]` is rearranged along its first
    axis, i.e. along the first free axis `f` of `a`, by the rearrangement drawn for the slice of `m` -/
def axisSrc (shape axis : List Nat) (perms : List (List Nat)) (m : List Nat) : List Nat :=
  match firstFree axis shape.length, ((sliceKeys shape axis).zip perms).lookup (axisKey axis m) with
  | some f, some perm => m.set f (perm.getD (m.getD f 0) 0)
  | _, _ => m

/-- array as a function of the index tuple -/
def ndVal {β : Type} [Inhabited β] (shape : List Nat) (data : List β) (m : List Nat) : β :=
  (((allIdx shape).zip data).lookup m).getD default

/-- the values a flat array of the given shape holds in the slice identified by `key` -/
def sliceVals {β : Type} (shape axis : List Nat) (d : List β) (key : List Nat) : List β :=
  (((allIdx shape).zip d).filter (fun md => axisKey axis md.1 == key)).map Prod.snd

/-- `perms[t]` = rearrangement made by the `t`-th call `rng.shuffle(a[s])`; result = new flat content -/
def axisShuffle {β : Type} [Inhabited β] (shape axis : List Nat) (data : List β) (perms : List (List Nat)) :
    Except String (List β) :=
  if data.length = shape.prod then
    if shape = [] then .error "unsupported" else      -- 0-d array: sliceaxisix recurses without end
    match firstFree axis shape.length with
    | none =>                                          -- every axis iterated: a[s] is a 0-d item,
      if sliceKeys shape axis = [] then .ok data       --   rng.shuffle raises TypeError (if there is any slice)
      else .error "type"
    | some f =>
      if perms.length = (sliceKeys shape axis).length ∧ ∀ q ∈ perms, isPerm q (shape.getD f 0) = true then
        .ok ((allIdx shape).map (fun m => ndVal shape data (axisSrc shape axis perms m)))
      else .error "oracle: one rearrangement of the first free axis per slice expected"
  else .error "oracle: data does not fit shape"

/-! ### axis_shuffle, literally: `for s in sliceaxisix(a.shape, axis): rng.shuffle(a[s])`

`axisShuffle` above is the closed (gather) form; `axisShuffleLoop` is the sequence of in-place shuffles of the
views `a[s]`.  Lemmas/SamplingAxisLoop proves them equal, the driver runs the loop. -/

/-- does index tuple `m` lie in the view `a[s]`?  (`none` = `slice(None)`) -/
def matchesT : List (Option Nat) → List Nat → Bool
  | [], [] => true
  | none :: t, _ :: m => matchesT t m
  | some v :: t, c :: m => v == c && matchesT t m
  | _, _ => false

/-- axis 0 of the view `a[s]`: the first position of `s` that holds `slice(None)` -/
def viewAxis (t : List (Option Nat)) : Option Nat := t.findIdx? (fun o => o.isNone)

/-- one call `rng.shuffle(a[s])` on the flat content: inside the view, the entry with coordinate `i` along
    axis 0 of the view takes the value of the entry with coordinate `perm[i]`; outside nothing changes.
    A view without any axis (0-d item) cannot be shuffled (`none`). -/
def shuffleView {β : Type} [Inhabited β] (shape : List Nat) (t : List (Option Nat)) (perm : List Nat)
    (data : List β) : List β :=
  match viewAxis t with
  | none => data
  | some f => (allIdx shape).map (fun m =>
      if matchesT t m then ndVal shape data (m.set f (perm.getD (m.getD f 0) 0)) else ndVal shape data m)

/-- the whole loop; same validation of the oracle inputs as `axisShuffle` -/
def axisShuffleLoop {β : Type} [Inhabited β] (shape axis : List Nat) (data : List β) (perms : List (List Nat)) :
    Except String (List β) :=
  if data.length = shape.prod then
    if shape = [] then .error "unsupported" else
    match firstFree axis shape.length with
    | none => if sliceKeys shape axis = [] then .ok data else .error "type"
    | some f =>
      if perms.length = (sliceKeys shape axis).length ∧ ∀ q ∈ perms, isPerm q (shape.getD f 0) = true then
        .ok (((sliceTuples axis 0 shape).zip perms).foldl (fun d tp => shuffleView shape tp.1 tp.2 d) data)
      else .error "oracle: one rearrangement of the first free axis per slice expected"
  else .error "oracle: data does not fit shape"

/-- the entries of the `axis` argument that can ever equal a depth `len(l)` in `sliceaxisix`: a negative entry
    never does (the code does not normalise negative axes; it silently ignores them) -/
def axisEff (axis : List Int) : List Nat :=
  axis.filterMap (fun z => if 0 ≤ z then some z.toNat else none)

/-- the axes the caller asked for, numpy convention: a negative entry counts from the last axis -/
def axisReq (ndim : Nat) (axis : List Int) : List Nat :=
  axis.filterMap (fun z => if 0 ≤ z then some z.toNat else if 0 ≤ z + (ndim : Int) then some (z + (ndim : Int)).toNat else none)

/-- `axis_shuffle` with the `axis` argument as the caller gives it (integers of either sign):
    `axis = tuple(ax + a.ndim if ax < 0 else ax for ax in axis)` (fix 5396d924), then the loop -/
def axisShuffleZ {β : Type} [Inhabited β] (shape : List Nat) (axis : List Int) (data : List β)
    (perms : List (List Nat)) : Except String (List β) :=
  axisShuffleLoop shape (axisReq shape.length axis) data perms

/-- before fix 5396d924: negative entries were not normalised, hence ignored -/
def axisShuffleZPrerepair {β : Type} [Inhabited β] (shape : List Nat) (axis : List Int) (data : List β)
    (perms : List (List Nat)) : Except String (List β) :=
  axisShuffleLoop shape (axisEff axis) data perms

/-! ## outcross_shuffle (l.198-254) -/
section outcross
variable {β : Type} [DecidableEq β]

/-- `u, c = numpy.unique(row, return_counts=True); numpy.sum(c - 1)`:
    number of entries of the row that repeat another entry -/
def dupCount : List β → Nat
  | [] => 0
  | x :: l => (if x ∈ l then 1 else 0) + dupCount l

/-- row `r` of the `(nrow, ncol)` table whose flat (raveled) content is `x` -/
def row (ncol : Nat) (x : List β) (r : Nat) : List β := (x.drop (r * ncol)).take ncol

/-- `objfn` -/
def score (nrow ncol : Nat) (x : List β) : Nat := ((List.range nrow).map (fun r => dupCount (row ncol x r))).sum

/-- `xravel[i], xravel[j] = xravel[j], xravel[i]` -/
def swap (x : List β) (i j : Nat) : List β :=
  match x[i]?, x[j]? with
  | some a, some b => (x.set i b).set j a
  | _, _ => x

/-- the `for i,j in exchix` loop: exchange, score, keep and `break` when better than `gbest_score`,
    otherwise exchange back.  `none` = loop ran to its end (`local_optima` stays True) -/
def firstImproving (sc : List β → Nat) (x : List β) (g : Nat) : List (Nat × Nat) → Option (List β × Nat)
  | [] => none
  | ij :: rest =>
    let y := swap x ij.1 ij.2
    if sc y < g then some (y, sc y) else firstImproving sc x g rest

/-- the `while iterate` loop; `orders[t]` = content of `exchix` after the `t`-th `rng.shuffle(exchix)` -/
def climb (sc : List β → Nat) : List (List (Nat × Nat)) → List β → Nat → Except String (List β)
  | [], _, _ => .error "oracle: pair orders exhausted"
  | o :: os, x, g =>
    match firstImproving sc x g o with
    | some yg => climb sc os yg.1 yg.2
    | none => .ok x

/-- `exchix` before the first shuffle -/
def allPairs (n : Nat) : List (Nat × Nat) :=
  (List.range n).flatMap (fun i => ((List.range n).filter (fun j => i < j)).map (fun j => (i, j)))

def isPairOrder (n : Nat) (o : List (Nat × Nat)) : Bool :=
  o.length == (allPairs n).length && (allPairs n).all (fun q => o.contains q)

def outcross (nrow ncol : Nat) (x : List β) (orders : List (List (Nat × Nat))) : Except String (List β) :=
  if x.length = nrow * ncol then
    if orders.all (isPairOrder x.length) = true then
      climb (score nrow ncol) orders x (score nrow ncol x)
    else .error "oracle: every pass must visit every pair once"
  else .error "oracle: data does not fit shape"

/-! ### outcross_shuffle, literally, on a table of any memory layout
`xravel = xconfig.flat` addresses the entries of the table in C order wherever they lie in memory: logical position
`q` is element `addr[q]` of the underlying buffer (`addr` = distinct in-range offsets: C order, Fortran order, a column
or row subset of a larger array, negative strides, …).  The loop exchanges **in place** and exchanges **back** when
the score did not drop:
```
for i,j in exchix:
    xravel[i], xravel[j] = xravel[j], xravel[i]
    score = objfn(xconfig)
    if score < gbest_score: gbest_score = score; local_optima = False; break
    xravel[i], xravel[j] = xravel[j], xravel[i]
```
Lemmas/SamplingLoops proves that this is `outcross` on the logical content and leaves the rest of the buffer alone. -/

/-- the logical (C-order) content of the table: `xconfig.ravel()` as a copy -/
def gather (buf : List β) (addr : List Nat) : List β := Np.take addr buf

/-- `xravel[i], xravel[j] = xravel[j], xravel[i]` -/
def swapAt (buf : List β) (addr : List Nat) (i j : Nat) : List β :=
  match addr[i]?, addr[j]? with
  | some a, some b => swap buf a b
  | _, _ => buf

/-- one pass of the `for i,j in exchix` loop on the buffer: (buffer, gbest_score, local_optima) -/
def passLit (sc : List β → Nat) (addr : List Nat) : List β → Nat → List (Nat × Nat) → List β × Nat × Bool
  | buf, g, [] => (buf, g, true)
  | buf, g, ij :: rest =>
    let b1 := swapAt buf addr ij.1 ij.2
    if sc (gather b1 addr) < g then (b1, sc (gather b1 addr), false)
    else passLit sc addr (swapAt b1 addr ij.1 ij.2) g rest

/-- the `while iterate` loop on the buffer -/
def climbLit (sc : List β → Nat) (addr : List Nat) : List (List (Nat × Nat)) → List β → Nat → Except String (List β)
  | [], _, _ => .error "oracle: pair orders exhausted"
  | o :: os, buf, g =>
    match passLit sc addr buf g o with
    | (b, _, true) => .ok b
    | (b, g', false) => climbLit sc addr os b g'

/-- `outcross_shuffle(xconfig)` for a table whose entries live at the offsets `addr` of `buf`; result = the buffer -/
def outcrossBuf (nrow ncol : Nat) (buf : List β) (addr : List Nat) (orders : List (List (Nat × Nat))) :
    Except String (List β) :=
  if addr.length = nrow * ncol ∧ addr.Nodup ∧ ∀ a ∈ addr, a < buf.length then
    if orders.all (isPairOrder addr.length) = true then
      climbLit (score nrow ncol) addr orders buf (score nrow ncol (gather buf addr))
    else .error "oracle: every pass must visit every pair once"
  else .error "oracle: the table is not a view of the buffer"

/-- before fix 5d3f529a (`xravel = xconfig.ravel()` instead of `xconfig.flat`): the ravel was a view of the table
    only when the table was C-contiguous; otherwise every exchange was made on a copy, `objfn(xconfig)` never
    changed, the first pass ended without an improvement and the table was left as it was.
    (After the fix `xconfig.flat` writes through for every layout: `outcross` is the model for all tables.) -/
def outcrossPrerepair (cContiguous : Bool) (nrow ncol : Nat) (x : List β) (orders : List (List (Nat × Nat))) :
    Except String (List β) :=
  if cContiguous = true then outcross nrow ncol x orders
  else if x.length = nrow * ncol then .ok x else .error "oracle: data does not fit shape"

end outcross

/-! ## Spec oracles

Decidable statements of the property, evaluated by the driver on the *implementation's* output
(`c17.spec_*`); Props/C17 proves that the model's output always meets them (`…_meets_spec`). -/
section spec

/-- an integer count within (strictly) one of the expected count: the count is the floor or the ceiling
    of the expected count -/
def within1 {α : Type} [Add α] [OfNat α 1] [NatCast α] [LT α] [DecidableLT α] (c : Nat) (e : α) : Bool :=
  decide ((c : α) < e + 1) && decide (e < (c : α) + 1)

structure SusVerdict where
  lenOk : Bool
  memOk : Bool
  outside : List Nat      -- indices whose count is neither floor nor ceiling of the expected count
  zeroSel : List Nat      -- zero-weight indices that were selected
deriving Repr

/-- SUS: `out` (flat) has `k` entries, all taken from `a` (entries of `a` distinct), entry `a[i]`
    occurs `⌊k p_i / Σp⌋` or `⌈k p_i / Σp⌉` times and never when `p_i = 0` -/
def specSus {α β : Type} [Add α] [Mul α] [Div α] [OfNat α 0] [OfNat α 1] [NatCast α] [LT α] [DecidableLT α]
    [DecidableEq α] [DecidableEq β] (p : List α) (k : Nat) (a out : List β) : SusVerdict :=
  { lenOk := out.length == k
    memOk := out.all (fun v => decide (v ∈ a))
    outside := (List.range p.length).filter (fun i =>
      match a[i]? with
      | some v => !(within1 (out.count v) ((k : α) * p.getD i 0 / Np.sum p))
      | none => true)
    zeroSel := (List.range p.length).filter (fun i =>
      match a[i]? with
      | some v => decide (p.getD i 0 = 0) && decide (out.count v ≠ 0)
      | none => false) }

def SusVerdict.ok (v : SusVerdict) : Bool := v.lenOk && v.memOk && v.outside.isEmpty && v.zeroSel.isEmpty

/-- tiled choice without replacement: `nsample` entries, all options, every option used `⌊nsample/noption⌋`
    times or once more, any two options at most one use apart -/
def specTiled {β : Type} [DecidableEq β] (a out : List β) (nsample : Nat) : Bool :=
  out.length == nsample && out.all (fun v => decide (v ∈ a)) &&
  a.all (fun u => decide (out.count u = nsample / a.length ∨ out.count u = nsample / a.length + 1)) &&
  a.all (fun u => a.all (fun v => decide (out.count u ≤ out.count v + 1)))

/-- axis shuffle: the slices whose content is not a rearrangement of what it was -/
def specAxisBad {β : Type} [DecidableEq β] (shape axis : List Nat) (before after : List β) : List (List Nat) :=
  (sliceKeys shape axis).filter (fun key =>
    let b := sliceVals shape axis before key
    let c := sliceVals shape axis after key
    !(b.length == c.length && b.all (fun v => decide (b.count v = c.count v))
        && c.all (fun v => decide (b.count v = c.count v))))

def specAxis {β : Type} [DecidableEq β] (shape axis : List Nat) (before after : List β) : Bool :=
  after.length == before.length && (specAxisBad shape axis before after).isEmpty

/-- `sliceaxisix(shape, axis)`: the yielded tuples, read as (coordinates at the iterated axes) are all combinations
    of in-range coordinates in lexicographic order; every tuple has one entry per axis and `slice(None)` (`none`)
    exactly at the axes that are not iterated.  (This determines the list of tuples: Lemmas/SamplingSlices.) -/
def specSlices (shape axis : List Nat) (tuples : List (List (Option Nat))) : Bool :=
  (tuples.map (fun t => t.filterMap id) == sliceKeys shape axis) &&
  tuples.all (fun t => t.length == shape.length &&
    (List.range t.length).all (fun e => (t.getD e none).isNone == !(axis.contains e)))

structure OutcrossVerdict where
  multOk : Bool                     -- same multiset of entries
  rowsWorse : List Nat              -- crosses with more repeated individuals than before
  improving : List (Nat × Nat)      -- exchanges that would still lower the total
  before : Nat
  after : Nat
deriving Repr

def specOutcross {β : Type} [DecidableEq β] (nrow ncol : Nat) (before after : List β) : OutcrossVerdict :=
  { multOk := after.length == before.length && before.all (fun v => decide (before.count v = after.count v))
      && after.all (fun v => decide (before.count v = after.count v))
    rowsWorse := (List.range nrow).filter (fun r => decide (dupCount (row ncol before r) < dupCount (row ncol after r)))
    improving := (allPairs after.length).filter (fun ij =>
      decide (score nrow ncol (swap after ij.1 ij.2) < score nrow ncol after))
    before := score nrow ncol before
    after := score nrow ncol after }

def OutcrossVerdict.ok (v : OutcrossVerdict) : Bool :=
  v.multOk && v.rowsWorse.isEmpty && v.improving.isEmpty && decide (v.after ≤ v.before)

end spec

end Sampling
