/-
Model of the relationship-matrix classes of pybrops/popgen/cmat (core Lean only; executed at `Rat`):

  DenseMolecularCoancestryMatrix.from_gmat            -> `molecular`
  DenseVanRadenCoancestryMatrix.from_gmat             -> `vanraden`
  DenseYangCoancestryMatrix.from_gmat                 -> `yang` (as written, through `HasSqrt`),
                                                         `yangClosed` (square-root free closed form)
  DenseGeneralizedWeightedCoancestryMatrix.from_gmat  -> `gw`
  DenseCoancestryMatrix.mat_asformat / kinship / coancestry / max / min / mean /
      max_inbreeding / min_inbreeding / inverse       -> `asFormat`, `kinshipAt`, `coancestryAt`, `maxAll` ...
  DenseSquareTaxaMatrix.select_taxa, <gmat>.select_taxa -> `selectSq`, `Np.take`
  <gmat>.tacount / afreq                              -> `tacountPhased`, `afreq`

A genotype matrix enters as its `tacount()` view `X` (taxa × markers; rows = taxa) together with
`ploidy` and `m = nvrnt`; a phased matrix (phase × taxa × markers) goes through `tacountPhased` first.
Scalars are polymorphic (core classes only): the driver runs everything at `Rat`, the proofs are
over an arbitrary linearly ordered field.  `X @ Y.T` is `mulT X Y` (row i of X dotted with row j of Y).
`numpy.linalg.inv` is entered through its contract (`A · A⁻¹ = I`); `inverse` below is an exact
Gauss–Jordan elimination used as the reference the Spec oracle compares with.
-/
import PybropsModel.Np

namespace Coancestry

/-- how the real code fails: ZeroDivisionError (`1.0 / nvrnt`), RuntimeError (ploidy), a non-finite
    matrix (division by `Σ p(1-p) = 0`), ValueError for the shape / range of `p_anc`,
    LinAlgError (singular) -/
inductive Err | zeroDiv | ploidy | nonfinite | shape | range | singular
  deriving Repr, DecidableEq, Inhabited

def Err.tag : Err → String
  | .zeroDiv => "zerodiv" | .ploidy => "ploidy" | .nonfinite => "nonfinite"
  | .shape => "shape" | .range => "range" | .singular => "singular"

class HasSqrt (α : Type) where
  sqrt : α → α

instance : HasSqrt Float := ⟨Float.sqrt⟩

/-! ### small dense linear algebra on nested lists -/
section linalg
variable {α : Type}

/-- entry `(i,j)`; `0` outside the shape -/
def entry [OfNat α 0] (G : List (List α)) (i j : Nat) : α := (G.getD i []).getD j 0

def mapMat {β : Type} (f : α → β) (A : List (List α)) : List (List β) := A.map (fun r => r.map f)

def zipMat {β γ : Type} (f : α → β → γ) (A : List (List α)) (B : List (List β)) : List (List γ) :=
  List.zipWith (fun r s => List.zipWith f r s) A B

variable [Add α] [Mul α] [OfNat α 0]

/-- `A @ B.T` -/
def mulT (A B : List (List α)) : List (List α) := A.map (fun r => B.map (fun s => Np.dot r s))

/-- `A @ B` for a rectangular `B` with `k` columns -/
def mul (k : Nat) (A B : List (List α)) : List (List α) :=
  A.map (fun r => (List.range k).map (fun j => Np.dot r (B.map (fun s => s.getD j 0))))

/-- sum of all entries -/
def sumAll (G : List (List α)) : α := Np.sum (G.map Np.sum)

/-- column sums of a matrix with `m` columns (`mat.sum(axis = 0)`) -/
def colSums (m : Nat) (X : List (List α)) : List α :=
  (List.range m).map (fun k => Np.sum (X.map (fun r => r.getD k 0)))

def diag (G : List (List α)) : List α := G.zipIdx.map (fun ri => ri.1.getD ri.2 0)

/-- `numpy.take(numpy.take(mat, is, axis=0), is, axis=1)`: `DenseSquareTaxaMatrix.select_taxa` -/
def selectSq (is : List Nat) (G : List (List α)) : List (List α) := (Np.take is G).map (Np.take is)

end linalg

/-! ### genotype views -/
section geno
variable {α : Type} [Add α] [Mul α] [Div α] [OfNat α 0] [NatCast α]

/-- `DensePhasedGenotypeMatrix.tacount`: sum over the phase axis of a (phase × taxa × marker) array -/
def tacountPhased (g : List (List (List α))) : List (List α) :=
  match g with
  | [] => []
  | l :: ls => ls.foldl (zipMat (· + ·)) l

/-- `afreq()`: `mat.sum(taxa axis [and phase axis]) / (ploidy * ntaxa)` (the divide form of HEAD) -/
def afreq (ploidy n m : Nat) (X : List (List α)) : List α :=
  (colSums m X).map (fun s => s / ((ploidy * n : Nat) : α))

end geno

/-! ### the four estimators -/
section estimators
variable {α : Type} [Add α] [Sub α] [Mul α] [Div α] [OfNat α 0] [OfNat α 1] [NatCast α]

/-- `Z = X - M`, `M = p_anc[None,:] * float(ploidy)` -/
def center (ploidy : Nat) (p : List α) (X : List (List α)) : List (List α) :=
  X.map (fun r => List.zipWith (fun x pk => x - pk * (ploidy : α)) r p)

/-- DenseMolecularCoancestryMatrix.from_gmat.
    ploidy 1: `(2.0 * rnvrnt) * ((X @ X.T) + (Y @ Y.T))`, `Y = 1 - X`;
    ploidy 2: `X -= 1; 1.0 + rnvrnt * (X @ X.T)`;  `rnvrnt = 1.0 / nvrnt` is evaluated first. -/
def molecular (ploidy m : Nat) (X : List (List α)) : Except Err (List (List α)) :=
  if m = 0 then .error .zeroDiv else
  let r : α := 1 / (m : α)
  if ploidy = 1 then
    let Y := mapMat (fun x => 1 - x) X
    .ok (mapMat (fun s => ((1 + 1) * r) * s) (zipMat (· + ·) (mulT X X) (mulT Y Y)))
  else if ploidy = 2 then
    let X1 := mapMat (fun x => x - 1) X
    .ok (mapMat (fun s => 1 + r * s) (mulT X1 X1))
  else .error .ploidy

variable [LT α] [DecidableLT α] [DecidableEq α]

/-- the argument checks on an array-valued `p_anc` / `afreq` -/
def checkP (m : Nat) (p : List α) : Except Err Unit :=
  if p.length ≠ m then .error .shape
  else if p.any (fun x => x < 0 || 1 < x) then .error .range
  else .ok ()

/-- DenseVanRadenCoancestryMatrix.from_gmat with the reference frequencies `p` in force
    (`G_scale = 1.0 / (ploidy * p.dot(1 - p))`, `G = G_scale * Z.dot(Z.T)`).
    A zero denominator yields an inf/nan matrix in numpy: `nonfinite`. -/
def vanraden (ploidy : Nat) (p : List α) (X : List (List α)) : Except Err (List (List α)) :=
  let Z := center ploidy p X
  let den : α := (ploidy : α) * Np.dot p (p.map (fun x => 1 - x))
  if den = 0 then .error .nonfinite else
  .ok (mapMat (fun s => (1 / den) * s) (mulT Z Z))

/-- per-marker variance term `ploidy * p * (1 - p)` -/
def yangDen (ploidy : Nat) (p : List α) : List α := p.map (fun x => (ploidy : α) * x * (1 - x))

/-- DenseYangCoancestryMatrix.from_gmat as written:
    `Z_scale = 1/sqrt(ploidy*p*(1-p)); Z = Z * Z_scale; G = (1.0/nvrnt) * Z.dot(Z.T)` -/
def yang [HasSqrt α] (ploidy m : Nat) (p : List α) (X : List (List α)) : Except Err (List (List α)) :=
  let d := yangDen ploidy p
  if d.any (fun x => x = 0) then .error .nonfinite else
  let s := d.map (fun x => 1 / HasSqrt.sqrt x)
  let Z := (center ploidy p X).map (fun r => List.zipWith (· * ·) r s)
  if m = 0 then .error .zeroDiv else
  .ok (mapMat (fun x => (1 / (m : α)) * x) (mulT Z Z))

/-- square-root free closed form of `yang` (equal to it over ℝ when every `p` is strictly between 0
    and 1, theorem `yang_def`); this is what the driver executes at `Rat` -/
def yangClosed (ploidy m : Nat) (p : List α) (X : List (List α)) : Except Err (List (List α)) :=
  let d := yangDen ploidy p
  if d.any (fun x => x = 0) then .error .nonfinite else
  let Z := center ploidy p X
  let Zd := Z.map (fun r => List.zipWith (fun z dk => z / dk) r d)
  if m = 0 then .error .zeroDiv else
  .ok (mapMat (fun x => (1 / (m : α)) * x) (mulT Zd Z))

/-- `M = float(ploidy) * afreq[None,:]; Z = X - M` (the generalised-weighted class multiplies in the
    other order) -/
def centerGW (ploidy : Nat) (p : List α) (X : List (List α)) : List (List α) :=
  X.map (fun r => List.zipWith (fun x pk => x - (ploidy : α) * pk) r p)

/-- DenseGeneralizedWeightedCoancestryMatrix.from_gmat: `(Z * mkrwt[None,:]).dot(Z.T)` -/
def gw (ploidy : Nat) (w p : List α) (X : List (List α)) : List (List α) :=
  let Z := centerGW ploidy p X
  mulT (Z.map (fun r => List.zipWith (· * ·) r w)) Z

end estimators

/-! ### formats, accessors, summaries (DenseCoancestryMatrix) -/
section summaries
variable {α : Type} [Add α] [Sub α] [Mul α] [Div α] [OfNat α 0] [OfNat α 1] [NatCast α]

/-- the literal `0.5` -/
def half : α := 1 / (1 + 1)

/-- `mat_asformat`: "coancestry" ↦ copy, "kinship" ↦ `0.5 * mat` -/
def asFormat (kinship : Bool) (G : List (List α)) : List (List α) :=
  if kinship then mapMat (fun x => half * x) G else G

/-- `mat_asformat` in floating point: every product `0.5 * x` is rounded by `rnd`
    (`kinship_half_rounded_partial` in Props/C13: the rounding is the identity here, barring underflow) -/
def asFormatRnd (rnd : α → α) (kinship : Bool) (G : List (List α)) : List (List α) :=
  if kinship then mapMat (fun x => rnd (half * x)) G else G

/-! ### apply_jitter -/

/-- `mat[diag_indices] = d` -/
def setDiag (G : List (List α)) (d : List α) : List (List α) :=
  G.zipIdx.map (fun ri => ri.1.zipIdx.map (fun xj => if xj.2 = ri.2 then d.getD ri.2 0 else xj.1))

/-- the attempts of `apply_jitter`: `mat[diag] = mat_diag_old + uniform(minjitter, maxjitter, n)` then
    `is_positive_semidefinite`, until the test succeeds or the draws (`nattempt` of them) are used up.
    Only the diagonal is ever written, always from the saved `old` diagonal, so every candidate is the
    input matrix with a new diagonal, and the final restore `mat[diag] = mat_diag_old` gives the input back. -/
def jitterLoop (isPsd : List (List α) → Bool) (G : List (List α)) (old : List α) :
    List (List α) → List (List α) × Bool
  | [] => (G, false)
  | u :: us =>
    let cur := setDiag G (List.zipWith (· + ·) old u)
    if isPsd cur then (cur, true) else jitterLoop isPsd G old us

/-- DenseCoancestryMatrix.apply_jitter.  Oracle inputs: `isPsd` = the eigen-solver test
    `is_positive_semidefinite(eigvaltol)` (a contract), `draws` = the uniform vectors in call order.
    Returns the matrix left in the object and the reported success flag. -/
def applyJitter (isPsd : List (List α) → Bool) (draws : List (List α)) (G : List (List α)) :
    List (List α) × Bool :=
  if isPsd G then (G, true) else jitterLoop isPsd G (diag G) draws

def coancestryAt (G : List (List α)) (i j : Nat) : α := entry G i j
def kinshipAt (G : List (List α)) (i j : Nat) : α := half * entry G i j

/-- scale a summary that was computed on the coancestry matrix -/
def fmt (kinship : Bool) (x : α) : α := if kinship then half * x else x

/-- `mat.mean()` -/
def meanAll (G : List (List α)) : α := sumAll G / ((G.length * G.length : Nat) : α)
/-- `mat.mean(axis = 1)` -/
def meanRows (G : List (List α)) : List α := G.map (fun r => Np.sum r / ((r.length : Nat) : α))
/-- `mat.mean(axis = 0)` -/
def meanCols (G : List (List α)) : List α :=
  (colSums G.length G).map (fun s => s / ((G.length : Nat) : α))

/-- `1.0 / Ginv.sum()` given the inverse the solver returned -/
def minInbreedingOf (Ginv : List (List α)) : α := 1 / sumAll Ginv

variable [LT α] [DecidableLT α]

def maxL (l : List α) : Option α :=
  match l with
  | [] => none
  | a :: as => some (as.foldl (fun m x => if m < x then x else m) a)

def minL (l : List α) : Option α :=
  match l with
  | [] => none
  | a :: as => some (as.foldl (fun m x => if x < m then x else m) a)

/-- `mat.max()`, `mat.max(axis=1)`, `mat.max(axis=0)`; `none` where numpy raises (empty) -/
def maxAll (G : List (List α)) : Option α := maxL G.flatten
def minAll (G : List (List α)) : Option α := minL G.flatten
def maxRows (G : List (List α)) : Option (List α) := G.mapM maxL
def minRows (G : List (List α)) : Option (List α) := G.mapM minL
def cols (G : List (List α)) : List (List α) :=
  (List.range G.length).map (fun k => G.map (fun r => r.getD k 0))
def maxCols (G : List (List α)) : Option (List α) := (cols G).mapM maxL
def minCols (G : List (List α)) : Option (List α) := (cols G).mapM minL

/-- `mat.diagonal().max()` -/
def maxInbreeding (G : List (List α)) : Option α := maxL (diag G)

variable [DecidableEq α]

/-- row `i` of the `n × n` identity -/
def identRow (n i : Nat) : List α := (List.range n).map (fun j => if j = i then (1:α) else 0)

/-- the augmented matrix `[A | I]` -/
def augment (A : List (List α)) : List (List α) :=
  A.zipIdx.map (fun ri => ri.1 ++ identRow A.length ri.2)

/-- exchange rows `k` and `pi` -/
def swapRows (M : List (List α)) (k pi : Nat) : List (List α) :=
  M.zipIdx.map (fun ri => if ri.2 = k then M.getD pi [] else if ri.2 = pi then M.getD k [] else ri.1)

/-- normalise row `k` by its entry in column `k` and clear column `k` in every other row -/
def elimCol (M : List (List α)) (k : Nat) : List (List α) :=
  let rp := M.getD k []
  let prow := rp.map (fun x => x / rp.getD k 0)
  M.zipIdx.map (fun ri => if ri.2 = k then prow else
    List.zipWith (fun x y => x - ri.1.getD k 0 * y) ri.1 prow)

/-- one Gauss–Jordan step for column `k`: first non-zero pivot at or below the diagonal, swap, eliminate;
    `none` when the column has no pivot (singular) -/
def gjStep (n : Nat) (M : List (List α)) (k : Nat) : Option (List (List α)) :=
  match (List.range n).find? (fun i => k ≤ i && decide (entry M i k ≠ 0)) with
  | none => none
  | some pi => some (elimCol (swapRows M k pi) k)

/-- exact Gauss–Jordan elimination on `[A | I]`; `none` = singular.  Reference for `numpy.linalg.inv`
    (sound: `inverse_sound` in Props/C13). -/
def inverse (A : List (List α)) : Option (List (List α)) :=
  ((List.range A.length).foldlM (gjStep A.length) (augment A)).map
    (fun M => M.map (fun r => r.drop A.length))

/-- `min_inbreeding(format)`: `1.0 / inv(mat).sum()`, halved for "kinship" -/
def minInbreeding (kinship : Bool) (G : List (List α)) : Option α :=
  (inverse G).map (fun Gi => fmt kinship (minInbreedingOf Gi))

/-- `inverse(format)`: `inv(mat)` or `inv(0.5 * mat)` -/
def inverseFmt (kinship : Bool) (G : List (List α)) : Option (List (List α)) :=
  inverse (asFormat kinship G)

end summaries

/-! ### labels -/

/-- group metadata of a grouped matrix (`taxa_grp_name`, `taxa_grp_stix`, `taxa_grp_spix`, `taxa_grp_len`) -/
structure GrpMeta where
  name : List Int
  stix : List Nat
  spix : List Nat
  len : List Nat
  deriving Repr, DecidableEq

structure Labels where
  taxa : Option (List String)
  taxaGrp : Option (List Int)
  /-- present exactly when the source was grouped (`group_taxa()`) -/
  grpMeta : Option GrpMeta := none
  deriving Repr, DecidableEq

/-- a coancestry matrix object: values and the taxon labels it carries -/
structure CMat (α : Type) where
  mat : List (List α)
  lab : Labels

/-- `select_taxa` builds a fresh object from `mat`, `taxa`, `taxa_grp`: the group metadata is not kept -/
def Labels.select (is : List Nat) (l : Labels) : Labels :=
  ⟨l.taxa.map (Np.take is), l.taxaGrp.map (Np.take is), none⟩

/-- `<square matrix>.select_taxa(is)` -/
def CMat.select {α : Type} (is : List Nat) (c : CMat α) : CMat α := ⟨selectSq is c.mat, c.lab.select is⟩

/-- every `from_gmat` hands the source's `taxa` / `taxa_grp` to the constructor unchanged and copies the
    four group-metadata arrays -/
def fromGmat {α : Type} (lab : Labels) (r : Except Err (List (List α))) : Except Err (CMat α) :=
  r.map (fun G => ⟨G, lab⟩)

/-! ### published formulas, entry by entry (the right-hand sides of the `_def` theorems; the Spec
    oracle evaluates exactly these on the implementation's matrices) -/
section formulas
variable {α : Type} [Add α] [Sub α] [Mul α] [Div α] [OfNat α 0] [OfNat α 1] [NatCast α]

def sumRange (m : Nat) (f : Nat → α) : α := (List.range m).foldl (fun acc k => acc + f k) 0

/-- probability that an allele drawn from taxon `i` and one drawn from taxon `j` at marker `k` are
    identical by state, from the phased alleles `g[phase][taxon][marker] ∈ {0,1}` -/
def ibsPhased [DecidableEq α] (g : List (List (List α))) (i j k : Nat) : α :=
  let pl := g.length
  sumRange pl (fun a => sumRange pl (fun b =>
    if entry (g.getD a []) i k = entry (g.getD b []) j k then (1:α) else 0)) / ((pl * pl : Nat) : α)

/-- the same from allele counts `x ∈ {0..ploidy}`: `(x x' + (pl-x)(pl-x')) / pl²` -/
def ibsCount (ploidy : Nat) (X : List (List α)) (i j k : Nat) : α :=
  (entry X i k * entry X j k + ((ploidy : α) - entry X i k) * ((ploidy : α) - entry X j k))
    / ((ploidy * ploidy : Nat) : α)

/-- molecular coancestry = twice the average IBS probability -/
def molecularFormula (m : Nat) (ibs : Nat → Nat → Nat → α) (i j : Nat) : α :=
  (1 + 1) * (sumRange m (fun k => ibs i j k) / (m : α))

/-- VanRaden (2008) method 1 -/
def vanradenFormula (ploidy m : Nat) (p : List α) (X : List (List α)) (i j : Nat) : α :=
  sumRange m (fun k => (entry X i k - (ploidy : α) * p.getD k 0) * (entry X j k - (ploidy : α) * p.getD k 0))
    / ((ploidy : α) * sumRange m (fun k => p.getD k 0 * (1 - p.getD k 0)))

/-- Yang et al. (2010) -/
def yangFormula (ploidy m : Nat) (p : List α) (X : List (List α)) (i j : Nat) : α :=
  sumRange m (fun k => (entry X i k - (ploidy : α) * p.getD k 0) * (entry X j k - (ploidy : α) * p.getD k 0)
      / ((ploidy : α) * p.getD k 0 * (1 - p.getD k 0))) / (m : α)

/-- generalised weighted relationship `Z D Z'` -/
def gwFormula (ploidy m : Nat) (w p : List α) (X : List (List α)) (i j : Nat) : α :=
  sumRange m (fun k => w.getD k 0 * (entry X i k - (ploidy : α) * p.getD k 0) * (entry X j k - (ploidy : α) * p.getD k 0))

/-- population allele frequency `Σ_i x_ik / (ploidy n)` -/
def afreqFormula (ploidy n : Nat) (X : List (List α)) (k : Nat) : α :=
  sumRange n (fun i => entry X i k) / ((ploidy * n : Nat) : α)

end formulas

end Coancestry
