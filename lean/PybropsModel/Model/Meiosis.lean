/-
Model of pybrops/breed/prot/mate/util.py (`mat_meiosis`, `mat_dh`, `mat_mate`) and of its duplicate
pybrops/core/util/mate.py (`dense_meiosis`, `dense_dh`, `dense_cross`).  Core Lean only.

A diploid individual is the pair of its two chromosome copies (`geno[0,s,:]`, `geno[1,s,:]`);
a population is the list of its individuals (taxon-major view of the `(2, ntaxa, nvrnt)` array).
The uniform draws of `rng.uniform(0, 1, (len(sel), len(xoprob)))` are an explicit input: one
matrix per call of `mat_meiosis`, in call order.
-/
import PybropsModel.Np

namespace Meiosis

/-- why the real code (or the oracle protocol) rejects an input -/
inductive Err where
  | index    -- IndexError: a selection index outside the genotype matrix
  | value    -- ValueError: wrong xconfig width / count array length / stack of unequal shapes
  | shape    -- the genotype matrix is not rectangular with `len(xoprob)` markers (constructor rejects)
  | oracle   -- the supplied draws do not have the shapes the code would request (harness error)
  deriving DecidableEq, Repr

abbrev Hap (α : Type) := List α
abbrev Ind (α : Type) := List α × List α
abbrev Pop (α : Type) := List (Ind α)
/-- the draws of one `rng.uniform(0,1,(nsel, nvrnt))` call -/
abbrev DrawMat (ρ : Type) := List (List ρ)

section
variable {α ρ : Type}

/-- `rnd[i] < xoprob` -/
def xoMask [LT ρ] [DecidableLT ρ] (r xo : List ρ) : List Bool :=
  List.zipWith (fun a b => decide (a < b)) r xo

/-- literal transcription of the segment-copy loop of `mat_meiosis`:
    `for spix in xoix: gamete[i,stix:spix] = geno[phase,s,stix:spix]; stix = spix; phase = 1 - phase`
    followed by `gamete[i,stix:] = geno[phase,s,stix:]`.  The segments tile `[0, nvrnt)`, so the
    gamete is their concatenation. -/
def segLoop (h0 h1 : List α) : Nat → Bool → List Nat → List α
  | stix, ph, [] => (if ph then h1 else h0).drop stix
  | stix, ph, sp :: rest =>
      ((if ph then h1 else h0).drop stix).take (sp - stix) ++ segLoop h0 h1 sp (!ph) rest

/-- one row of `mat_meiosis`: `xoix = flatnonzero(mask)`, `phase = 0`, `stix = 0`, the loop -/
def gameteLoop (ind : Ind α) (mask : List Bool) : Hap α :=
  segLoop ind.1 ind.2 0 false (Np.flatnonzero mask)

/-- per-marker closed form: the phase flips at marker j iff a crossover is drawn at j, *before*
    marker j is copied -/
def perMarker : List Bool → Bool → List α → List α → List α
  | b :: bs, ph, a0 :: r0, a1 :: r1 =>
      (if xor ph b then a1 else a0) :: perMarker bs (xor ph b) r0 r1
  | _, _, _, _ => []

/-- closed form of one gamete -/
def gamete (ind : Ind α) (mask : List Bool) : Hap α := perMarker mask false ind.1 ind.2

/-- the phase (false = copy 0, true = copy 1) from which marker j is copied: parity of the number
    of crossovers drawn at markers 0..j -/
def phaseAt (mask : List Bool) (j : Nat) : Bool := ((mask.take (j + 1)).count true) % 2 == 1

/-- `for i,s in enumerate(sel)` with row `i` of the draws; an out-of-range `s` raises -/
def rowsE [LT ρ] [DecidableLT ρ] (pop : Pop α) (xo : List ρ) : List Nat → DrawMat ρ → Except Err (List (Hap α))
  | [], _ => .ok []
  | s :: sel, rnd =>
    match pop[s]? with
    | none => .error .index
    | some ind =>
      match rowsE pop xo sel rnd.tail with
      | .error e => .error e
      | .ok gs => .ok (gameteLoop ind (xoMask (rnd.headD []) xo) :: gs)

/-- shape of the draw matrix the code requests: `(len(sel), len(xoprob))` -/
def drawsShaped (nsel nvrnt : Nat) (rnd : DrawMat ρ) : Bool :=
  rnd.length == nsel && rnd.all (fun r => r.length == nvrnt)

/-- `mat_meiosis(geno, sel, xoprob, rng)` with the draws of its single `rng.uniform` call -/
def meiosisE [LT ρ] [DecidableLT ρ] (pop : Pop α) (sel : List Nat) (xo : List ρ) (rnd : DrawMat ρ) :
    Except Err (List (Hap α)) :=
  if drawsShaped sel.length xo.length rnd then rowsE pop xo sel rnd else .error .oracle

/-- `mat_mate`: female gametes (first `uniform` call) become phase 0, male gametes (second call)
    phase 1; `numpy.stack` raises when the two gamete matrices differ in shape.
    Returns the progeny and the draws not yet consumed. -/
def mateE [LT ρ] [DecidableLT ρ] (fpop mpop : Pop α) (fsel msel : List Nat) (xo : List ρ) :
    List (DrawMat ρ) → Except Err (Pop α × List (DrawMat ρ))
  | rf :: rm :: rest =>
    match meiosisE fpop fsel xo rf with
    | .error e => .error e
    | .ok fg =>
      match meiosisE mpop msel xo rm with
      | .error e => .error e
      | .ok mg => if fg.length = mg.length then .ok (List.zip fg mg, rest) else .error .value
  | _ => .error .oracle

/-- `mat_dh`: one gamete stacked twice -/
def dhE [LT ρ] [DecidableLT ρ] (pop : Pop α) (sel : List Nat) (xo : List ρ) :
    List (DrawMat ρ) → Except Err (Pop α × List (DrawMat ρ))
  | r :: rest =>
    match meiosisE pop sel xo r with
    | .error e => .error e
    | .ok g => .ok (g.map (fun h => (h, h)), rest)
  | _ => .error .oracle

/-- `for i in range(nself): geno = mat_mate(geno, geno, asel, asel, xoprob, rng)` -/
def selfLoop [LT ρ] [DecidableLT ρ] (xo : List ρ) (asel : List Nat) :
    Nat → Pop α → List (DrawMat ρ) → Except Err (Pop α × List (DrawMat ρ))
  | 0, pop, d => .ok (pop, d)
  | n + 1, pop, d =>
    match mateE pop pop asel asel xo d with
    | .error e => .error e
    | .ok (p', d') => selfLoop xo asel n p' d'

end

end Meiosis
