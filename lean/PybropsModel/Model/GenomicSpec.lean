/-
The decidable Spec oracles of C04 as pure functions (core Lean only, `Rat`).  They are the textbook
definitions, written index-wise straight from the phased genotypes and independently of the model in
Model/GenomicModel.lean; the driver ops `c04.spec_values / spec_stats / spec_alleles` only decode JSON
and call them.  Lemmas/SpecLink*.lean prove that they accept the model's outputs and that acceptance at
zero tolerance forces equality with the model.
-/
import PybropsModel.Model.GenomicModel

namespace GSpec

def absQ (q : Rat) : Rat := if q < 0 then -q else q
def maxQ (a b : Rat) : Rat := if a < b then b else a

/-- tolerant comparison: |a-b| ≤ abs or ≤ rel·max(|a|,|b|) -/
def closeQ (rel abs_ : Rat) (a b : Rat) : Bool :=
  decide (absQ (a - b) ≤ abs_) || decide (absQ (a - b) ≤ rel * maxQ (absQ a) (absQ b))

/-- a reported float (`none` = nan/inf) against a defined value (`none` = undefined) -/
def closeO (rel abs_ : Rat) (a : Option Rat) (b : Option Rat) : Bool :=
  match a, b with
  | some x, some y => closeQ rel abs_ x y
  | none, none => true
  | _, _ => false

def closeRow (rel abs_ : Rat) (a : List (Option Rat)) (b : List Rat) : Bool :=
  a.length == b.length && (List.zip a b).all (fun p => closeO rel abs_ p.1 (some p.2))

def closeMat (rel abs_ : Rat) (a : List (List (Option Rat))) (b : List (List Rat)) : Bool :=
  a.length == b.length && (List.zip a b).all (fun p => closeRow rel abs_ p.1 p.2)

def closeORow (rel abs_ : Rat) (a b : List (Option Rat)) : Bool :=
  a.length == b.length && (List.zip a b).all (fun p => closeO rel abs_ p.1 p.2)

/-! ### values -/

def dosageAt (g : List (List (List Int))) (i j : Nat) : Int :=
  (g.map (fun ph => (ph.getD i []).getD j 0)).sum

def entry (M : List (List Rat)) (i j : Nat) : Rat := (M.getD i []).getD j 0

/-- intercept of trait k: beta[0,k] + (Σ_{r≥1} beta[r,k]) / q -/
def interceptDef (beta : List (List Rat)) (k : Nat) : Rat :=
  entry beta 0 k + ((List.range (beta.length - 1)).map (fun r => entry beta (r+1) k)).sum / (beta.length : Rat)

def isHet (ploidy : Nat) (d : Int) : Bool := d != 0 && d != (ploidy : Int)

/-- additive value of taxon i, trait k -/
def addDef (ua : List (List Rat)) (g : List (List (List Int))) (i k : Nat) : Rat :=
  ((List.range ua.length).map (fun j => (dosageAt g i j : Rat) * entry ua j k)).sum

def domDef (ud : List (List Rat)) (ploidy : Nat) (g : List (List (List Int))) (i k : Nat) : Rat :=
  ((List.range ud.length).map (fun j => if isHet ploidy (dosageAt g i j) then entry ud j k else 0)).sum

def fixedDef (beta X : List (List Rat)) (i k : Nat) : Rat :=
  ((List.range beta.length).map (fun r => entry X i r * entry beta r k)).sum

def ntaxaOf (g : List (List (List Int))) : Nat := (g.headD []).length

/-- one defined value -/
def valueAt (mode : String) (beta ua : List (List Rat)) (ud : Option (List (List Rat)))
    (X : Option (List (List Rat))) (ploidy : Nat) (g : List (List (List Int))) (i k : Nat) : Rat :=
  let a := addDef ua g i k
  let d := match ud with | some ud => domDef ud ploidy g i k | none => 0
  let fx := match X with | some X => fixedDef beta X i k | none => 0
  match mode with
  | "gebv" => interceptDef beta k + a
  | "gegv" => interceptDef beta k + a + d
  | "gebv_numpy" => a
  | "predict" => fx + a
  | "predict_dom" => fx + a + d
  | _ => 0

/-- the defined value matrix for a mode -/
def valueDef (mode : String) (beta ua : List (List Rat)) (ud : Option (List (List Rat)))
    (X : Option (List (List Rat))) (t ploidy : Nat) (g : List (List (List Int))) : List (List Rat) :=
  (List.range (ntaxaOf g)).map (fun i => (List.range t).map (fun k => valueAt mode beta ua ud X ploidy g i k))

/-- **Spec oracle for one view**: the reported matrix equals the defined one within tolerance -/
def specValues (rel abs_ : Rat) (mode : String) (beta ua : List (List Rat)) (ud : Option (List (List Rat)))
    (X : Option (List (List Rat))) (t ploidy : Nat) (g : List (List (List Int)))
    (out : List (List (Option Rat))) : Bool :=
  closeMat rel abs_ out (valueDef mode beta ua ud X t ploidy g)

/-! ### statistics -/

def meanQ (l : List Rat) : Rat := l.sum / (l.length : Rat)
def varQ (l : List Rat) : Rat := let m := meanQ l; meanQ (l.map (fun x => (x - m) * (x - m)))
def colQ (M : List (List Rat)) (k : Nat) : List Rat := M.map (fun r => r.getD k 0)

/-- variance over taxa of the defined values of a mode, per trait -/
def varDef (mode : String) (beta ua : List (List Rat)) (ud : Option (List (List Rat))) (t ploidy : Nat)
    (g : List (List (List Int))) : List Rat :=
  let v := valueDef mode beta ua ud none t ploidy g
  (List.range t).map (fun k => varQ (colQ v k))

/-- allele frequency of marker j from the raw genotypes -/
def freqDef (p ploidy : Nat) (g : List (List (List Int))) : List Rat :=
  (List.range p).map (fun j =>
    (((List.range (ntaxaOf g)).map (fun i => dosageAt g i j)).sum : Rat) / ((ploidy * ntaxaOf g : Nat) : Rat))

def varGenicDef (ua : List (List Rat)) (t ploidy : Nat) (g : List (List (List Int))) : List Rat :=
  let freq := freqDef ua.length ploidy g
  (List.range t).map (fun k =>
    ((ploidy * ploidy : Nat) : Rat) *
      ((List.range ua.length).map (fun j => entry ua j k * entry ua j k * freq.getD j 0 * (1 - freq.getD j 0))).sum)

def bulmerDef (beta ua : List (List Rat)) (t ploidy : Nat) (g : List (List (List Int))) : List (Option Rat) :=
  (List.zip (varDef "gebv" beta ua none t ploidy g) (varGenicDef ua t ploidy g)).map
    (fun p => if p.2 == 0 then none else some (p.1 / p.2))

def r2Def (mode : String) (beta ua : List (List Rat)) (ud : Option (List (List Rat)))
    (X Y : List (List Rat)) (t ploidy : Nat) (g : List (List (List Int))) : List (Option Rat) :=
  let yhat := valueDef mode beta ua ud (some X) t ploidy g
  (List.range t).map (fun k =>
    let y := colQ Y k
    let m := meanQ y
    let sse := ((List.zip y (colQ yhat k)).map (fun p => (p.1 - p.2) * (p.1 - p.2))).sum
    let sst := (y.map (fun a => (a - m) * (a - m))).sum
    if sst == 0 then none else some (1 - sse / sst))

/-- the defined value of a named statistic (`none` = the Spec has no such statistic) -/
def statDef (name : String) (beta ua : List (List Rat)) (ud : Option (List (List Rat)))
    (X Y : Option (List (List Rat))) (t ploidy : Nat) (g : List (List (List Int))) : Option (List (Option Rat)) :=
  match name with
  | "var_A" => some ((varDef "gebv" beta ua none t ploidy g).map some)
  | "var_G_add" => some ((varDef "gebv" beta ua none t ploidy g).map some)
  | "var_A_dom" => some ((varDef "gebv" beta ua none t ploidy g).map some)
  | "var_G" => some ((varDef "gegv" beta ua ud t ploidy g).map some)
  | "var_a" => some ((varGenicDef ua t ploidy g).map some)
  | "afreq" => some ((freqDef ua.length ploidy g).map some)
  | "bulmer" => some (bulmerDef beta ua t ploidy g)
  | "score" => match X, Y with
      | some X, some Y => some (r2Def "predict" beta ua ud X Y t ploidy g)
      | _, _ => some []
  | "score_dom" => match X, Y with
      | some X, some Y => some (r2Def "predict_dom" beta ua ud X Y t ploidy g)
      | _, _ => some []
  | _ => none

def statNames : List String :=
  ["var_A", "var_G_add", "var_a", "afreq", "bulmer", "score", "score_dom", "var_A_dom", "var_G"]

/-- **Spec oracle for one statistic** -/
def specStat (rel abs_ : Rat) (name : String) (beta ua : List (List Rat)) (ud : Option (List (List Rat)))
    (X Y : Option (List (List Rat))) (t ploidy : Nat) (g : List (List (List Int)))
    (got : List (Option Rat)) : Bool :=
  match statDef name beta ua ud X Y t ploidy g with
  | some want => closeORow rel abs_ got want
  | none => true

/-! ### alleles -/

/-- copies of the favourable (`fav = true`) / deleterious allele of marker j for trait k, summed over taxa -/
def cntDef (fav : Bool) (ua : List (List Rat)) (ploidy : Nat) (g : List (List (List Int))) (j k : Nat) : Int :=
  let u := entry ua j k
  ((List.range (ntaxaOf g)).map (fun i =>
    let z := dosageAt g i j
    if u == 0 then (0 : Int)
    else if (fav && decide (0 < u)) || (!fav && decide (u < 0)) then z else (ploidy : Int) - z)).sum

def rawDef (g : List (List (List Int))) (j : Nat) : Int :=
  ((List.range (ntaxaOf g)).map (fun i => dosageAt g i j)).sum

def grid {β : Type} (p t : Nat) (f : Nat → Nat → β) : List (List β) :=
  (List.range p).map (fun j => (List.range t).map (fun k => f j k))

/-- the twelve observed matrices -/
structure AlleleObs where
  facount : List (List Int)
  dacount : List (List Int)
  fafreq : List (List (Option Rat))
  dafreq : List (List (Option Rat))
  faavail : List (List Bool)
  daavail : List (List Bool)
  fafixed : List (List Bool)
  dafixed : List (List Bool)
  fapoly : List (List Bool)
  dapoly : List (List Bool)
  nafixed : List (List Bool)
  napoly : List (List Bool)

/-- **Spec oracle for the allele functions**: one verdict per function -/
def specAlleles (rel abs_ : Rat) (ua : List (List Rat)) (ploidy : Nat) (g : List (List (List Int)))
    (o : AlleleObs) : List (String × Bool) :=
  let p := ua.length
  let t := (ua.headD []).length
  let total : Int := ((ploidy * ntaxaOf g : Nat) : Int)
  let cf := cntDef true ua ploidy g
  let cd := cntDef false ua ploidy g
  [("facount", o.facount == grid p t cf),
   ("dacount", o.dacount == grid p t cd),
   ("fafreq", closeMat rel abs_ o.fafreq (grid p t (fun j k => (cf j k : Rat) / (total : Rat)))),
   ("dafreq", closeMat rel abs_ o.dafreq (grid p t (fun j k => (cd j k : Rat) / (total : Rat)))),
   ("faavail", o.faavail == grid p t (fun j k => decide (0 < cf j k))),
   ("daavail", o.daavail == grid p t (fun j k => decide (0 < cd j k))),
   ("fafixed", o.fafixed == grid p t (fun j k => decide (cf j k = total))),
   ("dafixed", o.dafixed == grid p t (fun j k => decide (cd j k = total))),
   ("fapoly", o.fapoly == grid p t (fun j k => decide (0 < cf j k) && decide (cf j k < total))),
   ("dapoly", o.dapoly == grid p t (fun j k => decide (0 < cd j k) && decide (cd j k < total))),
   ("nafixed", o.nafixed == grid p t (fun j k =>
      (decide (rawDef g j = 0) || decide (rawDef g j = total)) && decide (entry ua j k = 0))),
   ("napoly", o.napoly == grid p t (fun j k =>
      (decide (0 < rawDef g j) && decide (rawDef g j < total)) && decide (entry ua j k = 0)))]

end GSpec
