/-
The complete run-time oracles of C20, one per kind of API call.  The driver (Drv/C20.lean) evaluates
exactly these Bool functions on what was recorded from the real class; Lemmas/ProgramOracle.lean proves
that the model's own runs satisfy them (`spec_sound`) and what they say declaratively (`spec_iff`).
Core Lean only.
-/
import PybropsModel.Model.Program

namespace Program
section oracle
variable {V : Type} [DecidableEq V]

/-- **initialisation clause** ("the stored initial state is never modified"): the initialisation
    operator is applied only to a programme that lacks a start container.  When all five were given, the
    trace of `evolve` contains no initialisation event — the given state IS the initial state.
    (A legitimately EMPTY container `{}` is a given container.) -/
def initOK (V0given : List (Option V)) (trace : List (Event V)) : Bool :=
  !(V0given.all Option.isSome) || trace.all (fun e => !(e.kind == EvKind.init))

/-- the initial state of one `evolve` call: what the caller gave when that is five containers; otherwise —
    the call then begins with an initialisation event — what the initialisation operator returned -/
def initialState (V0given : List (Option V)) (trace : List (Event V)) : List (Option V) :=
  if V0given.all Option.isSome then V0given else
  match trace with
  | e :: _ => if e.kind == EvKind.init then e.retVals else V0given
  | [] => V0given

/-- the clock an `evolve` call leaves behind: one past the last generation when at least one replicate
    ran, untouched otherwise -/
def clockAfterEvolve (nrep ngen tBefore : Nat) : Nat :=
  if nrep = 0 then tBefore else ngen + 1

/-- **everything the oracle demands of one `evolve(nrep, ngen, lbook, loginit)` call**: the call protocol
    and the replicate counter (`specFull`), the initialisation clause, the start containers holding the
    initial state after the call, the logbook's replicate counter advanced by `nrep`, and the clock left
    one past the last generation (so that a following `advance` continues the count). -/
def specEvolveCall (R : Item V → Item V → Bool) (nrep ngen : Nat) (loginit : Bool)
    (V0given : List (Option V)) (trace : List (Event V)) (startAfter : List (Option V))
    (repBefore repAfter : Int) (tBefore tAfter : Nat) : Bool :=
  specFull R nrep ngen loginit V0given trace && initOK V0given trace &&
    (startAfter == initialState V0given trace) && (repAfter == repBefore + Int.ofNat nrep) &&
    (tAfter == clockAfterEvolve nrep ngen tBefore)

/-- **a direct `reset()` call**: five working containers whose contents equal the initial state, clock
    0, start containers untouched -/
def specResetCall (V0 : List (Option V)) (work : List (Option V)) (tAfter : Nat)
    (startAfter : List (Option V)) : Bool :=
  (work == V0) && (tAfter == 0) && (startAfter == V0) && (V0.length == 5) && V0.all Option.isSome

/-- **a direct `advance(ngen)` call** made at clock `t0` while holding the containers `cur`: `ngen`
    generations at clocks `t0, t0 + 1, …`, the clock left at `t0 + ngen`, start containers untouched -/
def specAdvanceCall (R : Item V → Item V → Bool) (ngen t0 : Nat) (V0 : List (Option V)) (cur : List (Item V))
    (trace : List (Event V)) (startAfter : List (Option V)) (tAfter : Nat) : Bool :=
  specAdvance R ngen t0 V0 cur trace && (startAfter == V0) && (tAfter == t0 + ngen)

end oracle
end Program
