/-
The decidable Spec oracles of C04 for the rrBLUP part as pure functions (core Lean only, `Rat`):
`specGs` for a direct `gauss_seidel` call and `specFit` for a fitted model.  The driver ops
`c04.spec_gs / c04.spec_fit` only decode JSON (and reject non-finite coefficients) and call them;
Lemmas/SpecLinkFit.lean proves that they accept the model's outputs.
-/
import PybropsModel.Model.RRBlup
import PybropsModel.Model.GenomicSpec

namespace RSpec
open GMod RRBlup GSpec

/-- `½ xᵀAx − bᵀx` -/
def energyQ (A : List (List Rat)) (b x : List Rat) : Rat :=
  (1/2 : Rat) * dot x (A.map (fun r => dot r x)) - dot b x

/-- **Spec oracle for a direct `gauss_seidel(A, b, atol, maxiter)` call** (A symmetric, positive
    diagonal): the returned iterate has the length of `b` and never has larger energy than the all-zero
    start (`rel` only absorbs the float rounding of the reported iterate) -/
def specGs (rel : Rat) (A : List (List Rat)) (b x : List Rat) : Bool :=
  x.length == b.length && decide (energyQ A b x ≤ rel * (1 + absQ (dot b x)))

/-- what is evaluated per trait: (descent ok, normal equations ok, residual, tolerance, criterion(û), criterion(0)) -/
def traitClauses (rel reltol atol : Rat) (Zp : List (List Rat)) (npoly : Nat) (y : List Rat) (ridge : Rat)
    (u : List Rat) : Bool × Bool × Rat × Rat × Rat × Rat :=
  let e1 := psse y Zp ridge u
  let e0 := psse y Zp ridge (u.map (fun _ => 0))
  let A := ztzPlusRidge Zp npoly ridge
  let b := zty Zp npoly (center y)
  let res := residMax A b u
  let binf := b.foldl (fun m v => maxQ m (absQ v)) 0
  -- second term: the bound the repaired code itself tests, `2*gsatol*max_i sum_j |A_ij|`
  let tolr := maxQ (reltol * maxQ 1 binf) ((atol + atol) * rowAbsMax A)
  (decide (e1 ≤ e0 + rel * (1 + absQ e0)), decide (res ≤ tolr), res, tolr, e1, e0)

structure FitVerdict where
  shapes : Bool
  intercept : Bool
  mono : Bool
  descent : Bool
  normalEq : Bool
  wellDet : Bool
  perTrait : List (Bool × Bool × Rat × Rat × Rat × Rat)

def FitVerdict.ok (v : FitVerdict) : Bool := v.shapes && v.intercept && v.mono && v.descent && v.normalEq

/-- **Spec oracle of a fitted rrBLUP model**, evaluated on `beta` (1 × t), `u_a` (p × t) with the ridge
    chosen per trait:
    (1) intercept = training mean; (2) monomorphic markers have effect exactly 0;
    (3) penalised SSE(û) ≤ penalised SSE(0); (4) if n > (number of polymorphic markers):
        ‖(Z'Z + ridge I)û − Z'(y − ȳ)‖∞ ≤ max(reltol·max(1,‖Z'y_c‖∞), 2·atol·max_i Σ_j|A_ij|) -/
def specFit (rel abs_ reltol atol : Rat) (Y Z : List (List Rat)) (p t : Nat) (ridges : List Rat)
    (beta ua : List (List Rat)) (checkNE : Bool) : FitVerdict :=
  let n := Z.length
  let mask := isPoly Z p
  let npoly := mask.count true
  let Zp := selectCols mask Z
  let shapes := beta.length == 1 && (beta.headD []).length == t && ua.length == p && ua.all (·.length == t)
  let c1 := (List.range t).all (fun k => closeQ rel abs_ (entry beta 0 k) (meanQ (colQ Y k)))
  let c2 := (List.zip mask ua).all (fun mr => mr.1 || mr.2.all (· == 0))
  let perTrait := (List.range t).map (fun k =>
    traitClauses rel reltol atol Zp npoly (colQ Y k) (ridges.getD k 0) (Np.compress mask (colQ ua k)))
  let c3 := perTrait.all (·.1)
  let wellDet := checkNE && decide (npoly < n)
  let c4 := !wellDet || perTrait.all (·.2.1)
  { shapes := shapes, intercept := c1, mono := c2, descent := c3, normalEq := c4, wellDet := wellDet,
    perTrait := perTrait }

end RSpec
