/-
C02, round 5: matrix objects that hold their `vrnt_genpos` / `vrnt_xoprob` arrays BY REFERENCE.

Every mating protocol (and select_taxa, and a constructor call on the arrays of another matrix) hands the parents'
array OBJECTS on to the new matrix; `DenseGeneticMappableMatrix.interp_xoprob` assigns two NEW arrays to the object it
is called on (`self.vrnt_genpos = ...; self.vrnt_xoprob = ...`).  The model: a heap of arrays (a new array is
appended, nothing is ever overwritten), objects = pairs of indices into the heap.  `interpInPlace` is the variant
that writes the new probabilities INTO the array the object refers to (not what the code does: the counterexample).
Core Lean only.
-/
namespace RecombShare

structure Obj where
  xo : Nat
  gp : Nat
deriving Repr, DecidableEq

structure St (α : Type) where
  heap : List α
  objs : List Obj

inductive Op (α : Type) where
  /-- a new matrix object built on the arrays of object `i` (progeny of a mating protocol, select_taxa, constructor) -/
  | derive (i : Nat)
  /-- `interp_xoprob` on object `i`: genetic positions `gp` and crossover probabilities `xo` as two new arrays -/
  | interp (i : Nat) (gp xo : α)

def step {α : Type} (st : St α) : Op α → St α
  | .derive i =>
    match st.objs[i]? with
    | some o => { st with objs := st.objs ++ [o] }
    | none => st
  | .interp i gp xo =>
    if i < st.objs.length then
      { heap := st.heap ++ [gp, xo], objs := st.objs.set i ⟨st.heap.length + 1, st.heap.length⟩ }
    else st

def run {α : Type} (st : St α) (ops : List (Op α)) : St α := ops.foldl step st

/-- what object `i` reads: (genetic positions, crossover probabilities) -/
def read {α : Type} (st : St α) (i : Nat) : Option (α × α) :=
  match st.objs[i]? with
  | none => none
  | some o =>
    match st.heap[o.gp]?, st.heap[o.xo]? with
    | some gp, some xo => some (gp, xo)
    | _, _ => none

/-- every object refers to arrays that exist -/
def WF {α : Type} (st : St α) : Prop := ∀ o ∈ st.objs, o.xo < st.heap.length ∧ o.gp < st.heap.length

/-- every object refers to existing arrays and reads a pair (positions, probabilities) related by `P`
    (`P gp xo` := "xo is the map function of the distances of gp, 1/2 at the chromosome starts") -/
def Good {α : Type} (P : α → α → Prop) (st : St α) : Prop :=
  WF st ∧ ∀ i, i < st.objs.length → ∃ p, read st i = some p ∧ P p.1 p.2

/-- an operation of a history is admissible when what `interp_xoprob` assigns is related by `P` -/
def OkOp {α : Type} (P : α → α → Prop) : Op α → Prop
  | .derive _ => True
  | .interp _ gp xo => P gp xo

/-- NOT the code: the new probabilities are written into the array object `i` refers to, the positions are re-assigned -/
def interpInPlace {α : Type} (st : St α) (i : Nat) (gp xo : α) : St α :=
  match st.objs[i]? with
  | none => st
  | some o => { heap := (st.heap.set o.xo xo) ++ [gp], objs := st.objs.set i ⟨o.xo, st.heap.length⟩ }

end RecombShare
