/-
Model of
  pybrops/breed/prot/pt/G_E_Phenotyping.py   : phenotype (l.343-472), set_h2 / set_H2 (l.474-536), nrep setter
  pybrops/breed/prot/pt/TruePhenotyping.py   : phenotype (l.160-213)
  pybrops/breed/prot/bv/MeanPhenotypicBreedingValue.py : estimate (l.95-201)
  pybrops/breed/prot/bv/TrueBreedingValue.py : estimate (l.53-88)
Core Lean only; executed at `Rat` by the driver, reasoned about over a field in Lemmas/Pheno*.lean.

Random normals are ORACLE INPUTS: `phenotype` receives the flat stream of values that the code obtains
from `rng.multivariate_normal`, in call order (`Draw.vec` for a `(t,)` result, `Draw.mat` for `(n,t)`).
NaN (a taxon without phenotype record) is `none`.
-/
import PybropsModel.Np

namespace Pheno

/-! ### the phenotype data frame -/

/-- one row of the data frame returned by `phenotype()`:
    columns `taxa, taxa_grp, env, rep, <trait columns>` (`taxa_grp = none` is Python `None`) -/
structure Rec (L G α : Type) where
  taxa : L
  grp : Option G
  env : Nat
  rep : Nat
  vals : List α
deriving DecidableEq, Repr

/-- a value returned by `rng.multivariate_normal(mean, cov[, size])` -/
inductive Draw (α : Type) where
  | vec (v : List α)            -- size = None  -> shape (t,)
  | mat (m : List (List α))     -- size = ntaxa -> shape (n,t)
deriving Repr

/-- the draws of one replicate, one environment (structured view of the stream) -/
structure RepDraw (α : Type) where
  rep : List α
  err : List (List α)
deriving Repr

structure EnvDraw (α : Type) where
  env : List α
  reps : List (RepDraw α)
deriving Repr

section pheno
variable {L G α : Type} [Add α]

/-- elementwise `+` of two trait vectors (numpy broadcasting of `(n,t) + (1,t)` row by row) -/
def vadd (a b : List α) : List α := List.zipWith (· + ·) a b

/-- the label pair carried by taxon `i`: `(taxa[i], taxa_grp[i])`, `taxa_grp = None` ↦ `none` -/
def labels (taxa : List L) (grp : Option (List G)) : List (L × Option G) :=
  match grp with
  | none => taxa.map (fun t => (t, none))
  | some g => List.zipWith (fun t x => (t, some x)) taxa g

/-- rows of one (env, rep) block, l.431-439:
    `value = mat + env_effect[None,:] + rep_effect[None,:] + err_effect`; the label arrays are appended
    unchanged, `env+1` / `rep+1` repeated `ntaxa` times -/
def block (gv : List (List α)) (labs : List (L × Option G)) (e : Nat) (envE : List α) (r : Nat)
    (repE : List α) (err : List (List α)) : List (Rec L G α) :=
  List.zipWith (fun (gl : List α × (L × Option G)) (er : List α) =>
      { taxa := gl.2.1, grp := gl.2.2, env := e + 1, rep := r + 1,
        vals := vadd (vadd (vadd gl.1 envE) repE) er })
    (List.zip gv labs) err

/-- `for rep in range(env_nrep)` (l.421-439): consumes two draws per replicate.
    `mk r repE err` builds the block.  Returns the rows and the rest of the stream. -/
def repLoop {ρ : Type} (mk : Nat → List α → List (List α) → List ρ) :
    Nat → Nat → List (Draw α) → Option (List ρ × List (Draw α))
  | _, 0, s => some ([], s)
  | r, k+1, .vec repE :: .mat err :: s =>
    match repLoop mk (r+1) k s with
    | some (b, s') => some (mk r repE err ++ b, s')
    | none => none
  | _, _+1, _ => none

/-- `for env,env_nrep in zip(range(self.nenv), self.nrep)` (l.415-439): one draw per environment, then the
    replicate loop; the blocks are concatenated environment-major (l.443-451). -/
def envLoop (gv : List (List α)) (labs : List (L × Option G)) :
    Nat → List Nat → List (Draw α) → Option (List (Rec L G α))
  | _, [], _ => some []
  | e, k :: ks, .vec envE :: s =>
    match repLoop (block gv labs e envE) 0 k s with
    | some (b, s') =>
      match envLoop gv labs (e+1) ks s' with
      | some rest => some (b ++ rest)
      | none => none
    | none => none
  | _, _ :: _, _ => none

/-- closed form over the structured draws: blocks in (env, rep) lexicographic order -/
def repBlocks {ρ : Type} (mk : Nat → List α → List (List α) → List ρ) : Nat → List (RepDraw α) → List ρ
  | _, [] => []
  | r, rd :: rds => mk r rd.rep rd.err ++ repBlocks mk (r+1) rds

def envBlocks (gv : List (List α)) (labs : List (L × Option G)) : Nat → List (EnvDraw α) → List (Rec L G α)
  | _, [] => []
  | e, d :: ds => repBlocks (block gv labs e d.env) 0 d.reps ++ envBlocks gv labs (e+1) ds

/-- the stream of draws in the order in which `phenotype()` asks for them -/
def flattenReps : List (RepDraw α) → List (Draw α)
  | [] => []
  | rd :: rds => .vec rd.rep :: .mat rd.err :: flattenReps rds

def flattenDraws : List (EnvDraw α) → List (Draw α)
  | [] => []
  | d :: ds => .vec d.env :: (flattenReps d.reps ++ flattenDraws ds)

/-- shapes that numpy guarantees for the draws (and that broadcasting would otherwise reject) -/
def drawShapeOk (n t : Nat) : Draw α → Bool
  | .vec v => v.length == t
  | .mat m => m.length == n && m.all (fun r => r.length == t)

end pheno

/-! ### default labels: `"Taxon"+str(i+1).zfill(ceil(log10(n))+1)` (l.383-384, l.462-463) -/

/-- `math.ceil(math.log10(n))` for `n ≥ 1`: the least `k` with `n ≤ 10^k` -/
def ceilLog10 (n : Nat) : Nat := ((List.range (n+1)).find? (fun k => n ≤ 10 ^ k)).getD 0

/-- `str.zfill` on an unsigned decimal string -/
def zfill (s : String) (w : Nat) : String := String.ofList (List.replicate (w - s.length) '0') ++ s

/-- default names; `none` for `n = 0` (`math.log10(0)` raises `ValueError`) -/
def defaultNames (pre : String) (n : Nat) : Option (List String) :=
  if n = 0 then none else
  some ((List.range n).map (fun i => pre ++ zfill (toString (i+1)) (ceilLog10 n + 1)))

def namesOrDefault (pre : String) (given : Option (List String)) (n : Nat) : Option (List String) :=
  match given with
  | some l => some l
  | none => defaultNames pre n

/-! ### configuration: `nrep` setter (l.212-226) and the zip of l.415 -/

/-- `nrep` given as an integer is broadcast to `nenv` entries; an array must have `nenv` positive entries -/
def nrepSetter (nenv : Nat) (nrep : Nat ⊕ List Nat) : Option (List Nat) :=
  match nrep with
  | .inl k => if 0 < k then some (List.replicate nenv k) else none
  | .inr l => if l.length == nenv && l.all (0 < ·) then some l else none

/-- `numpy.all(nrep == nrep[0])`: every entry equals the first (an empty array cannot occur: `nenv > 0`) -/
def isConst : List Nat → Bool
  | [] => true
  | a :: l => l.all (· == a)

/-- what the repaired `nenv` setter (fix of D60) does to the stored replicate array when `nenv := n` is assigned:
    fewer environments truncate (`nrep[:n]`); more environments over a CONSTANT array (e.g. a broadcast integer) re-broadcast
    its value (`numpy.full(n, nrep[0])`); more environments over a non-constant array leave it alone (no count is defined
    for the new environments until `nrep` is assigned; `phenotype()` refuses such a configuration). -/
def nrepFollow (n : Nat) (nrep : List Nat) : List Nat :=
  if n < nrep.length then nrep.take n
  else if nrep.length < n then
    (match nrep with
     | [] => nrep
     | a :: _ => if isConst nrep then List.replicate n a else nrep)
  else nrep

/-- the `nenv` setter (l.201-215, repaired) called on a constructed object (`none`: `nenv ≤ 0` is rejected) -/
def reassignNenv (nenv' : Nat) (cfg : Nat × List Nat) : Option (Nat × List Nat) :=
  if 0 < nenv' then some (nenv', nrepFollow nenv' cfg.2) else none

/-- the `nenv` setter BEFORE the repair of D60: it stored the new number of environments and nothing else — the replicate
    array computed by the earlier `nrep` assignment kept its old length, and `phenotype` zipped `range(nenv)` with it. -/
def reassignNenvPrerepair (nenv' : Nat) (cfg : Nat × List Nat) : Option (Nat × List Nat) :=
  if 0 < nenv' then some (nenv', cfg.2) else none

section top
variable {G α : Type} [Add α]

/-- `taxa_grp` is either absent or has one entry per taxon -/
def grpLenOk (grp : Option (List G)) (n : Nat) : Bool :=
  match grp with
  | some g => g.length == n
  | none => true

/-- shapes that the real objects guarantee (label arrays and value rows of the breeding-value matrix, draws) -/
def phenoShapeOk (gv : List (List α)) (tx tr : List String) (grp : Option (List G)) (ntrait : Nat)
    (draws : List (Draw α)) : Bool :=
  tx.length == gv.length && tr.length == ntrait && gv.all (fun r => r.length == ntrait)
    && grpLenOk grp gv.length && draws.all (drawShapeOk gv.length ntrait)

/-- `G_E_Phenotyping.phenotype` BEFORE the repair of D60: no check of the configuration; the loop walks
    `zip(range(nenv), nrep)`, i.e. `min(nenv, len(nrep))` environments. -/
def phenotypePrerepair (gv : List (List α)) (taxa : Option (List String)) (grp : Option (List G))
    (trait : Option (List String)) (ntrait nenv : Nat) (nrep : List Nat) (draws : List (Draw α)) :
    Option (List String × List (Rec String G α)) :=
  match namesOrDefault "Taxon" taxa gv.length, namesOrDefault "Trait" trait ntrait with
  | some tx, some tr =>
    if phenoShapeOk gv tx tr grp ntrait draws then
      match envLoop gv (labels tx grp) 0 (nrep.take nenv) draws with
      | some rows => some (["taxa", "taxa_grp", "env", "rep"] ++ tr, rows)
      | none => none
    else none
  | _, _ => none

/-- `G_E_Phenotyping.phenotype` (repaired): `gv` is `gpmod.gegv(pgmat).unscale()`, `taxa / grp / trait` the label arrays of
    that matrix (`none` = `None`), `nrep` the stored array, `draws` the oracle stream.
    `none` = the real code raises: `len(nrep) != nenv` (the guard added with the repair of D60: one replicate count per
    environment is required), no taxa / traits, inconsistent shapes, stream exhausted. -/
def phenotype (gv : List (List α)) (taxa : Option (List String)) (grp : Option (List G))
    (trait : Option (List String)) (ntrait nenv : Nat) (nrep : List Nat) (draws : List (Draw α)) :
    Option (List String × List (Rec String G α)) :=
  if nrep.length = nenv then phenotypePrerepair gv taxa grp trait ntrait nenv nrep draws else none

/-- `TruePhenotyping.phenotype`: one row per taxon, value = true genotypic value; the `taxa_grp` column exists only
    when the matrix is grouped (l.197-198) -/
def truePhenotype (gv : List (List α)) (taxa : Option (List String)) (grp : Option (List G))
    (trait : Option (List String)) (ntrait : Nat) :
    Option (List String × List (String × Option G × List α)) :=
  let n := gv.length
  match namesOrDefault "Taxon" taxa n, namesOrDefault "Trait" trait ntrait with
  | some tx, some tr =>
    if tx.length == n && tr.length == ntrait && grpLenOk grp n then
      some (["taxa"] ++ (if grp.isSome then ["taxa_grp"] else []) ++ tr,
            List.zipWith (fun (l : String × Option G) g => (l.1, l.2, g)) (labels tx grp) gv)
    else none
  | _, _ => none

end top

/-! ### heritability: `var_err = (1 - h2)/h2 * var_A` (l.504, l.536) -/
section herit
variable {α : Type} [Add α] [Sub α] [Mul α] [Div α] [OfNat α 0] [OfNat α 1] [NatCast α] [LT α] [DecidableLT α]

/-- arithmetic mean `sum / len` -/
def mean (xs : List α) : α := Np.sum xs / (xs.length : α)

/-- `ndarray.var(0)` of one column: population variance `mean(|x - mean|²)` -/
def popVar (xs : List α) : α := let m := mean xs; mean (xs.map (fun x => (x - m) * (x - m)))

/-- `var_A` / `var_G` of the additive model: column-wise population variance of `Z @ u_a` (t columns) -/
def varCols (t : Nat) (gv : List (List α)) : List α :=
  (List.range t).map (fun j => popVar (gv.filterMap (fun r => r[j]?)))

/-- the error variance computed from one heritability target -/
def errVar (h2 varA : α) : α := (1 - h2) / h2 * varA

/-- `set_h2` / `set_H2`: elementwise over traits (a scalar `h2` is broadcast by the caller); the `var_err` setter
    rejects negative entries (`check_ndarray_all_gteq`), modelled as `none` -/
def setH2 (h2 varA : List α) : Option (List α) :=
  let v := List.zipWith errVar h2 varA
  if v.all (fun x => !(decide (x < 0))) then some v else none

/-- genetic over genetic-plus-error variance -/
def heritability (varA varE : α) : α := varA / (varA + varE)

end herit

/-! ### mean-phenotype breeding values (MeanPhenotypicBreedingValue.estimate) -/
section bv
variable {L G α : Type} [DecidableEq L] [DecidableEq G]

/-- group key of a record: `by = [taxa_col] (+ [taxa_grp_col])`.  The group-by is called with `dropna=False`: a record
    whose group label is missing (ungrouped population: `taxa_grp` column all `None`) keeps its row, under the key
    `(taxon, NaN)`.  (Always `some`; the `Option` is kept so that the lemmas read as before.) -/
def keyOf (useGrp : Bool) (r : Rec L G α) : Option (L × Option G) :=
  some (r.taxa, if useGrp then r.grp else none)

/-- first occurrences -/
def dedup {K : Type} [DecidableEq K] : List K → List K
  | [] => []
  | a :: l => a :: (dedup l).filter (fun b => b ≠ a)

/-- keys of the aggregated frame: distinct, ascending (`sort=True`) -/
def aggKeys (le : (L × Option G) → (L × Option G) → Bool) (useGrp : Bool) (recs : List (Rec L G α)) :
    List (L × Option G) :=
  Np.stableSort le (dedup (recs.filterMap (keyOf useGrp)))

/-- the value rows of the records of one group -/
def groupRows (useGrp : Bool) (recs : List (Rec L G α)) (k : L × Option G) : List (List α) :=
  (recs.filter (fun r => keyOf useGrp r = some k)).map (·.vals)

/-- `agg_df` (l.138-144) for an arbitrary per-group aggregation `f` of the value rows: one row per key, in key order -/
def aggWith {ρ : Type} (f : List (List α) → ρ) (le : (L × Option G) → (L × Option G) → Bool) (useGrp : Bool)
    (recs : List (Rec L G α)) : List ((L × Option G) × ρ) :=
  (aggKeys le useGrp recs).map (fun k => (k, f (groupRows useGrp recs k)))

/-- `dict(zip(agg_df_taxa, range(len(agg_df_taxa))))[taxon]` then `agg_df_mat[ix,:]` (l.169, l.179-185):
    the LAST aggregated row with that taxon name; `KeyError` ↦ row of NaN (`none`) -/
def lookupLast {ρ : Type} (tbl : List ((L × Option G) × ρ)) (name : L) : Option ρ :=
  ((tbl.filter (fun kv => kv.1.1 = name)).getLast?).map (·.2)

variable [Add α] [Sub α] [Mul α] [Div α] [OfNat α 0] [OfNat α 1] [NatCast α]

/-- `.agg({trait: "mean"})` on one group: per-column arithmetic mean (contract of pandas' groupby-mean) -/
def colMeans (t : Nat) (rows : List (List α)) : List α :=
  (List.range t).map (fun j => mean (rows.filterMap (fun r => r[j]?)))

/-- `agg_df` (l.138-144) -/
def agg (le : (L × Option G) → (L × Option G) → Bool) (useGrp : Bool) (t : Nat) (recs : List (Rec L G α)) :
    List ((L × Option G) × List α) :=
  aggWith (colMeans t) le useGrp recs

/-- `estimate` with a genotype matrix BEFORE the repair of D61: the group-by used `[taxa_col, taxa_grp_col]` whenever
    `taxa_grp_col` was set, and the join onto `gtobj.taxa` was keyed by the NAME alone — of a name used under two group
    labels only the LAST aggregated row (greatest group key) reached the output. -/
def meanBVPrerepair (le : (L × Option G) → (L × Option G) → Bool) (useGrp : Bool) (t : Nat) (recs : List (Rec L G α))
    (gtTaxa : List L) : List (Option (List α)) :=
  gtTaxa.map (lookupLast (agg le useGrp t recs))

/-- rows of the breeding-value matrix when a genotype matrix is supplied (repaired, fix of D61): one per `gtobj.taxa` entry,
    in that order.  With a genotype matrix the group-by uses the taxon NAME alone (`by = [taxa_col]`, l.132-137) whether or
    not `taxa_grp_col` is set (`useGrp` is accepted and not used): the records of a name are pooled, the join by name finds
    exactly one aggregated row. -/
def meanBV (le : (L × Option G) → (L × Option G) → Bool) (_useGrp : Bool) (t : Nat) (recs : List (Rec L G α))
    (gtTaxa : List L) : List (Option (List α)) :=
  meanBVPrerepair le false t recs gtTaxa

/-- without genotype matrix (l.147-158): the aggregated frame as is (taxa in group-by order); `taxa_grp = None` when the
    group column holds no label at all -/
def meanBVNoGt (le : (L × Option G) → (L × Option G) → Bool) (useGrp : Bool) (t : Nat) (recs : List (Rec L G α)) :
    List L × Option (List G) × List (List α) :=
  let a := agg le useGrp t recs
  (a.map (·.1.1), (if useGrp && !(a.all (fun kv => kv.1.2.isNone)) then some (a.filterMap (·.1.2)) else none), a.map (·.2))


/-! #### phenotype tables with missing values (NaN): pandas' group-by mean skips them (`skipna=True`) -/

/-- per-column mean over the NON-missing entries of a group; a column without any value stays missing -/
def colMeansNan (t : Nat) (rows : List (List (Option α))) : List (Option α) :=
  (List.range t).map (fun j =>
    let xs := rows.filterMap (fun r => (r[j]?).join)
    if xs.isEmpty then none else some (mean xs))

/-- `estimate` on a table whose trait cells may be NaN: one row per genotype taxon; an absent taxon is a row of NaN,
    a phenotyped taxon is missing exactly in the traits for which none of its records has a value -/
def meanBVNanPrerepair (le : (L × Option G) → (L × Option G) → Bool) (useGrp : Bool) (t : Nat)
    (recs : List (Rec L G (Option α))) (gtTaxa : List L) : List (List (Option α)) :=
  gtTaxa.map (fun name =>
    (lookupLast (aggWith (colMeansNan t) le useGrp recs) name).getD (List.replicate t none))

/-- the same for the repaired code (fix of D61): with a genotype matrix the group-by uses the name alone -/
def meanBVNan (le : (L × Option G) → (L × Option G) → Bool) (_useGrp : Bool) (t : Nat)
    (recs : List (Rec L G (Option α))) (gtTaxa : List L) : List (List (Option α)) :=
  meanBVNanPrerepair le false t recs gtTaxa

/-- the same without genotype matrix: the aggregated frame -/
def meanBVNanNoGt (le : (L × Option G) → (L × Option G) → Bool) (useGrp : Bool) (t : Nat)
    (recs : List (Rec L G (Option α))) : List L × List (List (Option α)) :=
  let a := aggWith (colMeansNan t) le useGrp recs
  (a.map (·.1.1), a.map (·.2))

end bv

/-- the group-by order on keys `(taxon name, group)`: lexicographic, names by code point, `none` first -/
def keyLe (a b : String × Option Int) : Bool :=
  if a.1 < b.1 then true else if b.1 < a.1 then false else
  match a.2, b.2 with
  | none, _ => true
  | some _, none => false
  | some x, some y => decide (x ≤ y)

/-! ### TrueBreedingValue.estimate = `gpmod.gebv(gtobj)`: the true values in genotype order with its labels -/
def trueBV {L G α : Type} (gv : List (List α)) (gtTaxa : Option (List L)) (gtGrp : Option (List G)) :
    Option (List L) × Option (List G) × List (List α) := (gtTaxa, gtGrp, gv)

end Pheno
