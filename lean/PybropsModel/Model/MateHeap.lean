/-
Heap-level model of the array traffic of `<Protocol>.mate()` (C01, "parental genotypes and all marker
metadata are carried over unaltered").

Arrays live in a heap (a list of cells; an address is an index).  `pgmat.mat`, every `vrnt_*` array, every
gamete matrix and every stacked genotype matrix is a cell.  The code never assigns into an array it did
not allocate itself: `mat_meiosis` fills the buffer it obtained from `numpy.empty`, `numpy.stack`
returns a new array, the protocols only rebind local names.  So every `mat_mate` / `mat_dh` call READS
the cells of its operands and APPENDS the cells it allocates (`mateEH`, `dhEH`); `generateH` is
`Mating.generate` with addresses in place of values.  `Lemmas/MateHeap.lean` proves that it computes what
`Mating.generate` computes and that the old part of the heap is a prefix of the new heap.
Core Lean only.
-/
import PybropsModel.Model.Mating

namespace MateHeap
open Meiosis Mating

abbrev Addr := Nat

/-- an array on the heap -/
inductive Cell (α : Type) where
  | geno (p : Pop α)              -- a `(2, ntaxa, nvrnt)` genotype array
  | gam (g : List (Hap α))        -- a `(n, nvrnt)` gamete array
  | other                         -- anything else (marker metadata, taxa names, …)

abbrev Heap (α : Type) := List (Cell α)

section
variable {α ρ : Type} [LT ρ] [DecidableLT ρ]

/-- `arr.shape[1]` of the genotype array at `a` -/
def lenH (h : Heap α) (a : Addr) : Nat :=
  match h[a]? with
  | some (.geno p) => p.length
  | _ => 0

/-- `mat_mate(fgeno, mgeno, fsel, msel, xoprob, rng)` on the heap: reads the two operand arrays; allocates
    the female gamete matrix, the male gamete matrix (`numpy.empty` in `mat_meiosis`, filled row by row)
    and the stacked progeny array (`numpy.stack`), in this order; returns the address of the last -/
def mateEH (h : Heap α) (fa ma : Addr) (fsel msel : List Nat) (xo : List ρ) (d : List (DrawMat ρ)) :
    Except Err (Addr × List (DrawMat ρ) × Heap α) :=
  match h[fa]?, h[ma]? with
  | some (.geno fpop), some (.geno mpop) =>
    match mateE fpop mpop fsel msel xo d with
    | .error e => .error e
    | .ok (p, d') => .ok (h.length + 2, d', h ++ [.gam (p.map Prod.fst), .gam (p.map Prod.snd), .geno p])
  | _, _ => .error .index

/-- `mat_dh` on the heap: one gamete matrix, then the stacked array -/
def dhEH (h : Heap α) (a : Addr) (sel : List Nat) (xo : List ρ) (d : List (DrawMat ρ)) :
    Except Err (Addr × List (DrawMat ρ) × Heap α) :=
  match h[a]? with
  | some (.geno pop) =>
    match dhE pop sel xo d with
    | .error e => .error e
    | .ok (p, d') => .ok (h.length + 1, d', h ++ [.gam (p.map Prod.fst), .geno p])
  | _ => .error .index

/-- `for i in range(nself): geno = mat_mate(geno, geno, asel, asel, xoprob, rng)`: the name `geno` is
    rebound to the new array each time; the previous generation's array stays where it is -/
def selfLoopH (xo : List ρ) (asel : List Nat) : Nat → Heap α → Addr → List (DrawMat ρ) →
    Except Err (Addr × List (DrawMat ρ) × Heap α)
  | 0, h, a, d => .ok (a, d, h)
  | n + 1, h, a, d =>
    match mateEH h a a asel asel xo d with
    | .error e => .error e
    | .ok (a', d', h') => selfLoopH xo asel n h' a' d'

/-- `Mating.generate` with addresses: `g` = address of `pgmat.mat` -/
def generateH (h : Heap α) (g : Addr) (P : Proto) (xc : List (List Nat)) (nm np : List Nat) (nself : Nat)
    (xo : List ρ) (d : List (DrawMat ρ)) : Except Err (Addr × List (DrawMat ρ) × Heap α) :=
  let mp := List.zipWith (· * ·) nm np
  let npm := Np.repeatEach nm np
  match P with
  | .self =>
    let fsel := Np.repeatEach mp (col xc 0)
    match mateEH h g g fsel fsel xo d with
    | .error e => .error e
    | .ok (s, d, h) => selfLoopH xo (Np.arange 0 (lenH h s)) nself h s d
  | .twoWay =>
    let fsel := Np.repeatEach mp (col xc 0)
    let msel := Np.repeatEach mp (col xc 1)
    match mateEH h g g fsel msel xo d with
    | .error e => .error e
    | .ok (hy, d, h) => selfLoopH xo (Np.arange 0 (lenH h hy)) nself h hy d
  | .twoWayDH =>
    let fsel := Np.repeatEach nm (col xc 0)
    let msel := Np.repeatEach nm (col xc 1)
    match mateEH h g g fsel msel xo d with
    | .error e => .error e
    | .ok (hy, d, h) =>
      match selfLoopH xo (Np.arange 0 (lenH h hy)) nself h hy d with
      | .error e => .error e
      | .ok (hy, d, h) => dhEH h hy (Np.repeatEach npm (Np.arange 0 (lenH h hy))) xo d
  | .threeWay =>
    let rsel := Np.repeatEach mp (col xc 0)
    let fsel := Np.repeatEach nm (col xc 1)
    let msel := Np.repeatEach nm (col xc 2)
    match mateEH h g g fsel msel xo d with
    | .error e => .error e
    | .ok (f1, d, h) =>
      let f1sel := Np.repeatEach npm (Np.arange 0 (lenH h f1))
      match mateEH h g f1 rsel f1sel xo d with
      | .error e => .error e
      | .ok (hy, d, h) => selfLoopH xo (Np.arange 0 (lenH h hy)) nself h hy d
  | .threeWayDH =>
    let rsel := Np.repeatEach nm (col xc 0)
    let fsel := Np.repeatEach nm (col xc 1)
    let msel := Np.repeatEach nm (col xc 2)
    match mateEH h g g fsel msel xo d with
    | .error e => .error e
    | .ok (f1, d, h) =>
      match mateEH h g f1 rsel (Np.arange 0 (lenH h f1)) xo d with
      | .error e => .error e
      | .ok (bc, d, h) =>
        match selfLoopH xo (Np.arange 0 (lenH h bc)) nself h bc d with
        | .error e => .error e
        | .ok (bc, d, h) => dhEH h bc (Np.repeatEach npm (Np.arange 0 (lenH h bc))) xo d
  | .fourWay =>
    let f2sel := Np.repeatEach nm (col xc 0)
    let m2sel := Np.repeatEach nm (col xc 1)
    let f1sel := Np.repeatEach nm (col xc 2)
    let m1sel := Np.repeatEach nm (col xc 3)
    match mateEH h g g f1sel m1sel xo d with
    | .error e => .error e
    | .ok (ab, d, h) =>
      match mateEH h g g f2sel m2sel xo d with
      | .error e => .error e
      | .ok (cd, d, h) =>
        let absel := Np.repeatEach npm (Np.arange 0 (lenH h ab))
        let cdsel := Np.repeatEach npm (Np.arange 0 (lenH h cd))
        match mateEH h ab cd absel cdsel xo d with
        | .error e => .error e
        | .ok (hy, d, h) => selfLoopH xo (Np.arange 0 (lenH h hy)) nself h hy d
  | .fourWayDH =>
    let f2sel := Np.repeatEach nm (col xc 0)
    let m2sel := Np.repeatEach nm (col xc 1)
    let f1sel := Np.repeatEach nm (col xc 2)
    let m1sel := Np.repeatEach nm (col xc 3)
    match mateEH h g g f1sel m1sel xo d with
    | .error e => .error e
    | .ok (ab, d, h) =>
      match mateEH h g g f2sel m2sel xo d with
      | .error e => .error e
      | .ok (cd, d, h) =>
        match mateEH h ab cd (Np.arange 0 (lenH h ab)) (Np.arange 0 (lenH h cd)) xo d with
        | .error e => .error e
        | .ok (dih, d, h) =>
          match selfLoopH xo (Np.arange 0 (lenH h dih)) nself h dih d with
          | .error e => .error e
          | .ok (dih, d, h) => dhEH h dih (Np.repeatEach npm (Np.arange 0 (lenH h dih))) xo d

end

/-- a `DensePhasedGenotypeMatrix` as the heap sees it: the address of `mat` and of each marker-metadata array -/
structure GMat where
  mat : Addr
  vmeta : VMeta Addr

/-- the progeny object each `mate()` builds: `mat` = the array generated last (re-ordered by `group_taxa`, which
    allocates: `self._mat = self._mat[:,indices,:]`), the thirteen metadata fields = the parent's POINTERS -/
def progenyObj (P : Proto) (pg : GMat) (matAddr : Addr) : GMat :=
  { mat := matAddr, vmeta := progenyMeta P pg.vmeta }

end MateHeap
