/-
Dataflow analysis of a schedule by symbolic execution (core Lean only, executable; `WellFormed`
is closed by `decide` for the regenerated schedule in Props/C20.lean).

Symbolic values are tokens: one per allocation (`x = {}`, `deepcopy`) and one per value returned by
an operator call.  Walking a statement block records for every operator / logbook call which tokens
it is handed, at which (relative or absolute) clock value, and which of them are *pristine* deep
copies of a start container (no call has had a chance to touch them yet).
`WellFormed` asks of the recorded dataflow exactly what the property says of the trace; the order of
the deep copies, the place of `t_cur = 0`, the names of local variables, extra copies, moves and
no-op statements are irrelevant.  Lemmas/ProgramSym*.lean prove the analysis sound.
-/
import PybropsModel.Model.Program

namespace Program

abbrev Tok := Nat

/-- abstract clock: unknown, an absolute value, or (value at block entry) + n -/
inductive TVal | unknown | abs (n : Nat) | rel (n : Nat)
  deriving DecidableEq, Repr

def TVal.succ : TVal → TVal
  | .unknown => .unknown
  | .abs n => .abs (n + 1)
  | .rel n => .rel (n + 1)

def TVal.known : TVal → Bool
  | .unknown => false
  | _ => true

/-- a symbolic call -/
structure SEv where
  kind : EvKind
  guarded : Bool                  -- under `if loginit:`
  t : TVal
  rep : Nat                       -- number of `lbook.rep += 1` executed before it in the block
  args : List Tok
  rets : List Tok
  pristine : List (Option Nat)    -- per argument: untouched deep copy of start container i
  deriving DecidableEq, Repr

structure AState where
  regs : Reg → Option Tok
  t : TVal
  rep : Nat
  next : Tok
  evs : List SEv
  pristine : List (Tok × Nat)
  ok : Bool

def AState.fail (a : AState) : AState := { a with ok := false }

def lookupPristine (p : List (Tok × Nat)) (tok : Tok) : Option Nat :=
  match p with
  | [] => none
  | (t, i) :: rest => if t = tok then some i else lookupPristine rest tok

def freshToks (next n : Nat) : List Tok := (List.range n).map (· + next)

/-- symbolic effect of a statement that is neither a loop nor a method call -/
def symS (s : Stmt) (a : AState) : AState :=
  if !a.ok then a else
  match s with
  | .skip => a
  | .incRep => { a with rep := a.rep + 1 }
  | .tick => { a with t := a.t.succ }
  | .setT0 => { a with t := .abs 0 }
  | .newDict dst => { a with regs := setReg a.regs dst (some a.next), next := a.next + 1 }
  | .copyStart dst i =>
    if i < 5 then
      { a with regs := setReg a.regs dst (some a.next), next := a.next + 1,
               pristine := (a.next, i) :: a.pristine }
    else a.fail
  | .move dst src =>
    match a.regs src with
    | some tok => { a with regs := setReg a.regs dst (some tok) }
    | none => a.fail
  | .call k args rets =>
    match (bindArgs (opKws k) args).bind (resolve a.regs) with
    | none => a.fail
    | some toks =>
      if a.t.known && rets.length == arity k then
        { a with regs := assign a.regs rets (freshToks a.next (arity k)), next := a.next + arity k,
                 evs := a.evs ++ [{ kind := .op k, guarded := false, t := a.t, rep := a.rep, args := toks,
                                    rets := freshToks a.next (arity k),
                                    pristine := toks.map (lookupPristine a.pristine) }],
                 pristine := [] }
      else a.fail
  | .log k guarded args =>
    match (bindArgs (logKws k) args).bind (resolve a.regs) with
    | none => a.fail
    | some toks =>
      if a.t.known then
        { a with evs := a.evs ++ [{ kind := .log k, guarded := guarded, t := a.t, rep := a.rep, args := toks,
                                    rets := [], pristine := toks.map (lookupPristine a.pristine) }],
                 pristine := [] }
      else a.fail
  | .aliasStart _ _ => a.fail
  | .shallowCopyStart _ _ => a.fail
  | .levelCopyStart _ _ _ => a.fail
  | .ngenDefault => a.fail
  | .initIfNeeded => a.fail
  | .callReset => a.fail
  | .callAdvance => a.fail

def symList (f : Stmt → AState → AState) (l : List Stmt) (a : AState) : AState :=
  l.foldl (fun a s => f s a) a

/-- statements of `advance` / `evolve` bodies: `self.reset()` is analysed by walking `reset` -/
def symR (sc : Schedule) (s : Stmt) (a : AState) : AState :=
  match s with
  | .callReset => if !a.ok then a else symList symS sc.reset a
  | s => symS s a

/-! ### the pattern the recorded dataflow must have -/

def entryToks : List Tok := [0, 1, 2, 3, 4]

/-- analysis state at the top of the body of `advance`'s loop: the five working containers hold
    unknown values (tokens 0…4), the clock is (entry value) + 0, no local is defined -/
def genEntry : AState :=
  { regs := assign (fun _ => none) five entryToks, t := .rel 0, rep := 0, next := 5, evs := [],
    pristine := [], ok := true }

/-- analysis state at the top of the body of `evolve`'s replicate loop: nothing is known -/
def repEntry : AState :=
  { regs := fun _ => none, t := .unknown, rep := 0, next := 0, evs := [], pristine := [], ok := true }

def sevOk (k : EvKind) (t : TVal) (rep : Nat) (e : SEv) : Bool :=
  e.kind == k && e.t == t && e.rep == rep && !e.guarded

/-- one generation, on tokens: mirrors `checkGen` with token equality -/
def symGenOK (entry : List Tok) (evs : List SEv) : Option (List Tok) :=
  match evs with
  | [e1, e2, e3, e4, e5, e6, e7, e8] =>
    if sevOk (.op .pselect) (.rel 0) 0 e1 && e1.args.take 5 == entry
      && sevOk (.log .pselect) (.rel 0) 0 e2 && e2.args.take 6 == e1.rets
      && sevOk (.op .mate) (.rel 0) 0 e3 && e3.args.take 6 == e1.rets
      && sevOk (.log .mate) (.rel 0) 0 e4 && e4.args.take 6 == e1.rets.take 1 ++ e3.rets
      && sevOk (.op .evaluate) (.rel 0) 0 e5 && e5.args.take 5 == e3.rets
      && sevOk (.log .evaluate) (.rel 0) 0 e6 && e6.args.take 5 == e5.rets
      && sevOk (.op .sselect) (.rel 0) 0 e7 && e7.args.take 5 == e5.rets
      && sevOk (.log .sselect) (.rel 0) 0 e8 && e8.args.take 5 == e7.rets
      && e1.rets.length == 6 && e3.rets.length == 5 && e5.rets.length == 5 && e7.rets.length == 5
    then some e7.rets else none
  | _ => none

/-- the body of `advance`'s loop: every operator exactly once, in order, each handed what its
    predecessor returned, a log entry after each, the clock read at its entry value and left one
    higher, the five working containers ending as what `sselect` returned -/
def wfGen (sc : Schedule) : Bool :=
  let a := symList (symR sc) sc.advanceGen genEntry
  a.ok && a.t == .rel 1 && a.rep == 0 &&
    (match resolve a.regs five, symGenOK entryToks a.evs with
     | some out, some out' => out == out'
     | _, _ => false)

/-- `evolve`'s replicate body must end (up to no-ops) with the call of `advance` -/
def splitAdvance (l : List Stmt) : Option (List Stmt) :=
  match (strip l).reverse with
  | .callAdvance :: rest => some rest.reverse
  | _ => none

def slots : List (Option Nat) := [some 0, some 1, some 2, some 3, some 4]

/-- the body of `evolve`'s loop before `advance`: the replicate counter incremented once before any
    call; one evaluation at clock 0 of five pristine deep copies of the five start containers (in
    slot order); its log entry under `if loginit:` handed what the evaluation returned; the five
    working containers ending as what the evaluation returned; the clock left at 1 -/
def wfRep (sc : Schedule) : Bool :=
  match splitAdvance sc.evolveRep with
  | none => false
  | some body =>
    let a := symList (symR sc) body repEntry
    a.ok && a.t == .abs 1 && a.rep == 1 &&
      (match resolve a.regs five, a.evs with
       | some out, [e0, e1] =>
         e0.kind == .op .evaluate && !e0.guarded && e0.t == .abs 0 && e0.rep == 1 && e0.pristine.take 5 == slots
           && e0.rets == out && e0.rets.length == 5
           && e1.kind == .log .initialize && e1.guarded && e1.t == .abs 0 && e1.rep == 1
           && e1.args.take 5 == e0.rets
       | _, _ => false)

def isNgenDefault : Stmt → Bool
  | .ngenDefault => true
  | _ => false

/-- before the replicate loop: initialise if needed, optionally (before or after it) the
    `ngen is None` default -/
def wfPre (sc : Schedule) : Bool :=
  strip sc.evolvePre == [.initIfNeeded] || strip sc.evolvePre == [.ngenDefault, .initIfNeeded]
    || strip sc.evolvePre == [.initIfNeeded, .ngenDefault]

/-- `ngen = None` (documented: "use t_max") is given its default before the replicate loop -/
def HandlesNone (sc : Schedule) : Bool := (strip sc.evolvePre).any isNgenDefault

def wfEmpty (sc : Schedule) : Bool :=
  strip sc.evolvePost == [] && strip sc.advancePre == [] && strip sc.advancePost == []

/-- **well-formed schedule**: the dataflow of the three methods is the one the property describes -/
def WellFormed (sc : Schedule) : Bool := wfPre sc && wfEmpty sc && wfGen sc && wfRep sc

/-- the generation count an `evolve` call of schedule `sc` works with: the argument, `None` being
    replaced by `t_max` when the schedule implements the documented default -/
def effNgen {V : Type} (sc : Schedule) (cfg : Cfg V) : Option Nat :=
  if HandlesNone sc then some (cfg.ngen.getD cfg.tmax) else cfg.ngen

/-- `reset()` on its own re-creates the five working containers as pristine deep copies of the
    five start containers and sets the clock to 0 (for the theorem about direct `reset()` calls) -/
def wfReset (sc : Schedule) : Bool :=
  let a := symList symS sc.reset repEntry
  a.ok && a.t == .abs 0 && a.rep == 0 && a.evs.isEmpty &&
    (match resolve a.regs five with
     | some toks => toks.map (lookupPristine a.pristine) == slots
     | none => false)

end Program
