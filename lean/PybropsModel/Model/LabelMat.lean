/-
Model/LabelMat.lean — executable model of pybrops' labelled dense matrices (property C03).
Core Lean only.

One generic structure serves every class.  The data array is a 3-level nested list
(`Mat3`); a 2-D numpy array of shape (n, p) is embedded as (n, p, 1) (trailing singleton), so
that numpy axis numbers 0/1/2 are the nesting depths.  A *schema* says which data axes carry the
taxa / variant / trait label bundle (one bundle may govern two axes: square matrices), and the
class quirks as flags.  A bundle = parallel optional label columns + optional cached group
metadata `(name, stix, spix, len)`.

Transcribed sources (file:line of /repo):
  core/mat/DenseTaxaMatrix.py        adjoin_taxa 302, delete_taxa 410, insert_taxa 507, select_taxa 611,
                                     concat_taxa 694, append_taxa 819, remove_taxa 900, incorp_taxa 975,
                                     lexsort_taxa 1071, reorder_taxa 1144, sort_taxa 1200, group_taxa 1254
  core/mat/DenseVariantMatrix.py     the same for *_vrnt (keys: vrnt_phypos, vrnt_chrgrp)
  core/mat/DenseTraitMatrix.py       the same for *_trait (keys: trait; not groupable)
  core/mat/DenseTaxaVariantMatrix.py generic dispatch + "the other axis' labels and group metadata are
                                     copied to the new object"
  core/mat/DenseSquareTaxaMatrix.py  loops over square_taxa_axes (select/delete/remove/reorder),
                                     block-diagonal adjoin/append, insert/incorp/concat along taxa_axis only
  numpy.insert                       scalar position => `moveaxis(values, 0, axis)` + broadcasting (D17)
  breed/prot/gt/DenseMasked{Phased,Unphased}Genotyping.py, DenseUnphasedGenotyping.py   `genotype`

Class quirks kept as they are in the source (each has a `…_counterexample` in Props/C03.lean):
  D14 square insert/incorp/concat edit one axis only
Repaired in /repo (the old behaviour is kept only for the `…_prerepair_counterexample`s):
  D3  3438b72e `reorderKPre`          D4  ec46686b `stepGenericPre` / `dispatchSelfCall`
  D17 74ad0b65 `scalarInsertRaw`      D19/D28 0d32ae5d `genotypePre`
  D27 `pureDropsOther` (`newObj`)     D17b `insertZeroDimKPrerepair` (Model/LabelMatX.lean)
-/
import PybropsModel.Np

namespace LabelMat

/-! ### errors -/

inductive Err where
  | shape | type | value | index | unsupported
  deriving DecidableEq, Repr

abbrev R := Except Err

def Err.tag : Err → String
  | .shape => "shape" | .type => "type" | .value => "value" | .index => "index"
  | .unsupported => "unsupported"

/-! ### 3-level arrays -/

abbrev Mat3 (α : Type) := List (List (List α))

/-- a list operation that does not look at the elements (numpy.take / delete / insert … along an axis) -/
abbrev ListOp := (β : Type) → List β → List β
abbrev ListOp2 := (β : Type) → List β → List β → List β

/-- apply a list operation along axis 0 / 1 / 2 -/
def axMap {α : Type} (a : Nat) (f : ListOp) (m : Mat3 α) : Mat3 α :=
  match a with
  | 0 => f _ m
  | 1 => m.map (f _)
  | _ => m.map (fun pl => pl.map (f _))

/-- apply a binary list operation (self-slices, operand-slices) along axis 0 / 1 / 2 -/
def axZip {α : Type} (a : Nat) (g : ListOp2) (m v : Mat3 α) : Mat3 α :=
  match a with
  | 0 => g _ m v
  | 1 => List.zipWith (g _) m v
  | _ => List.zipWith (List.zipWith (g _)) m v

def axLen {α : Type} (a : Nat) (m : Mat3 α) : Nat :=
  match a with
  | 0 => m.length
  | 1 => (m.head?.map List.length).getD 0
  | _ => ((m.head?.bind List.head?).map List.length).getD 0

def shape3 {α : Type} (m : Mat3 α) : Nat × Nat × Nat := (axLen 0 m, axLen 1 m, axLen 2 m)

/-- every plane has `d1` rows and every row `d2` cells -/
def rect {α : Type} (m : Mat3 α) : Bool :=
  m.all (fun pl => pl.length == axLen 1 m && pl.all (fun r => r.length == axLen 2 m))

def cell {α : Type} (m : Mat3 α) (i j k : Nat) : Option α :=
  (m[i]?).bind (fun pl => (pl[j]?).bind (fun r => r[k]?))

/-- numpy.moveaxis(v, 0, a) on a 3-level array (a = 0: identity; a = 1: swap the two leading axes;
    a = 2: shape (d0,d1,d2) ↦ (d1,d2,d0)) -/
def moveaxis0 {α : Type} (a : Nat) (v : Mat3 α) : Mat3 α :=
  match a with
  | 0 => v
  | 1 => (List.range (axLen 1 v)).map (fun j => v.filterMap (fun pl => pl[j]?))
  | _ => (List.range (axLen 1 v)).map (fun j => (List.range (axLen 2 v)).map (fun k =>
           v.filterMap (fun pl => (pl[j]?).bind (fun r => r[k]?))))

/-- numpy broadcasting of one axis: keep a list of the wanted length, replicate a singleton -/
def bcast {β : Type} (n : Nat) (l : List β) : Option (List β) :=
  if l.length == n then some l
  else match l with
    | [x] => some (List.replicate n x)
    | _ => none

/-- broadcast `v` to shape `(d0, d1, d2)` -/
def broadcast3 {α : Type} (d0 d1 d2 : Nat) (v : Mat3 α) : Option (Mat3 α) := do
  let v1 ← v.mapM (fun pl => do
    let pl1 ← pl.mapM (bcast d2)
    bcast d1 pl1)
  bcast d0 v1

/-! ### index arguments, normalised as numpy does -/

/-- negative indices wrap once; anything else out of range is an IndexError -/
def normIdx (n : Nat) (i : Int) : R Nat :=
  if 0 ≤ i then (if i.toNat < n then pure i.toNat else throw .index)
  else (if (-i).toNat ≤ n then pure (n - (-i).toNat) else throw .index)

def normIdxs (n : Nat) (is : List Int) : R (List Nat) := is.mapM (normIdx n)

/-- `range(start, stop, step)` for the already clamped values of Python's `slice.indices` -/
def rangeStep (start stop step : Int) (fuel : Nat) : List Nat :=
  match fuel with
  | 0 => []
  | fuel + 1 =>
    if (0 < step ∧ start < stop) ∨ (step < 0 ∧ stop < start) then
      start.toNat :: rangeStep (start + step) stop step fuel
    else []

/-- Python `slice(start, stop, step).indices(n)` followed by `range` -/
def sliceIdx (n : Nat) (start stop step : Option Int) : R (List Nat) :=
  let st := step.getD 1
  if st == 0 then throw .value else
  let N : Int := n
  let clampPos (x : Int) : Int := if x < 0 then (if x + N < 0 then 0 else x + N) else (if x > N then N else x)
  let clampNeg (x : Int) : Int := if x < 0 then (if x + N < 0 then -1 else x + N) else (if x ≥ N then N - 1 else x)
  if 0 < st then
    let a := match start with | none => 0 | some x => clampPos x
    let b := match stop with | none => N | some x => clampPos x
    pure (rangeStep a b st n)
  else
    let a := match start with | none => N - 1 | some x => clampNeg x
    let b := match stop with | none => -1 | some x => clampNeg x
    pure (rangeStep a b st n)

/-- the `obj` argument of numpy.delete -/
inductive DelIdx where
  | int (i : Int)
  | list (is : List Int)
  | slice (start stop step : Option Int)
  | mask (m : List Bool)

def DelIdx.norm (n : Nat) : DelIdx → R (List Nat)
  | .int i => do pure [← normIdx n i]
  | .list is => normIdxs n is
  | .slice a b c => sliceIdx n a b c
  | .mask m => if m.length == n then pure (Np.flatnonzero m) else throw .value

/-- the `obj` argument of numpy.insert (boolean masks and unsorted lists are not modelled) -/
inductive InsIdx where
  | int (i : Int)            -- scalar position: the `moveaxis` rule applies
  | list (is : List Int)     -- one-element list: block insert; longer: one value before each index
  | slice (start stop step : Option Int)

/-- numpy.insert accepts position `n` (append) -/
def normIns (n : Nat) (i : Int) : R Nat :=
  if 0 ≤ i then (if i.toNat ≤ n then pure i.toNat else throw .index)
  else (if (-i).toNat ≤ n then pure (n - (-i).toNat) else throw .index)

/-- numpy.insert with several *sorted* positions: value `j` goes before original position `ks[j]` -/
def insertManyAux {β : Type} : Nat → List (Nat × β) → List β → List β
  | _, kvs, [] => kvs.map (·.2)
  | pos, kvs, x :: xs =>
    let now := kvs.takeWhile (fun kv => kv.1 ≤ pos)
    let later := kvs.dropWhile (fun kv => kv.1 ≤ pos)
    now.map (·.2) ++ x :: insertManyAux (pos + 1) later xs

def insertMany {β : Type} (ks : List Nat) (vs l : List β) : List β := insertManyAux 0 (List.zip ks vs) l

def isSorted : List Nat → Bool
  | a :: b :: l => a ≤ b && isSorted (b :: l)
  | _ => true

/-! ### labels -/

structure Grp (lab : Type) where
  name : List lab
  stix : List Nat
  spix : List Nat
  len  : List Nat
  deriving DecidableEq, Repr

structure Bundle (lab : Type) where
  cols : List (Option (List lab))
  grp  : Option (Grp lab)
  deriving DecidableEq, Repr

inductive Kind where
  | taxa | vrnt | trait
  deriving DecidableEq, Repr

structure St (α lab : Type) where
  mat   : Mat3 α
  taxa  : Bundle lab
  vrnt  : Bundle lab
  trait : Bundle lab
  deriving DecidableEq, Repr

/-- an operand of adjoin / insert / append / incorp: data block + label columns of the edited bundle -/
structure Operand (α lab : Type) where
  mat  : Mat3 α
  cols : List (Option (List lab))
  deriving DecidableEq, Repr

structure Schema where
  ndim    : Nat                 -- numpy ndim of the class (2 or 3)
  taxaAx  : List Nat
  vrntAx  : List Nat
  traitAx : List Nat
  /-- (pre-repair, before ec46686b) base classes whose generic `reorder` / `incorp` called themselves (D4);
      only consulted by `stepGenericPre` -/
  genericSelfCall : Bool := false
  /-- (pre-repair, before 74ad0b65) an integer insert position reaches numpy.insert as a scalar (D17).
      Since the fix the single-axis `insert_<k>` / `incorp_<k>` wrap it into a one-element list; the
      methods of the square taxa bundle were not touched and still pass it on (harmless: leading axis) -/
  scalarInsertRaw : Bool := false
  /-- the `mat` setter demands a square array (DenseCoancestryMatrix: `check_all_equal`) -/
  squareCheck : Bool := false
  /-- (pre-repair, before the fix of D27) DenseSquareTaxaTraitMatrix inherited the axis-specific non-mutating
      methods of its single-bundle parents: the object they built carried only the edited bundle's labels.
      Only consulted by the `…_prerepair_counterexample`s -/
  pureDropsOther : Bool := false
  deriving DecidableEq, Repr

def Schema.axes (sch : Schema) : Kind → List Nat
  | .taxa => sch.taxaAx | .vrnt => sch.vrntAx | .trait => sch.traitAx

/-- column layout: taxa = [taxa, taxa_grp]; vrnt = [chrgrp, phypos, name, genpos, xoprob, hapgrp,
    hapalt, hapref, mask]; trait = [trait].  Default lexsort keys in numpy order (last = primary). -/
def Kind.sortKeys : Kind → List Nat
  | .taxa => [0, 1] | .vrnt => [1, 0] | .trait => [0]

/-- the column that is grouped on (`none`: the axis is not groupable) -/
def Kind.grpCol : Kind → Option Nat
  | .taxa => some 1 | .vrnt => some 0 | .trait => none

variable {α lab : Type}

def St.bundle (s : St α lab) : Kind → Bundle lab
  | .taxa => s.taxa | .vrnt => s.vrnt | .trait => s.trait

def St.setBundle (s : St α lab) (k : Kind) (b : Bundle lab) : St α lab :=
  match k with
  | .taxa => { s with taxa := b } | .vrnt => { s with vrnt := b } | .trait => { s with trait := b }

def Bundle.mapCols (f : ListOp) (b : Bundle lab) : Bundle lab :=
  { b with cols := b.cols.map (Option.map (f lab)) }

def Bundle.ungrouped (b : Bundle lab) : Bundle lab := { b with grp := none }

def Bundle.isGrouped (b : Bundle lab) : Bool := b.grp.isSome

/-- length of the edited axis (first axis of the bundle) -/
def St.len (sch : Schema) (k : Kind) (s : St α lab) : Nat :=
  match sch.axes k with
  | a :: _ => axLen a s.mat
  | [] => 0

/-- what the constructors check: every present label column has the length of its axis, and (for
    DenseCoancestryMatrix) the array is square -/
def St.ctorOK (sch : Schema) (s : St α lab) : Bool :=
  let okK (k : Kind) : Bool :=
    (sch.axes k).isEmpty ||
    (s.bundle k).cols.all (fun c => match c with | none => true | some l => l.length == s.len sch k)
  let sq : Bool := !sch.squareCheck ||
    (match sch.taxaAx with
     | a :: rest => rest.all (fun b => axLen b s.mat == axLen a s.mat)
     | [] => true)
  sq && okK .taxa && okK .vrnt && okK .trait

def St.checkCtor (sch : Schema) (s : St α lab) : R (St α lab) :=
  if s.ctorOK sch then pure s else throw .value

/-! ### unary structural edits -/

/-- apply one list operation to the data along every axis of bundle `k` and to every label column -/
def applyK (sch : Schema) (k : Kind) (f : ListOp) (s : St α lab) : St α lab :=
  let m := (sch.axes k).foldl (fun m a => axMap a f m) s.mat
  { (s.setBundle k ((s.bundle k).mapCols f)) with mat := m }

/-- a new object: the group metadata of the edited bundle is not carried over -/
def freshK (k : Kind) (s : St α lab) : St α lab := s.setBundle k (s.bundle k).ungrouped

/-- the object built by a non-mutating method: group metadata of the edited bundle are not carried
    over; with `pureDropsOther` the other bundles' labels are not passed to the constructor at all -/
def newObj (sch : Schema) (k : Kind) (s : St α lab) : St α lab :=
  let s1 := freshK k s
  if !sch.pureDropsOther then s1 else
  [Kind.taxa, Kind.vrnt, Kind.trait].foldl (fun t kk =>
    if kk == k then t else t.setBundle kk { cols := (t.bundle kk).cols.map (fun _ => none), grp := none }) s1

/-- `select_<k>(indices)`: numpy.take on mat and on every label column (pure) -/
def selectK (sch : Schema) (k : Kind) (is : List Int) (s : St α lab) : R (St α lab) := do
  if (sch.axes k).isEmpty then throw .unsupported
  let ix ← normIdxs (s.len sch k) is
  (newObj sch k (applyK sch k (fun _ => Np.take ix) s)).checkCtor sch

/-- `delete_<k>(obj)`: numpy.delete on mat and on every label column (pure) -/
def deleteK (sch : Schema) (k : Kind) (obj : DelIdx) (s : St α lab) : R (St α lab) := do
  if (sch.axes k).isEmpty then throw .unsupported
  let ix ← obj.norm (s.len sch k)
  (newObj sch k (applyK sch k (fun _ => Np.delete ix) s)).checkCtor sch

/-- `remove_<k>(obj)`: the same edit in place; group metadata reset (mutating) -/
def removeK (sch : Schema) (k : Kind) (obj : DelIdx) (s : St α lab) : R (St α lab) := do
  if (sch.axes k).isEmpty then throw .unsupported
  let ix ← obj.norm (s.len sch k)
  pure (freshK k (applyK sch k (fun _ => Np.delete ix) s))

/-- `reorder_<k>(indices)` as it was before fix 3438b72e: fancy indexing of mat and label columns, the
    cached group metadata *kept* (defect D3; only used by the `…_prerepair_counterexample`) -/
def reorderKPre (sch : Schema) (k : Kind) (is : List Int) (s : St α lab) : R (St α lab) := do
  if (sch.axes k).isEmpty then throw .unsupported
  let ix ← normIdxs (s.len sch k) is
  pure (applyK sch k (fun _ => Np.take ix) s)

/-- `reorder_<k>(indices)`: fancy indexing of mat and label columns; the cached group metadata are
    dropped (the layout changed) -/
def reorderK (sch : Schema) (k : Kind) (is : List Int) (s : St α lab) : R (St α lab) := do
  pure (freshK k (← reorderKPre sch k is s))

/-! ### sorting and grouping -/

/-- lexicographic `≤` on key tuples (primary key first) -/
def lexLe (le : lab → lab → Bool) : List lab → List lab → Bool
  | a :: as, b :: bs => if le a b then (if le b a then lexLe le as bs else true) else false
  | _, _ => true

/-- numpy.lexsort(keys): stable, last key primary.  `keys` all have length `n`. -/
def lexsortIdx (le : lab → lab → Bool) (keys : List (List lab)) (n : Nat) : List Nat :=
  let tup (i : Nat) : List lab := keys.reverse.filterMap (fun col => col[i]?)
  ((Np.stableSort (fun p q => lexLe le p.1 q.1) ((List.range n).map (fun i => (tup i, i)))).map Prod.snd)

/-- `lexsort_<k>(keys)`: default keys are the bundle's own columns; absent keys are skipped -/
def lexsortK (le : lab → lab → Bool) (sch : Schema) (k : Kind) (keys : Option (List (Option (List lab))))
    (s : St α lab) : R (List Nat) := do
  if (sch.axes k).isEmpty then throw .unsupported
  let cand : List (Option (List lab)) := match keys with
    | some ks => ks
    | none => k.sortKeys.map (fun c => ((s.bundle k).cols[c]?).join)
  let ks := cand.filterMap id
  if ks.isEmpty then throw .value
  let n := s.len sch k
  if ks.any (fun c => c.length != n) then throw .value
  pure (lexsortIdx le ks n)

/-- `sort_<k>(keys)`: reset the group metadata, lexsort, reorder -/
def sortK (le : lab → lab → Bool) (sch : Schema) (k : Kind) (keys : Option (List (Option (List lab))))
    (s : St α lab) : R (St α lab) := do
  let s1 := freshK k s
  let ix ← lexsortK le sch k keys s1
  pure (applyK sch k (fun _ => Np.take ix) s1)

/-- run-length encoding of a list: (value, count) -/
def runs [BEq lab] : List lab → List (lab × Nat)
  | [] => []
  | a :: l =>
    match runs l with
    | (b, n) :: r => if a == b then (b, n + 1) :: r else (a, 1) :: (b, n) :: r
    | [] => [(a, 1)]

/-- start indices of consecutive runs -/
def startsFrom : Nat → List Nat → List Nat
  | _, [] => []
  | s, n :: ns => s :: startsFrom (s + n) ns

/-- numpy.unique(return_index, return_counts) of an ascending array + `spix = stix + len` -/
def grpOfSorted [BEq lab] (col : List lab) : Grp lab :=
  let rs := runs col
  let lens := rs.map Prod.snd
  let st := startsFrom 0 lens
  { name := rs.map Prod.fst, stix := st, spix := List.zipWith (· + ·) st lens, len := lens }

/-- `group_<k>()`: sort with the default keys, then (if the group column is present) cache the runs -/
def groupK [BEq lab] (le : lab → lab → Bool) (sch : Schema) (k : Kind) (s : St α lab) : R (St α lab) := do
  match k.grpCol with
  | none => throw .unsupported
  | some c =>
    let s1 ← sortK le sch k none s
    match ((s1.bundle k).cols[c]?).join with
    | none => pure s1
    | some col => pure (s1.setBundle k { (s1.bundle k) with grp := some (grpOfSorted col) })

def ungroupK (sch : Schema) (k : Kind) (s : St α lab) : R (St α lab) :=
  match k.grpCol with
  | none => throw .unsupported
  | some _ => if (sch.axes k).isEmpty then throw .unsupported else pure (freshK k s)

def isGroupedK (sch : Schema) (k : Kind) (s : St α lab) : R Bool :=
  match k.grpCol with
  | none => throw .unsupported
  | some _ => if (sch.axes k).isEmpty then throw .unsupported else pure (s.bundle k).isGrouped

/-! ### edits with an operand -/

/-- parallel label columns of self and operand.  Only equal presence patterns are modelled exactly:
    a column present in self and absent in the operand is the source's `TypeError` ("argument is
    required"; the two object-dtype columns that the source pads with `None` are not modelled), a
    column absent in self and present in the operand reaches the constructor with the wrong length. -/
def zipCols (g : List lab → List lab → List lab) :
    List (Option (List lab)) → List (Option (List lab)) → R (List (Option (List lab)))
  | [], _ => pure []
  | c :: cs, [] => do
    let rest ← zipCols g cs []
    match c with
    | none => pure (none :: rest)
    | some _ => throw .type
  | c :: cs, d :: ds => do
    let rest ← zipCols g cs ds
    match c, d with
    | none, none => pure (none :: rest)
    | some l, some lv => pure (some (g l lv) :: rest)
    | some _, none => throw .type
    | none, some _ => throw .value

/-- the shape test of adjoin/insert/append/incorp: equal lengths on every axis that is not edited -/
def compatShape (sch : Schema) (k : Kind) (m v : Mat3 α) : Bool :=
  [0, 1, 2].all (fun a => (sch.axes k).contains a || axLen a v == axLen a m)

/-- block-diagonal placement used by the square classes: self in the leading block, the operand
    in the trailing block, `fill` elsewhere -/
def blockDiag (fill : α) (axes : List Nat) (m v : Mat3 α) : Mat3 α :=
  let d (a : Nat) : Nat := if axes.contains a then axLen a m + axLen a v else axLen a m
  let pick (a i : Nat) : Option (Bool × Nat) :=   -- (from self?, index there); none: axis not square
    if axes.contains a then (if i < axLen a m then some (true, i) else some (false, i - axLen a m)) else none
  (List.range (d 0)).map fun i => (List.range (d 1)).map fun j => (List.range (d 2)).map fun l =>
    let ps := [pick 0 i, pick 1 j, pick 2 l].filterMap id
    let src (p : Option (Bool × Nat)) (x : Nat) : Nat := match p with | some (_, y) => y | none => x
    if ps.all (fun p => p.1) then (cell m (src (pick 0 i) i) (src (pick 1 j) j) (src (pick 2 l) l)).getD fill
    else if ps.all (fun p => !p.1) then (cell v (src (pick 0 i) i) (src (pick 1 j) j) (src (pick 2 l) l)).getD fill
    else fill

/-- data part of adjoin/append along bundle `k` -/
def adjoinMat (sch : Schema) (k : Kind) (fill : α) (m v : Mat3 α) : Mat3 α :=
  match sch.axes k with
  | [a] => axZip a (fun _ l lv => l ++ lv) m v
  | axes => blockDiag fill axes m v

def adjoinCore (sch : Schema) (k : Kind) (fill : α) (v : Operand α lab) (s : St α lab) : R (St α lab) := do
  if (sch.axes k).isEmpty then throw .unsupported
  if !compatShape sch k s.mat v.mat then throw .value
  let cols ← zipCols (fun l lv => l ++ lv) (s.bundle k).cols v.cols
  pure { (s.setBundle k { cols := cols, grp := none }) with mat := adjoinMat sch k fill s.mat v.mat }

/-- `adjoin_<k>(values, labels…)` (pure) -/
def adjoinK (sch : Schema) (k : Kind) (fill : α) (v : Operand α lab) (s : St α lab) : R (St α lab) := do
  (newObj sch k (← adjoinCore sch k fill v s)).checkCtor sch

/-- `append_<k>(values, labels…)` (mutating; group metadata reset) -/
def appendK (sch : Schema) (k : Kind) (fill : α) (v : Operand α lab) (s : St α lab) : R (St α lab) :=
  adjoinCore sch k fill v s

/-- what numpy.insert does with a position argument, once the lengths are known -/
inductive InsPlan where
  | scalar (p : Nat)          -- integer position: `moveaxis` rule on the data, block insert on 1-D labels
  | block (p : Nat)           -- one position: the whole operand goes before `p`
  | many (ps : List Nat)      -- one value before each of the sorted positions
  | manyRep (ps : List Nat)   -- a single value broadcast to each of the positions

/-- several sorted positions: one value each, or one value broadcast to all -/
def insSeveral (q : Nat) (ps : List Nat) : R InsPlan :=
  if !isSorted ps then throw .unsupported
  else if q == ps.length then pure (.many ps)
  else if q == 1 then pure (.manyRep ps)
  else throw .value

def insOfPositions (q : Nat) (ps : List Nat) : R InsPlan :=
  match ps with
  | [p] => pure (.block p)
  | _ => insSeveral q ps

/-- `n` = current length of the axis, `q` = number of slices in the operand -/
def insPlan (n q : Nat) : InsIdx → R InsPlan
  | .int i => do pure (.scalar (← normIns n i))
  | .list is => do insOfPositions q (← is.mapM (normIns n))
  | .slice st sp se => do insOfPositions q (← sliceIdx n st sp se)

/-- the list operation of a plan (for a scalar position: on a 1-D array, i.e. on label columns) -/
def InsPlan.op : InsPlan → ListOp2
  | .scalar p => fun _ l lv => Np.insert p lv l
  | .block p => fun _ l lv => Np.insert p lv l
  | .many ps => fun _ l lv => insertMany ps lv l
  | .manyRep ps => fun _ l lv => insertMany ps (lv.flatMap (List.replicate ps.length)) l

/-- numpy.insert(arr, obj, values, axis = a) on the data.  Square classes insert along the first
    taxa axis only (as the source does). -/
def insertMat (a : Nat) (obj : InsIdx) (m v : Mat3 α) : R (Mat3 α) := do
  let plan ← insPlan (axLen a m) (axLen a v) obj
  match plan with
  | .scalar p =>
    -- scalar position: values = moveaxis(values, 0, a); numnew = values.shape[a]; broadcast
    let v' := moveaxis0 a v
    let numnew := axLen a v'
    let d (b : Nat) : Nat := if b == a then numnew else axLen b m
    match broadcast3 (d 0) (d 1) (d 2) v' with
    | none => throw .value
    | some blk => pure (axZip a (fun _ l lv => Np.insert p lv l) m blk)
  | plan => pure (axZip a plan.op m v)

/-- numpy.insert on a 1-D label column -/
def insertCol (obj : InsIdx) (l lv : List lab) : R (List lab) := do
  let plan ← insPlan l.length lv.length obj
  pure (plan.op lab l lv)

def zipColsM (g : List lab → List lab → R (List lab)) :
    List (Option (List lab)) → List (Option (List lab)) → R (List (Option (List lab)))
  | [], _ => pure []
  | c :: cs, [] => do
    let rest ← zipColsM g cs []
    match c with
    | none => pure (none :: rest)
    | some _ => throw .type
  | c :: cs, d :: ds => do
    let rest ← zipColsM g cs ds
    match c, d with
    | none, none => pure (none :: rest)
    | some l, some lv => pure (some (← g l lv) :: rest)
    | some _, none => throw .type
    | none, some _ => throw .value

def insertCoreRaw (sch : Schema) (k : Kind) (obj : InsIdx) (v : Operand α lab) (s : St α lab) : R (St α lab) := do
  match sch.axes k with
  | [] => throw .unsupported
  | a :: _ =>
    if !compatShape sch k s.mat v.mat then throw .value
    let m ← insertMat a obj s.mat v.mat
    let cols ← zipColsM (insertCol obj) (s.bundle k).cols v.cols
    pure { (s.setBundle k { cols := cols, grp := none }) with mat := m }

/-- `if isinstance(obj, (int, numpy.integer)): obj = [obj]` (fix 74ad0b65) -/
def wrapIns (sch : Schema) (k : Kind) : InsIdx → InsIdx
  | .int i => if sch.scalarInsertRaw || decide ((sch.axes k).length > 1) then .int i else .list [i]
  | o => o

def insertCore (sch : Schema) (k : Kind) (obj : InsIdx) (v : Operand α lab) (s : St α lab) : R (St α lab) :=
  insertCoreRaw sch k (wrapIns sch k obj) v s

/-- `insert_<k>(obj, values, labels…)` (pure: the new object's constructor checks label lengths) -/
def insertK (sch : Schema) (k : Kind) (obj : InsIdx) (v : Operand α lab) (s : St α lab) : R (St α lab) := do
  (newObj sch k (← insertCore sch k obj v s)).checkCtor sch

/-- `incorp_<k>(obj, values, labels…)` (mutating: assigns the private fields, no check) -/
def incorpK (sch : Schema) (k : Kind) (obj : InsIdx) (v : Operand α lab) (s : St α lab) : R (St α lab) :=
  insertCore sch k obj v s

/-- `concat_<k>(mats)`: data and the edited bundle's columns concatenated, everything else from
    `mats[0]`.  Square classes concatenate along the first taxa axis only. -/
def concatK (sch : Schema) (k : Kind) (mats : List (St α lab)) : R (St α lab) := do
  match sch.axes k, mats with
  | [], _ => throw .unsupported
  | _, [] => throw .value
  | a :: _, s0 :: rest =>
    -- shapes must agree on every axis except the (first) edited one
    if rest.any (fun s => [0, 1, 2].any (fun b => b != a && axLen b s.mat != axLen b s0.mat)) then throw .value
    let m := rest.foldl (fun m s => axZip a (fun _ l lv => l ++ lv) m s.mat) s0.mat
    let cols ← rest.foldlM (fun cols s => zipCols (fun l lv => l ++ lv) cols (s.bundle k).cols) (s0.bundle k).cols
    (newObj sch k { (s0.setBundle k { cols := cols, grp := none }) with mat := m }).checkCtor sch

/-! ### axis-generic forms -/

/-- `get_axis(axis, ndim)` -/
def getAxis (axis : Int) (ndim : Nat) : R Nat :=
  if axis ≥ (ndim : Int) ∨ axis < -(ndim : Int) then throw .index
  else pure (axis % (ndim : Int)).toNat

/-- which bundle governs a data axis -/
def Schema.kindOf (sch : Schema) (a : Nat) : Option Kind :=
  if sch.taxaAx.contains a then some .taxa
  else if sch.vrntAx.contains a then some .vrnt
  else if sch.traitAx.contains a then some .trait
  else none

/-- generic dispatch: `op(…, axis)` calls `op_<k>(…)` for the bundle that owns the axis and raises
    ValueError for any other axis -/
def dispatch {β : Type} (sch : Schema) (axis : Int) (f : Kind → R β) : R β := do
  let a ← getAxis axis sch.ndim
  match sch.kindOf a with
  | some k => f k
  | none => throw .value

/-- the generic `reorder` / `incorp` of the four base classes call *themselves* without the axis
    argument (D4): with the default `axis = -1` the second call either loops for ever (1-D data:
    RecursionError) or raises ValueError because the last axis is not the labelled one -/
def dispatchSelfCall {β : Type} (sch : Schema) (axis : Int) (f : Kind → R β) : R β := do
  if !sch.genericSelfCall then dispatch sch axis f else
  let a ← getAxis axis sch.ndim
  match sch.kindOf a with
  | none => throw .value
  | some _ =>
    match sch.kindOf (sch.ndim - 1) with
    | some _ => throw .unsupported   -- unbounded recursion
    | none => throw .value

/-! ### genotyping protocols (breed/prot/gt) -/

/-- `mat_asformat("{0,1,2}")`: sum over the phase axis; shape (d0,d1,d2) ↦ (d1,d2,1) -/
def sumPhases [Add α] (zero : α) (m : Mat3 α) : Mat3 α :=
  (List.range (axLen 1 m)).map fun j => (List.range (axLen 2 m)).map fun k =>
    [(m.filterMap (fun pl => (pl[j]?).bind (fun r => r[k]?))).foldl (· + ·) zero]

/-- position of the `vrnt_mask` column in the variant bundle -/
def maskCol : Nat := 8

/-- group metadata after masking (DenseMaskedPhasedGenotyping.genotype l.162-179): names kept, the
    length of every group recounted from the kept indices, `spix = cumsum(len)`, `stix` = shifted `spix` -/
def regroupMasked (g : Grp lab) (mask : List Bool) : Grp lab :=
  let nz := Np.flatnonzero mask
  let lens := (List.zip g.stix g.spix).map (fun p => (nz.filter (fun x => p.1 ≤ x && x < p.2)).length)
  let sp := Np.cumsum lens
  { name := g.name, stix := (0 :: sp).take sp.length, spix := sp, len := lens }

/-- `DenseMaskedPhasedGenotyping.genotype` (and, with `unphase`, `DenseMaskedUnphasedGenotyping.genotype`)
    on a phase × taxa × variant matrix: keep the variants whose mask entry (negated when `invert`) is set, on
    the data and on every variant label array; taxa metadata copied, variant metadata rebuilt.  With
    `masked = false` this is `DenseUnphasedGenotyping.genotype` (everything copied). -/
def genotype [Add α] (zero : α) (isTrue : lab → Bool) (masked invert unphase : Bool) (s : St α lab) :
    St α lab :=
  let mcol : Option (List lab) := if masked then ((s.vrnt.cols[maskCol]?).join) else none
  let s1 : St α lab :=
    match mcol with
    | none => s          -- nothing was masked: data, labels and group metadata are copied
    | some col =>
      let mask := col.map (fun x => if invert then !isTrue x else isTrue x)
      { s with
        mat := axMap 2 (fun _ => Np.compress mask) s.mat
        vrnt := { cols := s.vrnt.cols.map (Option.map (Np.compress mask)),
                  grp := s.vrnt.grp.map (fun g => regroupMasked g mask) } }
  if unphase then { s1 with mat := sumPhases zero s1.mat } else s1

/-- the masked protocols before fix 0d32ae5d: the metadata rebuild also ran when there was no mask
    (`flatnonzero(None)` is empty), so a grouped matrix came back with every group length 0 (D19 / D28) -/
def genotypePre [Add α] (zero : α) (isTrue : lab → Bool) (masked invert unphase : Bool) (s : St α lab) :
    St α lab :=
  if masked && ((s.vrnt.cols[maskCol]?).join).isNone then
    let s1 : St α lab := { s with vrnt := { s.vrnt with grp := s.vrnt.grp.map (fun g => regroupMasked g []) } }
    if unphase then { s1 with mat := sumPhases zero s1.mat } else s1
  else genotype zero isTrue masked invert unphase s

/-! ### `None` padding of absent name arrays -/

/-- the object-dtype label arrays that adjoin / insert / append / incorp / concat fill with `None` when the
    receiver has them and the call supplies none: `taxa` (taxa column 0) and `vrnt_name` (variant column 2) -/
def Kind.padCols : Kind → List Nat
  | .taxa => [0] | .vrnt => [2] | .trait => []

/-- `numpy.empty(values.shape[<k>_axis], dtype = "object")` for every such column -/
def padCols (noneLab : lab) (k : Kind) (q : Nat) (own given : List (Option (List lab))) : List (Option (List lab)) :=
  given.zipIdx.map (fun di =>
    match di.1, (own[di.2]?).join with
    | none, some _ => if k.padCols.contains di.2 then some (List.replicate q noneLab) else none
    | d, _ => d)

def padOperand (noneLab : lab) (sch : Schema) (k : Kind) (s : St α lab) (v : Operand α lab) : Operand α lab :=
  let q := match sch.axes k with | a :: _ => axLen a v.mat | [] => 0
  { v with cols := padCols noneLab k q (s.bundle k).cols v.cols }

/-! ### operation histories -/

/-- the operand block seen as a matrix of the receiver's class: its own labels on the edited bundle,
    the receiver's labels on every other axis (operands are aligned by position on the unedited axes) -/
def operandState (s : St α lab) (k : Kind) (v : Operand α lab) : St α lab :=
  { (s.setBundle k { cols := v.cols, grp := none }) with mat := v.mat }

/-- one public structural operation in its axis-specific form -/
inductive Op (α lab : Type) where
  | select (k : Kind) (is : List Int)
  | delete (k : Kind) (obj : DelIdx)
  | remove (k : Kind) (obj : DelIdx)
  | reorder (k : Kind) (is : List Int)
  | sort (k : Kind) (keys : Option (List (Option (List lab))))
  | group (k : Kind)
  | ungroup (k : Kind)
  | adjoin (k : Kind) (v : Operand α lab)
  | append (k : Kind) (v : Operand α lab)
  | insert (k : Kind) (obj : InsIdx) (v : Operand α lab)
  | incorp (k : Kind) (obj : InsIdx) (v : Operand α lab)
  | concat (k : Kind) (vs : List (Operand α lab))

def Op.kind : Op α lab → Kind
  | .select k _ | .delete k _ | .remove k _ | .reorder k _ | .sort k _ | .group k | .ungroup k
  | .adjoin k _ | .append k _ | .insert k _ _ | .incorp k _ _ | .concat k _ => k

def Op.withKind (k : Kind) : Op α lab → Op α lab
  | .select _ a => .select k a | .delete _ a => .delete k a | .remove _ a => .remove k a
  | .reorder _ a => .reorder k a | .sort _ a => .sort k a | .group _ => .group k | .ungroup _ => .ungroup k
  | .adjoin _ v => .adjoin k v | .append _ v => .append k v | .insert _ o v => .insert k o v
  | .incorp _ o v => .incorp k o v | .concat _ vs => .concat k vs

/-- the operands an operation brings in -/
def Op.operands : Op α lab → List (Operand α lab)
  | .adjoin _ v | .append _ v | .insert _ _ v | .incorp _ _ v => [v]
  | .concat _ vs => vs
  | _ => []

/-- the two methods whose generic form is broken in the base classes -/
def Op.selfCalls : Op α lab → Bool
  | .reorder _ _ | .incorp _ _ _ => true
  | _ => false

/-- axis-specific form.  `fixedReorder = true` is the source as it is now; `false` replays the
    pre-repair `reorder_<k>` (D3) for the counterexample -/
def step [BEq lab] (le : lab → lab → Bool) (sch : Schema) (fill : α) (fixedReorder : Bool)
    (op : Op α lab) (s : St α lab) : R (St α lab) :=
  match op with
  | .select k is => selectK sch k is s
  | .delete k obj => deleteK sch k obj s
  | .remove k obj => removeK sch k obj s
  | .reorder k is => if fixedReorder then reorderK sch k is s else reorderKPre sch k is s
  | .sort k keys => sortK le sch k keys s
  | .group k => groupK le sch k s
  | .ungroup k => ungroupK sch k s
  | .adjoin k v => adjoinK sch k fill v s
  | .append k v => appendK sch k fill v s
  | .insert k obj v => insertK sch k obj v s
  | .incorp k obj v => incorpK sch k obj v s
  | .concat k vs => concatK sch k (s :: vs.map (operandState s k))

/-- axis-generic form `op(…, axis)`: `get_axis`, then the axis-specific method of the owning bundle -/
def stepGeneric [BEq lab] (le : lab → lab → Bool) (sch : Schema) (fill : α) (fixedReorder : Bool)
    (axis : Int) (op : Op α lab) (s : St α lab) : R (St α lab) :=
  dispatch sch axis (fun k => step le sch fill fixedReorder (op.withKind k) s)

/-- the generic form before fix ec46686b (D4) -/
def stepGenericPre [BEq lab] (le : lab → lab → Bool) (sch : Schema) (fill : α) (fixedReorder : Bool)
    (axis : Int) (op : Op α lab) (s : St α lab) : R (St α lab) :=
  if op.selfCalls then dispatchSelfCall sch axis (fun k => step le sch fill fixedReorder (op.withKind k) s)
  else dispatch sch axis (fun k => step le sch fill fixedReorder (op.withKind k) s)

/-- a history: operations applied left to right, each to the object the previous one produced -/
def run [BEq lab] (le : lab → lab → Bool) (sch : Schema) (fill : α) (fixedReorder : Bool) :
    List (Op α lab) → St α lab → R (St α lab)
  | [], s => pure s
  | op :: ops, s => do
    let s1 ← step le sch fill fixedReorder op s
    run le sch fill fixedReorder ops s1

/-! ### the decidable Spec of C03 (evaluated on the implementation's states by the driver) -/

/-- the labels carried by index `i` of a bundle (one entry per column; absent column = `none`) -/
def labelsAt (b : Bundle lab) (i : Nat) : List (Option lab) :=
  b.cols.map (fun c => match c with | none => none | some l => l[i]?)

/-- what identifies coordinate `i` of data axis `a`: its labels when the axis is labelled, the bare
    position otherwise (phase axis, trailing singleton) -/
inductive AxInfo (lab : Type) where
  | pos (i : Nat)
  | lab (ls : List (Option lab))
  deriving DecidableEq, Repr, Hashable

def axInfo (sch : Schema) (s : St α lab) (a i : Nat) : AxInfo lab :=
  match sch.kindOf a with
  | some k => .lab (labelsAt (s.bundle k) i)
  | none => .pos i

/-- a data cell together with everything that labels it -/
structure LCell (α lab : Type) where
  val : α
  i0 : AxInfo lab
  i1 : AxInfo lab
  i2 : AxInfo lab
  deriving DecidableEq, Repr, Hashable

def lcellAt (sch : Schema) (s : St α lab) (i j k : Nat) : Option (LCell α lab) :=
  (cell s.mat i j k).map (fun v => ⟨v, axInfo sch s 0 i, axInfo sch s 1 j, axInfo sch s 2 k⟩)

/-- all labelled cells of a state -/
def lcells (sch : Schema) (s : St α lab) : List (LCell α lab) :=
  (List.range (axLen 0 s.mat)).flatMap fun i => (List.range (axLen 1 s.mat)).flatMap fun j =>
    (List.range (axLen 2 s.mat)).filterMap fun k => lcellAt sch s i j k

/-- shape consistency: rectangular data, every present label column as long as each axis it labels,
    and the axes governed by one bundle (square classes) equally long -/
def consistentOK (sch : Schema) (s : St α lab) : Bool :=
  rect s.mat &&
  [Kind.taxa, Kind.vrnt, Kind.trait].all (fun k =>
    (sch.axes k).all (fun a =>
      (s.bundle k).cols.all (fun c => match c with | none => true | some l => l.length == axLen a s.mat))) &&
  [Kind.taxa, Kind.vrnt, Kind.trait].all (fun k =>
    (sch.axes k).all (fun a => (sch.axes k).all (fun b => axLen a s.mat == axLen b s.mat)))

/-- consecutive blocks `[stix, spix)` of lengths `len` starting at `pos`; returns the end position -/
def tilesFrom : Nat → List Nat → List Nat → List Nat → Option Nat
  | pos, [], [], [] => some pos
  | pos, st :: sts, sp :: sps, n :: ns =>
    if st == pos && sp == st + n then tilesFrom sp sts sps ns else none
  | _, _, _, _ => none

/-- no value occurs twice -/
def nodupB [BEq lab] : List lab → Bool
  | [] => true
  | a :: l => !(l.contains a) && nodupB l

/-- group metadata describe a true contiguous partition of the label column: the blocks tile
    `[0, n)`, the names are pairwise different, every label inside block `k` equals `name k` -/
def partitionOK [BEq lab] (g : Grp lab) (col : List lab) : Bool :=
  (tilesFrom 0 g.stix g.spix g.len == some col.length) &&
  g.name.length == g.stix.length &&
  nodupB g.name &&
  (List.zip g.name (List.zip g.stix g.len)).all (fun p =>
    ((col.drop p.2.1).take p.2.2).all (fun x => x == p.1))

/-- the clause of `groupedOK` for one bundle -/
def grpOKk [BEq lab] (sch : Schema) (s : St α lab) (k : Kind) : Bool :=
  (sch.axes k).isEmpty ||
    match (s.bundle k).grp, k.grpCol with
    | none, _ => true
    | some _, none => false
    | some g, some c =>
      match ((s.bundle k).cols[c]?).join with
      | none => false
      | some col => partitionOK g col

/-- "whenever a matrix reports itself grouped along an axis …" -/
def groupedOK [BEq lab] (sch : Schema) (s : St α lab) : Bool :=
  grpOKk sch s .taxa && grpOKk sch s .vrnt

end LabelMat
