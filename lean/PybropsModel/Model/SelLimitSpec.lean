/-
The decidable Spec of C10, evaluated by the driver (`c10.spec`) on the IMPLEMENTATION's reported limits and
breeding values along a breeding history, and proved sound for the model in Lemmas/SelLimitSpec.lean
(`spec_sound`: the limits / values the model computes pass every clause at every tolerance ≥ 0).

Core Lean only.  The scalar is a parameter (`Rat` in the driver, an ordered field in the proofs).
-/
import PybropsModel.Model.SelLimit

namespace SelLimitSpec
open Genotype SelLimit

/-- a population as the Spec sees it: phased (`G`), unphased (`Z`, `ploidy`), or run-length
    compressed (`Z` = distinct dosage rows, `mult` = how many taxa carry each; very large populations) -/
structure PopIn where
  ploidy : Nat
  nt : Nat
  Z : UMat                 -- dosage rows (projection when phased; distinct rows when compressed)
  G : Option PMat
  mult : Option (List Nat)

/-- what the implementation reported for one population -/
structure ObsGen (α : Type) where
  usl : List α
  lsl : List α
  uslUn : List α
  lslUn : List α
  gebvRaw : List (List α)
  gebvUn : List (List α)

section spec
variable {α : Type} [Add α] [Sub α] [Mul α] [Neg α] [OfNat α 0] [OfNat α 1] [LT α] [LE α] [DecidableLT α]
  [DecidableLE α]

def absQ (q : α) : α := if q < 0 then -q else q
def maxQ (a b : α) : α := if a < b then b else a
/-- `a ≤ b` up to the float tolerance -/
def leTol (tol a b : α) : Bool := decide (a ≤ b + tol * maxQ 1 (maxQ (absQ a) (absQ b)))
def eqTol (tol a b : α) : Bool := leTol tol a b && leTol tol b a

/-- every reported value of every member lies between the reported limits -/
def bracketB (tol : α) (lo hi : List α) (vals : List (List α)) : Bool :=
  vals.all (fun row => row.length == lo.length && row.length == hi.length &&
    (List.zip row (List.zip lo hi)).all (fun x => leTol tol x.2.1 x.1 && leTol tol x.1 x.2.2))

/-- the population is fixed at every locus (raw calls) -/
def allFixedB (nv : Nat) (P : PopIn) : Bool :=
  (List.range nv).all (fun j =>
    P.Z.all (fun r => entry r j == 0) || P.Z.all (fun r => entry r j == (P.ploidy : Int)))

def collapseB (tol : α) (o : ObsGen α) : Bool :=
  (List.zip o.usl o.lsl).all (fun x => eqTol tol x.1 x.2) &&
  (List.zip o.uslUn o.lslUn).all (fun x => eqTol tol x.1 x.2) &&
  o.gebvRaw.all (fun row => (List.zip row o.usl).all (fun x => eqTol tol x.1 x.2)) &&
  o.gebvUn.all (fun row => (List.zip row o.uslUn).all (fun x => eqTol tol x.1 x.2))

def vecLe (tol : α) (a b : List α) : Bool :=
  a.length == b.length && (List.zip a b).all (fun x => leTol tol x.1 x.2)

/-- one step of the history is closed: allele level for two phased populations, dosage level otherwise
    (equivalent for binary alleles; compressed populations are never part of a history) -/
def stepClosedB (nv : Nat) (A B : PopIn) : Bool :=
  match A.G, B.G with
  | some Ga, some Gb => closedStepB nv ⟨A.nt, Ga⟩ ⟨B.nt, Gb⟩
  | _, _ => A.ploidy == B.ploidy && closedStepUB A.ploidy nv A.Z B.Z

/-- the names of the clauses that do not hold -/
def failing (l : List (String × Bool)) : List String := (l.filter (fun c => !c.2)).map Prod.fst

/-- the reported arrays have one entry per trait / per taxon -/
def shapeB (ntr : Nat) (P : PopIn) (o : ObsGen α) : Bool :=
  o.usl.length == ntr && o.lsl.length == ntr && o.uslUn.length == ntr && o.lslUn.length == ntr
    && o.gebvRaw.length == P.Z.length && o.gebvUn.length == P.Z.length

/-- the clauses about ONE population: shape, bracket (scaled and unscaled), collapse when fixed at all loci -/
def ownChecks (nv ntr : Nat) (tol : α) (i : Nat) (P : PopIn) (o : ObsGen α) : List (String × Bool) :=
  [ (s!"gen{i}:shape", shapeB ntr P o),
    (s!"gen{i}:bracket(lsl<=gebv<=usl)", bracketB tol o.lsl o.usl o.gebvRaw),
    (s!"gen{i}:bracket(unscaled)", bracketB tol o.lslUn o.uslUn o.gebvUn),
    (s!"gen{i}:fixed population: usl=lsl=gebv", !allFixedB nv P || collapseB tol o) ]

/-- the clauses about an EARLIER population `a` (generation `i`) and a LATER one `b` (generation `j`): the upper limit
    does not increase, the lower limit does not decrease, every member of `b` lies inside the limits of `a` -/
def pairChecks (tol : α) (i j : Nat) (oa ob : ObsGen α) : List (String × Bool) :=
  [ (s!"usl increases gen{i}->gen{j}", vecLe tol ob.usl oa.usl && vecLe tol ob.uslUn oa.uslUn),
    (s!"lsl decreases gen{i}->gen{j}", vecLe tol oa.lsl ob.lsl && vecLe tol oa.lslUn ob.lslUn),
    (s!"descendant of gen{j} outside limits of gen{i}",
      bracketB tol oa.lsl oa.usl ob.gebvRaw && bracketB tol oa.lslUn oa.uslUn ob.gebvUn) ]

/-- the clause about two CONSECUTIVE populations: no allele appears that the earlier one does not carry -/
def stepChecks (nv : Nat) (i : Nat) (A B : PopIn) : List (String × Bool) :=
  [ (s!"allele absent in gen{i} present in gen{i + 1}", stepClosedB nv A B) ]

/-- the clauses of the property on the trajectory from generation `i` on -/
def specFrom (nv ntr : Nat) (tol : α) : Nat → List (PopIn × ObsGen α) → List String
  | _, [] => []
  | i, (P, o) :: rest =>
      failing (ownChecks nv ntr tol i P o)
      ++ (rest.zipIdx (i + 1)).flatMap (fun bj => failing (pairChecks tol i bj.2 o bj.1.2))
      ++ (match rest with
          | [] => []
          | (Q, _) :: _ => failing (stepChecks nv i P Q))
      ++ specFrom nv ntr tol (i + 1) rest

/-- the clauses of the property on a whole trajectory; returns the names of the failing ones -/
def specHistory (nv ntr : Nat) (tol : α) (pops : List PopIn) (obs : List (ObsGen α)) : List String :=
  if obs.length != pops.length then ["obs/pops length"] else specFrom nv ntr tol 0 (pops.zip obs)

end spec

/-! ### what the model reports for a population (the answer of `c10.limits`) -/
section model
variable {α : Type} [Add α] [Mul α] [Div α] [OfNat α 0] [OfNat α 1] [LT α] [LE α] [DecidableLT α]
  [DecidableLE α] [NatCast α] [IntCast α]

/-- `out += location.ravel()` -/
def addLoc (loc v : List α) : List α := List.zipWith (· + ·) v loc

/-- limits (with and without the location) and breeding values of all traits from the dosage rows `Z` and the
    frequency vector `p` the code obtains (`afreq()` of the object, or the inline quotient of the ndarray branch) -/
def modelObs (nv ntr : Nat) (U beta : List (List α)) (ploidy : Nat) (Z : UMat) (p : List α) : ObsGen α :=
  let loc := (List.range ntr).map (location beta)
  let us := usl ploidy nv ntr U p
  let ls := lsl ploidy nv ntr U p
  let gv := gebv nv ntr U Z
  { usl := us, lsl := ls, uslUn := addLoc loc us, lslUn := addLoc loc ls, gebvRaw := gv, gebvUn := gv.map (addLoc loc) }

end model

end SelLimitSpec
