/-
Model of the genotype summary statistics of
  pybrops/popgen/gmat/DenseGenotypeMatrix.py        (unphased, `mat[taxon][locus]` = dosage 0..ploidy)
  pybrops/popgen/gmat/DensePhasedGenotypeMatrix.py  (phased,   `mat[phase][taxon][locus]` = allele 0/1)
  pybrops/breed/prot/gt/DenseUnphasedGenotyping.py  (`project`: phased -> unphased)
as the code is NOW (frequencies are `count / (ploidy*ntaxa)`; unphased `gtcount` has ploidy+1 classes).
The pre-repair reciprocal form `(1/(ploidy*ntaxa)) * count` is kept as `afreqRecipAt` only to document
why the division form matters (Props/C09 `recip_form_counterexample`).

Core Lean only.  Polymorphic in the scalar `α`; executed at `Rat` by the driver, evaluated at `Float`
by the kernel in the counterexamples, reasoned about over an ordered field in Lemmas/ and Props/.
Every statistic is given pointwise (`…At`, one locus / one entry) and as the assembled array.
Dimensions (`nt` taxa, `nv` loci) are explicit arguments, as numpy shapes are.
-/
import PybropsModel.Np
import PybropsModel.Model.Binary64
import PybropsModel.Model.BinaryFloat

namespace Genotype

/-- unphased genotype matrix: rows = taxa, columns = loci -/
abbrev UMat := List (List Int)
/-- phased genotype matrix: phases × taxa × loci -/
abbrev PMat := List (List (List Int))

/-- `row[j]` (0 outside; never used outside for rectangular input) -/
def entry (row : List Int) (j : Nat) : Int := row.getD j 0

/-- column `j` of an unphased matrix (all taxa) -/
def col (m : UMat) (j : Nat) : List Int := m.map (fun r => entry r j)

/-- `Float` gets the two casts the polymorphic model needs (used only by kernel-evaluated counterexamples) -/
scoped instance : IntCast Float := ⟨Float.ofInt⟩
scoped instance : NatCast Float := ⟨Float.ofNat⟩

/-! ### statistics computed from a frequency vector (shared by the two classes) -/
section fromfreq
variable {α : Type} [Add α] [Sub α] [Mul α] [Div α] [OfNat α 0] [OfNat α 1] [LT α] [DecidableLT α]
  [BEq α] [NatCast α]

/-- `(afreq == 0.0) | (afreq == 1.0)` — DenseGenotypeMatrix.afixed (inherited by the phased class) -/
def afixedOf (p : α) : Bool := p == 0 || p == 1

/-- `(afreq > 0.0) & (afreq < 1.0)` — DenseGenotypeMatrix.apoly -/
def apolyOf (p : α) : Bool := decide (0 < p) && decide (p < 1)

/-- `mask = out > 0.5; out[mask] = 1.0 - out[mask]` — maf -/
def mafOf (p : α) : α := if (1 : α) / ((1 : α) + 1) < p then 1 - p else p

/-- `(ploidy / nvrnt) * Σ p (1 - p)` — meh (`numpy.dot(p, 1-p)` / `(p*(1-p)).sum()`) -/
def mehOf (ploidy nv : Nat) (p : List α) : α :=
  ((p.map (fun x => x * (1 - x))).foldr (· + ·) 0) * ((ploidy : α) / (nv : α))

end fromfreq

/-! ### unphased class -/
section unphased
variable {α : Type} [Add α] [Sub α] [Mul α] [Div α] [OfNat α 0] [OfNat α 1] [LT α] [DecidableLT α]
  [BEq α] [NatCast α] [IntCast α]

/-- tacount: the matrix itself (`self._mat.astype(dtype)`) -/
def tacount (m : UMat) : UMat := m

/-- tafreq: `self._mat / float(self.ploidy)` -/
def tafreqAt (ploidy : Nat) (g : Int) : α := (g : α) / (ploidy : α)
def tafreq (ploidy : Nat) (m : UMat) : List (List α) := m.map (fun r => r.map (tafreqAt ploidy))

/-- acount: `self._mat.sum(taxa_axis)` -/
def acountAt (m : UMat) (j : Nat) : Int := (col m j).sum
def acount (nv : Nat) (m : UMat) : List Int := (List.range nv).map (acountAt m)

/-- afreq: `self._mat.sum(taxa_axis) / (self.ploidy * self.ntaxa)` (division form) -/
def afreqAt (ploidy : Nat) (m : UMat) (j : Nat) : α :=
  ((acountAt m j : Int) : α) / ((ploidy * m.length : Nat) : α)
def afreq (ploidy nv : Nat) (m : UMat) : List α := (List.range nv).map (afreqAt ploidy m)

/-- the pre-repair expression `(1.0 / (ploidy * ntaxa)) * sum` (defect D1), kept for the counterexample -/
def afreqRecipAt (ploidy : Nat) (m : UMat) (j : Nat) : α :=
  ((1 : α) / ((ploidy * m.length : Nat) : α)) * ((acountAt m j : Int) : α)

def afixed (ploidy nv : Nat) (m : UMat) : List Bool := (afreq (α := α) ploidy nv m).map afixedOf
def apoly (ploidy nv : Nat) (m : UMat) : List Bool := (afreq (α := α) ploidy nv m).map apolyOf
def maf (ploidy nv : Nat) (m : UMat) : List α := (afreq (α := α) ploidy nv m).map mafOf
def meh (ploidy nv : Nat) (m : UMat) : α := mehOf ploidy nv (afreq (α := α) ploidy nv m)

/-- gtcount: `for i in range(ploidy+1): out[i] = (mat == i).sum(taxa_axis)` -/
def gtcountAt (m : UMat) (i j : Nat) : Nat := (col m j).count (i : Int)
def gtcount (ploidy nv : Nat) (m : UMat) : List (List Nat) :=
  (List.range (ploidy + 1)).map (fun i => (List.range nv).map (gtcountAt m i))

/-- gtfreq: `(1.0 / ntaxa) * gtcount()` (still the reciprocal form in the code) -/
def gtfreqAt (m : UMat) (i j : Nat) : α := ((1 : α) / ((m.length : Nat) : α)) * ((gtcountAt m i j : Nat) : α)
def gtfreq (ploidy nv : Nat) (m : UMat) : List (List α) :=
  (List.range (ploidy + 1)).map (fun i => (List.range nv).map (gtfreqAt m i))

/-- genotype-class frequency in the division form `gtcount / ntaxa` — NOT what the code does (it multiplies by
    the reciprocal); kept to state that this form would be exact at 0 and 1 (Props/C09 `gtfreq_div_form_exact`) -/
def gtfreqDivAt (m : UMat) (i j : Nat) : α := ((gtcountAt m i j : Nat) : α) / ((m.length : Nat) : α)

/-- mat_asformat("{0,1,2}") -/
def fmt012 (m : UMat) : UMat := m
/-- mat_asformat("{-1,0,1}"): `mat - 1` -/
def fmtM101 (m : UMat) : UMat := m.map (fun r => r.map (· - 1))
/-- mat_asformat("{-1,m,1}"): `out = mat - 1.0`; per column `mean = view.mean()`, entries equal to 0
    are overwritten with the mean (computed before the overwrite) -/
def colMeanM1 (m : UMat) (j : Nat) : α :=
  ((((col m j).map (· - 1)).sum : Int) : α) / ((m.length : Nat) : α)
def fmtM1m1At (m : UMat) (g : Int) (j : Nat) : α :=
  if ((g - 1 : Int) : α) == 0 then colMeanM1 m j else ((g - 1 : Int) : α)
def fmtM1m1 (nv : Nat) (m : UMat) : List (List α) :=
  m.map (fun r => (List.range nv).map (fun j => fmtM1m1At m (entry r j) j))

end unphased

/-! ### the column loop of `mat_asformat("{-1,m,1}")`, transcribed literally (closed form: `fmtM1m1`, proved equal in
    Lemmas/GenotypeLoops.lean) -/
section m1loop
variable {α : Type} [Add α] [Sub α] [Div α] [OfNat α 0] [OfNat α 1] [BEq α] [NatCast α] [IntCast α]

/-- `out = self.mat - 1.0` -/
def m1Init (m : UMat) : List (List α) := m.map (fun r => r.map (fun g => ((g : Int) : α) - 1))

/-- `view.mean()` of column `i` of the float matrix -/
def m1ColMean (out : List (List α)) (i : Nat) : α :=
  ((out.map (fun r => r.getD i 0)).foldr (· + ·) 0) / ((out.length : Nat) : α)

/-- one pass of the loop body: `mean = view.mean(); mask = (view == 0); out[mask, i] = mean` -/
def m1Step (out : List (List α)) (i : Nat) : List (List α) :=
  let mean := m1ColMean out i
  out.map (fun r => r.zipIdx.map (fun xj => if xj.2 == i then (if xj.1 == 0 then mean else xj.1) else xj.1))

/-- `for i in range(out.shape[1]): …` -/
def m1Loop (nv : Nat) (m : UMat) : List (List α) := (List.range nv).foldl m1Step (m1Init m)

end m1loop

/-! ### phased class -/
section phased
variable {α : Type} [Add α] [Sub α] [Mul α] [Div α] [OfNat α 0] [OfNat α 1] [LT α] [DecidableLT α]
  [BEq α] [NatCast α] [IntCast α]

/-- the alleles taxon `i` carries at locus `j`, one per phase -/
def copiesOf (G : PMat) (i j : Nat) : List Int := G.map (fun ph => entry (ph.getD i []) j)

/-- every chromosome copy of the population at locus `j` (phase-major, as `mat[:,:,j]` is laid out) -/
def popCopies (G : PMat) (j : Nat) : List Int := G.flatMap (fun ph => col ph j)

/-- `self._mat.sum(phase_axis)`: dosage matrix -/
def psumAt (G : PMat) (i j : Nat) : Int := (copiesOf G i j).sum
def psum (nt nv : Nat) (G : PMat) : UMat :=
  (List.range nt).map (fun i => (List.range nv).map (psumAt G i))

/-- DenseUnphasedGenotyping.genotype: `DenseGenotypeMatrix(mat = pgmat.mat_asformat("{0,1,2}"), ploidy = pgmat.ploidy)` -/
def project (nt nv : Nat) (G : PMat) : Nat × UMat := (G.length, psum nt nv G)

def ptacount (nt nv : Nat) (G : PMat) : UMat := psum nt nv G
def ptafreq (nt nv : Nat) (G : PMat) : List (List α) :=
  (psum nt nv G).map (fun r => r.map (tafreqAt G.length))

/-- acount: `self._mat.sum((phase_axis, taxa_axis))` -/
def pacountAt (G : PMat) (j : Nat) : Int := (popCopies G j).sum
def pacount (nv : Nat) (G : PMat) : List Int := (List.range nv).map (pacountAt G)

/-- afreq: `self._mat.sum((phase_axis, taxa_axis)) / (self.ploidy * self.ntaxa)` -/
def pafreqAt (nt : Nat) (G : PMat) (j : Nat) : α :=
  ((pacountAt G j : Int) : α) / ((G.length * nt : Nat) : α)
def pafreq (nt nv : Nat) (G : PMat) : List α := (List.range nv).map (pafreqAt nt G)

/-- afixed is inherited from the unphased class: float tests on `self.afreq()` -/
def pafixed (nt nv : Nat) (G : PMat) : List Bool := (pafreq (α := α) nt nv G).map afixedOf

/-- apoly of the phased class tests the alleles:
    `logical_not(all(mat == 0, (phase, taxa)) | all(mat == 1, (phase, taxa)))` -/
def papolyAt (G : PMat) (j : Nat) : Bool :=
  !((popCopies G j).all (· == 0) || (popCopies G j).all (· == 1))
def papoly (nv : Nat) (G : PMat) : List Bool := (List.range nv).map (papolyAt G)

def pmaf (nt nv : Nat) (G : PMat) : List α := (pafreq (α := α) nt nv G).map mafOf
def pmeh (nt nv : Nat) (G : PMat) : α := mehOf G.length nv (pafreq (α := α) nt nv G)

/-- gtcount: `ngt = nphase + 1; mat = self._mat.sum(phase_axis); out[i] = (mat == i).sum(taxa)` -/
def pgtcount (nt nv : Nat) (G : PMat) : List (List Nat) := gtcount G.length nv (psum nt nv G)
def pgtfreq (nt nv : Nat) (G : PMat) : List (List α) := gtfreq G.length nv (psum nt nv G)

def pfmt012 (nt nv : Nat) (G : PMat) : UMat := psum nt nv G
def pfmtM101 (nt nv : Nat) (G : PMat) : UMat := fmtM101 (psum nt nv G)
def pfmtM1m1 (nt nv : Nat) (G : PMat) : List (List α) := fmtM1m1 nv (psum nt nv G)

end phased

/-! ### the binary64 values the code returns: IEEE rounding (`Binary64.roundBinary64`) after every arithmetic
    operation.  Compared bit for bit with the implementation's float64 outputs by the harness. -/

def afreqF64At (ploidy : Nat) (m : UMat) (j : Nat) : Rat :=
  Binary64.roundBinary64 (afreqAt (α := Rat) ploidy m j)
def pafreqF64At (nt : Nat) (G : PMat) (j : Nat) : Rat :=
  Binary64.roundBinary64 (pafreqAt (α := Rat) nt G j)
def tafreqF64At (ploidy : Nat) (g : Int) : Rat := Binary64.roundBinary64 (tafreqAt (α := Rat) ploidy g)
/-- `recip = 1.0 / ntaxa` (rounded), then `recip * count` (rounded) -/
def gtfreqF64At (m : UMat) (i j : Nat) : Rat :=
  Binary64.roundBinary64 (Binary64.roundBinary64 ((1 : Rat) / ((m.length : Nat) : Rat)) * ((gtcountAt m i j : Nat) : Rat))
/-- `out[mask] = 1.0 - out[mask]` on an already rounded frequency -/
def mafF64Of (p : Rat) : Rat := if (1 : Rat) / 2 < p then Binary64.roundBinary64 (1 - p) else p


/-! ### narrower floating dtypes: `dtype.type(out)` rounds the binary64 value to the nearest value of the format
    (`BinaryFloat.roundBin t`, `t` = 23 stored significand bits for float32, 10 for float16) -/

def afreqNarrowAt (t ploidy : Nat) (m : UMat) (j : Nat) : Rat := BinaryFloat.roundBin t (afreqF64At ploidy m j)
def pafreqNarrowAt (t nt : Nat) (G : PMat) (j : Nat) : Rat := BinaryFloat.roundBin t (pafreqF64At nt G j)
def tafreqNarrowAt (t ploidy : Nat) (g : Int) : Rat := BinaryFloat.roundBin t (tafreqF64At ploidy g)
def gtfreqNarrowAt (t : Nat) (m : UMat) (i j : Nat) : Rat := BinaryFloat.roundBin t (gtfreqF64At m i j)
/-- `maf(float32)`: `out = afreq(float32)`; `out[mask] = 1.0 - out[mask]` evaluated in that format -/
def mafNarrowOf (t : Nat) (p : Rat) : Rat := if (1 : Rat) / 2 < p then BinaryFloat.roundBin t (1 - p) else p

/-! ### integer dtypes: `dtype.type(out)` on the float64 result truncates toward zero -/

/-- numpy's float → integer cast: truncation toward zero -/
def truncRat (q : Rat) : Int := if q < 0 then -((-q).floor) else q.floor

/-- `afreq("int64")`, `tafreq(int)`, `gtfreq("int8")`, `maf("int32")`: the cast of the binary64 value -/
def afreqIntAt (ploidy : Nat) (m : UMat) (j : Nat) : Int := truncRat (afreqF64At ploidy m j)
def pafreqIntAt (nt : Nat) (G : PMat) (j : Nat) : Int := truncRat (pafreqF64At nt G j)
def tafreqIntAt (ploidy : Nat) (g : Int) : Int := truncRat (tafreqF64At ploidy g)
def gtfreqIntAt (m : UMat) (i j : Nat) : Int := truncRat (gtfreqF64At m i j)
/-- `maf(int)`: `out = afreq(int)` (0 or 1), `out[out > 0.5] = 1.0 - out[...]` -/
def mafIntOf (a : Int) : Int := if 0 < a then 1 - a else a

/-! ### run-length compressed populations (driver only: very large populations with few distinct rows) -/

/-- the matrix in which row `k` of `rows` occurs `mult[k]` times -/
def expand (rows : UMat) (mult : List Nat) : UMat :=
  (List.zipWith (fun (k : Nat) (r : List Int) => List.replicate k r) mult rows).flatten

/-- column sum of the expanded matrix computed from the distinct rows -/
def acountWAt (rows : UMat) (mult : List Nat) (j : Nat) : Int :=
  (List.zipWith (fun (k : Nat) (r : List Int) => (k : Int) * entry r j) mult rows).sum

section compressed
variable {α : Type} [Div α] [NatCast α] [IntCast α]

/-- `afreqAt` of the expanded matrix, from the distinct rows and their multiplicities (`nt = Σ mult`) -/
def afreqWAt (ploidy nt : Nat) (rows : UMat) (mult : List Nat) (j : Nat) : α :=
  ((acountWAt rows mult j : Int) : α) / ((ploidy * nt : Nat) : α)
def afreqW (ploidy nt nv : Nat) (rows : UMat) (mult : List Nat) : List α :=
  (List.range nv).map (afreqWAt ploidy nt rows mult)

end compressed

/-! ### validity of the raw calls (what the generators produce, what the theorems assume) -/

/-- unphased: `nt ≥ 1` taxa, rectangular, every dosage in `0..ploidy` -/
def ValidU (ploidy nv : Nat) (m : UMat) : Prop :=
  0 < ploidy ∧ 0 < m.length ∧ ∀ r ∈ m, r.length = nv ∧ ∀ g ∈ r, 0 ≤ g ∧ g ≤ (ploidy : Int)

/-- phased: `≥ 1` phase, `nt ≥ 1` taxa, rectangular, binary alleles -/
def ValidP (nt nv : Nat) (G : PMat) : Prop :=
  0 < G.length ∧ 0 < nt ∧ ∀ ph ∈ G, ph.length = nt ∧ ∀ r ∈ ph, r.length = nv ∧ ∀ a ∈ r, a = 0 ∨ a = 1

instance (ploidy nv : Nat) (m : UMat) : Decidable (ValidU ploidy nv m) := by
  unfold ValidU; infer_instance
instance (nt nv : Nat) (G : PMat) : Decidable (ValidP nt nv G) := by
  unfold ValidP; infer_instance

end Genotype
