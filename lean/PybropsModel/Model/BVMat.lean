/-
Model of the breeding-value matrix family
  pybrops/popgen/bvmat/DenseBreedingValueMatrix.py   (from_numpy, unscale, the t* statistics, the
      copy-on-manipulation taxa operations select/delete/insert/adjoin_taxa)
  pybrops/core/mat/DenseTaxaMatrix.py                (the taxa operations the breeding-value classes
      *inherit unchanged*: concat_taxa, append_taxa, remove_taxa, incorp_taxa, reorder_taxa)
  pybrops/core/mat/DenseScaledMatrix.py              (transform, untransform, rescale, unscale)
Dense(Genomic)EstimatedBreedingValueMatrix add nothing but a constructor with mandatory
`location`/`scale` arguments (modelled in the driver/harness as the reason `concat_taxa` raises).

Core Lean only; executed at `Rat` by the driver, reasoned about over an ordered field in
Lemmas/BVMat*.lean and Props/C15.lean.

Conventions
* A float matrix of shape (n, t) is stored TRAIT-MAJOR: a list of t columns, each a list of n
  entries.  Every taxa-axis numpy primitive (`take/delete/insert/append/concatenate(axis=0)`) acts
  on each column in the same way, which is how it is written here.
* An entry is `Option α`; `none` is NaN.  Arithmetic is lifted strictly (NaN in, NaN out).
* `numpy.sqrt` is a parameter `sq : α → α` of every function that needs it (the driver runs with
  `ratSqrt`, a 30-digit rational square root; the theorems hold for every `sq`, some under the
  stated part of the square-root contract).
* Taxa carry an identity (`Nat`), the harness maps it to a unique taxon name.
-/
import PybropsModel.Np
import PybropsModel.Model.LabelMat

namespace BVMat

/-- one trait column of a float matrix; `none` = NaN -/
abbrev Col (α : Type) := List (Option α)

/-! ### NaN-propagating arithmetic -/
section lift
variable {α : Type}

def lift2 (f : α → α → α) : Option α → Option α → Option α
  | some a, some b => some (f a b)
  | _, _ => none

variable [Add α] [Sub α] [Mul α] [Div α] [OfNat α 1]
def oadd : Option α → Option α → Option α := lift2 (· + ·)
def osub : Option α → Option α → Option α := lift2 (· - ·)
def omul : Option α → Option α → Option α := lift2 (· * ·)
/-- `1.0 / s` -/
def orecip (s : Option α) : Option α := s.map (fun x => (1 : α) / x)

end lift

/-! ### numpy reductions on one column -/
section reduce
variable {α : Type} [Add α] [Sub α] [Mul α] [Div α] [OfNat α 0] [OfNat α 1] [NatCast α]

/-- `numpy.sum` (exact arithmetic: the summation order is irrelevant) -/
def sumL : List α → α
  | [] => 0
  | a :: l => a + sumL l

/-- the non-NaN entries, in order -/
def present (c : Col α) : List α := c.filterMap id

/-- `Some l` when the column has no NaN -/
def dense (c : Col α) : Option (List α) := if c.all Option.isSome then some (present c) else none

def meanL (l : List α) : α := sumL l / (l.length : α)

/-- population variance (`ddof = 0`): mean of squared deviations from the mean -/
def varL (l : List α) : α := meanL (l.map (fun x => (x - meanL l) * (x - meanL l)))

/-- `numpy.nanmean(col)`; NaN for an empty or all-NaN column -/
def nanmean (c : Col α) : Option α := if (present c).isEmpty then none else some (meanL (present c))

/-- `numpy.nanvar(col)` -/
def nanvar (c : Col α) : Option α := if (present c).isEmpty then none else some (varL (present c))

/-- `numpy.nanstd(col)` -/
def nanstd (sq : α → α) (c : Col α) : Option α := (nanvar c).map sq

variable [LT α] [DecidableLT α]

/-- `max` of `a :: l` scanning left to right -/
def maxL (a : α) (l : List α) : α := l.foldl (fun m x => if m < x then x else m) a
def minL (a : α) (l : List α) : α := l.foldl (fun m x => if x < m then x else m) a

/-- `numpy.fmin.reduce(col)` / `numpy.fmax.reduce(col)`: the NaN-IGNORING extrema; NaN for a column
    without any value -/
def fminReduce (c : Col α) : Option α :=
  match present c with
  | a :: l => some (minL a l)
  | [] => none
def fmaxReduce (c : Col α) : Option α :=
  match present c with
  | a :: l => some (maxL a l)
  | [] => none

/-- `numpy.argmax` on `a :: l` (first occurrence of the maximum): `best` is the running maximum,
    `bi` its index, `i` the index of the head of the remaining list -/
def argmaxGo (best : α) (bi i : Nat) : List α → Nat
  | [] => bi
  | x :: l => if best < x then argmaxGo x i (i+1) l else argmaxGo best bi (i+1) l
def argminGo (best : α) (bi i : Nat) : List α → Nat
  | [] => bi
  | x :: l => if x < best then argminGo x i (i+1) l else argminGo best bi (i+1) l

/-- index of the first NaN -/
def firstNaN : Col α → Option Nat
  | [] => none
  | none :: _ => some 0
  | some _ :: l => (firstNaN l).map (· + 1)

/-- `col.max()`: NaN as soon as one entry is NaN (the harness never asks for an empty column,
    where numpy raises) -/
def colMax (c : Col α) : Option α :=
  match dense c with
  | some (a :: l) => some (maxL a l)
  | _ => none
def colMin (c : Col α) : Option α :=
  match dense c with
  | some (a :: l) => some (minL a l)
  | _ => none
/-- `numpy.ptp(col)` = max − min -/
def colPtp (c : Col α) : Option α := osub (colMax c) (colMin c)
/-- `col.mean()`, NaN-propagating -/
def colMean (c : Col α) : Option α :=
  match dense c with
  | some (a :: l) => some (meanL (a :: l))
  | _ => none
def colVar (c : Col α) : Option α :=
  match dense c with
  | some (a :: l) => some (varL (a :: l))
  | _ => none
/-- `col.argmax()`: numpy returns the position of the first NaN when there is one -/
def colArgmax (c : Col α) : Nat :=
  match firstNaN c with
  | some i => i
  | none => match present c with
    | a :: l => argmaxGo a 0 1 l
    | [] => 0
def colArgmin (c : Col α) : Nat :=
  match firstNaN c with
  | some i => i
  | none => match present c with
    | a :: l => argminGo a 0 1 l
    | [] => 0

end reduce

/-! ### one trait of a breeding-value matrix -/

/-- stored (standardised) column with its location and scale -/
structure Trait (α : Type) where
  mat : Col α
  loc : Option α
  scale : Option α
deriving Repr, DecidableEq

section trait
variable {α : Type} [Add α] [Sub α] [Mul α] [Div α] [OfNat α 0] [OfNat α 1] [NatCast α]
  [DecidableEq α]

/-- `scale[scale == 0.0] = 1.0` -/
def guardScale (s : α) : α := if s = 0 then 1 else s

/-- `(1.0 / scale) * (x - location)` -/
def standardise (loc scale x : Option α) : Option α := omul (orecip scale) (osub x loc)

/-- `DenseBreedingValueMatrix.from_numpy` on one column BEFORE the fix of D26 (`<commit>`): the only guard is
    `scale[scale == 0.0] = 1.0`.  Not the code as it is; kept for `C15.inexact_mean_prerepair_counterexample`
    and for `C15.prerepair_eq_from_numpy_exact` (in exact arithmetic the fix changes nothing). -/
def fromNumpyColPrerepair (sq : α → α) (c : Col α) : Trait α :=
  let loc := nanmean c
  let scale := (nanstd sq c).map guardScale
  { mat := c.map (standardise loc scale), loc := loc, scale := scale }

/-- `(scale * x) + location` -/
def unscaleEntry (loc scale x : Option α) : Option α := oadd (omul scale x) loc

/-- `DenseBreedingValueMatrix.unscale` on one column -/
def unscaleCol (t : Trait α) : Col α := t.mat.map (unscaleEntry t.loc t.scale)

variable [LT α] [DecidableLT α]

/-- `lo == hi` on floats: false as soon as one side is NaN -/
def oeq : Option α → Option α → Bool
  | some a, some b => decide (a = b)
  | _, _ => false

/-- `const = (fmin.reduce(col) == fmax.reduce(col))`: the trait has a value and all its values are EQUAL
    (exact comparison of the values themselves, no arithmetic) -/
def isConstCol (c : Col α) : Bool := oeq (fminReduce c) (fmaxReduce c)

/-- the location `from_numpy` / `rescale` store:  `location = nanmean(col); location[const] = lo[const]` -/
def fitLoc (c : Col α) : Option α := if isConstCol c then fminReduce c else nanmean c

/-- the scale they store:  `scale = nanstd(col); scale[scale == 0.0] = 1.0; scale[const] = 1.0` -/
def fitScale (sq : α → α) (c : Col α) : Option α :=
  if isConstCol c then some 1 else (nanstd sq c).map guardScale

/-- `DenseBreedingValueMatrix.from_numpy` on one column (as of the fix of D26):
    ```
    location = nanmean(mat, 0); scale = nanstd(mat, 0); scale[scale == 0.0] = 1.0
    if mat.shape[0] > 0:                       # with no taxa no column has a value and `const` is False
        lo = fmin.reduce(mat, 0); hi = fmax.reduce(mat, 0); const = (lo == hi)
        location[const] = lo[const]; scale[const] = 1.0
    mat = (1.0 / scale) * (mat - location)
    ``` -/
def fromNumpyCol (sq : α → α) (c : Col α) : Trait α :=
  let loc := fitLoc c
  let scale := fitScale sq c
  { mat := c.map (standardise loc scale), loc := loc, scale := scale }

/-- `out = mat.max(axis=0); if unscale: out *= scale; out += location` -/
def tmax (unscale : Bool) (t : Trait α) : Option α :=
  if unscale then oadd (omul (colMax t.mat) t.scale) t.loc else colMax t.mat
def tmin (unscale : Bool) (t : Trait α) : Option α :=
  if unscale then oadd (omul (colMin t.mat) t.scale) t.loc else colMin t.mat
/-- `out = numpy.ptp(mat, axis=0); if unscale: out *= scale` -/
def trange (unscale : Bool) (t : Trait α) : Option α :=
  if unscale then omul (colPtp t.mat) t.scale else colPtp t.mat
/-- `location if unscale else mat.mean(axis=0)` -/
def tmean (unscale : Bool) (t : Trait α) : Option α := if unscale then t.loc else colMean t.mat
/-- the mean on the original scale RECOMPUTED from the stored column in the shape of `tmax` / `tmin`
    (`out = mat.mean(axis=0); out *= scale; out += location`, numpy's NaN-propagating `mean`).  Not the code as it
    is; kept for `C15.tmean_recomputed_complete` / `C15.tmean_recomputed_counterexample` (round 5: equal to the
    stored location for complete data, NaN for the whole trait as soon as one taxon has no record). -/
def tmeanRecomputed (t : Trait α) : Option α := oadd (omul (colMean t.mat) t.scale) t.loc
/-- `scale * numpy.nanstd(mat, axis=0) if unscale else mat.std(axis=0)`   (as of fix 94b833ce) -/
def tstd (sq : α → α) (unscale : Bool) (t : Trait α) : Option α :=
  if unscale then omul t.scale ((nanvar t.mat).map sq) else (colVar t.mat).map sq
/-- `scale**2 * numpy.nanvar(mat, axis=0) if unscale else mat.var(axis=0)`   (as of fix 94b833ce) -/
def tvar (unscale : Bool) (t : Trait α) : Option α :=
  if unscale then omul (omul t.scale t.scale) (nanvar t.mat) else colVar t.mat
/-- the statistics BEFORE fix 94b833ce (defect D9): `scale` and `scale**2`.  Not the code as it is;
    kept only for `C15.tstd_prerepair_counterexample`. -/
def tstdPrerepair (t : Trait α) : Option α := t.scale
def tvarPrerepair (t : Trait α) : Option α := omul t.scale t.scale
def targmax (t : Trait α) : Nat := colArgmax t.mat
def targmin (t : Trait α) : Nat := colArgmin t.mat

end trait

/-! ### the matrix and its taxa-axis operations -/

/-- a breeding-value matrix: one `Trait` per column and the taxon identities of the rows -/
structure BV (α : Type) where
  traits : List (Trait α)
  taxa : List Nat
deriving Repr, DecidableEq

/-- raw data: columns and taxon identities -/
abbrev Raw (α : Type) := List (Col α) × List Nat

/-- second argument of insert/adjoin/append/incorp: a raw `numpy.ndarray` or another matrix -/
inductive Operand (α : Type) where
  | nd (cols : List (Col α)) (taxa : List Nat)
  | bv (b : BV α)
deriving Repr

inductive Err where
  | shape   -- ValueError: trait counts differ
  | index   -- IndexError: position outside the taxa axis
  | type    -- TypeError
  | unsupported  -- a numpy index form the model does not cover (unsorted multi-position insert)
deriving Repr, DecidableEq

section matrix
variable {α : Type} [Add α] [Sub α] [Mul α] [Div α] [OfNat α 0] [OfNat α 1] [NatCast α]
  [DecidableEq α] [LT α] [DecidableLT α]

def fromNumpy (sq : α → α) (cols : List (Col α)) (taxa : List Nat) : BV α :=
  { traits := cols.map (fromNumpyCol sq), taxa := taxa }

def unscale (b : BV α) : List (Col α) := b.traits.map unscaleCol

/-- what the breeding-value level methods make of the operand: an ndarray is taken to be unscaled,
    a matrix is unscaled first (`values = values.unscale()`) -/
def Operand.values : Operand α → List (Col α)
  | .nd cols _ => cols
  | .bv b => unscale b

/-- what the inherited in-place methods make of it: `values = values.mat` (the *stored* values) -/
def Operand.stored : Operand α → List (Col α)
  | .nd cols _ => cols
  | .bv b => b.traits.map (·.mat)

def Operand.taxa : Operand α → List Nat
  | .nd _ t => t
  | .bv b => b.taxa

/-- the raw (unscaled) content of an operand, the ground truth the property talks about -/
def Operand.raw (v : Operand α) : Raw α := (v.values, v.taxa)

/-- taxa operations (index lists are the non-negative in-range form) -/
inductive Op (α : Type) where
  | select (idx : List Nat)            -- select_taxa(indices)            numpy.take
  | delete (idx : List Nat)            -- delete_taxa(obj)                numpy.delete
  | insert (k : Nat) (v : Operand α)   -- insert_taxa(k | [k], values)    numpy.insert
  | insertMany (ks : List Nat) (v : Operand α)  -- insert_taxa([k0, k1, …], values): value j before row ks[j]
  | adjoin (v : Operand α)             -- adjoin_taxa(values)             numpy.append
  | reorder (idx : List Nat)           -- reorder_taxa(indices), in place, inherited
  | remove (idx : List Nat)            -- remove_taxa(obj), in place, inherited
  | append (v : Operand α)             -- append_taxa(values), in place, inherited
  | incorp (k : Nat) (v : Operand α)   -- incorp_taxa(k | [k], values), in place, inherited
  | concat (vs : List (BV α))          -- type(self).concat_taxa([self] ++ vs), inherited

/-- the copy-on-manipulation methods the breeding-value class defines itself -/
def Op.restandardises : Op α → Bool
  | .select _ | .delete _ | .insert _ _ | .insertMany _ _ | .adjoin _ => true
  | _ => false

/-- operations after which `unscale()` still returns every retained taxon's raw values -/
def Op.keepsRaw : Op α → Bool
  | .select _ | .delete _ | .insert _ _ | .insertMany _ _ | .adjoin _ | .reorder _ | .remove _ => true
  | _ => false

/-- the same edit on raw data: what the property says the operation *means* -/
def applyRaw (op : Op α) (r : Raw α) : Except Err (Raw α) :=
  let n := r.2.length
  let t := r.1.length
  match op with
  | .select idx | .reorder idx =>
      if idx.all (· < n) then .ok (r.1.map (Np.take idx), Np.take idx r.2) else .error .index
  | .delete idx | .remove idx =>
      if idx.all (· < n) then .ok (r.1.map (Np.delete idx), Np.delete idx r.2) else .error .index
  | .insert k v | .incorp k v =>
      if v.values.length ≠ t then .error .shape
      else if n < k then .error .index
      else .ok (List.zipWith (fun c w => Np.insert k w c) r.1 v.values, Np.insert k v.taxa r.2)
  | .insertMany ks v =>
      if v.values.length ≠ t then .error .shape
      else if !(ks.all (· ≤ n)) then .error .index
      else if ks.length ≠ v.taxa.length then .error .shape
      else if !(LabelMat.isSorted ks) then .error .unsupported
      else .ok (List.zipWith (fun c w => LabelMat.insertMany ks w c) r.1 v.values,
                LabelMat.insertMany ks v.taxa r.2)
  | .adjoin v | .append v =>
      if v.values.length ≠ t then .error .shape
      else .ok (List.zipWith (· ++ ·) r.1 v.values, r.2 ++ v.taxa)
  | .concat vs =>
      if vs.all (fun b => b.traits.length == t) then
        .ok (vs.foldl (fun acc b => List.zipWith (· ++ ·) acc (unscale b)) r.1,
             vs.foldl (fun acc b => acc ++ b.taxa) r.2)
      else .error .shape

/-- the operation as the code performs it.
    `needsLocScale` = the class is Dense(Genomic)EstimatedBreedingValueMatrix, whose constructor has
    no default for `location`/`scale`, so the inherited `concat_taxa` (which calls
    `cls(mat=…, taxa=…, taxa_grp=…, trait=…)`) raises TypeError. -/
def applyOp (sq : α → α) (needsLocScale : Bool) (op : Op α) (b : BV α) : Except Err (BV α) :=
  let n := b.taxa.length
  let t := b.traits.length
  match op with
  | .select idx =>
      if idx.all (· < n) then .ok (fromNumpy sq ((unscale b).map (Np.take idx)) (Np.take idx b.taxa))
      else .error .index
  | .delete idx =>
      if idx.all (· < n) then .ok (fromNumpy sq ((unscale b).map (Np.delete idx)) (Np.delete idx b.taxa))
      else .error .index
  | .insert k v =>
      if v.values.length ≠ t then .error .shape
      else if n < k then .error .index
      else .ok (fromNumpy sq (List.zipWith (fun c w => Np.insert k w c) (unscale b) v.values)
                  (Np.insert k v.taxa b.taxa))
  | .insertMany ks v =>
      if v.values.length ≠ t then .error .shape
      else if !(ks.all (· ≤ n)) then .error .index
      else if ks.length ≠ v.taxa.length then .error .shape
      else if !(LabelMat.isSorted ks) then .error .unsupported
      else .ok (fromNumpy sq (List.zipWith (fun c w => LabelMat.insertMany ks w c) (unscale b) v.values)
                  (LabelMat.insertMany ks v.taxa b.taxa))
  | .adjoin v =>
      if v.values.length ≠ t then .error .shape
      else .ok (fromNumpy sq (List.zipWith (· ++ ·) (unscale b) v.values) (b.taxa ++ v.taxa))
  | .reorder idx =>
      if idx.all (· < n) then
        .ok { traits := b.traits.map (fun tr => { tr with mat := Np.take idx tr.mat }),
              taxa := Np.take idx b.taxa }
      else .error .index
  | .remove idx =>
      if idx.all (· < n) then
        .ok { traits := b.traits.map (fun tr => { tr with mat := Np.delete idx tr.mat }),
              taxa := Np.delete idx b.taxa }
      else .error .index
  | .append v =>
      if v.stored.length ≠ t then .error .shape
      else .ok { traits := List.zipWith (fun tr w => { tr with mat := tr.mat ++ w }) b.traits v.stored,
                 taxa := b.taxa ++ v.taxa }
  | .incorp k v =>
      if v.stored.length ≠ t then .error .shape
      else if n < k then .error .index
      else .ok { traits := List.zipWith (fun tr w => { tr with mat := Np.insert k w tr.mat }) b.traits v.stored,
                 taxa := Np.insert k v.taxa b.taxa }
  | .concat vs =>
      if !(vs.all (fun o => o.traits.length == t)) then .error .shape
      else if needsLocScale then .error .type
      else
        -- numpy.concatenate([m.mat for m in mats]); location = 0.0, scale = 1.0 (constructor defaults)
        .ok { traits := (vs.foldl (fun acc o => List.zipWith (· ++ ·) acc (o.traits.map (·.mat)))
                            (b.traits.map (·.mat))).map
                          (fun m => { mat := m, loc := some 0, scale := some 1 }),
              taxa := vs.foldl (fun acc o => acc ++ o.taxa) b.taxa }

/-- a history of operations applied one after the other -/
def run (sq : α → α) (needsLocScale : Bool) : List (Op α) → BV α → Except Err (BV α)
  | [], b => .ok b
  | op :: ops, b => match applyOp sq needsLocScale op b with
    | .ok b' => run sq needsLocScale ops b'
    | .error e => .error e

def runRaw : List (Op α) → Raw α → Except Err (Raw α)
  | [], r => .ok r
  | op :: ops, r => match applyRaw op r with
    | .ok r' => runRaw ops r'
    | .error e => .error e

/-! #### numpy index objects (front end)

The four methods the class defines hand their index argument to `numpy.take / delete / insert`.
`OpIx` carries that argument as the caller wrote it (negative positions, slices, boolean masks,
several insert positions); `OpIx.norm` applies numpy's normalisation rules — those of C03,
`LabelMat.normIdxs / DelIdx.norm / insPlan` — for the current number of taxa and yields the
operation in the non-negative list form above. -/

inductive OpIx (α : Type) where
  | select (is : List Int)                               -- select_taxa(indices)
  | delete (obj : LabelMat.DelIdx)                       -- delete_taxa(obj)
  | insert (obj : LabelMat.InsIdx) (v : Operand α)       -- insert_taxa(obj, values)
  | plain (op : Op α)                                    -- anything already in list form

def errOfLabel : LabelMat.Err → Err
  | .index => .index
  | .type => .type
  | .unsupported => .unsupported
  | _ => .shape

/-- a one-row operand broadcast to `k` rows (numpy.insert with several positions and one value) -/
def Operand.rep (k : Nat) (v : Operand α) : Operand α :=
  .nd (v.values.map (fun c => c.flatMap (List.replicate k))) (v.taxa.flatMap (List.replicate k))

def OpIx.norm (n : Nat) : OpIx α → Except Err (Op α)
  | .select is => match LabelMat.normIdxs n is with
    | .ok idx => .ok (.select idx)
    | .error e => .error (errOfLabel e)
  | .delete obj => match obj.norm n with
    | .ok idx => .ok (.delete idx)
    | .error e => .error (errOfLabel e)
  | .insert obj v => match LabelMat.insPlan n v.taxa.length obj with
    | .ok (.scalar p) => .ok (.insert p v)
    | .ok (.block p) => .ok (.insert p v)
    | .ok (.many ps) => .ok (.insertMany ps v)
    | .ok (.manyRep ps) => .ok (.insertMany ps (v.rep ps.length))
    | .error e => .error (errOfLabel e)
  | .plain op => .ok op

def runIx (sq : α → α) (needsLocScale : Bool) : List (OpIx α) → BV α → Except Err (BV α)
  | [], b => .ok b
  | o :: os, b => match o.norm b.taxa.length with
    | .error e => .error e
    | .ok op => match applyOp sq needsLocScale op b with
      | .ok b' => runIx sq needsLocScale os b'
      | .error e => .error e

def runRawIx : List (OpIx α) → Raw α → Except Err (Raw α)
  | [], r => .ok r
  | o :: os, r => match o.norm r.2.length with
    | .error e => .error e
    | .ok op => match applyRaw op r with
      | .ok r' => runRawIx os r'
      | .error e => .error e

/-- the operations of the front end that the breeding-value class defines itself -/
def OpIx.restandardises : OpIx α → Bool
  | .plain op => op.restandardises
  | _ => true

/-! #### the proposed overrides for D23–D25 (NOT the code as it is; used by the `repaired_*` theorems)

`append_taxa`, `incorp_taxa`, `remove_taxa` delegate to `adjoin_taxa`, `insert_taxa`, `delete_taxa` and
adopt the result in place; `concat_taxa` unscales every matrix, concatenates and calls `from_numpy`
(which also exists for the estimated classes, so nothing raises).  `reorder_taxa` is not touched. -/
def applyOpRepaired (sq : α → α) (op : Op α) (b : BV α) : Except Err (BV α) :=
  match op with
  | .append v => applyOp sq false (.adjoin v) b
  | .incorp k v => applyOp sq false (.insert k v) b
  | .remove idx => applyOp sq false (.delete idx) b
  | .concat vs =>
      if vs.all (fun o => o.traits.length == b.traits.length) then
        .ok (fromNumpy sq (vs.foldl (fun acc o => List.zipWith (· ++ ·) acc (unscale o)) (unscale b))
                         (vs.foldl (fun acc o => acc ++ o.taxa) b.taxa))
      else .error .shape
  | op => applyOp sq false op b

def runRepaired (sq : α → α) : List (Op α) → BV α → Except Err (BV α)
  | [], b => .ok b
  | op :: ops, b => match applyOpRepaired sq op b with
    | .ok b' => runRepaired sq ops b'
    | .error e => .error e

/-- the repaired operations behind numpy's index objects -/
def runRepairedIx (sq : α → α) : List (OpIx α) → BV α → Except Err (BV α)
  | [], b => .ok b
  | o :: os, b => match o.norm b.taxa.length with
    | .error e => .error e
    | .ok op => match applyOpRepaired sq op b with
      | .ok b' => runRepairedIx sq os b'
      | .error e => .error e

/-- the documented contract of `reorder_taxa(indices)`: `indices` is a permutation of the taxa
    (of a rectangular matrix); every other operation is constrained by `applyRaw` only -/
def Op.validAt (op : Op α) (r : Raw α) : Prop :=
  match op with
  | .reorder idx => idx.Perm (List.range r.2.length) ∧ ∀ c ∈ r.1, c.length = r.2.length
  | _ => True

/-- every operation of the history is a valid request in the state it is applied to -/
def ValidHistory : List (Op α) → Raw α → Prop
  | [], _ => True
  | op :: ops, r => op.validAt r ∧
      match applyRaw op r with
      | .ok r' => ValidHistory ops r'
      | .error _ => True

/-- the same for a history written with numpy's index objects (normalised for the current number of taxa) -/
def ValidHistoryIx : List (OpIx α) → Raw α → Prop
  | [], _ => True
  | o :: os, r =>
      match o.norm r.2.length with
      | .error _ => True
      | .ok op => op.validAt r ∧
          match applyRaw op r with
          | .ok r' => ValidHistoryIx os r'
          | .error _ => True

end matrix

/-! ### DenseScaledMatrix (generic scaled matrix, trailing axis = columns here) -/
section scaled
variable {α : Type} [Add α] [Sub α] [Mul α] [Div α] [OfNat α 0] [OfNat α 1] [NatCast α]
  [DecidableEq α] [LT α] [DecidableLT α]

/-- `out -= location; out *= (1.0 / scale)` -/
def transformEntry (loc scale x : Option α) : Option α := omul (osub x loc) (orecip scale)
/-- `out *= scale; out += location` -/
def untransformEntry (loc scale x : Option α) : Option α := oadd (omul x scale) loc

def transformCol (t : Trait α) (x : Col α) : Col α := x.map (transformEntry t.loc t.scale)
def untransformCol (t : Trait α) (x : Col α) : Col α := x.map (untransformEntry t.loc t.scale)

/-- `DenseScaledMatrix.unscale(inplace=False)` -/
def scaledUnscaleCol (t : Trait α) : Col α := untransformCol t t.mat

/-- `DenseScaledMatrix.rescale` (as of the fix of D26): the returned matrix with the new location and scale
    (stored when `inplace=True`); the same `const` guard as `from_numpy`, over all leading axes -/
def rescaleCol (sq : α → α) (t : Trait α) : Trait α :=
  let out := scaledUnscaleCol t
  let loc := fitLoc out
  let scale := fitScale sq out
  { mat := out.map (transformEntry loc scale), loc := loc, scale := scale }

/-- `rescale` BEFORE the fix of D26.  Not the code as it is. -/
def rescaleColPrerepair (sq : α → α) (t : Trait α) : Trait α :=
  let out := scaledUnscaleCol t
  let loc := nanmean out
  let scale := (nanstd sq out).map guardScale
  { mat := out.map (transformEntry loc scale), loc := loc, scale := scale }

/-- `DenseScaledMatrix.unscale(inplace=True)`: `scale[:] = 1.0; location[:] = 0.0` -/
def unscaleInplaceCol (t : Trait α) : Trait α :=
  { mat := scaledUnscaleCol t, loc := some 0, scale := some 1 }

end scaled

/-! ### the square root the driver runs with -/

/-- rational square root, rounded down at 30 decimal digits (exact on perfect squares) -/
def ratSqrt (q : Rat) : Rat :=
  if q ≤ 0 then 0 else
    let k : Nat := 10 ^ 30
    mkRat (Nat.sqrt (q.num.toNat * q.den * k * k)) (q.den * k)

end BVMat
