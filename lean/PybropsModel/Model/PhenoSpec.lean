/-
Decidable Spec oracles of C14 (evaluated by the driver on the IMPLEMENTATION's outputs) and the model of the
configuration object of `G_E_Phenotyping` (constructor + public setters, the arguments handed to
`multivariate_normal`).  Core Lean only.  Soundness (`the model's output satisfies the Spec`) and the link between each
Bool oracle and the Prop it decides are proved in Lemmas/PhenoSpecSound.lean, Lemmas/PhenoConfig.lean.
-/
import PybropsModel.Model.Pheno

namespace Pheno

/-! ### tolerant comparison over `Rat` (the implementation computes in binary64) -/

def rabs (q : Rat) : Rat := if q < 0 then -q else q
def rmax (a b : Rat) : Rat := if a < b then b else a

/-- `|a - b| ≤ tol` -/
def within (tol a b : Rat) : Bool := decide (rabs (a - b) ≤ tol)

/-- default comparison: absolute 1e-12 or relative 1e-9 -/
def close (a b : Rat) : Bool :=
  within ((1 : Rat) / 1000000000000) a b || within (((1 : Rat) / 1000000000) * rmax (rabs a) (rabs b)) a b

/-- purely relative comparison (1e-9 of the larger magnitude); `0` only matches `0` -/
def closeRel (a b : Rat) : Bool := within (((1 : Rat) / 1000000000) * rmax (rabs a) (rabs b)) a b

/-- largest magnitude of a list (0 for the empty list) -/
def maxAbs (l : List Rat) : Rat := l.foldl (fun m x => rmax m (rabs x)) 0

/-- multiset equality of two lists: equal as lists (the usual case, linear), or equal counts (quadratic) -/
def msetEq {β} [BEq β] (a b : List β) : Bool :=
  a == b || (a.length == b.length && a.all (fun x => a.count x == b.count x))

/-! ### the field-trial clause -/

abbrev RowQ := Rec String Int Rat

/-- the `(env, rep)` cells of a layout, 1-based, environment-major -/
def cellsFrom : Nat → List Nat → List (Nat × Nat)
  | _, [] => []
  | e, k :: ks => (List.range k).map (fun r => (e + 1, r + 1)) ++ cellsFrom (e + 1) ks

/-- what a noiseless trial must return: per cell, every taxon's labels with its true value -/
def expectRows (gv : List (List Rat)) (labs : List (String × Option Int)) (nrep : List Nat) : List RowQ :=
  (cellsFrom 0 nrep).flatMap (fun c =>
    List.zipWith (fun (l : String × Option Int) g => { taxa := l.1, grp := l.2, env := c.1, rep := c.2, vals := g }) labs gv)

/-- the label part of a record -/
structure CellKey where
  taxa : String
  grp : Option Int
  env : Nat
  rep : Nat
deriving DecidableEq, Repr

def rowKey (r : RowQ) : CellKey := ⟨r.taxa, r.grp, r.env, r.rep⟩

def specPhenoCount (n : Nat) (nrep : List Nat) (rows : List RowQ) : Bool :=
  rows.length == n * (cellsFrom 0 nrep).length

/-- named population: the multiset of `(taxa, taxa_grp, env, rep)` over the rows is the multiset of
    `(taxa[i], taxa_grp[i], e+1, r+1)` over all `i < n`, `e < nenv`, `r < nrep[e]` -/
def specPhenoKeys (gv : List (List Rat)) (labs : List (String × Option Int)) (nrep : List Nat) (rows : List RowQ) : Bool :=
  msetEq (rows.map rowKey) ((expectRows gv labs nrep).map rowKey)

/-- zero noise: every record equals the true genotypic value of its taxon, exactly -/
def specPhenoVals (gv : List (List Rat)) (labs : List (String × Option Int)) (nrep : List Nat) (rows : List RowQ) : Bool :=
  msetEq rows (expectRows gv labs nrep)

/-- unnamed population: every cell holds `n` rows with pairwise distinct names, the same names (and the population's
    group labels) in every cell -/
def specPhenoKeysUnnamed (n : Nat) (grp : Option (List Int)) (nrep : List Nat) (rows : List RowQ) : Bool :=
  let cell (c : Nat × Nat) := rows.filter (fun r => r.env == c.1 && r.rep == c.2)
  let names0 := (cell (1, 1)).map (·.taxa)
  let grpAt (i : Nat) : Option Int := grp.bind (·[i]?)
  (cellsFrom 0 nrep).all (fun c =>
    let rs := cell c
    rs.length == n && (rs.map (·.taxa)).eraseDups.length == n && msetEq (rs.map (·.taxa)) names0
      && msetEq (rs.map (·.grp)) ((List.range n).map grpAt))

def specPhenoValsUnnamed (gv : List (List Rat)) (nrep : List Nat) (rows : List RowQ) : Bool :=
  let cell (c : Nat × Nat) := rows.filter (fun r => r.env == c.1 && r.rep == c.2)
  (cellsFrom 0 nrep).all (fun c => msetEq ((cell c).map (·.vals)) gv)
    && (rows.map (fun r => (r.taxa, r.vals))).eraseDups.length == gv.length

/-- Spec of the field-trial clause.  `rows` = the data frame returned by the real `phenotype()`, `nrep` = the layout the
    configuration asks for. -/
def specPheno (gv : List (List Rat)) (taxa : Option (List String)) (grp : Option (List Int))
    (nrep : List Nat) (zeroNoise : Bool) (rows : List RowQ) : Bool :=
  specPhenoCount gv.length nrep rows &&
  match taxa with
  | some tx => specPhenoKeys gv (labels tx grp) nrep rows && (!zeroNoise || specPhenoVals gv (labels tx grp) nrep rows)
  | none => specPhenoKeysUnnamed gv.length grp nrep rows && (!zeroNoise || specPhenoValsUnnamed gv nrep rows)

/-! ### the noise-structure oracle: `record − true value = environment effect + replicate effect + iid error`, read
component by component.  A component whose variance is zero is absent (`N(0,0)` is the point mass); a component with
positive variance is a continuous variate, so with a genuine generator its values are almost surely pairwise distinct. -/

/-- the residuals `record − true value` of ONE trait in one (environment, replicate) cell, taxon by taxon -/
structure ResCell where
  env : Nat
  rep : Nat
  res : List Rat
deriving Repr

/-- every entry within `tol` of the first one -/
def nearConst (tol : Rat) : List Rat → Bool
  | [] => true
  | a :: l => l.all (fun x => within tol x a)

/-- the residual shared by the taxa of a cell (its first entry) -/
def cellConst (c : ResCell) : Rat := c.res.headD 0

/-- one shared residual per environment (that of its first cell) -/
def envConsts (cells : List ResCell) : List Rat :=
  (cells.map (·.env)).eraseDups.map (fun e => ((cells.find? (fun c => c.env == e)).map cellConst).getD 0)

/-- one trait with variances `ve, vr, vx`:
    * `vx = 0`: the taxa of a cell share one residual; if `vr = 0` too the cells of an environment share it; if `ve = 0` too
      it is zero (all up to `tol`, the rounding of the binary64 sums);
    * with a genuine generator: `vx > 0` ⇒ all residuals pairwise distinct; else `vr > 0` ⇒ the cell residuals pairwise
      distinct; else `ve > 0` ⇒ the environment residuals pairwise distinct. -/
def specNoiseTrait (tol ve vr vx : Rat) (genuine : Bool) (cells : List ResCell) : Bool :=
  if vx = 0 then
    cells.all (fun c => nearConst tol c.res) &&
    (if vr = 0 then
      cells.all (fun c => cells.all (fun c' => c.env != c'.env || within tol (cellConst c) (cellConst c'))) &&
      (if ve = 0 then cells.all (fun c => c.res.all (fun x => within tol x 0))
       else !genuine || decide (envConsts cells).Nodup)
     else !genuine || decide (cells.map cellConst).Nodup)
  else !genuine || decide (cells.flatMap (·.res)).Nodup

/-- all traits: `cells[j]` are the residual cells of trait `j` -/
def specNoise (tol : Rat) (ve vr vx : List Rat) (genuine : Bool) (cells : List (List ResCell)) : Bool :=
  cells.length == ve.length && ve.length == vr.length && vr.length == vx.length &&
  (List.zip cells (List.zip ve (List.zip vr vx))).all
    (fun x => specNoiseTrait tol x.2.1 x.2.2.1 x.2.2.2 genuine x.1)

/-! ### the heritability clause -/

/-- one trait: the error variance is a variance (`≥ 0`); when there is genetic variance, genetic over genetic-plus-error
    variance equals the target — tested in the equivalent form `var_err = (1 - h2)/h2 · var_A` with a RELATIVE tolerance
    (the ratio form cannot tell `h2 = 1 - 1e-10` from `1`), and as the ratio itself -/
def specH2One (h a e : Rat) : Bool :=
  decide (0 ≤ e) && (!(decide (0 < a)) || (close (heritability a e) h && closeRel e (errVar h a)))

def specH2 (h2 varA varE : List Rat) : Bool :=
  h2.length == varA.length && varA.length == varE.length &&
    (List.zip h2 (List.zip varA varE)).all (fun x => specH2One x.1 x.2.1 x.2.2)

/-! ### the breeding-value clause -/

/-- per-trait absolute tolerance of the mean comparison: 1e-12 of the largest magnitude in that trait column of the table
    (binary64 summation and the scale / unscale round trip of the breeding-value matrix err by a few ulp of the largest
    operand; a tolerance relative to the result would be wrong under cancellation, a fixed one under large offsets) -/
def tolOf (t : Nat) (vals : List (List Rat)) : List Rat :=
  (List.range t).map (fun j => ((1 : Rat) / 1000000000000) * maxAbs (vals.filterMap (fun r => r[j]?)))

/-- one output row against the records of its taxon: mean per trait, or missing everywhere when there is no record -/
def specMeanRow (tol : List Rat) (t : Nat) (mine : List (List Rat)) (out : List (Option Rat)) : Bool :=
  out.length == t &&
  if mine.isEmpty then out.all Option.isNone
  else (List.zip out (List.zip (colMeans t mine) tol)).all (fun ow =>
    match ow.1 with
    | some o => within ow.2.2 o ow.2.1
    | none => false)

def specMeanRows (recs : List RowQ) (t : Nat) (names : List String) (outRows : List (List (Option Rat))) : Bool :=
  let tol := tolOf t (recs.map (·.vals))
  outRows.length == names.length &&
  (List.zip names outRows).all (fun nr =>
    specMeanRow tol t ((recs.filter (fun r => r.taxa == nr.1)).map (·.vals)) nr.2)

/-- Spec of the breeding-value clause with a genotype matrix.  Taxon = name.  Labels: `out.taxa = gtobj.taxa`,
    `out.taxa_grp = gtobj.taxa_grp`, `out.trait = trait_cols`; rows: mean or missing. -/
def specMeanBV (recs : List RowQ) (t : Nat) (gtTaxa : List String) (gtGrp : Option (List Int)) (traits : List String)
    (outTaxa : List String) (outGrp : Option (List Int)) (outTrait : List String)
    (outRows : List (List (Option Rat))) : Bool :=
  (outTaxa == gtTaxa && outGrp == gtGrp && outTrait == traits) && specMeanRows recs t gtTaxa outRows

/-- without genotype matrix: one row per distinct taxon name, each the mean over its records -/
def specMeanBVNoGt (recs : List RowQ) (t : Nat) (outTaxa : List String) (outRows : List (List (Option Rat))) : Bool :=
  msetEq outTaxa (recs.map (·.taxa)).eraseDups && specMeanRows recs t outTaxa outRows

/-! #### tables with missing values -/

abbrev RowN := Rec String Int (Option Rat)

/-- one entry with NaN cells among the taxon's records:
    * no record of the taxon has a value (in particular: no record at all) ⇒ missing;
    * every record has a value ⇒ their arithmetic mean;
    * some records lack the value ⇒ the property text does not say whether the mean skips them or is missing: the mean over
      the records that have a value, or missing (the correspondence pins it to pandas' skip-NaN behaviour). -/
def specNanEntry (tol : Rat) (cells : List (Option Rat)) (out : Option Rat) : Bool :=
  let present := cells.filterMap id
  if present.isEmpty then out.isNone
  else match out with
    | some o => within tol o (mean present)
    | none => present.length != cells.length

def specMeanRowsNan (recs : List RowN) (t : Nat) (names : List String) (outRows : List (List (Option Rat))) : Bool :=
  let tol := tolOf t (recs.map (fun r => r.vals.map (fun v => v.getD 0)))
  outRows.length == names.length && outRows.all (fun r => r.length == t) &&
  (List.zip names outRows).all (fun nr =>
    let mine := (recs.filter (fun r => r.taxa == nr.1)).map (·.vals)
    (List.range t).all (fun j => specNanEntry (tol.getD j 0) (mine.map (fun v => (v[j]?).join)) ((nr.2[j]?).join)))

def specMeanBVNan (recs : List RowN) (t : Nat) (gtTaxa : List String) (gtGrp : Option (List Int)) (traits : List String)
    (outTaxa : List String) (outGrp : Option (List Int)) (outTrait : List String)
    (outRows : List (List (Option Rat))) : Bool :=
  (outTaxa == gtTaxa && outGrp == gtGrp && outTrait == traits) && specMeanRowsNan recs t gtTaxa outRows

def specMeanBVNanNoGt (recs : List RowN) (t : Nat) (outTaxa : List String) (outRows : List (List (Option Rat))) : Bool :=
  msetEq outTaxa (recs.map (·.taxa)).eraseDups && specMeanRowsNan recs t outTaxa outRows

/-! ### the configuration object of `G_E_Phenotyping`: constructor and public setters (l.116-122, l.192-295) -/

/-- `nenv`, the stored replicate ARRAY, the three stored variance vectors -/
structure Cfg (α : Type) where
  nenv : Nat
  nrep : List Nat
  varEnv : List α
  varRep : List α
  varErr : List α
deriving Repr, DecidableEq

/-- a variance argument: `None`, a real number, or an array -/
inductive VarArg (α : Type) where
  | none
  | scalar (x : α)
  | array (l : List α)
deriving Repr

inductive CfgOp (α : Type) where
  | setNenv (n : Nat)
  | setNrep (x : Nat ⊕ List Nat)
  | setVarEnv (v : VarArg α)
  | setVarRep (v : VarArg α)
  | setVarErr (v : VarArg α)
deriving Repr

section cfg
variable {α : Type} [OfNat α 0] [LT α] [DecidableLT α]

/-- the `var_*` setters: `None ↦ zeros(ntrait)`, a number is broadcast, an array must have `ntrait` entries; negative
    entries are rejected -/
def varSetter (ntrait : Nat) : VarArg α → Option (List α)
  | .none => some (List.replicate ntrait 0)
  | .scalar x => if x < 0 then none else some (List.replicate ntrait x)
  | .array l => if l.length == ntrait && l.all (fun x => !(decide (x < 0))) then some l else none

/-- one setter call on a constructed object (`none`: the setter raises and the object is unchanged — modelled as the whole
    history failing).  `setNenv` (repaired, fix of D60) stores the number and makes the replicate array follow
    (`nrepFollow`: truncate / re-broadcast a constant array / leave a non-constant one alone);
    `setNrep` broadcasts / checks against the CURRENT `nenv`. -/
def cfgStep (ntrait : Nat) (c : Cfg α) : CfgOp α → Option (Cfg α)
  | .setNenv n => if 0 < n then some { c with nenv := n, nrep := nrepFollow n c.nrep } else none
  | .setNrep x => (nrepSetter c.nenv x).map (fun l => { c with nrep := l })
  | .setVarEnv v => (varSetter ntrait v).map (fun l => { c with varEnv := l })
  | .setVarRep v => (varSetter ntrait v).map (fun l => { c with varRep := l })
  | .setVarErr v => (varSetter ntrait v).map (fun l => { c with varErr := l })

/-- the setters BEFORE the repair of D60: `setNenv` stored the number and NOTHING ELSE -/
def cfgStepPrerepair (ntrait : Nat) (c : Cfg α) : CfgOp α → Option (Cfg α)
  | .setNenv n => if 0 < n then some { c with nenv := n } else none
  | op => cfgStep ntrait c op

/-- the constructor (order-dependent assignments l.116-121) -/
def cfgInit (ntrait nenv : Nat) (nrep : Nat ⊕ List Nat) (ve vr vx : VarArg α) : Option (Cfg α) :=
  if 0 < nenv then
    match nrepSetter nenv nrep, varSetter ntrait ve, varSetter ntrait vr, varSetter ntrait vx with
    | some l, some a, some b, some c => some { nenv := nenv, nrep := l, varEnv := a, varRep := b, varErr := c }
    | _, _, _, _ => none
  else none

def cfgRun (ntrait : Nat) : Cfg α → List (CfgOp α) → Option (Cfg α)
  | c, [] => some c
  | c, op :: ops => (cfgStep ntrait c op).bind (fun c' => cfgRun ntrait c' ops)

def cfgRunPrerepair (ntrait : Nat) : Cfg α → List (CfgOp α) → Option (Cfg α)
  | c, [] => some c
  | c, op :: ops => (cfgStepPrerepair ntrait c op).bind (fun c' => cfgRunPrerepair ntrait c' ops)

/-- the layout `phenotype()` walks through: `zip(range(nenv), nrep)` -/
def Cfg.layout (c : Cfg α) : List Nat := c.nrep.take c.nenv

/-- one call of `rng.multivariate_normal(mean, cov, size)`: the diagonal of `cov` (off-diagonal entries are 0 by
    `numpy.diag`), `size` (`none` = a `(t,)` draw, `some n` = `(n,t)`); the mean is always the zero vector -/
structure DrawCall (α : Type) where
  covDiag : List α
  size : Option Nat
deriving Repr, DecidableEq

/-- the sequence of generator calls of one `phenotype()` (l.415-428): per environment one `(t,)` draw with
    `diag(var_env)`, per replicate one `(t,)` draw with `diag(var_rep)` and one `(ntaxa,t)` draw with `diag(var_err)` -/
def drawPlan (c : Cfg α) (ntaxa : Nat) : List (DrawCall α) :=
  c.layout.flatMap (fun k =>
    { covDiag := c.varEnv, size := none } ::
      (List.replicate k [{ covDiag := c.varRep, size := none }, { covDiag := c.varErr, size := some ntaxa }]).flatten)

end cfg

end Pheno
