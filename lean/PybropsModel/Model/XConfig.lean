/-
Model of the path  "chosen decision  ->  cross configuration"  of the selection protocols (C07).

Anchors (pybrops as it is now):
  core/random/sampling.py          tiled_choice, outcross_shuffle, axis_shuffle
  breed/prot/sel/cfg/*.py          sample_xconfig of the Subset / Integer / Binary / Real and the
                                   SubsetMate / IntegerMate / BinaryMate / RealMate configurations
  core/util/array.py               triuix, triudix, xmapix
  opt/algo/SortingSubsetOptimizationAlgorithm.py   minimize
  breed/prot/sel/*SelectionProtocol.py             select (single- and multi-objective branch)

Randomness is an explicit oracle input (DESIGN 4.2): every `rng.choice` / `rng.shuffle` result the
code consumes is an argument of the model, in call order.  `stochastic_universal_sampling` is NOT
re-modelled here (it is C17's); the real-valued configurations take its *result* as an oracle input.
Core Lean only; executed by the driver, reasoned about in Lemmas/XConfig*.lean.
-/
import PybropsModel.Np
import PybropsModel.Model.Sampling

namespace XConfig

abbrev Rows := List (List Nat)
abbrev Pos := Nat × Nat

/-! ### tiled_choice(a, size, replace=False) -/

/-- `tiled_choice(a, size = N, replace = False)`:
    `qu, re = divmod(N, len(a))`, `qu` whole copies of `a`, then `rem = rng.choice(a, re, False)`,
    then `rng.shuffle(out)` (oracle `perm`: new[i] = old[perm[i]]).
    `len(a) = 0` is the code's `ZeroDivisionError`. -/
def tiledChoice {α} (a : List α) (N : Nat) (rem : List α) (perm : List Nat) : Except String (List α) :=
  if a.length = 0 then .error "value"
  else .ok (Np.take perm (Np.tile (N / a.length) a ++ rem))

/-- `numpy.repeat(numpy.arange(len(decn)), decn)` of the Integer / Binary configurations -/
def options (decn : List Nat) : List Nat := Np.repeatEach decn (List.range decn.length)

/-! ### reshape, the self-pairing score, exchanges -/

/-- `out.reshape((nc, np))` in C order -/
def reshape : Nat → Nat → List Nat → Rows
  | 0, _, _ => []
  | nc+1, np, l => l.take np :: reshape nc np (l.drop np)

/-- `sum(c - 1)` over `numpy.unique(xrow, return_counts=True)`: entries of one cross that repeat an
    entry of the same cross (row length minus number of distinct values) -/
def dupCount : List Nat → Nat
  | [] => 0
  | a :: l => (if l.contains a then 1 else 0) + dupCount l

/-- `objfn(xconfig)` of outcross_shuffle: the number of self-pairings of the configuration -/
def selfPairs (rows : Rows) : Nat := (rows.map dupCount).sum

/-- position in the `(nc, np)` array of index `i` of the ravelled view -/
def posOf (np i : Nat) : Pos := (i / np, i % np)

def get2 (rows : Rows) (p : Pos) : Nat := (rows.getD p.1 []).getD p.2 0
def set2 (rows : Rows) (p : Pos) (v : Nat) : Rows := rows.modify p.1 (fun r => r.set p.2 v)

/-- `xravel[i], xravel[j] = xravel[j], xravel[i]` -/
def swap2 (rows : Rows) (p q : Pos) : Rows :=
  set2 (set2 rows p (get2 rows q)) q (get2 rows p)

/-- `exchix = [[i,j] for i in range(N) for j in range(i+1, N)]` -/
def exchPairs (N : Nat) : List (Nat × Nat) :=
  (List.range N).flatMap (fun i => (List.range (N - (i+1))).map (fun d => (i, i+1+d)))

/-- the successive states of `exchix`: every `while` iteration does `rng.shuffle(exchix)` in place
    (oracle `perm`, new[i] = old[perm[i]]), so each order is a shuffle of the previous one -/
def shuffledPairs : List (Nat × Nat) → List (List Nat) → List (List (Nat × Nat))
  | _, [] => []
  | cur, perm :: rest => Np.take perm cur :: shuffledPairs (Np.take perm cur) rest

/-- ravel indices turned into array positions -/
def toPosOrder (np : Nat) (order : List (Nat × Nat)) : List (Pos × Pos) :=
  order.map (fun ij => (posOf np ij.1, posOf np ij.2))

/-- the exchange orders of all `while` iterations -/
def ordersOf (np N : Nat) (perms : List (List Nat)) : List (List (Pos × Pos)) :=
  (shuffledPairs (exchPairs N) perms).map (toPosOrder np)

/-- one pass of `for i,j in exchix`: the first exchange whose score is strictly lower -/
def firstImproving (rows : Rows) (order : List (Pos × Pos)) : Option (Pos × Pos) :=
  order.find? (fun pq => decide (selfPairs (swap2 rows pq.1 pq.2) < selfPairs rows))

/-- `outcross_shuffle`: the `while iterate` loop; one oracle exchange order per iteration.
    `none` = the supplied orders ran out before a pass without improvement was seen. -/
def outcross : List (List (Pos × Pos)) → Rows → Option Rows
  | [], _ => none
  | ord :: rest, rows =>
    match firstImproving rows ord with
    | some pq => outcross rest (swap2 rows pq.1 pq.2)
    | none => some rows

/-- `axis_shuffle(out, 0)`: `rng.shuffle(out[i])` for every cross `i` (oracle: one permutation each) -/
def axisShuffle (perms : List (List Nat)) (rows : Rows) : Rows := List.zipWith Np.take perms rows

/-! ### sample_xconfig of the individual-based configurations -/

/-- common tail of the four `sample_xconfig`: reshape, outcross_shuffle, axis_shuffle -/
def arrange (flat : List Nat) (nc np : Nat) (orders : List (List Nat)) (rowperms : List (List Nat)) :
    Except String Rows :=
  match outcross (ordersOf np (nc * np) orders) (reshape nc np flat) with
  | none => .error "orders exhausted"
  | some rows => .ok (axisShuffle rowperms rows)

/-- SubsetSelectionConfiguration.sample_xconfig -/
def sampleSubset (decn : List Nat) (nc np : Nat) (rem : List Nat) (perm : List Nat)
    (orders rowperms : List (List Nat)) : Except String Rows := do
  let flat ← tiledChoice decn (nc * np) rem perm
  arrange flat nc np orders rowperms

/-- IntegerSelectionConfiguration / BinarySelectionConfiguration.sample_xconfig -/
def sampleInteger (decn : List Nat) (nc np : Nat) (rem : List Nat) (perm : List Nat)
    (orders rowperms : List (List Nat)) : Except String Rows :=
  sampleSubset (options decn) nc np rem perm orders rowperms

/-- RealSelectionConfiguration.sample_xconfig; `sus` = what stochastic_universal_sampling returned
    before the reshape (a wrong number of pointers is the code's reshape `ValueError`) -/
def sampleReal (sus : List Nat) (nc np : Nat) (orders rowperms : List (List Nat)) : Except String Rows :=
  if sus.length ≠ nc * np then .error "value" else arrange sus nc np orders rowperms

/-! ### sample_xconfig of the mate-selection configurations -/

/-- `xconfig_xmap[out, :]` (an index outside the map is numpy's IndexError) -/
def lookup (xmap : Rows) : List Nat → Except String Rows
  | [] => .ok []
  | d :: t =>
    match xmap[d]?, lookup xmap t with
    | some r, .ok rs => .ok (r :: rs)
    | none, _ => .error "index"
    | some _, .error e => .error e

/-- SubsetMateSelectionConfiguration.sample_xconfig: tiled_choice over candidate crosses,
    one more `rng.shuffle`, cross-map lookup -/
def sampleMate (decn : List Nat) (xmap : Rows) (nc : Nat) (rem : List Nat) (perm perm2 : List Nat) :
    Except String Rows := do
  let out ← tiledChoice decn nc rem perm
  lookup xmap (Np.take perm2 out)

/-- IntegerMate / BinaryMate -/
def sampleMateInteger (decn : List Nat) (xmap : Rows) (nc : Nat) (rem : List Nat) (perm perm2 : List Nat) :
    Except String Rows :=
  sampleMate (options decn) xmap nc rem perm perm2

/-- RealMate: SUS result as oracle -/
def sampleMateReal (sus : List Nat) (xmap : Rows) (nc : Nat) (perm2 : List Nat) : Except String Rows :=
  if sus.length ≠ nc then .error "value" else lookup xmap (Np.take perm2 sus)

/-! ### proposed repair of D20 (`patch_D20.diff`, NOT applied to /repo): `proportional_choice`
`counts = (N * decn) // total`; the `N - counts.sum()` slots left over go, one each, to distinct candidates
drawn with `rng.choice(n, left, replace=False, p = frac / frac.sum())` (`frac = N*decn - counts*total`);
`out = numpy.repeat(arange(n), counts)`; `rng.shuffle(out)`.  Oracles: `extra` (the choice), `perm`. -/

/-- `(N * decn) // total`, plus one for every candidate drawn into `extra` -/
def shareCounts (decn : List Nat) (N : Nat) (extra : List Nat) : List Nat :=
  (List.range decn.length).map (fun i => N * decn.getD i 0 / decn.sum + extra.count i)

/-- slots left after every candidate has received the floor of its share -/
def shareLeft (decn : List Nat) (N : Nat) : Nat :=
  N - ((List.range decn.length).map (fun i => N * decn.getD i 0 / decn.sum)).sum

/-- `proportional_choice(decn, N, rng)` of the patch; a non-positive total is rejected (`ValueError`) -/
def proportionalChoice (decn : List Nat) (N : Nat) (extra perm : List Nat) : Except String (List Nat) :=
  if decn.sum = 0 then .error "value"
  else .ok (Np.take perm (Np.repeatEach (shareCounts decn N extra) (List.range decn.length)))

/-- IntegerSelectionConfiguration.sample_xconfig as patched -/
def sampleIntegerRepaired (decn : List Nat) (nc np : Nat) (extra perm : List Nat)
    (orders rowperms : List (List Nat)) : Except String Rows := do
  let flat ← proportionalChoice decn (nc * np) extra perm
  arrange flat nc np orders rowperms

/-! ### one configuration object over its lifetime
`sample_xconfig` reads `self.xconfig_decn` afresh on every call: re-assigning the attribute and revising the
array in place (directly or through the solution array it is a view of) are indistinguishable to it. -/

/-- what can happen to a live SubsetSelectionConfiguration -/
inductive CfgOp where
  /-- `cfg.xconfig_decn = other` -/
  | assign (d : List Nat)
  /-- `cfg.xconfig_decn[...] = values` / `soln_decn[i, :] = values` -/
  | edit (d : List Nat)
  /-- `cfg.sample_xconfig()` with the generator draws it consumes -/
  | sample (rem perm : List Nat) (orders rowperms : List (List Nat))

/-- the decision in force and every table sampled so far (latest first) with the decision it was sampled for -/
structure CfgState where
  decn : List Nat
  tables : List (List Nat × Except String Rows)

def cfgStep (nc np : Nat) (s : CfgState) : CfgOp → CfgState
  | .assign d => { s with decn := d }
  | .edit d => { s with decn := d }
  | .sample rem perm orders rowperms =>
    { s with tables := (s.decn, sampleSubset s.decn nc np rem perm orders rowperms) :: s.tables }

def cfgRun (nc np : Nat) (s : CfgState) (ops : List CfgOp) : CfgState := ops.foldl (cfgStep nc np) s

/-- the variant of seeded change C07-d1 / self-test mutant `decision_values_stale_after_in_place_revision`:
    the values are snapshotted at the first sample after an assignment and reused until the next assignment -/
structure CfgStateCached where
  decn : List Nat
  cache : Option (List Nat)
  tables : List (List Nat × Except String Rows)

def cfgStepCached (nc np : Nat) (s : CfgStateCached) : CfgOp → CfgStateCached
  | .assign d => { s with decn := d, cache := none }
  | .edit d => { s with decn := d }
  | .sample rem perm orders rowperms =>
    let used := s.cache.getD s.decn
    { s with cache := some used,
             tables := (s.decn, sampleSubset used nc np rem perm orders rowperms) :: s.tables }

/-! ### the real-valued configurations with the sampler inside the model
`stochastic_universal_sampling(numpy.arange(len(decn)), decn, size, rng)` is C17's `Sampling.susDraws`
(the code after fix fc545079): `a = arange(n)`, so `a[sel] = sel`.  Oracle inputs of the sampler:
`sigma = decn.argsort()[::-1]`, `offset = rng.uniform(0, ptr_dist)`, `perm` = the `rng.shuffle(sel)`. -/
section realsus
variable {α : Type} [Add α] [Mul α] [Div α] [OfNat α 0] [NatCast α]
  [LT α] [DecidableLT α] [LE α] [DecidableLE α]

/-- RealSelectionConfiguration.sample_xconfig, whole -/
def sampleRealSus (w : List α) (nc np : Nat) (sigma : List Nat) (offset : α) (perm : List Nat)
    (orders rowperms : List (List Nat)) : Except String Rows :=
  match Sampling.susDraws w [nc, np] sigma offset perm with
  | .error e => .error e
  | .ok sel => sampleReal sel nc np orders rowperms

/-- RealMateSelectionConfiguration.sample_xconfig, whole -/
def sampleMateRealSus (w : List α) (xmap : Rows) (nc : Nat) (sigma : List Nat) (offset : α)
    (perm perm2 : List Nat) : Except String Rows :=
  match Sampling.susDraws w [nc] sigma offset perm with
  | .error e => .error e
  | .ok sel => sampleMateReal sel xmap nc perm2

end realsus

/-! ### cross maps: core/util/array.py triuix / triudix / xmapix -/

/-- `recurse(l, n, k)` with `st` the start of the next coordinate and `k` coordinates left to fill.
    `strict = true` is triudix (st = l[-1]+1), `false` is triuix (st = l[-1]). -/
def triuFrom (strict : Bool) (n : Nat) : Nat → Nat → Rows
  | 0, _ => [[]]
  | k+1, st => (List.range' st (n - st)).flatMap
      (fun i => (triuFrom strict n k (if strict then i+1 else i)).map (fun t => i :: t))

/-- `list(xmapix(ntaxa, nparent, unique_parents))`, `nparent ≥ 1` -/
def xmapix (ntaxa nparent : Nat) (unique : Bool) : Rows := triuFrom unique ntaxa nparent 0

/-! ### the decidable Spec of the property (evaluated on the implementation's outputs) -/

def shapeOk (nc np : Nat) (rows : Rows) : Bool := rows.length == nc && rows.all (fun r => r.length == np)

def allPos (nc np : Nat) : List Pos := (List.range nc).flatMap (fun r => (List.range np).map (fun c => (r, c)))

/-- no single exchange of two entries reduces the number of self-pairings -/
def localOpt (nc np : Nat) (rows : Rows) : Bool :=
  (allPos nc np).all (fun p => (allPos nc np).all (fun q =>
    !(decide (selfPairs (swap2 rows p q) < selfPairs rows))))

/-- "evenly": the use counts of any two members differ by at most one -/
def evenOn (members flat : List Nat) : Bool :=
  members.all (fun a => members.all (fun b => decide (flat.count a ≤ flat.count b + 1)))

/-- subsets: shape, entries ⊆ decision, even use, exchange-optimal -/
def specSubset (decn : List Nat) (nc np : Nat) (rows : Rows) : Bool :=
  shapeOk nc np rows && rows.flatten.all (fun e => decn.contains e) &&
  evenOn decn rows.flatten && localOpt nc np rows

/-- "within one of the proportional share": |count_i · T − N · w_i| ≤ T for every candidate i -/
def withinOne (w : List Rat) (N : Nat) (flat : List Nat) : Bool :=
  let T := Np.sum w
  (List.range w.length).all (fun i =>
    let d : Rat := (flat.count i : Rat) * T - (N : Rat) * w.getD i 0
    decide (d ≤ T) && decide (-T ≤ d))

/-- entries refer to candidates with a positive contribution -/
def supportOk (w : List Rat) (flat : List Nat) : Bool :=
  flat.all (fun i => decide (i < w.length) && decide (0 < w.getD i 0))

/-- contribution vectors (real / integer / binary): shape, support, share, exchange-optimal -/
def specContribution (w : List Rat) (nc np : Nat) (rows : Rows) : Bool :=
  shapeOk nc np rows && supportOk w rows.flatten && withinOne w (nc * np) rows.flatten &&
  localOpt nc np rows

/-- index of the first candidate cross of the solution's support whose map row is `row` -/
def crossIndex (xmap : Rows) (support : List Nat) (row : List Nat) : Option Nat :=
  support.find? (fun d => xmap[d]? == some row)

/-- mate selection, subset encoding: every cross is a candidate cross of the decision, used evenly -/
def specMateSubset (decn : List Nat) (xmap : Rows) (nc np : Nat) (rows : Rows) : Bool :=
  let ix := rows.map (crossIndex xmap decn)
  shapeOk nc np rows && ix.all Option.isSome && evenOn decn (ix.filterMap id)

/-- mate selection, contribution encodings -/
def specMateContribution (w : List Rat) (xmap : Rows) (nc np : Nat) (rows : Rows) : Bool :=
  let support := (List.range w.length).filter (fun i => decide (0 < w.getD i 0))
  let ix := rows.map (crossIndex xmap support)
  shapeOk nc np rows && ix.all Option.isSome && withinOne w nc (ix.filterMap id)

end XConfig

/-! ## protocol level: optimiser result → decision -/
namespace SelProt

/-- UsefulnessCriterionIntegerSelection.problem, the decision-space bounds of the integer
    mate-selection problem (as repaired by 3d8c7c9b):
      lower = numpy.repeat(0, len(xmap));
      upper = numpy.repeat(self.ncross * self.nparent * int(numpy.max(self.nmating)), len(xmap));
      numpy.stack([lower, upper])
    `self.nmating` is the `(ncross,)` array its setter stores; `numpy.max` of an empty array raises. -/
def ucIntegerBounds (nc np : Nat) (nmating : List Nat) (nx : Nat) : Except String (List Nat × List Nat) :=
  match nmating with
  | [] => .error "value"
  | m :: ms => .ok (List.replicate nx 0, List.replicate nx (nc * np * ms.foldl max m))

/-- the same lines before the repair (D21):
      upper = numpy.repeat(self.ncross * self.nparent * self.nmating, len(xmap))
    `numpy.repeat` of the `(ncross,)` array repeats every element, so `upper` has `ncross · len(xmap)`
    entries and `numpy.stack` raises `ValueError` on unequal shapes. -/
def ucIntegerBoundsPrerepair (nc np : Nat) (nmating : List Nat) (nx : Nat) : Except String (List Nat × List Nat) :=
  let lower := List.replicate nx 0
  let upper := Np.repeatN nx (nmating.map (fun m => nc * np * m))
  if lower.length = upper.length then .ok (lower, upper) else .error "value"

/-- the checks the Integer/Binary/Real problem constructors apply to the decision space handed over by a
    protocol's `problem()`: `check_ndarray_dtype_is_integer(decn_space)` for integer problems (TypeError),
    then `check_ndarray_shape_eq(decn_space, (2, ndecn))` (ValueError).  `boundsLen` = length of the
    `decn_space_lower` / `decn_space_upper` arrays that were stacked. -/
def vectorProblemBounds (needInt isInt : Bool) (ndecn boundsLen : Nat) : Except String Unit :=
  if needInt && !isInt then .error "type"
  else if boundsLen = ndecn then .ok () else .error "value"

/-- ExpectedMaximumBreedingValueIntegerSelection.problem (as repaired by 95a1a100):
      lower = numpy.repeat(0, len(xmap));
      upper = numpy.repeat(self.ncross * self.nparent * int(numpy.max(self.nmating)), len(xmap))
    — integer arrays of length `len(xmap)` for an integer problem with `ndecn = len(xmap)`;
    `numpy.max` of an empty `nmating` raises. -/
def embvIntegerBounds (nc np : Nat) (nmating : List Nat) (nx : Nat) : Except String (List Nat × List Nat) :=
  match nmating with
  | [] => .error "value"
  | m :: ms =>
    match vectorProblemBounds true true nx nx with
    | .error e => .error e
    | .ok _ => .ok (List.replicate nx 0, List.replicate nx (nc * np * ms.foldl max m))

/-- the same lines before the repair (D55): `numpy.repeat(0.0, len(xmap))`, `numpy.repeat(1.0, len(xmap))`
    — float arrays — handed to the *integer* problem -/
def embvIntegerBoundsPrerepair (nx : Nat) : Except String Unit := vectorProblemBounds true false nx nx

/-- FamilyEstimatedBreedingValue{Binary,Integer,Real}Selection.problem (as repaired by ff495eaf):
    bounds of length `ntaxa` (`numpy.repeat(0, ntaxa)` …) and `ndecn = ntaxa`; `nparent` plays no role -/
def familyVectorBounds (_nparent ntaxa : Nat) : Except String Unit := vectorProblemBounds true true ntaxa ntaxa

/-- before the repair (D56): the same bounds with `ndecn = self.nparent` -/
def familyVectorBoundsPrerepair (nparent ntaxa : Nat) : Except String Unit :=
  vectorProblemBounds true true nparent ntaxa

/-! ### the decision space handed to the optimiser by `problem()` -/

/-- ndecn, the candidate list (subset encodings; empty for the vector encodings whose space is the box
    `lower ≤ x ≤ upper`), and the two bound vectors -/
structure Space where
  ndecn : Nat
  space : List Nat
  lower : List Nat
  upper : List Nat
deriving DecidableEq, Repr

/-- subset encodings (`SubsetSelectionProblem` / `SubsetMateSelectionProblem`):
      decn_space = numpy.arange(nopt); lower = numpy.repeat(0, ndecn); upper = numpy.repeat(nopt-1, ndecn)
    with `nopt = ntaxa` resp. `len(xmap)` and `ndecn` the number of slots the family fills -/
def subsetSpace (nopt ndecn : Nat) : Space :=
  ⟨ndecn, List.range nopt, List.replicate ndecn 0, List.replicate ndecn (nopt - 1)⟩

/-- vector encodings (integer / binary / real): one variable per candidate,
      lower = numpy.repeat(0, nopt); upper = numpy.repeat(ub, nopt); decn_space = numpy.stack([lower, upper]) -/
def vectorSpace (nopt ub : Nat) : Space :=
  ⟨nopt, [], List.replicate nopt 0, List.replicate nopt ub⟩

/-- Spec of a usable decision space for `nopt` candidates: bounds of length `ndecn`, `lower ≤ upper`
    entrywise; subset encodings list every candidate exactly once and nothing else; vector encodings have
    one variable per candidate and a positive upper bound (so every candidate can be used) -/
def specSpace (subset : Bool) (nopt : Nat) (s : Space) : Bool :=
  s.lower.length == s.ndecn && s.upper.length == s.ndecn &&
  (List.zipWith (fun l u => decide (l ≤ u)) s.lower s.upper).all id &&
  (if subset then
     (List.range nopt).all (fun i => s.space.count i == 1) && s.space.all (fun i => decide (i < nopt))
   else s.ndecn == nopt && s.upper.all (fun u => decide (0 < u)))

/-- Every admissible candidate cross `t` (parents as a multiset) is the map row of some member of the
    decision space: nothing the population offers is withheld from the optimiser. -/
def specCover (cands xmap : List (List Nat)) (space : List Nat) : Bool :=
  cands.all (fun t => space.any (fun d => match xmap[d]? with
    | some r => r.isPerm t
    | none => false))

section trunc
variable {α : Type} [LE α] [DecidableLE α]

/-- SortingSubsetOptimizationAlgorithm.minimize: every candidate scored on its own
    (`obj[i] = evalfn([i])`), `obj.argsort(0)`, the first `ndecn` indices -/
def sortingSubset (obj : List α) (k : Nat) : List Nat :=
  (Np.argsort (fun a b => decide (a ≤ b)) obj).take k

/-- the same optimiser with numpy's own `obj.argsort(0)` as an oracle input `sigma` (numpy's default sort is not
    stable: among tied objective values any order may come back); the first `ndecn` indices -/
def sortingSubsetWith (sigma : List Nat) (k : Nat) : List Nat := sigma.take k

/-- what `argsort` may return: a permutation of the positions along which the values do not decrease -/
def validArgsort (obj : List α) (sigma : List Nat) : Bool :=
  sigma.length == obj.length && (List.range obj.length).all (fun i => sigma.count i == 1) &&
  (List.zipWith (fun i j => match obj[i]?, obj[j]? with
      | some a, some b => decide (a ≤ b)
      | _, _ => false) sigma sigma.tail).all id

/-- Spec of "exactly the best candidates": k distinct valid candidates, none worse than an
    unchosen one would be better (weak inequality, so it is meaningful with ties as well) -/
def specTopK (obj : List α) (k : Nat) (decn : List Nat) : Bool :=
  decn.length == min k obj.length && decn.all (fun i => decide (i < obj.length)) &&
  decn.all (fun i => decn.count i == 1) &&
  decn.all (fun i => (List.range obj.length).all (fun j =>
    decn.contains j || match obj[i]?, obj[j]? with
      | some a, some b => decide (a ≤ b)
      | _, _ => false))
end trunc

section mo
variable {α : Type} [LT α] [DecidableLT α]

/-- `numpy.argmax`: first position of a maximum; `none` on an empty array (numpy raises) -/
def argmaxFrom : Nat → α → Nat → List α → Nat
  | best, _, _, [] => best
  | best, bv, i, x :: xs => if bv < x then argmaxFrom i x (i+1) xs else argmaxFrom best bv (i+1) xs

def argmax : List α → Option Nat
  | [] => none
  | x :: xs => some (argmaxFrom 0 x 1 xs)

/-- `score = ndset_wt * ndset_trans(soln_obj)`; `ix = score.argmax()`; `soln_decn[ix]` -/
def moChoice {β} [Mul α] (wt : α) (tvals : List α) (decns : List β) : Option (Nat × β) :=
  match argmax (tvals.map (fun t => wt * t)) with
  | none => none
  | some ix => match decns[ix]? with
    | none => none
    | some d => some (ix, d)

/-- Spec of the multi-objective choice: `ix` is a maximiser of the weighted transformation -/
def specArgmax [Mul α] (wt : α) (tvals : List α) (ix : Nat) : Bool :=
  match tvals[ix]? with
  | none => false
  | some t => tvals.all (fun u => !(decide (wt * t < wt * u)))
end mo

/-! ### usefulness criterion: the criterion of a candidate cross (round 5)

  prob/UsefulnessCriterionSelectionProblem.py `_calc_uc`, one trait:
      epgc  = numpy.array(vmat_obj.epgc)                       # expected parental genome contributions
      pmean = epgc.dot(bvmat[cconfig,:])                       # for every row `cconfig` of the cross map
      uc[i] = pmean + selection_intensity * sqrt(max(pvar, 0))
  The second summand (`spread`; it involves a square root and the variance matrix, which is not C07's) is an
  oracle input of the model; the progeny mean is modelled exactly. -/
section uc

/-- the cross types for which pybrops has an additive genetic variance matrix class -/
inductive CrossType | twoWay | dihybrid | threeWay | fourWay
  deriving DecidableEq, Repr

/-- `Dense{TwoWay,Dihybrid,ThreeWay,FourWay}DHAdditiveGeneticVarianceMatrix.epgc`, in quarters of the genome:
    (1/2, 1/2), (1/2, 1/2), (1/2, 1/4, 1/4) [recurrent, female, male], (1/4, 1/4, 1/4, 1/4) -/
def CrossType.quarters : CrossType → List Nat
  | .twoWay => [2, 2]
  | .dihybrid => [2, 2]
  | .threeWay => [2, 1, 1]
  | .fourWay => [1, 1, 1, 1]

/-- number of parents of the cross type -/
def CrossType.nparent (c : CrossType) : Nat := c.quarters.length

def CrossType.ofString : String → Option CrossType
  | "two" => some .twoWay
  | "dihybrid" => some .dihybrid
  | "three" => some .threeWay
  | "four" => some .fourWay
  | _ => none

/-- the `epgc` tuple of the cross type as scalars -/
def CrossType.epgc {α : Type} [NatCast α] [Div α] (c : CrossType) : List α :=
  c.quarters.map (fun (q : Nat) => (q : α) / ((4 : Nat) : α))

variable {α : Type} [Add α] [Mul α] [Zero α]

/-- `epgc.dot(bvmat[cconfig])` for one trait: the parental breeding values weighted by the expected parental
    genome contributions, position by position of the cross-map row -/
def progenyMean (epgc bv : List α) (cross : List Nat) : α :=
  (List.zipWith (fun w i => w * bv.getD i 0) epgc cross).sum

/-- the usefulness criterion of every row of the cross map (`spread[i] = intensity * sqrt(max(pvar_i, 0))`) -/
def ucTable (epgc bv : List α) (xmap : List (List Nat)) (spread : List α) : List α :=
  List.zipWith (fun c s => progenyMean epgc bv c + s) xmap spread

/-- the mid-parent value of a cross (what the progeny mean is when all parents contribute equally) -/
def midParent [Div α] [NatCast α] (bv : List α) (cross : List Nat) : α :=
  (cross.map (fun i => bv.getD i 0)).sum / (cross.length : α)

end uc

end SelProt
