/-
Model of the progeny-variance machinery (property C12).  Core Lean only; executed at `Rat`.

Anchors (all under /repo/pybrops):
  model/vmat/util.py                         rprob_filial, cov_D1s, cov_D2s, cov_D1st, cov_D2st
  core/util/subroutines.py                   srange
  model/vmat/Dense{TwoWay,ThreeWay,FourWay,Dihybrid}DHAdditiveGeneticVarianceMatrix.from_algmod
  model/pcvmat/Dense{…}DHAdditiveProgenyGeneticCovarianceMatrix.from_algmod   (same sums, trait pair)
  model/vmat/Dense{TwoWay,ThreeWay,FourWay,Dihybrid}DHAdditiveGenicVarianceMatrix.from_algmod
  breed/prot/sel/prob/UsefulnessCriterionSelectionProblem._calc_uc
  (`pmean`, `ucVal`, `bvOf`)
and, as the independent reference the theorems compare with, the exhaustive enumeration of the
gametes of a cross scheme (`E`, `gameteAt` = the per-marker form of `mat_meiosis`, `ssdE`, …).
-/
namespace Variance

/-! ## `range`, `srange`, the chunk iterator -/

/-- Python `range(a, stop, step)` for `step ≥ 1` as the iterator produces it (`fuel` = an upper
    bound on the number of items; `stop - a` always suffices). -/
def pyRangeAux (stop step : Nat) : Nat → Nat → List Nat
  | 0, _ => []
  | fuel+1, a => if a < stop then a :: pyRangeAux stop step fuel (a + step) else []

def pyRange (start stop step : Nat) : List Nat := pyRangeAux stop step (stop - start) start

/-- `core/util/subroutines.py:srange`: `yield from range(start, stop, step); yield stop` -/
def srange (start stop step : Nat) : List Nat := pyRange start stop step ++ [stop]

/-- `zip(range(lst,lsp,step), srange(lst+step,lsp,step))` -/
def chunks (lst lsp step : Nat) : List (Nat × Nat) :=
  List.zip (pyRange lst lsp step) (srange (lst + step) lsp step)

section sums
variable {α : Type} [Add α] [Zero α]

/-- `Σ_{lo ≤ k < hi} f k` -/
def sumRange (lo hi : Nat) (f : Nat → α) : α := ((List.range' lo (hi - lo)).map f).sum

end sums

/-! ## `model/vmat/util.py` -/
section util
variable {α : Type} [Add α] [Sub α] [Mul α] [Div α] [Zero α] [One α]

def two : α := 1 + 1
def four : α := two * two
def half : α := 1 / two

/-- `x ** k` for a natural exponent -/
def powN (x : α) : Nat → α
  | 0 => 1
  | n+1 => powN x n * x

/-- `rprob_filial(r, k)`; `k = none` is `numpy.inf` (single-seed descent) -/
def rprobFilial (r : α) (k : Option Nat) : α :=
  let two_r := two * r
  let r_k := two_r / (1 + two_r)
  match k with
  | none => r_k
  | some k => r_k * (1 - (powN half k) * (powN (1 - two_r) k))

/-- `nself + 1` with `inf + 1 = inf` -/
def succInf : Option Nat → Option Nat
  | none => none
  | some n => some (n + 1)

/-- `cov_D1s(r, nself)` (`nself ≥ 0`; negative values are rejected by the caller) -/
def covD1s (r : α) (nself : Option Nat) : α :=
  match nself with
  | some 0 => 1 - two * r
  | k => 1 - two * rprobFilial r (succInf k)

/-- `cov_D2s(r, nself)` -/
def covD2s (r : α) (nself : Option Nat) : α :=
  match nself with
  | some 0 => powN (1 - two * r) 2
  | k => let four_r := four * r
         1 - four_r + (four_r * rprobFilial r (succInf k))

/-- `cov_D1st(r, nself, t)` (`nself, t ≥ 0`) -/
def covD1st (r : α) (nself : Option Nat) (t : Nat) : α :=
  match nself, t with
  | some 0, 0 => 1 - two * r
  | some 0, t => (1 - two * r) * powN (1 - r) t
  | k, _ => 1 - two * rprobFilial r (succInf k)

/-- `cov_D2st(r, nself, t)` -/
def covD2st (r : α) (nself : Option Nat) (t : Nat) : α :=
  match nself, t with
  | some 0, 0 => powN (1 - two * r) 2
  | some 0, t => powN (1 - two * r) 2 * powN (1 - r) t
  | k, _ => let four_r := four * r
            1 - four_r + (four_r * rprobFilial r (succInf k))

end util

/-! ## the blocked double sums of `from_algmod` -/
section blocks
variable {α : Type} [Add α] [Sub α] [Mul α] [Div α] [Zero α] [One α]

/-- `(reffect @ D * ceffect).sum(1)` for one trait, resp. `(reffect @ D @ ceffect.T)[s,t]`, on the
    row block `[rst,rsp)` and the column block `[cst,csp)`:
    `Σ_j (Σ_i a_i D_ij) b_j` -/
def blockQuad (D : Nat → Nat → α) (a b : Nat → α) (rst rsp cst csp : Nat) : α :=
  sumRange cst csp (fun j => sumRange rst rsp (fun i => a i * D i j) * b j)

/-- the three nested loops over linkage groups, row chunks and column chunks, accumulating the value
    `part rst rsp cst csp` into one cell that starts at zero.
    `mem = none` ⇒ `step = lsp - lst`. -/
def accum (mem : Option Nat) (chrs : List (Nat × Nat)) (part : Nat → Nat → Nat → Nat → α) : α :=
  (chrs.map (fun c =>
    ((chunks c.1 c.2 (mem.getD (c.2 - c.1))).map (fun rc =>
      ((chunks c.1 c.2 (mem.getD (c.2 - c.1))).map (fun cc => part rc.1 rc.2 cc.1 cc.2)).sum)).sum)).sum

/-- everything `from_algmod` reads. `g0 t i`, `g1 t i`: allele of taxon `t` at marker `i` on
    phase 0 / 1; `u i s`: effect of marker `i` on trait `s`; `r i j = gmapfn.mapfn(|genpos_i - genpos_j|)` -/
structure Setup (α : Type) where
  g0 : Nat → Nat → α
  g1 : Nat → Nat → α
  u : Nat → Nat → α
  r : Nat → Nat → α
  chrs : List (Nat × Nat)
  mem : Option Nat
  nself : Option Nat

namespace Setup
variable (S : Setup α)

def D1 (i j : Nat) : α := covD1s (S.r i j) S.nself
def D2 (i j : Nat) : α := covD2s (S.r i j) S.nself

/-- `(rdgeno * ru) @ D @ (cdgeno * cu).T` for the trait pair `(s,t)` on one block -/
def part (D : Nat → Nat → α) (x : Nat → α) (s t : Nat) (rst rsp cst csp : Nat) : α :=
  blockQuad D (fun i => x i * S.u i s) (fun j => x j * S.u j t) rst rsp cst csp

/-! ### two-way: `var_A[female,male] += reffect @ D1 @ ceffect` for `male < female`; mirror; zero diagonal -/
def twoWayLower (f m s t : Nat) : α :=
  accum S.mem S.chrs (S.part S.D1 (fun i => S.g0 f i - S.g0 m i) s t)

def twoWay (f m s t : Nat) : α :=
  if m < f then S.twoWayLower f m s t
  else if f < m then S.twoWayLower m f s t
  else 0

/-! ### three-way: recurrent `r` × (female `f` × male `m`) -/
def threeWayLower (rc f m s t : Nat) : α :=
  (accum S.mem S.chrs (fun rst rsp cst csp =>
      (two * (S.part S.D1 (fun i => S.g0 f i - S.g0 rc i) s t rst rsp cst csp
            + S.part S.D1 (fun i => S.g0 m i - S.g0 rc i) s t rst rsp cst csp))
      + S.part S.D2 (fun i => S.g0 f i - S.g0 m i) s t rst rsp cst csp)) * (1 / four)

/-- `for male in range(0,female+1)` (fix D33: the cells `female = male` are computed), then mirror -/
def threeWay (rc f m s t : Nat) : α :=
  if m ≤ f then S.threeWayLower rc f m s t else S.threeWayLower rc m f s t

/-- the code before fix D33 (`range(0,female)`): the cells `female = male` kept their initial 0 -/
def threeWayPre (rc f m s t : Nat) : α :=
  if m < f then S.threeWayLower rc f m s t
  else if f < m then S.threeWayLower rc m f s t
  else 0

/-! ### four-way: (female2 × male2) × (female1 × male1) -/
def sixParts (p1 p2 p3 p4 : Nat → α) (s t rst rsp cst csp : Nat) : α :=
    S.part S.D2 (fun i => p2 i - p1 i) s t rst rsp cst csp
  + S.part S.D1 (fun i => p3 i - p1 i) s t rst rsp cst csp
  + S.part S.D1 (fun i => p3 i - p2 i) s t rst rsp cst csp
  + S.part S.D1 (fun i => p4 i - p1 i) s t rst rsp cst csp
  + S.part S.D1 (fun i => p4 i - p2 i) s t rst rsp cst csp
  + S.part S.D2 (fun i => p4 i - p3 i) s t rst rsp cst csp

def fourWayLower (f2 m2 f1 m1 s t : Nat) : α :=
  (accum S.mem S.chrs (S.sixParts (S.g0 f2) (S.g0 m2) (S.g0 f1) (S.g0 m1) s t)) * (1 / four)

def fourWay (f2 m2 f1 m1 s t : Nat) : α :=
  if m1 ≤ f1 then S.fourWayLower f2 m2 f1 m1 s t else S.fourWayLower f2 m2 m1 f1 s t

/-- before fix D33 -/
def fourWayPre (f2 m2 f1 m1 s t : Nat) : α :=
  if m1 < f1 then S.fourWayLower f2 m2 f1 m1 s t
  else if f1 < m1 then S.fourWayLower f2 m2 m1 f1 s t
  else 0

/-! ### dihybrid: the four-way sum on the phases (1 = female phase 1, 2 = female phase 0,
    3 = male phase 1, 4 = male phase 0) -/
def dihybridLower (f m s t : Nat) : α :=
  (accum S.mem S.chrs (S.sixParts (S.g1 f) (S.g0 f) (S.g1 m) (S.g0 m) s t)) * (1 / four)

def dihybrid (f m s t : Nat) : α :=
  if m ≤ f then S.dihybridLower f m s t else S.dihybridLower m f s t

/-- before fix D33 -/
def dihybridPre (f m s t : Nat) : α :=
  if m < f then S.dihybridLower f m s t
  else if f < m then S.dihybridLower m f s t
  else 0

end Setup
end blocks

/-! ## input validation of `from_algmod` (the checks that precede / accompany the loops) -/

inductive Reject where
  | value   -- ValueError
  deriving Repr, DecidableEq

/-- `from_algmod` raises `ValueError` when the genotype matrix is not grouped along the variant axis, has
    no genetic positions, when `mem = 0` (`range()` step) or when `nself < 0` (`cov_D1s`) — the last two
    only once a non-empty linkage group is reached. -/
def validate (grouped hasGenpos : Bool) (mem : Option Nat) (nself : Option Int) (chrs : List (Nat × Nat)) :
    Except Reject Unit :=
  if !grouped then .error .value
  else if !hasGenpos then .error .value
  else if chrs.any (fun c => decide (c.1 < c.2)) && mem == some 0 then .error .value
  else if chrs.any (fun c => decide (c.1 < c.2)) && (match nself with | some k => decide (k < 0) | none => false)
    then .error .value
  else .ok ()

/-! ## genic variance: `Σ_i (ploidy u_i)² p_i (1 - p_i)`, `p = epgc · tafreq[parents]` -/
section genic
variable {α : Type} [Add α] [Sub α] [Mul α] [Div α] [Zero α] [One α]

/-- one cell of the genic matrices for the cross allele frequency `p` -/
def genicCell (nvrnt : Nat) (ploidy : α) (u : Nat → α) (p : Nat → α) : α :=
  sumRange 0 nvrnt (fun i => powN (ploidy * u i) 2 * p i * (1 - p i))

/-- `tafreq = mat.sum(0) / ploidy` -/
def tafreq (S : Setup α) (ploidy : α) (k i : Nat) : α := (S.g0 k i + S.g1 k i) / ploidy

/-- `numpy.dot((0.5,0.5), tafreq[(female,male),:])` -/
def crossFreq2 (S : Setup α) (ploidy : α) (f m : Nat) (i : Nat) : α :=
  half * ((S.g0 f i + S.g1 f i) / ploidy) + half * ((S.g0 m i + S.g1 m i) / ploidy)

/-- `numpy.dot((0.5,0.25,0.25), tafreq[(recurr,female,male),:])` -/
def crossFreq3 (S : Setup α) (ploidy : α) (r f m : Nat) (i : Nat) : α :=
  half * tafreq S ploidy r i + (half * half) * tafreq S ploidy f i + (half * half) * tafreq S ploidy m i

/-- `numpy.dot((0.25,0.25,0.25,0.25), tafreq[(female2,male2,female1,male1),:])` -/
def crossFreq4 (S : Setup α) (ploidy : α) (f2 m2 f1 m1 : Nat) (i : Nat) : α :=
  (half * half) * tafreq S ploidy f2 i + (half * half) * tafreq S ploidy m2 i
    + (half * half) * tafreq S ploidy f1 i + (half * half) * tafreq S ploidy m1 i

/-- two-way / dihybrid genic matrix: `for male in range(0,female+1)` (fix D15: diagonal written), the
    value is stored at `[female,male]` and `[male,female]` -/
def genic2 (S : Setup α) (nvrnt : Nat) (ploidy : α) (f m t : Nat) : α :=
  genicCell nvrnt ploidy (fun i => S.u i t) (crossFreq2 S ploidy (max f m) (min f m))

/-- before fix D15: `numpy.empty` and `range(0,female)` — the diagonal is never written (`none`) -/
def genic2Pre (S : Setup α) (nvrnt : Nat) (ploidy : α) (f m t : Nat) : Option α :=
  if f = m then none else some (genic2 S nvrnt ploidy f m t)

/-- three-way genic matrix (constructible since fix D30) -/
def genic3 (S : Setup α) (nvrnt : Nat) (ploidy : α) (r f m t : Nat) : α :=
  genicCell nvrnt ploidy (fun i => S.u i t) (crossFreq3 S ploidy r (max f m) (min f m))

/-- four-way genic matrix (constructible since fix D30) -/
def genic4 (S : Setup α) (nvrnt : Nat) (ploidy : α) (f2 m2 f1 m1 t : Nat) : α :=
  genicCell nvrnt ploidy (fun i => S.u i t) (crossFreq4 S ploidy f2 m2 (max f1 m1) (min f1 m1))

end genic

/-! ## exhaustive enumeration of the gametes of a cross scheme -/
section enumeration
variable {α : Type} [Add α] [Sub α] [Mul α] [Zero α] [One α]

/-- expectation of `F` over independent crossover indicators with probabilities `xs`
    (the exhaustive enumeration of all `2^m` masks with their probabilities) -/
def E : List α → (List Bool → α) → α
  | [], F => F []
  | x :: xs, F => (1 - x) * E xs (fun b => F (false :: b)) + x * E xs (fun b => F (true :: b))

/-- phase copied at marker `j` by `mat_meiosis`: start at phase 0, switch at every crossover index
    `≤ j` (`xoix = flatnonzero(rnd < xoprob)`) -/
def phaseAt : List Bool → Nat → Bool
  | [], _ => false
  | b :: _, 0 => b
  | b :: bs, j+1 => xor b (phaseAt bs j)

/-- allele of the gamete at marker `j` -/
def gameteAt (mask : List Bool) (h0 h1 : Nat → α) (j : Nat) : α :=
  if phaseAt mask j then h1 j else h0 j

/-- expectation over the final doubled-haploid gamete of an individual `(h0,h1)` after `n`
    generations of selfing by single-seed descent (two independent meioses per generation) -/
def ssdE (xs : List α) : Nat → (Nat → α) → (Nat → α) → ((Nat → α) → α) → α
  | 0, h0, h1, F => E xs (fun m => F (gameteAt m h0 h1))
  | n+1, h0, h1, F =>
      E xs (fun m1 => E xs (fun m2 => ssdE xs n (gameteAt m1 h0 h1) (gameteAt m2 h0 h1) F))

/-- two-way cross of the inbred lines `a`, `b` -/
def twoWayE (xs : List α) (n : Nat) (a b : Nat → α) (F : (Nat → α) → α) : α := ssdE xs n a b F

/-- three-way cross `p1 × (p2 × p3)` -/
def threeWayE (xs : List α) (n : Nat) (p1 p2 p3 : Nat → α) (F : (Nat → α) → α) : α :=
  E xs (fun mB => ssdE xs n p1 (gameteAt mB p2 p3) F)

/-- four-way cross `(p1 × p2) × (p3 × p4)`; the dihybrid cross is the same scheme on the four
    parental phases -/
def fourWayE (xs : List α) (n : Nat) (p1 p2 p3 p4 : Nat → α) (F : (Nat → α) → α) : α :=
  E xs (fun mA => E xs (fun mB => ssdE xs n (gameteAt mA p1 p2) (gameteAt mB p3 p4) F))

variable [Add α]

/-- genetic value of the doubled haploid built from gamete `g` (both phases equal `g`) for the
    effect vector `u` over `m` markers -/
def dhValue (m : Nat) (u : Nat → α) (g : Nat → α) : α := sumRange 0 m (fun j => u j * (g j + g j))

/-- covariance of two functions of the final gamete under a scheme expectation `Es` -/
def covOf (Es : ((Nat → α) → α) → α) (U W : (Nat → α) → α) : α :=
  Es (fun g => U g * W g) - Es U * Es W

end enumeration


/-! ## the loops of `from_algmod`, transcribed literally

A dense array is modelled as the list of the assignments made to it, most recent first, over `numpy.zeros`:
`getAt` returns the most recent value stored at an index, 0 when the cell was never assigned. -/
section loops
variable {β : Type} {ι : Type} [DecidableEq ι]

/-- `M[ix]` -/
def getAt [Zero β] (M : List (ι × β)) (ix : ι) : β :=
  match M with
  | [] => 0
  | p :: rest => if p.1 = ix then p.2 else getAt rest ix

/-- `M[ix] = v` -/
def setAt (M : List (ι × β)) (ix : ι) (v : β) : List (ι × β) := (ix, v) :: M

/-- `M *= c` -/
def scaleAll [Mul β] (M : List (ι × β)) (c : β) : List (ι × β) := M.map (fun p => (p.1, p.2 * c))

variable [Zero β] [Add β]

/-- `for b in blocks: for ix in cells: M[ix] += part(b, ix)` — the chunk loops are the outer loops, the loops over
    the index tuples (`female`, `male`, …) the inner ones, exactly as in `from_algmod` -/
def addLoop {B : Type} (blocks : List B) (cells : List ι) (part : B → ι → β) (M : List (ι × β)) : List (ι × β) :=
  blocks.foldl (fun M b => cells.foldl (fun M ix => setAt M ix (getAt M ix + part b ix)) M) M

end loops

/-- `[(f, m) | f in range(1, n), m in range(0, f)]` (two-way: selfs excluded) -/
def lowerPairs (n : Nat) : List (Nat × Nat) :=
  (List.range' 1 (n - 1)).flatMap (fun f => (List.range f).map (fun m => (f, m)))

/-- `[(f, m) | f in range(0, n), m in range(0, f+1)]` (three-way / four-way / dihybrid since fix D33) -/
def lowerPairsDiag (n : Nat) : List (Nat × Nat) :=
  (List.range n).flatMap (fun f => (List.range (f + 1)).map (fun m => (f, m)))

/-- `for female in range(1,n): for male in range(0,female): M[male,female] = M[female,male]` -/
def mirrorLoop {β : Type} [Zero β] (n : Nat) (M : List ((Nat × Nat) × β)) : List ((Nat × Nat) × β) :=
  (lowerPairs n).foldl (fun M fm => setAt M (fm.2, fm.1) (getAt M (fm.1, fm.2))) M

/-- the chunk blocks `(rst, rsp, cst, csp)` in the order the three nested loops of `from_algmod` visit them -/
def blocksOf (mem : Option Nat) (chrs : List (Nat × Nat)) : List (Nat × Nat × Nat × Nat) :=
  chrs.flatMap (fun c =>
    (chunks c.1 c.2 (mem.getD (c.2 - c.1))).flatMap (fun rc =>
      (chunks c.1 c.2 (mem.getD (c.2 - c.1))).map (fun cc => (rc.1, rc.2, cc.1, cc.2))))

section loopsSchemes
variable {α : Type} [Add α] [Sub α] [Mul α] [Div α] [Zero α] [One α]

/-- the two-way `from_algmod`, literally: `numpy.zeros`, the accumulation loops, the mirror loop -/
def Setup.twoWayLoop (S : Setup α) (n s t : Nat) : List ((Nat × Nat) × α) :=
  mirrorLoop n
    (addLoop (blocksOf S.mem S.chrs) (lowerPairs n)
      (fun b fm => S.part S.D1 (fun i => S.g0 fm.1 i - S.g0 fm.2 i) s t b.1 b.2.1 b.2.2.1 b.2.2.2) [])

/-- the dihybrid `from_algmod`, literally: zeros, accumulation over `male ≤ female`, `*= 0.25`, mirror loop -/
def Setup.dihybridLoop (S : Setup α) (n s t : Nat) : List ((Nat × Nat) × α) :=
  mirrorLoop n (scaleAll
    (addLoop (blocksOf S.mem S.chrs) (lowerPairsDiag n)
      (fun b fm => S.sixParts (S.g1 fm.1) (S.g0 fm.1) (S.g1 fm.2) (S.g0 fm.2) s t b.1 b.2.1 b.2.2.1 b.2.2.2) [])
    (1 / four))

/-- the three-way `from_algmod` for one recurrent parent `rc` (the mirror statement copies all `rc` slices at once) -/
def Setup.threeWayLoop (S : Setup α) (n rc s t : Nat) : List ((Nat × Nat) × α) :=
  mirrorLoop n (scaleAll
    (addLoop (blocksOf S.mem S.chrs) (lowerPairsDiag n)
      (fun b fm =>
        (two * (S.part S.D1 (fun i => S.g0 fm.1 i - S.g0 rc i) s t b.1 b.2.1 b.2.2.1 b.2.2.2
              + S.part S.D1 (fun i => S.g0 fm.2 i - S.g0 rc i) s t b.1 b.2.1 b.2.2.1 b.2.2.2))
        + S.part S.D2 (fun i => S.g0 fm.1 i - S.g0 fm.2 i) s t b.1 b.2.1 b.2.2.1 b.2.2.2) [])
    (1 / four))

/-- the four-way `from_algmod` for one first hybrid `(f2, m2)` -/
def Setup.fourWayLoop (S : Setup α) (n f2 m2 s t : Nat) : List ((Nat × Nat) × α) :=
  mirrorLoop n (scaleAll
    (addLoop (blocksOf S.mem S.chrs) (lowerPairsDiag n)
      (fun b fm => S.sixParts (S.g0 f2) (S.g0 m2) (S.g0 fm.1) (S.g0 fm.2) s t b.1 b.2.1 b.2.2.1 b.2.2.2) [])
    (1 / four))

end loopsSchemes

/-! ## the Spec oracle of the driver (`c12.spec_enum`) -/
section spec
variable {α : Type} [Add α] [Sub α] [Mul α] [Neg α] [Zero α] [One α] [LT α] [DecidableLT α]

def absV (x : α) : α := if x < 0 then -x else x

/-- `|impl - want| ≤ tol * max(1, |want|)` -/
def specClose (impl want tol : α) : Bool :=
  let scale := if absV want < 1 then 1 else absV want
  decide (¬ (tol * scale < absV (impl - want)))

end spec

/-- `mem` default of the genetic variance / covariance `from_algmod` -/
def defaultMem : Nat := 1024

/-! ## usefulness criterion (`UsefulnessCriterionSelectionProblemMixin._calc_uc`) -/
section uc
variable {α : Type} [Add α] [Mul α] [Zero α]

/-- `epgc.dot(bvmat[cconfig,:])` for one trait -/
def pmean (epgc : List α) (bv : List α) : α := (List.zipWith (· * ·) epgc bv).sum

/-- before fix D37: `uc[i,:] = pmean + selection_intensity * numpy.sqrt(pvar)`; the square root is a parameter -/
def ucValPrerepair (sqrt : α → α) (pm inten pvar : α) : α := pm + inten * sqrt pvar

/-- `numpy.maximum(x, 0.0)` -/
def clip0 [LT α] [DecidableLT α] (x : α) : α := if x < 0 then 0 else x

/-- since fix D37: `uc[i,:] = pmean + selection_intensity * numpy.sqrt(numpy.maximum(pvar, 0.0))` -/
def ucVal [LT α] [DecidableLT α] (sqrt : α → α) (pm inten pvar : α) : α := pm + inten * sqrt (clip0 pvar)

/-- breeding value `beta + Σ_i u_i (g0_i + g1_i)` of a genotype with phases `h0`, `h1` -/
def bvOf (p : Nat) (beta : α) (u h0 h1 : Nat → α) : α := beta + sumRange 0 p (fun i => u i * (h0 i + h1 i))

end uc

/-! ## the cross map (`core/util/array.py`: `triuix`, `triudix`; `_calc_xmap`) and the loop of `_calc_uc` -/

/-- the recursion `recurse(l, n, k)` of `triuix` (`strict = false`: `st = l[-1]`) and `triudix` (`strict = true`:
    `st = l[-1] + 1`), `st = 0` for the empty prefix: the suffixes of length `k` that may follow a prefix whose next admissible
    index is `st`, in the order they are yielded.  (`k ≥ 1` in every use: `nparent ∈ {2, 3, 4}`.) -/
def triuAux (strict : Bool) (n : Nat) : Nat → Nat → List (List Nat)
  | 0, _ => [[]]
  | k+1, st => (List.range' st (n - st)).flatMap
      (fun i => (triuAux strict n k (if strict then i + 1 else i)).map (fun l => i :: l))

/-- `list(triuix(n, k))`: index tuples of the upper triangle, diagonal included -/
def triuix (n k : Nat) : List (List Nat) := triuAux false n k 0
/-- `list(triudix(n, k))`: index tuples of the upper triangle, diagonal excluded -/
def triudix (n k : Nat) : List (List Nat) := triuAux true n k 0

/-- `_calc_xmap(ntaxa, nparent, unique_parents)` -/
def calcXmap (ntaxa nparent : Nat) (unique : Bool) : List (List Nat) :=
  if unique then triudix ntaxa nparent else triuix ntaxa nparent

section ucmat
variable {α : Type} [Add α] [Mul α] [Zero α] [LT α] [DecidableLT α]

/-- `_calc_uc`: `for i, cconfig in enumerate(xmap): uc[i,:] = epgc.dot(bvmat[cconfig,:]) + intensity * sqrt(vmat[tuple(cconfig)])`
    — one row per configuration of the cross map (ANY list of index tuples), one column per trait.
    `bv k t` = breeding value of taxon `k` for trait `t`, `pvar cfg t` = the variance-matrix cell of configuration `cfg`. -/
def ucMat (sqrt : α → α) (inten : α) (epgc : List α) (bv : Nat → Nat → α) (pvar : List Nat → Nat → α) (ntrait : Nat)
    (xmap : List (List Nat)) : List (List α) :=
  xmap.map (fun cfg => (List.range ntrait).map (fun t =>
    ucVal sqrt (pmean epgc (cfg.map (fun k => bv k t))) inten (pvar cfg t)))

end ucmat

/-! ## binary64 witness for finding D37

Three completely linked markers (`D1 ≡ 1`) with effects 0.7, -0.4, -0.3, parents differing at all three, chunk size 2: the
blocks `[0,2) × [0,2)`, `[0,2) × [2,3)`, `[2,3) × [0,2)`, `[2,3) × [2,3)` of `(reffect @ D1 * ceffect).sum(1)` accumulated with
`+=` in the order of the loops.  In exact arithmetic the value is `(u0 + u1 + u2)² ≥ 0`. -/
def negVarWitness : Float :=
  let u0 : Float := 0.7
  let u1 : Float := -0.4
  let u2 : Float := -0.3
  let b00 := (u0 + u1) * u0 + (u0 + u1) * u1
  let b01 := (u0 + u1) * u2
  let b10 := u2 * u0 + u2 * u1
  let b11 := u2 * u2
  ((b00 + b01) + b10) + b11

/-! ## the loops of the genic `from_algmod`, literally: `numpy.empty`, then `M[f,m] = v; M[m,f] = v` for `m ≤ f` -/
section genicLoop
variable {β : Type} {ι : Type} [DecidableEq ι]

/-- `M[ix]` of an array allocated with `numpy.empty`: `none` = never written (arbitrary memory) -/
def findAt (M : List (ι × β)) (ix : ι) : Option β :=
  match M with
  | [] => none
  | p :: rest => if p.1 = ix then some p.2 else findAt rest ix

/-- `for female in range(0,n): for male in range(0,female+1): v = cell(female, male); M[female,male] = v; M[male,female] = v` -/
def fillSymLoop (n : Nat) (cell : Nat → Nat → β) : List ((Nat × Nat) × β) :=
  (lowerPairsDiag n).foldl
    (fun M fm => setAt (setAt M (fm.1, fm.2) (cell fm.1 fm.2)) (fm.2, fm.1) (cell fm.1 fm.2)) []

end genicLoop

section genicLoops
variable {α : Type} [Add α] [Sub α] [Mul α] [Div α] [Zero α] [One α]

/-- two-way / dihybrid genic `from_algmod` for trait `t` -/
def Setup.genic2Loop (S : Setup α) (n nvrnt : Nat) (ploidy : α) (t : Nat) : List ((Nat × Nat) × α) :=
  fillSymLoop n (fun f m => genicCell nvrnt ploidy (fun i => S.u i t) (crossFreq2 S ploidy f m))

/-- three-way genic `from_algmod`, slice of the recurrent parent `r` -/
def Setup.genic3Loop (S : Setup α) (n nvrnt : Nat) (ploidy : α) (r t : Nat) : List ((Nat × Nat) × α) :=
  fillSymLoop n (fun f m => genicCell nvrnt ploidy (fun i => S.u i t) (crossFreq3 S ploidy r f m))

/-- four-way genic `from_algmod`, slice of the first hybrid `(f2, m2)` -/
def Setup.genic4Loop (S : Setup α) (n nvrnt : Nat) (ploidy : α) (f2 m2 t : Nat) : List ((Nat × Nat) × α) :=
  fillSymLoop n (fun f m => genicCell nvrnt ploidy (fun i => S.u i t) (crossFreq4 S ploidy f2 m2 f m))

end genicLoops

end Variance
