/-
Long data-frame layout of the variance matrices with `k` parental axes (C16):
DenseThreeWayDHAdditiveGeneticVarianceMatrix (recurrent, female, male), DenseFourWayDH… (female2, male2,
female1, male1) and their genic twins — `to_pandas` flattens the (n, …, n, t) array in C order with one
label column (and optionally one group column) per axis, `from_pandas` rebuilds the labels with
`numpy.unique` / `union1d` and places every row's value at its labels.  The two-way class
(`StoreFrame.vmToPandas`) is the instance k = 2.

The matrix is a function from index tuples: nothing here depends on how numpy lays the cells out.
Core Lean only.
-/
import PybropsModel.Model.StoreFrame

namespace StoreFrame
open Store (Err)

/-- one row of the long frame: a label (and group) per parental axis, the trait, the value -/
structure KRow (α : Type) where
  parents : List String
  grps : List (Option Int)
  trait : String
  variance : α
  deriving Repr

/-- all index tuples of length `k` over `range n`, in C order (last index fastest) -/
def tuples (n : Nat) : Nat → List (List Nat)
  | 0 => [[]]
  | k + 1 => (List.range n).flatMap (fun i => (tuples n k).map (i :: ·))

structure KMat (α : Type) where
  k : Nat
  taxa : List String
  taxa_grp : Option (List Int)
  trait : List String
  /-- `mat[i₁, …, i_k, c]` -/
  cell : List Nat → Nat → α

/-- what `from_pandas` builds: cells that no row addresses stay NaN (`none`) -/
structure KRead (α : Type) where
  taxa : List String
  taxa_grp : Option (List Int)
  trait : List String
  cell : List Nat → Nat → Option α

section kway
variable {α : Type}

def kmGrpAt (v : KMat α) (withGrp : Bool) (i : Nat) : Option Int :=
  if withGrp then (match v.taxa_grp with | some g => some (g.getD i 0) | none => none) else none

def kmRow (v : KMat α) (withGrp : Bool) (ix : List Nat) (c : Nat) : KRow α :=
  ⟨ix.map (fun i => v.taxa.getD i ""), ix.map (kmGrpAt v withGrp), v.trait.getD c "", v.cell ix c⟩

/-- `flattenix(mat)`: every cell in C order with its indices turned into labels -/
def kmToPandas (v : KMat α) (withGrp : Bool) : List (KRow α) :=
  (tuples v.taxa.length v.k).flatMap (fun ix => (List.range v.trait.length).map (kmRow v withGrp ix))

/-- `mat[ix₁, …, ix_k, traitix] = variance`: the last row addressing a cell wins -/
def kmCell (rows : List (KRow α)) (labs : List String) (c : String) : Option α :=
  (rows.reverse.find? (fun r => r.parents == labs && r.trait == c)).map (·.variance)

/-- group of taxon `t` as the loops over the parent columns 0 … k-1 leave it: the LAST column in which
    `t` occurs decides, through the first row in which it occurs there -/
def kmGrpOf (rows : List (KRow α)) (t : String) : Nat → Int
  | 0 => 0
  | a + 1 =>
    match rows.find? (fun r => r.parents.getD a "" == t) with
    | some r => (r.grps.getD a none).getD 0
    | none => kmGrpOf rows t a

def kmFromPandas (k : Nat) (rows : List (KRow α)) (withGrp : Bool) : Except Err (KRead α) :=
  -- `to_numpy(dtype = int)` on a group column of `None`
  if withGrp && rows.any (fun r => r.grps.any (·.isNone)) then throw .type else
  let taxa := sortUniq ((List.range k).flatMap (fun a => rows.map (fun r => r.parents.getD a "")))
  let trait := sortUniq (rows.map (·.trait))
  pure ⟨taxa, if withGrp then some (taxa.map (fun t => kmGrpOf rows t k)) else none, trait,
        fun ix c => kmCell rows (ix.map (fun i => taxa.getD i "")) (trait.getD c "")⟩

/-- a Bool test of a successful read (the result holds a function, so it is inspected, not compared) -/
def okAnd (res : Except Err (KRead α)) (p : KRead α → Bool) : Bool :=
  match res with
  | .ok r => p r
  | .error _ => false

/-- position of a cell in the C-ordered buffer of an (n, …, n, t) array -/
def flatIndex (n t : Nat) (ix : List Nat) (c : Nat) : Nat := (ix.foldl (fun acc i => acc * n + i) 0) * t + c

end kway
end StoreFrame
