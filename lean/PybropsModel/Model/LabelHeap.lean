/-
Model/LabelHeap.lean — heap / aliasing model of the labelled matrices (property C03).  Core Lean only.

A pybrops matrix object holds *references* to ndarray objects: the data array, one array per label column, four
arrays per cached group table.  The non-mutating methods build a new object and hand it the receiver's arrays of
every bundle they do not edit BY REFERENCE (`DenseTaxaVariantMatrix.select_vrnt`: `taxa = self._taxa,
taxa_grp = self._taxa_grp`, then `out.taxa_grp_name = self._taxa_grp_name` …); the mutating methods REBIND the
fields of the bundle they edit to freshly built arrays (`self._taxa = self._taxa[indices]`) and never write into an
existing array.  So several live objects share arrays, and "an operation on one object leaves every other object as
it was" is a statement about this heap.

`Heap` = list of arrays, address = position, allocation appends (no array is ever overwritten: that is the
discipline of the code, re-checked on every run by the harness on all live objects).  `Obj` = the references of one
matrix object.  `view h o` = the value (`LabelMat.St`) the object denotes.  `hstep` runs one public operation on
object `i` of a heap with several objects: the value is computed by the functional model `LabelMat.step`, the result
is stored with the code's sharing plan (`sharePlan`).  `hstepInPlace` is the variant in which `reorder` permutes the
label arrays in place (what the code does NOT do) — kept for the demonstration that the discipline matters.
-/
import PybropsModel.Model.LabelMat

namespace LabelHeap
open LabelMat

abbrev Addr := Nat

/-- one ndarray object -/
inductive Arr (α lab : Type) where
  | data (m : Mat3 α)
  | lab (l : List lab)
  | idx (l : List Nat)

structure GrpRef where
  name : Addr
  stix : Addr
  spix : Addr
  len  : Addr
  deriving DecidableEq, Repr

structure BundleRef where
  cols : List (Option Addr)
  grp  : Option GrpRef
  deriving DecidableEq, Repr

/-- a matrix object: nothing but references -/
structure Obj where
  mat   : Addr
  taxa  : BundleRef
  vrnt  : BundleRef
  trait : BundleRef
  deriving DecidableEq, Repr

abbrev Heap (α lab : Type) := List (Arr α lab)

variable {α lab : Type}

def Obj.bundle (o : Obj) : Kind → BundleRef
  | .taxa => o.taxa | .vrnt => o.vrnt | .trait => o.trait

def Obj.setBundle (o : Obj) (k : Kind) (b : BundleRef) : Obj :=
  match k with
  | .taxa => { o with taxa := b } | .vrnt => { o with vrnt := b } | .trait => { o with trait := b }

/-! ### reading -/

def getData (h : Heap α lab) (a : Addr) : Option (Mat3 α) :=
  match h[a]? with | some (.data m) => some m | _ => none

def getLab (h : Heap α lab) (a : Addr) : Option (List lab) :=
  match h[a]? with | some (.lab l) => some l | _ => none

def getIdx (h : Heap α lab) (a : Addr) : Option (List Nat) :=
  match h[a]? with | some (.idx l) => some l | _ => none

def viewCol (h : Heap α lab) : Option Addr → Option (Option (List lab))
  | none => some none
  | some a => (getLab h a).map some

def viewGrp (h : Heap α lab) : Option GrpRef → Option (Option (Grp lab))
  | none => some none
  | some g =>
    match getLab h g.name, getIdx h g.stix, getIdx h g.spix, getIdx h g.len with
    | some n, some st, some sp, some ln => some (some { name := n, stix := st, spix := sp, len := ln })
    | _, _, _, _ => none

def viewBundle (h : Heap α lab) (b : BundleRef) : Option (Bundle lab) :=
  match b.cols.mapM (viewCol h), viewGrp h b.grp with
  | some cols, some grp => some { cols := cols, grp := grp }
  | _, _ => none

/-- the value an object denotes -/
def view (h : Heap α lab) (o : Obj) : Option (St α lab) :=
  match getData h o.mat, viewBundle h o.taxa, viewBundle h o.vrnt, viewBundle h o.trait with
  | some m, some t, some v, some r => some { mat := m, taxa := t, vrnt := v, trait := r }
  | _, _, _, _ => none

/-! ### allocating -/

def allocCols : Heap α lab → List (Option (List lab)) → Heap α lab × List (Option Addr)
  | h, [] => (h, [])
  | h, none :: cs => let r := allocCols h cs; (r.1, none :: r.2)
  | h, some l :: cs => let r := allocCols (h ++ [.lab l]) cs; (r.1, some h.length :: r.2)

def allocGrp (h : Heap α lab) : Option (Grp lab) → Heap α lab × Option GrpRef
  | none => (h, none)
  | some g => (h ++ [.lab g.name, .idx g.stix, .idx g.spix, .idx g.len],
               some { name := h.length, stix := h.length + 1, spix := h.length + 2, len := h.length + 3 })

/-- fresh arrays for a whole bundle -/
def allocBundle (h : Heap α lab) (b : Bundle lab) : Heap α lab × BundleRef :=
  let r1 := allocCols h b.cols
  let r2 := allocGrp r1.1 b.grp
  (r2.1, { cols := r1.2, grp := r2.2 })

/-- store bundle `b`: by reference when the plan says so and the reference denotes exactly `b`, else fresh arrays -/
def storeBundle [DecidableEq lab] (h : Heap α lab) (share : Bool) (old : BundleRef) (b : Bundle lab) :
    Heap α lab × BundleRef :=
  if share && decide (viewBundle h old = some b) then (h, old) else allocBundle h b

/-- **the code's sharing plan**: a new / updated object receives by reference exactly the bundles the operation does
    not edit; the data array and the edited bundle are always fresh arrays -/
def sharePlan (edited : Kind) (k : Kind) : Bool := k != edited

/-- store state `s` as an object, sharing with `old` according to the plan for an operation that edits `edited` -/
def store [DecidableEq lab] (h : Heap α lab) (edited : Kind) (old : Obj) (s : St α lab) : Heap α lab × Obj :=
  let h0 := h ++ [.data s.mat]
  let r1 := storeBundle h0 (sharePlan edited .taxa) old.taxa s.taxa
  let r2 := storeBundle r1.1 (sharePlan edited .vrnt) old.vrnt s.vrnt
  let r3 := storeBundle r2.1 (sharePlan edited .trait) old.trait s.trait
  (r3.1, { mat := h.length, taxa := r1.2, vrnt := r2.2, trait := r3.2 })

/-- a fresh object for an initial state (nothing shared) -/
def storeFresh (h : Heap α lab) (s : St α lab) : Heap α lab × Obj :=
  let h0 := h ++ [.data s.mat]
  let r1 := allocBundle h0 s.taxa
  let r2 := allocBundle r1.1 s.vrnt
  let r3 := allocBundle r2.1 s.trait
  (r3.1, { mat := h.length, taxa := r1.2, vrnt := r2.2, trait := r3.2 })

/-! ### operations on a heap with several live objects -/

/-- the non-mutating methods return a new object; the others change the receiver -/
def Op.isPure : Op α lab → Bool
  | .select _ _ | .delete _ _ | .adjoin _ _ | .insert _ _ _ | .concat _ _ => true
  | _ => false

/-- one public operation on object `i`: the value by the functional model, the storage by the sharing plan.
    `ungroup_<k>` only clears the four cached-table fields of the receiver (no array is built).
    `none` = the object does not exist / the operation raised (nothing changes then) -/
def hstep [BEq lab] [DecidableEq lab] [DecidableEq α] (le : lab → lab → Bool) (sch : Schema) (fill : α)
    (i : Nat) (op : Op α lab) (hp : Heap α lab × List Obj) : Option (Heap α lab × List Obj) :=
  match hp.2[i]? with
  | none => none
  | some o =>
    match view hp.1 o with
    | none => none
    | some s =>
      match step le sch fill true op s with
      | .error _ => none
      | .ok s' =>
        match op with
        | .ungroup k => some (hp.1, hp.2.set i (o.setBundle k { (o.bundle k) with grp := none }))
        | op =>
          let r := store hp.1 op.kind o s'
          if Op.isPure op then some (r.1, hp.2 ++ [r.2]) else some (r.1, hp.2.set i r.2)

/-- a history over several live objects: (receiver index, operation) pairs -/
def hrun [BEq lab] [DecidableEq lab] [DecidableEq α] (le : lab → lab → Bool) (sch : Schema) (fill : α) :
    List (Nat × Op α lab) → Heap α lab × List Obj → Option (Heap α lab × List Obj)
  | [], hp => some hp
  | (i, op) :: rest, hp =>
    match hstep le sch fill i op hp with
    | none => none
    | some hp' => hrun le sch fill rest hp'

/-- the reference semantics WITHOUT sharing: every object is a value; a non-mutating operation appends its result,
    a mutating one replaces the receiver -/
def vstep [BEq lab] (le : lab → lab → Bool) (sch : Schema) (fill : α) (i : Nat) (op : Op α lab)
    (vs : List (St α lab)) : Option (List (St α lab)) :=
  match vs[i]? with
  | none => none
  | some s =>
    match step le sch fill true op s with
    | .error _ => none
    | .ok s' => if Op.isPure op then some (vs ++ [s']) else some (vs.set i s')

def vrun [BEq lab] (le : lab → lab → Bool) (sch : Schema) (fill : α) :
    List (Nat × Op α lab) → List (St α lab) → Option (List (St α lab))
  | [], vs => some vs
  | (i, op) :: rest, vs =>
    match vstep le sch fill i op vs with
    | none => none
    | some vs' => vrun le sch fill rest vs'

/-- the values of all live objects -/
def views (hp : Heap α lab × List Obj) : Option (List (St α lab)) := hp.2.mapM (view hp.1)

/-! ### the forbidden variant: `reorder` writes the permuted labels into the existing arrays -/

def writeCols : Heap α lab → List (Option Addr) → List (Option (List lab)) → Heap α lab
  | h, some a :: as, some l :: ls => writeCols (h.set a (.lab l)) as ls
  | h, _ :: as, _ :: ls => writeCols h as ls
  | h, _, _ => h

/-- `reorder_<k>` with `self._taxa[:] = self._taxa[indices]`: data rebound, label arrays overwritten in place,
    cached group tables dropped -/
def hstepInPlace [BEq lab] [DecidableEq lab] [DecidableEq α] (le : lab → lab → Bool) (sch : Schema) (fill : α)
    (i : Nat) (op : Op α lab) (hp : Heap α lab × List Obj) : Option (Heap α lab × List Obj) :=
  match op with
  | .reorder k _ =>
    match hp.2[i]? with
    | none => none
    | some o =>
      match view hp.1 o with
      | none => none
      | some s =>
        match step le sch fill true op s with
        | .error _ => none
        | .ok s' =>
          let h1 := hp.1 ++ [.data s'.mat]
          let h2 := writeCols h1 (o.bundle k).cols (s'.bundle k).cols
          let o' := { (o.setBundle k { (o.bundle k) with grp := none }) with mat := hp.1.length }
          some (h2, hp.2.set i o')
  | op => hstep le sch fill i op hp

end LabelHeap
