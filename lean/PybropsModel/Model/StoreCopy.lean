/-
Copy semantics (C16): a heap of array buffers with identities, objects whose fields refer to
buffers, `__copy__` / `__deepcopy__` as the classes implement them (every field is rebuilt through
`copy.copy` / `copy.deepcopy` and handed to the constructor; `numpy.ndarray.__copy__` and
`__deepcopy__` both allocate a fresh buffer; `copy.copy(dict)` makes a new dictionary holding the
same values), in-place mutation of a buffer.

Trusted: `copy.copy` / `copy.deepcopy` of a numpy array return a fresh buffer with equal contents.
Core Lean only.
-/
import PybropsModel.Model.Store

namespace StoreCopy
open Store

abbrev Addr := Nat
/-- the heap: buffer `a` is `h[a]` -/
abbrev Heap := List DS

/-- value inside a nested dictionary: immutable Python value or reference to an array buffer -/
inductive DVal
  | imm (d : DS)
  | ref (a : Addr)
  deriving DecidableEq, Repr, Inhabited

/-- field value: `None`, immutable Python value (int, str, float), array reference, dictionary -/
inductive Val
  | none
  | imm (d : DS)
  | ref (a : Addr)
  | dict (kvs : List (String × DVal))
  deriving DecidableEq, Repr, Inhabited

abbrev HObj := List (String × Val)

def deref (h : Heap) (a : Addr) : DS := h.getD a default

def viewD (h : Heap) : DVal → Option DS
  | .imm d => some d
  | .ref a => some (deref h a)

def viewV (h : Heap) : Val → Item
  | .none => .none
  | .imm d => .data d
  | .ref a => .data (deref h a)
  | .dict kvs => .dict (kvs.map (fun kv => (kv.1, viewD h kv.2)))

/-- observable state of an object -/
def view (h : Heap) (o : HObj) : Obj := o.map (fun kv => (kv.1, viewV h kv.2))

/-- addresses an object can reach -/
def refsD : List (String × DVal) → List Addr
  | [] => []
  | (_, .ref a) :: r => a :: refsD r
  | (_, .imm _) :: r => refsD r

def refsV : Val → List Addr
  | .ref a => [a]
  | .dict kvs => refsD kvs
  | _ => []

def refs : HObj → List Addr
  | [] => []
  | (_, v) :: r => refsV v ++ refs r

/-- addresses reached through a dictionary-valued field only (the arrays inside `hyperparams`) -/
def dictRefs : HObj → List Addr
  | [] => []
  | (_, .dict kvs) :: r => refsD kvs ++ dictRefs r
  | (_, .none) :: r => dictRefs r
  | (_, .imm _) :: r => dictRefs r
  | (_, .ref _) :: r => dictRefs r

/-- `numpy.ndarray.__copy__` / `__deepcopy__`: a fresh buffer with the same contents -/
def copyArr (h : Heap) (a : Addr) : Heap × Addr := (h ++ [deref h a], h.length)

def deepD : Heap → List (String × DVal) → Heap × List (String × DVal)
  | h, [] => (h, [])
  | h, (k, .imm d) :: r => let (h2, r') := deepD h r; (h2, (k, .imm d) :: r')
  | h, (k, .ref a) :: r =>
    let (h1, a') := copyArr h a
    let (h2, r') := deepD h1 r
    (h2, (k, .ref a') :: r')

/-- `copy.copy(v)` (`deep = false`) / `copy.deepcopy(v)` (`deep = true`) of one field -/
def copyVal (deep : Bool) (h : Heap) : Val → Heap × Val
  | .none => (h, .none)
  | .imm d => (h, .imm d)
  | .ref a => let (h1, a') := copyArr h a; (h1, .ref a')
  | .dict kvs => if deep then (let (h1, kvs') := deepD h kvs; (h1, .dict kvs')) else (h, .dict kvs)

/-- `__copy__` / `__deepcopy__`: every field copied in turn, then handed to the constructor -/
def copyObj (deep : Bool) : Heap → HObj → Heap × HObj
  | h, [] => (h, [])
  | h, (k, v) :: r =>
    let (h1, v') := copyVal deep h v
    let (h2, r') := copyObj deep h1 r
    (h2, (k, v') :: r')

/-- in-place modification of a buffer (`arr[...] = …`) -/
def poke (h : Heap) (a : Addr) (d : DS) : Heap := h.set a d

def pokes (h : Heap) : List (Addr × DS) → Heap
  | [] => h
  | (a, d) :: r => pokes (poke h a d) r

/-- the deterministic "change every element" used by the correspondence harness -/
def bump (d : DS) : DS :=
  { d with ints := d.ints.map (fun i => if d.dtype == .bool then 1 - i else if d.dtype == .i8 then wrap8 (i + 1) else i + 1),
           rats := d.rats.map (· + 1),
           strs := d.strs.map (· ++ "_x") }

/-- allocate the arrays of an observable object on a heap: scalars and strings are immutable
    Python values, everything with a shape is an array buffer -/
def allocD : Heap → List (String × Option DS) → Heap × List (String × DVal)
  | h, [] => (h, [])
  | h, (k, v) :: r =>
    match v with
    | none => allocD h r
    | some d =>
      if d.shape == [] then
        let (h2, r') := allocD h r; (h2, (k, .imm d) :: r')
      else
        let (h2, r') := allocD (h ++ [d]) r; (h2, (k, .ref h.length) :: r')

def allocObj : Heap → Obj → Heap × HObj
  | h, [] => (h, [])
  | h, (k, it) :: r =>
    match it with
    | .data d =>
      if d.shape == [] then
        let (h2, r') := allocObj h r; (h2, (k, .imm d) :: r')
      else
        let (h2, r') := allocObj (h ++ [d]) r; (h2, (k, .ref h.length) :: r')
    | .dict kvs =>
      let (h1, kvs') := allocD h kvs
      let (h2, r') := allocObj h1 r
      (h2, (k, .dict kvs') :: r')
    | _ => let (h2, r') := allocObj h r; (h2, (k, .none) :: r')

/-! ### histories over one live object: copies taken at any time, in-place writes in between -/

/-- one step of a copy history: `copy.copy` / `copy.deepcopy` (or the method forms) of the live source
    object, or an in-place write `arr[...] = d` to any buffer of the heap (of the source, of any copy) -/
inductive COp
  | copy (deep : Bool)
  | write (a : Addr) (d : DS)
  deriving Repr

structure CState where
  heap : Heap
  src : HObj
  copies : List HObj

def stepC (s : CState) : COp → CState
  | .copy deep =>
    let r := copyObj deep s.heap s.src
    { heap := r.1, src := s.src, copies := s.copies ++ [r.2] }
  | .write a d => { heap := poke s.heap a d, src := s.src, copies := s.copies }

def runC (s : CState) (ops : List COp) : CState := ops.foldl stepC s

/-- the buffer behind the array-valued field `k` of an object -/
def fieldRef (o : HObj) (k : String) : Option Addr :=
  match o.lookup k with
  | some (.ref a) => some a
  | _ => none

end StoreCopy
