/-
Model of pybrops/breed/arch/RecurrentSelectionBreedingProgram.py : reset / advance / evolve.
Core Lean only; executed by the driver with scripted operators.

* A small statement language (`Stmt`) and the three method bodies as statement lists (`Schedule`);
  the schedule of the *current* source is regenerated on every run by harness/props/c20.py into
  PybropsModel/Generated/C20Schedule.lean — statement by statement, in source order, with the
  keyword arguments as written (nothing is normalised by the translator).
* Heap semantics: a heap is a list of cells (address = index, allocation = append); a cell holds
  data and *references to other cells* (an object graph with sharing and cycles); the five start
  containers, the five working containers and the local variables are references into it.
  `copy.deepcopy(self.start_X)` is modelled on the graph: every cell that existed when the programme
  was initialised is copied to fresh addresses with its internal references redirected to the copies
  (the part reachable from the copied root is an isomorphic, disjoint graph; the rest is garbage).
  What an operator / the logbook is handed is observed as the depth-bounded unfolding (`view`) of
  the graph below the reference.
* Operators, the logbook and the initialisation operator are *arbitrary* functions
  (`Ops`) that thread an internal state `σ`, may mutate the heap, allocate, and return references.
* The semantics itself records the trace (`Event`): what every operator/logbook call was handed
  (references + contents at entry), what it returned (references + contents at return), the clock,
  the replicate counter and the contents of the start containers at that moment.
* `specTrace` is the decidable Spec of property C20 on a trace; the driver evaluates the same
  function on the trace recorded from the real class.
* `WellFormed` (Model/ProgramSym.lean) is a dataflow analysis of a schedule by symbolic execution.
-/
namespace Program

abbrev Ref := Nat
abbrev Heap (V : Type) := List V

/-- a heap cell: data and references to other cells -/
structure Cell (V : Type) where
  data : V
  refs : List Ref
  deriving DecidableEq, Repr

/-- observation of the object graph below a reference: the pre-order list of (depth, data) of its
    unfolding to a bounded depth (sharing and cycles are unfolded) -/
abbrev View (V : Type) := List (Nat × V)

def view {V : Type} : Nat → Heap (Cell V) → Ref → View V
  | 0, h, a =>
    match h[a]? with
    | none => []
    | some c => [(0, c.data)]
  | k + 1, h, a =>
    match h[a]? with
    | none => []
    | some c => (0, c.data) :: c.refs.flatMap (fun r => (view k h r).map (fun p => (p.1 + 1, p.2)))

def viewO {V : Type} (k : Nat) (h : Heap (Cell V)) (a : Ref) : Option (View V) :=
  if a < h.length then some (view k h a) else none

/-- `copy.deepcopy` on the graph: the cells below `n0` are appended as copies, references into
    that prefix redirected to the copies; the copy of cell `a` is cell `a + (old length)` -/
def shiftCell {V : Type} (n0 len : Nat) (c : Cell V) : Cell V :=
  { c with refs := c.refs.map (fun r => if r < n0 then r + len else r) }

def deepCopyAll {V : Type} (n0 : Nat) (h : Heap (Cell V)) : Heap (Cell V) :=
  h ++ (h.take n0).map (shiftCell n0 h.length)

/-- a copy that stops `k` levels down (`k = 1`: `dict(x)` / `copy.copy(x)`; `k = 2`:
    `{key: copy.copy(v) for key, v in x.items()}`; …): the cells of the first `k` levels below `a` are
    copied (without memo: an object reached twice is copied twice), everything deeper is shared with
    the original.  Returns the new heap and the address of the copy. -/
def levelCopy {V : Type} : Nat → Heap (Cell V) → Ref → Heap (Cell V) × Ref
  | 0, h, a => (h, a)
  | k + 1, h, a =>
    match h[a]? with
    | none => (h, a)
    | some c =>
      let r := c.refs.foldl (fun (acc : Heap (Cell V) × List Ref) x =>
        let p := levelCopy k acc.1 x
        (p.1, acc.2 ++ [p.2])) (h, [])
      (r.1 ++ [{ data := c.data, refs := r.2 }], r.1.length)

/-- reference-valued program variables: `self._genome … self._gmod` and numbered local variables
    (`mcfg`, `misc`, … — the translator numbers the locals of each method) -/
inductive Reg | genome | geno | pheno | bval | gmod | loc (n : Nat)
  deriving DecidableEq, Repr

/-- keyword names of operator / logbook calls (`miscout = x` and `**x` both bind `misc`) -/
inductive Kw | genome | geno | pheno | bval | gmod | mcfg | misc
  deriving DecidableEq, Repr

inductive OpK | pselect | mate | evaluate | sselect
  deriving DecidableEq, Repr

inductive LogK | initialize | pselect | mate | evaluate | sselect
  deriving DecidableEq, Repr

inductive Stmt
  | skip                                                -- `if verbose: print(...)`, `pass`
  | initIfNeeded                                        -- `if not self.is_initialized(): self.initialize()`
  | ngenDefault                                         -- `if ngen is None: ngen = self._t_max`
  | incRep                                              -- `lbook.rep += 1`
  | callReset                                           -- `self.reset()`
  | callAdvance                                         -- `self.advance(ngen = ngen, lbook = lbook, ...)`
  | copyStart (dst : Reg) (src : Nat)                   -- `X = copy.deepcopy(self.start_Y)`
  | aliasStart (dst : Reg) (src : Nat)                  -- `X = self.start_Y`
  | shallowCopyStart (dst : Reg) (src : Nat)            -- `X = dict(self.start_Y)` / `copy.copy(self.start_Y)`
  | levelCopyStart (dst : Reg) (src : Nat) (k : Nat)    -- `X = {key: copy.copy(v) for key, v in self.start_Y.items()}` (k = 2), …
  | setT0                                               -- `self.t_cur = 0`
  | tick                                                -- `self.t_cur += 1`
  | newDict (dst : Reg)                                 -- `x = {}`
  | move (dst src : Reg)                                -- `x = y`
  | call (op : OpK) (args : List (Kw × Reg)) (rets : List Reg)   -- `rets = self._op.m(kw = x, …, t_cur, t_max)`
  | log (k : LogK) (guarded : Bool) (args : List (Kw × Reg))     -- `lbook.log_k(kw = x, …, t_cur, t_max, **m)`; guarded = under `if loginit:`
  deriving DecidableEq, Repr

/-- the three methods: `evolve` = pre; `for r in range(nrep)`: rep; post —
    `advance` = pre; `for _ in range(ngen)`: gen; post — `reset` -/
structure Schedule where
  evolvePre : List Stmt
  evolveRep : List Stmt
  evolvePost : List Stmt
  reset : List Stmt
  advancePre : List Stmt
  advanceGen : List Stmt
  advancePost : List Stmt
  deriving DecidableEq, Repr

open Reg in
def five : List Reg := [genome, geno, pheno, bval, gmod]

def fiveKw : List Kw := [.genome, .geno, .pheno, .bval, .gmod]

/-- keyword parameters of the operator methods, in the order of their signatures -/
def opKws : OpK → List Kw
  | .mate => .mcfg :: fiveKw ++ [.misc]
  | _ => fiveKw ++ [.misc]

def logKws : LogK → List Kw
  | .pselect => .mcfg :: fiveKw ++ [.misc]
  | .mate => .mcfg :: fiveKw ++ [.misc]
  | _ => fiveKw ++ [.misc]

/-- number of values an operator must return (`pselect` also returns the mating configuration) -/
def arity : OpK → Nat
  | .pselect => 6
  | _ => 5

def lookupKw (k : Kw) : List (Kw × Reg) → Option Reg
  | [] => none
  | (k', r) :: rest => if k' = k then some r else lookupKw k rest

/-- Python keyword binding: the variable passed for each parameter of the callee, in signature
    order (`none` = a required argument is missing, the call raises) -/
def bindArgs : List Kw → List (Kw × Reg) → Option (List Reg)
  | [], _ => some []
  | k :: ks, args =>
    match lookupKw k args, bindArgs ks args with
    | some r, some rs => some (r :: rs)
    | _, _ => none

/-- the call skeleton the property describes, written with locals 0 (`mcfg`) and 1 (`misc`) -/
def canonical : Schedule where
  evolvePre := [.initIfNeeded]
  evolveRep := [.incRep, .callReset, .newDict (.loc 1),
                .call .evaluate (kw5 ++ [(.misc, .loc 1)]) five,
                .log .initialize true (kw5 ++ [(.misc, .loc 1)]),
                .tick, .callAdvance]
  evolvePost := []
  reset := [.copyStart .genome 0, .copyStart .geno 1, .copyStart .pheno 2, .copyStart .bval 3,
            .copyStart .gmod 4, .setT0]
  advancePre := []
  advanceGen := [.newDict (.loc 1), .call .pselect (kw5 ++ [(.misc, .loc 1)]) (.loc 0 :: five),
                 .log .pselect false ((.mcfg, .loc 0) :: kw5 ++ [(.misc, .loc 1)]),
                 .newDict (.loc 1), .call .mate ((.mcfg, .loc 0) :: kw5 ++ [(.misc, .loc 1)]) five,
                 .log .mate false ((.mcfg, .loc 0) :: kw5 ++ [(.misc, .loc 1)]),
                 .newDict (.loc 1), .call .evaluate (kw5 ++ [(.misc, .loc 1)]) five,
                 .log .evaluate false (kw5 ++ [(.misc, .loc 1)]),
                 .newDict (.loc 1), .call .sselect (kw5 ++ [(.misc, .loc 1)]) five,
                 .log .sselect false (kw5 ++ [(.misc, .loc 1)]),
                 .tick]
  advancePost := []
where
  kw5 : List (Kw × Reg) :=
    [(.genome, .genome), (.geno, .geno), (.pheno, .pheno), (.bval, .bval), (.gmod, .gmod)]

def Stmt.isSkip : Stmt → Bool
  | .skip => true
  | _ => false

def strip (l : List Stmt) : List Stmt := l.filter (fun s => !s.isSkip)

/-! ### operators, state, trace -/

/-- operators / logbook / initialisation operator: arbitrary functions threading a state `σ`.
    `op k σ heap args t_cur t_max = (σ', heap', returned references)` -/
structure Ops (σ V : Type) where
  op : OpK → σ → Heap (Cell V) → List Ref → Nat → Nat → σ × Heap (Cell V) × List Ref
  log : LogK → σ → Heap (Cell V) → List Ref → Nat → Nat → Int → σ × Heap (Cell V)
  init : σ → Heap (Cell V) → σ × Heap (Cell V) × List Ref

inductive EvKind | init | op (k : OpK) | log (k : LogK)
  deriving DecidableEq, Repr

structure Event (V : Type) where
  kind : EvKind
  t : Nat
  tmax : Nat
  rep : Int
  args : List Ref
  argVals : List (Option V)       -- contents at entry
  rets : List Ref
  retVals : List (Option V)       -- contents at return
  startVals : List (Option V)     -- contents of the five start containers at entry
  deriving Repr

/-- arguments of one `evolve(nrep, ngen, lbook, loginit)` call plus the constants of the programme;
    `ngen = none` is the documented "use `t_max`" -/
structure Cfg (V : Type) where
  nrep : Nat
  ngen : Option Nat
  tmax : Nat
  loginit : Bool
  emptyV : V                      -- data of a fresh `{}`
  depth : Nat                     -- how deep the recorded observations unfold the object graph

structure State (σ V : Type) where
  heap : Heap (Cell V)
  n0 : Nat                        -- heap size when the programme was initialised (all start containers live below)
  regs : Reg → Option Ref
  start : List (Option Ref)       -- start_genome, start_geno, start_pheno, start_bval, start_gmod
  t : Nat
  rep : Int
  ngen : Option Nat               -- the parameter `ngen` of the running evolve / advance call
  ost : σ
  trace : List (Event (View V))
  bad : Bool                      -- the Python code would have raised

def setReg (regs : Reg → Option Ref) (r : Reg) (v : Option Ref) : Reg → Option Ref :=
  fun x => if x = r then v else regs x

/-- tuple assignment `r1, r2, … = v1, v2, …` (left to right) -/
def assign (regs : Reg → Option Ref) : List Reg → List Ref → Reg → Option Ref
  | r :: rs, v :: vs => assign (setReg regs r (some v)) rs vs
  | _, _ => regs

def resolve (regs : Reg → Option Ref) : List Reg → Option (List Ref)
  | [] => some []
  | r :: rs =>
    match regs r, resolve regs rs with
    | some a, some as => some (a :: as)
    | _, _ => none

def vals {V} (k : Nat) (h : Heap (Cell V)) (rs : List Ref) : List (Option (View V)) := rs.map (viewO k h)

def startVals {V} (k : Nat) (h : Heap (Cell V)) (start : List (Option Ref)) : List (Option (View V)) :=
  start.map (fun o => o.bind (viewO k h))

section exec
variable {σ V : Type}

def State.fail (st : State σ V) : State σ V := { st with bad := true }

/-- statements that are neither a loop nor a method call -/
def execS (ops : Ops σ V) (cfg : Cfg V) (s : Stmt) (st : State σ V) : State σ V :=
  if st.bad then st else
  match s with
  | .skip => st
  | .callReset => st.fail
  | .callAdvance => st.fail
  | .incRep => { st with rep := st.rep + 1 }
  | .tick => { st with t := st.t + 1 }
  | .setT0 => { st with t := 0 }
  | .ngenDefault => { st with ngen := some (st.ngen.getD cfg.tmax) }
  | .newDict dst => { st with heap := st.heap ++ [⟨cfg.emptyV, []⟩],
                              regs := setReg st.regs dst (some st.heap.length) }
  | .move dst src =>
    match st.regs src with
    | some a => { st with regs := setReg st.regs dst (some a) }
    | none => st.fail
  | .copyStart dst src =>
    match st.start[src]? with
    | some (some a) =>
      if a < st.n0 ∧ st.n0 ≤ st.heap.length then
        { st with heap := deepCopyAll st.n0 st.heap, regs := setReg st.regs dst (some (a + st.heap.length)) }
      else st.fail
    | _ => st.fail                       -- deepcopy(None) = None is rejected by the setter
  | .shallowCopyStart dst src =>
    match st.start[src]? with
    | some (some a) =>
      match st.heap[a]? with
      | some c => { st with heap := st.heap ++ [c], regs := setReg st.regs dst (some st.heap.length) }
      | none => st.fail
    | _ => st.fail
  | .aliasStart dst src =>
    match st.start[src]? with
    | some (some a) => { st with regs := setReg st.regs dst (some a) }
    | _ => st.fail
  | .levelCopyStart dst src k =>
    match st.start[src]? with
    | some (some a) =>
      let p := levelCopy k st.heap a
      { st with heap := p.1, regs := setReg st.regs dst (some p.2) }
    | _ => st.fail
  | .initIfNeeded =>
    if st.start.all Option.isSome then st else
    let r := ops.init st.ost st.heap
    if r.2.2.length = 5 then
      { st with ost := r.1, heap := r.2.1, n0 := r.2.1.length, start := r.2.2.map some,
                trace := st.trace ++ [{ kind := .init, t := st.t, tmax := cfg.tmax, rep := st.rep,
                                        args := [], argVals := [], rets := r.2.2,
                                        retVals := vals cfg.depth r.2.1 r.2.2,
                                        startVals := startVals cfg.depth st.heap st.start }] }
    else st.fail
  | .call k args rets =>
    match (bindArgs (opKws k) args).bind (resolve st.regs) with
    | none => st.fail
    | some as =>
      let r := ops.op k st.ost st.heap as st.t cfg.tmax
      if r.2.2.length = rets.length then
        { st with ost := r.1, heap := r.2.1, regs := assign st.regs rets r.2.2,
                  trace := st.trace ++ [{ kind := .op k, t := st.t, tmax := cfg.tmax, rep := st.rep,
                                          args := as, argVals := vals cfg.depth st.heap as, rets := r.2.2,
                                          retVals := vals cfg.depth r.2.1 r.2.2,
                                          startVals := startVals cfg.depth st.heap st.start }] }
      else st.fail
  | .log k guarded args =>
    if guarded && !cfg.loginit then st else
    match (bindArgs (logKws k) args).bind (resolve st.regs) with
    | none => st.fail
    | some as =>
      let r := ops.log k st.ost st.heap as st.t cfg.tmax st.rep
      { st with ost := r.1, heap := r.2,
                trace := st.trace ++ [{ kind := .log k, t := st.t, tmax := cfg.tmax, rep := st.rep,
                                        args := as, argVals := vals cfg.depth st.heap as, rets := [],
                                        retVals := [],
                                        startVals := startVals cfg.depth st.heap st.start }] }

def execList (f : Stmt → State σ V → State σ V) (l : List Stmt) (st : State σ V) : State σ V :=
  l.foldl (fun s x => f x s) st

def iter {α} (f : α → α) : Nat → α → α
  | 0, a => a
  | n+1, a => iter f n (f a)

/-- statements of `advance` (may call `reset`) -/
def execR (ops : Ops σ V) (cfg : Cfg V) (sc : Schedule) (s : Stmt) (st : State σ V) : State σ V :=
  match s with
  | .callReset => if st.bad then st else execList (execS ops cfg) sc.reset st
  | s => execS ops cfg s st

/-- `advance(ngen, lbook)`; the generation count is the variable `ngen` of the state
    (`range(None)` raises) -/
def advance (ops : Ops σ V) (cfg : Cfg V) (sc : Schedule) (st : State σ V) : State σ V :=
  let st1 := execList (execR ops cfg sc) sc.advancePre st
  match st1.ngen with
  | none => st1.fail
  | some n =>
    let st2 := iter (execList (execR ops cfg sc) sc.advanceGen) n st1
    execList (execR ops cfg sc) sc.advancePost st2

/-- statements of `evolve` (may call `reset` and `advance`) -/
def execE (ops : Ops σ V) (cfg : Cfg V) (sc : Schedule) (s : Stmt) (st : State σ V) : State σ V :=
  match s with
  | .callAdvance => if st.bad then st else advance ops cfg sc st
  | s => execR ops cfg sc s st

/-- `evolve(nrep, ngen, lbook, loginit)` -/
def evolve (ops : Ops σ V) (cfg : Cfg V) (sc : Schedule) (st : State σ V) : State σ V :=
  let st0 := { st with ngen := cfg.ngen }
  let st1 := execList (execE ops cfg sc) sc.evolvePre st0
  let st2 := iter (execList (execE ops cfg sc) sc.evolveRep) cfg.nrep st1
  execList (execE ops cfg sc) sc.evolvePost st2

/-- a direct call `self.reset()` -/
def resetCall (ops : Ops σ V) (cfg : Cfg V) (sc : Schedule) (st : State σ V) : State σ V :=
  execR ops cfg sc .callReset st

/-- a direct call `self.advance(ngen, lbook)` -/
def advanceCall (ops : Ops σ V) (cfg : Cfg V) (sc : Schedule) (st : State σ V) : State σ V :=
  advance ops cfg sc { st with ngen := cfg.ngen }

end exec

/-! ### the Spec of C20 on a trace (decidable; also evaluated on the implementation's trace) -/

section spec
variable {V : Type} [DecidableEq V]

/-- a handed-over container: reference and content -/
abbrev Item (V : Type) := Ref × Option V

def items (rs : List Ref) (vs : List (Option V)) : List (Item V) := List.zip rs vs

/-- "the operator is handed what its predecessor returned": position-wise relation `R` between
    what was returned (reference, content at return) and what is received (reference, content
    at entry).  The property theorems hold for every `R` that relates equal references; the
    oracle uses `sameOrEqual`. -/
def handed (R : Item V → Item V → Bool) (given recv : List (Item V)) : Bool :=
  given.length == recv.length && (List.zip given recv).all (fun p => R p.1 p.2)

def sameRef : Item V → Item V → Bool := fun a b => a.1 == b.1
def sameOrEqual : Item V → Item V → Bool := fun a b => a.1 == b.1 || a.2 == b.2

def Event.argItems (e : Event V) : List (Item V) := items e.args e.argVals
def Event.retItems (e : Event V) : List (Item V) := items e.rets e.retVals

/-- common part: kind, clock, start containers untouched -/
def evOk (V0 : List (Option V)) (k : EvKind) (t : Nat) (e : Event V) : Bool :=
  e.kind == k && e.t == t && e.startVals == V0

/-- one generation: eight events starting from the containers `cur` at time `t`;
    returns the containers held afterwards -/
def checkGen (R : Item V → Item V → Bool) (V0 : List (Option V)) (t : Nat) (cur : List (Item V)) :
    List (Event V) → Option (List (Item V) × List (Event V))
  | e1 :: e2 :: e3 :: e4 :: e5 :: e6 :: e7 :: e8 :: rest =>
    let r1 := e1.retItems          -- mcfg :: five
    let r3 := e3.retItems
    let r5 := e5.retItems
    let r7 := e7.retItems
    if evOk V0 (.op .pselect) t e1 && handed R cur (e1.argItems.take 5) && r1.length == 6
      && evOk V0 (.log .pselect) t e2 && handed R r1 (e2.argItems.take 6)
      && evOk V0 (.op .mate) t e3 && handed R r1 (e3.argItems.take 6) && r3.length == 5
      && evOk V0 (.log .mate) t e4 && handed R (r1.take 1 ++ r3) (e4.argItems.take 6)
      && evOk V0 (.op .evaluate) t e5 && handed R r3 (e5.argItems.take 5) && r5.length == 5
      && evOk V0 (.log .evaluate) t e6 && handed R r5 (e6.argItems.take 5)
      && evOk V0 (.op .sselect) t e7 && handed R r5 (e7.argItems.take 5) && r7.length == 5
      && evOk V0 (.log .sselect) t e8 && handed R r7 (e8.argItems.take 5)
    then some (r7, rest) else none
  | _ => none

def checkGens (R : Item V → Item V → Bool) (V0 : List (Option V)) :
    Nat → Nat → List (Item V) → List (Event V) → Option (List (Event V))
  | 0, _, _, evs => some evs
  | n+1, t, cur, evs =>
    match checkGen R V0 t cur evs with
    | none => none
    | some (cur', rest) => checkGens R V0 n (t+1) cur' rest

/-- one replicate: the initial evaluation at time 0 of containers whose contents equal the initial
    state, its log entry (when `loginit`), then `ngen` generations at times 1, 2, … -/
def checkRep (R : Item V → Item V → Bool) (V0 : List (Option V)) (loginit : Bool) (ngen : Nat) :
    List (Event V) → Option (List (Event V))
  | e0 :: rest =>
    if evOk V0 (.op .evaluate) 0 e0 && e0.argVals.take 5 == V0 && e0.retItems.length == 5 then
      if loginit then
        match rest with
        | e1 :: rest' =>
          if evOk V0 (.log .initialize) 0 e1 && handed R e0.retItems (e1.argItems.take 5) then
            checkGens R V0 ngen 1 e0.retItems rest'
          else none
        | [] => none
      else checkGens R V0 ngen 1 e0.retItems rest
    else none
  | [] => none

def checkReps (R : Item V → Item V → Bool) (V0 : List (Option V)) (loginit : Bool) (ngen : Nat) :
    Nat → List (Event V) → Option (List (Event V))
  | 0, evs => some evs
  | n+1, evs =>
    match checkRep R V0 loginit ngen evs with
    | none => none
    | some rest => checkReps R V0 loginit ngen n rest

/-- when `loginit = false` the property does not speak about a log entry of the initial
    evaluation: such entries are ignored -/
def dropInitLogs (evs : List (Event V)) : List (Event V) :=
  evs.filter (fun e => !(e.kind == EvKind.log .initialize))

/-- **Spec of C20** on the trace of one `evolve` call.  `V0given` = contents of the start
    containers before the call; if the trace begins with an initialisation event the initial
    state is what that operator returned. -/
def specTrace (R : Item V → Item V → Bool) (nrep ngen : Nat) (loginit : Bool)
    (V0given : List (Option V)) (trace : List (Event V)) : Bool :=
  let (V0, body) := match trace with
    | e :: rest => if e.kind == EvKind.init then (e.retVals, rest) else (V0given, trace)
    | [] => (V0given, trace)
  let body := if loginit then body else dropInitLogs body
  V0.length == 5 && V0.all Option.isSome &&
    (match checkReps R V0 loginit ngen nrep body with
     | some [] => true
     | _ => false)

/-- Spec of a direct `advance(ngen)` call made at clock `t` while holding the containers `cur` -/
def specAdvance (R : Item V → Item V → Bool) (ngen t : Nat) (V0 : List (Option V)) (cur : List (Item V))
    (trace : List (Event V)) : Bool :=
  match checkGens R V0 ngen t cur trace with
  | some [] => true
  | _ => false

/-- replicate counter: the events of replicate `r` (0-based) carry `rep0 + r + 1` -/
def repsOf (rep0 : Int) (loginit : Bool) (ngen : Nat) (nrep : Nat) : List Int :=
  (List.range nrep).flatMap (fun (r : Nat) =>
    List.replicate (1 + (if loginit then 1 else 0) + 8 * ngen) (rep0 + Int.ofNat r + 1))

/-- the part of the trace of one `evolve` call the Spec speaks about: without the optional
    initialisation event and, when `loginit = false`, without log entries of the initial evaluation -/
def specBody (loginit : Bool) (trace : List (Event V)) : List (Event V) :=
  let body := match trace with
    | e :: rest => if e.kind == EvKind.init then rest else trace
    | [] => trace
  if loginit then body else dropInitLogs body

/-- **replicate-counter clause of the Spec** ("logging ... independent replicates"): the replicate
    number every call of the trace sees (`lbook.rep`) is constant within a replicate and grows by
    exactly one from each replicate to the next (whatever its value before the call was) -/
def repsOK (loginit : Bool) (ngen nrep : Nat) (reps : List Int) : Bool :=
  match reps with
  | [] => true
  | r0 :: _ => reps == repsOf (r0 - 1) loginit ngen nrep

/-- the complete run-time oracle: call protocol (`specTrace`) and replicate counter (`repsOK`) -/
def specFull (R : Item V → Item V → Bool) (nrep ngen : Nat) (loginit : Bool)
    (V0given : List (Option V)) (trace : List (Event V)) : Bool :=
  specTrace R nrep ngen loginit V0given trace &&
    repsOK loginit ngen nrep ((specBody loginit trace).map (fun e => e.rep))

end spec
end Program
