/-
Model of pybrops/core/util/mate.py (`dense_meiosis`, `dense_dh`, `dense_cross`) — the duplicate family of
pybrops/breed/prot/mate/util.py used by `DenseExpectedMaximumBreedingValueMatrix` — transcribed at the
level of the array operations the code performs:

    gamete = numpy.empty(gshape, dtype = geno.dtype)          -- arbitrary content: an oracle input `emp`
    for i,s in enumerate(sel):
        xoix = numpy.flatnonzero(rnd[i] < xoprob); phase = 0; stix = 0
        for spix in xoix:
            gamete[i,stix:spix] = geno[phase,s,stix:spix]     -- `sliceAssign`
            stix = spix; phase = 1 - phase
        gamete[i,stix:] = geno[phase,s,stix:]

`Meiosis.segLoop` (Model/Meiosis.lean) describes the same loop by the concatenation of the copied
segments; here the output buffer is explicit, so "every cell of the uninitialised buffer is overwritten"
is part of what `Lemmas/DenseMate.lean` proves (`denseMeiosisE_eq`: the result does not depend on `emp`
and equals `Meiosis.meiosisE`).  Core Lean only.
-/
import PybropsModel.Model.Meiosis

namespace DenseMate
open Meiosis

section
variable {α ρ : Type}

/-- numpy basic-slice assignment `buf[st:sp] = src[st:sp]` on rows of equal length (`sp < st`: empty slice) -/
def sliceAssign (buf src : List α) (st sp : Nat) : List α :=
  if sp < st then buf else buf.take st ++ ((src.drop st).take (sp - st) ++ buf.drop sp)

/-- the inner loop over `xoix` with the output row `buf` as explicit state, then the final tail copy -/
def rowLoop (h0 h1 : List α) : List α → Nat → Bool → List Nat → List α
  | buf, stix, ph, [] => sliceAssign buf (if ph then h1 else h0) stix buf.length
  | buf, stix, ph, sp :: rest =>
      rowLoop h0 h1 (sliceAssign buf (if ph then h1 else h0) stix sp) sp (!ph) rest

/-- one row of `dense_meiosis`; `buf` = that row of the `numpy.empty` buffer -/
def denseRow (buf : List α) (ind : Ind α) (mask : List Bool) : Hap α :=
  rowLoop ind.1 ind.2 buf 0 false (Np.flatnonzero mask)

/-- `for i,s in enumerate(sel)` over the rows of the draws and of the uninitialised buffer -/
def rowsE [LT ρ] [DecidableLT ρ] (pop : Pop α) (xo : List ρ) :
    List Nat → DrawMat ρ → List (List α) → Except Err (List (Hap α))
  | [], _, _ => .ok []
  | s :: sel, rnd, emp =>
    match pop[s]? with
    | none => .error .index
    | some ind =>
      match rowsE pop xo sel rnd.tail emp.tail with
      | .error e => .error e
      | .ok gs => .ok (denseRow (emp.headD []) ind (xoMask (rnd.headD []) xo) :: gs)

/-- `dense_meiosis(geno, sel, xoprob, rng)`: `rnd` = the draws of its `rng.uniform` call, `emp` = the
    content of the `numpy.empty((len(sel), len(xoprob)))` buffer it allocates -/
def denseMeiosisE [LT ρ] [DecidableLT ρ] (pop : Pop α) (sel : List Nat) (xo : List ρ) (rnd : DrawMat ρ)
    (emp : List (List α)) : Except Err (List (Hap α)) :=
  if drawsShaped sel.length xo.length rnd && drawsShaped sel.length xo.length emp
  then rowsE pop xo sel rnd emp else .error .oracle

/-- `dense_dh`: one gamete matrix stacked twice -/
def denseDhE [LT ρ] [DecidableLT ρ] (pop : Pop α) (sel : List Nat) (xo : List ρ) :
    List (DrawMat ρ) → List (List (List α)) → Except Err (Pop α × List (DrawMat ρ))
  | r :: rest, e :: _ =>
    match denseMeiosisE pop sel xo r e with
    | .error err => .error err
    | .ok g => .ok (g.map (fun h => (h, h)), rest)
  | _, _ => .error .oracle

/-- `dense_cross`: female gametes (first call) → phase 0, male gametes (second call) → phase 1 -/
def denseCrossE [LT ρ] [DecidableLT ρ] (fpop mpop : Pop α) (fsel msel : List Nat) (xo : List ρ) :
    List (DrawMat ρ) → List (List (List α)) → Except Err (Pop α × List (DrawMat ρ))
  | rf :: rm :: rest, ef :: em :: _ =>
    match denseMeiosisE fpop fsel xo rf ef with
    | .error e => .error e
    | .ok fg =>
      match denseMeiosisE mpop msel xo rm em with
      | .error e => .error e
      | .ok mg => if fg.length = mg.length then .ok (List.zip fg mg, rest) else .error .value
  | _, _ => .error .oracle

end

end DenseMate
