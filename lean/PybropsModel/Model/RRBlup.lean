/-
Model of pybrops/model/gmod/rrBLUPModel0.py (core Lean only; executed at `Rat`).

  gauss_seidel(A, b, atol, maxiter)      literal transcription (sweep = in-place coordinate updates)
  rrBLUP_ML0(y, Z, ...)                  centring, Z'Z + ridge I, Z'y, Gauss–Seidel, betahat = mean;
                                         the ML ridge (Nelder–Mead on the spectral likelihood) is an
                                         oracle input
  rrBLUPModel0.fit_numpy(Y, X, Z)        polymorphism mask, per-trait solve, scatter of the effects
-/
import PybropsModel.Model.GenomicModel

namespace RRBlup
open GMod

section gs
variable {α : Type} [Add α] [Mul α] [Sub α] [Div α] [Zero α] [LT α] [DecidableLT α]

/-- `xcurr[i] = (b[i] - A[i,:i].dot(xcurr[:i]) - A[i,i+1:].dot(xcurr[i+1:])) / A[i,i]` -/
def gsCoord (A : List (List α)) (b x : List α) (i : Nat) : List α :=
  let row := A.getD i []
  x.set i ((b.getD i 0 - dot (row.take i) (x.take i) - dot (row.drop (i+1)) (x.drop (i+1)))
            / row.getD i 0)

/-- `for i in range(nmkr): …` -/
def gsSweep (A : List (List α)) (b x : List α) : List α :=
  (List.range b.length).foldl (gsCoord A b) x

/-- `numpy.abs` of one entry -/
def absv (d : α) : α := if d < 0 then 0 - d else d

/-- `numpy.any(numpy.abs(xcurr - xprev) > atol)` -/
def moved (atol : α) (xcurr xprev : List α) : Bool :=
  (List.zipWith (fun a b => decide (atol < absv (a - b))) xcurr xprev).any id

/-- the `while numpy.any(adiff > atol) and niter < maxiter` loop; `fuel` = sweeps still allowed,
    `cont` = value of the tolerance test -/
def gsLoop (A : List (List α)) (b : List α) (atol : α) : Nat → Bool → List α → List α
  | 0, _, x => x
  | fuel+1, cont, x =>
    if cont then
      let x' := gsSweep A b x
      gsLoop A b atol fuel (moved atol x' x) x'
    else x

/-- `gauss_seidel(A, b, atol, maxiter)` as repaired (D22b): `adiff = numpy.inf` before the loop, so the first
    test `numpy.any(adiff > atol)` is true for EVERY tolerance, `atol = 0` included -/
def gaussSeidel (A : List (List α)) (b : List α) (atol : α) (maxiter : Nat) : List α :=
  gsLoop A b atol maxiter true (b.map (fun _ => (0 : α)))

/-- the pre-repair function: `adiff = 2*atol`, first test `2*atol > atol` (false for `atol ≤ 0`: no sweep) -/
def gaussSeidelPrerepair (A : List (List α)) (b : List α) (atol : α) (maxiter : Nat) : List α :=
  gsLoop A b atol maxiter (decide (atol < atol + atol)) (b.map (fun _ => (0 : α)))

/-- number of sweeps the loop performs (for the evidence and the "stopped by tolerance" hypothesis) -/
def gsSweeps (A : List (List α)) (b : List α) (atol : α) : Nat → Bool → List α → Nat
  | 0, _, _ => 0
  | fuel+1, cont, x =>
    if cont then
      let x' := gsSweep A b x
      gsSweeps A b atol fuel (moved atol x' x) x' + 1
    else 0

end gs

section ml0
variable {α : Type} [Add α] [Mul α] [Sub α] [Div α] [Zero α] [One α] [NatCast α] [LT α] [DecidableLT α]

/-- transposed matrix as list of columns (`p` columns) -/
def cols (Z : List (List α)) (p : Nat) : List (List α) := (List.range p).map (col Z)

/-- `Z.T @ Z` with `ridge` added to the diagonal -/
def ztzPlusRidge (Z : List (List α)) (p : Nat) (ridge : α) : List (List α) :=
  (List.range p).map (fun i => (List.range p).map (fun j =>
    if i = j then dot (col Z i) (col Z j) + ridge else dot (col Z i) (col Z j)))

/-- `Z.T @ y` -/
def zty (Z : List (List α)) (p : Nat) (y : List α) : List α := (List.range p).map (fun i => dot (col Z i) y)

/-- `y - y.mean()` -/
def center (y : List α) : List α := y.map (fun v => v - mean y)

/-- larger of two (numpy `max` of a pair) -/
def maxv (a b : α) : α := if a < b then b else a

/-- `numpy.abs(Zty - ZtZplI.dot(uhat)).max()` (0 for an empty system) -/
def residMax (A : List (List α)) (b u : List α) : α :=
  (List.zipWith (fun r bi => absv (bi - dot r u)) A b).foldl maxv 0

/-- `numpy.abs(ZtZplI).sum(1).max()` -/
def rowAbsMax (A : List (List α)) : α := (A.map (fun r => (r.map absv).sum)).foldl maxv 0

/-- the solve step of the repaired `rrBLUP_ML0` (D22): keep the Gauss–Seidel iterate `u` when
    `resid <= 2*gsatol*max_i sum_j |A_ij|`, otherwise the direct solution `solve A b`
    (`numpy.linalg.solve`, entered through its contract `A x = b`) -/
def solveStep (solve : List (List α) → List α → List α) (A : List (List α)) (b : List α) (atol : α)
    (u : List α) : List α :=
  if (atol + atol) * rowAbsMax A < residMax A b u then solve A b else u

/-- `rrBLUP_ML0` as repaired (D22 + D22b): returns `(betahat, uhat)`; `ridge` = varE/varU chosen by the ML
    step (oracle); `solve` = the direct solver used when Gauss–Seidel stopped far from the solution -/
def ml0 (solve : List (List α) → List α → List α) (y : List α) (Z : List (List α)) (p : Nat)
    (ridge atol : α) (maxiter : Nat) : α × List α :=
  let A := ztzPlusRidge Z p ridge
  let b := zty Z p (center y)
  (mean y, solveStep solve A b atol (gaussSeidel A b atol maxiter))

/-- the pre-repair `rrBLUP_ML0`: the Gauss–Seidel iterate as it is, whatever its residual -/
def ml0Prerepair (y : List α) (Z : List (List α)) (p : Nat) (ridge atol : α) (maxiter : Nat) : α × List α :=
  (mean y, gaussSeidelPrerepair (ztzPlusRidge Z p ridge) (zty Z p (center y)) atol maxiter)

/-- penalised least-squares criterion of the fitted model: `‖y - mean - Z u‖² + ridge ‖u‖²` -/
def psse (y : List α) (Z : List (List α)) (ridge : α) (u : List α) : α :=
  (List.zipWith (fun yc z => (yc - dot z u) * (yc - dot z u)) (center y) Z).sum + ridge * dot u u

end ml0

section fit
variable {α : Type} [Add α] [Mul α] [Sub α] [Div α] [Zero α] [One α] [NatCast α] [DecidableEq α]

/-- `~numpy.all(Z == Z[0,:], axis = 0)` -/
def isPoly (Z : List (List α)) (p : Nat) : List Bool :=
  (List.range p).map (fun j => !(col Z j).all (fun v => decide (v = (Z.headD []).getD j 0)))

/-- `Z[:, ispolymorphic]` -/
def selectCols (mask : List Bool) (Z : List (List α)) : List (List α) := Z.map (Np.compress mask)

/-- `u_a[ispolymorphic,:] = uhat ; u_a[~ispolymorphic,:] = 0` -/
def scatter (t : Nat) : List Bool → List (List α) → List (List α)
  | [], _ => []
  | true :: m, r :: rs => r :: scatter t m rs
  | true :: m, [] => List.replicate t 0 :: scatter t m []
  | false :: m, rs => List.replicate t 0 :: scatter t m rs

/-- `fit_numpy`: `solve k y Zpoly` is the marker-effect vector the per-trait solver returns for
    trait `k` (oracle or `ml0`); result = `(beta (1,t), u_a (p,t))` -/
def fitNumpy (Y Z : List (List α)) (p t : Nat) (solve : Nat → List α → List (List α) → List α) :
    List (List α) × List (List α) :=
  let mask := isPoly Z p
  let Zp := selectCols mask Z
  let sols := (List.range t).map (fun k => solve k (col Y k) Zp)
  let np := mask.count true
  -- numpy.stack(uhat_k, axis = 1): row j = (uhat_0[j], …, uhat_{t-1}[j])
  let uhat := (List.range np).map (fun j => sols.map (fun s => s.getD j 0))
  ([(List.range t).map (fun k => mean (col Y k))], scatter t mask uhat)

end fit

end RRBlup
